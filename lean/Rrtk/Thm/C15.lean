/-
C15 — Settable bookkeeping (`last_request`, following — including WHICH getter is followed), `GetterFromHistory` offsets, `ConstantGetter`,
`TimeGetterFromGetter`.  Tier S throughout: the payload type `T` is arbitrary, clocks and offsets are `Int`
(the property quantifies over clock values / offsets that do not overflow).
-/
import Rrtk.Settable
import Rrtk.Streams.Stateless
set_option linter.unusedSectionVars false
set_option linter.unusedSimpArgs false
namespace Rrtk.Thm.C15
open Rrtk

variable {T : Type}

/-! ## A. the recording settable over arbitrary operation sequences

Getters that can be followed are numbered (`Nat`); the settable's data remember WHICH one is followed
(`SettableS.following : Option Nat`), and an update is given the present output of every getter
(`gs : Nat → Output T`). -/

/-- The operation alphabet of the recording settable. The scripted result of `impl_set` (`acc`), the scripted outputs
of all getters (`gs i` = what getter number `i` returns now) and the scripted result of the settable's own `update`
body (`iu`) are carried by the operation; a change of a getter's output is simply a different `gs` in the next
`update`. `follow g` names the getter to follow. -/
inductive Op (T : Type) where
  | set (v : T) (acc : UpdRet)
  | follow (g : Nat)
  | stopFollowing
  | update (gs : Nat → Output T) (acc : UpdRet) (iu : UpdRet)

/-- one operation on the settable's data -/
def step (s : SettableS T) : Op T → SettableS T
  | .set v acc => (s.set v acc).1
  | .follow g => s.follow g
  | .stopFollowing => s.stopFollowing
  | .update gs acc iu => (s.recUpdate gs acc iu).1

/-- a finite operation sequence, of any length -/
def run (s : SettableS T) (ops : List (Op T)) : SettableS T := ops.foldl step s

/-- the followed getter after one operation (specification side): `follow g` REPLACES it by `g` -/
def nextFlag (f : Option Nat) : Op T → Option Nat
  | .follow g => some g
  | .stopFollowing => none
  | _ => f

/-- the followed getter after an operation sequence (specification side): decided by the last
`follow`/`stop_following` in the list -/
def flagAfter (f : Option Nat) : List (Op T) → Option Nat
  | [] => f
  | op :: rest => flagAfter (nextFlag f op) rest

/-- the value of a present getter output; absent values and errors have none -/
def presentVal : Output T → Option T
  | .ok (some d) => some d.value
  | _ => none

/-- the value an operation successfully sets, when executed while following `f`: a direct `set` that `impl_set`
accepts, or an `update` executed while following getter `i` whose output `gs i` is a present value that `impl_set`
accepts (the outputs of the other getters are irrelevant) -/
def succVal (f : Option Nat) : Op T → Option T
  | .set v (.ok _) => some v
  | .update gs (.ok _) _ => match f with | some i => presentVal (gs i) | none => none
  | _ => none

/-- NON-incremental specification: the value of the LAST operation of the list that is a successful set (the later
part of the list is consulted first; only if it has no successful set does the head count). `f` is the followed getter
before the list. -/
def lastSuccessfulFrom (f : Option Nat) : List (Op T) → Option T
  | [] => none
  | op :: rest =>
    match lastSuccessfulFrom (nextFlag f op) rest with
    | some v => some v
    | none => succVal f op

/-- from the initial state (not following) -/
def lastSuccessful (ops : List (Op T)) : Option T := lastSuccessfulFrom none ops

/-- two getters: number 0 returns `a`, every other number returns `b` (used in the examples) -/
def two (a b : Output T) : Nat → Output T
  | 0 => a
  | _ => b

theorem run_nil (s : SettableS T) : run s [] = s := rfl
theorem run_cons (s : SettableS T) (op : Op T) (ops : List (Op T)) : run s (op :: ops) = run (step s op) ops := rfl
theorem run_append (s : SettableS T) (a b : List (Op T)) : run s (a ++ b) = run (run s a) b := by
  simp [run, List.foldl_append]

theorem flagAfter_append (f : Option Nat) (a b : List (Op T)) :
    flagAfter f (a ++ b) = flagAfter (flagAfter f a) b := by
  induction a generalizing f with
  | nil => rfl
  | cons op rest ih => exact ih _

/-- **`update_following_data`, spelled out**: while following getter `i` it is decided by `gs i` alone — an error is
returned, an absent value does nothing, a present value is handed to `set`; while not following nothing happens. -/
theorem update_following_data_spec (s : SettableS T) (gs : Nat → Output T) (acc : UpdRet) :
    (∀ i, s.following = some i →
      s.updateFollowingData gs acc =
        (match gs i with
         | .error e => (s, none, .error e)
         | .ok none => (s, none, .ok ())
         | .ok (some d) => s.set d.value acc)) ∧
    (s.following = none → s.updateFollowingData gs acc = (s, none, .ok ())) := by
  constructor
  · intro i hf
    simp only [SettableS.updateFollowingData, hf]
    cases gs i with
    | error e => rfl
    | ok o => cases o <;> rfl
  · intro hf; simp only [SettableS.updateFollowingData, hf]

example : (⟨some 1, some 1⟩ : SettableS Int).updateFollowingData (two (.ok (some ⟨0, 5⟩)) (.ok (some ⟨0, 6⟩))) (.ok ()) =
    (⟨some 6, some 1⟩, some 6, .ok ()) := by rfl

/-- what one operation does to the two fields -/
theorem step_following (s : SettableS T) (op : Op T) : (step s op).following = nextFlag s.following op := by
  cases s with
  | mk lr fl =>
  cases op with
  | set v acc => cases acc <;> rfl
  | follow g => rfl
  | stopFollowing => rfl
  | update gs acc iu =>
    cases fl with
    | none => rfl
    | some i =>
      simp only [step, SettableS.recUpdate, SettableS.updateFollowingData, nextFlag]
      cases gs i with
      | error e => rfl
      | ok o =>
        cases o with
        | none => rfl
        | some d => cases acc <;> rfl

theorem step_lastRequest (s : SettableS T) (op : Op T) :
    (step s op).lastRequest = (match succVal s.following op with | some v => some v | none => s.lastRequest) := by
  cases s with
  | mk lr fl =>
  cases op with
  | set v acc => cases acc <;> rfl
  | follow g => rfl
  | stopFollowing => rfl
  | update gs acc iu =>
    cases fl with
    | none => cases acc <;> rfl
    | some i =>
      cases acc with
      | error a =>
        simp only [step, SettableS.recUpdate, SettableS.updateFollowingData, succVal]
        cases gs i with
        | error e => rfl
        | ok o => cases o <;> rfl
      | ok a =>
        simp only [step, SettableS.recUpdate, SettableS.updateFollowingData, succVal]
        cases gs i with
        | error e => rfl
        | ok o => cases o <;> rfl

/-- the followed getter after any operation sequence from any state -/
theorem run_following (s : SettableS T) (ops : List (Op T)) :
    (run s ops).following = flagAfter s.following ops := by
  induction ops generalizing s with
  | nil => rfl
  | cons op rest ih => rw [run_cons, ih, step_following]; rfl

/-- generalised form (any starting state): the last successful set of the list, else what was there before -/
theorem run_lastRequest (s : SettableS T) (ops : List (Op T)) :
    (run s ops).lastRequest =
      (match lastSuccessfulFrom s.following ops with | some v => some v | none => s.lastRequest) := by
  induction ops generalizing s with
  | nil => rfl
  | cons op rest ih =>
    rw [run_cons, ih, step_following, step_lastRequest]
    simp only [lastSuccessfulFrom]
    cases lastSuccessfulFrom (nextFlag s.following op) rest <;> rfl

/-- **C15, first sentence.** For every finite operation sequence, the last request of the settable is the argument of
the LAST set in the sequence that succeeded (directly, or through an update while following); `none` if there is none. -/
theorem last_request_is_last_successful_set (ops : List (Op T)) :
    (run SettableS.init ops).lastRequest = lastSuccessful ops := by
  rw [run_lastRequest]
  simp only [SettableS.init, lastSuccessful]
  cases lastSuccessfulFrom none ops <;> rfl

/-- the specification really is "the last successful one": no successful set anywhere in the list iff `none` -/
theorem lastSuccessfulFrom_eq_none_iff (f : Option Nat) (ops : List (Op T)) :
    lastSuccessfulFrom f ops = none ↔
      ∀ pre op post, ops = pre ++ op :: post → succVal (flagAfter f pre) op = none := by
  induction ops generalizing f with
  | nil =>
    constructor
    · intro _ pre op post h; cases pre <;> cases h
    · intro _; rfl
  | cons o rest ih =>
    simp only [lastSuccessfulFrom]
    constructor
    · intro h pre op post hdec
      cases hr : lastSuccessfulFrom (nextFlag f o) rest with
      | some v => rw [hr] at h; cases h
      | none =>
        rw [hr] at h
        cases pre with
        | nil =>
          simp only [List.nil_append, List.cons.injEq] at hdec
          obtain ⟨rfl, rfl⟩ := hdec
          exact h
        | cons p pre' =>
          simp only [List.cons_append, List.cons.injEq] at hdec
          obtain ⟨rfl, rfl⟩ := hdec
          exact (ih _).1 hr pre' op post rfl
    · intro h
      have hr : lastSuccessfulFrom (nextFlag f o) rest = none :=
        (ih _).2 (fun pre op post hdec => h (o :: pre) op post (by rw [hdec]; rfl))
      rw [hr]
      exact h [] o rest rfl

/-- … and it is `some v` iff the list splits as `pre ++ op :: post` where `op` (executed while following what is
followed after `pre`) successfully sets `v` and nothing in `post` is a successful set. -/
theorem lastSuccessfulFrom_eq_some_iff (f : Option Nat) (ops : List (Op T)) (v : T) :
    lastSuccessfulFrom f ops = some v ↔
      ∃ pre op post, ops = pre ++ op :: post ∧ succVal (flagAfter f pre) op = some v ∧
        lastSuccessfulFrom (flagAfter f (pre ++ [op])) post = none := by
  induction ops generalizing f with
  | nil =>
    constructor
    · intro h; cases h
    · rintro ⟨pre, op, post, h, _⟩; cases pre <;> cases h
  | cons o rest ih =>
    simp only [lastSuccessfulFrom]
    constructor
    · intro h
      cases hr : lastSuccessfulFrom (nextFlag f o) rest with
      | some w =>
        rw [hr] at h
        have hw : w = v := by simpa using h
        subst hw
        obtain ⟨pre, op, post, h1, h2, h3⟩ := (ih _).1 hr
        exact ⟨o :: pre, op, post, by rw [h1]; rfl, h2, h3⟩
      | none =>
        rw [hr] at h
        exact ⟨[], o, rest, rfl, h, hr⟩
    · rintro ⟨pre, op, post, h1, h2, h3⟩
      cases pre with
      | nil =>
        simp only [List.nil_append, List.cons.injEq] at h1
        obtain ⟨rfl, rfl⟩ := h1
        have h3' : lastSuccessfulFrom (nextFlag f o) rest = none := h3
        rw [h3']
        exact h2
      | cons p pre' =>
        simp only [List.cons_append, List.cons.injEq] at h1
        obtain ⟨rfl, rfl⟩ := h1
        have : lastSuccessfulFrom (nextFlag f o) (pre' ++ op :: post) = some v :=
          (ih _).2 ⟨pre', op, post, rfl, h2, h3⟩
        rw [this]

/-- non-vacuity of the specification: a failed set, a successful one, an update that is not following (ignored),
follow getter 0, a followed update (getter 0's value 8 wins, getter 1's 80 is ignored), follow getter 1 WITHOUT a stop
in between (now getter 1's value 90 wins over getter 0's 9), a later failed followed update and a stop -/
example : lastSuccessful
    [Op.set (1 : Int) (.error (.other 3)), .set 2 (.ok ()), .update (fun _ => .ok (some ⟨5, 7⟩)) (.ok ()) (.ok ()),
     .follow 0, .update (two (.ok (some ⟨6, 8⟩)) (.ok (some ⟨6, 80⟩))) (.ok ()) (.ok ()),
     .follow 1, .update (two (.ok (some ⟨6, 9⟩)) (.ok (some ⟨6, 90⟩))) (.ok ()) (.ok ()),
     .update (fun _ => .ok (some ⟨7, 10⟩)) (.error .fromNone) (.ok ()),
     .stopFollowing, .update (fun _ => .ok (some ⟨8, 11⟩)) (.ok ()) (.ok ())] = some 90 := by rfl
example : (run SettableS.init
    [Op.set (1 : Int) (.error (.other 3)), .set 2 (.ok ()), .update (fun _ => .ok (some ⟨5, 7⟩)) (.ok ()) (.ok ()),
     .follow 0, .update (two (.ok (some ⟨6, 8⟩)) (.ok (some ⟨6, 80⟩))) (.ok ()) (.ok ()),
     .follow 1, .update (two (.ok (some ⟨6, 9⟩)) (.ok (some ⟨6, 90⟩))) (.ok ()) (.ok ()),
     .update (fun _ => .ok (some ⟨7, 10⟩)) (.error .fromNone) (.ok ()),
     .stopFollowing, .update (fun _ => .ok (some ⟨8, 11⟩)) (.ok ()) (.ok ())]).lastRequest = some 90 := by rfl

/-- a successful set stores exactly its argument, hands it to `impl_set`, and returns `Ok` -/
theorem successful_set_records (s : SettableS T) (v : T) :
    s.set v (.ok ()) = ({ s with lastRequest := some v }, some v, .ok ()) := rfl

/-- after any sequence, appending a successful set makes its argument the last request -/
theorem last_request_after_successful_set (s : SettableS T) (ops : List (Op T)) (v : T) :
    (run s (ops ++ [.set v (.ok ())])).lastRequest = some v := by
  rw [run_append]; rfl

/-- a failed set leaves the whole settable data (so also `last_request`) unchanged, accepts nothing, and returns the
error of `impl_set` -/
theorem failed_set_keeps (s : SettableS T) (v : T) (e : Err) :
    s.set v (.error e) = (s, none, .error e) := rfl

/-- … also at sequence level: appending a failed set to any sequence does not change the last request -/
theorem failed_set_keeps_run (s : SettableS T) (ops : List (Op T)) (v : T) (e : Err) :
    (run s (ops ++ [.set v (.error e)])).lastRequest = (run s ops).lastRequest := by
  rw [run_append]; rfl

/-- while following getter `i`, `update_following_data` on a present value of THAT getter IS `set` of exactly that
value (whatever `impl_set` then answers, whatever the other getters return) -/
theorem follow_forwards_to_set (s : SettableS T) (i : Nat) (gs : Nat → Output T) (d : Datum T) (acc : UpdRet)
    (hf : s.following = some i) (hg : gs i = .ok (some d)) :
    s.updateFollowingData gs acc = s.set d.value acc := by
  simp [SettableS.updateFollowingData, hf, hg]

example : (SettableS.follow (SettableS.init : SettableS Int) 1).updateFollowingData
    (two (.error .fromNone) (.ok (some ⟨3, 42⟩))) (.error (.other 1)) = (⟨none, some 1⟩, none, .error (.other 1)) := by rfl

/-- while following getter `i`, an update with a present value of that getter and an accepting `impl_set` hands exactly
that value to `impl_set`, records it as the last request, keeps following, and returns the update body's own result -/
theorem follow_forwards (s : SettableS T) (i : Nat) (gs : Nat → Output T) (d : Datum T) (iu : UpdRet)
    (hf : s.following = some i) (hg : gs i = .ok (some d)) :
    s.recUpdate gs (.ok ()) iu = ({ s with lastRequest := some d.value }, some d.value, iu) := by
  simp [SettableS.recUpdate, SettableS.updateFollowingData, SettableS.set, hf, hg]

example : (SettableS.follow (SettableS.init : SettableS Int) 0).recUpdate
    (two (.ok (some ⟨3, 42⟩)) (.ok (some ⟨3, 43⟩))) (.ok ()) (.ok ()) = (⟨some 42, some 0⟩, some 42, .ok ()) := by rfl

/-- an absent value of the followed getter forwards nothing and changes nothing (following or not; the other getters
may return anything) -/
theorem follow_absent_noop (s : SettableS T) (gs : Nat → Output T) (acc iu : UpdRet)
    (hg : ∀ i, s.following = some i → gs i = .ok none) :
    s.recUpdate gs acc iu = (s, none, iu) := by
  cases hf : s.following with
  | none => simp [SettableS.recUpdate, SettableS.updateFollowingData, hf]
  | some i => simp [SettableS.recUpdate, SettableS.updateFollowingData, hf, hg i hf]

example : ∀ i, (⟨some 5, some 1⟩ : SettableS Int).following = some i →
    two (.ok (some ⟨1, (2 : Int)⟩)) (.ok none) i = .ok none := by
  intro i h; cases h; rfl
example : (⟨some 5, some 1⟩ : SettableS Int).recUpdate (two (.ok (some ⟨1, 2⟩)) (.ok none)) (.ok ()) (.ok ()) =
    (⟨some 5, some 1⟩, none, .ok ()) := by rfl

/-- while following getter `i`: an error of that getter is returned, nothing is forwarded, the state is unchanged; an
`impl_set` that rejects the forwarded value has its error returned and `last_request` (the whole data) unchanged -/
theorem follow_err_propagates (s : SettableS T) (i : Nat) (gs : Nat → Output T) (e : Err) (d : Datum T)
    (acc iu : UpdRet) (hf : s.following = some i) :
    (gs i = .error e → s.recUpdate gs acc iu = (s, none, .error e)) ∧
    (gs i = .ok (some d) → s.recUpdate gs (.error e) iu = (s, none, .error e)) := by
  constructor <;> intro hg <;> simp [SettableS.recUpdate, SettableS.updateFollowingData, SettableS.set, hf, hg]

example : (SettableS.follow (⟨some 5, none⟩ : SettableS Int) 0).recUpdate (two (.error (.other 9)) (.ok none)) (.ok ()) (.ok ()) =
    (⟨some 5, some 0⟩, none, .error (.other 9)) := by rfl
example : (SettableS.follow (⟨some 5, none⟩ : SettableS Int) 1).recUpdate (two (.error (.other 9)) (.ok (some ⟨1, 2⟩)))
    (.error (.other 4)) (.ok ()) = (⟨some 5, some 1⟩, none, .error (.other 4)) := by rfl

/-- when not following, an update forwards nothing, never touches the data and never consults any getter's output
(even erroring getters are not seen) -/
theorem not_following_forwards_nothing (s : SettableS T) (gs : Nat → Output T) (acc iu : UpdRet)
    (hf : s.following = none) :
    s.recUpdate gs acc iu = (s, none, iu) := by
  simp [SettableS.recUpdate, SettableS.updateFollowingData, hf]

example : (SettableS.init : SettableS Int).recUpdate (fun _ => .error .fromNone) (.ok ()) (.ok ()) =
    (SettableS.init, none, .ok ()) := by rfl

/-- an operation list without `follow` -/
def noFollow : List (Op T) → Prop
  | [] => True
  | .follow _ :: _ => False
  | _ :: rest => noFollow rest

theorem flagAfter_false_of_noFollow (ops : List (Op T)) (h : noFollow ops) : flagAfter none ops = none := by
  induction ops with
  | nil => rfl
  | cons op rest ih =>
    cases op with
    | follow g => exact absurd h (by simp [noFollow])
    | set v acc => exact ih h
    | stopFollowing => exact ih h
    | update gs acc iu => exact ih h

/-- after `stop_following`, and whatever happens afterwards short of a new `follow` (sets, further stops, updates
with any getter outputs), every update forwards nothing and leaves the data alone -/
theorem stop_following_stops (s : SettableS T) (ops : List (Op T)) (h : noFollow ops)
    (gs : Nat → Output T) (acc iu : UpdRet) :
    (run s.stopFollowing ops).following = none ∧
    (run s.stopFollowing ops).recUpdate gs acc iu = (run s.stopFollowing ops, none, iu) := by
  have hf : (run s.stopFollowing ops).following = none := by
    rw [run_following]; exact flagAfter_false_of_noFollow ops h
  exact ⟨hf, not_following_forwards_nothing _ gs acc iu hf⟩

example : noFollow [Op.set (1 : Int) (.ok ()), .update (fun _ => .ok (some ⟨1, 2⟩)) (.ok ()) (.ok ()), .stopFollowing] := by
  simp [noFollow]

/-- … and the next `follow g` re-enables forwarding, of getter `g`'s values -/
theorem follow_after_stop_forwards (s : SettableS T) (g : Nat) (gs : Nat → Output T) (d : Datum T) (iu : UpdRet)
    (hg : gs g = .ok (some d)) :
    ((s.stopFollowing).follow g).recUpdate gs (.ok ()) iu =
      (⟨some d.value, some g⟩, some d.value, iu) := by
  simp [SettableS.recUpdate, SettableS.updateFollowingData, SettableS.set, SettableS.follow, SettableS.stopFollowing, hg]

example : two (.ok none) (.ok (some ⟨1, (2 : Int)⟩)) 1 = .ok (some ⟨1, 2⟩) := rfl

/-- the only operations that ever change `last_request` are successful sets: if an operation is not one, the field is
unchanged -/
theorem last_request_changes_only_by_successful_set (s : SettableS T) (op : Op T)
    (h : succVal s.following op = none) : (step s op).lastRequest = s.lastRequest := by
  rw [step_lastRequest, h]

example : succVal (some 0) (Op.update (fun _ => .ok none) (.ok ()) (.ok ()) : Op Int) = none := rfl
/-- getter 1 has a present value, but getter 0 is the followed one and it is absent -/
example : succVal (some 0) (Op.update (two (.ok none) (.ok (some ⟨1, 2⟩))) (.ok ()) (.ok ()) : Op Int) = none := rfl

/-! ### which getter is forwarded -/

/-- **the result of `update_following_data` does not depend on the outputs of getters other than the followed one**:
two output assignments that agree on the followed getter (if any) give the same new data, the same forwarded value and
the same return value -/
theorem update_uses_only_followed (s : SettableS T) (gs gs' : Nat → Output T) (acc : UpdRet)
    (h : ∀ i, s.following = some i → gs i = gs' i) :
    s.updateFollowingData gs acc = s.updateFollowingData gs' acc := by
  cases hf : s.following with
  | none => simp only [SettableS.updateFollowingData, hf]
  | some i => simp only [SettableS.updateFollowingData, hf, h i hf]

/-- non-vacuity: following getter 1, the two assignments differ on getter 0 only -/
example : ∀ i, (⟨none, some 1⟩ : SettableS Int).following = some i →
    two (.ok (some ⟨1, (2 : Int)⟩)) (.ok (some ⟨1, 3⟩)) i = two (.error .fromNone) (.ok (some ⟨1, 3⟩)) i := by
  intro i h; cases h; rfl
/-- … and it does depend on the followed one -/
example : ((⟨none, some 1⟩ : SettableS Int).updateFollowingData (two (.ok none) (.ok (some ⟨1, 3⟩))) (.ok ())).2.1 = some 3 ∧
    ((⟨none, some 1⟩ : SettableS Int).updateFollowingData (two (.ok none) (.ok (some ⟨1, 4⟩))) (.ok ())).2.1 = some 4 :=
  ⟨rfl, rfl⟩

/-- the same for the whole `update` of the recording settable -/
theorem rec_update_uses_only_followed (s : SettableS T) (gs gs' : Nat → Output T) (acc iu : UpdRet)
    (h : ∀ i, s.following = some i → gs i = gs' i) :
    s.recUpdate gs acc iu = s.recUpdate gs' acc iu := by
  simp only [SettableS.recUpdate, update_uses_only_followed s gs gs' acc h]

/-- **`follow` replaces the followed getter.** After `follow g1` then `follow g2` (no `stop_following` in between) the
settable's data are those of a settable that only ever followed `g2`; hence after ANY further operations every update
— for all getter outputs, all `impl_set` answers, all update-body results — yields the same data, forwards the same
value and returns the same result as for the settable that only followed `g2`. -/
theorem follow_replaces (s : SettableS T) (g1 g2 : Nat) (ops : List (Op T)) (gs : Nat → Output T) (acc iu : UpdRet) :
    (s.follow g1).follow g2 = s.follow g2 ∧
    (run ((s.follow g1).follow g2) ops).recUpdate gs acc iu = (run (s.follow g2) ops).recUpdate gs acc iu :=
  ⟨rfl, rfl⟩

/-- `follow g1`, `follow g2`, update: getter 1's value (90) is forwarded, not getter 0's (9) -/
example : (((SettableS.init : SettableS Int).follow 0).follow 1).recUpdate
    (two (.ok (some ⟨6, 9⟩)) (.ok (some ⟨6, 90⟩))) (.ok ()) (.ok ()) = (⟨some 90, some 1⟩, some 90, .ok ()) := by rfl

/-- an operation list without `follow` and without `stop_following` -/
def keepsFollowed : List (Op T) → Prop
  | [] => True
  | .follow _ :: _ => False
  | .stopFollowing :: _ => False
  | _ :: rest => keepsFollowed rest

theorem flagAfter_of_keepsFollowed (f : Option Nat) (ops : List (Op T)) (h : keepsFollowed ops) :
    flagAfter f ops = f := by
  induction ops with
  | nil => rfl
  | cons op rest ih =>
    cases op with
    | follow g => exact absurd h (by simp [keepsFollowed])
    | stopFollowing => exact absurd h (by simp [keepsFollowed])
    | set v acc => exact ih h
    | update gs acc iu => exact ih h

/-- **the MOST RECENTLY followed getter is the one forwarded**, in full generality: whatever happened before (`pre`:
any operations, including following other getters, with or without stops), after `follow g` and any further sets and
updates (`post`), `update_following_data` is decided by getter `g`'s output alone: its error propagates, its absent
value forwards nothing, its present value is handed to `set`. -/
theorem latest_follow_wins (s : SettableS T) (pre post : List (Op T)) (g : Nat) (hpost : keepsFollowed post)
    (gs : Nat → Output T) (acc : UpdRet) :
    (run s (pre ++ .follow g :: post)).following = some g ∧
    (run s (pre ++ .follow g :: post)).updateFollowingData gs acc =
      (match gs g with
       | .error e => (run s (pre ++ .follow g :: post), none, .error e)
       | .ok none => (run s (pre ++ .follow g :: post), none, .ok ())
       | .ok (some d) => (run s (pre ++ .follow g :: post)).set d.value acc) := by
  have hf : (run s (pre ++ .follow g :: post)).following = some g := by
    rw [run_append, run_cons, run_following, step_following]
    exact flagAfter_of_keepsFollowed _ post hpost
  exact ⟨hf, (update_following_data_spec _ gs acc).1 g hf⟩

example : keepsFollowed [Op.set (1 : Int) (.ok ()), .update (fun _ => .ok (some ⟨1, 2⟩)) (.ok ()) (.ok ())] := by
  simp [keepsFollowed]
example : (run (SettableS.init : SettableS Int)
    ([.follow 0, .update (fun _ => .ok (some ⟨1, 2⟩)) (.ok ()) (.ok ())] ++ .follow 1 :: [.set 3 (.ok ())])).updateFollowingData
    (two (.ok (some ⟨1, 10⟩)) (.ok (some ⟨1, 11⟩))) (.ok ()) = (⟨some 11, some 1⟩, some 11, .ok ()) := by rfl

/-- **`stop_following` then `follow g` behaves like `follow g`**: same data, hence the same behaviour under all later
operations and updates -/
theorem follow_after_stop (s : SettableS T) (g : Nat) (ops : List (Op T)) (gs : Nat → Output T) (acc iu : UpdRet) :
    (s.stopFollowing).follow g = s.follow g ∧
    (run ((s.stopFollowing).follow g) ops).recUpdate gs acc iu = (run (s.follow g) ops).recUpdate gs acc iu :=
  ⟨rfl, rfl⟩

example : (((⟨some 4, some 0⟩ : SettableS Int).stopFollowing).follow 1).recUpdate
    (two (.ok (some ⟨6, 9⟩)) (.ok (some ⟨6, 90⟩))) (.ok ()) (.ok ()) = (⟨some 90, some 1⟩, some 90, .ok ()) := by rfl

/-! ## B. `GetterFromHistory` -/

/-- keep the value, replace the timestamp -/
def restamp (now : Int) (d : Datum T) : Datum T := ⟨now, d.value⟩

/-- `get`: the history is asked at `now + delta` and its answer is restamped with `now`; a clock error propagates
(and the history is not consulted) -/
theorem gfh_get (hist : Int → Option (Datum T)) (delta now : Int) (e : Err) :
    Gfh.get hist delta (.ok now) = .ok ((hist (now + delta)).map (restamp now)) ∧
    Gfh.get hist delta (.error e) = .error e := by
  refine ⟨?_, rfl⟩
  simp only [Gfh.get]
  cases hist (now + delta) <;> rfl

/-- the time handed to the history is pinned down by `gfh_get`: if a getter built with offset `delta` answers, for
EVERY history, with the history's value at `t`, then `t = now + delta` -/
theorem gfh_query_time_unique (v : T) (delta now t : Int)
    (h : ∀ hist : Int → Option (Datum T), Gfh.get hist delta (.ok now) = .ok ((hist t).map (restamp now))) :
    t = now + delta := by
  have h1 := h (fun x => if x = now + delta then some ⟨0, v⟩ else none)
  rw [(gfh_get _ delta now .fromNone).1] at h1
  by_cases ht : t = now + delta
  · exact ht
  · simp [ht] at h1

/-- the hypothesis of `gfh_query_time_unique` is satisfiable (by `t = now + delta`, and only by it) -/
example : ∀ hist : Int → Option (Datum Int), Gfh.get hist 4 (.ok 10) = .ok ((hist 14).map (restamp 10)) :=
  fun hist => (gfh_get hist 4 10 .fromNone).1

/-- `new_no_delta`: the history is asked at `now` -/
theorem gfh_no_delta (hist : Int → Option (Datum T)) (now : Int) :
    Gfh.get hist Gfh.newNoDelta (.ok now) = .ok ((hist now).map (restamp now)) := by
  rw [(gfh_get hist _ now .fromNone).1]; simp [Gfh.newNoDelta]

/-- `new_start_at_zero` at clock `now₀`: offset `-now₀`; the history is asked at `now - now₀`, in particular at `0`
at the moment of construction; with an erroring clock the constructor returns that error -/
theorem gfh_start_at_zero (hist : Int → Option (Datum T)) (now₀ now : Int) (e : Err) :
    Gfh.newStartAtZero (.ok now₀) = .ok (-now₀) ∧
    Gfh.get hist (-now₀) (.ok now) = .ok ((hist (now - now₀)).map (restamp now)) ∧
    Gfh.get hist (-now₀) (.ok now₀) = .ok ((hist 0).map (restamp now₀)) ∧
    Gfh.newStartAtZero (.error e) = .error e := by
  refine ⟨rfl, ?_, ?_, rfl⟩
  · rw [(gfh_get hist _ now .fromNone).1, Int.sub_eq_add_neg]
  · rw [(gfh_get hist _ now₀ .fromNone).1, Int.add_right_neg]

/-- `new_custom_start start` at clock `now₀`: offset `start - now₀`; the history is asked at `start + (now - now₀)`,
in particular at `start` at the moment of construction; erroring clock: that error -/
theorem gfh_custom_start (hist : Int → Option (Datum T)) (start now₀ now : Int) (e : Err) :
    Gfh.newCustomStart (.ok now₀) start = .ok (start - now₀) ∧
    Gfh.get hist (start - now₀) (.ok now) = .ok ((hist (start + (now - now₀))).map (restamp now)) ∧
    Gfh.get hist (start - now₀) (.ok now₀) = .ok ((hist start).map (restamp now₀)) ∧
    Gfh.newCustomStart (.error e) start = .error e := by
  refine ⟨rfl, ?_, ?_, rfl⟩
  · rw [(gfh_get hist _ now .fromNone).1]
    have : now + (start - now₀) = start + (now - now₀) := by omega
    rw [this]
  · rw [(gfh_get hist _ now₀ .fromNone).1]
    have : now₀ + (start - now₀) = start := by omega
    rw [this]

/-- `new_custom_delta δ`: the history is asked at `now + δ` -/
theorem gfh_custom_delta (hist : Int → Option (Datum T)) (δ now : Int) :
    Gfh.get hist (Gfh.newCustomDelta δ) (.ok now) = .ok ((hist (now + δ)).map (restamp now)) :=
  (gfh_get hist δ now .fromNone).1

/-- the offset of a `GetterFromHistory` under `set_delta` / `set_time` sequences (the clock reading of each `set_time`
is carried by the operation; clock advances are differences between successive readings) -/
inductive GOp where
  | setDelta (δ : Int)
  | setTime (clk : TimeOutput) (t : Int)

def gstep (delta : Int) : GOp → Int
  | .setDelta δ => Gfh.newCustomDelta δ
  | .setTime clk t => (Gfh.setTime delta clk t).1
def grun (delta : Int) (ops : List GOp) : Int := ops.foldl gstep delta

/-- `set_delta δ` after any history of the object: the history is asked at `now + δ` -/
theorem gfh_set_delta (hist : Int → Option (Datum T)) (delta₀ : Int) (ops : List GOp) (δ now : Int) :
    grun delta₀ (ops ++ [.setDelta δ]) = δ ∧
    Gfh.get hist (grun delta₀ (ops ++ [.setDelta δ])) (.ok now) = .ok ((hist (now + δ)).map (restamp now)) := by
  have h : grun delta₀ (ops ++ [.setDelta δ]) = δ := by simp [grun, List.foldl_append, gstep, Gfh.newCustomDelta]
  exact ⟨h, by rw [h]; exact (gfh_get hist δ now .fromNone).1⟩

/-- `set_time t` at clock `now₁`, after any history of the object (any previous offset `delta`): returns `Ok`, and at
a later clock `now` the history is asked at `t + (now - now₁)` — at `t` at the moment of the call.  On a clock error
the offset is unchanged and the error is returned. -/
theorem gfh_set_time (hist : Int → Option (Datum T)) (delta t now₁ now : Int) (e : Err) :
    Gfh.setTime delta (.ok now₁) t = (t - now₁, .ok ()) ∧
    Gfh.get hist (Gfh.setTime delta (.ok now₁) t).1 (.ok now) = .ok ((hist (t + (now - now₁))).map (restamp now)) ∧
    Gfh.get hist (Gfh.setTime delta (.ok now₁) t).1 (.ok now₁) = .ok ((hist t).map (restamp now₁)) ∧
    Gfh.setTime delta (.error e) t = (delta, .error e) := by
  refine ⟨rfl, ?_, ?_, rfl⟩
  · show Gfh.get hist (t - now₁) (.ok now) = _
    rw [(gfh_get hist _ now .fromNone).1]
    have : now + (t - now₁) = t + (now - now₁) := by omega
    rw [this]
  · show Gfh.get hist (t - now₁) (.ok now₁) = _
    rw [(gfh_get hist _ now₁ .fromNone).1]
    have : now₁ + (t - now₁) = t := by omega
    rw [this]

/-- over operation sequences: the offset is the one fixed by the last `set_delta` / successful `set_time`; a
`set_time` whose clock errors changes nothing -/
theorem gfh_offset_after_ops (delta₀ : Int) (ops : List GOp) (δ t now₁ : Int) (e : Err) :
    grun delta₀ (ops ++ [.setDelta δ]) = δ ∧
    grun delta₀ (ops ++ [.setTime (.ok now₁) t]) = t - now₁ ∧
    grun delta₀ (ops ++ [.setTime (.error e) t]) = grun delta₀ ops := by
  refine ⟨?_, ?_, ?_⟩ <;> simp [grun, List.foldl_append, gstep, Gfh.newCustomDelta, Gfh.setTime]

example : Gfh.get (fun t => some (⟨t, 10 * t⟩ : Datum Int)) (grun 0 [.setDelta 3, .setTime (.error .fromNone) 0,
    .setTime (.ok 100) 7]) (.ok 105) = .ok (some ⟨105, 120⟩) := by rfl

/-! ## C. `ConstantGetter` -/

/-- `get`: the latest value at the time getter's time; the clock's error otherwise -/
theorem constant_getter_get (s : ConstGetterS T) (now : Int) (e : Err) :
    s.get (.ok now) = .ok (some ⟨now, s.value⟩) ∧ s.get (.error e) = .error e := ⟨rfl, rfl⟩

/-- the two models of `ConstantGetter::get` (this one and the stream one) agree -/
theorem constant_getter_get_eq_stream (s : ConstGetterS T) (clk : TimeOutput) :
    s.get clk = Stream.constantGetter clk s.value := by
  cases clk <;> rfl

/-- `Stream.constantGetter` itself -/
theorem stream_constant_getter_get (v : T) (now : Int) (e : Err) :
    Stream.constantGetter (.ok now) v = .ok (some ⟨now, v⟩) ∧
    Stream.constantGetter (.error e) v = (.error e : Output T) := ⟨rfl, rfl⟩

/-- a fresh constant getter returns the constructor's value, has no last request and follows nothing -/
theorem constant_getter_init (v : T) (now : Int) :
    (ConstGetterS.init v).get (.ok now) = .ok (some ⟨now, v⟩) ∧
    (ConstGetterS.init v).sd.lastRequest = none ∧ (ConstGetterS.init v).sd.following = none := ⟨rfl, rfl, rfl⟩

/-- after `set v`: the value is `v`, it is what `get` returns, and it is the last request; following is untouched -/
theorem constant_getter_set (s : ConstGetterS T) (v : T) (now : Int) :
    (s.set v).value = v ∧ (s.set v).sd.lastRequest = some v ∧ (s.set v).sd.following = s.sd.following ∧
    (s.set v).get (.ok now) = .ok (some ⟨now, v⟩) := ⟨rfl, rfl, rfl, rfl⟩

/-- `update` while following getter `i`: a present value of that getter becomes the value (and the last request);
absent is ignored; its error is returned with the state unchanged.  Not following: nothing happens.  The outputs of
the getters that are not followed never matter. -/
theorem constant_getter_update (s : ConstGetterS T) (i : Nat) (d : Datum T) (e : Err) (gs : Nat → Output T) :
    (s.sd.following = some i → gs i = .ok (some d) → s.update gs = (s.set d.value, .ok ())) ∧
    ((∀ j, s.sd.following = some j → gs j = .ok none) → s.update gs = (s, .ok ())) ∧
    (s.sd.following = some i → gs i = .error e → s.update gs = (s, .error e)) ∧
    (s.sd.following = none → s.update gs = (s, .ok ())) := by
  refine ⟨?_, ?_, ?_, ?_⟩
  · intro hf hg; simp [ConstGetterS.update, hf, hg]
  · intro hg
    cases hf : s.sd.following with
    | none => simp [ConstGetterS.update, hf]
    | some j => simp [ConstGetterS.update, hf, hg j hf]
  · intro hf hg; simp [ConstGetterS.update, hf, hg]
  · intro hf; simp [ConstGetterS.update, hf]

example : (ConstGetterS.mk (1 : Int) ⟨none, some 1⟩).update (two (.ok (some ⟨4, 8⟩)) (.ok (some ⟨4, 9⟩))) =
    (⟨9, ⟨some 9, some 1⟩⟩, .ok ()) := by rfl
example : (ConstGetterS.mk (1 : Int) ⟨none, some 0⟩).update (two (.error (.other 2)) (.ok (some ⟨4, 9⟩))) =
    (⟨1, ⟨none, some 0⟩⟩, .error (.other 2)) := by rfl
example : (ConstGetterS.mk (1 : Int) ⟨none, some 1⟩).update (two (.error (.other 2)) (.ok none)) =
    (⟨1, ⟨none, some 1⟩⟩, .ok ()) := by rfl
example : (ConstGetterS.mk (1 : Int) ⟨none, none⟩).update (fun _ => .error (.other 2)) = (⟨1, ⟨none, none⟩⟩, .ok ()) := by rfl

/-- the constant getter's `update` does not depend on the outputs of getters other than the followed one -/
theorem constant_getter_update_uses_only_followed (s : ConstGetterS T) (gs gs' : Nat → Output T)
    (h : ∀ i, s.sd.following = some i → gs i = gs' i) : s.update gs = s.update gs' := by
  cases hf : s.sd.following with
  | none => simp only [ConstGetterS.update, hf]
  | some i => simp only [ConstGetterS.update, hf, h i hf]

example : ∀ i, (ConstGetterS.mk (1 : Int) ⟨none, some 1⟩).sd.following = some i →
    two (.ok (some ⟨1, (2 : Int)⟩)) (.ok (some ⟨1, 3⟩)) i = two (.error .fromNone) (.ok (some ⟨1, 3⟩)) i := by
  intro i h; cases h; rfl

/-- operations on a constant getter (its `impl_set` cannot fail, its `update` body is just `update_following_data`) -/
inductive COp (T : Type) where
  | set (v : T)
  | follow (g : Nat)
  | stopFollowing
  | update (gs : Nat → Output T)

def cstep (s : ConstGetterS T) : COp T → ConstGetterS T
  | .set v => s.set v
  | .follow g => { s with sd := s.sd.follow g }
  | .stopFollowing => { s with sd := s.sd.stopFollowing }
  | .update gs => (s.update gs).1
def crun (s : ConstGetterS T) (ops : List (COp T)) : ConstGetterS T := ops.foldl cstep s

/-- the same operation seen as an operation of the generic settable with an always-accepting `impl_set` -/
def COp.toOp : COp T → Op T
  | .set v => .set v (.ok ())
  | .follow g => .follow g
  | .stopFollowing => .stopFollowing
  | .update gs => .update gs (.ok ()) (.ok ())

/-- the constant getter's settable data evolve exactly like the generic settable's with an accepting `impl_set`, and
`update` returns what the generic `update_following_data` returns -/
theorem constant_getter_refines_settable (s : ConstGetterS T) (op : COp T) :
    (cstep s op).sd = step s.sd op.toOp := by
  cases s with
  | mk v sd =>
  cases sd with
  | mk lr fl =>
  cases op with
  | set v => rfl
  | follow g => rfl
  | stopFollowing => rfl
  | update gs =>
    cases fl with
    | none => rfl
    | some i =>
      simp only [cstep, ConstGetterS.update, COp.toOp, step, SettableS.recUpdate, SettableS.updateFollowingData]
      cases gs i with
      | error e => rfl
      | ok o => cases o <;> rfl

theorem constant_getter_update_ret (s : ConstGetterS T) (gs : Nat → Output T) :
    (s.update gs).2 = (s.sd.updateFollowingData gs (.ok ())).2.2 := by
  cases s with
  | mk v sd =>
  cases sd with
  | mk lr fl =>
  cases fl with
  | none => rfl
  | some i =>
    simp only [ConstGetterS.update, SettableS.updateFollowingData]
    cases gs i with
    | error e => rfl
    | ok o => cases o <;> rfl

theorem cstep_value (s : ConstGetterS T) (op : COp T) :
    (cstep s op).value = (match succVal s.sd.following op.toOp with | some v => v | none => s.value) := by
  cases s with
  | mk v sd =>
  cases sd with
  | mk lr fl =>
  cases op with
  | set v => rfl
  | follow g => rfl
  | stopFollowing => rfl
  | update gs =>
    cases fl with
    | none => rfl
    | some i =>
      simp only [cstep, ConstGetterS.update, COp.toOp, succVal]
      cases gs i with
      | error e => rfl
      | ok o => cases o <;> rfl

theorem crun_sd (s : ConstGetterS T) (ops : List (COp T)) : (crun s ops).sd = run s.sd (ops.map COp.toOp) := by
  induction ops generalizing s with
  | nil => rfl
  | cons op rest ih =>
    show (crun (cstep s op) rest).sd = run (step s.sd op.toOp) (rest.map COp.toOp)
    rw [ih, constant_getter_refines_settable]

/-- **over operation sequences**: the value of a constant getter is the last value set — directly or by following —
and the constructor's (starting) value if there was none; its last request is that same last value (if any) -/
theorem constant_getter_value_is_last_set (s : ConstGetterS T) (ops : List (COp T)) :
    (crun s ops).value =
      (match lastSuccessfulFrom s.sd.following (ops.map COp.toOp) with | some v => v | none => s.value) ∧
    (crun s ops).sd.lastRequest =
      (match lastSuccessfulFrom s.sd.following (ops.map COp.toOp) with | some v => some v | none => s.sd.lastRequest) := by
  refine ⟨?_, by rw [crun_sd, run_lastRequest]⟩
  induction ops generalizing s with
  | nil => rfl
  | cons op rest ih =>
    show (crun (cstep s op) rest).value = _
    rw [ih, constant_getter_refines_settable, step_following, cstep_value]
    simp only [List.map_cons, lastSuccessfulFrom]
    cases lastSuccessfulFrom (nextFlag s.sd.following op.toOp) (List.map COp.toOp rest) <;> rfl

/-- from the constructor -/
theorem constant_getter_get_after_ops (v₀ : T) (ops : List (COp T)) (now : Int) :
    (crun (ConstGetterS.init v₀) ops).get (.ok now) =
      .ok (some ⟨now, (lastSuccessful (ops.map COp.toOp)).getD v₀⟩) := by
  have h := (constant_getter_value_is_last_set (ConstGetterS.init v₀) ops).1
  show (Except.ok (some (Datum.mk now (crun (ConstGetterS.init v₀) ops).value)) : Output T) = _
  rw [h]
  simp only [lastSuccessful, ConstGetterS.init, SettableS.init]
  cases lastSuccessfulFrom none (List.map COp.toOp ops) <;> rfl

example : (crun (ConstGetterS.init (0 : Int))
    [.update (fun _ => .ok (some ⟨1, 5⟩)), .set 2, .follow 0, .update (fun _ => .ok none),
     .update (two (.ok (some ⟨2, 6⟩)) (.ok (some ⟨2, 60⟩))), .follow 1,
     .update (two (.ok (some ⟨2, 7⟩)) (.ok (some ⟨2, 70⟩))),
     .update (fun _ => .error .fromNone), .stopFollowing, .update (fun _ => .ok (some ⟨3, 8⟩))]).get (.ok 11) =
    .ok (some ⟨11, 70⟩) := by rfl
example : (crun (ConstGetterS.init (4 : Int)) [.update (fun _ => .ok (some ⟨1, 5⟩)), .stopFollowing]).get (.ok 11) =
    .ok (some ⟨11, 4⟩) := by rfl

/-- the constant getter too: `follow g1` then `follow g2` is `follow g2` (so every later `get`/`update` agrees) -/
theorem constant_getter_follow_replaces (s : ConstGetterS T) (g1 g2 : Nat) (ops : List (COp T)) :
    crun s (.follow g1 :: .follow g2 :: ops) = crun s (.follow g2 :: ops) := rfl

/-! ## D. `TimeGetterFromGetter` -/

/-- present: the datum's timestamp; absent: the `FromNone` error; error: that error -/
theorem time_getter_from_getter_get (d : Datum T) (e : Err) :
    Stream.timeGetterFromGetter (.ok (some d)) = .ok d.time ∧
    Stream.timeGetterFromGetter (.ok none : Output T) = .error .fromNone ∧
    Stream.timeGetterFromGetter (.error e : Output T) = .error e := ⟨rfl, rfl, rfl⟩

/-- the `expect` in the source is never reached: the inner `NoneToError` never yields `Ok(None)` -/
theorem time_getter_from_getter_no_panic (inp : Output T) : Stream.noneToError inp ≠ .ok none := by
  cases inp with
  | error e => simp [Stream.noneToError]
  | ok o => cases o <;> simp [Stream.noneToError]

/-- the value never depends on the payload, only on the timestamp -/
theorem time_getter_from_getter_ignores_value (t : Int) (v w : T) :
    Stream.timeGetterFromGetter (.ok (some ⟨t, v⟩)) = Stream.timeGetterFromGetter (.ok (some ⟨t, w⟩)) := rfl

/-- composed with a constant getter it is the clock itself -/
theorem time_getter_from_constant_getter (clk : TimeOutput) (v : T) :
    Stream.timeGetterFromGetter (Stream.constantGetter clk v) = clk := by
  cases clk <;> rfl

end Rrtk.Thm.C15
