/-
C16 (first half) — the `MaybeUninit` scratch arrays of `SumStream::get`, `ProductStream::get`, `Terminal`'s state
getter and `Axle::new` are only ever read where they have been written, and never indexed out of range.

Everything is tier S: the payload `α`, the operator `op` and the scalar `F` are arbitrary; the statements are about
*which slot* is written/read and in which order.  The quantifier is over ALL arities (`ins.length`, `n`) and all
patterns of absent / present / erroring inputs.

Slot-level model: `Rrtk/Scratch.lean` (`none` = uninitialised slot; `Fault.uninit` = `assume_init` on an unwritten
slot; `Fault.oob` = slice index out of range).  List-level model: `Stream.collect`, `Stream.foldData`, `Stream.nary`
(`Rrtk/Streams/Stateless.lean`) and `World.getState` (`Rrtk/Devices.lean`).
-/
import Rrtk.Scratch
import Rrtk.Thm.Lemmas.IntScalar
set_option linter.unusedSectionVars false
set_option linter.unusedSimpArgs false
namespace Rrtk.Thm.C16
open Rrtk

/-! ### single slot operations on an array of the shape `written ++ rest` -/
section SlotLemmas
variable {α : Type}

theorem fresh_length (n : Nat) : (Slots.fresh n : Slots α).length = n := by
  simp [Slots.fresh]

/-- writing at the fill counter of `written ++ fresh (m+1)` is in range, initialises exactly that slot and leaves
the `m` later ones uninitialised -/
theorem write_at_counter (ds : List α) (m : Nat) (x : α) :
    Slots.write (ds.map some ++ Slots.fresh (m + 1)) ds.length x
      = .ok ((ds ++ [x]).map some ++ Slots.fresh m) := by
  have hlen : ds.length < (ds.map some ++ (Slots.fresh (m + 1) : Slots α)).length := by
    simp [Slots.fresh]
  simp only [Slots.write, hlen, if_true]
  rw [List.set_append_right _ _ (by simp)]
  simp [Slots.fresh, List.replicate_succ]

/-- writing at the fill counter when no free slot is left is an out-of-range index -/
theorem write_at_counter_full (ds : List α) (x : α) :
    Slots.write (ds.map some ++ Slots.fresh 0) ds.length x = .error .oob := by
  simp [Slots.write, Slots.fresh]

/-- reading a written slot succeeds, whatever the rest `g` of the array holds -/
theorem read_written (ds : List α) (g : Slots α) (j : Nat) (h : j < ds.length) :
    Slots.read (ds.map some ++ g) j = .ok ds[j] := by
  have : (ds.map some ++ g)[j]? = some (some ds[j]) := by
    rw [List.getElem?_append_left (by simpa using h)]
    simp [h]
  simp [Slots.read, this]

/-- reading a slot past the written prefix but inside the array is `assume_init` on uninitialised memory -/
theorem read_unwritten (ds : List α) (m j : Nat) (h1 : ds.length ≤ j) (h2 : j < ds.length + m) :
    Slots.read (ds.map some ++ Slots.fresh m) j = .error .uninit := by
  have : (ds.map some ++ (Slots.fresh m : Slots α))[j]? = some none := by
    rw [List.getElem?_append_right (by simpa using h1)]
    simp only [Slots.fresh, List.length_map, List.getElem?_replicate]
    rw [if_pos (by omega)]
  simp [Slots.read, this]

/-- reading past the end of the array is an out-of-range index -/
theorem read_past_end (ds : List α) (m j : Nat) (h : ds.length + m ≤ j) :
    Slots.read (ds.map some ++ Slots.fresh m) j = .error .oob := by
  have : (ds.map some ++ (Slots.fresh m : Slots α))[j]? = none := by
    rw [List.getElem?_eq_none_iff]
    simpa [Slots.fresh] using h
  simp [Slots.read, this]

/-- on an array whose first `ds.length` slots are written and whose `m` others are fresh, a read succeeds
**iff** the index is below the fill counter -/
theorem read_ok_iff (ds : List α) (m j : Nat) :
    (∃ x, Slots.read (ds.map some ++ Slots.fresh m) j = .ok x) ↔ j < ds.length := by
  constructor
  · intro ⟨x, hx⟩
    by_cases h1 : j < ds.length
    · exact h1
    · by_cases h2 : j < ds.length + m
      · rw [read_unwritten ds m j (by omega) h2] at hx; cases hx
      · rw [read_past_end ds m j (by omega)] at hx; cases hx
  · intro h
    exact ⟨ds[j], read_written ds _ j h⟩

example : Slots.read ([(5 : Int)].map some ++ Slots.fresh 1) 0 = .ok 5 := rfl
example : Slots.read ([(5 : Int)].map some ++ Slots.fresh 1) 1 = .error .uninit := rfl
example : Slots.read ([(5 : Int)].map some ++ Slots.fresh 1) 2 = .error .oob := rfl
example : Slots.write ([(5 : Int)].map some ++ Slots.fresh 1) 1 7 = .ok ([5, 7].map some ++ Slots.fresh 0) := rfl
example : Slots.write ([(5 : Int)].map some ++ Slots.fresh 0) 1 7 = .error .oob := rfl
end SlotLemmas

/-! ### the n-ary sum / product streams -/
section Nary
variable {α : Type}

/-- number of slot writes the first loop performs: the present inputs up to (not including) the first error.
It is at most the number of present inputs, hence at most the arity. -/
def writes : List (Output α) → Nat
  | [] => 0
  | .error _ :: _ => 0
  | .ok none :: rest => writes rest
  | .ok (some _) :: rest => writes rest + 1

theorem writes_le_length (ins : List (Output α)) : writes ins ≤ ins.length := by
  induction ins with
  | nil => simp [writes]
  | cons a rest ih =>
    cases a with
    | error e => simp [writes]
    | ok o => cases o <;> simp [writes] <;> omega

/-- `writes` is at most the number of present inputs anywhere in the list -/
theorem writes_le_present (ins : List (Output α)) :
    writes ins ≤ (ins.filter (fun o => match o with | .ok (some _) => true | _ => false)).length := by
  induction ins with
  | nil => simp [writes]
  | cons a rest ih =>
    cases a with
    | error e => simp [writes]
    | ok o => cases o <;> simp [writes] <;> omega

/-- when no input errs, `writes` is the number of collected data -/
theorem writes_eq_collect_length (ins : List (Output α)) (ds : List (Datum α))
    (h : Stream.collect ins = .ok ds) : writes ins = ds.length := by
  induction ins generalizing ds with
  | nil => simp [Stream.collect] at h; subst h; rfl
  | cons a rest ih =>
    cases a with
    | error e => simp [Stream.collect] at h
    | ok o =>
      cases o with
      | none => simpa [writes] using ih ds (by simpa [Stream.collect] using h)
      | some d =>
        cases hc : Stream.collect rest with
        | error e => simp [Stream.collect, hc] at h
        | ok ds' =>
          simp [Stream.collect, hc] at h
          subst h
          simp [writes, ih ds' hc]

/-- **`fill` invariant** (`sum_scratch_writes`).  Start from an array whose first `ds.length` slots hold `ds`, whose
remaining `m` slots are uninitialised, with fill counter `ds.length`, and let `m` be at least the number of writes
(in particular `m ≥ ins.length` suffices, see `writes_le_length`).  Then the loop never faults; it returns the first
input error exactly when `Stream.collect` does; otherwise the first `ds.length + ds'.length` slots are `ds ++ ds'`
(the present data in input order), every later slot is still uninitialised, and the counter is the number of
initialised slots. -/
theorem sum_scratch_writes (ins : List (Output α)) (ds : List (Datum α)) (m : Nat) (h : writes ins ≤ m) :
    Scratch.fill ins (ds.map some ++ Slots.fresh m) ds.length =
      .ok (match Stream.collect ins with
        | .error e => .error e
        | .ok ds' => .ok ((ds ++ ds').map some ++ Slots.fresh (m - ds'.length), ds.length + ds'.length)) := by
  induction ins generalizing ds m with
  | nil => simp [Scratch.fill, Stream.collect]
  | cons a rest ih =>
    cases a with
    | error e => simp [Scratch.fill, Stream.collect]
    | ok o =>
      cases o with
      | none =>
        simp only [Scratch.fill, Stream.collect]
        exact ih ds m (by simpa [writes] using h)
      | some x =>
        obtain ⟨m', rfl⟩ : ∃ m', m = m' + 1 := ⟨m - 1, by simp [writes] at h; omega⟩
        simp only [Scratch.fill, write_at_counter]
        have ih' := ih (ds ++ [x]) m' (by simp [writes] at h; omega)
        rw [List.length_append, List.length_singleton] at ih'
        rw [ih']
        cases hc : Stream.collect rest with
        | error e => simp [Stream.collect, hc]
        | ok ds' =>
          simp only [Stream.collect, hc, List.append_assoc, List.singleton_append, List.length_cons,
            Nat.add_sub_add_right]
          congr 3
          omega

example : writes [(.ok (some ⟨0, 1⟩) : Output Int), .ok none, .error .fromNone, .ok (some ⟨0, 2⟩)] ≤ 1 := by decide
example :
    Scratch.fill [(.ok (some ⟨3, 1⟩) : Output Int), .ok none, .ok (some ⟨4, 2⟩)] (Slots.fresh 3) 0
      = .ok (.ok ([some ⟨3, 1⟩, some ⟨4, 2⟩, none], 2)) := rfl

/-- **no write index is out of range and no fault of any kind** (`sum_scratch_in_bounds`): under the hypotheses of
`sum_scratch_writes`, `fill` never returns a `Fault`. -/
theorem sum_scratch_in_bounds (ins : List (Output α)) (ds : List (Datum α)) (m : Nat) (h : writes ins ≤ m)
    (f : Fault) : Scratch.fill ins (ds.map some ++ Slots.fresh m) ds.length ≠ .error f := by
  rw [sum_scratch_writes ins ds m h]
  intro hc; cases hc

example : writes [(.ok (some ⟨3, 1⟩) : Output Int), .ok none, .ok (some ⟨4, 2⟩)] ≤ 3 := by decide

/-- the bound on `m` in `sum_scratch_writes` is sharp: with fewer free slots than writes the loop indexes out of
range.  (So "no fault" really is a consequence of the array having `N` slots for `N` inputs.) -/
theorem fill_oob_of_too_small (ins : List (Output α)) (ds : List (Datum α)) (m : Nat) (h : m < writes ins) :
    Scratch.fill ins (ds.map some ++ Slots.fresh m) ds.length = .error .oob := by
  induction ins generalizing ds m with
  | nil => simp [writes] at h
  | cons a rest ih =>
    cases a with
    | error e => simp [writes] at h
    | ok o =>
      cases o with
      | none =>
        simp only [Scratch.fill]
        exact ih ds m (by simpa [writes] using h)
      | some x =>
        cases m with
        | zero => simp only [Scratch.fill, write_at_counter_full]
        | succ m' =>
          simp only [Scratch.fill, write_at_counter]
          have ih' := ih (ds ++ [x]) m' (by simp [writes] at h; omega)
          rw [List.length_append, List.length_singleton] at ih'
          exact ih'

example : (1 : Nat) < writes [(.ok (some ⟨3, 1⟩) : Output Int), .ok none, .ok (some ⟨4, 2⟩)] := by decide

/-- `fill` at the call site of `nary`: a fresh array with one slot per input, counter `0`. -/
theorem fill_fresh (ins : List (Output α)) :
    Scratch.fill ins (Slots.fresh ins.length) 0 =
      .ok (match Stream.collect ins with
        | .error e => .error e
        | .ok ds' => .ok (ds'.map some ++ Slots.fresh (ins.length - ds'.length), ds'.length)) := by
  have := sum_scratch_writes ins [] ins.length (writes_le_length ins)
  simpa using this

/-- **second loop** (`foldFrom`): on an array whose first `ds.length` slots are written — *whatever* the remaining
slots `g` contain (uninitialised, poisoned, anything) — running `count` iterations from `other_outputs[i]` with
`1 + i + count ≤ ds.length` never faults and is the left fold of `Datum.combine op` over slots
`1+i, …, 1+i+count-1` in that order. -/
theorem foldFrom_spec (op : α → α → α) (ds : List (Datum α)) (g : Slots (Datum α)) (v0 : Datum α)
    (i count : Nat) (h : 1 + i + count ≤ ds.length) :
    Scratch.foldFrom op (ds.map some ++ g) v0 i count
      = .ok (((ds.drop (1 + i)).take count).foldl (Datum.combine op) v0) := by
  induction count generalizing i v0 with
  | zero => simp [Scratch.foldFrom]
  | succ c ih =>
    have hlt : 1 + i < ds.length := by omega
    simp only [Scratch.foldFrom, read_written ds g (1 + i) hlt]
    rw [ih (Datum.combine op v0 ds[1 + i]) (i + 1) (by omega)]
    rw [List.drop_eq_getElem_cons hlt, List.take_succ_cons, List.foldl_cons]
    rfl

example : 1 + 0 + 2 ≤ [(⟨0, 1⟩ : Datum Int), ⟨0, 2⟩, ⟨0, 3⟩].length := by decide

/-- for an ARBITRARY slot array: the `count` iterations starting at `other_outputs[i]` succeed **iff** each of the
slots `1+i, …, 1+i+count-1` can be read; no other slot matters. -/
theorem foldFrom_ok_iff (op : α → α → α) (s : Slots (Datum α)) (v0 : Datum α) (i count : Nat) :
    (∃ v, Scratch.foldFrom op s v0 i count = .ok v) ↔ ∀ j, j < count → ∃ x, s.read (1 + i + j) = .ok x := by
  induction count generalizing i v0 with
  | zero => simp [Scratch.foldFrom]
  | succ c ih =>
    cases hr : s.read (1 + i) with
    | error f =>
      simp only [Scratch.foldFrom, hr]
      constructor
      · intro ⟨v, hv⟩; cases hv
      · intro hall
        obtain ⟨x, hx⟩ := hall 0 (by omega)
        rw [Nat.add_zero, hr] at hx; cases hx
    | ok x =>
      simp only [Scratch.foldFrom, hr]
      rw [ih]
      constructor
      · intro hall j hj
        cases j with
        | zero => exact ⟨x, by simpa using hr⟩
        | succ j' =>
          have := hall j' (by omega)
          rwa [show 1 + (i + 1) + j' = 1 + i + (j' + 1) by omega] at this
      · intro hall j hj
        have := hall (j + 1) (by omega)
        rwa [show 1 + i + (j + 1) = 1 + (i + 1) + j by omega] at this

/-- for an ARBITRARY pair of slot arrays that agree on slots `1+i, …, 1+i+count-1`, the second loop returns the
same thing: the result does not depend on any other slot (in particular not on unwritten memory). -/
theorem foldFrom_congr (op : α → α → α) (s s' : Slots (Datum α)) (v0 : Datum α) (i count : Nat)
    (h : ∀ j, j < count → s.read (1 + i + j) = s'.read (1 + i + j)) :
    Scratch.foldFrom op s v0 i count = Scratch.foldFrom op s' v0 i count := by
  induction count generalizing i v0 with
  | zero => simp [Scratch.foldFrom]
  | succ c ih =>
    have h0 : s.read (1 + i) = s'.read (1 + i) := by simpa using h 0 (by omega)
    simp only [Scratch.foldFrom, ← h0]
    cases hr : s.read (1 + i) with
    | error f => rfl
    | ok x =>
      simp only
      apply ih
      intro j hj
      have := h (j + 1) (by omega)
      rwa [show 1 + i + (j + 1) = 1 + (i + 1) + j by omega] at this

example : ∀ j, j < 1 →
    Slots.read [some (⟨0, 1⟩ : Datum Int), some ⟨0, 2⟩, none] (1 + 0 + j)
      = Slots.read [none, some (⟨0, 2⟩ : Datum Int), some ⟨9, 9⟩] (1 + 0 + j) := by
  intro j hj; obtain rfl : j = 0 := by omega
  rfl

/-- one iteration too many: if the first `count` slots can be read and the next read faults with `f`, the loop
faults with `f` (used for the off-by-one mutant below). -/
theorem foldFrom_fault (op : α → α → α) (s : Slots (Datum α)) (v0 : Datum α) (i count : Nat) (f : Fault)
    (hok : ∀ j, j < count → ∃ x, s.read (1 + i + j) = .ok x) (hbad : s.read (1 + i + count) = .error f) :
    Scratch.foldFrom op s v0 i (count + 1) = .error f := by
  induction count generalizing i v0 with
  | zero => simp only [Scratch.foldFrom, Nat.add_zero] at hbad ⊢; simp [hbad]
  | succ c ih =>
    obtain ⟨x, hx⟩ := hok 0 (by omega)
    rw [Nat.add_zero] at hx
    rw [Scratch.foldFrom]
    simp only [hx]
    apply ih
    · intro j hj
      have := hok (j + 1) (by omega)
      rwa [show 1 + i + (j + 1) = 1 + (i + 1) + j by omega] at this
    · rwa [show 1 + (i + 1) + c = 1 + i + (c + 1) by omega]

example : Slots.read [some (⟨0, 1⟩ : Datum Int), none] (1 + 0 + 0) = .error .uninit := rfl

/-- **Main refinement.**  For every arity (including 0), every pattern of absent inputs and every erroring input:
the slot-level `SumStream::get` / `ProductStream::get` reaches neither `Fault.oob` nor `Fault.uninit`, and returns
exactly what the list-level model `Stream.nary` returns. -/
theorem sum_scratch_refines (op : α → α → α) (ins : List (Output α)) :
    Scratch.nary op ins = .ok (Stream.nary op ins) := by
  simp only [Scratch.nary, fill_fresh, Stream.nary]
  cases hc : Stream.collect ins with
  | error e => rfl
  | ok ds' =>
    cases ds' with
    | nil => simp [Stream.foldData]
    | cons d ds =>
      simp only [List.length_cons, Nat.add_one_ne_zero, if_false, Nat.add_sub_cancel]
      rw [read_written (d :: ds) _ 0 (by simp)]
      simp only
      rw [foldFrom_spec op (d :: ds) _ _ 0 ds.length (by simp; omega)]
      simp [Stream.foldData]

/-- no fault is reachable, stated on its own -/
theorem sum_scratch_no_fault (op : α → α → α) (ins : List (Output α)) (f : Fault) :
    Scratch.nary op ins ≠ .error f := by
  rw [sum_scratch_refines]; intro h; cases h

/-- `SumStream::get`: every slot read was written (no `uninit`, no `oob`), result = list-level sum -/
theorem sum_scratch_reads_written [Add α] (ins : List (Output α)) :
    Scratch.nary (· + ·) ins = .ok (Stream.nary (· + ·) ins) := sum_scratch_refines _ ins

/-- `ProductStream::get`: every slot read was written (no `uninit`, no `oob`), result = list-level product -/
theorem product_scratch_reads_written [Mul α] (ins : List (Output α)) :
    Scratch.nary (· * ·) ins = .ok (Stream.nary (· * ·) ins) := sum_scratch_refines _ ins

/-- **reads ⊆ writes, sharply.**  When no input errs, with `ds'` the collected data: the array left by the first loop
has one slot per input, its fill counter is `ds'.length`, and reading slot `j` of it succeeds **iff**
`j < filled`.  Together with `foldFrom_ok_iff` (the second loop, called with `i = 0`, `count = filled - 1`, touches
exactly slots `1 + j` for `j < filled - 1`, all `< filled`) and the single `read 0` (guarded by `filled ≠ 0`), this
says every index passed to `Slots.read` during `Scratch.nary` is below the fill counter — and that reading one slot
further would fault. -/
theorem nary_reads_only_written (ins : List (Output α)) (ds' : List (Datum α))
    (h : Stream.collect ins = .ok ds') :
    ∃ s : Slots (Datum α),
      Scratch.fill ins (Slots.fresh ins.length) 0 = .ok (.ok (s, ds'.length)) ∧
      s.length = ins.length ∧
      (∀ j, (∃ x, s.read j = .ok x) ↔ j < ds'.length) ∧
      (∀ j, ds'.length ≤ j → j < ins.length → s.read j = .error .uninit) ∧
      (∀ j, ins.length ≤ j → s.read j = .error .oob) ∧
      (ds'.length ≠ 0 → ∃ x, s.read 0 = .ok x) ∧
      (∀ (op : α → α → α) (v0 : Datum α), ∃ v, Scratch.foldFrom op s v0 0 (ds'.length - 1) = .ok v) := by
  have hle : ds'.length ≤ ins.length := by
    rw [← writes_eq_collect_length ins ds' h]; exact writes_le_length ins
  refine ⟨ds'.map some ++ Slots.fresh (ins.length - ds'.length), ?_, ?_, ?_, ?_, ?_, ?_, ?_⟩
  · rw [fill_fresh, h]
  · simp [Slots.fresh]; omega
  · exact read_ok_iff ds' _
  · intro j h1 h2; exact read_unwritten ds' _ j h1 (by omega)
  · intro j h1; exact read_past_end ds' _ j (by omega)
  · intro hne; exact (read_ok_iff ds' _ 0).2 (by omega)
  · intro op v0
    rw [foldFrom_ok_iff]
    intro j hj
    exact (read_ok_iff ds' _ _).2 (by omega)

example : Stream.collect [(.ok (some ⟨3, 1⟩) : Output Int), .ok none, .ok (some ⟨4, 2⟩)]
    = .ok [⟨3, 1⟩, ⟨4, 2⟩] := rfl

/-- the `0..outputs_filled - 1` bound is sharp for every arity and every pattern with at least one present input:
on the array left by the first loop, one more iteration (`0..outputs_filled`) reads an uninitialised slot when
some input is absent, and indexes out of range when all inputs are present. -/
theorem foldFrom_one_more_faults (op : α → α → α) (ins : List (Output α)) (ds' : List (Datum α))
    (h : Stream.collect ins = .ok ds') (hne : ds'.length ≠ 0) (v0 : Datum α) :
    Scratch.foldFrom op (ds'.map some ++ Slots.fresh (ins.length - ds'.length)) v0 0 (ds'.length - 1 + 1)
      = .error (if ds'.length < ins.length then .uninit else .oob) := by
  have hle : ds'.length ≤ ins.length := by
    rw [← writes_eq_collect_length ins ds' h]; exact writes_le_length ins
  apply foldFrom_fault
  · intro j hj; exact (read_ok_iff ds' _ _).2 (by omega)
  · have hidx : 1 + 0 + (ds'.length - 1) = ds'.length := by omega
    rw [hidx]
    by_cases hlt : ds'.length < ins.length
    · rw [if_pos hlt]; exact read_unwritten ds' _ _ (Nat.le_refl _) (by omega)
    · rw [if_neg hlt]; exact read_past_end ds' _ _ (by omega)

example : Stream.collect [(.ok (some ⟨3, 1⟩) : Output Int), .ok none] = .ok [⟨3, 1⟩] ∧ [(⟨3, 1⟩ : Datum Int)].length ≠ 0 :=
  ⟨rfl, by decide⟩

end Nary

/-! ### mutation check: the theorems have teeth -/
section Mutants
variable {α : Type}

/-- the Rust second loop written as `0..outputs_filled` instead of `0..outputs_filled - 1`: one iteration more -/
def foldFromOffByOne (op : α → α → α) (s : Slots (Datum α)) (value : Datum α) (i count : Nat) :
    Except Fault (Datum α) :=
  Scratch.foldFrom op s value i (count + 1)

/-- first loop that writes but forgets `outputs_filled += 1` -/
def fillNoAdvance : List (Output α) → Slots (Datum α) → Nat → Except Fault (Except Err (Slots (Datum α) × Nat))
  | [], s, k => .ok (.ok (s, k))
  | .error e :: _, _, _ => .ok (.error e)
  | .ok none :: rest, s, k => fillNoAdvance rest s k
  | .ok (some x) :: rest, s, k =>
    match s.write k x with
    | .error f => .error f
    | .ok s' => fillNoAdvance rest s' k

/-- first loop that writes to `outputs[outputs_filled + 1]` -/
def fillShifted : List (Output α) → Slots (Datum α) → Nat → Except Fault (Except Err (Slots (Datum α) × Nat))
  | [], s, k => .ok (.ok (s, k))
  | .error e :: _, _, _ => .ok (.error e)
  | .ok none :: rest, s, k => fillShifted rest s k
  | .ok (some x) :: rest, s, k =>
    match s.write (k + 1) x with
    | .error f => .error f
    | .ok s' => fillShifted rest s' (k + 1)

/-- `Scratch.nary` with the two loops as parameters -/
def naryWith (fillF : List (Output α) → Slots (Datum α) → Nat → Except Fault (Except Err (Slots (Datum α) × Nat)))
    (foldF : (α → α → α) → Slots (Datum α) → Datum α → Nat → Nat → Except Fault (Datum α))
    (op : α → α → α) (ins : List (Output α)) : Except Fault (Output α) :=
  match fillF ins (Slots.fresh ins.length) 0 with
  | .error f => .error f
  | .ok (.error e) => .ok (.error e)
  | .ok (.ok (s, filled)) =>
    if filled = 0 then .ok (.ok none)
    else
      match s.read 0 with
      | .error f => .error f
      | .ok v0 =>
        match foldF op s v0 0 (filled - 1) with
        | .error f => .error f
        | .ok v => .ok (.ok (some v))

/-- the harness instantiated with the real loops *is* the model -/
theorem naryWith_real (op : α → α → α) (ins : List (Output α)) :
    naryWith Scratch.fill Scratch.foldFrom op ins = Scratch.nary op ins := rfl

-- off-by-one bound, an input absent: reads an unwritten slot
example : naryWith Scratch.fill foldFromOffByOne (· + ·) [(.ok (some ⟨3, 1⟩) : Output Int), .ok none]
    = .error .uninit := rfl
-- off-by-one bound, all inputs present: index out of range
example : naryWith Scratch.fill foldFromOffByOne (· + ·) [(.ok (some ⟨3, 1⟩) : Output Int), .ok (some ⟨4, 2⟩)]
    = .error .oob := rfl
-- the real code on the same inputs
example : Scratch.nary (· + ·) [(.ok (some ⟨3, 1⟩) : Output Int), .ok none] = .ok (.ok (some ⟨3, 1⟩)) := rfl
example : Scratch.nary (· + ·) [(.ok (some ⟨3, 1⟩) : Output Int), .ok (some ⟨4, 2⟩)]
    = .ok (.ok (some ⟨4, 3⟩)) := rfl
-- counter not advanced: no fault, but the refinement fails (data silently dropped)
example : naryWith fillNoAdvance Scratch.foldFrom (· + ·) [(.ok (some ⟨3, 1⟩) : Output Int), .ok (some ⟨4, 2⟩)]
    = .ok (.ok none) := rfl
example : naryWith fillNoAdvance Scratch.foldFrom (· + ·) [(.ok (some ⟨3, 1⟩) : Output Int), .ok (some ⟨4, 2⟩)]
    ≠ .ok (Stream.nary (· + ·) [(.ok (some ⟨3, 1⟩) : Output Int), .ok (some ⟨4, 2⟩)]) := by
  intro h; cases h
-- write index shifted by one: slot 0 never written (`uninit`) / last write out of range (`oob`)
example : naryWith fillShifted Scratch.foldFrom (· + ·) [(.ok (some ⟨3, 1⟩) : Output Int), .ok none]
    = .error .uninit := rfl
example : naryWith fillShifted Scratch.foldFrom (· + ·) [(.ok (some ⟨3, 1⟩) : Output Int), .ok (some ⟨4, 2⟩)]
    = .error .oob := rfl
end Mutants

/-! ### `Terminal`'s state getter -/
section Terminal
variable {F : Type} [Add F] [Sub F] [Mul F] [Div F] [Neg F] [LT F] [LE F] [BEq F]
  [DecidableLT F] [DecidableLE F] [FloatLike F]

/-- all four presence combinations of own / partner state: no fault (`addends[addend_count]` is in range, only
written slots are `assume_init`-ed, the `unimplemented!()` arm is not reached) and the result is the list-level
four-way case analysis. -/
theorem terminal_scratch_refines (own partner : Option (Datum (State F))) :
    Scratch.terminalState own partner = .ok (match own, partner with
      | none, none => none
      | some a, none => some a
      | none, some b => some b
      | some a, some b => some (Datum.scalar State.divF (Datum.combine State.add a b) c2)) := by
  cases own <;> cases partner <;> rfl

/-- no fault, stated on its own -/
theorem terminal_scratch_no_fault (own partner : Option (Datum (State F))) (f : Fault) :
    Scratch.terminalState own partner ≠ .error f := by
  rw [terminal_scratch_refines]; intro h; cases h

/-- the slot-level read of terminal `i` of any world is `World.getState` -/
theorem terminal_scratch_refines_world (w : World F) (i : Nat) :
    Scratch.terminalState (w.t i).state (w.partnerState i) = .ok (w.getState i) := by
  rw [terminal_scratch_refines]
  simp only [World.getState]
  cases (w.t i).state <;> cases w.partnerState i <;> rfl

example : Scratch.terminalState (some (⟨5, ⟨2, 4, 6⟩⟩ : Datum (State Int))) (some ⟨7, ⟨4, 6, 8⟩⟩)
    = .ok (some ⟨7, ⟨3, 5, 7⟩⟩) := rfl
example : Scratch.terminalState (none : Option (Datum (State Int))) (some ⟨7, ⟨4, 6, 8⟩⟩)
    = .ok (some ⟨7, ⟨4, 6, 8⟩⟩) := rfl
end Terminal

/-! ### `Axle::new` -/
section Axle

/-- the write step of `Axle::new`'s first loop -/
def axleStep (acc : Except Fault (Slots Unit)) (i : Nat) : Except Fault (Slots Unit) :=
  match acc with
  | .error f => .error f
  | .ok s => s.write i ()

/-- after writing indices `0..j` of a fresh array of size `n` (`j ≤ n`): the first `j` slots are initialised, the
other `n - j` are not, and no write was out of range -/
theorem axle_writes_prefix (n j : Nat) (h : j ≤ n) :
    (List.range j).foldl axleStep (.ok (Slots.fresh n))
      = .ok ((List.replicate j ()).map some ++ Slots.fresh (n - j)) := by
  induction j with
  | zero => simp
  | succ j ih =>
    rw [List.range_succ, List.foldl_append, ih (by omega)]
    obtain ⟨m, hm⟩ : ∃ m, n - j = m + 1 := ⟨n - j - 1, by omega⟩
    have hm' : n - (j + 1) = m := by omega
    rw [hm, hm']
    have := write_at_counter (List.replicate j ()) m ()
    rw [List.length_replicate] at this
    simp only [List.foldl_cons, List.foldl_nil, axleStep, this]
    rw [← List.replicate_succ']

example : (List.range 2).foldl axleStep (.ok (Slots.fresh 3)) = .ok [some (), some (), none] := rfl

/-- reading out the first `j` slots of a fully written array -/
theorem axle_read_prefix (n j : Nat) (h : j ≤ n) :
    (List.range j).mapM (fun i => Slots.read ((List.replicate n ()).map some ++ Slots.fresh 0) i)
      = (.ok (List.replicate j ()) : Except Fault (List Unit)) := by
  induction j with
  | zero => rfl
  | succ j ih =>
    rw [List.range_succ, List.mapM_append, ih (by omega)]
    have hr := read_written (List.replicate n ()) (Slots.fresh 0) j (by simp; omega)
    simp only [List.mapM_cons, List.mapM_nil, hr]
    rw [List.replicate_succ']
    rfl

/-- **`Axle::new`, every `N`**: every element is written (in range) before the array is read out as initialised;
the read-out touches only written slots. -/
theorem axle_new_writes_all (n : Nat) : Scratch.axleNew n = .ok (List.replicate n ()) := by
  have hw := axle_writes_prefix n n (Nat.le_refl n)
  rw [Nat.sub_self] at hw
  have hr := axle_read_prefix n n (Nat.le_refl n)
  simp only [Scratch.axleNew]
  change (match (List.range n).foldl axleStep (.ok (Slots.fresh n)) with
    | .error f => (.error f : Except Fault (List Unit))
    | .ok s => (List.range n).mapM (fun i => s.read i)) = _
  rw [hw]
  exact hr

/-- no fault, stated on its own -/
theorem axle_new_no_fault (n : Nat) (f : Fault) : Scratch.axleNew n ≠ .error f := by
  rw [axle_new_writes_all]; intro h; cases h

/-- just before the read-out every slot of the `N`-array is initialised -/
theorem axle_all_initialised (n : Nat) :
    (List.range n).foldl axleStep (.ok (Slots.fresh n)) = .ok (List.replicate n (some ())) := by
  have hw := axle_writes_prefix n n (Nat.le_refl n)
  rw [Nat.sub_self] at hw
  rw [hw]; simp [Slots.fresh]

example : Scratch.axleNew 3 = .ok [(), (), ()] := rfl
example : Scratch.axleNew 0 = .ok [] := rfl
-- mutant: writing only the first `n - 1` elements leaves the last slot uninitialised at read-out
example : (match (List.range 2).foldl axleStep (.ok (Slots.fresh 3)) with
    | .error f => .error f
    | .ok s => (List.range 3).mapM (fun i => s.read i)) = (.error .uninit : Except Fault (List Unit)) := rfl
end Axle

end Rrtk.Thm.C16
