/-
C17 — `Reference`: aliasing of clones / `to_dyn!` results, target lifetime, no lost update under the lock protocol
(every schedule), and the arms of `to_dyn!` against the variants of the build.  Tier S (no scalar at all).
-/
import Rrtk.Reference
set_option linter.unusedSectionVars false
set_option linter.unusedSimpArgs false
namespace Rrtk.Thm.C17
open Rrtk

/-! ## B. the lock protocol: no lost update, for every schedule -/

/-- contribution to the shared value of an increment that has been written but not yet counted in `done` -/
def pending : Option (Nat × LockPhase) → Int
  | some (_, .written) => 1
  | _ => 0

/-- the invariant of the lock protocol (`k` increments per thread) -/
def LInv (k : Nat) (s : LockState) : Prop :=
  s.value = (s.done.sum : Int) + pending s.holder ∧
  (∀ i x, s.holder = some (i, .read x) → x = s.value) ∧
  (∀ i ph, s.holder = some (i, ph) → i < s.done.length ∧ s.done.getD i 0 < k) ∧
  (∀ j, s.done.getD j 0 ≤ k)

theorem getD_replicate_zero (n j : Nat) : (List.replicate n 0).getD j 0 = 0 := by
  simp only [List.getD_eq_getElem?_getD, List.getElem?_replicate]
  split <;> rfl

theorem sum_replicate_zero (n : Nat) : (List.replicate n 0).sum = 0 := by
  induction n with
  | zero => rfl
  | succ m ih => simp [List.replicate_succ, ih]

theorem sum_set_succ (l : List Nat) (i : Nat) (hi : i < l.length) :
    (l.set i (l.getD i 0 + 1)).sum = l.sum + 1 := by
  induction l generalizing i with
  | nil => simp at hi
  | cons a t ih =>
    cases i with
    | zero => simp [List.set]; omega
    | succ j =>
      have hj : j < t.length := by simpa using hi
      have := ih j hj
      simp only [List.set, List.sum_cons, List.getD_cons_succ]
      omega

theorem getD_set (l : List Nat) (i j a : Nat) (hi : i < l.length) :
    (l.set i a).getD j 0 = if j = i then a else l.getD j 0 := by
  simp only [List.getD_eq_getElem?_getD, List.getElem?_set]
  by_cases h : i = j
  · subst h; simp [hi]
  · have h' : ¬ j = i := fun e => h e.symm
    simp [h, h']

theorem sum_eq_mul_of_all (l : List Nat) (n k : Nat) (hl : l.length = n) (h : ∀ i, i < n → l.getD i 0 = k) :
    l.sum = n * k := by
  induction l generalizing n with
  | nil => subst hl; simp
  | cons a t ih =>
    subst hl
    have h0 : a = k := by simpa using h 0 (by simp)
    have ht : t.sum = t.length * k := ih t.length rfl (fun i hi => by
      have := h (i + 1) (by simp; omega)
      simpa using this)
    simp only [List.sum_cons, List.length_cons, ht, h0, Nat.succ_mul]
    omega

/-- the invariant holds initially -/
theorem linv_init (n k : Nat) : LInv k (LockState.init n) := by
  refine ⟨?_, ?_, ?_, ?_⟩
  · simp [LockState.init, pending, sum_replicate_zero]
  · intro i x h; simp [LockState.init] at h
  · intro i ph h; simp [LockState.init] at h
  · intro j
    show (List.replicate n 0).getD j 0 ≤ k
    rw [getD_replicate_zero]; omega

/-- every atomic step of every thread preserves it -/
theorem linv_step (k : Nat) (s s' : LockState) (hinv : LInv k s) (hstep : LockStep k s s') : LInv k s' := by
  obtain ⟨h1, h2, h3, h4⟩ := hinv
  cases hstep with
  | acquire i hi hfree hk =>
    refine ⟨?_, ?_, ?_, ?_⟩
    · simpa [pending, hfree] using h1
    · intro i' x h; simp at h
    · intro i' ph h
      simp only [Option.some.injEq, Prod.mk.injEq] at h
      obtain ⟨rfl, _⟩ := h
      exact ⟨hi, hk⟩
    · exact h4
  | read i h =>
    refine ⟨?_, ?_, ?_, ?_⟩
    · simpa [pending, h] using h1
    · intro i' x hx
      simp only [Option.some.injEq, Prod.mk.injEq, LockPhase.read.injEq] at hx
      exact hx.2.symm
    · intro i' ph hx
      simp only [Option.some.injEq, Prod.mk.injEq] at hx
      obtain ⟨rfl, _⟩ := hx
      exact h3 _ _ h
    · exact h4
  | write i x h =>
    have hx : x = s.value := h2 i x h
    refine ⟨?_, ?_, ?_, ?_⟩
    · simp only [pending, h] at h1 ⊢
      omega
    · intro i' x' hx'; simp at hx'
    · intro i' ph hx'
      simp only [Option.some.injEq, Prod.mk.injEq] at hx'
      obtain ⟨rfl, _⟩ := hx'
      exact h3 _ _ h
    · exact h4
  | release i h =>
    obtain ⟨hi, hk⟩ := h3 _ _ h
    refine ⟨?_, ?_, ?_, ?_⟩
    · simp only [pending, h] at h1 ⊢
      rw [sum_set_succ _ _ hi]
      omega
    · intro i' x hx; simp at hx
    · intro i' ph hx; simp at hx
    · intro j
      show (s.done.set i (s.done.getD i 0 + 1)).getD j 0 ≤ k
      rw [getD_set _ _ _ _ hi]
      split
      · omega
      · exact h4 j

/-- … hence every schedule does -/
theorem linv_run (k : Nat) (a s : LockState) (ha : LInv k a) (hrun : LockRun k a s) : LInv k s := by
  induction hrun with
  | refl => exact ha
  | step _ hstep ih => exact linv_step k _ _ ih hstep

theorem lock_step_length (k : Nat) (s s' : LockState) (hstep : LockStep k s s') :
    s'.done.length = s.done.length := by
  cases hstep <;> simp

/-- the number of threads never changes -/
theorem lock_run_length (k n : Nat) (s : LockState) (hrun : LockRun k (LockState.init n) s) :
    s.done.length = n := by
  induction hrun with
  | refl => simp [LockState.init]
  | step _ hstep ih => rw [lock_step_length k _ _ hstep, ih]

/-- **No lost update, every schedule.** In every state reachable from the initial one by any interleaving of the
threads' atomic steps: whenever the lock is free the shared value is exactly the number of completed increments; and
when every thread has finished its `k` increments it is `n * k`. -/
theorem locked_increments_no_lost_update (n k : Nat) (s : LockState) (hrun : LockRun k (LockState.init n) s) :
    (s.holder = none → s.value = (s.done.sum : Int)) ∧
    (s.holder = none → (∀ i, i < n → s.done.getD i 0 = k) → s.value = (n : Int) * (k : Int)) := by
  have hinv := linv_run k _ s (linv_init n k) hrun
  have hlen := lock_run_length k n s hrun
  have hfree : s.holder = none → s.value = (s.done.sum : Int) := by
    intro hf
    have := hinv.1
    simpa [hf, pending] using this
  refine ⟨hfree, ?_⟩
  intro hf hall
  rw [hfree hf, sum_eq_mul_of_all s.done n k hlen hall]
  simp

/-- while the lock is held, the value is the completed increments plus the holder's increment if already written:
nobody else's write can be in flight -/
theorem locked_value_while_held (n k : Nat) (s : LockState) (hrun : LockRun k (LockState.init n) s) :
    s.value = (s.done.sum : Int) + pending s.holder :=
  (linv_run k _ s (linv_init n k) hrun).1

/-- the value a holder has read is still the current value when it writes (no interference between its read and its
write) -/
theorem locked_read_is_current (n k : Nat) (s : LockState) (hrun : LockRun k (LockState.init n) s)
    (i : Nat) (x : Int) (h : s.holder = some (i, .read x)) : x = s.value :=
  (linv_run k _ s (linv_init n k) hrun).2.1 i x h

/-- no deadlock: a holder can always move; with the lock free any unfinished thread can acquire -/
theorem lock_progress (n k : Nat) (s : LockState) (hrun : LockRun k (LockState.init n) s) :
    ((∃ h, s.holder = some h) → ∃ s', LockStep k s s') ∧
    (s.holder = none → (∃ i, i < n ∧ s.done.getD i 0 < k) → ∃ s', LockStep k s s') := by
  have hlen := lock_run_length k n s hrun
  constructor
  · rintro ⟨⟨i, ph⟩, h⟩
    cases ph with
    | acquired => exact ⟨_, LockStep.read s i h⟩
    | read x => exact ⟨_, LockStep.write s i x h⟩
    | written => exact ⟨_, LockStep.release s i h⟩
  · rintro hf ⟨i, hi, hk⟩
    exact ⟨_, LockStep.acquire s i (by omega) hf hk⟩

/-- a state in which no step is enabled is a finished one, and there the value is `n * k` -/
theorem locked_increments_terminal (n k : Nat) (s : LockState) (hrun : LockRun k (LockState.init n) s)
    (hstuck : ¬ ∃ s', LockStep k s s') :
    s.holder = none ∧ (∀ i, i < n → s.done.getD i 0 = k) ∧ s.value = (n : Int) * (k : Int) := by
  have hinv := linv_run k _ s (linv_init n k) hrun
  have hp := lock_progress n k s hrun
  have hf : s.holder = none := by
    cases hh : s.holder with
    | none => rfl
    | some h => exact absurd (hp.1 ⟨h, hh⟩) hstuck
  have hall : ∀ i, i < n → s.done.getD i 0 = k := by
    intro i hi
    have hle := hinv.2.2.2 i
    by_cases hlt : s.done.getD i 0 < k
    · exact absurd (hp.2 hf ⟨i, hi, hlt⟩) hstuck
    · omega
  exact ⟨hf, hall, (locked_increments_no_lost_update n k s hrun).2 hf hall⟩

/-- a finished state has no enabled step (so "finished" and "stuck" coincide on reachable states) -/
theorem lock_finished_is_stuck (n k : Nat) (s : LockState) (hrun : LockRun k (LockState.init n) s)
    (hf : s.holder = none) (hall : ∀ i, i < n → s.done.getD i 0 = k) : ¬ ∃ s', LockStep k s s' := by
  have hlen := lock_run_length k n s hrun
  rintro ⟨s', hstep⟩
  cases hstep with
  | acquire i hi hfree hk => have := hall i (by omega); omega
  | read i h => rw [hf] at h; cases h
  | write i x h => rw [hf] at h; cases h
  | release i h => rw [hf] at h; cases h

/-- non-vacuity: a complete run of two threads, one increment each (thread 1 first, then thread 0) -/
theorem lock_run_2_1 : LockRun 1 (LockState.init 2) ⟨2, none, [1, 1]⟩ := by
  have s0 : LockRun 1 (LockState.init 2) ⟨0, none, [0, 0]⟩ := LockRun.refl _
  have s1 : LockRun 1 (LockState.init 2) ⟨0, some (1, .acquired), [0, 0]⟩ :=
    LockRun.step s0 (LockStep.acquire ⟨0, none, [0, 0]⟩ 1 (by decide) rfl (by decide))
  have s2 : LockRun 1 (LockState.init 2) ⟨0, some (1, .read 0), [0, 0]⟩ :=
    LockRun.step s1 (LockStep.read ⟨0, some (1, .acquired), [0, 0]⟩ 1 rfl)
  have s3 : LockRun 1 (LockState.init 2) ⟨1, some (1, .written), [0, 0]⟩ :=
    LockRun.step s2 (LockStep.write ⟨0, some (1, .read 0), [0, 0]⟩ 1 0 rfl)
  have s4 : LockRun 1 (LockState.init 2) ⟨1, none, [0, 1]⟩ :=
    LockRun.step s3 (LockStep.release ⟨1, some (1, .written), [0, 0]⟩ 1 rfl)
  have s5 : LockRun 1 (LockState.init 2) ⟨1, some (0, .acquired), [0, 1]⟩ :=
    LockRun.step s4 (LockStep.acquire ⟨1, none, [0, 1]⟩ 0 (by decide) rfl (by decide))
  have s6 : LockRun 1 (LockState.init 2) ⟨1, some (0, .read 1), [0, 1]⟩ :=
    LockRun.step s5 (LockStep.read ⟨1, some (0, .acquired), [0, 1]⟩ 0 rfl)
  have s7 : LockRun 1 (LockState.init 2) ⟨2, some (0, .written), [0, 1]⟩ :=
    LockRun.step s6 (LockStep.write ⟨1, some (0, .read 1), [0, 1]⟩ 0 1 rfl)
  exact LockRun.step s7 (LockStep.release ⟨2, some (0, .written), [0, 1]⟩ 0 rfl)

/-- the theorem applied to that run: value `2 = 2 * 1`, and it is stuck -/
example : (⟨2, none, [1, 1]⟩ : LockState).value = ((2 : Nat) : Int) * ((1 : Nat) : Int) :=
  (locked_increments_no_lost_update 2 1 _ lock_run_2_1).2 rfl (by
    intro i hi
    match i, hi with
    | 0, _ => rfl
    | 1, _ => rfl)

/-- … and it is stuck (non-vacuity of `locked_increments_terminal`) -/
example : ¬ ∃ s', LockStep 1 ⟨2, none, [1, 1]⟩ s' :=
  lock_finished_is_stuck 2 1 _ lock_run_2_1 rfl (by
    intro i hi
    match i, hi with
    | 0, _ => rfl
    | 1, _ => rfl)

/-! ### the same increments WITHOUT the lock lose updates (the theorem has teeth) -/

/-- unlocked read-modify-write: each thread has a register holding what it read -/
structure RacyState where
  value : Int
  regs : List (Option Int)
  done : List Nat

/-- same thread program `{ read; write (read + 1) }`, but nothing excludes two threads being between their read and
their write at the same time -/
inductive RacyStep : RacyState → RacyState → Prop where
  | read (s : RacyState) (i : Nat) (hi : i < s.regs.length) (h : s.regs.getD i none = none) :
      RacyStep s { s with regs := s.regs.set i (some s.value) }
  | write (s : RacyState) (i : Nat) (x : Int) (h : s.regs.getD i none = some x) :
      RacyStep s { s with value := x + 1, regs := s.regs.set i none, done := s.done.set i (s.done.getD i 0 + 1) }

inductive RacyRun : RacyState → RacyState → Prop where
  | refl (s : RacyState) : RacyRun s s
  | step {a b c : RacyState} : RacyRun a b → RacyStep b c → RacyRun a c

/-- a lost update: both threads complete one increment, the value ends at `1`, not `2` -/
theorem racy_lost_update : RacyRun ⟨0, [none, none], [0, 0]⟩ ⟨1, [none, none], [1, 1]⟩ := by
  have s0 : RacyRun ⟨0, [none, none], [0, 0]⟩ ⟨0, [none, none], [0, 0]⟩ := RacyRun.refl _
  have s1 : RacyRun ⟨0, [none, none], [0, 0]⟩ ⟨0, [some 0, none], [0, 0]⟩ :=
    RacyRun.step s0 (RacyStep.read ⟨0, [none, none], [0, 0]⟩ 0 (by decide) rfl)
  have s2 : RacyRun ⟨0, [none, none], [0, 0]⟩ ⟨0, [some 0, some 0], [0, 0]⟩ :=
    RacyRun.step s1 (RacyStep.read ⟨0, [some 0, none], [0, 0]⟩ 1 (by decide) rfl)
  have s3 : RacyRun ⟨0, [none, none], [0, 0]⟩ ⟨1, [none, some 0], [1, 0]⟩ :=
    RacyRun.step s2 (RacyStep.write ⟨0, [some 0, some 0], [0, 0]⟩ 0 0 rfl)
  exact RacyRun.step s3 (RacyStep.write ⟨1, [none, some 0], [1, 0]⟩ 1 0 rfl)

example : (⟨1, [none, none], [1, 1]⟩ : RacyState).value ≠ ((⟨1, [none, none], [1, 1]⟩ : RacyState).done.sum : Int) := by
  decide

/-! ## A. handles: clones and `to_dyn!` results alias one target; the target lives while a clone exists -/

inductive ROp where
  | clone (h : Nat)
  | toDyn (h : Nat)
  | read (h : Nat)
  | write (h : Nat) (v : Int)
  | drop (h : Nat)
  deriving DecidableEq, Repr

/-- one operation, in a crate with features `feats`: an operation on a dead (or never created) handle is skipped; a
`to_dyn!` without a usable arm panics -/
def step (feats : List String) (c : RefCase) : ROp → Except Panic RefCase
  | .clone h => .ok ((c.clone h).getD c)
  | .toDyn h =>
    match c.toDyn feats h with
    | none => .ok c
    | some r => r
  | .read _ => .ok c
  | .write h v => .ok ((c.write h v).getD c)
  | .drop h => .ok ((c.drop h).getD c)

/-- an operation sequence; a panic stops it. Result: the state reached and whether it panicked. -/
def runP (feats : List String) : RefCase → List ROp → RefCase × Bool
  | c, [] => (c, false)
  | c, op :: rest =>
    match step feats c op with
    | .ok c' => runP feats c' rest
    | .error _ => (c, true)

def run (feats : List String) (c : RefCase) (ops : List ROp) : RefCase := (runP feats c ops).1

/-- did the operation take effect (live handle; for `to_dyn!` also: an arm exists) -/
def took (feats : List String) (c : RefCase) : ROp → Bool
  | .clone h => c.handleLive h
  | .toDyn h => c.handleLive h && toDynHasArm feats c.variant
  | .read h => c.handleLive h
  | .write h _ => c.handleLive h
  | .drop h => c.handleLive h

/-- the operations of the sequence that took effect, in order (those on dead handles and everything from a panic on
are left out) -/
def trace (feats : List String) : RefCase → List ROp → List ROp
  | _, [] => []
  | c, op :: rest =>
    match step feats c op with
    | .ok c' => if took feats c op then op :: trace feats c' rest else trace feats c' rest
    | .error _ => []

def writeVal : ROp → Option Int
  | .write _ v => some v
  | _ => none

/-- the value of the most recent write in a list of operations (non-incremental: the tail is consulted first) -/
def lastWrite : List ROp → Option Int
  | [] => none
  | op :: rest =>
    match lastWrite rest with
    | some v => some v
    | none => writeVal op

/-- the effective operations are a subsequence of the requested ones -/
theorem trace_sublist (feats : List String) (c : RefCase) (ops : List ROp) : (trace feats c ops).Sublist ops := by
  induction ops generalizing c with
  | nil => exact List.Sublist.slnil
  | cons op rest ih =>
    simp only [trace]
    cases hs : step feats c op with
    | error p => exact List.nil_sublist _
    | ok c' =>
      cases took feats c op
      · exact List.Sublist.cons _ (ih c')
      · exact List.Sublist.cons_cons _ (ih c')

-- (a concrete trace through a `to_dyn!` without an arm is in Thm/Lemmas/C17Snapshot.lean: it depends on TODAY's arm table)

theorem run_cons_ok (feats : List String) (c c' : RefCase) (op : ROp) (rest : List ROp)
    (h : step feats c op = .ok c') : run feats c (op :: rest) = run feats c' rest := by
  simp [run, runP, h]

theorem run_cons_err (feats : List String) (c : RefCase) (op : ROp) (rest : List ROp) (p : Panic)
    (h : step feats c op = .error p) : run feats c (op :: rest) = c := by
  simp [run, runP, h]

/-- the effect of one operation on the target's value -/
theorem step_value (feats : List String) (c c' : RefCase) (op : ROp) (h : step feats c op = .ok c') :
    c'.value = if took feats c op then (writeVal op).getD c.value else c.value := by
  cases op with
  | clone hd =>
    simp only [step, RefCase.clone] at h
    cases hh : c.handles.getD hd none <;> rw [hh] at h <;> simp at h <;> subst h <;> simp [writeVal]
  | toDyn hd =>
    simp only [step, RefCase.toDyn] at h
    cases hh : c.handles.getD hd none with
    | none => rw [hh] at h; simp at h; subst h; simp [writeVal]
    | some d =>
      rw [hh] at h
      cases ha : toDynHasArm feats c.variant <;> simp [ha] at h
      subst h; simp [writeVal]
  | read hd => simp only [step, Except.ok.injEq] at h; subst h; simp [writeVal]
  | write hd v =>
    simp only [step, RefCase.write, Except.ok.injEq] at h
    cases hl : c.handleLive hd <;> simp [hl] at h <;> subst h <;> simp [writeVal, took, hl]
  | drop hd =>
    simp only [step, RefCase.drop, Except.ok.injEq] at h
    cases hl : c.handleLive hd <;> simp [hl] at h <;> subst h <;> simp [writeVal]

/-- **history-level aliasing**: after ANY operation sequence (clones, conversions, drops, reads, writes through any
handles, in any order), the target's value is the value of the most recent write that took effect — whichever handle
it went through — and the initial value if there was none -/
theorem run_value (feats : List String) (c : RefCase) (ops : List ROp) :
    (run feats c ops).value = (lastWrite (trace feats c ops)).getD c.value := by
  induction ops generalizing c with
  | nil => rfl
  | cons op rest ih =>
    cases hs : step feats c op with
    | error p => rw [run_cons_err feats c op rest p hs]; simp [trace, hs, lastWrite]
    | ok c' =>
      rw [run_cons_ok feats c c' op rest hs, ih c', step_value feats c c' op hs]
      simp only [trace, hs]
      cases ht : took feats c op
      · simp
      · simp only [if_true, lastWrite]
        cases lastWrite (trace feats c' rest) <;> simp

/-- a read through ANY live handle returns the most recent effective write (0 from a fresh case if none); a read
through a dead handle returns nothing -/
theorem read_returns_most_recent_write (feats : List String) (v : RefVariant) (ops : List ROp) (h : Nat) :
    ((run feats (RefCase.init v) ops).handleLive h = true →
      (run feats (RefCase.init v) ops).read h = some ((lastWrite (trace feats (RefCase.init v) ops)).getD 0)) ∧
    ((run feats (RefCase.init v) ops).handleLive h = false → (run feats (RefCase.init v) ops).read h = none) := by
  constructor
  · intro hl
    simp only [RefCase.read, hl, if_true, run_value]
    rfl
  · intro hl
    simp [RefCase.read, hl]

/-- all live handles of a case read the same thing: the one target -/
theorem live_handles_agree (c : RefCase) (h h' : Nat) (hl : c.handleLive h = true) (hl' : c.handleLive h' = true) :
    c.read h = c.read h' ∧ c.read h = some c.value := by
  simp [RefCase.read, hl, hl']

theorem run_value_no_write (feats : List String) (c : RefCase) (ops : List ROp)
    (hnw : ∀ op, op ∈ ops → writeVal op = none) : (run feats c ops).value = c.value := by
  induction ops generalizing c with
  | nil => rfl
  | cons op rest ih =>
    cases hs : step feats c op with
    | error p => rw [run_cons_err feats c op rest p hs]
    | ok c' =>
      rw [run_cons_ok feats c c' op rest hs, ih c' (fun o ho => hnw o (List.mem_cons_of_mem _ ho)),
        step_value feats c c' op hs, hnw op (List.mem_cons_self ..)]
      simp

/-- a mutation made through a mutable borrow of any clone (`h`) is observed through every other clone (`h'`, original
handle, clone, or `to_dyn!` result, whether it existed at the time of the write or was made later), until the next
write — whatever clones / conversions / drops / reads happen in between -/
theorem write_seen_by_all_clones (feats : List String) (c c' : RefCase) (h : Nat) (v : Int) (ops : List ROp) (h' : Nat)
    (hw : c.write h v = some c') (hnw : ∀ op, op ∈ ops → writeVal op = none)
    (hl : (run feats c' ops).handleLive h' = true) :
    (run feats c' ops).read h' = some v := by
  have hv : c'.value = v := by
    simp only [RefCase.write] at hw
    cases hlive : c.handleLive h <;> simp [hlive] at hw
    subst hw; rfl
  simp [RefCase.read, hl, run_value_no_write feats c' ops hnw, hv]

/-- non-vacuity: write through the original, clone, convert, drop the original; the clone and the dyn handle see it -/
example : (run ["std", "alloc"] (RefCase.init .rcRefCell)
    [.clone 0, .write 0 7, .toDyn 1, .drop 0, .write 5 9]).read 2 = some 7 := by decide
example : (RefCase.init .rcRefCell).write 0 7 = some ⟨.rcRefCell, 7, [some false], false⟩ := by rfl
example : (run ["std", "alloc"] ⟨.rcRefCell, 7, [some false], false⟩ [.clone 0, .toDyn 1, .drop 0]).handleLive 2 = true := by
  decide

theorem getD_append_left {α : Type} (l : List α) (x : α) (d : α) (i : Nat) (hi : i < l.length) :
    (l ++ [x]).getD i d = l.getD i d := by
  simp [List.getD_eq_getElem?_getD, List.getElem?_append_left hi]

theorem getD_append_self {α : Type} (l : List α) (x : α) (d : α) : (l ++ [x]).getD l.length d = x := by
  simp [List.getD_eq_getElem?_getD]

/-- `clone` only appends a live handle of the same kind: value, variant, liveness of the target and every existing
handle are untouched; the new handle reads the same target -/
theorem clone_preserves (c c' : RefCase) (h : Nat) (hc : c.clone h = some c') :
    c'.value = c.value ∧ c'.variant = c.variant ∧ c'.dropped = c.dropped ∧
    (∃ d, c.handles.getD h none = some d ∧ c'.handles = c.handles ++ [some d]) ∧
    (∀ h', h' < c.handles.length → c'.handles.getD h' none = c.handles.getD h' none) ∧
    c'.handleLive c.handles.length = true ∧ c'.read c.handles.length = some c.value := by
  simp only [RefCase.clone] at hc
  cases hh : c.handles.getD h none with
  | none => rw [hh] at hc; simp at hc
  | some d =>
    rw [hh] at hc
    simp only [Option.some.injEq] at hc
    subst hc
    refine ⟨rfl, rfl, rfl, ⟨d, rfl, rfl⟩, ?_, ?_, ?_⟩
    · intro h' hlt; exact getD_append_left _ _ _ _ hlt
    · simp [RefCase.handleLive, getD_append_self]
    · simp [RefCase.read, RefCase.handleLive, getD_append_self]

/-- a successful `to_dyn!` only appends a live (trait-object) handle: value, variant, target liveness and the existing
handles are untouched; the result reads the same target, and an arm existed -/
theorem to_dyn_preserves (feats : List String) (c c' : RefCase) (h : Nat) (hc : c.toDyn feats h = some (.ok c')) :
    c'.value = c.value ∧ c'.variant = c.variant ∧ c'.dropped = c.dropped ∧
    c.handleLive h = true ∧ toDynHasArm feats c.variant = true ∧
    c'.handles = c.handles ++ [some true] ∧
    (∀ h', h' < c.handles.length → c'.handles.getD h' none = c.handles.getD h' none) ∧
    c'.handleLive c.handles.length = true ∧ c'.read c.handles.length = some c.value := by
  simp only [RefCase.toDyn] at hc
  cases hh : c.handles.getD h none with
  | none => rw [hh] at hc; simp at hc
  | some d =>
    cases ha : toDynHasArm feats c.variant with
    | false => rw [hh] at hc; simp [ha] at hc
    | true =>
      rw [hh] at hc
      simp only [ha, if_true, Option.some.injEq, Except.ok.injEq] at hc
      subst hc
      refine ⟨rfl, rfl, rfl, by unfold RefCase.handleLive; rw [hh]; rfl, rfl, rfl, ?_, ?_, ?_⟩
      · intro h' hlt; exact getD_append_left _ _ _ _ hlt
      · simp [RefCase.handleLive, getD_append_self]
      · simp [RefCase.read, RefCase.handleLive, getD_append_self]

/-- the result of `to_dyn!` aliases the same object: a write through it is read back through every handle that was
live before the conversion -/
theorem to_dyn_aliases (feats : List String) (c c' : RefCase) (h : Nat) (hc : c.toDyn feats h = some (.ok c'))
    (v : Int) (h' : Nat) (hl : c.handleLive h' = true) :
    ∃ c'', c'.write c.handles.length v = some c'' ∧ c''.read h' = some v := by
  obtain ⟨_, _, _, _, _, hhs, hsame, hnew, _⟩ := to_dyn_preserves feats c c' h hc
  have hlt : h' < c.handles.length := by
    simp only [RefCase.handleLive, List.getD_eq_getElem?_getD] at hl
    by_cases hlt : h' < c.handles.length
    · exact hlt
    · simp [List.getElem?_eq_none (Nat.le_of_not_lt hlt)] at hl
  have hl' : c'.handleLive h' = true := by
    unfold RefCase.handleLive at hl ⊢
    rw [hsame h' hlt]; exact hl
  refine ⟨{ c' with value := v }, ?_, ?_⟩
  · unfold RefCase.write; rw [hnew]; rfl
  · have : ({ c' with value := v } : RefCase).handleLive h' = true := hl'
    unfold RefCase.read; rw [this]; rfl

/-- `to_dyn!` on a live handle succeeds exactly when the macro has a usable arm for the variant in the calling crate;
otherwise it panics with `unimplemented!()` -/
theorem to_dyn_succeeds_iff_arm (feats : List String) (c : RefCase) (h : Nat) (hl : c.handleLive h = true) :
    (toDynHasArm feats c.variant = true → ∃ c', c.toDyn feats h = some (.ok c')) ∧
    (toDynHasArm feats c.variant = false → c.toDyn feats h = some (.error .unimpl)) := by
  unfold RefCase.handleLive at hl
  cases hh : c.handles.getD h none with
  | none => rw [hh] at hl; simp at hl
  | some d =>
    constructor
    · intro ha
      exact ⟨{ c with handles := c.handles ++ [some true] }, by unfold RefCase.toDyn; rw [hh]; simp only [ha, if_true]⟩
    · intro ha; unfold RefCase.toDyn; rw [hh]; simp [ha]

example : (RefCase.init .ptr).toDyn [] 0 = some (.ok ⟨.ptr, 0, [some false, some true], false⟩) := by rfl
example : (RefCase.init .rcRefCell).clone 0 = some ⟨.rcRefCell, 0, [some false, some false], false⟩ := by rfl

/-! ### target lifetime -/

theorem any_of_getD_isSome (l : List (Option Bool)) (h : Nat) (hl : (l.getD h none).isSome = true) :
    l.any (·.isSome) = true := by
  rw [List.any_eq_true]
  simp only [List.getD_eq_getElem?_getD] at hl
  cases hg : l[h]? with
  | none => simp [hg] at hl
  | some x =>
    simp only [hg, Option.getD_some] at hl
    exact ⟨x, List.mem_of_getElem? hg, hl⟩

theorem any_of_any_set_none (l : List (Option Bool)) (h : Nat) (ha : (l.set h none).any (·.isSome) = true) :
    l.any (·.isSome) = true := by
  rw [List.any_eq_true] at ha ⊢
  obtain ⟨x, hx, hs⟩ := ha
  rcases List.mem_or_eq_of_mem_set hx with hm | he
  · exact ⟨x, hm, hs⟩
  · subst he; simp at hs

/-- lifetime invariant: a dropped target has no live handle; a counted target (Rc / Arc) with no live handle has been
dropped; a pointer-variant target (static) is never dropped -/
def AliveInv (c : RefCase) : Prop :=
  (c.dropped = true → c.anyLive = false) ∧
  (c.variant.counted = true → c.anyLive = false → c.dropped = true) ∧
  (c.variant.counted = false → c.dropped = false)

theorem aliveInv_init (v : RefVariant) : AliveInv (RefCase.init v) := by
  refine ⟨?_, ?_, ?_⟩ <;> simp [RefCase.init, RefCase.anyLive]

theorem aliveInv_step (feats : List String) (c c' : RefCase) (op : ROp) (hinv : AliveInv c)
    (hs : step feats c op = .ok c') : AliveInv c' := by
  obtain ⟨i1, i2, i3⟩ := hinv
  have hlive_any : ∀ h, c.handleLive h = true → c.anyLive = true := fun h hl => any_of_getD_isSome _ h hl
  have happ : ∀ d, AliveInv { c with handles := c.handles ++ [some d] } ∨ c.anyLive = false := by
    intro d
    by_cases ha : c.anyLive = true
    · left
      have hd : c.dropped = false := by
        cases hdd : c.dropped with
        | false => rfl
        | true => rw [i1 hdd] at ha; cases ha
      refine ⟨?_, ?_, ?_⟩
      · intro h; simp [hd] at h
      · intro _ h; simp [RefCase.anyLive] at h
      · exact i3
    · right; simpa using ha
  cases op with
  | clone hd =>
    simp only [step, RefCase.clone, Except.ok.injEq] at hs
    cases hh : c.handles.getD hd none with
    | none => rw [hh] at hs; simp at hs; subst hs; exact ⟨i1, i2, i3⟩
    | some d =>
      rw [hh] at hs; simp at hs; subst hs
      rcases happ d with h | h
      · exact h
      · have := hlive_any hd (by unfold RefCase.handleLive; rw [hh]; rfl); rw [h] at this; cases this
  | toDyn hd =>
    simp only [step, RefCase.toDyn] at hs
    cases hh : c.handles.getD hd none with
    | none => rw [hh] at hs; simp at hs; subst hs; exact ⟨i1, i2, i3⟩
    | some d =>
      rw [hh] at hs
      cases ha : toDynHasArm feats c.variant <;> simp [ha] at hs
      subst hs
      rcases happ true with h | h
      · exact h
      · have := hlive_any hd (by unfold RefCase.handleLive; rw [hh]; rfl); rw [h] at this; cases this
  | read hd => simp only [step, Except.ok.injEq] at hs; subst hs; exact ⟨i1, i2, i3⟩
  | write hd v =>
    simp only [step, RefCase.write, Except.ok.injEq] at hs
    cases hl : c.handleLive hd <;> simp [hl] at hs <;> subst hs <;> exact ⟨i1, i2, i3⟩
  | drop hd =>
    simp only [step, RefCase.drop, Except.ok.injEq] at hs
    cases hl : c.handleLive hd with
    | false => simp [hl] at hs; subst hs; exact ⟨i1, i2, i3⟩
    | true =>
      simp [hl] at hs; subst hs
      have hany : c.anyLive = true := hlive_any hd hl
      have hd' : c.dropped = false := by
        cases hdd : c.dropped with
        | false => rfl
        | true => rw [i1 hdd] at hany; cases hany
      refine ⟨?_, ?_, ?_⟩
      · intro h
        simp only [hd', Bool.false_or, Bool.and_eq_true, Bool.not_eq_true'] at h
        simpa [RefCase.anyLive] using h.2
      · intro hc h
        simp only [RefCase.anyLive] at h
        simp [hd', hc, h]
      · intro hc; simp [hd', hc]

theorem aliveInv_run (feats : List String) (c : RefCase) (ops : List ROp) (hinv : AliveInv c) :
    AliveInv (run feats c ops) := by
  induction ops generalizing c with
  | nil => exact hinv
  | cons op rest ih =>
    cases hs : step feats c op with
    | error p => rw [run_cons_err feats c op rest p hs]; exact hinv
    | ok c' => rw [run_cons_ok feats c c' op rest hs]; exact ih c' (aliveInv_step feats c c' op hinv hs)

theorem step_variant (feats : List String) (c c' : RefCase) (op : ROp) (hs : step feats c op = .ok c') :
    c'.variant = c.variant := by
  cases op with
  | clone hd =>
    simp only [step, RefCase.clone, Except.ok.injEq] at hs
    cases hh : c.handles.getD hd none <;> rw [hh] at hs <;> simp at hs <;> subst hs <;> rfl
  | toDyn hd =>
    simp only [step, RefCase.toDyn] at hs
    cases hh : c.handles.getD hd none with
    | none => rw [hh] at hs; simp at hs; subst hs; rfl
    | some d =>
      rw [hh] at hs
      cases ha : toDynHasArm feats c.variant <;> simp [ha] at hs
      subst hs; rfl
  | read hd => simp only [step, Except.ok.injEq] at hs; subst hs; rfl
  | write hd v =>
    simp only [step, RefCase.write, Except.ok.injEq] at hs
    cases hl : c.handleLive hd <;> simp [hl] at hs <;> subst hs <;> rfl
  | drop hd =>
    simp only [step, RefCase.drop, Except.ok.injEq] at hs
    cases hl : c.handleLive hd <;> simp [hl] at hs <;> subst hs <;> rfl

theorem run_variant (feats : List String) (c : RefCase) (ops : List ROp) : (run feats c ops).variant = c.variant := by
  induction ops generalizing c with
  | nil => rfl
  | cons op rest ih =>
    cases hs : step feats c op with
    | error p => rw [run_cons_err feats c op rest p hs]
    | ok c' => rw [run_cons_ok feats c c' op rest hs, ih c', step_variant feats c c' op hs]

/-- **the target stays alive as long as any clone exists**: from a fresh case of any variant, after any operation
sequence in a crate with any features: a dropped target has no live handle left (equivalently: while some handle is
live the target is alive); for the counted variants the target is dropped as soon as no handle is left; for the pointer
variants (statics) it is never dropped. -/
theorem alive_while_cloned (feats : List String) (v : RefVariant) (ops : List ROp) :
    ((run feats (RefCase.init v) ops).dropped = true → (run feats (RefCase.init v) ops).anyLive = false) ∧
    ((run feats (RefCase.init v) ops).anyLive = true → (run feats (RefCase.init v) ops).live = true) ∧
    (v.counted = true → (run feats (RefCase.init v) ops).anyLive = false →
      (run feats (RefCase.init v) ops).dropped = true) ∧
    (v.counted = false → (run feats (RefCase.init v) ops).dropped = false) := by
  obtain ⟨i1, i2, i3⟩ := aliveInv_run feats (RefCase.init v) ops (aliveInv_init v)
  have hv : (run feats (RefCase.init v) ops).variant = v := run_variant feats _ ops
  rw [hv] at i2 i3
  refine ⟨i1, ?_, i2, i3⟩
  intro ha
  cases hd : (run feats (RefCase.init v) ops).dropped with
  | false => simp [RefCase.live, hd]
  | true => rw [i1 hd] at ha; cases ha

/-- non-vacuity: an Rc target survives the drop of the original while a clone lives, and dies with the last handle;
a static target never dies -/
example : (run ["std", "alloc"] (RefCase.init .rcRefCell) [.clone 0, .drop 0]).live = true := by decide
example : (run ["std", "alloc"] (RefCase.init .rcRefCell) [.clone 0, .drop 0, .drop 1]).live = false := by decide
example : (run ["std", "alloc"] (RefCase.init .ptrMutex) [.clone 0, .drop 0, .drop 1]).live = true := by decide

/-! ## C. the arms of `to_dyn!` (table regenerated from `src/reference.rs` on every run)

The model is of the tree AFTER the `fix:` commit that moved the feature selection from `#[cfg]`s inside the exported
macro body (resolved in the calling crate) to `cfg`-selected definitions inside rrtk. -/

/-- the valid feature sets of an rrtk build as far as `Reference` is concerned (`std` implies `alloc`) -/
def rrtkBuilds : List (List String) := [[], ["alloc"], ["std", "alloc"], ["alloc", "std"], ["std"]]

/-- no arm of any definition carries a `cfg` inside the macro body: nothing is resolved in the calling crate -/
theorem to_dyn_no_in_body_guards :
    Gen.toDynDefs.all (fun d => d.2.all (fun a => a.2 == "")) = true := by decide

/-- **the property's clause at full strength**: for EVERY feature set the calling crate may declare (any list of
strings), for every rrtk build, every variant the macro lists that exists in that build converts. -/
theorem to_dyn_arms_cover (callerFeats : List String) (rrtkFeats : List String) (hr : rrtkFeats ∈ rrtkBuilds)
    (v : RefVariant) (hl : toDynLists v = true) (he : variantExists rrtkFeats v = true) :
    toDynHasArmIn callerFeats rrtkFeats v = true := by
  simp only [rrtkBuilds, List.mem_cons, List.mem_nil_iff, or_false] at hr
  rcases hr with rfl | rfl | rfl | rfl | rfl <;> cases v <;> revert hl he <;>
    simp [toDynHasArmIn, toDynLists, variantExists, Gen.toDynDefs, Gen.toDynArms, Gen.refVariants, RefVariant.name,
      featOn, itemCfgHolds, rrtkFeatOn]

/-- the result does not depend on the caller's features at all -/
theorem to_dyn_caller_independent (c1 c2 rrtkFeats : List String) (v : RefVariant) :
    toDynHasArmIn c1 rrtkFeats v = toDynHasArmIn c2 rrtkFeats v := by
  simp [toDynHasArmIn, Gen.toDynDefs, featOn]

-- (that exactly ONE definition of the implementing macro is compiled into each rrtk build is a fact about how the macro is written today —
--  one cfg-selected definition per feature tier — not a requirement: a chain of helper macros, each adding the arms of one tier, is just
--  as good.  It lives in Thm/Lemmas/C17Snapshot.lean.  What IS required, `to_dyn_arms_cover` above, is insensitive to that structure.)

example : toDynLists .rcRefCell = true ∧ variantExists ["alloc"] .rcRefCell = true ∧
    toDynHasArmIn [] ["alloc"] .rcRefCell = true := by decide

-- (which variants the macro lists TODAY — `Ptr`, `RcRefCell`, `PtrRwLock` — is a snapshot of the regenerated table, not a requirement of
--  the property: listing more variants is conformant. Those facts live in Thm/Lemmas/C17Snapshot.lean, outside the obligations.)

/-- ... but the list may not SHRINK: the macro still lists (at least) the three variants it listed when the property was written.
Without this, deleting an arm everywhere would "de-list" the variant and every other statement about `to_dyn!` would stay true while a
conversion that used to work turns into `unimplemented!()`. (Listing more variants is fine.) -/
theorem to_dyn_lists_baseline :
    toDynLists .ptr = true ∧ toDynLists .rcRefCell = true ∧ toDynLists .ptrRwLock = true := by decide

/-- every arm names a variant of the enum, and a definition only has arms for variants that exist in the builds it is
compiled into -/
theorem to_dyn_arms_are_variants :
    ∀ r ∈ rrtkBuilds, ∀ d ∈ Gen.toDynDefs, itemCfgHolds r d.1 = true →
      ∀ a ∈ d.2, Gen.refVariants.any (fun x => x.1 == a.1 && (x.2 == "" || rrtkFeatOn r x.2)) = true := by decide

/-! ### regression record of the repaired defect (F3)

Before the fix there was a single definition whose arms carried `#[cfg(feature = …)]` INSIDE the exported macro body.
`hasArmWith` evaluates an arbitrary table; on the old table the full-strength clause fails for a calling crate that
declares no features. -/
def toDynDefsPrefix : List (List (String × Bool) × List (String × String)) :=
  [([], [("Ptr", ""), ("RcRefCell", "alloc"), ("PtrRwLock", "std")])]
def hasArmWith (defs : List (List (String × Bool) × List (String × String))) (callerFeats rrtkFeats : List String)
    (v : RefVariant) : Bool :=
  defs.any (fun d => itemCfgHolds rrtkFeats d.1 && d.2.any (fun a => a.1 == v.name && featOn callerFeats a.2))
theorem hasArmWith_current (c r : List String) (v : RefVariant) :
    hasArmWith Gen.toDynDefs c r v = toDynHasArmIn c r v := rfl
/-- the old table: a featureless caller of an rrtk built with std gets no arm for `RcRefCell` (→ `unimplemented!()`),
while a caller that happens to declare `alloc` does -/
theorem to_dyn_prefix_fails_for_featureless_caller :
    hasArmWith toDynDefsPrefix [] ["std", "alloc"] .rcRefCell = false ∧
    hasArmWith toDynDefsPrefix [] ["std", "alloc"] .ptrRwLock = false ∧
    hasArmWith toDynDefsPrefix ["alloc"] ["std", "alloc"] .rcRefCell = true ∧
    hasArmWith toDynDefsPrefix [] ["std", "alloc"] .ptr = true := by decide

/-- consequence at the handle level for the current tree: `to_dyn!` of an `Rc<RefCell<_>>` Reference succeeds in a
featureless caller -/
theorem to_dyn_succeeds_for_featureless_caller :
    ∃ c', (RefCase.init .rcRefCell).toDyn [] 0 = some (.ok c') :=
  (to_dyn_succeeds_iff_arm [] (RefCase.init .rcRefCell) 0 (by decide)).1 (by decide)

end Rrtk.Thm.C17
