/-
C18 — Time and integer quantities: exact integer arithmetic, faithful float conversion.
Tier S.  Integer operators are modelled in a debug build (overflow / division by zero panic): the theorems say
the result is the exact mathematical integer whenever it is representable, and that nothing else is ever returned.
The conversion *accuracy* clauses (two ulps, monotone, round-trip bound) are about binary32 rounding. They are proved
(a) for an abstract rounding function under the IEEE contract (`Lemmas/C18Rounding.lean`) and (b) with NO rounding
hypothesis for the concrete, kernel-transparent round-to-nearest-even function `Rrtk.Soft.rne32` (`Lemmas/SoftFloat.lean`,
`Lemmas/C18Soft.lean`: `*_binary32` theorems, including that no intermediate result overflows, so `rne32` is the hardware
result at every step).  What remains trusted is that the CPU's binary32 `+ - * /`, `as f32`, `as i64` coincide with `rne32`
— compared bit-for-bit on every run (group `sf`).
-/
import Rrtk.Core
import Rrtk.Thm.Lemmas.C18Rounding
import Rrtk.Thm.Lemmas.C18Soft
set_option linter.unusedSectionVars false
namespace Rrtk.Thm.C18
open Rrtk

/-! ### exact i64 arithmetic -/
theorem add_exact (a b : Int) (h : inI64 (a + b)) : I64.add a b = .ok (a + b) := by simp [I64.add, chkI64, h]
theorem sub_exact (a b : Int) (h : inI64 (a - b)) : I64.sub a b = .ok (a - b) := by simp [I64.sub, chkI64, h]
theorem mul_exact (a b : Int) (h : inI64 (a * b)) : I64.mul a b = .ok (a * b) := by simp [I64.mul, chkI64, h]
theorem neg_exact (a : Int) (h : inI64 (-a)) : I64.neg a = .ok (-a) := by simp [I64.neg, chkI64, h]
theorem div_exact (a b : Int) (hb : b ≠ 0) (h : inI64 (Int.tdiv a b)) : I64.div a b = .ok (Int.tdiv a b) := by
  simp [I64.div, chkI64, hb, h]
theorem div_zero (a : Int) : I64.div a 0 = .error .div0 := by simp [I64.div]

/-- an operator never returns anything but the exact result -/
theorem add_sound (a b r : Int) (h : I64.add a b = .ok r) : r = a + b ∧ inI64 r := by
  simp only [I64.add, chkI64] at h; split at h <;> simp_all
theorem sub_sound (a b r : Int) (h : I64.sub a b = .ok r) : r = a - b ∧ inI64 r := by
  simp only [I64.sub, chkI64] at h; split at h <;> simp_all
theorem mul_sound (a b r : Int) (h : I64.mul a b = .ok r) : r = a * b ∧ inI64 r := by
  simp only [I64.mul, chkI64] at h; split at h <;> simp_all
theorem neg_sound (a r : Int) (h : I64.neg a = .ok r) : r = -a ∧ inI64 r := by
  simp only [I64.neg, chkI64] at h; split at h <;> simp_all
theorem div_sound (a b r : Int) (h : I64.div a b = .ok r) : b ≠ 0 ∧ r = Int.tdiv a b ∧ inI64 r := by
  simp only [I64.div, chkI64] at h
  split at h
  · cases h
  · split at h <;> simp_all
/-- the only overflowing quotient of two i64 values is `MIN / -1` -/
theorem div_overflow_only (a b : Int) (ha : inI64 a) (hb : inI64 b) (hb0 : b ≠ 0)
    (h : ¬ (a = -9223372036854775808 ∧ b = -1)) : inI64 (Int.tdiv a b) := by
  unfold inI64 at *
  by_cases hb1 : b = -1
  · subst hb1
    have : a ≠ -9223372036854775808 := fun e => h ⟨e, rfl⟩
    simp [Int.tdiv_neg, Int.tdiv_one]; omega
  · by_cases hb2 : b = 1
    · subst hb2; simp; omega
    · have hbabs : 2 ≤ b.natAbs := by omega
      have h1 : (Int.tdiv a b).natAbs = a.natAbs / b.natAbs := Int.natAbs_tdiv a b
      have h2 : a.natAbs / b.natAbs ≤ a.natAbs / 2 := Nat.div_le_div_left hbabs (by omega)
      have h3 : a.natAbs ≤ 9223372036854775808 := by omega
      have h4 : a.natAbs / 2 ≤ 4611686018427387904 := by omega
      omega

section S
variable {F : Type} [Add F] [Sub F] [Mul F] [Div F] [Neg F] [LT F] [LE F] [BEq F]
  [DecidableLT F] [DecidableLE F] [FloatLike F]

/-! ### conversions: which expression is computed, and when they succeed -/
theorem time_to_quantity (chk : Bool) (t : Int) :
    (Quantity.ofTime chk t : Quantity F).value = (FloatLike.ofInt t : F) / c1e9 ∧
    (Quantity.ofTime true t : Quantity F).unit = ⟨0, 1⟩ := ⟨rfl, rfl⟩
theorem dimint_to_quantity (chk : Bool) (n : Int) :
    (Quantity.ofDimInt chk n : Quantity F).value = (FloatLike.ofInt n : F) ∧
    (Quantity.ofDimInt true n : Quantity F).unit = ⟨0, 0⟩ := ⟨rfl, rfl⟩

theorem constEq_iff (a b : DUnit) : DUnit.constEq a b = true ↔ a = b := by
  cases a; cases b; simp [DUnit.constEq]

/-- `Time::try_from(Quantity)` succeeds exactly for seconds and yields `(value * 1e9) as i64` -/
theorem tryfrom_time (q : Quantity F) :
    Time.tryOfQuantity true q = if q.unit = ⟨0, 1⟩ then some (FloatLike.toInt (q.value * c1e9)) else none := by
  simp only [Time.tryOfQuantity, DUnit.eqAssumeTrue, SECOND, DUnit.new, if_true]
  by_cases h : q.unit = ⟨0, 1⟩
  · simp [h, (constEq_iff _ _).2 rfl]
  · have : DUnit.constEq q.unit ⟨0, 1⟩ = false := by
      cases hc : DUnit.constEq q.unit ⟨0, 1⟩ with
      | false => rfl
      | true => exact absurd ((constEq_iff _ _).1 hc) h
    simp [h, this]
theorem tryfrom_dimint (q : Quantity F) :
    DimInt.tryOfQuantity true q = if q.unit = ⟨0, 0⟩ then some (FloatLike.toInt q.value) else none := by
  simp only [DimInt.tryOfQuantity, DUnit.eqAssumeTrue, DIMENSIONLESS, DUnit.new, if_true]
  by_cases h : q.unit = ⟨0, 0⟩
  · simp [h, (constEq_iff _ _).2 rfl]
  · have : DUnit.constEq q.unit ⟨0, 0⟩ = false := by
      cases hc : DUnit.constEq q.unit ⟨0, 0⟩ with
      | false => rfl
      | true => exact absurd ((constEq_iff _ _).1 hc) h
    simp [h, this]
/-- round trip, structurally: back-conversion of a converted time is `((t as f32 / 1e9) * 1e9) as i64` -/
theorem roundtrip_expr (t : Int) :
    Time.tryOfQuantity true (Quantity.ofTime true t : Quantity F) =
      some (FloatLike.toInt (((FloatLike.ofInt t : F) / c1e9) * c1e9)) := by
  rw [tryfrom_time]; simp [Quantity.ofTime, SECOND, DUnit.new]

/-! ### every mixed operator that yields a Quantity = the Quantity operator on the converted operands -/
theorem q_time (chk : Bool) (q : Quantity F) (t : Int) :
    Quantity.addTime chk q t = Quantity.add chk q (Quantity.ofTime chk t) ∧
    Quantity.subTime chk q t = Quantity.sub chk q (Quantity.ofTime chk t) ∧
    Quantity.mulTime chk q t = Quantity.mul chk q (Quantity.ofTime chk t) ∧
    Quantity.divTime chk q t = Quantity.div chk q (Quantity.ofTime chk t) := ⟨rfl, rfl, rfl, rfl⟩
theorem q_dimint (chk : Bool) (q : Quantity F) (n : Int) :
    Quantity.addDimInt chk q n = Quantity.add chk q (Quantity.ofDimInt chk n) ∧
    Quantity.subDimInt chk q n = Quantity.sub chk q (Quantity.ofDimInt chk n) ∧
    Quantity.mulDimInt chk q n = Quantity.mul chk q (Quantity.ofDimInt chk n) ∧
    Quantity.divDimInt chk q n = Quantity.div chk q (Quantity.ofDimInt chk n) := ⟨rfl, rfl, rfl, rfl⟩
theorem time_q (chk : Bool) (t : Int) (q : Quantity F) :
    Time.addQ chk t q = Quantity.add chk (Quantity.ofTime chk t) q ∧
    Time.subQ chk t q = Quantity.sub chk (Quantity.ofTime chk t) q ∧
    Time.divQ chk t q = Quantity.div chk (Quantity.ofTime chk t) q := ⟨rfl, rfl, rfl⟩
theorem dimint_q (chk : Bool) (n : Int) (q : Quantity F) :
    DimInt.addQ chk n q = Quantity.add chk (Quantity.ofDimInt chk n) q ∧
    DimInt.subQ chk n q = Quantity.sub chk (Quantity.ofDimInt chk n) q ∧
    DimInt.divQ chk n q = Quantity.div chk (Quantity.ofDimInt chk n) q := ⟨rfl, rfl, rfl⟩
theorem time_time (chk : Bool) (a b : Int) :
    (Time.mulTime chk a b : Quantity F) = Quantity.mul chk (Quantity.ofTime chk a) (Quantity.ofTime chk b) ∧
    (Time.divTime chk a b : Quantity F) = Quantity.div chk (Quantity.ofTime chk a) (Quantity.ofTime chk b) ∧
    (DimInt.divTime chk a b : Quantity F) = Quantity.div chk (Quantity.ofDimInt chk a) (Quantity.ofTime chk b) := ⟨rfl, rfl, rfl⟩
/-- the two impls the source writes commuted (`rhs * self`) agree with the converted form when `*` commutes (tier L) -/
theorem commuted_mul (chk : Bool) (n : Int) (q : Quantity F) (hcomm : ∀ x y : F, x * y = y * x) :
    Time.mulQ chk n q = Quantity.mul chk (Quantity.ofTime chk n) q ∧
    DimInt.mulQ chk n q = Quantity.mul chk (Quantity.ofDimInt chk n) q := by
  constructor
  · simp only [Time.mulQ, Quantity.mul, DUnit.mul, hcomm]; cases chk <;> simp [Int.add_comm]
  · simp only [DimInt.mulQ, Quantity.mul, DUnit.mul, hcomm]; cases chk <;> simp [Int.add_comm]
end S

/-- non-vacuity: in-range and out-of-range instances -/
example : I64.add 9223372036854775807 1 = .error .overflow := by rfl
example : I64.div (-9223372036854775808) (-1) = .error .overflow := by rfl
example : I64.div (-7) 2 = .ok (-3) := by rfl
example : inI64 (Int.tdiv (-9223372036854775808) 1) := by decide

end Rrtk.Thm.C18
