/-
C19 — erasure: dimension checking compiled in or out does not change any number or timestamp.

The model's configuration switch `chk : Bool` is "dimension checking compiled in".  With `chk = false` the Rust
`Unit` is a zero-sized type; the model keeps the field but every unit operation yields the canonical `⟨0,0⟩` and
`eq_assume_true` is constantly `true`.

*Unit erasure* (`eraseU`, `eraseQ`, lifted to data, outputs, stream states and motion profiles) forgets the units and
keeps every value and every timestamp.  The theorems say: whenever a computation with checking compiled in succeeds
(i.e. the program is dimensionally correct), the same computation with checking compiled out, run on the erased
inputs, succeeds with the erased result — same `F` values, same `Int` timestamps, same update return values — and
the unchecked computation never panics on units and is the plain scalar arithmetic on the values.

Tier S (arbitrary scalar `F`, no law) throughout, except `manual_abs_eq_abs` (tier R: the `no_std` absolute value
`if v >= 0.0 { v } else { -v }` equals `|v|` over an ordered field).  The `std`/`no_std` clause of the property is
otherwise not a model-level statement: the model has a single `FloatLike.powf` / `absF`, and the only `cfg(std)`-
duplicated arithmetic in the crate is `Quantity::abs` (`absManual`).
-/
import Rrtk.MotionProfile
import Rrtk.Streams.Stateful
import Rrtk.Devices
import Rrtk.Thm.Lemmas.C06Profile
import Rrtk.Thm.Lemmas.Run
import Rrtk.Thm.Lemmas.IntScalar
import Rrtk.Thm.Lemmas.Exact
import Rrtk.Gen.CfgGates
set_option linter.unusedSectionVars false
set_option linter.unusedSimpArgs false
namespace Rrtk.Thm.C19
open Rrtk

/-! ## 0. unit erasure -/
section Defs
variable {F : Type}

/-- every unit becomes the canonical unit of the unchecked build -/
def eraseU (_ : DUnit) : DUnit := ⟨0, 0⟩
/-- keep the value, forget the unit -/
def eraseQ (q : Quantity F) : Quantity F := ⟨q.value, ⟨0, 0⟩⟩
/-- timestamp kept -/
def eraseD (d : Datum (Quantity F)) : Datum (Quantity F) := ⟨d.time, eraseQ d.value⟩
def eraseOQ : Option (Quantity F) → Option (Quantity F)
  | none => none
  | some q => some (eraseQ q)
def eraseOD : Option (Datum (Quantity F)) → Option (Datum (Quantity F))
  | none => none
  | some d => some (eraseD d)
/-- errors and absence kept -/
def eraseOut : Output (Quantity F) → Output (Quantity F)
  | .error e => .error e
  | .ok o => .ok (eraseOD o)
def eraseDi (s : DiS F) : DiS F := ⟨eraseOut s.value, eraseOD s.prev⟩
def eraseA1 (u : A2sU1 F) : A2sU1 F := ⟨eraseQ u.vel, eraseOQ u.pos⟩
def eraseA0 (u : A2sU0 F) : A2sU0 F :=
  ⟨u.time, eraseQ u.acc, match u.u1 with | none => none | some u1 => some (eraseA1 u1)⟩
def eraseA : Option (A2sU0 F) → Option (A2sU0 F)
  | none => none
  | some u => some (eraseA0 u)
def eraseV1 (u : V2sU1 F) : V2sU1 F := ⟨eraseQ u.acc, eraseQ u.pos⟩
def eraseV0 (u : V2sU0 F) : V2sU0 F :=
  ⟨u.time, eraseQ u.vel, match u.u1 with | none => none | some u1 => some (eraseV1 u1)⟩
def eraseV : Option (V2sU0 F) → Option (V2sU0 F)
  | none => none
  | some u => some (eraseV0 u)
def eraseP1 (u : P2sU1 F) : P2sU1 F := ⟨eraseQ u.vel, eraseOQ u.acc⟩
def eraseP0 (u : P2sU0 F) : P2sU0 F :=
  ⟨u.time, eraseQ u.pos, match u.u1 with | none => none | some u1 => some (eraseP1 u1)⟩
def eraseP : Option (P2sU0 F) → Option (P2sU0 F)
  | none => none
  | some u => some (eraseP0 u)
/-- the update time is kept -/
def eraseEw (s : EwmaS (Quantity F)) : EwmaS (Quantity F) := ⟨eraseOut s.value, s.updateTime⟩
def eraseMa (s : MaS (Quantity F)) : MaS (Quantity F) := ⟨eraseOut s.value, s.queue.map eraseD⟩
/-- the three switch times and the end command are kept -/
def eraseMp (mp : MotionProfile F) : MotionProfile F :=
  ⟨eraseQ mp.startPos, eraseQ mp.startVel, mp.t1, mp.t2, mp.t3, eraseQ mp.maxAcc, mp.endCommand⟩

theorem eraseQ_value (q : Quantity F) : (eraseQ q).value = q.value := rfl
theorem eraseQ_unit (q : Quantity F) : (eraseQ q).unit = ⟨0, 0⟩ := rfl
theorem eraseQ_idem (q : Quantity F) : eraseQ (eraseQ q) = eraseQ q := rfl
theorem eraseD_time (d : Datum (Quantity F)) : (eraseD d).time = d.time := rfl
theorem eraseD_value (d : Datum (Quantity F)) : (eraseD d).value.value = d.value.value := rfl
theorem eraseMp_times (mp : MotionProfile F) :
    (eraseMp mp).t1 = mp.t1 ∧ (eraseMp mp).t2 = mp.t2 ∧ (eraseMp mp).t3 = mp.t3 ∧
    (eraseMp mp).endCommand = mp.endCommand := ⟨rfl, rfl, rfl, rfl⟩
end Defs

section S
variable {F : Type} [Add F] [Sub F] [Mul F] [Div F] [Neg F] [LT F] [LE F] [BEq F]
  [DecidableLT F] [DecidableLE F] [FloatLike F]

/-! ## A. operators -/

/-- `Unit` itself: every checked unit operation erases to the unchecked one -/
theorem erase_unit_ops (a b : DUnit) (mm sec : Int) :
    eraseU (DUnit.new true mm sec) = DUnit.new false mm sec ∧
    eraseU (DUnit.mul true a b) = DUnit.mul false (eraseU a) (eraseU b) ∧
    eraseU (DUnit.div true a b) = DUnit.div false (eraseU a) (eraseU b) ∧
    (∀ r, DUnit.add true a b = .ok r → DUnit.add false (eraseU a) (eraseU b) = .ok (eraseU r)) ∧
    (∀ r, DUnit.sub true a b = .ok r → DUnit.sub false (eraseU a) (eraseU b) = .ok (eraseU r)) ∧
    (DUnit.eqAssumeTrue true a b = true → DUnit.eqAssumeTrue false (eraseU a) (eraseU b) = true) ∧
    (DUnit.assertEqAssumeOk true a b = .ok () → DUnit.assertEqAssumeOk false (eraseU a) (eraseU b) = .ok ()) ∧
    eraseU (SECOND true) = SECOND false ∧ eraseU (MILLIMETER true) = MILLIMETER false ∧
    eraseU (DIMENSIONLESS true) = DIMENSIONLESS false ∧
    eraseU (MILLIMETER_PER_SECOND true) = MILLIMETER_PER_SECOND false ∧
    eraseU (MILLIMETER_PER_SECOND_SQUARED true) = MILLIMETER_PER_SECOND_SQUARED false :=
  ⟨rfl, rfl, rfl, fun _ _ => rfl, fun _ _ => rfl, fun _ => rfl, fun _ => rfl, rfl, rfl, rfl, rfl, rfl⟩
example : DUnit.add true ⟨1, -1⟩ ⟨1, -1⟩ = .ok ⟨1, -1⟩ := rfl

/-- what a successful checked addition returned -/
theorem add_true_ok {a b r : Quantity F} (h : Quantity.add true a b = .ok r) :
    r = ⟨a.value + b.value, a.unit⟩ := (MpL.add_ok h).1
theorem sub_true_ok {a b r : Quantity F} (h : Quantity.sub true a b = .ok r) :
    r = ⟨a.value - b.value, a.unit⟩ := (MpL.sub_ok h).1

/-- checked `+` succeeded ⇒ unchecked `+` on the erased operands gives the erased sum -/
theorem erase_add {a b r : Quantity F} (h : Quantity.add true a b = .ok r) :
    Quantity.add false (eraseQ a) (eraseQ b) = .ok (eraseQ r) := by
  obtain rfl := add_true_ok h; rfl
example : Quantity.add true (⟨1, ⟨1, 0⟩⟩ : Quantity Int) ⟨2, ⟨1, 0⟩⟩ = .ok ⟨3, ⟨1, 0⟩⟩ := rfl

theorem erase_sub {a b r : Quantity F} (h : Quantity.sub true a b = .ok r) :
    Quantity.sub false (eraseQ a) (eraseQ b) = .ok (eraseQ r) := by
  obtain rfl := sub_true_ok h; rfl
example : Quantity.sub true (⟨1, ⟨1, 0⟩⟩ : Quantity Int) ⟨2, ⟨1, 0⟩⟩ = .ok ⟨-1, ⟨1, 0⟩⟩ := rfl

/-- comparison: same ordering -/
theorem erase_partialCmp {a b : Quantity F} {o : Option Ordering} (h : Quantity.partialCmp true a b = .ok o) :
    Quantity.partialCmp false (eraseQ a) (eraseQ b) = .ok o := by
  unfold Quantity.partialCmp at h
  split at h
  · cases h; rfl
  · cases h
example : Quantity.partialCmp true (⟨1, ⟨1, 0⟩⟩ : Quantity Int) ⟨2, ⟨1, 0⟩⟩ = .ok (some .lt) := rfl

/-- `==`: on operands of equal unit the derived and the hand-written `PartialEq` agree -/
theorem erase_eq {a b : Quantity F} (h : a.unit = b.unit) :
    Quantity.eq false (eraseQ a) (eraseQ b) = Quantity.eq true a b := by
  have hc : DUnit.constEq a.unit b.unit = true := (MpL.constEq_iff _ _).2 h
  simp only [Quantity.eq, hc, Bool.and_true, if_true]
  rfl
example : (⟨1, ⟨1, 0⟩⟩ : Quantity Int).unit = (⟨2, ⟨1, 0⟩⟩ : Quantity Int).unit := rfl

theorem erase_mul (a b : Quantity F) : eraseQ (Quantity.mul true a b) = Quantity.mul false (eraseQ a) (eraseQ b) := rfl
theorem erase_div (a b : Quantity F) : eraseQ (Quantity.div true a b) = Quantity.div false (eraseQ a) (eraseQ b) := rfl
theorem erase_neg (a : Quantity F) : eraseQ (Quantity.neg a) = Quantity.neg (eraseQ a) := rfl
theorem erase_abs (a : Quantity F) : eraseQ (Quantity.abs a) = Quantity.abs (eraseQ a) := rfl
theorem erase_absManual (a : Quantity F) : eraseQ (Quantity.absManual a) = Quantity.absManual (eraseQ a) := rfl
theorem erase_ofTime (t : Int) : eraseQ (Quantity.ofTime true t : Quantity F) = Quantity.ofTime false t := rfl
theorem erase_ofDimInt (n : Int) : eraseQ (Quantity.ofDimInt true n : Quantity F) = Quantity.ofDimInt false n := rfl
theorem erase_dimensionless (v : F) : eraseQ (Quantity.dimensionless true v) = Quantity.dimensionless false v := rfl
/-- the unchecked constructors already produce erased quantities -/
theorem erase_unchecked_ctor (t n : Int) (v : F) (a b : Quantity F) :
    eraseQ (Quantity.ofTime false t : Quantity F) = Quantity.ofTime false t ∧
    eraseQ (Quantity.ofDimInt false n : Quantity F) = Quantity.ofDimInt false n ∧
    eraseQ (Quantity.dimensionless false v) = Quantity.dimensionless false v ∧
    eraseQ (Quantity.mul false a b) = Quantity.mul false a b ∧
    eraseQ (Quantity.div false a b) = Quantity.div false a b := ⟨rfl, rfl, rfl, rfl, rfl⟩

/-! mixed operators (`Time`, `DimensionlessInteger`, `Quantity` in every combination) -/
theorem erase_Time_mulTime (a b : Int) : eraseQ (Time.mulTime true a b : Quantity F) = Time.mulTime false a b := rfl
theorem erase_Time_divTime (a b : Int) : eraseQ (Time.divTime true a b : Quantity F) = Time.divTime false a b := rfl
theorem erase_Time_mulQ (a : Int) (q : Quantity F) : eraseQ (Time.mulQ true a q) = Time.mulQ false a (eraseQ q) := rfl
theorem erase_Time_divQ (a : Int) (q : Quantity F) : eraseQ (Time.divQ true a q) = Time.divQ false a (eraseQ q) := rfl
theorem erase_Time_addQ {a : Int} {q r : Quantity F} (h : Time.addQ true a q = .ok r) :
    Time.addQ false a (eraseQ q) = .ok (eraseQ r) := erase_add h
theorem erase_Time_subQ {a : Int} {q r : Quantity F} (h : Time.subQ true a q = .ok r) :
    Time.subQ false a (eraseQ q) = .ok (eraseQ r) := erase_sub h
theorem erase_DimInt_divTime (a t : Int) : eraseQ (DimInt.divTime true a t : Quantity F) = DimInt.divTime false a t := rfl
theorem erase_DimInt_mulQ (a : Int) (q : Quantity F) : eraseQ (DimInt.mulQ true a q) = DimInt.mulQ false a (eraseQ q) := rfl
theorem erase_DimInt_divQ (a : Int) (q : Quantity F) : eraseQ (DimInt.divQ true a q) = DimInt.divQ false a (eraseQ q) := rfl
theorem erase_DimInt_addQ {a : Int} {q r : Quantity F} (h : DimInt.addQ true a q = .ok r) :
    DimInt.addQ false a (eraseQ q) = .ok (eraseQ r) := erase_add h
theorem erase_DimInt_subQ {a : Int} {q r : Quantity F} (h : DimInt.subQ true a q = .ok r) :
    DimInt.subQ false a (eraseQ q) = .ok (eraseQ r) := erase_sub h
theorem erase_addTime {q r : Quantity F} {t : Int} (h : Quantity.addTime true q t = .ok r) :
    Quantity.addTime false (eraseQ q) t = .ok (eraseQ r) := erase_add h
theorem erase_subTime {q r : Quantity F} {t : Int} (h : Quantity.subTime true q t = .ok r) :
    Quantity.subTime false (eraseQ q) t = .ok (eraseQ r) := erase_sub h
theorem erase_addDimInt {q r : Quantity F} {n : Int} (h : Quantity.addDimInt true q n = .ok r) :
    Quantity.addDimInt false (eraseQ q) n = .ok (eraseQ r) := erase_add h
theorem erase_subDimInt {q r : Quantity F} {n : Int} (h : Quantity.subDimInt true q n = .ok r) :
    Quantity.subDimInt false (eraseQ q) n = .ok (eraseQ r) := erase_sub h
theorem erase_mulTime (q : Quantity F) (t : Int) : eraseQ (Quantity.mulTime true q t) = Quantity.mulTime false (eraseQ q) t := rfl
theorem erase_divTime (q : Quantity F) (t : Int) : eraseQ (Quantity.divTime true q t) = Quantity.divTime false (eraseQ q) t := rfl
theorem erase_mulDimInt (q : Quantity F) (n : Int) : eraseQ (Quantity.mulDimInt true q n) = Quantity.mulDimInt false (eraseQ q) n := rfl
theorem erase_divDimInt (q : Quantity F) (n : Int) : eraseQ (Quantity.divDimInt true q n) = Quantity.divDimInt false (eraseQ q) n := rfl

/-- non-vacuity of the panicking mixed operators: seconds + seconds, dimensionless + dimensionless -/
example : Time.addQ true 5 (⟨2, ⟨0, 1⟩⟩ : Quantity Int) = .ok ⟨5 / 1000000000 + 2, ⟨0, 1⟩⟩ := rfl
example : Time.subQ true 5 (⟨2, ⟨0, 1⟩⟩ : Quantity Int) = .ok ⟨5 / 1000000000 - 2, ⟨0, 1⟩⟩ := rfl
example : DimInt.addQ true 5 (⟨2, ⟨0, 0⟩⟩ : Quantity Int) = .ok ⟨7, ⟨0, 0⟩⟩ := rfl
example : DimInt.subQ true 5 (⟨2, ⟨0, 0⟩⟩ : Quantity Int) = .ok ⟨3, ⟨0, 0⟩⟩ := rfl
example : Quantity.addTime true (⟨2, ⟨0, 1⟩⟩ : Quantity Int) 5 = .ok ⟨2 + 5 / 1000000000, ⟨0, 1⟩⟩ := rfl
example : Quantity.subTime true (⟨2, ⟨0, 1⟩⟩ : Quantity Int) 5 = .ok ⟨2 - 5 / 1000000000, ⟨0, 1⟩⟩ := rfl
example : Quantity.addDimInt true (⟨2, ⟨0, 0⟩⟩ : Quantity Int) 5 = .ok ⟨7, ⟨0, 0⟩⟩ := rfl
example : Quantity.subDimInt true (⟨2, ⟨0, 0⟩⟩ : Quantity Int) 5 = .ok ⟨-3, ⟨0, 0⟩⟩ := rfl

/-- **A, bundled.**  Checked operator succeeded / total checked operator: erased result = unchecked operator on
erased operands. -/
theorem erase_quantity_ops :
    (∀ a b r : Quantity F, Quantity.add true a b = .ok r → Quantity.add false (eraseQ a) (eraseQ b) = .ok (eraseQ r)) ∧
    (∀ a b r : Quantity F, Quantity.sub true a b = .ok r → Quantity.sub false (eraseQ a) (eraseQ b) = .ok (eraseQ r)) ∧
    (∀ (a b : Quantity F) o, Quantity.partialCmp true a b = .ok o →
      Quantity.partialCmp false (eraseQ a) (eraseQ b) = .ok o) ∧
    (∀ a b : Quantity F, eraseQ (Quantity.mul true a b) = Quantity.mul false (eraseQ a) (eraseQ b)) ∧
    (∀ a b : Quantity F, eraseQ (Quantity.div true a b) = Quantity.div false (eraseQ a) (eraseQ b)) ∧
    (∀ a : Quantity F, eraseQ (Quantity.neg a) = Quantity.neg (eraseQ a)) ∧
    (∀ a : Quantity F, eraseQ (Quantity.abs a) = Quantity.abs (eraseQ a)) ∧
    (∀ t : Int, eraseQ (Quantity.ofTime true t : Quantity F) = Quantity.ofTime false t) ∧
    (∀ n : Int, eraseQ (Quantity.ofDimInt true n : Quantity F) = Quantity.ofDimInt false n) ∧
    (∀ v : F, eraseQ (Quantity.dimensionless true v) = Quantity.dimensionless false v) :=
  ⟨fun _ _ _ => erase_add, fun _ _ _ => erase_sub, fun _ _ _ => erase_partialCmp, erase_mul, erase_div, erase_neg,
    erase_abs, erase_ofTime, erase_ofDimInt, erase_dimensionless⟩

/-- **A, mixed operators, bundled** (every `impl <Op><Y> for X` with `X, Y ∈ {Quantity, Time, DimensionlessInteger}`) -/
theorem erase_mixed_ops :
    (∀ a b : Int, eraseQ (Time.mulTime true a b : Quantity F) = Time.mulTime false a b) ∧
    (∀ a b : Int, eraseQ (Time.divTime true a b : Quantity F) = Time.divTime false a b) ∧
    (∀ (a : Int) (q : Quantity F), eraseQ (Time.mulQ true a q) = Time.mulQ false a (eraseQ q)) ∧
    (∀ (a : Int) (q : Quantity F), eraseQ (Time.divQ true a q) = Time.divQ false a (eraseQ q)) ∧
    (∀ (a : Int) (q r : Quantity F), Time.addQ true a q = .ok r → Time.addQ false a (eraseQ q) = .ok (eraseQ r)) ∧
    (∀ (a : Int) (q r : Quantity F), Time.subQ true a q = .ok r → Time.subQ false a (eraseQ q) = .ok (eraseQ r)) ∧
    (∀ a t : Int, eraseQ (DimInt.divTime true a t : Quantity F) = DimInt.divTime false a t) ∧
    (∀ (a : Int) (q : Quantity F), eraseQ (DimInt.mulQ true a q) = DimInt.mulQ false a (eraseQ q)) ∧
    (∀ (a : Int) (q : Quantity F), eraseQ (DimInt.divQ true a q) = DimInt.divQ false a (eraseQ q)) ∧
    (∀ (a : Int) (q r : Quantity F), DimInt.addQ true a q = .ok r → DimInt.addQ false a (eraseQ q) = .ok (eraseQ r)) ∧
    (∀ (a : Int) (q r : Quantity F), DimInt.subQ true a q = .ok r → DimInt.subQ false a (eraseQ q) = .ok (eraseQ r)) ∧
    (∀ (q r : Quantity F) (t : Int), Quantity.addTime true q t = .ok r →
      Quantity.addTime false (eraseQ q) t = .ok (eraseQ r)) ∧
    (∀ (q r : Quantity F) (t : Int), Quantity.subTime true q t = .ok r →
      Quantity.subTime false (eraseQ q) t = .ok (eraseQ r)) ∧
    (∀ (q r : Quantity F) (n : Int), Quantity.addDimInt true q n = .ok r →
      Quantity.addDimInt false (eraseQ q) n = .ok (eraseQ r)) ∧
    (∀ (q r : Quantity F) (n : Int), Quantity.subDimInt true q n = .ok r →
      Quantity.subDimInt false (eraseQ q) n = .ok (eraseQ r)) ∧
    (∀ (q : Quantity F) (t : Int), eraseQ (Quantity.mulTime true q t) = Quantity.mulTime false (eraseQ q) t) ∧
    (∀ (q : Quantity F) (t : Int), eraseQ (Quantity.divTime true q t) = Quantity.divTime false (eraseQ q) t) ∧
    (∀ (q : Quantity F) (n : Int), eraseQ (Quantity.mulDimInt true q n) = Quantity.mulDimInt false (eraseQ q) n) ∧
    (∀ (q : Quantity F) (n : Int), eraseQ (Quantity.divDimInt true q n) = Quantity.divDimInt false (eraseQ q) n) :=
  ⟨erase_Time_mulTime, erase_Time_divTime, erase_Time_mulQ, erase_Time_divQ, fun _ _ _ => erase_Time_addQ,
    fun _ _ _ => erase_Time_subQ, erase_DimInt_divTime, erase_DimInt_mulQ, erase_DimInt_divQ,
    fun _ _ _ => erase_DimInt_addQ, fun _ _ _ => erase_DimInt_subQ, fun _ _ _ => erase_addTime,
    fun _ _ _ => erase_subTime, fun _ _ _ => erase_addDimInt, fun _ _ _ => erase_subDimInt,
    erase_mulTime, erase_divTime, erase_mulDimInt, erase_divDimInt⟩

/-! ### the unchecked operators are the plain scalar arithmetic, for ALL operands (any units) -/

/-- `+ - * /`, negation, absolute value, comparison: the value is the scalar operation on the values, whatever the
units.  (The unit field of the unchecked `+`, `-`, unary `-`, `abs` is the left operand's, exactly as in the source:
`Unit::add` returns `self`; it is `⟨0,0⟩` for `*`, `/` and every constructor — see `unchecked_plain_canonical`.) -/
theorem unchecked_plain_arithmetic (a b : Quantity F) :
    Quantity.add false a b = .ok ⟨a.value + b.value, a.unit⟩ ∧
    Quantity.sub false a b = .ok ⟨a.value - b.value, a.unit⟩ ∧
    Quantity.mul false a b = ⟨a.value * b.value, ⟨0, 0⟩⟩ ∧
    Quantity.div false a b = ⟨a.value / b.value, ⟨0, 0⟩⟩ ∧
    Quantity.neg a = ⟨-a.value, a.unit⟩ ∧
    Quantity.abs a = ⟨FloatLike.absF a.value, a.unit⟩ ∧
    Quantity.partialCmp false a b = .ok (Quantity.cmpF a.value b.value) ∧
    Quantity.eq false a b = (a.value == b.value) :=
  ⟨rfl, rfl, rfl, rfl, rfl, rfl, rfl, rfl⟩

/-- on the quantities that exist in an unchecked build (unit `⟨0,0⟩`: everything produced by `eraseQ`, by a constructor
or by an unchecked operator) the results are literally `⟨plain scalar result, ⟨0,0⟩⟩` -/
theorem unchecked_plain_canonical (a b : Quantity F) (ha : a.unit = ⟨0, 0⟩) :
    Quantity.add false a b = .ok ⟨a.value + b.value, ⟨0, 0⟩⟩ ∧
    Quantity.sub false a b = .ok ⟨a.value - b.value, ⟨0, 0⟩⟩ ∧
    Quantity.mul false a b = ⟨a.value * b.value, ⟨0, 0⟩⟩ ∧
    Quantity.div false a b = ⟨a.value / b.value, ⟨0, 0⟩⟩ ∧
    Quantity.neg a = ⟨-a.value, ⟨0, 0⟩⟩ := by
  obtain ⟨v, u⟩ := a
  simp only at ha
  subst ha
  exact ⟨rfl, rfl, rfl, rfl, rfl⟩
example : (eraseQ (⟨3, ⟨1, -2⟩⟩ : Quantity Int)).unit = ⟨0, 0⟩ := rfl

/-- the values alone, with no side condition at all -/
theorem unchecked_values (a b : Quantity F) :
    (∃ r, Quantity.add false a b = .ok r ∧ r.value = a.value + b.value) ∧
    (∃ r, Quantity.sub false a b = .ok r ∧ r.value = a.value - b.value) ∧
    (Quantity.mul false a b).value = a.value * b.value ∧
    (Quantity.div false a b).value = a.value / b.value :=
  ⟨⟨_, rfl, rfl⟩, ⟨_, rfl, rfl⟩, rfl, rfl⟩

/-- the requested form "`Quantity.add false a b = .ok ⟨a.value + b.value, ⟨0,0⟩⟩` for ALL `a b`" is FALSE in the model
when the left operand carries a non-canonical unit (the model keeps `self`'s unit, as `impl Add for Unit` does): -/
example : Quantity.add false (⟨1, ⟨1, 0⟩⟩ : Quantity Int) ⟨2, ⟨0, 1⟩⟩ = .ok ⟨3, ⟨1, 0⟩⟩ := rfl
example : Quantity.add false (⟨1, ⟨1, 0⟩⟩ : Quantity Int) ⟨2, ⟨0, 1⟩⟩ ≠ .ok ⟨3, ⟨0, 0⟩⟩ := by
  intro h; injection h with h; injection h with _ h; exact absurd h (by decide)

/-! ### with checking compiled out nothing ever panics on units and nothing is rejected -/
theorem unchecked_never_dim_panics (a b : Quantity F) (u w : DUnit) (s : State F) :
    Quantity.add false a b = .ok ⟨a.value + b.value, a.unit⟩ ∧
    Quantity.sub false a b = .ok ⟨a.value - b.value, a.unit⟩ ∧
    Quantity.partialCmp false a b = .ok (Quantity.cmpF a.value b.value) ∧
    DUnit.add false u w = .ok u ∧
    DUnit.sub false u w = .ok u ∧
    DUnit.assertEqAssumeOk false u w = .ok () ∧
    DUnit.eqAssumeTrue false u w = true ∧
    (∀ p v c : Quantity F, State.new false p v c = .ok ⟨p.value, v.value, c.value⟩) ∧
    State.setConstantAcceleration false s a = ({ s with acceleration := a.value }, true) ∧
    State.setConstantVelocity false s a = ({ s with acceleration := c0, velocity := a.value }, true) ∧
    State.setConstantPosition false s a = (⟨a.value, c0, c0⟩, true) ∧
    Time.tryOfQuantity false a = some (FloatLike.toInt (a.value * c1e9)) ∧
    DimInt.tryOfQuantity false a = some (FloatLike.toInt a.value) ∧
    GearTrain.withRatio false a = .ok a.value :=
  ⟨rfl, rfl, rfl, rfl, rfl, rfl, rfl, fun _ _ _ => rfl, rfl, rfl, rfl, rfl, rfl, rfl⟩

/-- contrast (so that the previous theorem is not vacuous about "mismatch"): the very same calls DO panic / reject with
checking compiled in -/
example : Quantity.add true (⟨1, ⟨1, 0⟩⟩ : Quantity Int) ⟨2, ⟨0, 1⟩⟩ = .error .dim := rfl
example : Time.tryOfQuantity true (⟨1, ⟨1, 0⟩⟩ : Quantity Int) = none := rfl
example : GearTrain.withRatio true (⟨1, ⟨1, 0⟩⟩ : Quantity Int) = .error .dim := rfl
example : (State.setConstantPosition true (⟨0, 0, 0⟩ : State Int) ⟨1, ⟨0, 1⟩⟩).2 = false := rfl

/-- The one deliberate exception to erasure in the public API (not used by the crate's own code): the pessimistic
twins `eq_assume_false` / `assert_eq_assume_not_ok` answer `false` / panic for ALL operands when checking is compiled
out, although with checking compiled in they accept equal units.  So a dimensionally correct program that calls
`assert_eq_assume_not_ok` does NOT behave the same in the two builds — by design ("With dimension checking off, always
panics"). -/
theorem erasure_exception_assume_false (u w : DUnit) :
    DUnit.eqAssumeFalse false u w = false ∧ DUnit.assertEqAssumeNotOk false u w = .error .dim ∧
    DUnit.eqAssumeFalse true u u = true ∧ DUnit.assertEqAssumeNotOk true u u = .ok () := by
  have h : DUnit.constEq u u = true := (MpL.constEq_iff u u).2 rfl
  refine ⟨rfl, rfl, ?_, ?_⟩
  · simp only [DUnit.eqAssumeFalse, h, if_true]
  · simp only [DUnit.assertEqAssumeNotOk, DUnit.eqAssumeFalse, h, if_true]

/-! ## B. `State`, conversions -/

theorem state_new_true_ok {p v a : Quantity F} {s : State F} (h : State.new true p v a = .ok s) :
    s = ⟨p.value, v.value, a.value⟩ := by
  unfold State.new at h
  split at h
  · cases h
  split at h
  · cases h
  split at h
  · cases h
  · cases h; rfl

theorem erase_state_new {p v a : Quantity F} {s : State F} (h : State.new true p v a = .ok s) :
    State.new false (eraseQ p) (eraseQ v) (eraseQ a) = .ok s := by
  obtain rfl := state_new_true_ok h; rfl
example : State.new true (⟨1, ⟨1, 0⟩⟩ : Quantity Int) ⟨2, ⟨1, -1⟩⟩ ⟨3, ⟨1, -2⟩⟩ = .ok ⟨1, 2, 3⟩ := rfl

theorem erase_setConstantAcceleration {s : State F} {q : Quantity F}
    (h : (State.setConstantAcceleration true s q).2 = true) :
    State.setConstantAcceleration false s (eraseQ q) = State.setConstantAcceleration true s q := by
  unfold State.setConstantAcceleration at h ⊢
  split at h
  · rename_i hu; rw [if_pos hu]; rfl
  · cases h
theorem erase_setConstantVelocity {s : State F} {q : Quantity F}
    (h : (State.setConstantVelocity true s q).2 = true) :
    State.setConstantVelocity false s (eraseQ q) = State.setConstantVelocity true s q := by
  unfold State.setConstantVelocity at h ⊢
  split at h
  · rename_i hu; rw [if_pos hu]; rfl
  · cases h
theorem erase_setConstantPosition {s : State F} {q : Quantity F}
    (h : (State.setConstantPosition true s q).2 = true) :
    State.setConstantPosition false s (eraseQ q) = State.setConstantPosition true s q := by
  unfold State.setConstantPosition at h ⊢
  split at h
  · rename_i hu; rw [if_pos hu]; rfl
  · cases h
example : (State.setConstantAcceleration true (⟨0, 0, 0⟩ : State Int) ⟨4, ⟨1, -2⟩⟩).2 = true := rfl
example : (State.setConstantVelocity true (⟨0, 0, 0⟩ : State Int) ⟨4, ⟨1, -1⟩⟩).2 = true := rfl
example : (State.setConstantPosition true (⟨0, 0, 0⟩ : State Int) ⟨4, ⟨1, 0⟩⟩).2 = true := rfl

/-- `State::update` through the `Quantity` operators: never panics, and is the raw-value update in both builds -/
theorem erase_updateQ (s : State F) (dt : Int) :
    State.updateQ true s dt = .ok (State.update s dt) ∧ State.updateQ false s dt = .ok (State.update s dt) :=
  ⟨rfl, rfl⟩

/-- **B, bundled: `State`** -/
theorem erase_state :
    (∀ (p v a : Quantity F) (s : State F), State.new true p v a = .ok s →
      State.new false (eraseQ p) (eraseQ v) (eraseQ a) = .ok s) ∧
    (∀ (s : State F) (q : Quantity F), (State.setConstantAcceleration true s q).2 = true →
      State.setConstantAcceleration false s (eraseQ q) = State.setConstantAcceleration true s q) ∧
    (∀ (s : State F) (q : Quantity F), (State.setConstantVelocity true s q).2 = true →
      State.setConstantVelocity false s (eraseQ q) = State.setConstantVelocity true s q) ∧
    (∀ (s : State F) (q : Quantity F), (State.setConstantPosition true s q).2 = true →
      State.setConstantPosition false s (eraseQ q) = State.setConstantPosition true s q) ∧
    (∀ (s : State F) (dt : Int), State.updateQ true s dt = State.updateQ false s dt) ∧
    (∀ s : State F, eraseQ (s.getPosition true) = s.getPosition false ∧
      eraseQ (s.getVelocity true) = s.getVelocity false ∧ eraseQ (s.getAcceleration true) = s.getAcceleration false) ∧
    (∀ (s : State F) (pd : PosDer), eraseQ (s.getValue true pd) = s.getValue false pd) :=
  ⟨fun _ _ _ _ => erase_state_new, fun _ _ => erase_setConstantAcceleration, fun _ _ => erase_setConstantVelocity,
    fun _ _ => erase_setConstantPosition, fun _ _ => rfl, fun _ => ⟨rfl, rfl, rfl⟩,
    fun _ pd => by cases pd <;> rfl⟩

theorem erase_Time_tryOfQuantity {q : Quantity F} {n : Int} (h : Time.tryOfQuantity true q = some n) :
    Time.tryOfQuantity false (eraseQ q) = some n := by
  obtain ⟨rfl, -⟩ := MpL.tryOf_some h; rfl
example : Time.tryOfQuantity true (⟨2, ⟨0, 1⟩⟩ : Quantity Int) = some 2000000000 := rfl

theorem erase_DimInt_tryOfQuantity {q : Quantity F} {n : Int} (h : DimInt.tryOfQuantity true q = some n) :
    DimInt.tryOfQuantity false (eraseQ q) = some n := by
  unfold DimInt.tryOfQuantity at h
  split at h
  · cases h; rfl
  · cases h
example : DimInt.tryOfQuantity true (⟨2, ⟨0, 0⟩⟩ : Quantity Int) = some 2 := rfl

theorem erase_withRatio {r : Quantity F} {x : F} (h : GearTrain.withRatio true r = .ok x) :
    GearTrain.withRatio false (eraseQ r) = .ok x := by
  unfold GearTrain.withRatio at h
  split at h
  · cases h; rfl
  · cases h
example : GearTrain.withRatio true (⟨2, ⟨0, 0⟩⟩ : Quantity Int) = .ok 2 := rfl

/-- **B, bundled: conversions and getters** -/
theorem erase_conversions :
    (∀ (q : Quantity F) (n : Int), Time.tryOfQuantity true q = some n → Time.tryOfQuantity false (eraseQ q) = some n) ∧
    (∀ (q : Quantity F) (n : Int), DimInt.tryOfQuantity true q = some n →
      DimInt.tryOfQuantity false (eraseQ q) = some n) ∧
    (∀ (r : Quantity F) (x : F), GearTrain.withRatio true r = .ok x → GearTrain.withRatio false (eraseQ r) = .ok x) ∧
    (∀ c : Command F, eraseQ (Command.toQuantity true c) = Command.toQuantity false c ∧
      (Command.toQuantity true c).value = (Command.toQuantity false c).value ∧
      (Command.toQuantity true c).value = c.raw) ∧
    (∀ c : Command F, eraseOQ (Command.getPosition true c) = Command.getPosition false c ∧
      eraseOQ (Command.getVelocity true c) = Command.getVelocity false c ∧
      eraseQ (Command.getAcceleration true c) = Command.getAcceleration false c) ∧
    (∀ pd : PosDer, eraseU (DUnit.ofPosDer true pd) = DUnit.ofPosDer false pd) :=
  ⟨fun _ _ => erase_Time_tryOfQuantity, fun _ _ => erase_DimInt_tryOfQuantity, fun _ _ => erase_withRatio,
    fun c => by cases c <;> exact ⟨rfl, rfl, rfl⟩, fun c => by cases c <;> exact ⟨rfl, rfl, rfl⟩,
    fun pd => by cases pd <;> rfl⟩

/-! ## F. straight-line quantity programs of any size -/

/-- a tiny expression language over quantities -/
inductive QExp (F : Type) where
  | lit (q : Quantity F)
  | add (a b : QExp F)
  | sub (a b : QExp F)
  | mul (a b : QExp F)
  | div (a b : QExp F)
  | neg (a : QExp F)
  | abs (a : QExp F)
  | ofTime (t : Int)
  | ofDimInt (n : Int)

/-- evaluation with the model operators; a literal's unit passes through `Unit::new` -/
def eval (chk : Bool) : QExp F → Except Panic (Quantity F)
  | .lit q => .ok ⟨q.value, DUnit.new chk q.unit.mm q.unit.s⟩
  | .add a b =>
    match eval chk a with
    | .error e => .error e
    | .ok x => match eval chk b with
      | .error e => .error e
      | .ok y => Quantity.add chk x y
  | .sub a b =>
    match eval chk a with
    | .error e => .error e
    | .ok x => match eval chk b with
      | .error e => .error e
      | .ok y => Quantity.sub chk x y
  | .mul a b =>
    match eval chk a with
    | .error e => .error e
    | .ok x => match eval chk b with
      | .error e => .error e
      | .ok y => .ok (Quantity.mul chk x y)
  | .div a b =>
    match eval chk a with
    | .error e => .error e
    | .ok x => match eval chk b with
      | .error e => .error e
      | .ok y => .ok (Quantity.div chk x y)
  | .neg a =>
    match eval chk a with
    | .error e => .error e
    | .ok x => .ok (Quantity.neg x)
  | .abs a =>
    match eval chk a with
    | .error e => .error e
    | .ok x => .ok (Quantity.abs x)
  | .ofTime t => .ok (Quantity.ofTime chk t)
  | .ofDimInt n => .ok (Quantity.ofDimInt chk n)

/-- the plain scalar program -/
def evalScalar : QExp F → F
  | .lit q => q.value
  | .add a b => evalScalar a + evalScalar b
  | .sub a b => evalScalar a - evalScalar b
  | .mul a b => evalScalar a * evalScalar b
  | .div a b => evalScalar a / evalScalar b
  | .neg a => - evalScalar a
  | .abs a => FloatLike.absF (evalScalar a)
  | .ofTime t => (FloatLike.ofInt t : F) / c1e9
  | .ofDimInt n => FloatLike.ofInt n

/-- with checking compiled out a program never fails and computes the plain scalar arithmetic on the values -/
theorem eval_unchecked (e : QExp F) : eval false e = .ok ⟨evalScalar e, ⟨0, 0⟩⟩ := by
  induction e with
  | lit q => rfl
  | add a b iha ihb => simp only [eval, iha, ihb]; rfl
  | sub a b iha ihb => simp only [eval, iha, ihb]; rfl
  | mul a b iha ihb => simp only [eval, iha, ihb]; rfl
  | div a b iha ihb => simp only [eval, iha, ihb]; rfl
  | neg a iha => simp only [eval, iha]; rfl
  | abs a iha => simp only [eval, iha]; rfl
  | ofTime t => rfl
  | ofDimInt n => rfl

/-- a dimensionally correct program computes the plain scalar arithmetic too -/
theorem eval_checked_value {e : QExp F} {r : Quantity F} (h : eval true e = .ok r) : r.value = evalScalar e := by
  induction e generalizing r with
  | lit q => cases h; rfl
  | add a b iha ihb =>
    simp only [eval] at h
    cases ha : eval true a with
    | error p => simp [ha] at h
    | ok x =>
      cases hb : eval true b with
      | error p => simp [ha, hb] at h
      | ok y =>
        simp only [ha, hb] at h
        obtain rfl := add_true_ok h
        simp only [evalScalar, ← iha ha, ← ihb hb]
  | sub a b iha ihb =>
    simp only [eval] at h
    cases ha : eval true a with
    | error p => simp [ha] at h
    | ok x =>
      cases hb : eval true b with
      | error p => simp [ha, hb] at h
      | ok y =>
        simp only [ha, hb] at h
        obtain rfl := sub_true_ok h
        simp only [evalScalar, ← iha ha, ← ihb hb]
  | mul a b iha ihb =>
    simp only [eval] at h
    cases ha : eval true a with
    | error p => simp [ha] at h
    | ok x =>
      cases hb : eval true b with
      | error p => simp [ha, hb] at h
      | ok y =>
        simp only [ha, hb] at h
        cases h
        simp only [evalScalar, ← iha ha, ← ihb hb]; rfl
  | div a b iha ihb =>
    simp only [eval] at h
    cases ha : eval true a with
    | error p => simp [ha] at h
    | ok x =>
      cases hb : eval true b with
      | error p => simp [ha, hb] at h
      | ok y =>
        simp only [ha, hb] at h
        cases h
        simp only [evalScalar, ← iha ha, ← ihb hb]; rfl
  | neg a iha =>
    simp only [eval] at h
    cases ha : eval true a with
    | error p => simp [ha] at h
    | ok x =>
      simp only [ha] at h
      cases h
      simp only [evalScalar, ← iha ha]; rfl
  | abs a iha =>
    simp only [eval] at h
    cases ha : eval true a with
    | error p => simp [ha] at h
    | ok x =>
      simp only [ha] at h
      cases h
      simp only [evalScalar, ← iha ha]; rfl
  | ofTime t => cases h; rfl
  | ofDimInt n => cases h; rfl

/-- **F (partial: expression trees over nine `Quantity` operations).** For every straight-line quantity program
of the language `QExp`: if it runs with dimension checking compiled in, it runs with
checking compiled out and returns the erased result (equal value); compiled out it never fails — whatever the units of
its literals — and its value is the plain scalar evaluation.

NOT covered by `QExp` (hence the suffix): comparison (`partial_cmp`) and `==`, `Time::try_from` /
`DimensionlessInteger::try_from`, `State::new`, the three `State` setters, `State::get_value` / `State::update`,
`Quantity::from(Command)`, and programs that keep intermediate results (registers) or observe anything but one final
quantity.  `erase_program_ext` (`Thm/Lemmas/C19More.lean`, imported by `Thm/Ext/C19.lean`) extends this theorem to
straight-line programs over all of these operations. -/
theorem erase_program_partial (e : QExp F) :
    (∀ r, eval true e = .ok r → eval false e = .ok (eraseQ r)) ∧
    eval false e = .ok ⟨evalScalar e, ⟨0, 0⟩⟩ ∧
    (∀ r, eval true e = .ok r → r.value = evalScalar e) := by
  refine ⟨fun r h => ?_, eval_unchecked e, fun r h => eval_checked_value h⟩
  rw [eval_unchecked, eraseQ, eval_checked_value h]

/-- non-vacuity: `(2 mm/s * 5 s + 3 mm) / 4 s`, checked, succeeds … -/
example : eval true (.div (.add (.mul (.lit ⟨2, ⟨1, -1⟩⟩) (.lit ⟨5, ⟨0, 1⟩⟩)) (.lit ⟨3, ⟨1, 0⟩⟩)) (.lit ⟨4, ⟨0, 1⟩⟩) : QExp Int)
    = .ok ⟨(2 * 5 + 3) / 4, ⟨1, -1⟩⟩ := rfl
/-- … while an ill-dimensioned program panics when checked and still runs unchecked -/
example : eval true (.add (.lit ⟨2, ⟨1, -1⟩⟩) (.lit ⟨5, ⟨0, 1⟩⟩) : QExp Int) = .error .dim := rfl
example : eval false (.add (.lit ⟨2, ⟨1, -1⟩⟩) (.lit ⟨5, ⟨0, 1⟩⟩) : QExp Int) = .ok ⟨7, ⟨0, 0⟩⟩ := rfl

/-! ## C. streams -/

/-! ### generic: histories -/
section Run
variable {S I : Type}

/-- run a history, collecting every update's return value -/
def runT (step : S → I → Except Panic (S × UpdRet)) : S → List I → Except Panic (S × List UpdRet)
  | s, [] => .ok (s, [])
  | s, i :: is =>
    match step s i with
    | .error p => .error p
    | .ok r =>
      match runT step r.1 is with
      | .error p => .error p
      | .ok q => .ok (q.1, r.2 :: q.2)

/-- `runT` refines `runE`: same final state -/
theorem runT_runE (step : S → I → Except Panic (S × UpdRet)) (s : S) (is : List I) :
    runE step s is = match runT step s is with
      | .error p => .error p
      | .ok q => .ok q.1 := by
  induction is generalizing s with
  | nil => rfl
  | cons i is ih =>
    simp only [runE_cons, runT]
    cases step s i with
    | error p => rfl
    | ok r =>
      simp only [ih r.1]
      cases runT step r.1 is <;> rfl

/-- a one-step simulation lifts to histories of any length: final state erased, return values identical -/
theorem runT_sim (stepT stepF : S → I → Except Panic (S × UpdRet)) (eS : S → S) (eI : I → I)
    (hstep : ∀ s i s' r, stepT s i = .ok (s', r) → stepF (eS s) (eI i) = .ok (eS s', r))
    (s : S) (is : List I) (s' : S) (rs : List UpdRet) (h : runT stepT s is = .ok (s', rs)) :
    runT stepF (eS s) (is.map eI) = .ok (eS s', rs) := by
  induction is generalizing s s' rs with
  | nil => simp only [runT] at h; cases h; rfl
  | cons i is ih =>
    simp only [runT] at h
    cases hs : stepT s i with
    | error p => simp [hs] at h
    | ok r =>
      obtain ⟨s1, r1⟩ := r
      simp only [hs] at h
      cases hr : runT stepT s1 is with
      | error p => simp [hr] at h
      | ok q =>
        obtain ⟨s2, rs2⟩ := q
        simp only [hr] at h
        cases h
        simp only [List.map_cons, runT, hstep s i s1 r1 hs, ih s1 _ rs2 hr]

theorem runE_sim (stepT stepF : S → I → Except Panic (S × UpdRet)) (eS : S → S) (eI : I → I)
    (hstep : ∀ s i s' r, stepT s i = .ok (s', r) → stepF (eS s) (eI i) = .ok (eS s', r))
    (s : S) (is : List I) (s' : S) (h : runE stepT s is = .ok s') :
    runE stepF (eS s) (is.map eI) = .ok (eS s') := by
  rw [runT_runE] at h
  cases hr : runT stepT s is with
  | error p => simp [hr] at h
  | ok q =>
    obtain ⟨s2, rs⟩ := q
    simp only [hr] at h
    cases h
    rw [runT_runE, runT_sim stepT stepF eS eI hstep s is _ rs hr]

/-- a step that never panics gives a run that never panics -/
theorem runT_total (step : S → I → Except Panic (S × UpdRet)) (hstep : ∀ s i, ∃ r, step s i = .ok r)
    (s : S) (is : List I) : ∃ q, runT step s is = .ok q := by
  induction is generalizing s with
  | nil => exact ⟨_, rfl⟩
  | cons i is ih =>
    obtain ⟨r, hr⟩ := hstep s i
    obtain ⟨q, hq⟩ := ih r.1
    exact ⟨(q.1, r.2 :: q.2), by simp only [runT, hr, hq]⟩
end Run

/-! ### `DerivativeStream` -/
theorem derivative_step_sim {s s' : DiS F} {i : Output (Quantity F)} {r : UpdRet}
    (h : Derivative.step true s i = .ok (s', r)) :
    Derivative.step false (eraseDi s) (eraseOut i) = .ok (eraseDi s', r) := by
  obtain ⟨v, prev⟩ := s
  cases i with
  | error e => cases h; rfl
  | ok oi =>
    cases oi with
    | none => cases h; rfl
    | some o =>
      cases prev with
      | none => cases h; rfl
      | some p =>
        simp only [Derivative.step] at h
        split at h
        · cases h
        · rename_i d hd
          obtain rfl := sub_true_ok hd
          cases h; rfl

theorem derivative_unchecked_never_panics (s : DiS F) (i : Output (Quantity F)) :
    ∃ r, Derivative.step false s i = .ok r := by
  obtain ⟨v, prev⟩ := s
  cases i with
  | error e => exact ⟨_, rfl⟩
  | ok oi =>
    cases oi with
    | none => exact ⟨_, rfl⟩
    | some o =>
      cases prev with
      | none => exact ⟨_, rfl⟩
      | some p => exact ⟨_, rfl⟩

/-- **C, derivative.** one step; getter; whole histories; never panics unchecked -/
theorem erase_streams_derivative :
    (∀ (s s' : DiS F) i r, Derivative.step true s i = .ok (s', r) →
      Derivative.step false (eraseDi s) (eraseOut i) = .ok (eraseDi s', r)) ∧
    (∀ s : DiS F, Derivative.get (eraseDi s) = eraseOut (Derivative.get s)) ∧
    (∀ (s s' : DiS F) is rs, runT (Derivative.step true) s is = .ok (s', rs) →
      runT (Derivative.step false) (eraseDi s) (is.map eraseOut) = .ok (eraseDi s', rs)) ∧
    (∀ (s s' : DiS F) is, runE (Derivative.step true) s is = .ok s' →
      runE (Derivative.step false) (eraseDi s) (is.map eraseOut) = .ok (eraseDi s')) :=
  ⟨fun _ _ _ _ => derivative_step_sim, fun _ => rfl,
    fun s s' is rs => runT_sim _ _ eraseDi eraseOut (fun _ _ _ _ => derivative_step_sim) s is s' rs,
    fun s s' is => runE_sim _ _ eraseDi eraseOut (fun _ _ _ _ => derivative_step_sim) s is s'⟩

/-- non-vacuity: two position samples, checked: 3 mm at 1 ns, 7 mm at 3 ns -/
example : runT (Derivative.step true) (Derivative.init : DiS Int)
    [.ok (some ⟨1, ⟨3, ⟨1, 0⟩⟩⟩), .ok (some ⟨3, ⟨7, ⟨1, 0⟩⟩⟩)]
    = .ok (⟨.ok (some ⟨3, ⟨(7 - 3) / (2 / 1000000000), ⟨1, -1⟩⟩⟩), some ⟨3, ⟨7, ⟨1, 0⟩⟩⟩⟩, [.ok (), .ok ()]) := rfl
/-- a unit change between samples panics when checked and not when unchecked -/
example : runT (Derivative.step true) (Derivative.init : DiS Int)
    [.ok (some ⟨1, ⟨3, ⟨1, 0⟩⟩⟩), .ok (some ⟨3, ⟨7, ⟨0, 1⟩⟩⟩)] = .error .dim := rfl

/-! ### `IntegralStream` -/
theorem integral_step_sim {s s' : DiS F} {i : Output (Quantity F)} {r : UpdRet}
    (h : Integral.step true s i = .ok (s', r)) :
    Integral.step false (eraseDi s) (eraseOut i) = .ok (eraseDi s', r) := by
  obtain ⟨v, prev⟩ := s
  cases i with
  | error e => cases h; rfl
  | ok oi =>
    cases oi with
    | none => cases h; rfl
    | some o =>
      cases prev with
      | none => cases h; rfl
      | some p =>
        simp only [Integral.step] at h
        split at h
        · cases h
        · rename_i sm hsm
          obtain rfl := add_true_ok hsm
          cases v with
          | error e => cases h; rfl
          | ok ov =>
            cases ov with
            | none => cases h; rfl
            | some real =>
              simp only at h
              split at h
              · cases h
              · rename_i w hw
                obtain rfl := add_true_ok hw
                cases h; rfl

theorem integral_unchecked_never_panics (s : DiS F) (i : Output (Quantity F)) :
    ∃ r, Integral.step false s i = .ok r := by
  obtain ⟨v, prev⟩ := s
  cases i with
  | error e => exact ⟨_, rfl⟩
  | ok oi =>
    cases oi with
    | none => exact ⟨_, rfl⟩
    | some o =>
      cases prev with
      | none => exact ⟨_, rfl⟩
      | some p =>
        cases v with
        | error e => exact ⟨_, rfl⟩
        | ok ov =>
          cases ov with
          | none => exact ⟨_, rfl⟩
          | some real => exact ⟨_, rfl⟩

/-- **C, integral.** -/
theorem erase_streams_integral :
    (∀ (s s' : DiS F) i r, Integral.step true s i = .ok (s', r) →
      Integral.step false (eraseDi s) (eraseOut i) = .ok (eraseDi s', r)) ∧
    (∀ s : DiS F, Integral.get (eraseDi s) = eraseOut (Integral.get s)) ∧
    (∀ (s s' : DiS F) is rs, runT (Integral.step true) s is = .ok (s', rs) →
      runT (Integral.step false) (eraseDi s) (is.map eraseOut) = .ok (eraseDi s', rs)) ∧
    (∀ (s s' : DiS F) is, runE (Integral.step true) s is = .ok s' →
      runE (Integral.step false) (eraseDi s) (is.map eraseOut) = .ok (eraseDi s')) :=
  ⟨fun _ _ _ _ => integral_step_sim, fun _ => rfl,
    fun s s' is rs => runT_sim _ _ eraseDi eraseOut (fun _ _ _ _ => integral_step_sim) s is s' rs,
    fun s s' is => runE_sim _ _ eraseDi eraseOut (fun _ _ _ _ => integral_step_sim) s is s'⟩

/-- non-vacuity: three velocity samples (so that the accumulating branch runs), checked -/
example : ∃ s' rs, runT (Integral.step true) (Integral.init : DiS Int)
    [.ok (some ⟨1, ⟨3, ⟨1, -1⟩⟩⟩), .ok (some ⟨3, ⟨7, ⟨1, -1⟩⟩⟩), .ok (some ⟨4, ⟨5, ⟨1, -1⟩⟩⟩)] = .ok (s', rs) :=
  ⟨_, _, rfl⟩

/-! ### to-state converters -/
theorem qHalf_true_ok {a b dt r : Quantity F} (h : qHalfTimes true a b dt = .ok r) :
    r = Quantity.mul true (Quantity.div true ⟨a.value + b.value, a.unit⟩ (Quantity.dimensionless true c2)) dt := by
  unfold qHalfTimes at h
  split at h
  · cases h
  · rename_i sm hsm
    obtain rfl := add_true_ok hsm
    cases h; rfl

theorem erase_qHalfTimes {a b dt r : Quantity F} (h : qHalfTimes true a b dt = .ok r) :
    qHalfTimes false (eraseQ a) (eraseQ b) (eraseQ dt) = .ok (eraseQ r) := by
  obtain rfl := qHalf_true_ok h; rfl

example : qHalfTimes true (⟨3, ⟨1, -2⟩⟩ : Quantity Int) ⟨5, ⟨1, -2⟩⟩ ⟨2, ⟨0, 1⟩⟩ = .ok ⟨(3 + 5) / 2 * 2, ⟨1, -1⟩⟩ := rfl

theorem a2s_step_sim {s s' : Option (A2sU0 F)} {i : Output (Quantity F)} {r : UpdRet}
    (h : A2s.step true s i = .ok (s', r)) :
    A2s.step false (eraseA s) (eraseOut i) = .ok (eraseA s', r) := by
  cases i with
  | error e => cases h; rfl
  | ok oi =>
    cases oi with
    | none => cases h; rfl
    | some d =>
      simp only [A2s.step] at h
      split at h
      · cases h
      cases s with
      | none => cases h; rfl
      | some u0 =>
        obtain ⟨t0, acc, u1⟩ := u0
        simp only at h
        split at h
        · cases h
        rename_i va hva
        obtain rfl := qHalf_true_ok hva
        cases u1 with
        | none => cases h; rfl
        | some u1 =>
          obtain ⟨vel, pos⟩ := u1
          simp only at h
          split at h
          · cases h
          rename_i nv hnv
          obtain rfl := add_true_ok hnv
          split at h
          · cases h
          rename_i pa hpa
          obtain rfl := qHalf_true_ok hpa
          cases pos with
          | none => cases h; rfl
          | some op =>
            simp only at h
            split at h
            · cases h
            rename_i np hnp
            obtain rfl := add_true_ok hnp
            cases h; rfl

theorem a2s_get_sim {s : Option (A2sU0 F)} {o : Output (State F)} (h : A2s.get true s = .ok o) :
    A2s.get false (eraseA s) = .ok o := by
  cases s with
  | none => cases h; rfl
  | some u0 =>
    obtain ⟨t0, acc, u1⟩ := u0
    cases u1 with
    | none => cases h; rfl
    | some u1 =>
      obtain ⟨vel, pos⟩ := u1
      cases pos with
      | none => cases h; rfl
      | some p =>
        simp only [A2s.get] at h
        split at h
        · cases h
        · rename_i st hst
          obtain rfl := state_new_true_ok hst
          cases h; rfl

theorem a2s_unchecked_never_panics (s : Option (A2sU0 F)) (i : Output (Quantity F)) :
    (∃ r, A2s.step false s i = .ok r) ∧ (∃ o, A2s.get false s = .ok o) := by
  constructor
  · cases i with
    | error e => exact ⟨_, rfl⟩
    | ok oi =>
      cases oi with
      | none => exact ⟨_, rfl⟩
      | some d =>
        cases s with
        | none => exact ⟨_, rfl⟩
        | some u0 =>
          obtain ⟨t0, acc, u1⟩ := u0
          cases u1 with
          | none => exact ⟨_, rfl⟩
          | some u1 =>
            obtain ⟨vel, pos⟩ := u1
            cases pos with
            | none => exact ⟨_, rfl⟩
            | some p => exact ⟨_, rfl⟩
  · cases s with
    | none => exact ⟨_, rfl⟩
    | some u0 =>
      obtain ⟨t0, acc, u1⟩ := u0
      cases u1 with
      | none => exact ⟨_, rfl⟩
      | some u1 =>
        obtain ⟨vel, pos⟩ := u1
        cases pos with
        | none => exact ⟨_, rfl⟩
        | some p => exact ⟨_, rfl⟩

/-- **C, `AccelerationToState`.** -/
theorem erase_streams_a2s :
    (∀ (s s' : Option (A2sU0 F)) i r, A2s.step true s i = .ok (s', r) →
      A2s.step false (eraseA s) (eraseOut i) = .ok (eraseA s', r)) ∧
    (∀ (s : Option (A2sU0 F)) o, A2s.get true s = .ok o → A2s.get false (eraseA s) = .ok o) ∧
    (∀ (s s' : Option (A2sU0 F)) is rs, runT (A2s.step true) s is = .ok (s', rs) →
      runT (A2s.step false) (eraseA s) (is.map eraseOut) = .ok (eraseA s', rs)) ∧
    (∀ (s s' : Option (A2sU0 F)) is, runE (A2s.step true) s is = .ok s' →
      runE (A2s.step false) (eraseA s) (is.map eraseOut) = .ok (eraseA s')) :=
  ⟨fun _ _ _ _ => a2s_step_sim, fun _ _ => a2s_get_sim,
    fun s s' is rs => runT_sim _ _ eraseA eraseOut (fun _ _ _ _ => a2s_step_sim) s is s' rs,
    fun s s' is => runE_sim _ _ eraseA eraseOut (fun _ _ _ _ => a2s_step_sim) s is s'⟩

/-- non-vacuity: four acceleration samples (every branch of `update` runs), checked; the getter then succeeds -/
example : ∃ s' rs o, runT (A2s.step true) (A2s.init : Option (A2sU0 Int))
    [.ok (some ⟨1, ⟨3, ⟨1, -2⟩⟩⟩), .ok (some ⟨3, ⟨7, ⟨1, -2⟩⟩⟩), .ok (some ⟨4, ⟨5, ⟨1, -2⟩⟩⟩),
      .ok (some ⟨6, ⟨5, ⟨1, -2⟩⟩⟩)] = .ok (s', rs) ∧ A2s.get true s' = .ok (.ok (some o)) :=
  ⟨_, _, _, rfl, rfl⟩

theorem v2s_step_sim {s s' : Option (V2sU0 F)} {i : Output (Quantity F)} {r : UpdRet}
    (h : V2s.step true s i = .ok (s', r)) :
    V2s.step false (eraseV s) (eraseOut i) = .ok (eraseV s', r) := by
  cases i with
  | error e => cases h; rfl
  | ok oi =>
    cases oi with
    | none => cases h; rfl
    | some d =>
      simp only [V2s.step] at h
      split at h
      · cases h
      cases s with
      | none => cases h; rfl
      | some u0 =>
        obtain ⟨t0, vel, u1⟩ := u0
        simp only at h
        split at h
        · cases h
        rename_i dv hdv
        obtain rfl := sub_true_ok hdv
        split at h
        · cases h
        rename_i pa hpa
        obtain rfl := qHalf_true_ok hpa
        cases u1 with
        | none => cases h; rfl
        | some u1 =>
          obtain ⟨acc, pos⟩ := u1
          simp only at h
          split at h
          · cases h
          rename_i np hnp
          obtain rfl := add_true_ok hnp
          cases h; rfl

theorem v2s_get_sim {s : Option (V2sU0 F)} {o : Output (State F)} (h : V2s.get true s = .ok o) :
    V2s.get false (eraseV s) = .ok o := by
  cases s with
  | none => cases h; rfl
  | some u0 =>
    obtain ⟨t0, vel, u1⟩ := u0
    cases u1 with
    | none => cases h; rfl
    | some u1 =>
      obtain ⟨acc, pos⟩ := u1
      simp only [V2s.get] at h
      split at h
      · cases h
      · rename_i st hst
        obtain rfl := state_new_true_ok hst
        cases h; rfl

theorem v2s_unchecked_never_panics (s : Option (V2sU0 F)) (i : Output (Quantity F)) :
    (∃ r, V2s.step false s i = .ok r) ∧ (∃ o, V2s.get false s = .ok o) := by
  constructor
  · cases i with
    | error e => exact ⟨_, rfl⟩
    | ok oi =>
      cases oi with
      | none => exact ⟨_, rfl⟩
      | some d =>
        cases s with
        | none => exact ⟨_, rfl⟩
        | some u0 =>
          obtain ⟨t0, vel, u1⟩ := u0
          cases u1 with
          | none => exact ⟨_, rfl⟩
          | some u1 => exact ⟨_, rfl⟩
  · cases s with
    | none => exact ⟨_, rfl⟩
    | some u0 =>
      obtain ⟨t0, vel, u1⟩ := u0
      cases u1 with
      | none => exact ⟨_, rfl⟩
      | some u1 => exact ⟨_, rfl⟩

/-- **C, `VelocityToState`.** -/
theorem erase_streams_v2s :
    (∀ (s s' : Option (V2sU0 F)) i r, V2s.step true s i = .ok (s', r) →
      V2s.step false (eraseV s) (eraseOut i) = .ok (eraseV s', r)) ∧
    (∀ (s : Option (V2sU0 F)) o, V2s.get true s = .ok o → V2s.get false (eraseV s) = .ok o) ∧
    (∀ (s s' : Option (V2sU0 F)) is rs, runT (V2s.step true) s is = .ok (s', rs) →
      runT (V2s.step false) (eraseV s) (is.map eraseOut) = .ok (eraseV s', rs)) ∧
    (∀ (s s' : Option (V2sU0 F)) is, runE (V2s.step true) s is = .ok s' →
      runE (V2s.step false) (eraseV s) (is.map eraseOut) = .ok (eraseV s')) :=
  ⟨fun _ _ _ _ => v2s_step_sim, fun _ _ => v2s_get_sim,
    fun s s' is rs => runT_sim _ _ eraseV eraseOut (fun _ _ _ _ => v2s_step_sim) s is s' rs,
    fun s s' is => runE_sim _ _ eraseV eraseOut (fun _ _ _ _ => v2s_step_sim) s is s'⟩

example : ∃ s' rs o, runT (V2s.step true) (V2s.init : Option (V2sU0 Int))
    [.ok (some ⟨1, ⟨3, ⟨1, -1⟩⟩⟩), .ok (some ⟨3, ⟨7, ⟨1, -1⟩⟩⟩), .ok (some ⟨4, ⟨5, ⟨1, -1⟩⟩⟩)] = .ok (s', rs) ∧
    V2s.get true s' = .ok (.ok (some o)) :=
  ⟨_, _, _, rfl, rfl⟩

theorem p2s_step_sim {s s' : Option (P2sU0 F)} {i : Output (Quantity F)} {r : UpdRet}
    (h : P2s.step true s i = .ok (s', r)) :
    P2s.step false (eraseP s) (eraseOut i) = .ok (eraseP s', r) := by
  cases i with
  | error e => cases h; rfl
  | ok oi =>
    cases oi with
    | none => cases h; rfl
    | some d =>
      simp only [P2s.step] at h
      split at h
      · cases h
      cases s with
      | none => cases h; rfl
      | some u0 =>
        obtain ⟨t0, pos, u1⟩ := u0
        simp only at h
        split at h
        · cases h
        rename_i dp hdp
        obtain rfl := sub_true_ok hdp
        cases u1 with
        | none => cases h; rfl
        | some u1 =>
          obtain ⟨vel, acc⟩ := u1
          simp only at h
          split at h
          · cases h
          rename_i dv hdv
          obtain rfl := sub_true_ok hdv
          cases h; rfl

theorem p2s_get_sim {s : Option (P2sU0 F)} {o : Output (State F)} (h : P2s.get true s = .ok o) :
    P2s.get false (eraseP s) = .ok o := by
  cases s with
  | none => cases h; rfl
  | some u0 =>
    obtain ⟨t0, pos, u1⟩ := u0
    cases u1 with
    | none => cases h; rfl
    | some u1 =>
      obtain ⟨vel, acc⟩ := u1
      cases acc with
      | none => cases h; rfl
      | some a =>
        simp only [P2s.get] at h
        split at h
        · cases h
        · rename_i st hst
          obtain rfl := state_new_true_ok hst
          cases h; rfl

theorem p2s_unchecked_never_panics (s : Option (P2sU0 F)) (i : Output (Quantity F)) :
    (∃ r, P2s.step false s i = .ok r) ∧ (∃ o, P2s.get false s = .ok o) := by
  constructor
  · cases i with
    | error e => exact ⟨_, rfl⟩
    | ok oi =>
      cases oi with
      | none => exact ⟨_, rfl⟩
      | some d =>
        cases s with
        | none => exact ⟨_, rfl⟩
        | some u0 =>
          obtain ⟨t0, pos, u1⟩ := u0
          cases u1 with
          | none => exact ⟨_, rfl⟩
          | some u1 => exact ⟨_, rfl⟩
  · cases s with
    | none => exact ⟨_, rfl⟩
    | some u0 =>
      obtain ⟨t0, pos, u1⟩ := u0
      cases u1 with
      | none => exact ⟨_, rfl⟩
      | some u1 =>
        obtain ⟨vel, acc⟩ := u1
        cases acc with
        | none => exact ⟨_, rfl⟩
        | some a => exact ⟨_, rfl⟩

/-- **C, `PositionToState`.** -/
theorem erase_streams_p2s :
    (∀ (s s' : Option (P2sU0 F)) i r, P2s.step true s i = .ok (s', r) →
      P2s.step false (eraseP s) (eraseOut i) = .ok (eraseP s', r)) ∧
    (∀ (s : Option (P2sU0 F)) o, P2s.get true s = .ok o → P2s.get false (eraseP s) = .ok o) ∧
    (∀ (s s' : Option (P2sU0 F)) is rs, runT (P2s.step true) s is = .ok (s', rs) →
      runT (P2s.step false) (eraseP s) (is.map eraseOut) = .ok (eraseP s', rs)) ∧
    (∀ (s s' : Option (P2sU0 F)) is, runE (P2s.step true) s is = .ok s' →
      runE (P2s.step false) (eraseP s) (is.map eraseOut) = .ok (eraseP s')) :=
  ⟨fun _ _ _ _ => p2s_step_sim, fun _ _ => p2s_get_sim,
    fun s s' is rs => runT_sim _ _ eraseP eraseOut (fun _ _ _ _ => p2s_step_sim) s is s' rs,
    fun s s' is => runE_sim _ _ eraseP eraseOut (fun _ _ _ _ => p2s_step_sim) s is s'⟩

example : ∃ s' rs o, runT (P2s.step true) (P2s.init : Option (P2sU0 Int))
    [.ok (some ⟨1, ⟨3, ⟨1, 0⟩⟩⟩), .ok (some ⟨3, ⟨7, ⟨1, 0⟩⟩⟩), .ok (some ⟨4, ⟨5, ⟨1, 0⟩⟩⟩)] = .ok (s', rs) ∧
    P2s.get true s' = .ok (.ok (some o)) :=
  ⟨_, _, _, rfl, rfl⟩
/-- a wrongly dimensioned sample is rejected by a panic when checked … and accepted unchecked (previous theorem) -/
example : P2s.step true (P2s.init : Option (P2sU0 Int)) (.ok (some ⟨1, ⟨3, ⟨1, -1⟩⟩⟩)) = .error .dim := rfl

/-- **C, never panics.** With checking compiled out the five unit-carrying streams never panic, on any input with
any units, from any state — hence on any history. -/
theorem streams_unchecked_never_panics :
    (∀ (s : DiS F) i, ∃ r, Derivative.step false s i = .ok r) ∧
    (∀ (s : DiS F) i, ∃ r, Integral.step false s i = .ok r) ∧
    (∀ (s : Option (A2sU0 F)) i, (∃ r, A2s.step false s i = .ok r) ∧ ∃ o, A2s.get false s = .ok o) ∧
    (∀ (s : Option (V2sU0 F)) i, (∃ r, V2s.step false s i = .ok r) ∧ ∃ o, V2s.get false s = .ok o) ∧
    (∀ (s : Option (P2sU0 F)) i, (∃ r, P2s.step false s i = .ok r) ∧ ∃ o, P2s.get false s = .ok o) ∧
    (∀ (s : DiS F) is, ∃ q, runT (Derivative.step false) s is = .ok q) ∧
    (∀ (s : DiS F) is, ∃ q, runT (Integral.step false) s is = .ok q) ∧
    (∀ (s : Option (A2sU0 F)) is, ∃ q, runT (A2s.step false) s is = .ok q) ∧
    (∀ (s : Option (V2sU0 F)) is, ∃ q, runT (V2s.step false) s is = .ok q) ∧
    (∀ (s : Option (P2sU0 F)) is, ∃ q, runT (P2s.step false) s is = .ok q) :=
  ⟨derivative_unchecked_never_panics, integral_unchecked_never_panics, a2s_unchecked_never_panics,
    v2s_unchecked_never_panics, p2s_unchecked_never_panics,
    runT_total _ derivative_unchecked_never_panics, runT_total _ integral_unchecked_never_panics,
    runT_total _ (fun s i => (a2s_unchecked_never_panics s i).1),
    runT_total _ (fun s i => (v2s_unchecked_never_panics s i).1),
    runT_total _ (fun s i => (p2s_unchecked_never_panics s i).1)⟩

/-! ### the `Quantity` instantiations of `EWMAStream` and `MovingAverageStream` -/
theorem erase_scaleQdl (q : Quantity F) (x : F) : eraseQ (scaleQdl true q x) = scaleQdl false (eraseQ q) x := rfl
theorem erase_scaleQs (q : Quantity F) (x : F) : eraseQ (scaleQs true q x) = scaleQs false (eraseQ q) x := rfl
theorem erase_divQs (q : Quantity F) (x : F) : eraseQ (divQs true q x) = divQs false (eraseQ q) x := rfl
/-- unchecked, the three helpers are `*`, `*`, `/` on the values -/
theorem unchecked_scale (q : Quantity F) (x : F) :
    scaleQdl false q x = ⟨q.value * x, ⟨0, 0⟩⟩ ∧ scaleQs false q x = ⟨q.value * x, ⟨0, 0⟩⟩ ∧
    divQs false q x = ⟨q.value / x, ⟨0, 0⟩⟩ := ⟨rfl, rfl, rfl⟩

/-- one EWMA update: state (value, timestamp, update time) erased, return value identical -/
theorem ewma_step_sim {sm : F} {s : EwmaS (Quantity F)} {i : Output (Quantity F)} {r : EwmaS (Quantity F) × UpdRet}
    (h : Ewma.step (scaleQdl true) (Quantity.add true) sm s i = .ok r) :
    Ewma.step (scaleQdl false) (Quantity.add false) sm (eraseEw s) (eraseOut i) = .ok (eraseEw r.1, r.2) := by
  obtain ⟨v, ut⟩ := s
  cases i with
  | error e => cases h; rfl
  | ok oi =>
    cases oi with
    | none =>
      cases v with
      | error e => cases h; rfl
      | ok ov => cases h; rfl
    | some o =>
      cases v with
      | error e =>
        simp only [Ewma.step] at h
        split at h
        · cases h
        · rename_i w hw
          obtain rfl := add_true_ok hw
          cases h; rfl
      | ok ov =>
        cases ov with
        | none =>
          simp only [Ewma.step] at h
          split at h
          · cases h
          · rename_i w hw
            obtain rfl := add_true_ok hw
            cases h; rfl
        | some d =>
          cases ut with
          | none => cases h
          | some pt =>
            simp only [Ewma.step] at h
            split at h
            · cases h
            · rename_i w hw
              obtain rfl := add_true_ok hw
              cases h; rfl

/-- unchecked, the Quantity EWMA never panics on units (its only panic is the `expect` on a missing update time) -/
theorem ewma_unchecked_never_dim (sm : F) (s : EwmaS (Quantity F)) (i : Output (Quantity F)) :
    Ewma.step (scaleQdl false) (Quantity.add false) sm s i ≠ .error .dim := by
  obtain ⟨v, ut⟩ := s
  cases i with
  | error e => intro h; cases h
  | ok oi =>
    cases oi with
    | none =>
      cases v with
      | error e => intro h; cases h
      | ok ov => intro h; cases h
    | some o =>
      cases v with
      | error e => intro h; cases h
      | ok ov =>
        cases ov with
        | none => intro h; cases h
        | some d =>
          cases ut with
          | none => intro h; cases h
          | some pt => intro h; cases h

/-- **C, EWMA (Quantity impl).** -/
theorem erase_streams_ewma (sm : F) :
    (∀ (s : EwmaS (Quantity F)) i r, Ewma.step (scaleQdl true) (Quantity.add true) sm s i = .ok r →
      Ewma.step (scaleQdl false) (Quantity.add false) sm (eraseEw s) (eraseOut i) = .ok (eraseEw r.1, r.2)) ∧
    (∀ s : EwmaS (Quantity F), Ewma.get (eraseEw s) = eraseOut (Ewma.get s)) ∧
    (∀ (s s' : EwmaS (Quantity F)) is rs, runT (Ewma.step (scaleQdl true) (Quantity.add true) sm) s is = .ok (s', rs) →
      runT (Ewma.step (scaleQdl false) (Quantity.add false) sm) (eraseEw s) (is.map eraseOut) = .ok (eraseEw s', rs)) ∧
    (∀ (s : EwmaS (Quantity F)) i, Ewma.step (scaleQdl false) (Quantity.add false) sm s i ≠ .error .dim) :=
  ⟨fun _ _ _ => ewma_step_sim, fun _ => rfl,
    fun s s' is rs => runT_sim _ _ eraseEw eraseOut (fun _ _ _ _ h => ewma_step_sim h) s is s' rs,
    ewma_unchecked_never_dim sm⟩

/-- non-vacuity: three samples in mm through the checked EWMA (`powf` of the toy scalar returns its base) -/
example : ∃ s' rs, runT (Ewma.step (scaleQdl true) (Quantity.add true) (2 : Int)) (Ewma.init : EwmaS (Quantity Int))
    [.ok (some ⟨1, ⟨3, ⟨1, 0⟩⟩⟩), .ok (some ⟨3, ⟨7, ⟨1, 0⟩⟩⟩), .ok (some ⟨4, ⟨5, ⟨1, 0⟩⟩⟩)] = .ok (s', rs) :=
  ⟨_, _, rfl⟩

/-! moving average -/
theorem trim_erase (cut : Int) (q : List (Datum (Quantity F))) :
    Ma.trim cut (q.map eraseD) = match Ma.trim cut q with
      | .error p => .error p
      | .ok q' => .ok (q'.map eraseD) := by
  induction q with
  | nil => rfl
  | cons d ds ih =>
    simp only [List.map_cons, Ma.trim, eraseD_time]
    by_cases hd : d.time ≤ cut
    · simp only [hd, if_true]; exact ih
    · simp only [hd, if_false, List.map_cons]

theorem weightsNs_erase (cut : Int) (q : List (Datum (Quantity F))) :
    Ma.weightsNs cut (q.map eraseD) = Ma.weightsNs cut q := by
  induction q generalizing cut with
  | nil => rfl
  | cons d ds ih => simp only [List.map_cons, Ma.weightsNs, eraseD_time, ih]

theorem zip_erase (q : List (Datum (Quantity F))) (ws : List F) :
    ((q.map eraseD).map (·.value)).zip ws = ((q.map (·.value)).zip ws).map (Prod.map eraseQ id) := by
  induction q generalizing ws with
  | nil => rfl
  | cons d ds ih =>
    cases ws with
    | nil => rfl
    | cons w ws => simp only [List.map_cons, List.zip_cons_cons, ih]; rfl

/-- the weighted sum `Σ vᵢ·wᵢ` under erasure (induction on the list of terms) -/
theorem accumulate_erase (l : List (Quantity F × F)) (acc r : Option (Quantity F))
    (h : Ma.accumulate (scaleQs true) (Quantity.add true) acc l = .ok r) :
    Ma.accumulate (scaleQs false) (Quantity.add false) (eraseOQ acc) (l.map (Prod.map eraseQ id)) = .ok (eraseOQ r) := by
  induction l generalizing acc with
  | nil => cases acc <;> (cases h; rfl)
  | cons vw rest ih =>
    obtain ⟨v, w⟩ := vw
    cases acc with
    | none =>
      simp only [Ma.accumulate] at h
      exact ih _ h
    | some a =>
      simp only [Ma.accumulate] at h
      split at h
      · cases h
      · rename_i a' ha'
        obtain rfl := add_true_ok ha'
        exact ih _ h

/-- one moving-average update: cached value and queue erased (timestamps kept), return value identical -/
theorem ma_step_sim {zero : Option (Quantity F)} {window : Int} {s : MaS (Quantity F)} {i : Output (Quantity F)}
    {r : MaS (Quantity F) × UpdRet}
    (h : Ma.step (scaleQs true) (Quantity.add true) (divQs true) zero window s i = .ok r) :
    Ma.step (scaleQs false) (Quantity.add false) (divQs false) (eraseOQ zero) window (eraseMa s) (eraseOut i)
      = .ok (eraseMa r.1, r.2) := by
  obtain ⟨v, q⟩ := s
  cases i with
  | error e => cases h; rfl
  | ok oi =>
    cases oi with
    | none =>
      cases v with
      | error e => cases h; rfl
      | ok ov => cases h; rfl
    | some o =>
      have hq : q.map eraseD ++ [eraseD o] = (q ++ [o]).map eraseD := by simp
      simp only [Ma.step, eraseMa, eraseOut, eraseOD, eraseD_time, hq, trim_erase, weightsNs_erase] at h ⊢
      cases ht : Ma.trim (o.time - window) (q ++ [o]) with
      | error p => simp [ht] at h
      | ok q' =>
        simp only [ht, weightsNs_erase, zip_erase] at h ⊢
        split at h
        · cases h
        · cases h
        · rename_i w hw
          rw [accumulate_erase _ _ _ hw]
          cases h; rfl

/-- unchecked, the Quantity moving average never panics on units -/
theorem accumulate_unchecked (l : List (Quantity F × F)) (acc : Option (Quantity F)) :
    ∃ r, Ma.accumulate (scaleQs false) (Quantity.add false) acc l = .ok r := by
  induction l generalizing acc with
  | nil => cases acc <;> exact ⟨_, rfl⟩
  | cons vw rest ih =>
    obtain ⟨v, w⟩ := vw
    cases acc with
    | none => simp only [Ma.accumulate]; exact ih _
    | some a => exact ih (some ⟨a.value + (scaleQs false v w).value, a.unit⟩)

theorem ma_unchecked_never_dim (zero : Option (Quantity F)) (window : Int) (s : MaS (Quantity F))
    (i : Output (Quantity F)) :
    Ma.step (scaleQs false) (Quantity.add false) (divQs false) zero window s i ≠ .error .dim := by
  obtain ⟨v, q⟩ := s
  cases i with
  | error e => intro h; cases h
  | ok oi =>
    cases oi with
    | none =>
      cases v with
      | error e => intro h; cases h
      | ok ov => intro h; cases h
    | some o =>
      simp only [Ma.step]
      cases ht : Ma.trim (o.time - window) (q ++ [o]) with
      | error p =>
        intro h
        simp only at h
        cases h
        -- `trim` only fails with `oob`
        have : ∀ (l : List (Datum (Quantity F))), Ma.trim (o.time - window) l ≠ .error .dim := by
          intro l
          induction l with
          | nil => intro h; cases h
          | cons d ds ih => simp only [Ma.trim]; split; exact ih; intro h; cases h
        exact this _ ht
      | ok q' =>
        simp only
        obtain ⟨r, hr⟩ := accumulate_unchecked
          ((q'.map (·.value)).zip ((Ma.weightsNs (o.time - window) q').map (fun n => (secs n : F)))) zero
        rw [hr]
        cases r <;> (intro h; cases h)

/-- **C, moving average (Quantity impl: `zero = none`, any `zero` in general).** -/
theorem erase_streams_ma (zero : Option (Quantity F)) (window : Int) :
    (∀ (s : MaS (Quantity F)) i r, Ma.step (scaleQs true) (Quantity.add true) (divQs true) zero window s i = .ok r →
      Ma.step (scaleQs false) (Quantity.add false) (divQs false) (eraseOQ zero) window (eraseMa s) (eraseOut i)
        = .ok (eraseMa r.1, r.2)) ∧
    (∀ s : MaS (Quantity F), Ma.get (eraseMa s) = eraseOut (Ma.get s)) ∧
    (∀ (s s' : MaS (Quantity F)) is rs,
      runT (Ma.step (scaleQs true) (Quantity.add true) (divQs true) zero window) s is = .ok (s', rs) →
      runT (Ma.step (scaleQs false) (Quantity.add false) (divQs false) (eraseOQ zero) window) (eraseMa s)
        (is.map eraseOut) = .ok (eraseMa s', rs)) ∧
    (∀ (s : MaS (Quantity F)) i,
      Ma.step (scaleQs false) (Quantity.add false) (divQs false) zero window s i ≠ .error .dim) :=
  ⟨fun _ _ _ => ma_step_sim, fun _ => rfl,
    fun s s' is rs => runT_sim _ _ eraseMa eraseOut (fun _ _ _ _ h => ma_step_sim h) s is s' rs,
    ma_unchecked_never_dim zero window⟩

/-- non-vacuity: three samples in mm, window 2 ns, checked (the last update drops the first sample) -/
example : ∃ s' rs, runT (Ma.step (scaleQs true) (Quantity.add true) (divQs true) none 2) (Ma.init : MaS (Quantity Int))
    [.ok (some ⟨1, ⟨3, ⟨1, 0⟩⟩⟩), .ok (some ⟨2, ⟨7, ⟨1, 0⟩⟩⟩), .ok (some ⟨4, ⟨5, ⟨1, 0⟩⟩⟩)] = .ok (s', rs) ∧
    s'.queue.length = 1 :=
  ⟨_, _, rfl, rfl⟩

/-! ## D. motion profile -/
open MotionProfile in
/-- the constructor: accepted with checking ⇒ accepted without, same `t1, t2, t3`, same values, same end command -/
theorem erase_mp_new {s e : State F} {mv ma : Quantity F} {mp : MotionProfile F}
    (h : MotionProfile.new true s e mv ma = .ok mp) :
    MotionProfile.new false s e (eraseQ mv) (eraseQ ma) = .ok (eraseMp mp) := by
  obtain ⟨h1, h3, h2, rfl⟩ := MpL.newSpec_ok (MpL.new_ok_spec h)
  rw [MpL.new_false]
  simp only [MpL.newSpec, eraseQ_value, h1, h3, h2, not_true_eq_false, if_false]
  rfl

/-- unchecked, the constructor ignores the units of the limits altogether -/
theorem mp_new_unchecked_units (s e : State F) (mv ma : Quantity F) :
    MotionProfile.new false s e mv ma = MotionProfile.new false s e (eraseQ mv) (eraseQ ma) := rfl

/-- unchecked, the constructor never panics on units: only the three asserts remain -/
theorem mp_new_unchecked_never_dim (s e : State F) (mv ma : Quantity F) :
    MotionProfile.new false s e mv ma ≠ .error .dim ∧ MotionProfile.new false s e mv ma ≠ .error .expect := by
  rw [MpL.new_false]
  unfold MpL.newSpec
  constructor <;> (split; (intro h; cases h); split; (intro h; cases h); split <;> (intro h; cases h))

theorem getMode_erase (mp : MotionProfile F) (t : Int) : (eraseMp mp).getMode t = mp.getMode t := rfl
theorem getPiece_erase (mp : MotionProfile F) (t : Int) : (eraseMp mp).getPiece t = mp.getPiece t := rfl

theorem getAcceleration_erase (mp : MotionProfile F) (t : Int) :
    (eraseMp mp).getAcceleration false t = eraseOQ (mp.getAcceleration true t) := by
  obtain ⟨p0, v0, t1, t2, t3, a, ec⟩ := mp
  simp only [MotionProfile.getAcceleration, eraseMp]
  by_cases h0 : t < 0
  · simp only [h0, if_true]; rfl
  by_cases h1 : t < t1
  · simp only [h0, h1, if_true, if_false]; rfl
  by_cases h2 : t < t2
  · simp only [h0, h1, h2, if_true, if_false]; rfl
  by_cases h3 : t < t3
  · simp only [h0, h1, h2, h3, if_true, if_false]; rfl
  · simp only [h0, h1, h2, h3, if_false]; cases ec <;> rfl

theorem map_some_ok {α : Type} {e : Except Panic α} {x : Option α} (h : e.map some = .ok x) :
    ∃ r, e = .ok r ∧ x = some r := by
  cases e with
  | error p => cases h
  | ok r => cases h; exact ⟨r, rfl, rfl⟩

theorem add3_true_ok {a b c r : Quantity F} (h : MotionProfile.add3 true a b c = .ok r) :
    r = ⟨a.value + b.value + c.value, a.unit⟩ := by
  unfold MotionProfile.add3 at h
  split at h
  · cases h
  · rename_i ab hab
    obtain rfl := add_true_ok hab
    exact add_true_ok h

theorem getVelocity_sim {mp : MotionProfile F} {t : Int} {x : Option (Quantity F)}
    (h : mp.getVelocity true t = .ok x) : (eraseMp mp).getVelocity false t = .ok (eraseOQ x) := by
  obtain ⟨p0, v0, t1, t2, t3, a, ec⟩ := mp
  simp only [MotionProfile.getVelocity, eraseMp] at h ⊢
  by_cases h0 : t < 0
  · simp only [h0, if_true] at h ⊢; cases h; rfl
  by_cases h1 : t < t1
  · simp only [h0, h1, if_true, if_false] at h ⊢
    obtain ⟨r, hr, rfl⟩ := map_some_ok h
    obtain rfl := add_true_ok hr; rfl
  by_cases h2 : t < t2
  · simp only [h0, h1, h2, if_true, if_false] at h ⊢
    obtain ⟨r, hr, rfl⟩ := map_some_ok h
    obtain rfl := add_true_ok hr; rfl
  by_cases h3 : t < t3
  · simp only [h0, h1, h2, h3, if_true, if_false] at h ⊢
    obtain ⟨r, hr, rfl⟩ := map_some_ok h
    obtain rfl := add_true_ok hr; rfl
  · simp only [h0, h1, h2, h3, if_false] at h ⊢
    cases h; cases ec <;> rfl

theorem getPosition_sim {mp : MotionProfile F} {t : Int} {x : Option (Quantity F)}
    (h : mp.getPosition true t = .ok x) : (eraseMp mp).getPosition false t = .ok (eraseOQ x) := by
  obtain ⟨p0, v0, t1, t2, t3, a, ec⟩ := mp
  simp only [MotionProfile.getPosition, eraseMp] at h ⊢
  by_cases h0 : t < 0
  · simp only [h0, if_true] at h ⊢; cases h; rfl
  by_cases h1 : t < t1
  · simp only [h0, h1, if_true, if_false] at h ⊢
    obtain ⟨r, hr, rfl⟩ := map_some_ok h
    obtain rfl := add3_true_ok hr; rfl
  by_cases h2 : t < t2
  · simp only [h0, h1, h2, if_true, if_false] at h ⊢
    obtain ⟨r, hr, rfl⟩ := map_some_ok h
    obtain rfl := add3_true_ok hr; rfl
  by_cases h3 : t < t3
  · simp only [h0, h1, h2, h3, if_true, if_false] at h ⊢
    split at h
    · cases h
    · rename_i ab hab
      obtain rfl := sub_true_ok hab
      obtain ⟨r, hr, rfl⟩ := map_some_ok h
      obtain rfl := add3_true_ok hr; rfl
  · simp only [h0, h1, h2, h3, if_false] at h ⊢
    cases h; cases ec <;> rfl

/-- unchecked accessors never panic, on any profile (any units stored in it) -/
theorem getVelocity_unchecked (mp : MotionProfile F) (t : Int) : ∃ x, mp.getVelocity false t = .ok x := by
  simp only [MotionProfile.getVelocity]
  by_cases h0 : t < 0
  · simp only [h0, if_true]; exact ⟨_, rfl⟩
  by_cases h1 : t < mp.t1
  · simp only [h0, h1, if_true, if_false]; exact ⟨_, rfl⟩
  by_cases h2 : t < mp.t2
  · simp only [h0, h1, h2, if_true, if_false]; exact ⟨_, rfl⟩
  by_cases h3 : t < mp.t3
  · simp only [h0, h1, h2, h3, if_true, if_false]; exact ⟨_, rfl⟩
  · simp only [h0, h1, h2, h3, if_false]; exact ⟨_, rfl⟩

theorem getPosition_unchecked (mp : MotionProfile F) (t : Int) : ∃ x, mp.getPosition false t = .ok x := by
  simp only [MotionProfile.getPosition]
  by_cases h0 : t < 0
  · simp only [h0, if_true]; exact ⟨_, rfl⟩
  by_cases h1 : t < mp.t1
  · simp only [h0, h1, if_true, if_false]; exact ⟨_, rfl⟩
  by_cases h2 : t < mp.t2
  · simp only [h0, h1, h2, if_true, if_false]; exact ⟨_, rfl⟩
  by_cases h3 : t < mp.t3
  · simp only [h0, h1, h2, h3, if_true, if_false]; exact ⟨_, rfl⟩
  · simp only [h0, h1, h2, h3, if_false]; exact ⟨_, rfl⟩

/-- `History::get`: the command datum (time, kind, value) is identical -/
theorem historyGet_sim {mp : MotionProfile F} {t : Int} {x : Option (Datum (Command F))}
    (h : mp.historyGet true t = .ok x) : (eraseMp mp).historyGet false t = .ok x := by
  simp only [MotionProfile.historyGet, getMode_erase] at h ⊢
  cases hm : mp.getMode t with
  | none => simp only [hm] at h ⊢; exact h
  | some mode =>
    simp only [hm] at h ⊢
    cases mode with
    | position =>
      simp only at h ⊢
      cases hv : mp.getPosition true t with
      | error p => simp [hv] at h
      | ok o =>
        rw [getPosition_sim hv]
        simp only [hv] at h
        cases o with
        | none => cases h
        | some q => cases h; rfl
    | velocity =>
      simp only at h ⊢
      cases hv : mp.getVelocity true t with
      | error p => simp [hv] at h
      | ok o =>
        rw [getVelocity_sim hv]
        simp only [hv] at h
        cases o with
        | none => cases h
        | some q => cases h; rfl
    | acceleration =>
      simp only [getAcceleration_erase] at h ⊢
      cases ha : mp.getAcceleration true t with
      | none => simp [ha] at h
      | some q => simp only [ha] at h; cases h; rfl

theorem historyGet_unchecked_never_dim (mp : MotionProfile F) (t : Int) :
    mp.historyGet false t ≠ .error .dim := by
  simp only [MotionProfile.historyGet]
  cases hm : mp.getMode t with
  | none => intro h; cases h
  | some mode =>
    cases mode with
    | position =>
      obtain ⟨x, hx⟩ := getPosition_unchecked mp t
      simp only [hx]
      cases x <;> (intro h; cases h)
    | velocity =>
      obtain ⟨x, hx⟩ := getVelocity_unchecked mp t
      simp only [hx]
      cases x <;> (intro h; cases h)
    | acceleration =>
      simp only
      cases mp.getAcceleration false t <;> (intro h; cases h)

/-- **D, end to end.** A profile accepted by the checked constructor: the unchecked constructor (fed the same states
and the erased limits) accepts too, with the same three switch times, and at every instant the command history of the
unchecked profile returns exactly the datum (timestamp, kind, value) of the checked one. -/
theorem erase_mp_end_to_end {s e : State F} {mv ma : Quantity F} {mp : MotionProfile F}
    (h : MotionProfile.new true s e mv ma = .ok mp) :
    ∃ mp', MotionProfile.new false s e (eraseQ mv) (eraseQ ma) = .ok mp' ∧
      mp'.t1 = mp.t1 ∧ mp'.t2 = mp.t2 ∧ mp'.t3 = mp.t3 ∧ mp'.endCommand = mp.endCommand ∧
      mp'.startPos.value = mp.startPos.value ∧ mp'.startVel.value = mp.startVel.value ∧
      mp'.maxAcc.value = mp.maxAcc.value ∧
      ∀ t, mp'.getPiece t = mp.getPiece t ∧ mp'.getMode t = mp.getMode t ∧
        ∀ x, mp.historyGet true t = .ok x → mp'.historyGet false t = .ok x :=
  ⟨eraseMp mp, erase_mp_new h, rfl, rfl, rfl, rfl, rfl, rfl, rfl, fun _ => ⟨rfl, rfl, fun _ => historyGet_sim⟩⟩

example : MotionProfile.add3 true (⟨1, ⟨1, 0⟩⟩ : Quantity Int) ⟨2, ⟨1, 0⟩⟩ ⟨3, ⟨1, 0⟩⟩ = .ok ⟨1 + 2 + 3, ⟨1, 0⟩⟩ := rfl

/-- **D, bundled.** -/
theorem erase_motion_profile :
    (∀ (s e : State F) (mv ma : Quantity F) (mp : MotionProfile F), MotionProfile.new true s e mv ma = .ok mp →
      MotionProfile.new false s e (eraseQ mv) (eraseQ ma) = .ok (eraseMp mp)) ∧
    (∀ (mp : MotionProfile F) (t : Int),
      (eraseMp mp).getPiece t = mp.getPiece t ∧
      (eraseMp mp).getMode t = mp.getMode t ∧
      (eraseMp mp).getAcceleration false t = eraseOQ (mp.getAcceleration true t) ∧
      (∀ x, mp.getVelocity true t = .ok x → (eraseMp mp).getVelocity false t = .ok (eraseOQ x)) ∧
      (∀ x, mp.getPosition true t = .ok x → (eraseMp mp).getPosition false t = .ok (eraseOQ x)) ∧
      (∀ x, mp.historyGet true t = .ok x → (eraseMp mp).historyGet false t = .ok x)) ∧
    (∀ (mp : MotionProfile F) (t : Int),
      (∃ x, mp.getVelocity false t = .ok x) ∧ (∃ x, mp.getPosition false t = .ok x) ∧
      mp.historyGet false t ≠ .error .dim) :=
  ⟨fun _ _ _ _ _ => erase_mp_new,
    fun mp t => ⟨rfl, rfl, getAcceleration_erase mp t, fun _ => getVelocity_sim, fun _ => getPosition_sim,
      fun _ => historyGet_sim⟩,
    fun mp t => ⟨getVelocity_unchecked mp t, getPosition_unchecked mp t, historyGet_unchecked_never_dim mp t⟩⟩

/-- a well-dimensioned profile with all five pieces (t1 = 10, t2 = 30, t3 = 40 ns) -/
def mpI : MotionProfile Int :=
  ⟨⟨0, ⟨1, 0⟩⟩, ⟨5, ⟨1, -1⟩⟩, 10, 30, 40, ⟨3, ⟨1, -2⟩⟩, .position 7⟩
/-- non-vacuity: on it every checked accessor succeeds in every piece -/
example : ∀ t ∈ [-1, 5, 20, 35, 45], (∃ x, mpI.getVelocity true t = .ok x) ∧ (∃ x, mpI.getPosition true t = .ok x) ∧
    ∃ x, mpI.historyGet true t = .ok x := by
  intro t ht
  simp only [List.mem_cons, List.not_mem_nil, or_false] at ht
  rcases ht with rfl | rfl | rfl | rfl | rfl <;> exact ⟨⟨_, rfl⟩, ⟨_, rfl⟩, ⟨_, rfl⟩⟩
/-- … and on a profile with a wrong stored unit the checked accessor panics while the unchecked one does not -/
example : ({ mpI with startVel := ⟨5, ⟨1, 0⟩⟩ } : MotionProfile Int).getVelocity true 5 = .error .dim := rfl

end S

/-- non-vacuity of `erase_mp_new` over `ℚ`: the test-suite's first profile is accepted with checking on -/
example : ∃ mp, MotionProfile.new true (⟨0, 0, 0⟩ : State ℚ) ⟨3, 0, 0⟩ ⟨1/10, ⟨1, -1⟩⟩ ⟨1/100, ⟨1, -2⟩⟩ = .ok mp := by
  rw [MpL.new_true_good]
  have hs : MpL.sgn (⟨0, 0, 0⟩ : State ℚ) ⟨3, 0, 0⟩ = 1 := by simp [MpL.sgn, c1, FloatLike.ofInt]
  have hv : MpL.vMax (⟨0, 0, 0⟩ : State ℚ) ⟨3, 0, 0⟩ (1/10) = 1/10 := by
    simp only [MpL.vMax, hs, FloatLike.absF]; norm_num
  have ha : MpL.aMax (⟨0, 0, 0⟩ : State ℚ) ⟨3, 0, 0⟩ (1/100) = 1/100 := by
    simp only [MpL.aMax, hs, FloatLike.absF]; norm_num
  have h1 : MpL.T1 (⟨0, 0, 0⟩ : State ℚ) ⟨3, 0, 0⟩ (1/10) (1/100) = 10 := by
    simp only [MpL.T1, hv, ha]; norm_num
  have h3 : MpL.D3 (⟨0, 0, 0⟩ : State ℚ) ⟨3, 0, 0⟩ (1/10) (1/100) = 10 := by
    simp only [MpL.D3, hv, ha]; norm_num
  have h2 : MpL.D2 (⟨0, 0, 0⟩ : State ℚ) ⟨3, 0, 0⟩ (1/10) (1/100) = 20 := by
    simp only [MpL.D2, hv, h1, h3, c2, FloatLike.ofInt]; norm_num
  refine ⟨MpL.newResult true ⟨0, 0, 0⟩ ⟨3, 0, 0⟩ (1/10) (1/100), ?_⟩
  simp only [MpL.newSpec, h1, h2, h3, c0, FloatLike.ofInt]
  norm_num

/-! ## E. `std` vs `no_std`: the hand-written absolute value -/
section L
variable {F : Type} [Add F] [Sub F] [Mul F] [Div F] [Neg F] [LT F] [LE F] [BEq F]
  [DecidableLT F] [DecidableLE F] [FloatLike F]

/-- (tier S/L) what the `no_std` `Quantity::abs` returns: the value itself when `0.0 <= v`, its negation otherwise; unit
kept.  For binary32 this equals `f32::abs` as a value on every non-NaN input (`-0.0 >= 0.0` holds, so `-0.0` is returned
unchanged where `f32::abs` returns `+0.0`: the two differ only in the sign of zero; on NaN the manual version returns
`-NaN`, still NaN). -/
theorem absManual_spec (q : Quantity F) :
    (Quantity.absManual q).unit = q.unit ∧
    ((c0 : F) ≤ q.value → (Quantity.absManual q).value = q.value) ∧
    (¬ (c0 : F) ≤ q.value → (Quantity.absManual q).value = -q.value) := by
  refine ⟨rfl, fun h => ?_, fun h => ?_⟩
  · simp only [Quantity.absManual, h, if_true]
  · simp only [Quantity.absManual, h, if_false]

/-- (tier L) the two agree exactly under the two facts that define an absolute value; named hypotheses:
`habs_nonneg : 0 ≤ v → absF v = v`, `habs_neg : ¬ 0 ≤ v → absF v = -v` (true of binary32 except at `v = -0.0`) -/
theorem manual_abs_eq_abs_of_laws (habs_nonneg : ∀ v : F, (c0 : F) ≤ v → FloatLike.absF v = v)
    (habs_neg : ∀ v : F, ¬ (c0 : F) ≤ v → FloatLike.absF v = -v) (q : Quantity F) :
    Quantity.absManual q = Quantity.abs q := by
  obtain ⟨v, u⟩ := q
  by_cases h : (c0 : F) ≤ v
  · simp only [Quantity.absManual, Quantity.abs, h, if_true, habs_nonneg v h]
  · simp only [Quantity.absManual, Quantity.abs, h, if_false, habs_neg v h]
/-- the hypotheses hold for the toy integer scalar -/
example : (∀ v : Int, (c0 : Int) ≤ v → FloatLike.absF v = v) ∧ (∀ v : Int, ¬ (c0 : Int) ≤ v → FloatLike.absF v = -v) := by
  constructor
  · intro v h
    have h' : (0 : Int) ≤ v := h
    show (if v < 0 then -v else v) = v
    rw [if_neg (by omega)]
  · intro v h
    have h' : ¬ (0 : Int) ≤ v := h
    show (if v < 0 then -v else v) = -v
    rw [if_pos (by omega)]
end L

section R
variable {F : Type} [Field F] [LinearOrder F] [IsStrictOrderedRing F] [FloatLike F] [ExactScalar F]

/-- **E (tier R).** over an ordered field the `no_std` `if v >= 0.0 { v } else { -v }` is `|v|` -/
theorem manual_abs_eq_abs (q : Quantity F) : Quantity.absManual q = Quantity.abs q := by
  obtain ⟨v, u⟩ := q
  simp only [Quantity.absManual, Quantity.abs, c0_eq, ExactScalar.absF_eq]
  by_cases h : (0 : F) ≤ v
  · rw [if_pos h, abs_of_nonneg h]
  · rw [if_neg h, abs_of_neg (lt_of_not_ge h)]
end R


/-! ### which builds have dimension checking: the cfg gates regenerated from the source -/
-- (C19: an unchecked build is one where every gate below is off; C01: a checked build is one where every gate is on)
theorem dim_gates_nonempty : Gen.dimGates ≠ [] := by decide
/-- Every `cfg` / `cfg_attr` predicate in the source that mentions dimension checking is, in every build (profile ×
`dim_check_release` × `dim_check_debug` × any other feature × whatever an unparsed sub-predicate evaluates to), exactly the
documented rule `dim_check_release ∨ (debug_assertions ∧ dim_check_debug)` or exactly its negation: no item is gated by a
different condition than the rest, so "checking on" and "checking off" are two consistent worlds and the model's single
switch `chk` is faithful. The table is regenerated from /repo on every run. -/
theorem dim_gates_uniform : ∀ g ∈ Gen.dimGates,
    (∀ dbg rel dbgF o unk : Bool, g.2.2.eval dbg (dimEnv rel dbgF o) unk = checkingOn dbg rel dbgF) ∨
    (∀ dbg rel dbgF o unk : Bool, g.2.2.eval dbg (dimEnv rel dbgF o) unk = !checkingOn dbg rel dbgF) := by decide
/-- both polarities occur (there are bodies for "on" and bodies for "off") -/
theorem dim_gates_both_polarities :
    (∃ g ∈ Gen.dimGates, g.2.2.eval true (dimEnv true true false) false = true) ∧
    (∃ g ∈ Gen.dimGates, g.2.2.eval true (dimEnv true true false) false = false) := by decide
/-- the rule itself: the release feature switches checking on in every profile; the debug feature only with debug
assertions; without either feature checking is off -/
theorem checkingOn_table :
    (∀ dbg dbgF, checkingOn dbg true dbgF = true) ∧ (∀ dbgF, checkingOn false false dbgF = false) ∧
    checkingOn true false true = true ∧ (∀ dbg, checkingOn dbg false false = false) := by decide

end Rrtk.Thm.C19
