/-
C20 — device wrappers relay data between getters/settables and terminals unaltered; errors of the inner object are
propagated; the PID wrapper drives its motor with exactly what a stand-alone `CommandPID` produces when fed the
sequence of (time, state, command) seen at the terminal.  Tier S throughout: no law of the scalar is used.
-/
import Rrtk.Devices
set_option linter.unusedSectionVars false
set_option linter.unusedSimpArgs false
namespace Rrtk.Thm.C20
open Rrtk

section S
variable {F : Type} [Add F] [Sub F] [Mul F] [Div F] [Neg F] [LT F] [LE F] [BEq F]
  [DecidableLT F] [DecidableLE F] [FloatLike F]

/-! ### what a terminal "currently sees" (`impl Getter<TerminalData> for Terminal`) -/

/-- the combined read is absent exactly when neither a command nor a state is seen -/
theorem terminalData_none_iff (w : World F) (i : Nat) :
    w.getTerminalData i = none ↔ w.getCommand i = none ∧ w.getState i = none := by
  simp only [World.getTerminalData]
  cases w.getCommand i <;> cases w.getState i <;> simp

/-- the combined read carries exactly the command value and the state value the two other getters return, stamped
with the state's time if a state is seen and the command's time otherwise (both in the datum and in the payload) -/
theorem terminalData_spec (w : World F) (i : Nat) (td : Datum (TerminalData F))
    (h : w.getTerminalData i = some td) :
    td.value.command = (w.getCommand i).map (·.value) ∧
    td.value.state = (w.getState i).map (·.value) ∧
    td.value.time = td.time ∧
    (∀ ds, w.getState i = some ds → td.time = ds.time) ∧
    (w.getState i = none → ∀ dc, w.getCommand i = some dc → td.time = dc.time) := by
  simp only [World.getTerminalData] at h
  cases hc : w.getCommand i <;> cases hs : w.getState i <;> rw [hc, hs] at h <;> simp only [] at h
  · exact absurd h (by simp)
  all_goals
    cases Option.some.inj h
    simp

/-! ### A. actuator wrapper -/

/-- A. If the terminal sees `td` and the inner settable accepts, the inner settable is handed exactly `td.value`
(time, command, state as combined by the terminal), then the inner update runs and its result is the wrapper's result.
(The wrapper's update has no way to modify the terminal graph: the model returns no world.) -/
theorem actuator_forwards_exactly (w : World F) (i : Nat) (td : Datum (TerminalData F)) (iu : UpdRet)
    (h : w.getTerminalData i = some td) :
    ActuatorWrapper.update w i (.ok ()) iu = (some td.value, true, iu) := by
  simp only [ActuatorWrapper.update, h]

/-- A. If the terminal sees nothing, nothing is handed over (whatever the inner `set` would have answered) and the
inner update still runs; the result is the inner update's. -/
theorem actuator_nothing_seen (w : World F) (i : Nat) (acc iu : UpdRet) (h : w.getTerminalData i = none) :
    ActuatorWrapper.update w i acc iu = (none, true, iu) := by
  simp only [ActuatorWrapper.update, h]

/-- A. If the inner `set` rejects the data with `e`: the wrapper returns `Err(e)`, nothing counts as accepted and the
inner `update` is NOT run. -/
theorem actuator_propagates_err (w : World F) (i : Nat) (td : Datum (TerminalData F)) (e : Err) (iu : UpdRet)
    (h : w.getTerminalData i = some td) :
    ActuatorWrapper.update w i (.error e) iu = (none, false, .error e) := by
  simp only [ActuatorWrapper.update, h]

/-- A. An error of the inner `update` is returned as is (whenever the inner update is reached). -/
theorem actuator_propagates_update_err (w : World F) (i : Nat) (acc : UpdRet) (e : Err)
    (hacc : w.getTerminalData i = none ∨ acc = .ok ()) :
    (ActuatorWrapper.update w i acc (.error e)).2 = (true, .error e) := by
  simp only [ActuatorWrapper.update]
  cases h : w.getTerminalData i with
  | none => rfl
  | some td =>
    rcases hacc with h' | h'
    · rw [h] at h'; exact absurd h' (by simp)
    · rw [h']

/-- A (summary): the three outcomes are exhaustive — the result is an error only if the inner `set` or the inner
`update` returned that error. -/
theorem actuator_error_only_from_inner (w : World F) (i : Nat) (acc iu : UpdRet) (e : Err)
    (h : (ActuatorWrapper.update w i acc iu).2.2 = .error e) : acc = .error e ∨ iu = .error e := by
  simp only [ActuatorWrapper.update] at h
  cases hd : w.getTerminalData i with
  | none => rw [hd] at h; right; exact h
  | some td =>
    rw [hd] at h
    cases acc with
    | error e' => left; simp only [] at h; rw [h]
    | ok u => right; exact h

/-! ### B. encoder wrapper (`GetterStateDeviceWrapper`) -/

/-- B. inner update fine, inner getter present: the datum is written unchanged into the terminal's own state slot -/
theorem encoder_writes_present (w : World F) (i : Nat) (d : Datum (State F)) :
    EncoderWrapper.update w i (.ok ()) (.ok (some d)) = (w.setState i d, .ok ()) := rfl

/-- B. … and that write makes the own state slot of `i` exactly `d` (same time, same value) and changes nothing else:
not the command slot or link of `i`, nor any other terminal, nor the number of terminals. -/
theorem encoder_write_effect (w : World F) (i : Nat) (d : Datum (State F)) :
    ((w.setState i d).t i).state = some d ∧ ((w.setState i d).t i).command = (w.t i).command ∧
    ((w.setState i d).t i).other = (w.t i).other ∧ (∀ j, j ≠ i → (w.setState i d).t j = w.t j) ∧
    (w.setState i d).n = w.n := by
  simp only [World.setState, World.setT]
  refine ⟨by simp, by simp, by simp, fun j hj => by simp [hj], trivial⟩

/-- B. getter absent: the terminal graph is untouched and the update succeeds -/
theorem encoder_absent_untouched (w : World F) (i : Nat) :
    EncoderWrapper.update w i (.ok ()) (.ok none) = (w, .ok ()) := rfl

/-- B. an error of the inner update is returned first (whatever the getter would say), an error of the inner getter
next; in both cases the terminal graph is untouched -/
theorem encoder_propagates_err (w : World F) (i : Nat) (e : Err) :
    (∀ g, EncoderWrapper.update w i (.error e) g = (w, .error e)) ∧
    EncoderWrapper.update w i (.ok ()) (.error e) = (w, .error e) :=
  ⟨fun _ => rfl, rfl⟩

/-- B (summary): the wrapper errs only with an error of its inner object, and touches the graph only in the
`encoder_writes_present` case -/
theorem encoder_error_only_from_inner (w : World F) (i : Nat) (iu : UpdRet) (g : Output (State F)) (e : Err)
    (h : (EncoderWrapper.update w i iu g).2 = .error e) :
    (iu = .error e ∨ g = .error e) ∧ (EncoderWrapper.update w i iu g).1 = w := by
  cases iu with
  | error e' => simp only [EncoderWrapper.update] at h ⊢; exact ⟨.inl h, trivial⟩
  | ok u =>
    cases g with
    | error e' => simp only [EncoderWrapper.update] at h ⊢; exact ⟨.inr (by cases h; rfl), trivial⟩
    | ok o =>
      cases o with
      | none => simp only [EncoderWrapper.update] at h; exact absurd h (by simp)
      | some d => simp only [EncoderWrapper.update] at h; exact absurd h (by simp)

/-! ### C. PID wrapper -/

/-- one update of the wrapper: the terminal graph at that moment and the motor's scripted answers -/
structure Round (F : Type) where
  w : World F
  acc : UpdRet
  iu : UpdRet

/-- what the wrapper's terminal `i` shows in a round -/
def Round.seen (i : Nat) (r : Round F) : Option (Datum (TerminalData F)) := r.w.getTerminalData i

/-- the wrapper after a list of rounds (any length) -/
def runWrapper (chk : Bool) (k : PIDK3 F) (i : Nat) (p : PidW F) : List (Round F) → PidW F
  | [] => p
  | r :: rs => runWrapper chk k i (PidW.update chk k p r.w i r.acc r.iu).1 rs

/-- what the motor is handed and what `update` returns, round by round -/
def wrapperOutputs (chk : Bool) (k : PIDK3 F) (i : Nat) (p : PidW F) : List (Round F) → List (Option F × UpdRet)
  | [] => []
  | r :: rs =>
    (PidW.update chk k p r.w i r.acc r.iu).2 :: wrapperOutputs chk k i (PidW.update chk k p r.w i r.acc r.iu).1 rs

/-- The stand-alone reference: a `CommandPID` `q` driven by hand, together with the last state and command it was
given (`s`, `c`; initially the constructor's).  A round in which the terminal shows nothing does not touch it; a round
with data steps it once with the command `⟨time, command⟩` followed and the state `⟨time, state⟩` as input, where a
missing state or command is the previous one. -/
def standStep (chk : Bool) (k : PIDK3 F) (x : CpidS F × State F × Command F)
    (seen : Option (Datum (TerminalData F))) : CpidS F × State F × Command F :=
  match seen with
  | none => x
  | some td =>
    let st := match td.value.state with | some s => s | none => x.2.1
    let cm := match td.value.command with | some c => c | none => x.2.2
    ((Cpid.step chk k x.1 (some (.ok (some ⟨td.value.time, cm⟩))) (.ok (some ⟨td.value.time, st⟩))).1, st, cm)

/-- the stand-alone reference after a list of terminal views -/
def standRun (chk : Bool) (k : PIDK3 F) (x : CpidS F × State F × Command F)
    (seens : List (Option (Datum (TerminalData F)))) : CpidS F × State F × Command F :=
  seens.foldl (standStep chk k) x

/-- the (time, state, command) triples fed to the PID: one per round WITH data, gaps filled with the previous value -/
def seenTriples (s : State F) (c : Command F) :
    List (Option (Datum (TerminalData F))) → List (Int × State F × Command F)
  | [] => []
  | none :: rest => seenTriples s c rest
  | some td :: rest =>
    let st := match td.value.state with | some s' => s' | none => s
    let cm := match td.value.command with | some c' => c' | none => c
    (td.value.time, st, cm) :: seenTriples st cm rest

/-- a stand-alone `CommandPID` stepped once per triple -/
def runCpid (chk : Bool) (k : PIDK3 F) (q : CpidS F) : List (Int × State F × Command F) → CpidS F
  | [] => q
  | (t, s, c) :: rest =>
    runCpid chk k (Cpid.step chk k q (some (.ok (some ⟨t, c⟩))) (.ok (some ⟨t, s⟩))).1 rest

/-- what a motor following a PID in state `q` is handed, and what its update returns: `Err` of the PID first; nothing
handed over if the PID has no output; otherwise the output value if the motor accepts it -/
def motorOut (q : CpidS F) (acc iu : UpdRet) : Option F × UpdRet :=
  match Cpid.get q with
  | .error e => (none, .error e)
  | .ok none => (none, iu)
  | .ok (some d) =>
    match acc with
    | .error e => (none, .error e)
    | .ok _ => (some d.value, iu)

/-- reference outputs: the stand-alone PID is stepped (if the round has data) and then the motor follows it -/
def standOutputs (chk : Bool) (k : PIDK3 F) (i : Nat) (x : CpidS F × State F × Command F) :
    List (Round F) → List (Option F × UpdRet)
  | [] => []
  | r :: rs =>
    motorOut (standStep chk k x (r.seen i)).1 r.acc r.iu :: standOutputs chk k i (standStep chk k x (r.seen i)) rs

/-- the wrapper's bookkeeping in one update, as a function of what the terminal shows -/
def pidwNext (chk : Bool) (k : PIDK3 F) (p : PidW F) (seen : Option (Datum (TerminalData F))) : PidW F :=
  match seen with
  | some td =>
    let time := td.value.time
    let st := match td.value.state with | some s => s | none => p.state
    let cm := match td.value.command with | some c => c | none => p.command
    let r := Cpid.step chk k p.pid (some (.ok (some ⟨time, cm⟩))) (.ok (some ⟨time, st⟩))
    ⟨time, st, cm, r.1⟩
  | none => p

/-- `PIDWrapper::update` = bookkeeping, then the motor follows the wrapper's PID -/
theorem pidw_update_eq (chk : Bool) (k : PIDK3 F) (p : PidW F) (w : World F) (i : Nat) (acc iu : UpdRet) :
    PidW.update chk k p w i acc iu =
      (pidwNext chk k p (w.getTerminalData i), motorOut (pidwNext chk k p (w.getTerminalData i)).pid acc iu) := by
  have h : PidW.update chk k p w i acc iu =
      (match Cpid.get (pidwNext chk k p (w.getTerminalData i)).pid with
        | .error e => (pidwNext chk k p (w.getTerminalData i), none, .error e)
        | .ok none => (pidwNext chk k p (w.getTerminalData i), none, iu)
        | .ok (some d) =>
          match acc with
          | .error e => (pidwNext chk k p (w.getTerminalData i), none, .error e)
          | .ok _ => (pidwNext chk k p (w.getTerminalData i), some d.value, iu)) := rfl
  rw [h]; simp only [motorOut]
  cases Cpid.get (pidwNext chk k p (w.getTerminalData i)).pid with
  | error e => rfl
  | ok o =>
    cases o with
    | none => rfl
    | some d => cases acc <;> rfl

theorem pidwNext_eq_standStep (chk : Bool) (k : PIDK3 F) (p : PidW F) (seen : Option (Datum (TerminalData F))) :
    ((pidwNext chk k p seen).pid, (pidwNext chk k p seen).state, (pidwNext chk k p seen).command) =
      standStep chk k (p.pid, p.state, p.command) seen := by
  cases seen <;> rfl

/-- one wrapper update = one step of the stand-alone reference (state side) -/
theorem pid_wrapper_step (chk : Bool) (k : PIDK3 F) (p : PidW F) (w : World F) (i : Nat) (acc iu : UpdRet) :
    let p1 := (PidW.update chk k p w i acc iu).1
    (p1.pid, p1.state, p1.command) = standStep chk k (p.pid, p.state, p.command) (w.getTerminalData i) ∧
    (∀ td, w.getTerminalData i = some td → p1.time = td.value.time) ∧
    (w.getTerminalData i = none → p1 = p) := by
  simp only [pidw_update_eq]
  refine ⟨pidwNext_eq_standStep _ _ _ _, fun td h => by rw [h]; rfl, fun h => by rw [h]; rfl⟩

/-- C (motor value, one round). The value handed to the motor in a round is `Cpid.get` of the stand-alone PID's state
after this round's step (no step if the terminal shows nothing) when that is `Ok(Some(_))` and the motor accepts —
nothing otherwise; the return value is the PID's cached error if it has one, else the motor's `set` error, else the
motor's own update result.  In particular with no terminal data the motor is still updated. -/
theorem pid_wrapper_motor_value (chk : Bool) (k : PIDK3 F) (p : PidW F) (w : World F) (i : Nat) (acc iu : UpdRet) :
    (PidW.update chk k p w i acc iu).2 =
      motorOut (standStep chk k (p.pid, p.state, p.command) (w.getTerminalData i)).1 acc iu := by
  rw [pidw_update_eq, ← pidwNext_eq_standStep]

/-- C (simulation, any number of rounds). After EVERY list of rounds the wrapper's PID, remembered state and remembered
command are exactly those of the stand-alone reference run on what the terminal showed. -/
theorem pid_wrapper_simulates_cpid (chk : Bool) (k : PIDK3 F) (i : Nat) (p : PidW F) (rounds : List (Round F)) :
    let p' := runWrapper chk k i p rounds
    (p'.pid, p'.state, p'.command) = standRun chk k (p.pid, p.state, p.command) (rounds.map (Round.seen i)) := by
  induction rounds generalizing p with
  | nil => rfl
  | cons r rs ih =>
    have h := (pid_wrapper_step chk k p r.w i r.acc r.iu).1
    simp only [runWrapper, standRun, List.map_cons, List.foldl_cons]
    have h' := ih (PidW.update chk k p r.w i r.acc r.iu).1
    simp only [standRun] at h'
    rw [h', h]; rfl

/-- C (outputs, any number of rounds). In every round the motor is handed exactly what a motor following the stand-alone
PID would be handed, and the wrapper returns what that motor's update would return. -/
theorem pid_wrapper_outputs_eq (chk : Bool) (k : PIDK3 F) (i : Nat) (p : PidW F) (rounds : List (Round F)) :
    wrapperOutputs chk k i p rounds = standOutputs chk k i (p.pid, p.state, p.command) rounds := by
  induction rounds generalizing p with
  | nil => rfl
  | cons r rs ih =>
    simp only [wrapperOutputs, standOutputs]
    rw [pid_wrapper_motor_value, ih, (pid_wrapper_step chk k p r.w i r.acc r.iu).1]
    rfl

/-- the reference's PID component is a plain `CommandPID` stepped once per (time, state, command) triple with data -/
theorem standRun_eq_runCpid (chk : Bool) (k : PIDK3 F) (q : CpidS F) (s : State F) (c : Command F)
    (seens : List (Option (Datum (TerminalData F)))) :
    (standRun chk k (q, s, c) seens).1 = runCpid chk k q (seenTriples s c seens) := by
  induction seens generalizing q s c with
  | nil => rfl
  | cons x xs ih =>
    cases x with
    | none => simp only [standRun, List.foldl_cons, standStep, seenTriples]; exact ih q s c
    | some td => simp only [standRun, List.foldl_cons, standStep, seenTriples, runCpid]; exact ih _ _ _

/-- C, as stated: a wrapper built by `PIDWrapper::new(_, t0, s0, c0, k)` and updated through ANY list of rounds holds
the PID state of a stand-alone `CommandPID::new(_, c0, k)` stepped once for each round WITH terminal data by
`step (follow = Ok(Some(⟨time, command⟩))) (input = Ok(Some(⟨time, state⟩)))`; rounds without data do not step it. -/
theorem pid_wrapper_simulates_cpid_from_new (chk : Bool) (k : PIDK3 F) (i : Nat) (t0 : Int) (s0 : State F)
    (c0 : Command F) (rounds : List (Round F)) :
    (runWrapper chk k i (PidW.init t0 s0 c0) rounds).pid =
      runCpid chk k (Cpid.init c0) (seenTriples s0 c0 (rounds.map (Round.seen i))) := by
  have h := pid_wrapper_simulates_cpid chk k i (PidW.init t0 s0 c0) rounds
  have h1 := congrArg Prod.fst h
  simp only at h1
  rw [h1]
  exact standRun_eq_runCpid chk k _ _ _ _

/-- the triples' times are the times the terminal data carry, in order; their number is the number of rounds with data -/
theorem seenTriples_times (s : State F) (c : Command F) (seens : List (Option (Datum (TerminalData F)))) :
    (seenTriples s c seens).map (·.1) = (seens.filterMap id).map (·.value.time) := by
  induction seens generalizing s c with
  | nil => rfl
  | cons x xs ih =>
    cases x with
    | none => simp only [seenTriples, List.filterMap_cons, id]; exact ih s c
    | some td => simp only [seenTriples, List.filterMap_cons, id, List.map_cons]; rw [ih]

/-! #### the wrapper's PID never holds an error -/

/-- stepping a `CommandPID` with a present command to follow and a present input state always succeeds and leaves it
with a cached sample — whatever it held before (so the model may drop this return value) -/
theorem cpid_step_present (chk : Bool) (k : PIDK3 F) (q : CpidS F) (dc : Datum (Command F)) (ds : Datum (State F)) :
    (Cpid.step chk k q (some (.ok (some dc))) (.ok (some ds))).2 = .ok () ∧
    ∃ u0, (Cpid.step chk k q (some (.ok (some dc))) (.ok (some ds))).1.us = .ok (some u0) ∧ u0.time = ds.time := by
  simp only [Cpid.step, Cpid.stepInput]
  split
  · split
    · exact ⟨rfl, _, rfl, rfl⟩
    · exact ⟨rfl, _, rfl, rfl⟩
  · exact ⟨rfl, _, rfl, rfl⟩

/-- `get` errs only on a cached error -/
theorem cpid_get_error_iff (q : CpidS F) (e : Err) : Cpid.get q = .error e ↔ q.us = .error e := by
  simp only [Cpid.get]
  cases hq : q.us with
  | error e' => simp
  | ok o =>
    cases o with
    | none => simp
    | some u0 =>
      simp only []
      cases q.command.kind with
      | position => simp
      | velocity => simp only []; split <;> simp
      | acceleration =>
        simp only []
        split
        · simp
        · split <;> simp

/-- a reference step keeps "no cached error" -/
theorem standStep_no_error (chk : Bool) (k : PIDK3 F) (x : CpidS F × State F × Command F)
    (seen : Option (Datum (TerminalData F))) (hx : ∀ e, x.1.us ≠ .error e) :
    ∀ e, (standStep chk k x seen).1.us ≠ .error e := by
  cases seen with
  | none => exact hx
  | some td =>
    intro e
    simp only [standStep]
    obtain ⟨_, u0, h, _⟩ := cpid_step_present chk k x.1
      ⟨td.value.time, match td.value.command with | some c => c | none => x.2.2⟩
      ⟨td.value.time, match td.value.state with | some s => s | none => x.2.1⟩
    rw [h]; simp

/-- the stand-alone PID, started fresh and fed only present inputs with a never-erring follower, never caches an error -/
theorem standRun_no_error (chk : Bool) (k : PIDK3 F) (x : CpidS F × State F × Command F)
    (seens : List (Option (Datum (TerminalData F)))) (hx : ∀ e, x.1.us ≠ .error e) :
    ∀ e, (standRun chk k x seens).1.us ≠ .error e := by
  induction seens generalizing x with
  | nil => exact hx
  | cons s ss ih =>
    simp only [standRun, List.foldl_cons]
    exact ih _ (standStep_no_error chk k x s hx)

/-- a freshly constructed wrapper holds no error … -/
theorem pidw_init_no_error (t0 : Int) (s0 : State F) (c0 : Command F) :
    ∀ e, (PidW.init t0 s0 c0 : PidW F).pid.us ≠ .error e := by
  intro e; simp [PidW.init, Cpid.init]

/-- … and never will: after any rounds its PID has no cached error -/
theorem pid_wrapper_pid_never_errs (chk : Bool) (k : PIDK3 F) (i : Nat) (p : PidW F) (rounds : List (Round F))
    (hp : ∀ e, p.pid.us ≠ .error e) : ∀ e, (runWrapper chk k i p rounds).pid.us ≠ .error e := by
  have h := congrArg Prod.fst (pid_wrapper_simulates_cpid chk k i p rounds)
  simp only at h
  rw [h]
  exact standRun_no_error chk k _ _ hp

/-- C (errors, one round). `PIDWrapper::update` returns an error only if the motor's `set` or the motor's own update
returned that error — provided the wrapper's PID holds no cached error, which `pid_wrapper_pid_never_errs` shows is
always the case.  Otherwise the result is the motor's own update result. -/
theorem pid_wrapper_error_only_from_motor (chk : Bool) (k : PIDK3 F) (p : PidW F) (w : World F) (i : Nat)
    (acc iu : UpdRet) (hp : ∀ e, p.pid.us ≠ .error e) :
    (PidW.update chk k p w i acc iu).2.2 = iu ∨
    ∃ e, acc = .error e ∧ (PidW.update chk k p w i acc iu).2.2 = .error e := by
  rw [pid_wrapper_motor_value]
  have hne := standStep_no_error chk k (p.pid, p.state, p.command) (w.getTerminalData i) hp
  simp only [motorOut]
  cases hg : Cpid.get (standStep chk k (p.pid, p.state, p.command) (w.getTerminalData i)).1 with
  | error e => exact absurd ((cpid_get_error_iff _ e).1 hg) (hne e)
  | ok o =>
    cases o with
    | none => left; rfl
    | some d =>
      cases acc with
      | error e => right; exact ⟨e, rfl, rfl⟩
      | ok u => left; rfl

/-- C (errors, any number of rounds): every return value of a wrapper built by `new` is the motor's update result or
the motor's `set` error -/
theorem pid_wrapper_outputs_errors (chk : Bool) (k : PIDK3 F) (i : Nat) (p : PidW F) (rounds : List (Round F))
    (hp : ∀ e, p.pid.us ≠ .error e) :
    ∀ r o, (r, o) ∈ rounds.zip (wrapperOutputs chk k i p rounds) →
      o.2 = r.iu ∨ ∃ e, r.acc = .error e ∧ o.2 = .error e := by
  induction rounds generalizing p with
  | nil => intro r o h; simp [wrapperOutputs] at h
  | cons r0 rs ih =>
    intro r o h
    simp only [wrapperOutputs, List.zip_cons_cons, List.mem_cons] at h
    rcases h with h | h
    · cases h
      exact pid_wrapper_error_only_from_motor chk k p _ i _ _ hp
    · exact ih _ (pid_wrapper_pid_never_errs chk k i p [r0] hp) r o h

/-- with no terminal data the PID is not stepped, the wrapper is unchanged, and the motor still follows and is updated -/
theorem pid_wrapper_no_data (chk : Bool) (k : PIDK3 F) (p : PidW F) (w : World F) (i : Nat) (acc iu : UpdRet)
    (h : w.getTerminalData i = none) :
    (PidW.update chk k p w i acc iu).1 = p ∧ (PidW.update chk k p w i acc iu).2 = motorOut p.pid acc iu := by
  refine ⟨(pid_wrapper_step chk k p w i acc iu).2.2 h, ?_⟩
  rw [pid_wrapper_motor_value, h]; rfl

end S
/-! ### non-vacuity: concrete instances over `Int` payloads -/
section Examples
/-- integers as a (law-free) scalar, for examples only -/
local instance : FloatLike Int := ⟨id, id, fun _ _ => 1, fun x => x.natAbs⟩

/-- terminal 0 (the wrapper's) holds a state, its partner 1 a command -/
def exW : World Int :=
  ((((World.empty.addTerms 2).setOther 0 (some 1)).setOther 1 (some 0)).setCommand 1 ⟨5, .position 30⟩).setState 0
    ⟨7, ⟨1, 2, 3⟩⟩
/-- nothing anywhere -/
def exW0 : World Int := World.empty.addTerms 2

example : exW.getTerminalData 0 = some ⟨7, ⟨7, some (.position 30), some ⟨1, 2, 3⟩⟩⟩ := by rfl
example : exW0.getTerminalData 0 = none := by rfl
-- `actuator_forwards_exactly`, `actuator_propagates_err`, `actuator_nothing_seen`, `actuator_propagates_update_err`
example : ActuatorWrapper.update exW 0 (.ok ()) (.ok ()) =
    (some ⟨7, some (.position 30), some ⟨1, 2, 3⟩⟩, true, .ok ()) :=
  actuator_forwards_exactly exW 0 _ _ (by rfl)
example : ActuatorWrapper.update exW 0 (.error (.other 4)) (.ok ()) = (none, false, .error (.other 4)) :=
  actuator_propagates_err exW 0 _ _ _ (by rfl)
example : ActuatorWrapper.update exW0 0 (.error (.other 4)) (.ok ()) = (none, true, .ok ()) :=
  actuator_nothing_seen exW0 0 _ _ (by rfl)
example : (ActuatorWrapper.update exW 0 (.ok ()) (.error (.other 9))).2 = (true, .error (.other 9)) :=
  actuator_propagates_update_err exW 0 _ _ (.inr rfl)
example : (ActuatorWrapper.update exW 0 (.ok ()) (.error (.other 9))).2.2 = .error (.other 9) := by rfl
-- `encoder_error_only_from_inner`
example : (EncoderWrapper.update exW 0 (.ok ()) (.error (.other 2))).2 = .error (.other 2) := by rfl

/-- three rounds: data, nothing, data; the motor rejects in the last one -/
def exRounds : List (Round Int) := [⟨exW, .ok (), .ok ()⟩, ⟨exW0, .ok (), .ok ()⟩, ⟨exW, .error (.other 1), .ok ()⟩]
def exK : PIDK3 Int := ⟨⟨2, 0, 0⟩, ⟨2, 0, 0⟩, ⟨2, 0, 0⟩⟩
/-- the wrapper hands the motor `kp * (30 - 1) = 58` in the first two rounds (the second without stepping the PID) and
nothing in the third, whose return is the motor's rejection -/
example : wrapperOutputs false exK 0 (PidW.init 0 ⟨0, 0, 0⟩ (.position 0)) exRounds =
    [(some 58, .ok ()), (some 58, .ok ()), (none, .error (.other 1))] := by rfl
example : seenTriples (⟨0, 0, 0⟩ : State Int) (.position 0) (exRounds.map (Round.seen 0)) =
    [(7, ⟨1, 2, 3⟩, .position 30), (7, ⟨1, 2, 3⟩, .position 30)] := by rfl
-- the hypothesis of `pid_wrapper_pid_never_errs` / `pid_wrapper_error_only_from_motor` holds for every `new` wrapper
example : ∀ e, (PidW.init 0 (⟨0, 0, 0⟩ : State Int) (.position 0)).pid.us ≠ .error e := pidw_init_no_error _ _ _
-- hypotheses of `terminalData_spec`, `pid_wrapper_no_data`
example : exW.getTerminalData 0 ≠ none ∧ exW0.getTerminalData 0 = none := ⟨by simp [show exW.getTerminalData 0 = some _ from rfl], rfl⟩
end Examples

end Rrtk.Thm.C20
