/-
C01 at real binary32 rounding: the tier-L theorems of `Thm/C01.lean` instantiated at the scalar type `SF` (finite binary32
numbers with correctly rounded `+ − * /`, `Rrtk/Thm/Lemmas/SoftScalar.lean`), with the scalar law they assume PROVED.
-/
import Rrtk.Thm.C01
import Rrtk.Thm.Lemmas.SoftScalar
import Rrtk.Thm.Lemmas.UnitI8
set_option linter.unusedSectionVars false
set_option linter.unusedSimpArgs false
namespace Rrtk.Thm.C01
open Rrtk Rrtk.Thm.SoftScalar

/-- `Time * Quantity` (written `rhs * self` in the source) is the converted product, in binary32.  Discharged: `hcomm`
(`mul_comm'`: correctly rounded multiplication commutes). -/
theorem time_mul_q_binary32 (chk : Bool) (t : Int) (q : Quantity SF) :
    Time.mulQ chk t q = Quantity.mul chk (Quantity.ofTime chk t) q :=
  time_mul_q chk t q mul_comm'

/-- `DimensionlessInteger * Quantity` likewise.  Discharged: `hcomm` (`mul_comm'`). -/
theorem dimint_mul_q_binary32 (chk : Bool) (n : Int) (q : Quantity SF) :
    DimInt.mulQ chk n q = Quantity.mul chk (Quantity.ofDimInt chk n) q :=
  dimint_mul_q chk n q mul_comm'

namespace Binary32Examples
/-- the product in question really rounds: `Time(3 ns) * (1/3 mm)`; `3 ns = 3e-9 s` is itself a rounded quotient -/
def q3 : Quantity SF := ⟨(c1 : SF) / c3, ⟨1, 0⟩⟩
example : (Time.mulQ true 3 q3).value.val = 281475 / 281474976710656 := by decide +kernel
example : (Time.mulQ true 3 q3).value.val ≠ (3 / 1000000000) * (1 / 3) := by decide +kernel
example : Time.mulQ true 3 q3 = Quantity.mul true (Quantity.ofTime true 3) q3 := time_mul_q_binary32 _ _ _
end Binary32Examples

end Rrtk.Thm.C01
