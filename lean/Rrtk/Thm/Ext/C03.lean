/-
C03 (extension) — the clauses of C03 that speak about the terminal getters, the device updates and the and/or streams,
stated about the model functions the driver runs: `World.getState`, `World.getCommand`, `World.getTerminalData`,
`Invert.update`, `GearTrain.update`, `Axle.update`, `Differential.update`, `Stream.andStream`, `Stream.orStream`.

Tier S throughout: timestamps are `Int`, the scalar type `F` is arbitrary and no law of arithmetic is used.
"Read at terminal i" is `w.getState i` / `w.getCommand i` on the world BEFORE the update; "slot" is the terminal's own
`(w'.t i).state` / `(w'.t i).command` in the world `w'` the update returns.  No distinctness of the device's terminals
is needed for any timestamp statement (where two of them coincide the later write wins and carries the same time).

One requested statement is false of the model as literally phrased, see `axle_state_time`: the axle's accumulator
starts at `i64::MIN`, so for (non-`i64`) reads older than that the written time is `i64::MIN`, not a read's time.
-/
import Rrtk.Thm.C03
import Rrtk.Devices
import Rrtk.Thm.C08
import Rrtk.Thm.C09
import Rrtk.Thm.C13
import Rrtk.Thm.Lemmas.IntScalar
set_option linter.unusedSectionVars false
set_option linter.unusedSimpArgs false
namespace Rrtk.Thm.C03
open Rrtk

section Terminals
variable {F : Type} [Add F] [Sub F] [Mul F] [Div F] [Neg F] [LT F] [LE F] [BEq F]
  [DecidableLT F] [DecidableLE F] [FloatLike F]

/-! ### terminal getters -/

/-- terminal state averaging (`impl Getter<State> for Terminal`): absent iff both the own and the partner's state are
absent; only one present ⇒ that datum itself (value and time unchanged); both present ⇒ the mean `(own + partner) / 2`
stamped with the later of the two times (the code's `if a.time ≥ b.time then a.time else b.time`). -/
theorem terminal_state_time (w : World F) (i : Nat) :
    (w.getState i = none ↔ (w.t i).state = none ∧ w.partnerState i = none) ∧
    (∀ a, (w.t i).state = some a → w.partnerState i = none → w.getState i = some a) ∧
    (∀ b, (w.t i).state = none → w.partnerState i = some b → w.getState i = some b) ∧
    (∀ a b, (w.t i).state = some a → w.partnerState i = some b →
      ∃ r, w.getState i = some r ∧ r.time = max a.time b.time ∧
        r.time = (if a.time ≥ b.time then a.time else b.time) ∧
        r.value = State.divF (State.add a.value b.value) c2) := by
  refine ⟨C09.state_read_none_iff w i, fun a ha hb => C09.state_read_own w i a ha hb,
    fun b ha hb => C09.state_read_partner w i b ha hb, fun a b ha hb => ?_⟩
  refine ⟨⟨max a.time b.time, State.divF (State.add a.value b.value) c2⟩, ?_, rfl,
    (C08.ite_ge_eq_max _ _).symm, rfl⟩
  rw [C09.state_read_eq, ha, hb]

/-- terminal command read (`impl Getter<Command> for Terminal`): absent iff both the own and the partner's command are
absent; otherwise the result IS the own or the partner's command and neither candidate is strictly newer than it. -/
theorem terminal_command_sel (w : World F) (i : Nat) :
    (w.getCommand i = none ↔ (w.t i).command = none ∧ w.partnerCommand i = none) ∧
    ∀ r, w.getCommand i = some r →
      ((w.t i).command = some r ∨ w.partnerCommand i = some r) ∧
      (∀ c, (w.t i).command = some c → c.time ≤ r.time) ∧
      (∀ g, w.partnerCommand i = some g → g.time ≤ r.time) := by
  obtain ⟨h1, h2⟩ := C09.command_read_eq w i
  refine ⟨h1, fun r hr => ?_⟩
  obtain ⟨a, b, c, -⟩ := h2 r hr
  exact ⟨a, b, c⟩

/-- combined read (`impl Getter<TerminalData> for Terminal`): absent iff neither a state nor a command is read; it
carries (in the datum's time and in the `TerminalData.time` field) the state read's time when there is a state read,
otherwise the command read's time. -/
theorem terminal_data_time (w : World F) (i : Nat) :
    (w.getTerminalData i = none ↔ w.getState i = none ∧ w.getCommand i = none) ∧
    (∀ s, w.getState i = some s →
      ∃ r, w.getTerminalData i = some r ∧ r.time = s.time ∧ r.value.time = s.time) ∧
    (w.getState i = none → ∀ c, w.getCommand i = some c →
      ∃ r, w.getTerminalData i = some r ∧ r.time = c.time ∧ r.value.time = c.time) := by
  rw [C09.combined_read_formula]
  cases w.getState i <;> cases w.getCommand i <;> simp

/-- the combined read's time in terms of the four slots it is computed from: with both states present it is the later
of the own and the partner's state time, whatever the commands' times are. -/
theorem terminal_data_time_both_states (w : World F) (i : Nat) (a b : Datum (State F))
    (ha : (w.t i).state = some a) (hb : w.partnerState i = some b) :
    ∃ r, w.getTerminalData i = some r ∧ r.time = max a.time b.time := by
  obtain ⟨s, hs, ht, -⟩ := (terminal_state_time w i).2.2.2 a b ha hb
  obtain ⟨r, hr, hrt, -⟩ := (terminal_data_time w i).2.1 s hs
  exact ⟨r, hr, by rw [hrt, ht]⟩

/-! ### device updates: state slots -/

/-- `Invert::update`, state slots.  No read ⇒ no state slot written; one read ⇒ exactly the other side's slot is
written, with the read's time; two reads ⇒ both slots are written, each with the later of the two reads' times;
every other state slot is untouched. -/
theorem invert_state_time (w : World F) (i1 i2 : Nat) :
    (w.getState i1 = none → w.getState i2 = none →
      ∀ j, ((Invert.update w i1 i2).t j).state = (w.t j).state) ∧
    (∀ d2, w.getState i1 = none → w.getState i2 = some d2 →
      (∃ d, ((Invert.update w i1 i2).t i1).state = some d ∧ d.time = d2.time) ∧
      ∀ j, j ≠ i1 → ((Invert.update w i1 i2).t j).state = (w.t j).state) ∧
    (∀ d1, w.getState i1 = some d1 → w.getState i2 = none →
      (∃ d, ((Invert.update w i1 i2).t i2).state = some d ∧ d.time = d1.time) ∧
      ∀ j, j ≠ i2 → ((Invert.update w i1 i2).t j).state = (w.t j).state) ∧
    (∀ d1 d2, w.getState i1 = some d1 → w.getState i2 = some d2 →
      (∃ d, ((Invert.update w i1 i2).t i1).state = some d ∧ d.time = max d1.time d2.time) ∧
      (∃ d, ((Invert.update w i1 i2).t i2).state = some d ∧ d.time = max d1.time d2.time) ∧
      ∀ j, j ≠ i1 → j ≠ i2 → ((Invert.update w i1 i2).t j).state = (w.t j).state) := by
  refine ⟨fun h1 h2 => (C08.invert_update_none w i1 i2 h1 h2).2, fun d2 h1 h2 => ?_, fun d1 h1 h2 => ?_,
    fun d1 d2 h1 h2 => ?_⟩
  · obtain ⟨-, ha, hb⟩ := C08.invert_update_one_right w i1 i2 d2 h1 h2
    exact ⟨⟨_, ha, rfl⟩, hb⟩
  · obtain ⟨-, ha, hb⟩ := C08.invert_update_one_left w i1 i2 d1 h1 h2
    exact ⟨⟨_, ha, rfl⟩, hb⟩
  · have h := C08.invert_update_cmdOnly w i1 i2
    have e : C08.invStates w i1 i2 =
        (w.setState i1 ⟨max d1.time d2.time, State.divF (State.sub d1.value d2.value) c2⟩).setState i2
          ⟨max d1.time d2.time, State.neg (State.divF (State.sub d1.value d2.value) c2)⟩ := by
      simp only [C08.invStates, h1, h2, C08.ite_ge_eq_max]
    rw [e] at h
    refine ⟨?_, ?_, ?_⟩
    · rw [h.2, C08.setState_slot, C08.setState_slot]
      by_cases hd : i1 = i2 <;> simp [hd]
    · rw [h.2, C08.setState_slot]; simp
    · intro j hj1 hj2; rw [h.2, C08.setState_slot, C08.setState_slot]; simp [hj1, hj2]

/-- `GearTrain::update`, state slots: same shape as the inverter (one read ⇒ the other side gets `read · ratio` resp.
`read / ratio` with the read's time; two reads ⇒ both slots, later time). -/
theorem gear_state_time (ratio : F) (w : World F) (i1 i2 : Nat) :
    (w.getState i1 = none → w.getState i2 = none →
      ∀ j, ((GearTrain.update ratio w i1 i2).t j).state = (w.t j).state) ∧
    (∀ d2, w.getState i1 = none → w.getState i2 = some d2 →
      (∃ d, ((GearTrain.update ratio w i1 i2).t i1).state = some d ∧ d.time = d2.time) ∧
      ∀ j, j ≠ i1 → ((GearTrain.update ratio w i1 i2).t j).state = (w.t j).state) ∧
    (∀ d1, w.getState i1 = some d1 → w.getState i2 = none →
      (∃ d, ((GearTrain.update ratio w i1 i2).t i2).state = some d ∧ d.time = d1.time) ∧
      ∀ j, j ≠ i2 → ((GearTrain.update ratio w i1 i2).t j).state = (w.t j).state) ∧
    (∀ d1 d2, w.getState i1 = some d1 → w.getState i2 = some d2 →
      (∃ d, ((GearTrain.update ratio w i1 i2).t i1).state = some d ∧ d.time = max d1.time d2.time) ∧
      (∃ d, ((GearTrain.update ratio w i1 i2).t i2).state = some d ∧ d.time = max d1.time d2.time) ∧
      ∀ j, j ≠ i1 → j ≠ i2 → ((GearTrain.update ratio w i1 i2).t j).state = (w.t j).state) := by
  refine ⟨fun h1 h2 => (C08.gear_update_none ratio w i1 i2 h1 h2).2, fun d2 h1 h2 => ?_, fun d1 h1 h2 => ?_,
    fun d1 d2 h1 h2 => ?_⟩
  · obtain ⟨-, ha, hb⟩ := C08.gear_update_one_right ratio w i1 i2 d2 h1 h2
    exact ⟨⟨_, ha, rfl⟩, hb⟩
  · obtain ⟨-, ha, hb⟩ := C08.gear_update_one_left ratio w i1 i2 d1 h1 h2
    exact ⟨⟨_, ha, rfl⟩, hb⟩
  · have h := C08.gear_update_cmdOnly ratio w i1 i2
    have e : C08.gearStates ratio w i1 i2 =
        (w.setState i1 ⟨max d1.time d2.time, C08.gearNew1 ratio d1.value d2.value⟩).setState i2
          ⟨max d1.time d2.time, C08.gearNew2 ratio d1.value d2.value⟩ := by
      simp only [C08.gearStates, h1, h2, C08.ite_ge_eq_max, C08.gearNew1, C08.gearNew2]
    rw [e] at h
    refine ⟨?_, ?_, ?_⟩
    · rw [h.2, C08.setState_slot, C08.setState_slot]
      by_cases hd : i1 = i2 <;> simp [hd]
    · rw [h.2, C08.setState_slot]; simp
    · intro j hj1 hj2; rw [h.2, C08.setState_slot, C08.setState_slot]; simp [hj1, hj2]

/-- a datum is among the present reads of the axle iff some terminal of the list reads it -/
theorem mem_presentReads (w : World F) (is : List Nat) (g : Datum (State F)) :
    g ∈ C08.presentReads w is ↔ ∃ k ∈ is, w.getState k = some g := by
  simp only [C08.presentReads, List.mem_filterMap]

/-- `Axle::update`, state slots, for a terminal list of any length.  No read ⇒ no state slot written.  Otherwise every
terminal of the axle gets a state with one common time `t`; no read is newer than `t`; and `t` is the time of one of
the reads — or, because the accumulator starts at `i64::MIN`, it is `i64::MIN` and every read is strictly older than
that (impossible for `i64` timestamps, possible for the model's unbounded `Int`: see the counterexample below and
`axle_state_time_newest`).  State slots outside the list are untouched. -/
theorem axle_state_time (w : World F) (is : List Nat) :
    ((∀ i ∈ is, w.getState i = none) → ∀ j, ((Axle.update w is).t j).state = (w.t j).state) ∧
    ((∃ i ∈ is, w.getState i ≠ none) →
      ∃ t : Int,
        (∀ i ∈ is, ∃ d, ((Axle.update w is).t i).state = some d ∧ d.time = t) ∧
        (∀ j, j ∉ is → ((Axle.update w is).t j).state = (w.t j).state) ∧
        (∀ k ∈ is, ∀ g, w.getState k = some g → g.time ≤ t) ∧
        ((∃ k ∈ is, ∃ g, w.getState k = some g ∧ t = g.time) ∨
          (t = -9223372036854775808 ∧
            ∀ k ∈ is, ∀ g, w.getState k = some g → g.time < -9223372036854775808))) := by
  refine ⟨fun h => (C08.axle_update_none w is h).2, fun h => ?_⟩
  obtain ⟨-, hb, hc⟩ := C08.axle_update_broadcast w is h
  obtain ⟨-, m2, m3⟩ := C08.maxTime_spec (C08.presentReads w is) C08.i64Min
  have hmin : C08.i64Min = -9223372036854775808 := rfl
  refine ⟨C08.maxTime C08.i64Min (C08.presentReads w is), fun i hi => ⟨_, hb i hi, rfl⟩, hc, ?_, ?_⟩
  · intro k hk g hg
    exact m2 g ((mem_presentReads w is g).2 ⟨k, hk, hg⟩)
  · rcases m3 with m3 | ⟨d, hd, m3⟩
    · by_cases hex : ∃ k ∈ is, ∃ g, w.getState k = some g ∧ g.time = C08.i64Min
      · obtain ⟨k, hk, g, hg, hgt⟩ := hex
        exact Or.inl ⟨k, hk, g, hg, by rw [m3, hgt]⟩
      · refine Or.inr ⟨by rw [m3, hmin], fun k hk g hg => ?_⟩
        have h1 := m2 g ((mem_presentReads w is g).2 ⟨k, hk, hg⟩)
        have h2 : g.time ≠ C08.i64Min := fun e => hex ⟨k, hk, g, hg, e⟩
        omega
    · obtain ⟨k, hk, hg⟩ := (mem_presentReads w is d).1 hd
      exact Or.inl ⟨k, hk, d, hg, m3⟩

/-- `Axle::update`, state slots, at `i64` timestamps (`hmin`: no read is older than `i64::MIN`, which holds of every
`i64`): every terminal of the axle gets a state whose time is the newest among the reads that had data — it is the
time of one of them and none is newer. -/
theorem axle_state_time_newest (w : World F) (is : List Nat) (h : ∃ i ∈ is, w.getState i ≠ none)
    (hmin : ∀ k ∈ is, ∀ g, w.getState k = some g → -9223372036854775808 ≤ g.time) :
    ∃ t : Int,
      (∀ i ∈ is, ∃ d, ((Axle.update w is).t i).state = some d ∧ d.time = t) ∧
      (∀ k ∈ is, ∀ g, w.getState k = some g → g.time ≤ t) ∧
      (∃ k ∈ is, ∃ g, w.getState k = some g ∧ t = g.time) := by
  obtain ⟨t, h1, -, h3, h4⟩ := (axle_state_time w is).2 h
  refine ⟨t, h1, h3, ?_⟩
  rcases h4 with h4 | ⟨-, h4⟩
  · exact h4
  · exfalso
    obtain ⟨i, hi, hne⟩ := h
    cases hg : w.getState i with
    | none => exact hne hg
    | some g =>
      have := h4 i hi g hg
      have := hmin i hi g hg
      omega

/-- `Differential::update` waits: in every mode, if one of the reads its formula uses is absent, the world is
returned unchanged (so no state slot is written). -/
theorem differential_waits (mode : Distrust) (w : World F) (i1 i2 isum : Nat)
    (h : ∃ i ∈ C08.trusted mode i1 i2 isum, w.getState i = none) :
    Differential.update mode w i1 i2 isum = w :=
  C08.diff_waits_for_trusted mode w i1 i2 isum h

/-- distrust side 1: only slot `i1` is written, stamped with the later of the two reads used (`sum`, `side2`). -/
theorem differential_side1_state_time (w : World F) (i1 i2 isum : Nat) (s b : Datum (State F))
    (hs : w.getState isum = some s) (h2 : w.getState i2 = some b) :
    (∃ d, ((Differential.update .side1 w i1 i2 isum).t i1).state = some d ∧ d.time = max s.time b.time) ∧
    ∀ j, j ≠ i1 → ((Differential.update .side1 w i1 i2 isum).t j).state = (w.t j).state := by
  obtain ⟨-, -, ha, hb⟩ := C08.diff_update_side1 w i1 i2 isum s b hs h2
  exact ⟨⟨_, ha, rfl⟩, hb⟩

/-- distrust side 2: only slot `i2` is written, stamped with the later of the two reads used (`sum`, `side1`). -/
theorem differential_side2_state_time (w : World F) (i1 i2 isum : Nat) (s a : Datum (State F))
    (hs : w.getState isum = some s) (h1 : w.getState i1 = some a) :
    (∃ d, ((Differential.update .side2 w i1 i2 isum).t i2).state = some d ∧ d.time = max s.time a.time) ∧
    ∀ j, j ≠ i2 → ((Differential.update .side2 w i1 i2 isum).t j).state = (w.t j).state := by
  obtain ⟨-, -, ha, hb⟩ := C08.diff_update_side2 w i1 i2 isum s a hs h1
  exact ⟨⟨_, ha, rfl⟩, hb⟩

/-- distrust sum: only slot `isum` is written, stamped with the later of the two reads used (`side1`, `side2`). -/
theorem differential_sum_state_time (w : World F) (i1 i2 isum : Nat) (a b : Datum (State F))
    (h1 : w.getState i1 = some a) (h2 : w.getState i2 = some b) :
    (∃ d, ((Differential.update .sum w i1 i2 isum).t isum).state = some d ∧ d.time = max a.time b.time) ∧
    ∀ j, j ≠ isum → ((Differential.update .sum w i1 i2 isum).t j).state = (w.t j).state := by
  obtain ⟨-, -, ha, hb⟩ := C08.diff_update_sum w i1 i2 isum a b h1 h2
  exact ⟨⟨_, ha, rfl⟩, hb⟩

/-- trust all three: all three slots are written, each stamped with the newest of the three reads; no distinctness of
the three terminals is needed for the timestamps. -/
theorem differential_equal_state_time (w : World F) (i1 i2 isum : Nat) (a b s : Datum (State F))
    (h1 : w.getState i1 = some a) (h2 : w.getState i2 = some b) (hs : w.getState isum = some s) :
    (∃ d, ((Differential.update .equal w i1 i2 isum).t i1).state = some d ∧
      d.time = max (max a.time b.time) s.time) ∧
    (∃ d, ((Differential.update .equal w i1 i2 isum).t i2).state = some d ∧
      d.time = max (max a.time b.time) s.time) ∧
    (∃ d, ((Differential.update .equal w i1 i2 isum).t isum).state = some d ∧
      d.time = max (max a.time b.time) s.time) ∧
    ∀ j, j ≠ i1 → j ≠ i2 → j ≠ isum →
      ((Differential.update .equal w i1 i2 isum).t j).state = (w.t j).state := by
  have e1 : Datum.scalar State.divF (Datum.combine State.add (Datum.combine State.add a b)
      (Datum.scalar State.mulF s (c2 : F))) (c3 : F)
      = ⟨max (max a.time b.time) s.time, C08.eqNewSum a.value b.value s.value⟩ :=
    C08.datum_eq _ _ _ (by simp only [C08.scalar_time, C08.combine_time, C08.map_time]) rfl
  have e2 : Datum.scalar State.divF (Datum.combine State.add (Datum.combine State.sub
      (Datum.scalar State.mulF a (c2 : F)) b) s) (c3 : F)
      = ⟨max (max a.time b.time) s.time, C08.eqNew1 a.value b.value s.value⟩ :=
    C08.datum_eq _ _ _ (by simp only [C08.scalar_time, C08.combine_time, C08.map_time]) rfl
  have e3 : Datum.scalar State.divF (Datum.combine State.add (Datum.combine State.add
      (Datum.map State.neg a) (Datum.scalar State.mulF b (c2 : F))) s) (c3 : F)
      = ⟨max (max a.time b.time) s.time, C08.eqNew2 a.value b.value s.value⟩ :=
    C08.datum_eq _ _ _ (by simp only [C08.scalar_time, C08.combine_time, C08.map_time]) rfl
  have e : Differential.update .equal w i1 i2 isum
      = ((w.setState isum ⟨max (max a.time b.time) s.time, C08.eqNewSum a.value b.value s.value⟩).setState i1
          ⟨max (max a.time b.time) s.time, C08.eqNew1 a.value b.value s.value⟩).setState i2
          ⟨max (max a.time b.time) s.time, C08.eqNew2 a.value b.value s.value⟩ := by
    simp only [Differential.update, h1, h2, hs, e1, e2, e3]
  rw [e]
  refine ⟨?_, ?_, ?_, ?_⟩
  · rw [C08.setState_slot, C08.setState_slot]
    by_cases h12 : i1 = i2 <;> simp [h12]
  · rw [C08.setState_slot]; simp
  · rw [C08.setState_slot, C08.setState_slot, C08.setState_slot]
    repeat' split
    all_goals first | contradiction | simp
  · intro j hj1 hj2 hjs
    rw [C08.setState_slot, C08.setState_slot, C08.setState_slot]; simp [hj1, hj2, hjs]

/-- `Differential::update`, all four modes, every state slot: a slot is either left as it was or holds a datum whose
time is the newest among the reads the mode's formula uses (`C08.trusted mode`) — every such read is present and not
newer, and one of them has exactly that time. -/
theorem differential_state_time (mode : Distrust) (w : World F) (i1 i2 isum j : Nat) :
    ((Differential.update mode w i1 i2 isum).t j).state = (w.t j).state ∨
    ∃ d, ((Differential.update mode w i1 i2 isum).t j).state = some d ∧
      (∀ i ∈ C08.trusted mode i1 i2 isum, ∃ g, w.getState i = some g ∧ g.time ≤ d.time) ∧
      (∃ i ∈ C08.trusted mode i1 i2 isum, ∃ g, w.getState i = some g ∧ d.time = g.time) := by
  by_cases hall : ∃ i ∈ C08.trusted mode i1 i2 isum, w.getState i = none
  · left; rw [differential_waits mode w i1 i2 isum hall]
  · have hpres : ∀ i ∈ C08.trusted mode i1 i2 isum, ∃ g, w.getState i = some g := by
      intro i hi
      cases hg : w.getState i with
      | none => exact absurd ⟨i, hi, hg⟩ hall
      | some g => exact ⟨g, rfl⟩
    cases mode with
    | side1 =>
      obtain ⟨s, hs⟩ := hpres isum (by simp [C08.trusted])
      obtain ⟨b, h2⟩ := hpres i2 (by simp [C08.trusted])
      obtain ⟨⟨d, hd, ht⟩, hne⟩ := differential_side1_state_time w i1 i2 isum s b hs h2
      by_cases hj : j = i1
      · right; subst hj
        refine ⟨d, hd, ?_, ?_⟩
        · intro i hi
          simp only [C08.trusted, List.mem_cons, List.not_mem_nil, or_false] at hi
          rcases hi with rfl | rfl
          · exact ⟨s, hs, by omega⟩
          · exact ⟨b, h2, by omega⟩
        · by_cases hle : s.time ≥ b.time
          · exact ⟨isum, by simp [C08.trusted], s, hs, by omega⟩
          · exact ⟨i2, by simp [C08.trusted], b, h2, by omega⟩
      · left; exact hne j hj
    | side2 =>
      obtain ⟨s, hs⟩ := hpres isum (by simp [C08.trusted])
      obtain ⟨a, h1⟩ := hpres i1 (by simp [C08.trusted])
      obtain ⟨⟨d, hd, ht⟩, hne⟩ := differential_side2_state_time w i1 i2 isum s a hs h1
      by_cases hj : j = i2
      · right; subst hj
        refine ⟨d, hd, ?_, ?_⟩
        · intro i hi
          simp only [C08.trusted, List.mem_cons, List.not_mem_nil, or_false] at hi
          rcases hi with rfl | rfl
          · exact ⟨s, hs, by omega⟩
          · exact ⟨a, h1, by omega⟩
        · by_cases hle : s.time ≥ a.time
          · exact ⟨isum, by simp [C08.trusted], s, hs, by omega⟩
          · exact ⟨i1, by simp [C08.trusted], a, h1, by omega⟩
      · left; exact hne j hj
    | sum =>
      obtain ⟨a, h1⟩ := hpres i1 (by simp [C08.trusted])
      obtain ⟨b, h2⟩ := hpres i2 (by simp [C08.trusted])
      obtain ⟨⟨d, hd, ht⟩, hne⟩ := differential_sum_state_time w i1 i2 isum a b h1 h2
      by_cases hj : j = isum
      · right; subst hj
        refine ⟨d, hd, ?_, ?_⟩
        · intro i hi
          simp only [C08.trusted, List.mem_cons, List.not_mem_nil, or_false] at hi
          rcases hi with rfl | rfl
          · exact ⟨a, h1, by omega⟩
          · exact ⟨b, h2, by omega⟩
        · by_cases hle : a.time ≥ b.time
          · exact ⟨i1, by simp [C08.trusted], a, h1, by omega⟩
          · exact ⟨i2, by simp [C08.trusted], b, h2, by omega⟩
      · left; exact hne j hj
    | equal =>
      obtain ⟨s, hs⟩ := hpres isum (by simp [C08.trusted])
      obtain ⟨a, h1⟩ := hpres i1 (by simp [C08.trusted])
      obtain ⟨b, h2⟩ := hpres i2 (by simp [C08.trusted])
      obtain ⟨⟨d1, hd1, ht1⟩, ⟨d2, hd2, ht2⟩, ⟨ds, hds, hts⟩, hne⟩ :=
        differential_equal_state_time w i1 i2 isum a b s h1 h2 hs
      -- any datum stamped with the newest of the three reads qualifies
      have key : ∀ d : Datum (State F), d.time = max (max a.time b.time) s.time →
          (∀ i ∈ C08.trusted .equal i1 i2 isum, ∃ g, w.getState i = some g ∧ g.time ≤ d.time) ∧
          (∃ i ∈ C08.trusted .equal i1 i2 isum, ∃ g, w.getState i = some g ∧ d.time = g.time) := by
        intro d ht
        refine ⟨?_, ?_⟩
        · intro i hi
          simp only [C08.trusted, List.mem_cons, List.not_mem_nil, or_false] at hi
          rcases hi with rfl | rfl | rfl
          · exact ⟨s, hs, by omega⟩
          · exact ⟨a, h1, by omega⟩
          · exact ⟨b, h2, by omega⟩
        · by_cases hsm : s.time ≥ a.time ∧ s.time ≥ b.time
          · exact ⟨isum, by simp [C08.trusted], s, hs, by omega⟩
          · by_cases hle : a.time ≥ b.time
            · exact ⟨i1, by simp [C08.trusted], a, h1, by omega⟩
            · exact ⟨i2, by simp [C08.trusted], b, h2, by omega⟩
      by_cases hj1 : j = i1
      · right; subst hj1; exact ⟨d1, hd1, key d1 ht1⟩
      · by_cases hj2 : j = i2
        · right; subst hj2; exact ⟨d2, hd2, key d2 ht2⟩
        · by_cases hjs : j = isum
          · right; subst hjs; exact ⟨ds, hds, key ds hts⟩
          · left; exact hne j hj1 hj2 hjs

/-! ### device updates: command slots -/

/-- `Invert::update`, command slots.  No command read at either terminal ⇒ no command slot changes.  Otherwise both
terminals' command slots are written with data of one common time `t`, which is the time of one of the two command
reads, and neither read is strictly newer.  Command slots of other terminals are never touched. -/
theorem invert_command_time (w : World F) (i1 i2 : Nat) :
    (w.getCommand i1 = none → w.getCommand i2 = none →
      ∀ j, ((Invert.update w i1 i2).t j).command = (w.t j).command) ∧
    ((w.getCommand i1 ≠ none ∨ w.getCommand i2 ≠ none) →
      ∃ t : Int,
        (∃ d, ((Invert.update w i1 i2).t i1).command = some d ∧ d.time = t) ∧
        (∃ d, ((Invert.update w i1 i2).t i2).command = some d ∧ d.time = t) ∧
        ((∃ c, w.getCommand i1 = some c ∧ c.time = t) ∨ (∃ c, w.getCommand i2 = some c ∧ c.time = t)) ∧
        (∀ c, w.getCommand i1 = some c → c.time ≤ t) ∧ (∀ c, w.getCommand i2 = some c → c.time ≤ t)) ∧
    (∀ j, j ≠ i1 → j ≠ i2 → ((Invert.update w i1 i2).t j).command = (w.t j).command) := by
  have hs := C13.invert_state_phase_sameCmds w i1 i2
  have hw' : Invert.update w i1 i2 = _ := C13.invertCmdPhase_eq (C13.invertStatePhase w i1 i2) i1 i2
  rw [hs.getCommand i1, hs.getCommand i2] at hw'
  cases hwin : C13.invertWinner (w.getCommand i1) (w.getCommand i2) with
  | none =>
    rw [hwin] at hw'
    have hw'' : Invert.update w i1 i2 = C13.invertStatePhase w i1 i2 := hw'
    rw [hw'']
    have hn := (C13.invertWinner_none_iff _ _).1 hwin
    refine ⟨fun _ _ j => (hs j).1, fun h => ?_, fun j _ _ => (hs j).1⟩
    rcases h with h | h
    · exact absurd hn.1 h
    · exact absurd hn.2 h
  | some dc =>
    rw [hwin] at hw'
    have hw'' : Invert.update w i1 i2 =
        ((C13.invertStatePhase w i1 i2).setCommand i1 dc).setCommand i2 (Datum.map Command.neg dc) := hw'
    rw [hw'']
    refine ⟨fun h1 h2 => ?_, fun _ => ⟨dc.time, ?_, ?_, ?_, ?_⟩, fun j hj1 hj2 => ?_⟩
    · have := (C13.invertWinner_none_iff (w.getCommand i1) (w.getCommand i2)).2 ⟨h1, h2⟩
      rw [this] at hwin; cases hwin
    · by_cases h12 : i1 = i2
      · subst h12
        exact ⟨_, C13.setCommand_command_self _ _ _, rfl⟩
      · exact ⟨dc, by rw [C13.setCommand_command_ne _ _ _ _ h12, C13.setCommand_command_self], rfl⟩
    · exact ⟨_, C13.setCommand_command_self _ _ _, rfl⟩
    · rcases C13.invertWinner_mem _ _ dc hwin with h | ⟨b, hb, hdc⟩
      · exact Or.inl ⟨dc, h, rfl⟩
      · exact Or.inr ⟨b, hb, by rw [hdc]; rfl⟩
    · exact C13.invertWinner_newest _ _ dc hwin
    · rw [C13.setCommand_command_ne _ _ _ _ hj2, C13.setCommand_command_ne _ _ _ _ hj1]; exact (hs j).1

/-- `GearTrain::update`, command slots.  No command read at either terminal ⇒ no command slot changes.  Otherwise
exactly one command slot is written — terminal `k`, one of the two — with a datum of time `t`, which is the time of one
of the two command reads, and neither read is strictly newer; every other command slot is untouched. -/
theorem gear_command_time (ratio : F) (w : World F) (i1 i2 : Nat) :
    (w.getCommand i1 = none → w.getCommand i2 = none →
      ∀ j, ((GearTrain.update ratio w i1 i2).t j).command = (w.t j).command) ∧
    ((w.getCommand i1 ≠ none ∨ w.getCommand i2 ≠ none) →
      ∃ (k : Nat) (t : Int), (k = i1 ∨ k = i2) ∧
        (∃ d, ((GearTrain.update ratio w i1 i2).t k).command = some d ∧ d.time = t) ∧
        (∀ j, j ≠ k → ((GearTrain.update ratio w i1 i2).t j).command = (w.t j).command) ∧
        ((∃ c, w.getCommand i1 = some c ∧ c.time = t) ∨ (∃ c, w.getCommand i2 = some c ∧ c.time = t)) ∧
        (∀ c, w.getCommand i1 = some c → c.time ≤ t) ∧ (∀ c, w.getCommand i2 = some c → c.time ≤ t)) := by
  obtain ⟨-, hnone, hw1, hw2⟩ := C13.gear_relays_newest_slots ratio w i1 i2
  refine ⟨fun h1 h2 => hnone h1 h2, fun h => ?_⟩
  cases hc1 : w.getCommand i1 with
  | none =>
    cases hc2 : w.getCommand i2 with
    | none => rcases h with h | h <;> [exact absurd hc1 h; exact absurd hc2 h]
    | some b =>
      obtain ⟨hself, hne⟩ := hw2 b hc2 (by rw [hc1]; rfl)
      refine ⟨i1, b.time, Or.inl rfl, ⟨_, hself, rfl⟩, hne, Or.inr ⟨b, rfl, rfl⟩, ?_, ?_⟩
      · intro c hc; cases hc
      · intro c hc; cases hc; exact Int.le_refl _
  | some a =>
    cases hc2 : w.getCommand i2 with
    | none =>
      obtain ⟨hself, hne⟩ := hw1 a hc1 (by rw [hc1, hc2]; rfl)
      refine ⟨i2, a.time, Or.inr rfl, ⟨_, hself, rfl⟩, hne, Or.inl ⟨a, rfl, rfl⟩, ?_, ?_⟩
      · intro c hc; cases hc; exact Int.le_refl _
      · intro c hc; cases hc
    | some b =>
      by_cases ht : a.time ≥ b.time
      · obtain ⟨hself, hne⟩ := hw1 a hc1 (by rw [hc1, hc2]; simp [C13.gearSide1Wins, ht])
        refine ⟨i2, a.time, Or.inr rfl, ⟨_, hself, rfl⟩, hne, Or.inl ⟨a, rfl, rfl⟩, ?_, ?_⟩
        · intro c hc; cases hc; exact Int.le_refl _
        · intro c hc; cases hc; exact ht
      · obtain ⟨hself, hne⟩ := hw2 b hc2 (by rw [hc1, hc2]; simp [C13.gearSide1Wins, ht])
        refine ⟨i1, b.time, Or.inl rfl, ⟨_, hself, rfl⟩, hne, Or.inr ⟨b, rfl, rfl⟩, ?_, ?_⟩
        · intro c hc; cases hc; omega
        · intro c hc; cases hc; exact Int.le_refl _

/-- `Axle::update`, command slots, for a terminal list of any length.  No command read at any terminal ⇒ no command
slot changes.  Otherwise every terminal of the axle gets the same datum `dc` in its command slot, `dc` IS one of the
command reads (so its time is a candidate's time) and no command read is strictly newer.  Command slots outside the
list are untouched. -/
theorem axle_command_time (w : World F) (is : List Nat) :
    ((∀ i ∈ is, w.getCommand i = none) → ∀ j, ((Axle.update w is).t j).command = (w.t j).command) ∧
    ((∃ i ∈ is, w.getCommand i ≠ none) →
      ∃ dc : Datum (Command F),
        (∀ j ∈ is, ((Axle.update w is).t j).command = some dc) ∧
        (∃ k ∈ is, w.getCommand k = some dc) ∧
        (∀ k ∈ is, ∀ c, w.getCommand k = some c → c.time ≤ dc.time)) ∧
    (∀ j, j ∉ is → ((Axle.update w is).t j).command = (w.t j).command) := by
  obtain ⟨-, hne, hnone, hsome⟩ := C13.axle_relays_newest_slots w is
  refine ⟨fun h => hnone ((C13.newestOf_spec _).1.2 ?_), fun h => ?_, hne⟩
  · intro r hr
    obtain ⟨i, hi, rfl⟩ := List.mem_map.1 hr
    exact h i hi
  · cases hm : C13.newestOf (is.map w.getCommand) with
    | none =>
      exfalso
      obtain ⟨i, hi, hn⟩ := h
      exact hn ((C13.newestOf_spec _).1.1 hm _ (List.mem_map.2 ⟨i, hi, rfl⟩))
    | some dc =>
      obtain ⟨hmem, hmax⟩ := C13.newestOf_max _ dc hm
      obtain ⟨k, hk, hkd⟩ := List.mem_map.1 hmem
      exact ⟨dc, fun j hj => hsome dc hm j hj, ⟨k, hk, hkd⟩,
        fun k hk c hc => hmax c (List.mem_map.2 ⟨k, hk, hc⟩)⟩

end Terminals

/-! ### and / or streams -/

/-- the timestamp bookkeeping of the logic streams yields the newest among the present inputs -/
theorem logicTime_spec (g1 g2 : Option (Datum Bool)) (t : Int) :
    Stream.logicTime g1 g2 = some t →
    match g1, g2 with
    | some x, some y => t = max x.time y.time
    | some x, none => t = x.time
    | none, some y => t = y.time
    | none, none => False := by
  intro h
  rw [logicTime_max] at h
  cases g1 <;> cases g2 <;> simp only [Option.some.injEq, reduceCtorEq] at h ⊢ <;> omega

/-- `AndStream::get` on the stream function itself: a present result means neither input erred, and its time is the
newest among the inputs that were present (both ⇒ the later one; one ⇒ that one; none present ⇒ no result). -/
theorem and_stream_time (a b : Output Bool) (r : Datum Bool) (h : Stream.andStream a b = .ok (some r)) :
    ∃ g1 g2, a = .ok g1 ∧ b = .ok g2 ∧
      match g1, g2 with
      | some x, some y => r.time = max x.time y.time
      | some x, none => r.time = x.time
      | none, some y => r.time = y.time
      | none, none => False := by
  cases a with
  | error e => simp [Stream.andStream] at h
  | ok g1 =>
    cases b with
    | error e => simp [Stream.andStream] at h
    | ok g2 =>
      refine ⟨g1, g2, rfl, rfl, logicTime_spec g1 g2 r.time ?_⟩
      simp only [Stream.andStream] at h
      cases hl : Stream.logicTime g1 g2 with
      | none => rw [hl] at h; simp at h
      | some t =>
        rw [hl] at h
        simp only [] at h
        split at h <;> simp at h <;> rw [← h]

/-- `OrStream::get` on the stream function itself: same timestamp rule as `and_stream_time`. -/
theorem or_stream_time (a b : Output Bool) (r : Datum Bool) (h : Stream.orStream a b = .ok (some r)) :
    ∃ g1 g2, a = .ok g1 ∧ b = .ok g2 ∧
      match g1, g2 with
      | some x, some y => r.time = max x.time y.time
      | some x, none => r.time = x.time
      | none, some y => r.time = y.time
      | none, none => False := by
  cases a with
  | error e => simp [Stream.orStream] at h
  | ok g1 =>
    cases b with
    | error e => simp [Stream.orStream] at h
    | ok g2 =>
      refine ⟨g1, g2, rfl, rfl, logicTime_spec g1 g2 r.time ?_⟩
      simp only [Stream.orStream] at h
      cases hl : Stream.logicTime g1 g2 with
      | none => rw [hl] at h; simp at h
      | some t =>
        rw [hl] at h
        simp only [] at h
        split at h <;> simp at h <;> rw [← h]

/-! ### non-vacuity: concrete instances (payload type `Int`, scalar instance of `Lemmas/IntScalar.lean`) -/
section Examples

/-- terminals `0`–`1` linked (states at times 5 and 9, commands both at time 7: a tie); `2` holds a state at time 4 and
no command; `3` holds only a command at time 11; `4` is empty; `5` holds a state at time 9 and a command at time 2 -/
def exT : World Int := ⟨6, fun
  | 0 => ⟨some ⟨5, ⟨10, 20, 30⟩⟩, some ⟨7, .velocity 3⟩, some 1⟩
  | 1 => ⟨some ⟨9, ⟨30, 40, 50⟩⟩, some ⟨7, .position 8⟩, some 0⟩
  | 2 => ⟨some ⟨4, ⟨1, 2, 3⟩⟩, none, none⟩
  | 3 => ⟨none, some ⟨11, .position 2⟩, none⟩
  | 4 => ⟨none, none, none⟩
  | 5 => ⟨some ⟨9, ⟨7, 8, 9⟩⟩, some ⟨2, .acceleration 1⟩, none⟩
  | _ => World.freshTerm⟩

-- `terminal_state_time`: all four presence patterns occur
example : (exT.t 0).state = some ⟨5, ⟨10, 20, 30⟩⟩ ∧ exT.partnerState 0 = some ⟨9, ⟨30, 40, 50⟩⟩ ∧
    exT.getState 0 = some ⟨9, ⟨20, 30, 40⟩⟩ := ⟨rfl, rfl, rfl⟩
example : (exT.t 2).state = some ⟨4, ⟨1, 2, 3⟩⟩ ∧ exT.partnerState 2 = none ∧
    exT.getState 2 = some ⟨4, ⟨1, 2, 3⟩⟩ := ⟨rfl, rfl, rfl⟩
example : (exT.t 4).state = none ∧ exT.partnerState 4 = none ∧ exT.getState 4 = none := ⟨rfl, rfl, rfl⟩
example : ((exT.setOther 4 (some 2)).t 4).state = none ∧
    (exT.setOther 4 (some 2)).partnerState 4 = some ⟨4, ⟨1, 2, 3⟩⟩ ∧
    (exT.setOther 4 (some 2)).getState 4 = some ⟨4, ⟨1, 2, 3⟩⟩ := ⟨rfl, rfl, rfl⟩
-- `terminal_command_sel`: a tie (own wins), and an absent read
example : exT.getCommand 0 = some ⟨7, .velocity 3⟩ ∧ exT.getCommand 1 = some ⟨7, .position 8⟩ ∧
    exT.getCommand 4 = none := ⟨rfl, rfl, rfl⟩
-- `terminal_data_time`: the state's time (9) although the command is older (7) resp. the command's time without a state
example : (exT.getTerminalData 0).map (·.time) = some 9 ∧ (exT.getTerminalData 3).map (·.time) = some 11 ∧
    (exT.getTerminalData 5).map (·.time) = some 9 := ⟨rfl, rfl, rfl⟩
example : exT.getState 3 = none ∧ exT.getCommand 3 = some ⟨11, .position 2⟩ := ⟨rfl, rfl⟩

-- `invert_state_time` / `gear_state_time`: one read (time 4), two reads (times 9 and 4 ⇒ 9), no read
example : exT.getState 2 = some ⟨4, ⟨1, 2, 3⟩⟩ ∧ exT.getState 4 = none ∧
    ((Invert.update exT 2 4).t 4).state = some ⟨4, ⟨-1, -2, -3⟩⟩ ∧
    ((Invert.update exT 4 2).t 4).state = some ⟨4, ⟨-1, -2, -3⟩⟩ := ⟨rfl, rfl, rfl, rfl⟩
example : exT.getState 5 = some ⟨9, ⟨7, 8, 9⟩⟩ ∧
    ((Invert.update exT 5 2).t 5).state = some ⟨9, ⟨3, 3, 3⟩⟩ ∧
    ((Invert.update exT 5 2).t 2).state = some ⟨9, ⟨-3, -3, -3⟩⟩ := ⟨rfl, rfl, rfl⟩
example : exT.getState 3 = none ∧ exT.getState 4 = none := ⟨rfl, rfl⟩
example : ((GearTrain.update 2 exT 2 4).t 4).state = some ⟨4, ⟨2, 4, 6⟩⟩ ∧
    ((GearTrain.update 2 exT 4 2).t 4).state = some ⟨4, ⟨0, 1, 1⟩⟩ := ⟨rfl, rfl⟩
example : (((GearTrain.update 2 exT 5 2).t 5).state).map (·.time) = some 9 ∧
    (((GearTrain.update 2 exT 5 2).t 2).state).map (·.time) = some 9 := ⟨rfl, rfl⟩
-- the timestamp statements need no distinctness: the same terminal on both sides
example : (((Invert.update exT 2 2).t 2).state).map (·.time) = some 4 := rfl

-- `axle_state_time(_newest)`: reads at times 4 and 9 and two terminals without data ⇒ everyone gets time 9
example : (∃ i ∈ [2, 4, 5, 3], exT.getState i ≠ none) ∧
    (∀ k ∈ [2, 4, 5, 3], ∀ g, exT.getState k = some g → -9223372036854775808 ≤ g.time) := by
  refine ⟨⟨2, by decide, by decide⟩, fun k hk g hg => ?_⟩
  simp only [List.mem_cons, List.mem_nil_iff, or_false] at hk
  rcases hk with rfl | rfl | rfl | rfl
  · have e : exT.getState 2 = some ⟨4, ⟨1, 2, 3⟩⟩ := rfl
    rw [e] at hg; cases hg; decide
  · have e : exT.getState 4 = none := rfl
    rw [e] at hg; cases hg
  · have e : exT.getState 5 = some ⟨9, ⟨7, 8, 9⟩⟩ := rfl
    rw [e] at hg; cases hg; decide
  · have e : exT.getState 3 = none := rfl
    rw [e] at hg; cases hg
example : ((Axle.update exT [2, 4, 5, 3]).t 4).state = some ⟨9, ⟨4, 5, 6⟩⟩ ∧
    ((Axle.update exT [2, 4, 5, 3]).t 2).state = some ⟨9, ⟨4, 5, 6⟩⟩ := ⟨rfl, rfl⟩
example : ∀ i ∈ [3, 4], exT.getState i = none := by decide

/-- COUNTEREXAMPLE to "the axle's written time is the max over the reads with data" for the model's unbounded `Int`
timestamps: a single read one tick older than `i64::MIN` — the written time is `i64::MIN` (the accumulator's start),
which is the time of no read.  Not reachable in the crate (`Time` is an `i64`); with `hmin` the statement holds
(`axle_state_time_newest`). -/
def exLow : World Int := ⟨1, fun
  | 0 => ⟨some ⟨-9223372036854775809, ⟨6, 6, 6⟩⟩, none, none⟩
  | _ => World.freshTerm⟩
example : exLow.getState 0 = some ⟨-9223372036854775809, ⟨6, 6, 6⟩⟩ ∧
    ((Axle.update exLow [0]).t 0).state = some ⟨-9223372036854775808, ⟨6, 6, 6⟩⟩ := ⟨rfl, rfl⟩

-- differential: reads `side1`@4 (terminal 2), `side2`@9 (terminal 5), `sum`@9 (terminal 0, the mean read)
example : exT.getState 2 = some ⟨4, ⟨1, 2, 3⟩⟩ ∧ exT.getState 5 = some ⟨9, ⟨7, 8, 9⟩⟩ ∧
    exT.getState 0 = some ⟨9, ⟨20, 30, 40⟩⟩ := ⟨rfl, rfl, rfl⟩
example : ((Differential.update .sum exT 2 5 4).t 4).state = some ⟨9, ⟨8, 10, 12⟩⟩ := rfl
example : ((Differential.update .side1 exT 4 2 5).t 4).state = some ⟨9, ⟨6, 6, 6⟩⟩ := rfl
example : ((Differential.update .side2 exT 2 4 5).t 4).state = some ⟨9, ⟨6, 6, 6⟩⟩ := rfl
example : (((Differential.update .equal exT 2 5 0).t 2).state).map (·.time) = some 9 ∧
    (((Differential.update .equal exT 2 5 0).t 5).state).map (·.time) = some 9 ∧
    (((Differential.update .equal exT 2 5 0).t 0).state).map (·.time) = some 9 := ⟨rfl, rfl, rfl⟩
-- `differential_waits`: a trusted read is missing
example : ∃ i ∈ C08.trusted .equal 2 5 4, exT.getState i = none := ⟨4, by decide, rfl⟩

-- command slots: reads `velocity 3`@7 at terminal 0, `position 2`@11 at terminal 3, nothing at 4 and 2
example : exT.getCommand 0 ≠ none ∨ exT.getCommand 3 ≠ none := Or.inl (by decide)
example : ((Invert.update exT 0 3).t 0).command = some ⟨11, .position (-2)⟩ ∧
    ((Invert.update exT 0 3).t 3).command = some ⟨11, .position 2⟩ := ⟨rfl, rfl⟩
example : ((GearTrain.update 2 exT 0 3).t 0).command = some ⟨11, .position 1⟩ ∧
    ((GearTrain.update 2 exT 0 3).t 3).command = some ⟨11, .position 2⟩ := ⟨rfl, rfl⟩
example : ((GearTrain.update 2 exT 0 4).t 4).command = some ⟨7, .velocity 6⟩ := rfl
example : (∃ i ∈ [4, 0, 3, 5], exT.getCommand i ≠ none) ∧
    ((Axle.update exT [4, 0, 3, 5]).t 4).command = some ⟨11, .position 2⟩ ∧
    ((Axle.update exT [4, 0, 3, 5]).t 5).command = some ⟨11, .position 2⟩ := ⟨⟨0, by decide, by decide⟩, rfl, rfl⟩
example : exT.getCommand 4 = none ∧ exT.getCommand 2 = none ∧ (∀ i ∈ [4, 2], exT.getCommand i = none) :=
  ⟨rfl, rfl, by decide⟩

-- and / or streams: a tie, one input absent, and a present input that does not decide the value still counts
-- for the time (`false`@5 ∧ `true`@9 is `false`@9, as in `AndStream::get`, which stamps before it looks at values)
example : Stream.andStream (.ok (some ⟨5, true⟩)) (.ok (some ⟨5, true⟩)) = .ok (some ⟨5, true⟩) := rfl
example : Stream.andStream (.ok (some ⟨5, false⟩)) (.ok none) = .ok (some ⟨5, false⟩) := rfl
example : Stream.andStream (.ok (some ⟨5, false⟩)) (.ok (some ⟨9, true⟩)) = .ok (some ⟨9, false⟩) := rfl
example : Stream.orStream (.ok none) (.ok (some ⟨3, true⟩)) = .ok (some ⟨3, true⟩) := rfl
example : Stream.orStream (.ok (some ⟨5, true⟩)) (.ok (some ⟨9, false⟩)) = .ok (some ⟨9, true⟩) := rfl
example : Stream.orStream (.ok (some ⟨-4, false⟩)) (.ok (some ⟨-7, false⟩)) = .ok (some ⟨-4, false⟩) := rfl
example : Stream.logicTime (some ⟨5, false⟩) (some ⟨9, true⟩) = some 9 := rfl

end Examples

end Rrtk.Thm.C03
