/-
C04 at real binary32 rounding: the tier-L theorems of C04 (`Thm/Lemmas/C04Composed.lean`, namespace `Rrtk.Thm.C04`: the
PID stream agrees with the controller assembled from the crate's own streams) instantiated at the scalar type `SF` (finite
binary32 numbers with correctly rounded `+ − * /`, `Rrtk/Thm/Lemmas/SoftScalar.lean`), with the two scalar laws they assume
PROVED.
-/
import Rrtk.Thm.C04
import Rrtk.Thm.Lemmas.SoftScalar
import Rrtk.Thm.Lemmas.C04More
set_option linter.unusedSectionVars false
set_option linter.unusedSimpArgs false
namespace Rrtk.Thm.C04
open Rrtk Rrtk.Thm.SoftScalar

/-- one present input: the assembled controller does not panic, the memories stay related and the two outputs are equal,
in binary32.  Discharged: `hzero` (`zero_add'`) and `hcomm` (`add_comm'`). -/
theorem rel_present_binary32 (sp kp ki kd : SF) (p : PidS SF) (s : SpidS SF) (h : Rel p s) (d : Datum (Quantity SF)) :
    ∃ s' r, Spid.step false sp kp ki kd s (.ok (some d)) = .ok (s', r) ∧
      Rel (Pid.step sp ⟨kp, ki, kd⟩ p (toF (.ok (some d)))).1 s' ∧
      Spid.get s' = Pid.get (Pid.step sp ⟨kp, ki, kd⟩ p (toF (.ok (some d)))).1 :=
  rel_present zero_add' add_comm' sp kp ki kd p s h d

/-- every history: the assembled controller never panics and its memory stays related to the PID's, in binary32.
Discharged: `hzero` (`zero_add'`) and `hcomm` (`add_comm'`). -/
theorem rel_run_binary32 (sp kp ki kd : SF) (evs : List (Output (Quantity SF))) (p : PidS SF) (s : SpidS SF)
    (h : Rel p s) : ∃ s', runSpid sp kp ki kd s evs = .ok s' ∧ Rel (runPid sp kp ki kd p evs) s' :=
  rel_run zero_add' add_comm' sp kp ki kd evs p s h

/-- **C04, assembled-controller clause, in binary32.** After ANY history, at an update that sees a present input the PID
stream and the controller assembled from the crate's own streams give exactly the same output (value and timestamp).
Discharged: `hzero` (`zero_add'`) and `hcomm` (`add_comm'`); no hypothesis is left. -/
theorem pid_eq_composed_binary32 (sp kp ki kd : SF) (pre : List (Output (Quantity SF))) (d : Datum (Quantity SF)) :
    ∃ s', runSpid sp kp ki kd Spid.init (pre ++ [.ok (some d)]) = .ok s' ∧
      Spid.get s' = Pid.get (runPid sp kp ki kd Pid.init (pre ++ [.ok (some d)])) :=
  pid_eq_composed zero_add' add_comm' sp kp ki kd pre d

/-- the first sample of a run (`pid_first_sample`: `kp·e + ki·(0 + 0) + kd·0`) is EXACTLY the proportional term in
binary32: `0 + 0 = 0`, `k·0 = 0` and `x + 0 = x` are exact on finite values.  Uses `zero_add'`, `mul_zero'`,
`add_zero'`. -/
theorem pid_first_sample_binary32 (sp : SF) (k : PIDK SF) (x : Datum SF) :
    specOut sp k [x] = .ok (some ⟨x.time, k.kp * (sp - x.value)⟩) := by
  rw [pid_first_sample, zero_add', mul_zero', add_zero', mul_zero', add_zero']

namespace Binary32Examples
/-- the related-memories hypothesis of `rel_present_binary32` / `rel_run_binary32` is met by the initial states -/
example : Rel (Pid.init : PidS SF) (Spid.init : SpidS SF) := rel_init
/-- a history with an absent event and an error; setpoint `1e9`, gains `1.5`, `1/3` (rounded), `2^-149` -/
def pre : List (Output (Quantity SF)) :=
  [.ok (some ⟨0, ⟨c1, ⟨0, 0⟩⟩⟩), .ok none, .ok (some ⟨2000000000, ⟨x2p24, ⟨0, 0⟩⟩⟩), .error (.other 3),
   .ok (some ⟨3000000000, ⟨c3, ⟨0, 0⟩⟩⟩), .ok (some ⟨3500000000, ⟨(c1 : SF) / c3, ⟨0, 0⟩⟩⟩)]
def last : Datum (Quantity SF) := ⟨3700000000, ⟨x1_5, ⟨0, 0⟩⟩⟩
/-- what the PID stream shows after that history, computed with binary32 rounding at every step -/
def pidVal : Option (Int × ℚ) :=
  match Pid.get (runPid x1e9 x1_5 ((c1 : SF) / c3) xMinSub Pid.init (pre ++ [.ok (some last)])) with
  | .ok (some d) => some (d.time, d.value.val)
  | _ => none
/-- what the assembled controller shows -/
def spidVal : Option (Int × ℚ) :=
  match runSpid x1e9 x1_5 ((c1 : SF) / c3) xMinSub Spid.init (pre ++ [.ok (some last)]) with
  | .ok s => (match Spid.get s with | .ok (some d) => some (d.time, d.value.val) | _ => none)
  | .error _ => none
/-- both show `1733333376` at `3.7 s` (kernel computation; the agreement itself is `pid_eq_composed_binary32`) -/
theorem pidVal_eq : pidVal = some (3700000000, 1733333376) := by decide +kernel
theorem spidVal_eq : spidVal = some (3700000000, 1733333376) := by decide +kernel
end Binary32Examples

end Rrtk.Thm.C04
