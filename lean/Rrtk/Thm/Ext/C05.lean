/-
C05 extension — history-level theorems for the stateful streams that `Thm/C05.lean` treats at step level only.

Everything is about the model functions THE DRIVER RUNS (`Rrtk/Drv/Ss.lean`): `Ewma.step`/`Ma.step` at their f32 and
Quantity instantiations, `A2s/V2s/P2s.step`, `F2q/Q2f.step` (wrapped in `.ok` exactly as the driver wraps them) and
`Cpid.step` (the whole `update`, including the followed command getter), interleaved with `Cpid.set`/`Cpid.reset`.
Tier S: `F` is an arbitrary scalar type with no laws.

* `<s>_no_stale_err`            : after ANY history, `get` shows `err e` only if the LAST event was `err e`;
* `<s>_reset_erases_history`    : for each event the stream treats as a reset, `pre ++ r :: post` from a new stream ends
                                  in the same state (hence the same `get`, and the same at every later prefix) as
                                  `r :: post` from a new stream;
* `ewma/ma_absent_deletion`     : simulation induction — deleting the absent events of a history ending in a non-absent
                                  event does not change the final state;
* CommandPID                    : the clauses for `Cpid.step`; the no-stale-error clause needs the followed getter not
                                  to error at the last update (counterexample kernel-checked below);
* `freeze_last_false_present_conditions` : restatement of `freeze_last_false` with its restriction spelled out.
-/
import Rrtk.Thm.C05
set_option linter.unusedSectionVars false
set_option linter.unusedSimpArgs false

/-! ## generic run lemmas (helpers, outside the audited namespace) -/
namespace Rrtk.Thm.C05Run
open Rrtk
variable {S I : Type}

/-- a step that never panics gives a run that never panics -/
theorem runE_total (step : S → I → Except Panic (S × UpdRet)) (ht : ∀ s i, ∃ r, step s i = .ok r)
    (s : S) (evs : List I) : ∃ s', runE step s evs = .ok s' := by
  induction evs generalizing s with
  | nil => exact ⟨s, rfl⟩
  | cons i is ih =>
    obtain ⟨r, hr⟩ := ht s i
    simp only [runE_cons, hr]
    exact ih r.1

theorem runE_snoc (step : S → I → Except Panic (S × UpdRet)) (s : S) (a : List I) (i : I) :
    runE step s (a ++ [i]) = match runE step s a with
      | .error p => .error p
      | .ok s' => match step s' i with
        | .error p => .error p
        | .ok r => .ok r.1 := by
  rw [runE_append]
  cases runE step s a with
  | error p => rfl
  | ok s' =>
    simp only [runE_cons]
    cases step s' i with
    | error p => rfl
    | ok r => rfl

/-- `runE_reset` for a step that never panics: no hypothesis on the prefix is needed -/
theorem runE_reset_total (step : S → I → Except Panic (S × UpdRet)) (ht : ∀ s i, ∃ r, step s i = .ok r)
    (init : S) (r : I) (hr : ∀ s, step s r = step init r) (pre post : List I) :
    runE step init (pre ++ r :: post) = runE step init (r :: post) := by
  obtain ⟨s, hs⟩ := runE_total step ht init pre
  exact runE_reset step init r hr pre post s hs

/-- two run results are related: both panicked alike, or both ended in related states -/
def RelE (R : S → S → Prop) : Except Panic S → Except Panic S → Prop
  | .ok b, .ok a => R b a
  | .error p, .error q => p = q
  | _, _ => False

/-- Simulation induction.  `R b a` relates the state `b` of the run over the FILTERED history to the state `a` of the run
over the FULL history.  If a deleted event keeps the relation (acting on the full side only) and a kept event acts
identically on related states, the two runs stay related. -/
theorem runE_filter_sim (step : S → I → Except Panic (S × UpdRet)) (noop : I → Bool) (R : S → S → Prop)
    (hrefl : ∀ s, R s s)
    (hno : ∀ b a i, R b a → noop i = true → ∃ a' r, step a i = .ok (a', r) ∧ R b a')
    (hev : ∀ b a i, R b a → noop i = false → step b i = step a i)
    (evs : List I) (b a : S) (h : R b a) :
    RelE R (runE step b (evs.filter (fun i => !noop i))) (runE step a evs) := by
  induction evs generalizing b a with
  | nil => exact h
  | cons i is ih =>
    cases hi : noop i with
    | true =>
      obtain ⟨a', r, hr, hR⟩ := hno b a i h hi
      simp only [List.filter_cons, hi, Bool.not_true, runE_cons, hr]
      exact ih b a' hR
    | false =>
      simp only [List.filter_cons, hi, Bool.not_false, runE_cons, if_true]
      rw [hev b a i h hi]
      cases step a i with
      | error p => exact rfl
      | ok r => exact ih r.1 r.1 (hrefl _)

/-- … and after a kept event the two runs are in the SAME state. -/
theorem runE_filter_sim_last (step : S → I → Except Panic (S × UpdRet)) (noop : I → Bool) (R : S → S → Prop)
    (hrefl : ∀ s, R s s)
    (hno : ∀ b a i, R b a → noop i = true → ∃ a' r, step a i = .ok (a', r) ∧ R b a')
    (hev : ∀ b a i, R b a → noop i = false → step b i = step a i)
    (evs : List I) (l : I) (hl : evs.getLast? = some l) (hnl : noop l = false) (b a : S) (h : R b a) :
    runE step b (evs.filter (fun i => !noop i)) = runE step a evs := by
  obtain ⟨ys, rfl⟩ := List.getLast?_eq_some_iff.mp hl
  have hf : [l].filter (fun i => !noop i) = [l] := by simp [hnl]
  rw [List.filter_append, hf, runE_snoc, runE_snoc]
  have hrel := runE_filter_sim step noop R hrefl hno hev ys b a h
  cases hb : runE step b (ys.filter (fun i => !noop i)) with
  | error p =>
    cases ha : runE step a ys with
    | error q => rw [hb, ha] at hrel; simp only [RelE] at hrel; rw [hrel]
    | ok sa => rw [hb, ha] at hrel; exact absurd hrel (by simp [RelE])
  | ok sb =>
    cases ha : runE step a ys with
    | error q => rw [hb, ha] at hrel; exact absurd hrel (by simp [RelE])
    | ok sa =>
      rw [hb, ha] at hrel
      simp only [RelE] at hrel
      simp only [hev sb sa l hrel hnl]

end Rrtk.Thm.C05Run

namespace Rrtk.Thm.C05
open Rrtk Rrtk.Thm.C05Run

variable {F : Type} [Add F] [Sub F] [Mul F] [Div F] [Neg F] [LT F] [LE F] [BEq F]
  [DecidableLT F] [DecidableLE F] [FloatLike F]

/-- the event "the input returned `Ok(None)`" -/
def isAbsent {α : Type} (i : Output α) : Bool := match i with | .ok none => true | _ => false
theorem isAbsent_true {α : Type} (i : Output α) (h : isAbsent i = true) : i = .ok none := by
  cases i with
  | error e => simp [isAbsent] at h
  | ok o => cases o with
    | none => rfl
    | some d => simp [isAbsent] at h
theorem isAbsent_false {α : Type} (i : Output α) (h : isAbsent i = false) : i ≠ .ok none := by
  intro hi; subst hi; simp [isAbsent] at h
theorem isAbsent_of_ne {α : Type} (i : Output α) (h : i ≠ .ok none) : isAbsent i = false := by
  cases i with
  | error e => rfl
  | ok o => cases o with
    | none => exact absurd rfl h
    | some d => rfl

/-! ### EWMAStream (generic in `scale`/`add`, then the two instantiations the driver runs) -/
section generic
variable {T : Type}

/-- history level: `get` shows `err e` only if the last event was `err e` -/
theorem ewma_no_stale_err (scale : T → F → T) (add : T → T → Except Panic T) (sm : F)
    (evs : List (Output T)) (s : EwmaS T)
    (h : runE (Ewma.step scale add sm) Ewma.init evs = .ok s) (e : Err) (he : Ewma.get s = .error e) :
    evs.getLast? = some (.error e) := by
  have := no_stale_err_of_step (Ewma.step scale add sm) Ewma.get IsErr InErr
    (fun s i r hr e he => ewma_no_stale_err_step scale add sm s i r hr e he) Ewma.init evs s h e he
  rcases this with ⟨_, h0⟩ | ⟨i, hi, hie⟩
  · simp [IsErr, Ewma.get, Ewma.init] at h0
  · simp only [InErr] at hie; rw [hi, hie]

/-- the reset events of EWMA are exactly the errors (an absent sample is ignored, see `ewma_absent_deletion`): after an
error every later state — hence every later output — is that of a new stream fed the events from the error on.
`hpre`: the prefix did not panic (a panicking prefix has no "later"). -/
theorem ewma_reset_erases_history (scale : T → F → T) (add : T → T → Except Panic T) (sm : F)
    (pre post : List (Output T)) (e : Err) (s : EwmaS T)
    (hpre : runE (Ewma.step scale add sm) Ewma.init pre = .ok s) :
    runE (Ewma.step scale add sm) Ewma.init (pre ++ .error e :: post)
      = runE (Ewma.step scale add sm) Ewma.init (.error e :: post) :=
  runE_reset _ _ (.error e) (fun s' => ewma_reset scale add sm s' e) pre post s hpre

/-- the simulation relation is kept by an absent event on the full-history side -/
theorem ewma_sim_absent (scale : T → F → T) (add : T → T → Except Panic T) (sm : F) (b a : EwmaS T)
    (h : EwmaSim b a) : ∃ a' r, Ewma.step scale add sm a (.ok none) = .ok (a', r) ∧ EwmaSim b a' := by
  rcases h with rfl | ⟨hbe, rfl⟩
  · obtain ⟨s', hs', hsim⟩ := ewma_absent_sim scale add sm b
    exact ⟨s', _, hs', hsim⟩
  · exact ⟨_, _, rfl, Or.inr ⟨hbe, rfl⟩⟩

/-- deleting absent events, any history, any start state: the run over the filtered history and the run over the full
history panic alike or end in `EwmaSim`-related states (equal, or the filtered run still shows a cached error that the
full run has cleared at an absent event). -/
theorem ewma_absent_deletion_sim (scale : T → F → T) (add : T → T → Except Panic T) (sm : F)
    (s0 : EwmaS T) (evs : List (Output T)) :
    RelE EwmaSim (runE (Ewma.step scale add sm) s0 (evs.filter (fun i => !isAbsent i)))
      (runE (Ewma.step scale add sm) s0 evs) :=
  runE_filter_sim (Ewma.step scale add sm) isAbsent EwmaSim (fun _ => Or.inl rfl)
    (fun b a i hR hi => by rw [isAbsent_true i hi]; exact ewma_sim_absent scale add sm b a hR)
    (fun b a i hR hi => ewma_sim_step scale add sm b a hR i (isAbsent_false i hi)) evs s0 s0 (Or.inl rfl)

/-- absent deletion: after any history that ends in a non-absent event, the full run and the run with the absent events
deleted are in the SAME state (same `get`, same reaction to everything that follows).  Applied to every prefix that ends
in a non-absent event this is "deleting absent events does not change later outputs". -/
theorem ewma_absent_deletion (scale : T → F → T) (add : T → T → Except Panic T) (sm : F)
    (s0 : EwmaS T) (evs : List (Output T)) (l : Output T) (hl : evs.getLast? = some l) (hne : l ≠ .ok none) :
    runE (Ewma.step scale add sm) s0 (evs.filter (fun i => !isAbsent i)) = runE (Ewma.step scale add sm) s0 evs :=
  runE_filter_sim_last (Ewma.step scale add sm) isAbsent EwmaSim (fun _ => Or.inl rfl)
    (fun b a i hR hi => by rw [isAbsent_true i hi]; exact ewma_sim_absent scale add sm b a hR)
    (fun b a i hR hi => ewma_sim_step scale add sm b a hR i (isAbsent_false i hi))
    evs l hl (isAbsent_of_ne l hne) s0 s0 (Or.inl rfl)

/-- the getter form asked for: same `get` -/
theorem ewma_absent_deletion_get (scale : T → F → T) (add : T → T → Except Panic T) (sm : F)
    (evs : List (Output T)) (l : Output T) (hl : evs.getLast? = some l) (hne : l ≠ .ok none) :
    (runE (Ewma.step scale add sm) Ewma.init (evs.filter (fun i => !isAbsent i))).map Ewma.get
      = (runE (Ewma.step scale add sm) Ewma.init evs).map Ewma.get := by
  rw [ewma_absent_deletion scale add sm Ewma.init evs l hl hne]

/-! ### MovingAverageStream -/
theorem ma_no_stale_err (scale : T → F → T) (add : T → T → Except Panic T) (fin : T → F → T) (z : Option T) (w : Int)
    (evs : List (Output T)) (s : MaS T)
    (h : runE (Ma.step scale add fin z w) Ma.init evs = .ok s) (e : Err) (he : Ma.get s = .error e) :
    evs.getLast? = some (.error e) := by
  have := no_stale_err_of_step (Ma.step scale add fin z w) Ma.get IsErr InErr
    (fun s i r hr e he => ma_no_stale_err_step scale add fin z w s i r hr e he) Ma.init evs s h e he
  rcases this with ⟨_, h0⟩ | ⟨i, hi, hie⟩
  · simp [IsErr, Ma.get, Ma.init] at h0
  · simp only [InErr] at hie; rw [hi, hie]

/-- the reset events of the moving average are exactly the errors (they empty the window queue).  `hpre`: the prefix did
not panic (a unit mismatch, or a non-positive window, does panic — see the examples at the end). -/
theorem ma_reset_erases_history (scale : T → F → T) (add : T → T → Except Panic T) (fin : T → F → T) (z : Option T)
    (w : Int) (pre post : List (Output T)) (e : Err) (s : MaS T)
    (hpre : runE (Ma.step scale add fin z w) Ma.init pre = .ok s) :
    runE (Ma.step scale add fin z w) Ma.init (pre ++ .error e :: post)
      = runE (Ma.step scale add fin z w) Ma.init (.error e :: post) :=
  runE_reset _ _ (.error e) (fun s' => ma_reset scale add fin z w s' e) pre post s hpre

theorem ma_sim_absent (scale : T → F → T) (add : T → T → Except Panic T) (fin : T → F → T) (z : Option T) (w : Int)
    (b a : MaS T) (h : MaSim b a) :
    ∃ a' r, Ma.step scale add fin z w a (.ok none) = .ok (a', r) ∧ MaSim b a' := by
  rcases h with rfl | ⟨hbe, rfl⟩
  · obtain ⟨s', hs', hsim⟩ := ma_absent_sim scale add fin z w b
    exact ⟨s', _, hs', hsim⟩
  · exact ⟨_, _, rfl, Or.inr ⟨hbe, rfl⟩⟩

theorem ma_absent_deletion_sim (scale : T → F → T) (add : T → T → Except Panic T) (fin : T → F → T) (z : Option T)
    (w : Int) (s0 : MaS T) (evs : List (Output T)) :
    RelE MaSim (runE (Ma.step scale add fin z w) s0 (evs.filter (fun i => !isAbsent i)))
      (runE (Ma.step scale add fin z w) s0 evs) :=
  runE_filter_sim (Ma.step scale add fin z w) isAbsent MaSim (fun _ => Or.inl rfl)
    (fun b a i hR hi => by rw [isAbsent_true i hi]; exact ma_sim_absent scale add fin z w b a hR)
    (fun b a i hR hi => ma_sim_step scale add fin z w b a hR i (isAbsent_false i hi)) evs s0 s0 (Or.inl rfl)

/-- absent deletion for the moving average: same final state after any history ending in a non-absent event -/
theorem ma_absent_deletion (scale : T → F → T) (add : T → T → Except Panic T) (fin : T → F → T) (z : Option T)
    (w : Int) (s0 : MaS T) (evs : List (Output T)) (l : Output T) (hl : evs.getLast? = some l) (hne : l ≠ .ok none) :
    runE (Ma.step scale add fin z w) s0 (evs.filter (fun i => !isAbsent i))
      = runE (Ma.step scale add fin z w) s0 evs :=
  runE_filter_sim_last (Ma.step scale add fin z w) isAbsent MaSim (fun _ => Or.inl rfl)
    (fun b a i hR hi => by rw [isAbsent_true i hi]; exact ma_sim_absent scale add fin z w b a hR)
    (fun b a i hR hi => ma_sim_step scale add fin z w b a hR i (isAbsent_false i hi))
    evs l hl (isAbsent_of_ne l hne) s0 s0 (Or.inl rfl)

theorem ma_absent_deletion_get (scale : T → F → T) (add : T → T → Except Panic T) (fin : T → F → T) (z : Option T)
    (w : Int) (evs : List (Output T)) (l : Output T) (hl : evs.getLast? = some l) (hne : l ≠ .ok none) :
    (runE (Ma.step scale add fin z w) Ma.init (evs.filter (fun i => !isAbsent i))).map Ma.get
      = (runE (Ma.step scale add fin z w) Ma.init evs).map Ma.get := by
  rw [ma_absent_deletion scale add fin z w Ma.init evs l hl hne]
end generic

/-- the state invariant behind `expect("update_time must be Some if value is")` -/
def EwmaInv {T : Type} (s : EwmaS T) : Prop := ∀ v, s.value = .ok (some v) → ∃ t, s.updateTime = some t

/-- the f32 EWMA cannot panic from a state satisfying the invariant, and keeps it -/
theorem ewmaF_step_total (sm : F) (s : EwmaS F) (hs : EwmaInv s) (i : Output F) :
    ∃ r, Ewma.step scaleF addF sm s i = .ok r ∧ EwmaInv r.1 := by
  cases i with
  | error e => exact ⟨_, rfl, fun v hv => by simp at hv⟩
  | ok o =>
    cases o with
    | none =>
      simp only [Ewma.step]
      cases hv : s.value with
      | error x => exact ⟨_, rfl, fun v hv => by simp at hv⟩
      | ok v => exact ⟨_, rfl, hs⟩
    | some d =>
      simp only [Ewma.step]
      cases hv : s.value with
      | error x => exact ⟨_, rfl, fun v hv => ⟨_, rfl⟩⟩
      | ok v =>
        cases v with
        | none => exact ⟨_, rfl, fun v hv => ⟨_, rfl⟩⟩
        | some v =>
          obtain ⟨t, ht⟩ := hs v hv
          simp only [ht]
          exact ⟨_, rfl, fun v hv => ⟨_, rfl⟩⟩

theorem ewmaF_run_total (sm : F) (s0 : EwmaS F) (hs : EwmaInv s0) (evs : List (Output F)) :
    ∃ s, runE (Ewma.step scaleF addF sm) s0 evs = .ok s := by
  induction evs generalizing s0 with
  | nil => exact ⟨s0, rfl⟩
  | cons i is ih =>
    obtain ⟨r, hr, hinv⟩ := ewmaF_step_total sm s0 hs i
    simp only [runE_cons, hr]
    exact ih r.1 hinv

/-! #### the four instantiations the driver runs (`Drv/Ss.lean`: `ewma f|q`, `ma f|q`) -/
theorem ewmaF_no_stale_err (sm : F) (evs : List (Output F)) (s : EwmaS F)
    (h : runE (Ewma.step scaleF addF sm) Ewma.init evs = .ok s) (e : Err) (he : Ewma.get s = .error e) :
    evs.getLast? = some (.error e) := ewma_no_stale_err scaleF addF sm evs s h e he
theorem ewmaQ_no_stale_err (chk : Bool) (sm : F) (evs : List (Output (Quantity F))) (s : EwmaS (Quantity F))
    (h : runE (Ewma.step (scaleQdl chk) (Quantity.add chk) sm) Ewma.init evs = .ok s) (e : Err)
    (he : Ewma.get s = .error e) : evs.getLast? = some (.error e) :=
  ewma_no_stale_err (scaleQdl chk) (Quantity.add chk) sm evs s h e he
/-- the f32 EWMA cannot panic (`ewmaF_run_total`), so no hypothesis on the prefix -/
theorem ewmaF_reset_erases_history (sm : F) (pre post : List (Output F)) (e : Err) :
    runE (Ewma.step scaleF addF sm) Ewma.init (pre ++ .error e :: post)
      = runE (Ewma.step scaleF addF sm) Ewma.init (.error e :: post) := by
  obtain ⟨s, hs⟩ := ewmaF_run_total sm Ewma.init (fun v hv => by simp [Ewma.init] at hv) pre
  exact ewma_reset_erases_history scaleF addF sm pre post e s hs
theorem ewmaQ_reset_erases_history (chk : Bool) (sm : F) (pre post : List (Output (Quantity F))) (e : Err)
    (s : EwmaS (Quantity F)) (hpre : runE (Ewma.step (scaleQdl chk) (Quantity.add chk) sm) Ewma.init pre = .ok s) :
    runE (Ewma.step (scaleQdl chk) (Quantity.add chk) sm) Ewma.init (pre ++ .error e :: post)
      = runE (Ewma.step (scaleQdl chk) (Quantity.add chk) sm) Ewma.init (.error e :: post) :=
  ewma_reset_erases_history (scaleQdl chk) (Quantity.add chk) sm pre post e s hpre
theorem ewmaF_absent_deletion (sm : F) (evs : List (Output F)) (l : Output F)
    (hl : evs.getLast? = some l) (hne : l ≠ .ok none) :
    runE (Ewma.step scaleF addF sm) Ewma.init (evs.filter (fun i => !isAbsent i))
      = runE (Ewma.step scaleF addF sm) Ewma.init evs :=
  ewma_absent_deletion scaleF addF sm Ewma.init evs l hl hne
theorem ewmaQ_absent_deletion (chk : Bool) (sm : F) (evs : List (Output (Quantity F))) (l : Output (Quantity F))
    (hl : evs.getLast? = some l) (hne : l ≠ .ok none) :
    runE (Ewma.step (scaleQdl chk) (Quantity.add chk) sm) Ewma.init (evs.filter (fun i => !isAbsent i))
      = runE (Ewma.step (scaleQdl chk) (Quantity.add chk) sm) Ewma.init evs :=
  ewma_absent_deletion (scaleQdl chk) (Quantity.add chk) sm Ewma.init evs l hl hne

theorem maF_no_stale_err (w : Int) (evs : List (Output F)) (s : MaS F)
    (h : runE (Ma.step scaleF addF divF (some (c0 : F)) w) Ma.init evs = .ok s) (e : Err)
    (he : Ma.get s = .error e) : evs.getLast? = some (.error e) :=
  ma_no_stale_err scaleF addF divF (some c0) w evs s h e he
theorem maQ_no_stale_err (chk : Bool) (w : Int) (evs : List (Output (Quantity F))) (s : MaS (Quantity F))
    (h : runE (Ma.step (scaleQs chk) (Quantity.add chk) (divQs chk) none w) Ma.init evs = .ok s) (e : Err)
    (he : Ma.get s = .error e) : evs.getLast? = some (.error e) :=
  ma_no_stale_err (scaleQs chk) (Quantity.add chk) (divQs chk) none w evs s h e he
theorem maF_reset_erases_history (w : Int) (pre post : List (Output F)) (e : Err) (s : MaS F)
    (hpre : runE (Ma.step scaleF addF divF (some (c0 : F)) w) Ma.init pre = .ok s) :
    runE (Ma.step scaleF addF divF (some (c0 : F)) w) Ma.init (pre ++ .error e :: post)
      = runE (Ma.step scaleF addF divF (some (c0 : F)) w) Ma.init (.error e :: post) :=
  ma_reset_erases_history scaleF addF divF (some c0) w pre post e s hpre
theorem maQ_reset_erases_history (chk : Bool) (w : Int) (pre post : List (Output (Quantity F))) (e : Err)
    (s : MaS (Quantity F))
    (hpre : runE (Ma.step (scaleQs chk) (Quantity.add chk) (divQs chk) none w) Ma.init pre = .ok s) :
    runE (Ma.step (scaleQs chk) (Quantity.add chk) (divQs chk) none w) Ma.init (pre ++ .error e :: post)
      = runE (Ma.step (scaleQs chk) (Quantity.add chk) (divQs chk) none w) Ma.init (.error e :: post) :=
  ma_reset_erases_history (scaleQs chk) (Quantity.add chk) (divQs chk) none w pre post e s hpre
theorem maF_absent_deletion (w : Int) (evs : List (Output F)) (l : Output F)
    (hl : evs.getLast? = some l) (hne : l ≠ .ok none) :
    runE (Ma.step scaleF addF divF (some (c0 : F)) w) Ma.init (evs.filter (fun i => !isAbsent i))
      = runE (Ma.step scaleF addF divF (some (c0 : F)) w) Ma.init evs :=
  ma_absent_deletion scaleF addF divF (some c0) w Ma.init evs l hl hne
theorem maQ_absent_deletion (chk : Bool) (w : Int) (evs : List (Output (Quantity F))) (l : Output (Quantity F))
    (hl : evs.getLast? = some l) (hne : l ≠ .ok none) :
    runE (Ma.step (scaleQs chk) (Quantity.add chk) (divQs chk) none w) Ma.init (evs.filter (fun i => !isAbsent i))
      = runE (Ma.step (scaleQs chk) (Quantity.add chk) (divQs chk) none w) Ma.init evs :=
  ma_absent_deletion (scaleQs chk) (Quantity.add chk) (divQs chk) none w Ma.init evs l hl hne

/-! ### to-state converters: the reset events are exactly the errors; `get` never shows an error at all -/
/-- history level.  NOTE: the premise `he` is never satisfiable — `a2s_get_never_err` shows the getter of the to-state
converters cannot return an error from ANY state (an input error is reported by `update` only and the getter shows
absent, `a2s_err_then_absent`) — so the no-stale-error clause holds for these three streams in the strongest form. -/
theorem a2s_no_stale_err (chk : Bool) (evs : List (Output (Quantity F))) (s : Option (A2sU0 F))
    (_h : runE (A2s.step chk) A2s.init evs = .ok s) (e : Err) (he : A2s.get chk s = .ok (.error e)) :
    evs.getLast? = some (.error e) := absurd rfl (a2s_get_never_err chk s _ he e)
theorem v2s_no_stale_err (chk : Bool) (evs : List (Output (Quantity F))) (s : Option (V2sU0 F))
    (_h : runE (V2s.step chk) V2s.init evs = .ok s) (e : Err) (he : V2s.get chk s = .ok (.error e)) :
    evs.getLast? = some (.error e) := absurd rfl (v2s_get_never_err chk s _ he e)
theorem p2s_no_stale_err (chk : Bool) (evs : List (Output (Quantity F))) (s : Option (P2sU0 F))
    (_h : runE (P2s.step chk) P2s.init evs = .ok s) (e : Err) (he : P2s.get chk s = .ok (.error e)) :
    evs.getLast? = some (.error e) := absurd rfl (p2s_get_never_err chk s _ he e)
/-- what an input error does instead: `update` returns it, the state is the initial one and the getter shows absent -/
theorem a2s_err_then_absent (chk : Bool) (s : Option (A2sU0 F)) (e : Err) :
    A2s.step chk s (.error e) = .ok (A2s.init, .error e) ∧ A2s.get chk (A2s.init : Option (A2sU0 F)) = .ok (.ok none) :=
  ⟨rfl, rfl⟩
theorem v2s_err_then_absent (chk : Bool) (s : Option (V2sU0 F)) (e : Err) :
    V2s.step chk s (.error e) = .ok (V2s.init, .error e) ∧ V2s.get chk (V2s.init : Option (V2sU0 F)) = .ok (.ok none) :=
  ⟨rfl, rfl⟩
theorem p2s_err_then_absent (chk : Bool) (s : Option (P2sU0 F)) (e : Err) :
    P2s.step chk s (.error e) = .ok (P2s.init, .error e) ∧ P2s.get chk (P2s.init : Option (P2sU0 F)) = .ok (.ok none) :=
  ⟨rfl, rfl⟩
/-- after an error every later state is that of a new converter fed the events from the error on (`hpre`: the prefix
did not panic; a unit mismatch does panic) -/
theorem a2s_reset_erases_history (chk : Bool) (pre post : List (Output (Quantity F))) (e : Err) (s : Option (A2sU0 F))
    (hpre : runE (A2s.step chk) A2s.init pre = .ok s) :
    runE (A2s.step chk) A2s.init (pre ++ .error e :: post) = runE (A2s.step chk) A2s.init (.error e :: post) :=
  runE_reset _ _ (.error e) (fun s' => a2s_reset chk s' e) pre post s hpre
theorem v2s_reset_erases_history (chk : Bool) (pre post : List (Output (Quantity F))) (e : Err) (s : Option (V2sU0 F))
    (hpre : runE (V2s.step chk) V2s.init pre = .ok s) :
    runE (V2s.step chk) V2s.init (pre ++ .error e :: post) = runE (V2s.step chk) V2s.init (.error e :: post) :=
  runE_reset _ _ (.error e) (fun s' => v2s_reset chk s' e) pre post s hpre
theorem p2s_reset_erases_history (chk : Bool) (pre post : List (Output (Quantity F))) (e : Err) (s : Option (P2sU0 F))
    (hpre : runE (P2s.step chk) P2s.init pre = .ok s) :
    runE (P2s.step chk) P2s.init (pre ++ .error e :: post) = runE (P2s.step chk) P2s.init (.error e :: post) :=
  runE_reset _ _ (.error e) (fun s' => p2s_reset chk s' e) pre post s hpre

/-! ### pass-through converters, wrapped in `.ok` exactly as the driver wraps them: EVERY event is a reset.
(`f2q_no_stale_err` / `q2f_no_stale_err` are the names of the step lemmas of `Thm/C05.lean`, hence the suffix.) -/
def f2qStep (s : Output F) (i : Output F) : Except Panic (Output F × UpdRet) := .ok (F2q.step s i)
def q2fStep (s : Output F) (i : Output (Quantity F)) : Except Panic (Output F × UpdRet) := .ok (Q2f.step s i)

theorem f2q_no_stale_err_history (unit : DUnit) (evs : List (Output F)) (s : Output F)
    (h : runE f2qStep F2q.init evs = .ok s) (e : Err) (he : F2q.get unit s = .error e) :
    evs.getLast? = some (.error e) := by
  have := no_stale_err_of_step f2qStep (F2q.get unit) IsErr InErr
    (fun s i r hr e he => by
      simp only [f2qStep] at hr; cases hr
      exact f2q_no_stale_err unit s i e he) F2q.init evs s h e he
  rcases this with ⟨_, h0⟩ | ⟨i, hi, hie⟩
  · simp [IsErr, F2q.get, F2q.init] at h0
  · simp only [InErr] at hie; rw [hi, hie]
theorem q2f_no_stale_err_history (evs : List (Output (Quantity F))) (s : Output F)
    (h : runE q2fStep Q2f.init evs = .ok s) (e : Err) (he : Q2f.get s = .error e) :
    evs.getLast? = some (.error e) := by
  have := no_stale_err_of_step q2fStep Q2f.get IsErr InErr
    (fun s i r hr e he => by
      simp only [q2fStep] at hr; cases hr
      exact q2f_no_stale_err s i e he) Q2f.init evs s h e he
  rcases this with ⟨_, h0⟩ | ⟨i, hi, hie⟩
  · simp [IsErr, Q2f.get, Q2f.init] at h0
  · simp only [InErr] at hie; rw [hi, hie]
/-- every event (present, absent, error) erases the history; no hypothesis: these updates cannot panic -/
theorem f2q_reset_erases_history (pre post : List (Output F)) (r : Output F) :
    runE f2qStep F2q.init (pre ++ r :: post) = runE f2qStep F2q.init (r :: post) :=
  runE_reset_total f2qStep (fun _ _ => ⟨_, rfl⟩) F2q.init r (fun _ => rfl) pre post
theorem q2f_reset_erases_history (pre post : List (Output (Quantity F))) (r : Output (Quantity F)) :
    runE q2fStep (Q2f.init : Output F) (pre ++ r :: post) = runE q2fStep Q2f.init (r :: post) :=
  runE_reset_total q2fStep (fun _ _ => ⟨_, rfl⟩) Q2f.init r (fun _ => rfl) pre post

/-! ### CommandPID: the clauses for `Cpid.step` (the whole `update`, what the driver runs) -/
/-- one `update` of CommandPID as the driver runs it: what the followed command getter returns now (`none`: not
following) and what the input getter returns -/
abbrev CpidEv (F : Type) := Option (Output (Command F)) × Output (State F)
def cpidStep (chk : Bool) (k : PIDK3 F) (s : CpidS F) (ev : CpidEv F) : Except Panic (CpidS F × UpdRet) :=
  .ok (Cpid.step chk k s ev.1 ev.2)
theorem cpidStep_total (chk : Bool) (k : PIDK3 F) (s : CpidS F) (ev : CpidEv F) : ∃ r, cpidStep chk k s ev = .ok r :=
  ⟨_, rfl⟩

/-- `Cpid.step` unfolded by follower case -/
theorem cpid_step_none (chk : Bool) (k : PIDK3 F) (s : CpidS F) (i : Output (State F)) :
    Cpid.step chk k s none i = Cpid.stepInput chk k s i := rfl
theorem cpid_step_fol_absent (chk : Bool) (k : PIDK3 F) (s : CpidS F) (i : Output (State F)) :
    Cpid.step chk k s (some (.ok none)) i = Cpid.stepInput chk k s i := rfl
theorem cpid_step_fol_present (chk : Bool) (k : PIDK3 F) (s : CpidS F) (d : Datum (Command F)) (i : Output (State F)) :
    Cpid.step chk k s (some (.ok (some d))) i = Cpid.stepInput chk k (Cpid.set s d.value) i := rfl
/-- a follower error aborts the update BEFORE the input is read: the state is untouched -/
theorem cpid_step_fol_err (chk : Bool) (k : PIDK3 F) (s : CpidS F) (e : Err) (i : Output (State F)) :
    Cpid.step chk k s (some (.error e)) i = (s, .error e) := rfl

/-- one step of `Cpid.step` from ANY state: the getter shows `err e` only if the input of this very update returned
`err e` — or the followed command getter errored (then nothing was updated). -/
theorem cpid_step_err_cases (chk : Bool) (k : PIDK3 F) (s : CpidS F) (f : Option (Output (Command F)))
    (i : Output (State F)) (e : Err) (h : Cpid.get (Cpid.step chk k s f i).1 = .error e) :
    i = .error e ∨ ∃ e', f = some (.error e') := by
  cases f with
  | none => exact Or.inl (cpid_no_stale_err_step chk k s i e h)
  | some o =>
    cases o with
    | error e' => exact Or.inr ⟨e', rfl⟩
    | ok oc =>
      cases oc with
      | none => exact Or.inl (cpid_no_stale_err_step chk k s i e h)
      | some d => exact Or.inl (cpid_no_stale_err_step chk k (Cpid.set s d.value) i e h)

theorem cpid_no_stale_err_of_step (chk : Bool) (k : PIDK3 F) (s : CpidS F) (f : Option (Output (Command F)))
    (hf : ∀ e', f ≠ some (.error e')) (i : Output (State F)) (e : Err)
    (h : Cpid.get (Cpid.step chk k s f i).1 = .error e) : i = .error e := by
  rcases cpid_step_err_cases chk k s f i e h with h | ⟨e', he'⟩
  · exact h
  · exact absurd he' (hf e')

/-- history level, no hypothesis: an error showing after a history of updates is the error the input returned at the
last update, or the followed command getter errored at the last update. -/
theorem cpid_no_stale_err_or_follower_err (chk : Bool) (k : PIDK3 F) (c : Command F) (evs : List (CpidEv F))
    (s : CpidS F) (h : runE (cpidStep chk k) (Cpid.init c) evs = .ok s) (e : Err) (he : Cpid.get s = .error e) :
    ∃ ev, evs.getLast? = some ev ∧ (ev.2 = .error e ∨ ∃ e', ev.1 = some (.error e')) := by
  have := no_stale_err_of_step (cpidStep chk k) Cpid.get IsErr
    (fun (ev : CpidEv F) e => ev.2 = .error e ∨ ∃ e', ev.1 = some (.error e'))
    (fun s ev r hr e he => by
      simp only [cpidStep] at hr; cases hr
      exact cpid_step_err_cases chk k s ev.1 ev.2 e he) (Cpid.init c) evs s h e he
  rcases this with ⟨_, h0⟩ | ⟨ev, hev, hie⟩
  · simp [IsErr, Cpid.get, Cpid.init] at h0
  · exact ⟨ev, hev, hie⟩

/-- history level, the hypothesis only on the LAST update: if the followed command getter did not error at the last
update, an error showing is the error the input returned at the last update. -/
theorem cpid_no_stale_err_last (chk : Bool) (k : PIDK3 F) (c : Command F) (evs : List (CpidEv F))
    (hf : ∀ ev, evs.getLast? = some ev → ∀ e', ev.1 ≠ some (.error e'))
    (s : CpidS F) (h : runE (cpidStep chk k) (Cpid.init c) evs = .ok s) (e : Err) (he : Cpid.get s = .error e) :
    ∃ f, evs.getLast? = some (f, .error e) := by
  obtain ⟨ev, hev, hie⟩ := cpid_no_stale_err_or_follower_err chk k c evs s h e he
  rcases hie with hi | ⟨e', he'⟩
  · exact ⟨ev.1, by rw [hev, ← hi]⟩
  · exact absurd he' (hf ev hev e')

/-- C05 for `Cpid.step` with the property's quantifier (histories in which the followed command getter never errors;
it may be not followed, absent, or deliver commands): `get` shows `err e` only if the input returned `err e` at the
most recent update. -/
theorem cpid_no_stale_err (chk : Bool) (k : PIDK3 F) (c : Command F) (evs : List (CpidEv F))
    (hf : ∀ ev ∈ evs, ∀ e', ev.1 ≠ some (.error e'))
    (s : CpidS F) (h : runE (cpidStep chk k) (Cpid.init c) evs = .ok s) (e : Err) (he : Cpid.get s = .error e) :
    ∃ f, evs.getLast? = some (f, .error e) :=
  cpid_no_stale_err_last chk k c evs (fun ev hev => hf ev (List.mem_of_getLast? hev)) s h e he

/-! #### with the driver's other CommandPID operations interleaved (`set:`, `reset`; `fol:`/`cs:`/`unfol` only choose
the follower argument of the next update and `lr` is a pure read) -/
inductive CpidOp (F : Type) where
  | upd (fol : Option (Output (Command F))) (inp : Output (State F))
  | set (c : Command F)
  | reset
def cpidOpStep (chk : Bool) (k : PIDK3 F) (s : CpidS F) : CpidOp F → Except Panic (CpidS F × UpdRet)
  | .upd f i => .ok (Cpid.step chk k s f i)
  | .set c => .ok (Cpid.set s c, .ok ())
  | .reset => .ok (Cpid.reset s, .ok ())
/-- the most recent update of an operation history -/
def lastUpd : List (CpidOp F) → Option (CpidEv F)
  | [] => none
  | op :: rest =>
    match lastUpd rest with
    | some x => some x
    | none => match op with
      | .upd f i => some (f, i)
      | _ => none

/-- `set` never makes an error appear: it keeps the staged computation or clears it -/
theorem cpid_set_get_err (s : CpidS F) (c : Command F) (e : Err) (h : Cpid.get (Cpid.set s c) = .error e) :
    Cpid.get s = .error e := by
  simp only [Cpid.set] at h
  split at h
  · simp [Cpid.get] at h
  · exact h
theorem cpid_reset_get (s : CpidS F) : Cpid.get (Cpid.reset s) = .ok none := rfl

theorem cpid_no_stale_err_ops_aux (chk : Bool) (k : PIDK3 F) (ops : List (CpidOp F)) (s0 s : CpidS F)
    (h : runE (cpidOpStep chk k) s0 ops = .ok s) (e : Err) (he : Cpid.get s = .error e) :
    (lastUpd ops = none ∧ Cpid.get s0 = .error e) ∨
    ∃ f i, lastUpd ops = some (f, i) ∧ (i = .error e ∨ ∃ e', f = some (.error e')) := by
  induction ops generalizing s0 with
  | nil => simp only [runE_nil] at h; cases h; exact Or.inl ⟨rfl, he⟩
  | cons op rest ih =>
    simp only [runE_cons] at h
    cases hs : cpidOpStep chk k s0 op with
    | error p => cases op <;> simp [cpidOpStep] at hs
    | ok r =>
      simp only [hs] at h
      rcases ih r.1 h with ⟨hnone, herr⟩ | ⟨f, i, hl, hfi⟩
      · cases op with
        | upd f i =>
          simp only [cpidOpStep] at hs; cases hs
          exact Or.inr ⟨f, i, by simp [lastUpd, hnone], cpid_step_err_cases chk k s0 f i e herr⟩
        | set c =>
          simp only [cpidOpStep] at hs; cases hs
          exact Or.inl ⟨by simp [lastUpd, hnone], cpid_set_get_err s0 c e herr⟩
        | reset =>
          simp only [cpidOpStep] at hs; cases hs
          rw [cpid_reset_get] at herr; cases herr
      · exact Or.inr ⟨f, i, by simp [lastUpd, hl], hfi⟩

/-- C05 for everything the driver does to a CommandPID: after any interleaving of updates, `set` and `reset`, an error
showing is the error the input returned at the MOST RECENT UPDATE (or the followed command getter errored at that
update, which the property's quantifier excludes). -/
theorem cpid_no_stale_err_ops (chk : Bool) (k : PIDK3 F) (c : Command F) (ops : List (CpidOp F)) (s : CpidS F)
    (h : runE (cpidOpStep chk k) (Cpid.init c) ops = .ok s) (e : Err) (he : Cpid.get s = .error e) :
    ∃ f i, lastUpd ops = some (f, i) ∧ (i = .error e ∨ ∃ e', f = some (.error e')) := by
  rcases cpid_no_stale_err_ops_aux chk k ops (Cpid.init c) s h e he with ⟨_, h0⟩ | h
  · simp [Cpid.get, Cpid.init] at h0
  · exact h

/-! #### reset erases history, on `Cpid.step` -/
/-- every update keeps the command and the last request unless the followed getter delivers a command -/
theorem cpid_stepInput_keeps (chk : Bool) (k : PIDK3 F) (s : CpidS F) (i : Output (State F)) :
    (Cpid.stepInput chk k s i).1.command = s.command ∧ (Cpid.stepInput chk k s i).1.lastRequest = s.lastRequest := by
  cases i with
  | error e => exact ⟨rfl, rfl⟩
  | ok o =>
    cases o with
    | none => exact ⟨rfl, rfl⟩
    | some d =>
      simp only [Cpid.stepInput]
      split
      · split <;> exact ⟨rfl, rfl⟩
      · exact ⟨rfl, rfl⟩
theorem cpid_step_keeps (chk : Bool) (k : PIDK3 F) (s : CpidS F) (f : Option (Output (Command F)))
    (hf : ∀ d, f ≠ some (.ok (some d))) (i : Output (State F)) :
    (Cpid.step chk k s f i).1.command = s.command ∧ (Cpid.step chk k s f i).1.lastRequest = s.lastRequest := by
  cases f with
  | none => exact cpid_stepInput_keeps chk k s i
  | some o =>
    cases o with
    | error e' => exact ⟨rfl, rfl⟩
    | ok oc =>
      cases oc with
      | none => exact cpid_stepInput_keeps chk k s i
      | some d => exact absurd rfl (hf d)

/-- `set` on two states with the same command and last request gives two states with the same command and last request -/
theorem cpid_set_agree (s s' : CpidS F) (c : Command F) (hc : s.command = s'.command) :
    (Cpid.set s c).command = (Cpid.set s' c).command ∧ (Cpid.set s c).lastRequest = (Cpid.set s' c).lastRequest := by
  unfold Cpid.set
  rw [hc]
  cases !(Command.beq c s'.command)
  · exact ⟨hc, rfl⟩
  · exact ⟨rfl, rfl⟩

/-- ONE reset event of `Cpid.step`, from any two states: an update whose input is absent or an error, and whose
followed command getter does not error, produces a state that depends on the past only through the command and the
last request — the whole staged computation (`us`: previous sample, integrals) is erased. -/
theorem cpid_step_reset_state (chk : Bool) (k : PIDK3 F) (s s' : CpidS F) (f : Option (Output (Command F)))
    (hf : ∀ e', f ≠ some (.error e')) (r : Output (State F)) (hr : r = .ok none ∨ ∃ e, r = .error e)
    (hc : s.command = s'.command) (hl : s.lastRequest = s'.lastRequest) :
    Cpid.step chk k s f r = Cpid.step chk k s' f r := by
  cases f with
  | none => exact cpid_reset_state chk k s s' r hr hc hl
  | some o =>
    cases o with
    | error e' => exact absurd rfl (hf e')
    | ok oc =>
      cases oc with
      | none => exact cpid_reset_state chk k s s' r hr hc hl
      | some d =>
        obtain ⟨h1, h2⟩ := cpid_set_agree s s' d.value hc
        exact cpid_reset_state chk k _ _ r hr h1 h2

/-- the precise reset events of `Cpid.step`: input absent or error, follower not erroring -/
def CpidIsReset (ev : CpidEv F) : Prop :=
  (ev.2 = .ok none ∨ ∃ e, ev.2 = .error e) ∧ ∀ e', ev.1 ≠ some (.error e')

/-- reset erases history, general form (any start state, any prefix — so also after `set`/`reset` calls): after a reset
event, the run continues exactly as from the state that keeps only the CURRENT command and last request. -/
theorem cpid_reset_erases_history_from (chk : Bool) (k : PIDK3 F) (s0 : CpidS F) (pre post : List (CpidEv F))
    (r : CpidEv F) (hr : CpidIsReset r) (s : CpidS F) (hpre : runE (cpidStep chk k) s0 pre = .ok s) :
    runE (cpidStep chk k) s0 (pre ++ r :: post)
      = runE (cpidStep chk k) ⟨s.command, .ok none, s.lastRequest⟩ (r :: post) := by
  rw [runE_append, hpre]
  simp only [runE_cons, cpidStep]
  rw [cpid_step_reset_state chk k s ⟨s.command, .ok none, s.lastRequest⟩ r.1 hr.2 r.2 hr.1 rfl rfl]

/-- the command and last request after a prefix in which the followed getter delivered no command are the initial ones -/
theorem cpid_run_keeps (chk : Bool) (k : PIDK3 F) (s0 : CpidS F) (pre : List (CpidEv F))
    (hpre : ∀ ev ∈ pre, ∀ d, ev.1 ≠ some (.ok (some d))) :
    ∃ s, runE (cpidStep chk k) s0 pre = .ok s ∧ s.command = s0.command ∧ s.lastRequest = s0.lastRequest := by
  induction pre generalizing s0 with
  | nil => exact ⟨s0, rfl, rfl, rfl⟩
  | cons ev rest ih =>
    simp only [runE_cons, cpidStep]
    obtain ⟨s, hs, hc, hl⟩ := ih (Cpid.step chk k s0 ev.1 ev.2).1 (fun x hx => hpre x (List.mem_cons_of_mem _ hx))
    obtain ⟨hc', hl'⟩ := cpid_step_keeps chk k s0 ev.1 (hpre ev List.mem_cons_self) ev.2
    exact ⟨s, hs, hc.trans hc', hl.trans hl'⟩

/-- C05 "reset erases history" for `Cpid.step`, against a NEWLY CONSTRUCTED stream: when the followed command getter
delivered no command before the reset (not followed, absent or erroring — otherwise the stream has a different command
than the one it was constructed with, see `cpid_reset_erases_history_from`), every state after a reset event equals that
of a new `CommandPID` fed the events from the reset on. -/
theorem cpid_reset_erases_history (chk : Bool) (k : PIDK3 F) (c : Command F) (pre post : List (CpidEv F))
    (hpre : ∀ ev ∈ pre, ∀ d, ev.1 ≠ some (.ok (some d))) (r : CpidEv F) (hr : CpidIsReset r) :
    runE (cpidStep chk k) (Cpid.init c) (pre ++ r :: post) = runE (cpidStep chk k) (Cpid.init c) (r :: post) := by
  obtain ⟨s, hs, hc, hl⟩ := cpid_run_keeps chk k (Cpid.init c) pre hpre
  rw [cpid_reset_erases_history_from chk k (Cpid.init c) pre post r hr s hs, hc, hl]
  rfl

/-! #### kernel-checked instances (scalar `Int`) -/
namespace CpidExamples
def k : PIDK3 Int := ⟨⟨1, 0, 0⟩, ⟨1, 0, 0⟩, ⟨1, 0, 0⟩⟩
def x1 : Output (State Int) := .ok (some ⟨1000000000, ⟨1, 2, 3⟩⟩)
def x2 : Output (State Int) := .ok (some ⟨2000000000, ⟨2, 2, 3⟩⟩)
def e1 : Err := .other 1
def e2 : Err := .other 2
/-- non-vacuity of `cpid_no_stale_err`: the follower delivers a command, is absent, is not followed — never errors —
and the run ends showing the error of the last input -/
def hist : List (CpidEv Int) := [(some (.ok (some ⟨0, .velocity 4⟩)), x1), (some (.ok none), x2), (none, .error e1)]
example : ∀ ev ∈ hist, ∀ e', ev.1 ≠ some (.error e') := by
  intro ev hev e'
  simp only [hist, List.mem_cons, List.mem_nil_iff, or_false] at hev
  rcases hev with rfl | rfl | rfl <;> simp
example : ∃ s, runE (cpidStep true k) (Cpid.init (.position 5)) hist = .ok s ∧ Cpid.get s = .error e1 := ⟨_, rfl, rfl⟩
/-- the step lemma is used: after the input error a present sample shows a value again -/
example : ∃ s, runE (cpidStep true k) (Cpid.init (.position 5)) [(none, .error e1), (none, x1)] = .ok s
    ∧ Cpid.get s = .ok (some ⟨1000000000, 4⟩) := ⟨_, rfl, rfl⟩

/-- THE CLAUSE FAILS WHEN THE FOLLOWER ERRORS: input error `e1`, then an update at which the followed command getter
errors (`e2`) while the input is PRESENT.  `update` aborts before the input is read (`update_following_data()?`), so
`get` still shows `e1` although the input of the most recent update did not return an error.  This is the code's
behaviour (model = implementation); the property's quantifier has no follower errors. -/
example : ∃ s, runE (cpidStep true k) (Cpid.init (.position 5)) [(none, .error e1), (some (.error e2), x1)] = .ok s
    ∧ Cpid.get s = .error e1
    ∧ [((none : Option (Output (Command Int))), (.error e1 : Output (State Int))), (some (.error e2), x1)].getLast?
        = some (some (.error e2), x1)
    ∧ x1 ≠ .error e1 := ⟨_, rfl, rfl, rfl, by simp [x1]⟩
/-- the same through the driver's operations: `cpid_no_stale_err_ops` lands in its second disjunct -/
example : ∃ s, runE (cpidOpStep true k) (Cpid.init (.position 5))
      [.upd none (.error e1), .set (.position 5), .upd (some (.error e2)) x1] = .ok s ∧ Cpid.get s = .error e1 :=
  ⟨_, rfl, rfl⟩

/-- non-vacuity of `cpid_reset_erases_history`: reset events exist (absent input while following an absent command;
input error while not following) and the prefix hypothesis holds -/
example : CpidIsReset ((some (.ok none), .ok none) : CpidEv Int) := ⟨Or.inl rfl, by simp⟩
example : CpidIsReset ((none, .error e1) : CpidEv Int) := ⟨Or.inr ⟨e1, rfl⟩, by simp⟩
example : ∀ ev ∈ ([(none, x1), (some (.ok none), x2)] : List (CpidEv Int)), ∀ d, ev.1 ≠ some (.ok (some d)) := by
  intro ev hev d
  simp only [List.mem_cons, List.mem_nil_iff, or_false] at hev
  rcases hev with rfl | rfl <;> simp
/-- an update whose follower ERRORS is not a reset even when the input is absent: nothing is erased -/
example : ∃ s s', runE (cpidStep true k) (Cpid.init (.position 5)) [(none, x1), (some (.error e2), .ok none)] = .ok s
    ∧ runE (cpidStep true k) (Cpid.init (.position 5)) [(some (.error e2), .ok none)] = .ok s'
    ∧ Cpid.get s = .ok (some ⟨1000000000, 4⟩) ∧ Cpid.get s' = .ok none := ⟨_, _, rfl, rfl, rfl, rfl⟩
/-- a command delivered by the follower before the reset survives it (it is a setting, not history): the hypothesis of
`cpid_reset_erases_history` on the prefix is needed, `cpid_reset_erases_history_from` is the general statement -/
example : ∃ s s', runE (cpidStep true k) (Cpid.init (.position 5))
        [(some (.ok (some ⟨0, .velocity 4⟩)), x1), (none, .ok none), (none, x2)] = .ok s
    ∧ runE (cpidStep true k) (Cpid.init (.position 5)) [(none, .ok none), (none, x2)] = .ok s'
    ∧ Cpid.get s = .ok none ∧ Cpid.get s' = .ok (some ⟨2000000000, 3⟩) := ⟨_, _, rfl, rfl, rfl, rfl⟩
end CpidExamples

/-! ### FreezeStream: the restriction of `freeze_last_false`, explicit -/
section freeze
variable {T : Type}
/-- the boolean of a present condition (`true` for a non-present one; never used under the hypothesis below) -/
def condVal (c : Output Bool) : Bool := match c with | .ok (some d) => d.value | _ => true
def condTime (c : Output Bool) : Int := match c with | .ok (some d) => d.time | _ => 0

/-- `freeze_last_false`, restated with its restriction EXPLICIT: for a history of (condition, input) pairs in which
every condition is PRESENT (`Ok(Some(bool))`), the value of the freeze stream is what the input returned at the last
update whose condition was false (the start value if there was none).  The restriction is forced by the code: an
absent condition makes the stream absent and an erroring condition makes it show that error, whatever the input
returned at the last false condition (`freeze_absent_condition`, and the two examples below) — so "exactly what its
input returned at the last update at which its condition was false" can only be claimed for the property's quantifier
"all boolean condition histories". -/
theorem freeze_last_false_present_conditions (s : Output T) (h : List (Output Bool × Output T))
    (hp : ∀ x ∈ h, ∃ d, x.1 = .ok (some d)) :
    freezeRun s h = lastFalseInput s (h.map (fun x => (condVal x.1, x.2))) := by
  have hh : h = (h.map (fun x => (condVal x.1, condTime x.1, x.2))).map
      (fun x => ((.ok (some ⟨x.2.1, x.1⟩) : Output Bool), x.2.2)) := by
    rw [List.map_map]
    conv => lhs; rw [← List.map_id h]
    apply List.map_congr_left
    intro x hx
    obtain ⟨d, hd⟩ := hp x hx
    obtain ⟨c, i⟩ := x
    simp only at hd; subst hd
    rfl
  have := freeze_last_false s (h.map (fun x => (condVal x.1, condTime x.1, x.2)))
  rw [← hh] at this
  rw [this, List.map_map]
  rfl
/-- non-vacuity, and the restriction is necessary: with all conditions present the last false input shows … -/
example : freezeRun (T := Int) (.ok none) [(.ok (some ⟨1, false⟩), .ok (some ⟨1, 7⟩)), (.ok (some ⟨2, true⟩), .ok (some ⟨2, 9⟩))]
    = .ok (some ⟨1, 7⟩) := rfl
/-- … an absent condition afterwards makes the stream absent … -/
example : freezeRun (T := Int) (.ok none) [(.ok (some ⟨1, false⟩), .ok (some ⟨1, 7⟩)), (.ok none, .ok (some ⟨2, 9⟩))]
    = .ok none := rfl
/-- … and an erroring condition makes it show the condition's error. -/
example : freezeRun (T := Int) (.ok none) [(.ok (some ⟨1, false⟩), .ok (some ⟨1, 7⟩)), (.error (.other 3), .ok (some ⟨2, 9⟩))]
    = .error (.other 3) := rfl
end freeze

/-! ### kernel-checked instances (scalar `Int`): non-vacuity of the hypotheses above, and necessity of the restrictions -/
/-- non-vacuity of `ewma_no_stale_err` (f32 instantiation at `Int`): a run that ends showing an error -/
example : ∃ s, runE (Ewma.step (F := Int) scaleF addF 1) Ewma.init
      [.ok (some ⟨1000000000, 4⟩), .error (.other 2)] = .ok s ∧ Ewma.get s = .error (.other 2) := ⟨_, rfl, rfl⟩
/-- recovery: error, absent, present — no error shows -/
example : ∃ s, runE (Ewma.step (F := Int) scaleF addF 1) Ewma.init
      [.error (.other 1), .ok none, .ok (some ⟨1000000000, 4⟩)] = .ok s ∧ Ewma.get s = .ok (some ⟨1000000000, 4⟩) :=
  ⟨_, rfl, rfl⟩
example : ∃ s, runE (Ewma.step (F := Int) (scaleQdl true) (Quantity.add true) 1) Ewma.init
      [.ok (some ⟨1000000000, ⟨4, MILLIMETER true⟩⟩), .ok (some ⟨2000000000, ⟨8, MILLIMETER true⟩⟩), .error .fromNone] = .ok s
      ∧ Ewma.get s = .error .fromNone := ⟨_, rfl, rfl⟩
/-- non-vacuity of `hpre`: a two-sample prefix does not panic -/
example : ∃ s, runE (Ewma.step (F := Int) scaleF addF 1) Ewma.init
      [.ok (some ⟨1000000000, 4⟩), .ok (some ⟨2000000000, 8⟩)] = .ok s := ⟨_, rfl⟩
/-- absent deletion needs "ends in a non-absent event": after `[err, absent]` the full run shows absent, the run with
the absent event deleted still shows the error (they are `EwmaSim`-related, not equal). -/
example : (runE (Ewma.step (F := Int) scaleF addF 1) Ewma.init [.error (.other 1), .ok none]).map Ewma.get
      = .ok (.ok none)
    ∧ (runE (Ewma.step (F := Int) scaleF addF 1) Ewma.init
        ([.error (.other 1), .ok none].filter (fun i => !isAbsent i))).map Ewma.get = .ok (.error (.other 1)) :=
  ⟨rfl, rfl⟩

/-! MA -/
example : ∃ s, runE (Ma.step (F := Int) scaleF addF divF (some 0) 2000000000) Ma.init
      [.ok (some ⟨1000000000, 4⟩), .ok (some ⟨2000000000, 8⟩), .error (.other 2)] = .ok s
      ∧ Ma.get s = .error (.other 2) := ⟨_, rfl, rfl⟩
example : ∃ s, runE (Ma.step (F := Int) (scaleQs true) (Quantity.add true) (divQs true) none 2000000000) Ma.init
      [.ok (some ⟨1000000000, ⟨4, MILLIMETER true⟩⟩), .ok none, .ok (some ⟨2000000000, ⟨8, MILLIMETER true⟩⟩)] = .ok s
      ∧ ∃ v, Ma.get s = .ok (some v) := ⟨_, rfl, _, rfl⟩
example : (runE (Ma.step (F := Int) scaleF addF divF (some 0) 2000000000) Ma.init [.error (.other 1), .ok none]).map Ma.get
      = .ok (.ok none)
    ∧ (runE (Ma.step (F := Int) scaleF addF divF (some 0) 2000000000) Ma.init
        ([.error (.other 1), .ok none].filter (fun i => !isAbsent i))).map Ma.get = .ok (.error (.other 1)) :=
  ⟨rfl, rfl⟩

/-! to-state -/
example : ∃ s, runE (A2s.step (F := Int) true) A2s.init
      [.ok (some ⟨1000000000, ⟨4, MILLIMETER_PER_SECOND_SQUARED true⟩⟩), .error (.other 1),
       .ok (some ⟨2000000000, ⟨4, MILLIMETER_PER_SECOND_SQUARED true⟩⟩)] = .ok s ∧ A2s.get true s = .ok (.ok none) :=
  ⟨_, rfl, rfl⟩
example : ∃ s, runE (V2s.step (F := Int) true) V2s.init
      [.ok (some ⟨1000000000, ⟨4, MILLIMETER_PER_SECOND true⟩⟩), .ok (some ⟨2000000000, ⟨6, MILLIMETER_PER_SECOND true⟩⟩)]
      = .ok s ∧ ∃ v, V2s.get true s = .ok (.ok (some v)) := ⟨_, rfl, _, rfl⟩
example : ∃ s, runE (P2s.step (F := Int) true) P2s.init
      [.ok (some ⟨1000000000, ⟨4, MILLIMETER true⟩⟩), .ok (some ⟨2000000000, ⟨6, MILLIMETER true⟩⟩)] = .ok s := ⟨_, rfl⟩

/-! the theorems applied to concrete histories -/
/-- `ewmaF_absent_deletion` applies: the history ends in a present sample -/
example : runE (Ewma.step (F := Int) scaleF addF 1) Ewma.init
      ([.error (.other 1), .ok none, .ok (some ⟨1000000000, 4⟩)].filter (fun i => !isAbsent i))
    = runE (Ewma.step (F := Int) scaleF addF 1) Ewma.init [.error (.other 1), .ok none, .ok (some ⟨1000000000, 4⟩)] :=
  ewmaF_absent_deletion 1 _ (.ok (some ⟨1000000000, 4⟩)) rfl (by simp)
/-- `maF_absent_deletion` applies: the history ends in an error -/
example : runE (Ma.step (F := Int) scaleF addF divF (some 0) 2000000000) Ma.init
      ([.ok (some ⟨1000000000, 4⟩), .ok none, .error (.other 2)].filter (fun i => !isAbsent i))
    = runE (Ma.step (F := Int) scaleF addF divF (some 0) 2000000000) Ma.init
        [.ok (some ⟨1000000000, 4⟩), .ok none, .error (.other 2)] :=
  maF_absent_deletion 2000000000 _ (.error (.other 2)) rfl (by simp)
/-- non-vacuity of `hpre` for the moving average (it does panic when the window is not positive: the model's and the
code's `input_values[0]` on an emptied queue) -/
example : ∃ s, runE (Ma.step (F := Int) scaleF addF divF (some 0) 2000000000) Ma.init
      [.ok (some ⟨1000000000, 4⟩), .ok (some ⟨2000000000, 8⟩)] = .ok s := ⟨_, rfl⟩
example : runE (Ma.step (F := Int) scaleF addF divF (some 0) 0) Ma.init [.ok (some ⟨1000000000, 4⟩)] = .error .oob := rfl
/-- pass-through converters: a run that ends showing the error of its last event, and one that has recovered -/
example : ∃ s, runE (f2qStep (F := Int)) F2q.init [.ok (some ⟨1, 4⟩), .error (.other 2)] = .ok s
    ∧ F2q.get (MILLIMETER true) s = .error (.other 2) := ⟨_, rfl, rfl⟩
example : ∃ s, runE (q2fStep (F := Int)) Q2f.init [.error (.other 2), .ok (some ⟨1, ⟨4, MILLIMETER true⟩⟩)] = .ok s
    ∧ Q2f.get s = .ok (some ⟨1, 4⟩) := ⟨_, rfl, rfl⟩

end Rrtk.Thm.C05
