/-
C06 at real binary32 rounding: the tier-L theorem `new_times_ordered` instantiated at the scalar type `SF` (finite binary32
numbers with correctly rounded `+ − * /`, `Rrtk/Thm/Lemmas/SoftScalar.lean`), with its five scalar hypotheses PROVED.
-/
import Rrtk.Thm.C06
import Rrtk.Thm.Lemmas.SoftScalar
import Rrtk.Thm.Lemmas.C06More
set_option linter.unusedSectionVars false
set_option linter.unusedSimpArgs false
namespace Rrtk.Thm.C06
open Rrtk Rrtk.Thm.SoftScalar

/-- `0 ≤ t1 ≤ t2 ≤ t3` for every motion profile the constructor returns, in binary32 arithmetic.  Discharged:
`hmul` (`mul_e9_mono`), `hto` (`toInt_mono`), `hadd` (`le_add_of_nonneg`), `htrans` (`le_trans'`), `hz` (`toInt_zero_mul`). -/
theorem new_times_ordered_binary32 (chk : Bool) (s e : State SF) (mv ma : Quantity SF) (mp : MotionProfile SF)
    (h : MotionProfile.new chk s e mv ma = .ok mp) :
    0 ≤ mp.t1 ∧ mp.t1 ≤ mp.t2 ∧ mp.t2 ≤ mp.t3 :=
  new_times_ordered chk s e mv ma mp mul_e9_mono toInt_mono le_add_of_nonneg le_trans' toInt_zero_mul h

/-! ### non-vacuity: the constructor succeeds on binary32 data, with operations that really round -/
namespace Binary32Examples

/-- the test-suite's first profile (0 → 3 mm, max 0.1 mm/s, 0.01 mm/s²) with the binary32 values of `0.1` and `0.01` -/
def exStart : State SF := ⟨c0, c0, c0⟩
def exEnd : State SF := ⟨c3, c0, c0⟩
def exMv : Quantity SF := ⟨rnd (1 / 10), ⟨1, -1⟩⟩
def exMa : Quantity SF := ⟨rnd (1 / 100), ⟨1, -2⟩⟩

/-- `0.1f32` is not `1/10`: the literal itself is rounded -/
example : exMv.value.val = 13421773 / 134217728 := by decide +kernel

/-- the stored times of that profile, computed with binary32 rounding at every step -/
def exTimes : Option (Int × Int × Int) :=
  (MotionProfile.new true exStart exEnd exMv exMa).toOption.map (fun mp => (mp.t1, mp.t2, mp.t3))

/-- the constructor accepts it (all three asserts pass in binary32) and `t2` shows the rounding: it is `30.000001024 s`,
not the `30 s` of exact arithmetic (`new_example` of `Thm/C06.lean` over `ℚ` gives `30000000000`) -/
theorem exTimes_eq : exTimes = some (10000000000, 30000001024, 40000000000) := by decide +kernel

/-- hence the hypothesis `h` of `new_times_ordered_binary32` is satisfiable, and its conclusion is what is observed -/
example : ∃ mp, MotionProfile.new true exStart exEnd exMv exMa = .ok mp ∧ 0 ≤ mp.t1 ∧ mp.t1 ≤ mp.t2 ∧ mp.t2 ≤ mp.t3 := by
  have h := exTimes_eq
  unfold exTimes at h
  cases hn : MotionProfile.new true exStart exEnd exMv exMa with
  | error p => rw [hn] at h; cases h
  | ok mp => exact ⟨mp, rfl, new_times_ordered_binary32 _ _ _ _ _ _ hn⟩

/-- a profile the constructor rejects in binary32 (negative `t1`: start velocity above the maximum), so `h` is a real
hypothesis -/
example : (MotionProfile.new true (⟨c0, c1, c0⟩ : State SF) exEnd exMv exMa).toOption.isNone = true := by decide +kernel

end Binary32Examples

end Rrtk.Thm.C06
