/-
C07 extension — closes three audit gaps of `Rrtk/Thm/C07.lean`.

1. **Mirror symmetry beyond exact arithmetic.**  The tier-R theorems `mirror_partial`, `mirror_velocity`, … use `ring` in an
   ordered field.  Here the same statements are proved
   * in tier L (`mirror_of_laws`): for an ARBITRARY scalar type under twelve named laws, each saying only that negation
     commutes with one operation the code uses (`+ − * /`, `<`, `==`, the literals `0.0`, `1.0`).  No associativity,
     distributivity or commutativity is used, and no fact about `as i64`: the mirrored constructor computes `t1, t2, t3`
     from the SAME terms.
   * for binary32 (`mirror_binary32`): `F = SF`, the finite binary32 numbers with correctly rounded operations
     (`Rrtk/Thm/Lemmas/SoftScalar.lean`), with every law DISCHARGED (round-to-nearest-even is an odd function).
   Both are about the profile `MotionProfile.new` returns for the negated states and about all of its accessors.
   They need `start.position` and `end.position` strictly ordered (for `SF`: different); at equal positions the claim is
   false of the code (finding F5, `mirror_fails_at_equal_positions`, and in binary32
   `Binary32Mirror.mirror_binary32_fails_at_equal_positions`).
   The sign of zero — what `SF` does not see.  `SF` has one zero, so "exactly" means: the same binary32 NUMBER.  In the
   hardware format three of the laws hold only up to the sign of a ZERO result: `hneg0` (`-(0.0)` is `-0.0`), and
   `hadd`/`hsub` when the exact sum is zero (`x + (-x)` and `(-x) + x` are both `+0.0`).  So on hardware an output that is
   zero — the literal `0.0` of the constant-velocity acceleration and of the post-completion velocity/acceleration, or a
   velocity/position that cancels exactly — can be `+0.0` for a move and for its mirror; the two compare equal with `==`
   and decode to the same number.  Every non-zero output is negated bit for bit (the remaining laws are sign-bit
   manipulations that commute with rounding).
2. **Arrival with a moving end state** (`arrival_exact_when_end_velocity`, tier S).
3. (`accepted_when_room` got its missing hypothesis `mv ≠ 0` in `Rrtk/Thm/C07.lean`.)
-/
import Rrtk.Thm.C07
import Rrtk.Thm.Lemmas.SoftScalar
import Rrtk.Thm.Lemmas.SoftScalarNeg
set_option linter.unusedSectionVars false
set_option linter.unusedSimpArgs false
namespace Rrtk.Thm.C07
open Rrtk Rrtk.Thm.MpL MotionProfile

/-! ## tier S: arrival when the end state is moving -/
section S
variable {F : Type} [Add F] [Sub F] [Mul F] [Div F] [Neg F] [LT F] [LE F] [BEq F]
  [DecidableLT F] [DecidableLE F] [FloatLike F]

/-- **arrival, end state with a non-zero velocity** (tier S, any scalar, hence bit-exact in binary32): if the end state
has `acceleration == 0.0` and NOT `velocity == 0.0`, then for every profile `new` returns and every `t` at or after
completion
* `get_velocity` is exactly the end velocity (the stored value, no arithmetic, whatever the rounding of `t1..t3`),
* `History::get` is the velocity command with that value, stamped `t`,
* `get_mode` is `Velocity`, `get_position` is `None` (the profile makes no promise about the position: the code does not
  report `end.position` in this case), `get_acceleration` is the literal `0.0 mm/s²`. -/
theorem arrival_exact_when_end_velocity (chk : Bool) (s e : State F) (mv ma : Quantity F) (mp : MotionProfile F)
    (h : MotionProfile.new chk s e mv ma = .ok mp)
    (ha : (e.acceleration == c0) = true) (hv : (e.velocity == c0) = false)
    (t : Int) (hc : getPiece mp t = .complete) :
    getVelocity chk mp t = .ok (some ⟨e.velocity, MILLIMETER_PER_SECOND chk⟩) ∧
    historyGet chk mp t = .ok (some ⟨t, .velocity e.velocity⟩) ∧
    getMode mp t = some .velocity ∧
    getPosition chk mp t = .ok none ∧
    getAcceleration chk mp t = some ⟨c0, MILLIMETER_PER_SECOND_SQUARED chk⟩ := by
  have hec := (C06.new_end_command chk s e mv ma mp h).1
  have hcmd : Command.ofState e = .velocity e.velocity := by simp [Command.ofState, ha, hv]
  rw [hcmd] at hec
  obtain ⟨h0, h1, h2, h3⟩ := (C06.piece_complete_iff mp t).1 hc
  refine ⟨?_, ?_, ?_, ?_, ?_⟩
  · rw [C06.vel_complete chk mp t hc, hec]; rfl
  · rw [(C06.history_after_complete chk mp t hc).2, hec]
  · rw [C06.mode_matches_piece, hc, hec]; rfl
  · rw [C06.pos_complete chk mp t hc, hec]; rfl
  · simp only [getAcceleration, Int.not_lt.2 h0, Int.not_lt.2 h1, Int.not_lt.2 h2, Int.not_lt.2 h3, if_false, hec]
    rfl

end S

/-! ## tier L: mirror symmetry from named laws of negation -/
section L
variable {F : Type} [Add F] [Sub F] [Mul F] [Div F] [Neg F] [LT F] [LE F] [BEq F]
  [DecidableLT F] [DecidableLE F] [FloatLike F]

/-- the laws of the scalar type the mirror theorem uses: negation commutes with every operation of the constructor and
of the accessors.  All hold in every ordered field (`negLaws_exact`) and for the binary32 numbers `SF`
(`negLaws_binary32`); in the hardware format `neg_c0`, and `neg_add`/`neg_sub` at an exactly cancelling sum, hold up to
the sign of the zero result (`-0.0 == 0.0`), the others bit for bit on non-NaN operands. -/
structure NegLaws (F : Type) [Add F] [Sub F] [Mul F] [Div F] [Neg F] [LT F] [BEq F] [FloatLike F] : Prop where
  neg_add : ∀ a b : F, -a + -b = -(a + b)
  neg_sub : ∀ a b : F, -a - -b = -(a - b)
  neg_mul : ∀ a b : F, -a * b = -(a * b)
  mul_neg : ∀ a b : F, a * -b = -(a * b)
  neg_div : ∀ a b : F, -a / b = -(a / b)
  div_neg : ∀ a b : F, a / -b = -(a / b)
  neg_neg : ∀ a : F, - -a = a
  neg_c0 : -(c0 : F) = c0
  neg_c1 : -(c1 : F) = cm1
  neg_lt_neg : ∀ a b : F, -a < -b ↔ b < a
  lt_asymm : ∀ a b : F, a < b → ¬ b < a
  neg_beq_neg : ∀ a b : F, (-a == -b) = (a == b)

/-- the mirrored profile: positions, velocities and accelerations negated, times kept (the tier-S twin of `negProfile`,
which is declared over a field) -/
def mirrorProfile (mp : MotionProfile F) : MotionProfile F :=
  ⟨Quantity.neg mp.startPos, Quantity.neg mp.startVel, mp.t1, mp.t2, mp.t3, Quantity.neg mp.maxAcc,
    Command.neg mp.endCommand⟩

/-- what "negates every output" means: `mp'` answers every accessor, at every time, with the negation of what `mp`
answers — same piece, same mode, same panic if any, same time stamp -/
def Mirrored (chk : Bool) (mp mp' : MotionProfile F) : Prop :=
  mp'.t1 = mp.t1 ∧ mp'.t2 = mp.t2 ∧ mp'.t3 = mp.t3 ∧
  ∀ t : Int,
    getPiece mp' t = getPiece mp t ∧
    getMode mp' t = getMode mp t ∧
    getAcceleration chk mp' t = (getAcceleration chk mp t).map Quantity.neg ∧
    getVelocity chk mp' t = (getVelocity chk mp t).map (Option.map Quantity.neg) ∧
    getPosition chk mp' t = (getPosition chk mp t).map (Option.map Quantity.neg) ∧
    historyGet chk mp' t = (historyGet chk mp t).map (Option.map (fun d => ⟨d.time, Command.neg d.value⟩))

/-! ### the constructor -/
theorem sgn_neg_of_laws (L : NegLaws F) (s e : State F)
    (hord : s.position < e.position ∨ e.position < s.position) :
    sgn (State.neg s) (State.neg e) = - sgn s e := by
  simp only [sgn, State.neg, L.neg_lt_neg]
  rcases hord with h | h
  · have h' : ¬ e.position < s.position := L.lt_asymm _ _ h
    simp only [h, h', if_true, if_false]
    exact L.neg_c1.symm
  · have h' : ¬ s.position < e.position := L.lt_asymm _ _ h
    simp only [h, h', if_true, if_false]
    rw [← L.neg_c1, L.neg_neg]

private theorem vMax_negL (L : NegLaws F) (s e : State F) (mv : F)
    (hord : s.position < e.position ∨ e.position < s.position) :
    vMax (State.neg s) (State.neg e) mv = - vMax s e mv := by
  simp only [vMax, sgn_neg_of_laws L s e hord, L.mul_neg]
private theorem aMax_negL (L : NegLaws F) (s e : State F) (ma : F)
    (hord : s.position < e.position ∨ e.position < s.position) :
    aMax (State.neg s) (State.neg e) ma = - aMax s e ma := by
  simp only [aMax, sgn_neg_of_laws L s e hord, L.mul_neg]
private theorem T1_negL (L : NegLaws F) (s e : State F) (mv ma : F)
    (hord : s.position < e.position ∨ e.position < s.position) :
    T1 (State.neg s) (State.neg e) mv ma = T1 s e mv ma := by
  simp only [T1, vMax_negL L s e mv hord, aMax_negL L s e ma hord]
  simp only [State.neg, L.neg_sub, L.neg_div, L.div_neg, L.neg_neg]
private theorem D3_negL (L : NegLaws F) (s e : State F) (mv ma : F)
    (hord : s.position < e.position ∨ e.position < s.position) :
    D3 (State.neg s) (State.neg e) mv ma = D3 s e mv ma := by
  simp only [D3, vMax_negL L s e mv hord, aMax_negL L s e ma hord]
  simp only [State.neg, L.neg_sub, L.neg_div, L.div_neg, L.neg_neg]
private theorem D2_negL (L : NegLaws F) (s e : State F) (mv ma : F)
    (hord : s.position < e.position ∨ e.position < s.position) :
    D2 (State.neg s) (State.neg e) mv ma = D2 s e mv ma := by
  simp only [D2, T1_negL L s e mv ma hord, D3_negL L s e mv ma hord, vMax_negL L s e mv hord]
  simp only [State.neg, L.neg_sub, L.neg_add, L.neg_div, L.neg_mul, L.div_neg, L.neg_neg]

/-- `Command::from(-state) = -Command::from(state)`: the `== 0.0` tests do not see the sign -/
theorem ofState_neg_of_laws (L : NegLaws F) (e : State F) :
    Command.ofState (State.neg e) = Command.neg (Command.ofState e) := by
  have hb : ∀ a : F, (-a == (c0 : F)) = (a == (c0 : F)) := fun a => by
    have := L.neg_beq_neg a c0
    rwa [L.neg_c0] at this
  simp only [Command.ofState, State.neg, hb]
  cases (e.acceleration == (c0 : F)) <;> cases (e.velocity == (c0 : F)) <;> rfl

theorem newResult_neg_of_laws (L : NegLaws F) (chk : Bool) (s e : State F) (mv ma : F)
    (hord : s.position < e.position ∨ e.position < s.position) :
    newResult chk (State.neg s) (State.neg e) mv ma = mirrorProfile (newResult chk s e mv ma) := by
  simp only [newResult, mirrorProfile, T2, T3, T1_negL L s e mv ma hord, D3_negL L s e mv ma hord,
    D2_negL L s e mv ma hord, aMax_negL L s e ma hord, ofState_neg_of_laws L]
  rfl

theorem newSpec_neg_of_laws (L : NegLaws F) (chk : Bool) (s e : State F) (mv ma : F)
    (hord : s.position < e.position ∨ e.position < s.position) :
    newSpec chk (State.neg s) (State.neg e) mv ma = (newSpec chk s e mv ma).map mirrorProfile := by
  simp only [newSpec, T1_negL L s e mv ma hord, D3_negL L s e mv ma hord, D2_negL L s e mv ma hord,
    newResult_neg_of_laws L chk s e mv ma hord]
  repeat' split
  all_goals rfl

/-- the constructor, accepted case, with or without dimension checking -/
theorem mirror_new_of_laws (L : NegLaws F) (chk : Bool) (s e : State F) (mv ma : Quantity F) (mp : MotionProfile F)
    (hord : s.position < e.position ∨ e.position < s.position)
    (h : MotionProfile.new chk s e mv ma = .ok mp) :
    MotionProfile.new chk (State.neg s) (State.neg e) mv ma = .ok (mirrorProfile mp) := by
  have hs := new_ok_spec h
  have hm : newSpec chk (State.neg s) (State.neg e) mv.value ma.value = .ok (mirrorProfile mp) := by
    rw [newSpec_neg_of_laws L chk s e _ _ hord, hs]; rfl
  cases chk with
  | false => rw [new_false]; exact hm
  | true =>
    obtain ⟨h1, h2⟩ := new_true_units h
    obtain ⟨mvv, mvu⟩ := mv
    obtain ⟨mav, mau⟩ := ma
    simp only at h1 h2
    subst h1 h2
    rw [new_true_good]; exact hm

/-- without dimension checking the panics coincide too: the mirrored constructor fails the same assert -/
theorem mirror_new_false_of_laws (L : NegLaws F) (s e : State F) (mv ma : Quantity F)
    (hord : s.position < e.position ∨ e.position < s.position) :
    MotionProfile.new false (State.neg s) (State.neg e) mv ma =
      (MotionProfile.new false s e mv ma).map mirrorProfile := by
  rw [new_false, new_false, newSpec_neg_of_laws L false s e _ _ hord]

/-- the SIGN of the two limits is irrelevant (`new` takes their `abs` first), given `abs (-x) = abs x` -/
theorem new_neg_limits (habs : ∀ x : F, FloatLike.absF (-x) = FloatLike.absF x)
    (chk : Bool) (s e : State F) (mv ma : Quantity F) :
    MotionProfile.new chk s e (Quantity.neg mv) (Quantity.neg ma) = MotionProfile.new chk s e mv ma := by
  have h1 : (Quantity.neg mv).abs = mv.abs := by simp only [Quantity.abs, Quantity.neg, habs]
  have h2 : (Quantity.neg ma).abs = ma.abs := by simp only [Quantity.abs, Quantity.neg, habs]
  unfold MotionProfile.new
  rw [h1, h2]

/-! ### the accessors of the mirrored profile -/
theorem mirrorProfile_wf (chk : Bool) (mp : MotionProfile F) (hwf : WF chk mp) : WF chk (mirrorProfile mp) := hwf
theorem mirrorProfile_piece (mp : MotionProfile F) (t : Int) : getPiece (mirrorProfile mp) t = getPiece mp t := rfl
theorem mirrorProfile_mode (mp : MotionProfile F) (t : Int) : getMode (mirrorProfile mp) t = getMode mp t := by
  have : (Command.neg mp.endCommand).kind = mp.endCommand.kind := by cases mp.endCommand <;> rfl
  simp only [getMode, mirrorProfile, this]

private theorem velF_negL (L : NegLaws F) (mp : MotionProfile F) (τ : Int) :
    velF (mirrorProfile mp) τ = - velF mp τ := by
  simp only [velF, mirrorProfile, Quantity.neg, L.neg_mul, L.neg_add]
private theorem pos1F_negL (L : NegLaws F) (mp : MotionProfile F) (t : Int) :
    pos1F (mirrorProfile mp) t = - pos1F mp t := by
  simp only [pos1F, mirrorProfile, Quantity.neg, L.mul_neg, L.neg_mul, L.neg_add]
private theorem pos2F_negL (L : NegLaws F) (mp : MotionProfile F) (t : Int) :
    pos2F (mirrorProfile mp) t = - pos2F mp t := by
  simp only [pos2F, mirrorProfile, Quantity.neg, L.mul_neg, L.neg_mul, L.neg_add]
private theorem pos3F_negL (L : NegLaws F) (mp : MotionProfile F) (t : Int) :
    pos3F (mirrorProfile mp) t = - pos3F mp t := by
  simp only [pos3F, mirrorProfile, Quantity.neg, L.mul_neg, L.neg_mul, L.neg_sub, L.neg_add]

/-- acceleration accessor, ANY profile value (uses only `-0.0 = 0.0`, for the literal of the constant-velocity piece and
of a non-acceleration end command) -/
theorem mirror_acceleration_of_laws (L : NegLaws F) (chk : Bool) (mp : MotionProfile F) (t : Int) :
    getAcceleration chk (mirrorProfile mp) t = (getAcceleration chk mp t).map Quantity.neg := by
  have hz : (⟨c0, MILLIMETER_PER_SECOND_SQUARED chk⟩ : Quantity F) =
      Quantity.neg ⟨c0, MILLIMETER_PER_SECOND_SQUARED chk⟩ := by
    simp only [Quantity.neg, L.neg_c0]
  have hc : (Command.neg mp.endCommand).getAcceleration chk = Quantity.neg (mp.endCommand.getAcceleration chk) := by
    cases mp.endCommand
    · exact hz
    · exact hz
    · rfl
  unfold getAcceleration
  by_cases h0 : t < 0
  · simp only [h0, if_true, Option.map]
  by_cases h1 : t < mp.t1
  · simp only [h0, h1, if_true, if_false, Option.map, mirrorProfile]
  by_cases h2 : t < mp.t2
  · simp only [h0, h1, h2, if_true, if_false, Option.map, mirrorProfile]
    rw [← hz]
  by_cases h3 : t < mp.t3
  · simp only [h0, h1, h2, h3, if_true, if_false, Option.map, mirrorProfile]
  · simp only [h0, h1, h2, h3, if_false, Option.map, mirrorProfile, hc]

private theorem endcmd_vel_negL (L : NegLaws F) (chk : Bool) (c : Command F) :
    (Command.neg c).getVelocity chk = (c.getVelocity chk).map Quantity.neg := by
  cases c
  · simp only [Command.neg, Command.getVelocity, Option.map, Quantity.neg, L.neg_c0]
  · rfl
  · rfl
private theorem endcmd_pos_negL (chk : Bool) (c : Command F) :
    (Command.neg c).getPosition chk = (c.getPosition chk).map Quantity.neg := by
  cases c <;> rfl

/-- velocity accessor of a well-dimensioned profile (every profile `new` returns is one: `C06.new_wf`) -/
theorem mirror_velocity_of_laws (L : NegLaws F) (chk : Bool) (mp : MotionProfile F) (hwf : WF chk mp) (t : Int) :
    getVelocity chk (mirrorProfile mp) t = (getVelocity chk mp t).map (Option.map Quantity.neg) := by
  rw [getVelocity_wf (mirrorProfile_wf chk mp hwf), getVelocity_wf hwf]
  simp only [velOpt, mirrorProfile_piece, velF_negL L]
  have hc : (mirrorProfile mp).endCommand.getVelocity chk = (mp.endCommand.getVelocity chk).map Quantity.neg :=
    endcmd_vel_negL L chk mp.endCommand
  cases getPiece mp t
  · rfl
  · rfl
  · rfl
  · rfl
  · simp only [hc]; rfl

/-- position accessor of a well-dimensioned profile -/
theorem mirror_position_of_laws (L : NegLaws F) (chk : Bool) (mp : MotionProfile F) (hwf : WF chk mp) (t : Int) :
    getPosition chk (mirrorProfile mp) t = (getPosition chk mp t).map (Option.map Quantity.neg) := by
  rw [getPosition_wf (mirrorProfile_wf chk mp hwf), getPosition_wf hwf]
  simp only [posOpt, mirrorProfile_piece, pos1F_negL L, pos2F_negL L, pos3F_negL L]
  have hc : (mirrorProfile mp).endCommand.getPosition chk = (mp.endCommand.getPosition chk).map Quantity.neg :=
    endcmd_pos_negL chk mp.endCommand
  cases getPiece mp t
  · rfl
  · rfl
  · rfl
  · rfl
  · simp only [hc]; rfl

/-- `History::get` of a well-dimensioned profile: same time stamp, negated command -/
theorem mirror_history_of_laws (L : NegLaws F) (chk : Bool) (mp : MotionProfile F) (hwf : WF chk mp) (t : Int) :
    historyGet chk (mirrorProfile mp) t =
      (historyGet chk mp t).map (Option.map (fun d => ⟨d.time, Command.neg d.value⟩)) := by
  rw [C06.history_wf chk _ (mirrorProfile_wf chk mp hwf), C06.history_wf chk mp hwf]
  simp only [mirrorProfile_piece, velF_negL L]
  cases getPiece mp t <;> rfl

/-- all accessors at once -/
theorem mirrored_mirrorProfile (L : NegLaws F) (chk : Bool) (mp : MotionProfile F) (hwf : WF chk mp) :
    Mirrored chk mp (mirrorProfile mp) :=
  ⟨rfl, rfl, rfl, fun t => ⟨mirrorProfile_piece mp t, mirrorProfile_mode mp t, mirror_acceleration_of_laws L chk mp t,
    mirror_velocity_of_laws L chk mp hwf t, mirror_position_of_laws L chk mp hwf t,
    mirror_history_of_laws L chk mp hwf t⟩⟩

/-- the mirror statement from the bundled laws -/
theorem mirror_of_negLaws (L : NegLaws F) (chk : Bool) (s e : State F) (mv ma : Quantity F) (mp : MotionProfile F)
    (hord : s.position < e.position ∨ e.position < s.position)
    (h : MotionProfile.new chk s e mv ma = .ok mp) :
    ∃ mp', MotionProfile.new chk (State.neg s) (State.neg e) mv ma = .ok mp' ∧ mp' = mirrorProfile mp ∧
      Mirrored chk mp mp' :=
  ⟨mirrorProfile mp, mirror_new_of_laws L chk s e mv ma mp hord h, rfl,
    mirrored_mirrorProfile L chk mp (MpL.new_wf h)⟩

/-- **mirror symmetry, tier L.**  Let the scalar type satisfy the named laws below (negation commutes with `+ − * /`
in each argument, with `<` and `==`, `-(-x) = x`, `-0.0 = 0.0`, `-(1.0) = -1.0`, `<` asymmetric).  If `new` accepts a move
whose start and end positions are strictly ordered, it accepts the move with both states negated (same limits), and the
profile it returns has the same `t1, t2, t3` and answers `get_piece`, `get_mode` identically and `get_acceleration`,
`get_velocity`, `get_position`, `History::get` with the exact negation, at every time `t` (before the start and after
completion included).  No law about `as i64` is needed: the times are computed from identical terms.
NOT covered: `start.position == end.position` (or unordered: NaN), where the statement is false of the code
(`mirror_fails_at_equal_positions`). -/
theorem mirror_of_laws
    (hadd : ∀ a b : F, -a + -b = -(a + b))
    (hsub : ∀ a b : F, -a - -b = -(a - b))
    (hmull : ∀ a b : F, -a * b = -(a * b))
    (hmulr : ∀ a b : F, a * -b = -(a * b))
    (hdivl : ∀ a b : F, -a / b = -(a / b))
    (hdivr : ∀ a b : F, a / -b = -(a / b))
    (hnegneg : ∀ a : F, - -a = a)
    (hneg0 : -(c0 : F) = c0)
    (hneg1 : -(c1 : F) = cm1)
    (hlt : ∀ a b : F, -a < -b ↔ b < a)
    (hasymm : ∀ a b : F, a < b → ¬ b < a)
    (hbeq : ∀ a b : F, (-a == -b) = (a == b))
    (chk : Bool) (s e : State F) (mv ma : Quantity F) (mp : MotionProfile F)
    (hord : s.position < e.position ∨ e.position < s.position)
    (h : MotionProfile.new chk s e mv ma = .ok mp) :
    ∃ mp', MotionProfile.new chk (State.neg s) (State.neg e) mv ma = .ok mp' ∧ mp' = mirrorProfile mp ∧
      Mirrored chk mp mp' :=
  mirror_of_negLaws ⟨hadd, hsub, hmull, hmulr, hdivl, hdivr, hnegneg, hneg0, hneg1, hlt, hasymm, hbeq⟩
    chk s e mv ma mp hord h

/-- the same with the two limits negated as well ("negating ALL velocities"), given additionally `abs (-x) = abs x`:
the constructor does not see the sign of the limits -/
theorem mirror_of_laws_neg_limits (L : NegLaws F) (habs : ∀ x : F, FloatLike.absF (-x) = FloatLike.absF x)
    (chk : Bool) (s e : State F) (mv ma : Quantity F) (mp : MotionProfile F)
    (hord : s.position < e.position ∨ e.position < s.position)
    (h : MotionProfile.new chk s e mv ma = .ok mp) :
    ∃ mp', MotionProfile.new chk (State.neg s) (State.neg e) (Quantity.neg mv) (Quantity.neg ma) = .ok mp' ∧
      mp' = mirrorProfile mp ∧ Mirrored chk mp mp' := by
  rw [new_neg_limits habs]
  exact mirror_of_negLaws L chk s e mv ma mp hord h

end L

/-! ## binary32: every law discharged -/
section Binary32
open Rrtk.Thm.SoftScalar

/-- the twelve laws hold for the binary32 scalar `SF` (rounding to nearest-even is odd; one zero) -/
theorem negLaws_binary32 : NegLaws SF :=
  ⟨neg_add_neg', neg_sub_neg', neg_mul', mul_neg', neg_div', div_neg', neg_neg', neg_c0', neg_c1', neg_lt_neg',
    lt_asymm', neg_beq_neg'⟩

/-- **mirror symmetry in binary32 arithmetic**, no arithmetic hypothesis left: for every move with
`start.position ≠ end.position` that `new` accepts — every operation rounded to nearest-even, `as i64` truncating and
saturating — `new` accepts the mirrored move and the returned profile has the same `t1, t2, t3` and negates every output of
every accessor at every time, exactly.  (`SF` identifies `-0.0` with `+0.0`: see the file header for what this means in the
hardware format — a ZERO output may keep its sign.) -/
theorem mirror_binary32 (chk : Bool) (s e : State SF) (mv ma : Quantity SF) (mp : MotionProfile SF)
    (hne : s.position ≠ e.position)
    (h : MotionProfile.new chk s e mv ma = .ok mp) :
    ∃ mp', MotionProfile.new chk (State.neg s) (State.neg e) mv ma = .ok mp' ∧ mp' = mirrorProfile mp ∧
      Mirrored chk mp mp' :=
  mirror_of_laws neg_add_neg' neg_sub_neg' neg_mul' mul_neg' neg_div' div_neg' neg_neg' neg_c0' neg_c1' neg_lt_neg'
    lt_asymm' neg_beq_neg' chk s e mv ma mp (lt_or_gt_of_ne' _ _ hne) h

/-- … and with the limits negated too -/
theorem mirror_binary32_neg_limits (chk : Bool) (s e : State SF) (mv ma : Quantity SF) (mp : MotionProfile SF)
    (hne : s.position ≠ e.position)
    (h : MotionProfile.new chk s e mv ma = .ok mp) :
    ∃ mp', MotionProfile.new chk (State.neg s) (State.neg e) (Quantity.neg mv) (Quantity.neg ma) = .ok mp' ∧
      mp' = mirrorProfile mp ∧ Mirrored chk mp mp' :=
  mirror_of_laws_neg_limits negLaws_binary32 abs_neg' chk s e mv ma mp (lt_or_gt_of_ne' _ _ hne) h

/-- without dimension checking, in binary32, the panics are mirrored as well -/
theorem mirror_binary32_false (s e : State SF) (mv ma : Quantity SF) (hne : s.position ≠ e.position) :
    MotionProfile.new false (State.neg s) (State.neg e) mv ma =
      (MotionProfile.new false s e mv ma).map mirrorProfile :=
  mirror_new_false_of_laws negLaws_binary32 s e mv ma (lt_or_gt_of_ne' _ _ hne)

/-- arrival with a moving end state, read in binary32: `velocity ≠ 0.0` is the negation of `==` -/
theorem arrival_exact_when_end_velocity_binary32 (chk : Bool) (s e : State SF) (mv ma : Quantity SF)
    (mp : MotionProfile SF) (h : MotionProfile.new chk s e mv ma = .ok mp)
    (ha : e.acceleration = c0) (hv : e.velocity ≠ c0) (t : Int) (hc : getPiece mp t = .complete) :
    getVelocity chk mp t = .ok (some ⟨e.velocity, MILLIMETER_PER_SECOND chk⟩) ∧
    historyGet chk mp t = .ok (some ⟨t, .velocity e.velocity⟩) :=
  have r := arrival_exact_when_end_velocity chk s e mv ma mp h ((beq_iff_eq' _ _).2 ha)
    ((beq_c0_false_iff _).2 hv) t hc
  ⟨r.1, r.2.1⟩

end Binary32

/-! ## tier R is an instance of tier L -/
section R
variable {F : Type} [Field F] [LinearOrder F] [IsStrictOrderedRing F] [FloatLike F] [ExactScalar F]

/-- in an ordered field with exact literals every law holds, so the tier-R mirror theorems of `Thm/C07.lean` are
instances of `mirror_of_laws` -/
theorem negLaws_exact : NegLaws F where
  neg_add a b := by ring
  neg_sub a b := by ring
  neg_mul a b := by ring
  mul_neg a b := by ring
  neg_div a b := neg_div b a
  div_neg a b := div_neg a
  neg_neg a := neg_neg a
  neg_c0 := by simp only [c0_eq, neg_zero]
  neg_c1 := by simp only [c1_eq, cm1_eq]
  neg_lt_neg a b := neg_lt_neg_iff
  lt_asymm a b h := lt_asymm h
  neg_beq_neg a b := by simp

theorem mirrorProfile_eq_negProfile (mp : MotionProfile F) : mirrorProfile mp = negProfile mp := rfl

end R

/-! ## non-vacuity -/
section Examples
open Rrtk.Thm.SoftScalar

/-- `arrival_exact_when_end_velocity`: the accepted profile of `mirror_fails_at_equal_positions` ends with velocity
`0.1 ≠ 0` and acceleration `0`, and is complete from `t = 0` on -/
example :
    MotionProfile.new false sF5 sF5 ⟨1/10, ⟨0, 0⟩⟩ ⟨1/100, ⟨0, 0⟩⟩ = .ok mpF5 ∧
    (sF5.acceleration == (c0 : ℚ)) = true ∧ (sF5.velocity == (c0 : ℚ)) = false ∧
    getPiece mpF5 7 = .complete := by
  refine ⟨mirror_fails_at_equal_positions.2.1, by decide +kernel, by decide +kernel, by decide⟩

/-- … and what the theorem gives there -/
example : getVelocity false mpF5 7 = .ok (some ⟨1/10, MILLIMETER_PER_SECOND false⟩) ∧
    historyGet false mpF5 7 = .ok (some ⟨7, .velocity (1/10)⟩) :=
  have r := arrival_exact_when_end_velocity false sF5 sF5 ⟨1/10, ⟨0, 0⟩⟩ ⟨1/100, ⟨0, 0⟩⟩ mpF5
    mirror_fails_at_equal_positions.2.1 (by decide +kernel) (by decide +kernel) 7 (by decide)
  ⟨r.1, r.2.1⟩

/-- `mirror_of_laws` over `ℚ`: the laws hold (`negLaws_exact`), the 0 → 3 mm move is accepted and strictly ordered -/
example : NegLaws ℚ := negLaws_exact
example : ((⟨0, 0, 0⟩ : State ℚ).position < (⟨3, 0, 0⟩ : State ℚ).position ∨
    (⟨3, 0, 0⟩ : State ℚ).position < (⟨0, 0, 0⟩ : State ℚ).position) ∧
    MotionProfile.new true (⟨0, 0, 0⟩ : State ℚ) ⟨3, 0, 0⟩ ⟨1/10, ⟨1, -1⟩⟩ ⟨1/100, ⟨1, -2⟩⟩ = .ok mpQ :=
  ⟨Or.inl (by norm_num), C06.new_example⟩

/-! ### binary32: a move whose construction really rounds, and its mirror -/
namespace Binary32Mirror

/-- 0 → 3 mm from rest to rest, limits `0.1f32` mm/s and `0.01f32` mm/s² (the literals themselves are rounded) -/
def exStart : State SF := ⟨c0, c0, c0⟩
def exEnd : State SF := ⟨c3, c0, c0⟩
def exMv : Quantity SF := ⟨rnd (1 / 10), ⟨1, -1⟩⟩
def exMa : Quantity SF := ⟨rnd (1 / 100), ⟨1, -2⟩⟩

/-- observable summary of a constructor call: the three times -/
def times (r : Except Panic (MotionProfile SF)) : Option (Int × Int × Int) :=
  r.toOption.map (fun mp => (mp.t1, mp.t2, mp.t3))

/-- observable summary of an accessor call: the rational the returned binary32 value decodes to -/
def valOf (r : Except Panic (Option (Quantity SF))) : Option ℚ :=
  (r.toOption.bind id).map (fun q => q.value.val)

/-- the move is accepted in binary32 (with `t2 = 30.000001024 s`: the arithmetic rounds), and its positions differ -/
theorem ex_accepted : times (MotionProfile.new true exStart exEnd exMv exMa) =
    some (10000000000, 30000001024, 40000000000) := by decide +kernel
example : exStart.position ≠ exEnd.position := by decide +kernel

/-- the mirrored move, evaluated independently: same times -/
example : times (MotionProfile.new true (State.neg exStart) (State.neg exEnd) exMv exMa) =
    some (10000000000, 30000001024, 40000000000) := by decide +kernel

/-- the hypotheses of `mirror_binary32` are satisfiable, and its conclusion at this move -/
example : ∃ mp mp', MotionProfile.new true exStart exEnd exMv exMa = .ok mp ∧
    MotionProfile.new true (State.neg exStart) (State.neg exEnd) exMv exMa = .ok mp' ∧ Mirrored true mp mp' := by
  have h := ex_accepted
  cases hn : MotionProfile.new true exStart exEnd exMv exMa with
  | error p => rw [hn] at h; cases h
  | ok mp =>
    obtain ⟨mp', h1, -, h2⟩ := mirror_binary32 true exStart exEnd exMv exMa mp (by decide +kernel) hn
    exact ⟨mp, mp', rfl, h1, h2⟩

/-- the hypothesis `start.position ≠ end.position` of `mirror_binary32` cannot be dropped — finding F5 in binary32:
the zero-displacement "move" at `+0.1f32 mm/s` is accepted with `t1 = t2 = t3 = 0`, its mirror image with
`t1 = t2 = 20 s`, `t3 = 40 s`, so the mirrored profile is not the negation (`Mirrored` demands equal times) -/
def exEq : State SF := ⟨c0, rnd (1 / 10), c0⟩
theorem mirror_binary32_fails_at_equal_positions :
    exEq.position = exEq.position ∧
    times (MotionProfile.new true exEq exEq exMv exMa) = some (0, 0, 0) ∧
    times (MotionProfile.new true (State.neg exEq) (State.neg exEq) exMv exMa) =
      some (20000000000, 20000000000, 40000000000) := by
  refine ⟨rfl, by decide +kernel, by decide +kernel⟩

end Binary32Mirror

end Examples

end Rrtk.Thm.C07
