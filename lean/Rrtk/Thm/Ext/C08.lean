/-
C08, the states HELD by the device's own terminals.

`Thm/C08.lean` relates the slot an update WRITES to the states READ (`w.getState`, the mean of a terminal's own slot and
its partner's) at the branches the device trusts.  A differential with a distrusted branch, and an inverter / gear train
with information on one side only, rewrite ONE slot; the slots of the trusted terminals keep whatever they held.  So
"the states held by the device's own terminals satisfy the constraint" holds after such an update exactly when each
trusted terminal's own slot already equals what is read there — e.g. the terminal has no partner, or its partner holds
no state.  This file proves that conditional statement for every one-slot update and records, kernel-checked, that it
fails without the condition.
-/
import Rrtk.Thm.C08
set_option linter.unusedSectionVars false
set_option linter.unusedSimpArgs false
namespace Rrtk.Thm.C08
open Rrtk

section S
variable {F : Type} [Add F] [Sub F] [Mul F] [Div F] [Neg F] [LT F] [LE F] [BEq F]
  [DecidableLT F] [DecidableLE F] [FloatLike F]

/-- the own slot of terminal `i` is what is read at `i` -/
def SlotIsRead (w : World F) (i : Nat) : Prop := (w.t i).state = w.getState i

/-- sufficient: the partner (if any) holds no state -/
theorem slotIsRead_of_partnerState_none (w : World F) (i : Nat) (h : w.partnerState i = none) : SlotIsRead w i := by
  unfold SlotIsRead World.getState
  rw [h]
  cases (w.t i).state <;> rfl

/-- sufficient: the terminal is not connected -/
theorem slotIsRead_of_unlinked (w : World F) (i : Nat) (h : (w.t i).other = none) : SlotIsRead w i :=
  slotIsRead_of_partnerState_none w i (by simp only [World.partnerState, h])

/-- sufficient: the partner's slot is empty -/
theorem slotIsRead_of_partner_empty (w : World F) (i p : Nat) (h : (w.t i).other = some p)
    (hp : (w.t p).state = none) : SlotIsRead w i :=
  slotIsRead_of_partnerState_none w i (by simp only [World.partnerState, h, hp])

end S

section R
variable {F : Type} [Field F] [LinearOrder F] [IsStrictOrderedRing F] [FloatLike F] [ExactScalar F]

/-! ## differential with a distrusted branch -/

/-- distrust side 1, HELD states: if the own slots of the two trusted terminals (sum, side 2) equal their reads, then
after the update the three own slots satisfy `side1 + side2 = sum`; the two trusted slots are unchanged. -/
theorem diff_side1_held_constraint (w : World F) (i1 i2 isum : Nat) (s b : Datum (State F))
    (h12 : i1 ≠ i2) (h1s : i1 ≠ isum)
    (hs : w.getState isum = some s) (h2 : w.getState i2 = some b)
    (ks : SlotIsRead w isum) (k2 : SlotIsRead w i2) :
    ∃ n1 : State F,
      ((Differential.update .side1 w i1 i2 isum).t i1).state = some ⟨max s.time b.time, n1⟩ ∧
      ((Differential.update .side1 w i1 i2 isum).t i2).state = some b ∧
      ((Differential.update .side1 w i1 i2 isum).t isum).state = some s ∧
      State.add n1 b.value = s.value := by
  obtain ⟨_, _, ha, hrest⟩ := diff_update_side1 w i1 i2 isum s b hs h2
  refine ⟨_, ha, ?_, ?_, ?_⟩
  · rw [hrest i2 (Ne.symm h12), k2, h2]
  · rw [hrest isum (Ne.symm h1s), ks, hs]
  · apply state_ext; intro k; simp only [comp_add, comp_sub]; ring

/-- distrust side 2, HELD states -/
theorem diff_side2_held_constraint (w : World F) (i1 i2 isum : Nat) (s a : Datum (State F))
    (h12 : i1 ≠ i2) (h2s : i2 ≠ isum)
    (hs : w.getState isum = some s) (h1 : w.getState i1 = some a)
    (ks : SlotIsRead w isum) (k1 : SlotIsRead w i1) :
    ∃ n2 : State F,
      ((Differential.update .side2 w i1 i2 isum).t i1).state = some a ∧
      ((Differential.update .side2 w i1 i2 isum).t i2).state = some ⟨max s.time a.time, n2⟩ ∧
      ((Differential.update .side2 w i1 i2 isum).t isum).state = some s ∧
      State.add a.value n2 = s.value := by
  obtain ⟨_, _, ha, hrest⟩ := diff_update_side2 w i1 i2 isum s a hs h1
  refine ⟨_, ?_, ha, ?_, ?_⟩
  · rw [hrest i1 h12, k1, h1]
  · rw [hrest isum (Ne.symm h2s), ks, hs]
  · apply state_ext; intro k; simp only [comp_add, comp_sub]; ring

/-- distrust sum, HELD states (true for any scalar type; stated here with the others) -/
theorem diff_sum_held_constraint (w : World F) (i1 i2 isum : Nat) (a b : Datum (State F))
    (h1s : i1 ≠ isum) (h2s : i2 ≠ isum)
    (h1 : w.getState i1 = some a) (h2 : w.getState i2 = some b)
    (k1 : SlotIsRead w i1) (k2 : SlotIsRead w i2) :
    ∃ ns : State F,
      ((Differential.update .sum w i1 i2 isum).t i1).state = some a ∧
      ((Differential.update .sum w i1 i2 isum).t i2).state = some b ∧
      ((Differential.update .sum w i1 i2 isum).t isum).state = some ⟨max a.time b.time, ns⟩ ∧
      State.add a.value b.value = ns := by
  obtain ⟨_, _, ha, hrest⟩ := diff_update_sum w i1 i2 isum a b h1 h2
  refine ⟨_, ?_, ?_, ha, rfl⟩
  · rw [hrest i1 h1s, k1, h1]
  · rw [hrest i2 h2s, k2, h2]

/-! ## inverter and gear train with information on one side only -/

/-- one-sided inverter update, HELD states: if the own slot of the side that has the information equals its read, then
after the update the two own slots satisfy `side2 = −side1` (both directions). -/
theorem invert_one_sided_held_constraint (w : World F) (i1 i2 : Nat) (d : Datum (State F)) :
    (w.getState i1 = none → w.getState i2 = some d → SlotIsRead w i2 →
      ∃ s1, ((Invert.update w i1 i2).t i1).state = some ⟨d.time, s1⟩ ∧
        ((Invert.update w i1 i2).t i2).state = some d ∧ d.value = State.neg s1) ∧
    (w.getState i1 = some d → w.getState i2 = none → SlotIsRead w i1 →
      ∃ s2, ((Invert.update w i1 i2).t i1).state = some d ∧
        ((Invert.update w i1 i2).t i2).state = some ⟨d.time, s2⟩ ∧ s2 = State.neg d.value) := by
  constructor
  · intro h1 h2 k2
    obtain ⟨ha, hb⟩ := (invert_update_one w i1 i2 d).1 h1 h2
    refine ⟨_, ha, by rw [hb, k2, h2], ?_⟩
    apply state_ext; intro k; simp only [comp_neg, neg_neg]
  · intro h1 h2 k1
    obtain ⟨ha, hb⟩ := (invert_update_one w i1 i2 d).2 h1 h2
    exact ⟨_, by rw [hb, k1, h1], ha, rfl⟩

/-- one-sided gear-train update (`ratio ≠ 0`), HELD states: `side2 = ratio · side1` among the two own slots -/
theorem gear_one_sided_held_constraint (ratio : F) (hr : ratio ≠ 0) (w : World F) (i1 i2 : Nat)
    (d : Datum (State F)) :
    (w.getState i1 = some d → w.getState i2 = none → SlotIsRead w i1 →
      ∃ s2, ((GearTrain.update ratio w i1 i2).t i1).state = some d ∧
        ((GearTrain.update ratio w i1 i2).t i2).state = some ⟨d.time, s2⟩ ∧ s2 = State.mulF d.value ratio) ∧
    (w.getState i1 = none → w.getState i2 = some d → SlotIsRead w i2 →
      ∃ s1, ((GearTrain.update ratio w i1 i2).t i1).state = some ⟨d.time, s1⟩ ∧
        ((GearTrain.update ratio w i1 i2).t i2).state = some d ∧ d.value = State.mulF s1 ratio) := by
  constructor
  · intro h1 h2 k1
    have hne : i1 ≠ i2 := by intro e; rw [e, h2] at h1; cases h1
    obtain ⟨_, ha, hb⟩ := gear_update_one_left ratio w i1 i2 d h1 h2
    exact ⟨_, by rw [hb i1 hne, k1, h1], ha, rfl⟩
  · intro h1 h2 k2
    have hne : i2 ≠ i1 := by intro e; rw [e, h1] at h2; cases h2
    obtain ⟨_, ha, hb⟩ := gear_update_one_right ratio w i1 i2 d h1 h2
    refine ⟨_, ha, by rw [hb i2 hne, k2, h2], ?_⟩
    apply state_ext; intro k; simp only [comp_divF, comp_mulF]; field_simp

end R

/-! ## non-vacuity, and the counterexample without `SlotIsRead` -/
section Examples

/-- in `wq` terminals 0 and 1 are unlinked, terminal 3 is empty and unlinked -/
example : SlotIsRead wq 0 := slotIsRead_of_unlinked wq 0 rfl
example : SlotIsRead wq 1 := slotIsRead_of_unlinked wq 1 rfl
/-- a linked terminal whose partner holds nothing -/
def wl : World ℚ := ⟨3, fun j =>
  if j = 0 then ⟨some ⟨5, ⟨1, 2, 3⟩⟩, none, some 2⟩
  else if j = 1 then ⟨some ⟨7, ⟨3, 0, 1⟩⟩, none, none⟩
  else if j = 2 then ⟨none, none, some 0⟩
  else ⟨none, none, none⟩⟩
example : SlotIsRead wl 0 := slotIsRead_of_partner_empty wl 0 2 rfl rfl

example := diff_side1_held_constraint wq 3 0 1 _ _ (by decide) (by decide) rfl rfl
  (slotIsRead_of_unlinked wq 1 rfl) (slotIsRead_of_unlinked wq 0 rfl)
example := diff_side2_held_constraint wq 0 3 1 _ _ (by decide) (by decide) rfl rfl
  (slotIsRead_of_unlinked wq 1 rfl) (slotIsRead_of_unlinked wq 0 rfl)
example := diff_sum_held_constraint wq 0 1 3 _ _ (by decide) (by decide) rfl rfl
  (slotIsRead_of_unlinked wq 0 rfl) (slotIsRead_of_unlinked wq 1 rfl)
example := (invert_one_sided_held_constraint wq 3 0 _).1 rfl rfl (slotIsRead_of_unlinked wq 0 rfl)
example := (invert_one_sided_held_constraint wq 0 3 _).2 rfl rfl (slotIsRead_of_unlinked wq 0 rfl)
example := (gear_one_sided_held_constraint (2 : ℚ) (by norm_num) wq 0 3 _).1 rfl rfl (slotIsRead_of_unlinked wq 0 rfl)
example := (gear_one_sided_held_constraint (2 : ℚ) (by norm_num) wq 3 0 _).2 rfl rfl (slotIsRead_of_unlinked wq 0 rfl)

/-- **Counterexample to the unconditional reading of "the states held by the device's own terminals satisfy the
constraint".**  `Differential.update .side1 wq 3 0 2`: side 1 = terminal 3 (distrusted), side 2 = terminal 0, sum =
terminal 2, which is linked to terminal 4 holding different, newer data.  The state READ at the sum terminal is the mean
`(2+4)/2 = 3` (position); side 1 is recomputed from the reads, `3 − 1 = 2`; the sum terminal's own slot is not rewritten
and still holds `2`.  Held positions afterwards: side1 = 2, side2 = 1, sum = 2, and `2 + 1 ≠ 2`.

What the code implements — and what `diff_side1_satisfies_constraint` etc. prove — is the property's parenthesis "for a
differential with a distrusted branch: that branch recomputed from the other two": the WRITTEN slot together with the
READS of the two trusted branches satisfies `side1 + side2 = sum` (here `2 + 1 = 3`).  Among the HELD states the
constraint holds only under `SlotIsRead` for the trusted terminals (`diff_side1_held_constraint`), which fails here for
the sum terminal. -/
example :
    ((Differential.update .side1 wq 3 0 2).t 3).state.map (·.value.position) = some (2 : ℚ) ∧
    ((Differential.update .side1 wq 3 0 2).t 0).state.map (·.value.position) = some (1 : ℚ) ∧
    ((Differential.update .side1 wq 3 0 2).t 2).state.map (·.value.position) = some (2 : ℚ) ∧
    (2 : ℚ) + 1 ≠ 2 ∧
    -- the read at the sum terminal, which the written slot IS consistent with
    (wq.getState 2).map (·.value.position) = some (3 : ℚ) ∧
    ¬ SlotIsRead wq 2 := by
  refine ⟨?_, rfl, rfl, by norm_num, ?_, ?_⟩
  · simp [Differential.update, wq, World.getState, World.partnerState, World.setState, World.setT, Datum.combine,
      Datum.scalar, State.add, State.sub, State.divF]
    norm_num
  · simp [wq, World.getState, World.partnerState, Datum.combine, Datum.scalar, State.add, State.divF]
    norm_num
  · intro h
    have h' := congrArg (fun o => o.map (·.time)) h
    simp [SlotIsRead, wq, World.getState, World.partnerState, Datum.combine, Datum.scalar] at h'

/-- the same for a one-sided inverter update: terminal 2 (linked to 4) reads position 3 but holds 2; the empty side
receives `−3`, so the held pair is `(−3, 2)`, not `(−2, 2)` -/
example :
    ((Invert.update wq 3 2).t 3).state.map (·.value.position) = some (-3 : ℚ) ∧
    ((Invert.update wq 3 2).t 2).state.map (·.value.position) = some (2 : ℚ) := by
  obtain ⟨ha, hb⟩ := (invert_update_one wq 3 2 _).1 rfl rfl
  rw [ha, hb]
  refine ⟨?_, rfl⟩
  simp [Datum.combine, Datum.scalar, State.add, State.divF, State.neg]
  norm_num

end Examples
end Rrtk.Thm.C08
