/-
C09 at real binary32 rounding: the tier-L theorem `connected_read_same_state` of `Thm/C09.lean` instantiated at the scalar
type `SF` (finite binary32 numbers with correctly rounded `+ − * /`, `Rrtk/Thm/Lemmas/SoftScalar.lean`), with the scalar law
it assumes PROVED.
-/
import Rrtk.Thm.C09
import Rrtk.Thm.Lemmas.SoftScalar
import Rrtk.Thm.Lemmas.TieVariants
set_option linter.unusedSectionVars false
set_option linter.unusedSimpArgs false
namespace Rrtk.Thm.C09
open Rrtk Rrtk.World Rrtk.Thm.SoftScalar

/-- two connected terminals always read the same state, in binary32 (one end computes `(own + partner) / 2`, the other
`(partner + own) / 2`).  Discharged: `hadd` (`add_comm'`: correctly rounded addition commutes). -/
theorem connected_read_same_state_binary32 (w : World SF) (h : Inv w) (i j : Nat)
    (hl : (w.t i).other = some j) : getState w i = getState w j :=
  connected_read_same_state add_comm' w h i j hl

namespace Binary32Examples
/-- two linked terminals holding the positions `2^24` (time 5) and `1` (time 7): their sum is not a binary32 number -/
def w : World SF :=
  (((((World.empty : World SF).addTerms 2).setState 0 ⟨5, ⟨x2p24, c0, c0⟩⟩).setState 1 ⟨7, ⟨c1, c0, c0⟩⟩).setOther 0
    (some 1)).setOther 1 (some 0)
theorem inv_w : Inv w := by
  refine inv_link _ 0 1 ?_ (by decide) rfl rfl
  intro i j h
  rw [setState_other, setState_other] at h
  exact absurd h (by simp [World.empty, World.addTerms, freshTerm])
theorem link_w : (w.t 0).other = some 1 := rfl
/-- the hypotheses of `connected_read_same_state_binary32` hold, hence the two reads agree … -/
example : getState w 0 = getState w 1 := connected_read_same_state_binary32 w inv_w 0 1 link_w
/-- … and the common value is the ROUNDED mean `8388608`, not the exact mean `8388608.5` -/
example : (getState w 0).map (fun d => (d.time, d.value.position.val)) = some (7, 8388608) := by decide +kernel
example : (getState w 1).map (fun d => (d.time, d.value.position.val)) = some (7, 8388608) := by decide +kernel
end Binary32Examples

end Rrtk.Thm.C09
