/-
C10 at real binary32 rounding: forward error bounds of the integral stream (trapezoidal sum) for the scalar type `SF` (finite
binary32 numbers with correctly rounded `+ − * /`, `Rrtk/Thm/Lemmas/SoftScalar.lean`).
The theorems live in `Rrtk/Thm/Lemmas/C10Rounding.lean` (namespace `Rrtk.Thm.C10`):
`trapRev_value` (which number the integral holds, any scalar), `sumR_err`, `integral_accumulation_err_binary32`,
`trapsum_err_binary32`, `integral_err_binary32` (accumulation against the exact sum of the rounded addends),
`trapVal_err`, `trapsum_forward_err_binary32`, `integral_forward_err_binary32` (against the exact trapezoidal sum).
-/
import Rrtk.Thm.C10
import Rrtk.Thm.Lemmas.C10Rounding
import Rrtk.Thm.Lemmas.C10More
import Rrtk.Thm.Lemmas.C10ZeroArea
