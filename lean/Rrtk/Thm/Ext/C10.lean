/-
C10 at real binary32 rounding: the forward error bound of the integral stream's accumulation (trapezoidal sum) for the scalar
type `SF` (finite binary32 numbers with correctly rounded `+ − * /`, `Rrtk/Thm/Lemmas/SoftScalar.lean`).
The theorems live in `Rrtk/Thm/Lemmas/C10Rounding.lean` (namespace `Rrtk.Thm.C10`):
`trapRev_value` (which number the integral holds, any scalar), `sumR_err`, `integral_accumulation_err_binary32`,
`trapsum_err_binary32`, `integral_err_binary32`.
-/
import Rrtk.Thm.C10
import Rrtk.Thm.Lemmas.C10Rounding
