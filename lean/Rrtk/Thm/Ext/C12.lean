/-
C12 at real binary32 rounding: the tier-L theorems of `Thm/C12.lean` (agreement of the `f32` and `Quantity` moving
averages) instantiated at the scalar type `SF` (finite binary32 numbers with correctly rounded `+ − * /`,
`Rrtk/Thm/Lemmas/SoftScalar.lean`), with the scalar law they assume PROVED.  The theorems of C12 whose hypotheses are about
`powf` (`hpr`, `hp0`) are NOT restated: those stay assumptions.
-/
import Rrtk.Thm.C12
import Rrtk.Thm.Lemmas.SoftScalar
import Rrtk.Thm.Lemmas.C12Rounding
import Rrtk.Thm.Lemmas.C12Witness
set_option linter.unusedSectionVars false
set_option linter.unusedSimpArgs false
namespace Rrtk.Thm.C12
open Rrtk Rrtk.Thm.SoftScalar

/-- the Quantity accumulation (started from the first term) and the generic one (started from `0.0 +` the first term)
agree, in binary32.  Discharged: `hzero` (`zero_add'`; `SF` has one zero — in the hardware format `0.0 + x` differs from
`x` only in the sign bit of `x = −0.0`). -/
theorem accumulate_agree_binary32 (chk : Bool) (l : List (Quantity SF × SF)) (v : Quantity SF)
    (h : Ma.accumulate (scaleQs chk) (Quantity.add chk) none l = .ok (some v)) :
    Ma.accumulate scaleF addF (some (c0 : SF)) (l.map (fun p => (p.1.value, p.2))) = .ok (some v.value) :=
  accumulate_agree chk zero_add' l v h

/-- one update of the two moving averages from related states, in binary32.  Discharged: `hzero` (`zero_add'`). -/
theorem ma_variants_agree_step_binary32 (chk : Bool) (window : Int)
    (sq : MaS (Quantity SF)) (sf : MaS SF) (inp : Output (Quantity SF)) (hrel : MaRel sq sf)
    (sq' : MaS (Quantity SF)) (r : UpdRet)
    (h : Ma.step (scaleQs chk) (Quantity.add chk) (divQs chk) none window sq inp = .ok (sq', r)) :
    ∃ sf', Ma.step scaleF addF divF (some (c0 : SF)) window sf (projOut inp) = .ok (sf', r) ∧ MaRel sq' sf' :=
  ma_variants_agree_step chk zero_add' window sq sf inp hrel sq' r h

/-- every history: the `f32` moving average returns the numbers of the `Quantity` one, in binary32.  Discharged: `hzero`
(`zero_add'`). -/
theorem ma_variants_agree_binary32 (chk : Bool) (window : Int)
    (evs : List (Output (Quantity SF))) (sq : MaS (Quantity SF)) (sf : MaS SF) (hrel : MaRel sq sf)
    (sq' : MaS (Quantity SF))
    (h : runE (Ma.step (scaleQs chk) (Quantity.add chk) (divQs chk) none window) sq evs = .ok sq') :
    ∃ sf', runE (Ma.step scaleF addF divF (some (c0 : SF)) window) sf (evs.map projOut) = .ok sf' ∧
      MaRel sq' sf' ∧ Ma.get sf' = projOut (Ma.get sq') :=
  ma_variants_agree chk zero_add' window evs sq sf hrel sq' h

namespace Binary32Examples
/-- a history in millimetres with an absent event: values `1/3` (rounded), `2^24`, `1.5` at 5 ns, 7 ns, 8 ns -/
def evs : List (Output (Quantity SF)) :=
  [.ok (some ⟨5, ⟨(c1 : SF) / c3, ⟨1, 0⟩⟩⟩), .ok none, .ok (some ⟨7, ⟨x2p24, ⟨1, 0⟩⟩⟩), .ok (some ⟨8, ⟨x1_5, ⟨1, 0⟩⟩⟩)]
/-- the Quantity moving average runs without panic on it (hypothesis `h` of `ma_variants_agree_binary32`), and the initial
states are related (`hrel`) -/
theorem evs_runs : ∃ s, runE (Ma.step (scaleQs true) (Quantity.add true) (divQs true) none 4) Ma.init evs = .ok s :=
  ma_no_panic_quantity true 4 (by decide) ⟨1, 0⟩ _ (by
    intro d hd
    simp [evs] at hd
    rcases hd with rfl | rfl | rfl <;> rfl)
example : MaRel (Ma.init : MaS (Quantity SF)) (Ma.init : MaS SF) := ma_init_rel
/-- hence the `f32` stream runs too and shows the same numbers -/
example : ∃ sq' sf', runE (Ma.step (scaleQs true) (Quantity.add true) (divQs true) none 4) Ma.init evs = .ok sq' ∧
    runE (Ma.step scaleF addF divF (some (c0 : SF)) 4) Ma.init (evs.map projOut) = .ok sf' ∧
    Ma.get sf' = projOut (Ma.get sq') := by
  obtain ⟨sq', h⟩ := evs_runs
  obtain ⟨sf', h1, _, h3⟩ := ma_variants_agree_binary32 true 4 evs Ma.init Ma.init ma_init_rel sq' h
  exact ⟨sq', sf', h, h1, h3⟩
/-- the number both show after the last update, computed with binary32 rounding at every step -/
def lastVal : Option (Int × ℚ) :=
  match runE (Ma.step scaleF addF divF (some (c0 : SF)) 4) Ma.init (evs.map projOut) with
  | .ok s => (match Ma.get s with | .ok (some d) => some (d.time, d.value.val) | _ => none)
  | .error _ => none
theorem lastVal_eq : lastVal = some (8, 8388608) := by decide +kernel
end Binary32Examples

end Rrtk.Thm.C12
