/-
C13 at real binary32 rounding: the tier-L theorem `invert_side2_roundtrip` of `Thm/C13.lean` instantiated at the scalar
type `SF` (finite binary32 numbers, `Rrtk/Thm/Lemmas/SoftScalar.lean`), with the scalar law it assumes PROVED.
-/
import Rrtk.Thm.C13
import Rrtk.Thm.Lemmas.SoftScalar
import Rrtk.Thm.Lemmas.C13More
set_option linter.unusedSectionVars false
set_option linter.unusedSimpArgs false
namespace Rrtk.Thm.C13
open Rrtk Rrtk.Thm.SoftScalar

/-- a newest command issued on side 2 of an inverter is read back on side 2 unchanged, in binary32.  Discharged: `hneg`
(`neg_neg'`: negation is exact, so the two sign flips cancel). -/
theorem invert_side2_roundtrip_binary32 (w : World SF) (i1 i2 : Nat) (h12 : i1 ≠ i2)
    (b : Datum (Command SF)) (h2 : w.getCommand i2 = some b)
    (hnewest : ∀ a, w.getCommand i1 = some a → b.time > a.time) :
    (Invert.update w i1 i2).getCommand i2 = some b :=
  invert_side2_roundtrip neg_neg' w i1 i2 h12 b h2 hnewest

namespace Binary32Examples
/-- two terminals, a velocity command `1.5` at time 9 on terminal 1, an older position command on terminal 0 -/
def w : World SF :=
  (((World.empty : World SF).addTerms 2).setCommand 1 ⟨9, .velocity x1_5⟩).setCommand 0 ⟨4, .position c1e9⟩
theorem w_cmd1 : w.getCommand 1 = some ⟨9, .velocity x1_5⟩ := rfl
theorem w_cmd0 : w.getCommand 0 = some ⟨4, .position c1e9⟩ := rfl
/-- the hypotheses of `invert_side2_roundtrip_binary32` hold for it, hence its conclusion -/
example : (Invert.update w 0 1).getCommand 1 = some ⟨9, .velocity x1_5⟩ :=
  invert_side2_roundtrip_binary32 w 0 1 (by decide) _ w_cmd1 (fun a h => by
    rw [w_cmd0] at h; cases h; decide)
end Binary32Examples

end Rrtk.Thm.C13
