/-
C14, tier S: the theorem `state_updateQ_eq` of `Thm/C14.lean` sits in the tier-R section, but its proof uses no field
law.  Here it is restated for an ARBITRARY scalar `F` (so it is true of IEEE `f32` bit-exactly), with its binary32 (`SF`)
reading as a corollary.
-/
import Rrtk.Thm.C14
import Rrtk.Thm.Lemmas.SoftScalar
set_option linter.unusedSectionVars false
set_option linter.unusedSimpArgs false
namespace Rrtk.Thm.C14
open Rrtk Rrtk.Thm.SoftScalar

section S
variable {F : Type} [Add F] [Sub F] [Mul F] [Div F] [Neg F] [LT F] [LE F] [BEq F]
  [DecidableLT F] [DecidableLE F] [FloatLike F]

/-- the Quantity-level code path of `State::update` (through the unit-checked operators) never panics and computes exactly
the numbers of the raw formula — for every scalar type, with and without unit checking.  No hypotheses. -/
theorem state_updateQ_eq_any_scalar (chk : Bool) (s : State F) (dt : Int) :
    State.updateQ chk s dt = .ok (State.update s dt) := by
  cases chk <;> rfl
end S

/-- the binary32 reading -/
theorem state_updateQ_eq_binary32 (chk : Bool) (s : State SF) (dt : Int) :
    State.updateQ chk s dt = .ok (State.update s dt) := state_updateQ_eq_any_scalar chk s dt

end Rrtk.Thm.C14
