/-
C15, extension: a `Terminal` is a `Settable` twice over (`Datum<State>` and `Datum<Command>`), and `impl Updatable for
Terminal` runs `update_following_data` for the COMMAND slot and then for the STATE slot, each followed by `?`.  The
built-in devices start every `update()` with `update_terminals()?`.  Model: `Rrtk/TermFollow.lean` (executed by the
driver's `dv` ops `fs fc nfs nfc gs gc tu u ut`, compared with the real crate on every run).

Tier S: the scalar type is arbitrary, nothing here computes with it.
-/
import Rrtk.Thm.C15
import Rrtk.TermFollow
import Rrtk.Thm.Lemmas.FollowOrder
set_option linter.unusedSectionVars false
set_option linter.unusedSimpArgs false
namespace Rrtk.Thm.C15
open Rrtk

variable {F : Type}

/-! ## one terminal -/

/-- the error a terminal update reports, if any: the command getter is asked first -/
def followedErr (fo : Followed F) : Option Err :=
  match fo.command with
  | some (.error e) => some e
  | _ =>
    match fo.state with
    | some (.error e) => some e
    | _ => none

/-- a terminal that follows nothing: `update` does nothing and succeeds -/
theorem terminal_update_not_following (w : World F) (i : Nat) :
    w.terminalUpdate i Followed.nothing = (w, .ok ()) := rfl

/-- "forwards exactly the getter's present values to set": the present value of the followed STATE getter becomes the
terminal's own state (the outer timestamp is dropped), provided the command getter did not err -/
theorem terminal_update_forwards_state (w : World F) (i : Nat) (fo : Followed F) (d : Datum (Datum (State F)))
    (hs : fo.state = some (.ok (some d))) (hc : ∀ e, fo.command ≠ some (.error e)) :
    (w.terminalUpdate i fo).2 = .ok () ∧ ((w.terminalUpdate i fo).1.t i).state = some d.value := by
  unfold World.terminalUpdate World.followCommand
  cases hfc : fo.command with
  | none => simp [World.followState, hs, World.setState, World.setT]
  | some o =>
    cases o with
    | error e => exact absurd hfc (hc e)
    | ok v =>
      cases v with
      | none => simp [World.followState, hs, World.setState, World.setT]
      | some dc => simp [World.followState, hs, World.setState, World.setT]

/-- … and the present value of the followed COMMAND getter becomes the terminal's own command, whatever the state getter does
(even when it errs: the command was forwarded before the state getter was asked) -/
theorem terminal_update_forwards_command (w : World F) (i : Nat) (fo : Followed F) (d : Datum (Datum (Command F)))
    (hc : fo.command = some (.ok (some d))) :
    ((w.terminalUpdate i fo).1.t i).command = some d.value := by
  unfold World.terminalUpdate World.followCommand
  simp only [hc]
  cases hfs : fo.state with
  | none => simp [World.followState, World.setCommand, World.setT]
  | some o =>
    cases o with
    | error e => simp [World.followState, World.setCommand, World.setT]
    | ok v =>
      cases v with
      | none => simp [World.followState, World.setCommand, World.setT]
      | some ds => simp [World.followState, World.setCommand, World.setState, World.setT]

/-- "forwards nothing when the getter is absent": absent (or unfollowed) getters leave the terminal exactly as it was -/
theorem terminal_update_absent (w : World F) (i : Nat) (fo : Followed F)
    (hc : fo.command = none ∨ fo.command = some (.ok none)) (hs : fo.state = none ∨ fo.state = some (.ok none)) :
    w.terminalUpdate i fo = (w, .ok ()) := by
  unfold World.terminalUpdate World.followCommand World.followState
  rcases hc with hc | hc <;> rcases hs with hs | hs <;> simp [hc, hs]

/-- "propagates its errors": an error of the command getter is returned, NOTHING is forwarded (not even a present state) -/
theorem terminal_update_command_error (w : World F) (i : Nat) (fo : Followed F) (e : Err)
    (hc : fo.command = some (.error e)) : w.terminalUpdate i fo = (w, .error e) := by
  unfold World.terminalUpdate World.followCommand
  simp [hc]

/-- an error of the state getter is returned; a command forwarded just before stays forwarded, the state slot is untouched -/
theorem terminal_update_state_error (w : World F) (i : Nat) (fo : Followed F) (e : Err)
    (hs : fo.state = some (.error e)) (hc : ∀ e', fo.command ≠ some (.error e')) :
    (w.terminalUpdate i fo).2 = .error e ∧ ((w.terminalUpdate i fo).1.t i).state = (w.t i).state := by
  unfold World.terminalUpdate World.followCommand
  cases hfc : fo.command with
  | none => simp [World.followState, hs]
  | some o =>
    cases o with
    | error e' => exact absurd hfc (hc e')
    | ok v =>
      cases v with
      | none => simp [World.followState, hs]
      | some dc => simp [World.followState, hs, World.setCommand, World.setT]

/-- the return value of a terminal update is decided by the getters alone -/
theorem terminal_update_ret (w : World F) (i : Nat) (fo : Followed F) :
    (w.terminalUpdate i fo).2 = (match followedErr fo with | some e => .error e | none => .ok ()) := by
  unfold World.terminalUpdate World.followCommand World.followState followedErr
  cases hfc : fo.command with
  | none => cases hfs : fo.state with
    | none => simp
    | some o => cases o with
      | error e => simp
      | ok v => cases v <;> simp
  | some o =>
    cases o with
    | error e => simp
    | ok v =>
      cases v with
      | none => cases hfs : fo.state with
        | none => simp
        | some o => cases o with
          | error e => simp
          | ok v => cases v <;> simp
      | some dc => cases hfs : fo.state with
        | none => simp
        | some o => cases o with
          | error e => simp
          | ok v => cases v <;> simp

/-- a terminal update touches no other terminal -/
theorem terminal_update_frame (w : World F) (i j : Nat) (fo : Followed F) (hj : j ≠ i) :
    (w.terminalUpdate i fo).1.t j = w.t j := by
  unfold World.terminalUpdate World.followCommand World.followState
  cases hfc : fo.command with
  | none => cases hfs : fo.state with
    | none => simp
    | some o => cases o with
      | error e => simp
      | ok v => cases v <;> simp [World.setState, World.setT, hj]
  | some o =>
    cases o with
    | error e => simp
    | ok v =>
      cases v with
      | none => cases hfs : fo.state with
        | none => simp
        | some o => cases o with
          | error e => simp
          | ok v => cases v <;> simp [World.setState, World.setT, hj]
      | some dc => cases hfs : fo.state with
        | none => simp [World.setCommand, World.setT, hj]
        | some o => cases o with
          | error e => simp [World.setCommand, World.setT, hj]
          | ok v => cases v <;> simp [World.setCommand, World.setState, World.setT, hj]

/-- … and never changes who is linked to whom, nor the number of terminals -/
theorem terminal_update_links (w : World F) (i j : Nat) (fo : Followed F) :
    ((w.terminalUpdate i fo).1.t j).other = (w.t j).other ∧ (w.terminalUpdate i fo).1.n = w.n := by
  unfold World.terminalUpdate World.followCommand World.followState
  cases hfc : fo.command with
  | none => cases hfs : fo.state with
    | none => simp
    | some o => cases o with
      | error e => simp
      | ok v => cases v <;> (simp [World.setState, World.setT]; try (split <;> simp_all))
  | some o =>
    cases o with
    | error e => simp
    | ok v =>
      cases v with
      | none => cases hfs : fo.state with
        | none => simp
        | some o => cases o with
          | error e => simp
          | ok v => cases v <;> (simp [World.setState, World.setT]; try (split <;> simp_all))
      | some dc => cases hfs : fo.state with
        | none => simp [World.setCommand, World.setT]; try (split <;> simp_all)
        | some o => cases o with
          | error e => simp [World.setCommand, World.setT]; try (split <;> simp_all)
          | ok v => cases v <;> (simp [World.setCommand, World.setState, World.setT]; try (split <;> simp_all))

/-! ## `update_terminals` and the device updates -/

/-- without followers `update_terminals` does nothing and succeeds — for any list of owned terminals -/
theorem update_terminals_no_followers (w : World F) (is : List Nat) :
    w.updateTerminals (fun _ => Followed.nothing) is = (w, .ok ()) := by
  induction is with
  | nil => rfl
  | cons i is ih => simp [World.updateTerminals, terminal_update_not_following, ih]

/-- hence a device update in a world without followers is exactly the device's own update of `Rrtk/Devices.lean`:
every theorem of C08, C13, C20 about `Invert.update`, `GearTrain.update`, `Axle.update`, `Differential.update`
is a theorem about the full `update()` of such a world -/
theorem update_with_no_followers (upd : World F → World F) (terms : List Nat) (w : World F) :
    updateWithFollowers upd terms w (fun _ => Followed.nothing) = (upd w, .ok ()) := by
  simp [updateWithFollowers, update_terminals_no_followers]

/-- the return value of `update_terminals`: the error of the FIRST owned terminal (in declaration order) whose getters err -/
theorem update_terminals_ret (w : World F) (fo : Nat → Followed F) (is : List Nat) :
    (w.updateTerminals fo is).2 =
      (match is.findSome? (fun i => followedErr (fo i)) with | some e => .error e | none => .ok ()) := by
  induction is generalizing w with
  | nil => rfl
  | cons i is ih =>
    have hr := terminal_update_ret w i (fo i)
    unfold World.updateTerminals
    cases hfe : followedErr (fo i) with
    | some e =>
      rw [hfe] at hr
      cases htu : w.terminalUpdate i (fo i) with
      | mk w1 r =>
        rw [htu] at hr; simp at hr; subst hr
        simp [List.findSome?, hfe]
    | none =>
      rw [hfe] at hr
      cases htu : w.terminalUpdate i (fo i) with
      | mk w1 r =>
        rw [htu] at hr; simp at hr; subst hr
        simp [List.findSome?, hfe, ih]

/-- when some owned terminal's getter errs the device's own update does NOT run: the world is the one `update_terminals` left -/
theorem update_with_followers_error (upd : World F → World F) (terms : List Nat) (w : World F) (fo : Nat → Followed F) (e : Err)
    (h : (w.updateTerminals fo terms).2 = .error e) :
    updateWithFollowers upd terms w fo = ((w.updateTerminals fo terms).1, .error e) := by
  unfold updateWithFollowers
  cases hu : w.updateTerminals fo terms with
  | mk w1 r => rw [hu] at h; simp at h; subst h; rfl

/-- otherwise the device's own update runs on the world `update_terminals` produced -/
theorem update_with_followers_ok (upd : World F → World F) (terms : List Nat) (w : World F) (fo : Nat → Followed F)
    (h : (w.updateTerminals fo terms).2 = .ok ()) :
    updateWithFollowers upd terms w fo = (upd (w.updateTerminals fo terms).1, .ok ()) := by
  unfold updateWithFollowers
  cases hu : w.updateTerminals fo terms with
  | mk w1 r => rw [hu] at h; simp at h; subst h; rfl

/-- `update_terminals` touches only the owned terminals -/
theorem update_terminals_frame (w : World F) (fo : Nat → Followed F) (is : List Nat) (j : Nat) (hj : j ∉ is) :
    (w.updateTerminals fo is).1.t j = w.t j := by
  induction is generalizing w with
  | nil => rfl
  | cons i is ih =>
    have hji : j ≠ i := fun h => hj (by simp [h])
    have hjs : j ∉ is := fun h => hj (by simp [h])
    unfold World.updateTerminals
    cases htu : w.terminalUpdate i (fo i) with
    | mk w1 r =>
      have hf := terminal_update_frame w i j (fo i) hji
      rw [htu] at hf
      cases r with
      | error e => simpa using hf
      | ok u => simp only []; rw [ih w1 hjs]; exact hf

/-! ## non-vacuity: a concrete history on a two-terminal world -/

private def s1 : State Int := ⟨1, 2, 3⟩
private def c1' : Command Int := Command.new .velocity 7

/-- command present, state errs: the command is forwarded, the error is returned, the state slot keeps its old content -/
example :
    let w : World Int := (World.empty.addTerms 2 : World Int)
    let fo : Followed Int := ⟨some (.ok (some ⟨99, ⟨5, c1'⟩⟩)), some (.error (.other 4))⟩
    (w.terminalUpdate 0 fo).2 = .error (.other 4) ∧ ((w.terminalUpdate 0 fo).1.t 0).command = some ⟨5, c1'⟩ ∧
      ((w.terminalUpdate 0 fo).1.t 0).state = none := by
  intro w fo; exact ⟨rfl, rfl, rfl⟩

/-- two owned terminals, the second one's state getter errs: the first terminal was already updated, the device update is skipped -/
example :
    let w : World Int := (World.empty.addTerms 2 : World Int)
    let fo : Nat → Followed Int := fun i =>
      if i = 0 then ⟨none, some (.ok (some ⟨0, ⟨5, s1⟩⟩))⟩ else ⟨none, some (.error (.other 9))⟩
    let r := updateWithFollowers (fun w => w.setState 1 ⟨0, s1⟩) [0, 1] w fo
    r.2 = .error (.other 9) ∧ (r.1.t 0).state = some ⟨5, s1⟩ ∧ (r.1.t 1).state = none := by
  intro w fo r; exact ⟨rfl, rfl, rfl⟩

end Rrtk.Thm.C15
