/-
C16 (extension module): the clause "raw-pointer variants of `Reference` are only constructible through `unsafe` fns or the
static-making macros" as a REGENERATED obligation.  `Rrtk/Gen/RefCtors.lean` is rewritten from /repo/src/reference.rs on every
run (every public fn that returns a `Reference`/`ReferenceUnsafe`, every `From`/`TryFrom` impl into them, the visibility of
`Reference`'s tuple field); the theorems below are re-checked by the kernel against that table.  A safe constructor taking a raw
pointer, a safe conversion `ReferenceUnsafe → Reference`, or a public field makes the corresponding `decide` fail; the compile probes
of the check (tools/extras.py) then supply the failing program.  This is a statement about signatures (what rustc's `unsafe` check
enforces is trusted); the lifetime half of C16 stays outside the technique (DESIGN §5).
-/
import Rrtk.Thm.C16
import Rrtk.Gen.RefCtors
namespace Rrtk.Thm.C16
open Rrtk.Gen

/-- every public constructor that takes a raw pointer is an `unsafe fn` -/
theorem raw_ctors_are_unsafe : ∀ c ∈ refCtors, c.2.2.2 = true → c.2.2.1 = true := by decide

/-- nothing that can carry a raw pointer converts into a `Reference` through a (safe) `From` / `TryFrom` impl -/
theorem no_safe_conversion_from_raw :
    ∀ c ∈ refConversions, (c.1 == "Reference") = true → c.2.2.2 = false := by decide

/-- `Reference`'s only field is private: safe code cannot wrap a `ReferenceUnsafe` by hand -/
theorem reference_field_private : referenceFieldPrivate = true := by decide

/-- non-vacuity: the table is not empty and contains both kinds of constructor -/
example : ("Reference", "from_ptr", true, true) ∈ refCtors ∧ ("Reference", "from_arc_mutex", false, false) ∈ refCtors := by decide

end Rrtk.Thm.C16
