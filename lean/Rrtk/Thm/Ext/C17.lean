/-
C17, extension modules (audited together with `Thm/C17.lean`, all in `namespace Rrtk.Thm.C17`):
* `Thm/Lemmas/C17Heap.lean` — the heap machine of `Rrtk/RefHeap.lean`: invariant `HInv`, no fault on live handles, the target of a counted
  `Reference` is alive while any handle exists, simulation to the `RefCase` model the driver runs, mutants with failing theorems;
* `Thm/Lemmas/C17Alias.lean` — the extended machine of `Rrtk/RefAlias.lean` (raw aliases made by `unsafe` code, `clone_from`, `to_dyn!` with the arm
  table as a parameter): invariant `HInvA`, `clone_from` makes the slot an owner (and the mutant that skips equal addresses is refuted),
  the target is alive while any COUNTED handle exists; raw aliases can dangle (that is what `unsafe` means);
* `Thm/Lemmas/CellBorrowLaws.lean` — the dynamic borrow state of a `RefCell` while borrows are kept alive (`CellBorrow`): invariant,
  exclusion, balanced programs return to the initial state.
-/
import Rrtk.Thm.Lemmas.C17Heap
import Rrtk.Thm.Lemmas.C17Alias
import Rrtk.Thm.Lemmas.CellBorrowLaws
