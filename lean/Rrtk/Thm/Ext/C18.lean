/-
C18 at real binary32 rounding: the tier-L theorem `commuted_mul` of `Thm/C18.lean` instantiated at the scalar type `SF`
(finite binary32 numbers with correctly rounded `+ − * /`, `Rrtk/Thm/Lemmas/SoftScalar.lean`), with the scalar law it assumes
PROVED.  (The accuracy clauses of C18 already have `*_binary32` versions in `Lemmas/C18Soft.lean`.)
-/
import Rrtk.Thm.C18
import Rrtk.Thm.Lemmas.SoftScalar
import Rrtk.Thm.Lemmas.C18More
import Rrtk.Thm.Lemmas.TimeI64
set_option linter.unusedSectionVars false
set_option linter.unusedSimpArgs false
namespace Rrtk.Thm.C18
open Rrtk Rrtk.Thm.SoftScalar

/-- the two impls the source writes commuted (`rhs * self`) agree with the converted form, in binary32.  Discharged:
`hcomm` (`mul_comm'`). -/
theorem commuted_mul_binary32 (chk : Bool) (n : Int) (q : Quantity SF) :
    Time.mulQ chk n q = Quantity.mul chk (Quantity.ofTime chk n) q ∧
    DimInt.mulQ chk n q = Quantity.mul chk (Quantity.ofDimInt chk n) q :=
  commuted_mul chk n q mul_comm'

namespace Binary32Examples
/-- an instance where both conversions and the product round: `16777217` is not a binary32 number -/
def q7 : Quantity SF := ⟨(c1 : SF) / FloatLike.ofInt 7, ⟨1, -1⟩⟩
example : (DimInt.mulQ true 16777217 q7).value.val = 9586981 / 4 := by decide +kernel
example : (DimInt.mulQ true 16777217 q7).value.val ≠ 16777217 / 7 := by decide +kernel
example : DimInt.mulQ true 16777217 q7 = Quantity.mul true (Quantity.ofDimInt true 16777217) q7 :=
  (commuted_mul_binary32 _ _ _).2
end Binary32Examples

end Rrtk.Thm.C18
