/-
C19 at real binary32 rounding: the tier-L theorem `manual_abs_eq_abs_of_laws` of `Thm/C19.lean` instantiated at the scalar
type `SF` (finite binary32 numbers, `Rrtk/Thm/Lemmas/SoftScalar.lean`), with the two scalar laws it assumes PROVED.
-/
import Rrtk.Thm.C19
import Rrtk.Thm.Lemmas.SoftScalar
import Rrtk.Thm.Lemmas.C19More
set_option linter.unusedSectionVars false
set_option linter.unusedSimpArgs false
namespace Rrtk.Thm.C19
open Rrtk Rrtk.Thm.SoftScalar

/-- the `no_std` `Quantity::abs` (`if v >= 0.0 { v } else { -v }`) equals `f32::abs`, on binary32 values.  Discharged:
`habs_nonneg` (`abs_of_nonneg'`) and `habs_neg` (`abs_of_not_nonneg'`).  `SF` has a single zero: in the hardware format the
two differ in the sign bit at `v = −0.0` (and in the sign of a NaN), as the doc comment of `absManual_spec` says. -/
theorem manual_abs_eq_abs_binary32 (q : Quantity SF) : Quantity.absManual q = Quantity.abs q :=
  manual_abs_eq_abs_of_laws abs_of_nonneg' abs_of_not_nonneg' q

namespace Binary32Examples
example : (Quantity.absManual (⟨-x1_5, ⟨1, 0⟩⟩ : Quantity SF)).value = x1_5 := by decide +kernel
example : Quantity.absManual (⟨-x1_5, ⟨1, 0⟩⟩ : Quantity SF) = Quantity.abs ⟨-x1_5, ⟨1, 0⟩⟩ :=
  manual_abs_eq_abs_binary32 _
end Binary32Examples

end Rrtk.Thm.C19
