/-
C20, extension: the wrappers' own terminal may FOLLOW getters (`Settable::follow` on the terminal): `ActuatorWrapper::update` then
starts with `update_terminals()?`, `GetterStateDeviceWrapper::update` calls it right after `inner.update()?`.
Model: `ActuatorWrapper.updateF`, `EncoderWrapper.updateF` (`Rrtk/TermFollow.lean`), run by the driver (`wr act|enc` events
`tfs tfc tnfs tnfc tgs tgc`) against the real crate on every run.  Tier S.
-/
import Rrtk.Thm.C20
import Rrtk.TermFollow
set_option linter.unusedSectionVars false
set_option linter.unusedSimpArgs false
namespace Rrtk.Thm.C20
open Rrtk

variable {F : Type} [Add F] [Sub F] [Mul F] [Div F] [Neg F] [LT F] [LE F] [BEq F]
  [DecidableLT F] [DecidableLE F] [FloatLike F]

/-- without followers the full actuator update is the update of `Rrtk/Devices.lean` on an unchanged world: every relay theorem of
`Thm/C20.lean` about `ActuatorWrapper.update` is a theorem about the full `update()` -/
theorem actuator_updateF_no_followers (w : World F) (i : Nat) (acc iu : UpdRet) :
    ActuatorWrapper.updateF w i Followed.nothing acc iu =
      (w, (ActuatorWrapper.update w i acc iu).1, (ActuatorWrapper.update w i acc iu).2.1, (ActuatorWrapper.update w i acc iu).2.2) := rfl

/-- a follower error ends the actuator update at once: nothing is handed to the inner settable, its `update` does not run,
the error is returned -/
theorem actuator_updateF_follower_error (w : World F) (i : Nat) (fo : Followed F) (acc iu : UpdRet) (e : Err)
    (h : (w.terminalUpdate i fo).2 = .error e) :
    (ActuatorWrapper.updateF w i fo acc iu).2 = (none, false, .error e) := by
  unfold ActuatorWrapper.updateF
  cases hu : w.terminalUpdate i fo with
  | mk w1 r => rw [hu] at h; simp at h; subst h; rfl

/-- otherwise what is handed over is exactly what the terminal shows AFTER the followed values were forwarded -/
theorem actuator_updateF_relays_followed (w : World F) (i : Nat) (fo : Followed F) (acc iu : UpdRet)
    (h : (w.terminalUpdate i fo).2 = .ok ()) :
    (ActuatorWrapper.updateF w i fo acc iu).2 =
      ((ActuatorWrapper.update (w.terminalUpdate i fo).1 i acc iu).1, (ActuatorWrapper.update (w.terminalUpdate i fo).1 i acc iu).2.1,
       (ActuatorWrapper.update (w.terminalUpdate i fo).1 i acc iu).2.2) := by
  unfold ActuatorWrapper.updateF
  cases hu : w.terminalUpdate i fo with
  | mk w1 r => rw [hu] at h; simp at h; subst h; rfl

/-- encoder wrapper, no followers: the update of `Rrtk/Devices.lean` -/
theorem encoder_updateF_no_followers (w : World F) (i : Nat) (iu : UpdRet) (g : Output (State F)) :
    EncoderWrapper.updateF w i Followed.nothing iu g = EncoderWrapper.update w i iu g := by
  unfold EncoderWrapper.updateF EncoderWrapper.update
  cases iu <;> rfl

/-- an error of the inner `update` comes first: the terminal does not even ask its followed getters -/
theorem encoder_updateF_inner_error_first (w : World F) (i : Nat) (fo : Followed F) (e : Err) (g : Output (State F)) :
    EncoderWrapper.updateF w i fo (.error e) g = (w, .error e) := rfl

/-- a follower error ends the update before the reading is written: the terminal's state slot keeps what the follower left -/
theorem encoder_updateF_follower_error (w : World F) (i : Nat) (fo : Followed F) (g : Output (State F)) (e : Err)
    (h : (w.terminalUpdate i fo).2 = .error e) :
    EncoderWrapper.updateF w i fo (.ok ()) g = ((w.terminalUpdate i fo).1, .error e) := by
  unfold EncoderWrapper.updateF
  cases hu : w.terminalUpdate i fo with
  | mk w1 r => rw [hu] at h; simp at h; subst h; rfl

/-- a present reading is written AFTER the followers, so it is what the terminal holds afterwards ("relayed unaltered") -/
theorem encoder_updateF_reading_wins (w : World F) (i : Nat) (fo : Followed F) (d : Datum (State F))
    (h : (w.terminalUpdate i fo).2 = .ok ()) :
    (EncoderWrapper.updateF w i fo (.ok ()) (.ok (some d))).2 = .ok () ∧
      ((EncoderWrapper.updateF w i fo (.ok ()) (.ok (some d))).1.t i).state = some d := by
  unfold EncoderWrapper.updateF
  cases hu : w.terminalUpdate i fo with
  | mk w1 r =>
    rw [hu] at h; simp at h; subst h
    simp [EncoderWrapper.update, World.setState, World.setT]

/-- non-vacuity (any scalar): a terminal following an erring command getter -/
example : (ActuatorWrapper.updateF (World.empty.addTerms 1 : World F) 0 ⟨some (.error (.other 3)), none⟩ (.ok ()) (.ok ())).2
    = (none, false, .error (.other 3)) := rfl

end Rrtk.Thm.C20
