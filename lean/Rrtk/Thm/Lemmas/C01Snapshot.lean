/-
C01 — SNAPSHOT fact about today's table of named unit constants (`Rrtk/Gen/Constants.lean`, regenerated from
/repo/src/dimensions/constants.rs): there are exactly 49, one per point of the 7×7 exponent grid. Not an obligation of the property
(adding a correctly named constant is conformant); built separately by the check, a failure is informational.
-/
import Rrtk.Thm.C01
namespace Rrtk.Thm.C01Snapshot
open Rrtk
theorem constants_are_49 : Gen.constants.length = 49 := by decide
end Rrtk.Thm.C01Snapshot
