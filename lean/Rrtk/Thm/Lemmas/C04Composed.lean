/-
C04, last clause: the PID stream agrees with the same controller ASSEMBLED from the crate's own difference, integral,
derivative, product and sum streams (`Streams/Composed.lean`, the wiring of `examples/pid.rs`).

Tier L.  The two computations use the same operators on the same operands except that (1) the integral stream adds the new
trapezoid in front (`addend + sum`) while the PID adds it behind (`sum + addend`), and (2) the PID starts its integral from
`0 + 0` while the integral stream has no leading zero and the absent integral/derivative are replaced by `0` through
`NoneToValue`.  Hence two laws of IEEE addition are needed: `x + y = y + x` and `0 + x = x` (the latter fails only for
`x = -0.0`, where the results still agree as numbers).  With them the outputs coincide EXACTLY, at every update that saw a
present input, for every history of present / absent / errored events.  At absent inputs the categories differ by design
(the assembled controller derives its clock from the input and reports `FromNone`), and both controllers reset.

Units: proved for `chk = false` (units erased); C19's erasure theorems carry checked runs over to it.
-/
import Rrtk.Streams.Composed
set_option linter.unusedSectionVars false
set_option linter.unusedSimpArgs false
namespace Rrtk.Thm.C04
open Rrtk

variable {F : Type} [Add F] [Sub F] [Mul F] [Div F] [Neg F] [LT F] [LE F] [BEq F]
  [DecidableLT F] [DecidableLE F] [FloatLike F]

/-- the f32 view of a quantity event -/
def toF (ev : Output (Quantity F)) : Output F :=
  match ev with
  | .error e => .error e
  | .ok none => .ok none
  | .ok (some d) => .ok (some ⟨d.time, d.value.value⟩)

def u0 : DUnit := ⟨0, 0⟩

/-- the relation between the PID's memory and the assembled controller's memory -/
inductive Rel : PidS F → SpidS F → Prop where
  /-- both freshly reset -/
  | fresh (p : PidS F) (s : SpidS F) (h1 : p.prevError = none) (h2 : p.intError = c0)
      (h3 : s.int.prev = none) (h4 : s.drv.prev = none) : Rel p s
  /-- one sample seen since the reset -/
  | one (p : PidS F) (s : SpidS F) (t : Int) (e : F) (h1 : p.prevError = some ⟨t, e⟩) (h2 : p.intError = c0)
      (h3 : s.int = ⟨.ok none, some ⟨t, ⟨e, u0⟩⟩⟩) (h4 : s.drv.prev = some ⟨t, ⟨e, u0⟩⟩) : Rel p s
  /-- at least two samples: the running integrals agree -/
  | many (p : PidS F) (s : SpidS F) (t : Int) (e I : F) (h1 : p.prevError = some ⟨t, e⟩) (h2 : p.intError = I)
      (h3 : s.int = ⟨.ok (some ⟨t, ⟨I, u0⟩⟩), some ⟨t, ⟨e, u0⟩⟩⟩) (h4 : s.drv.prev = some ⟨t, ⟨e, u0⟩⟩) : Rel p s

theorem rel_init : Rel (Pid.init : PidS F) (Spid.init : SpidS F) := Rel.fresh _ _ rfl rfl rfl rfl

/-- the error signal of the assembled controller on a present input: `sp − x` at the input's time, never a panic
(unchecked units) -/
theorem errorSignal_present (sp : F) (d : Datum (Quantity F)) :
    Spid.errorSignal false sp (.ok (some d)) = .ok (.ok (some ⟨d.time, ⟨sp - d.value.value, u0⟩⟩)) := by
  simp [Spid.errorSignal, Stream.timeGetterFromGetter, Stream.noneToError, Stream.constantGetter, diffQ,
    Quantity.sub, DUnit.sub, DUnit.assertEqAssumeOk, DUnit.eqAssumeTrue, MILLIMETER, DUnit.new, u0]
theorem errorSignal_absent (sp : F) :
    Spid.errorSignal (F := F) false sp (.ok none) = .ok (.error .fromNone) := rfl
theorem errorSignal_error (sp : F) (e : Err) :
    Spid.errorSignal (F := F) false sp (.error e) = .ok (.error e) := rfl

/-- an absent or errored input resets both controllers -/
theorem rel_reset (sp kp ki kd : F) (p : PidS F) (s : SpidS F) (ev : Output (Quantity F))
    (hev : ev = .ok none ∨ ∃ e, ev = .error e) :
    ∃ s' r, Spid.step false sp kp ki kd s ev = .ok (s', r) ∧ Rel (Pid.step sp ⟨kp, ki, kd⟩ p (toF ev)).1 s' := by
  rcases hev with rfl | ⟨e, rfl⟩
  · refine ⟨_, _, rfl, ?_⟩
    exact Rel.fresh _ _ rfl rfl rfl rfl
  · refine ⟨_, _, rfl, ?_⟩
    exact Rel.fresh _ _ rfl rfl rfl rfl

/-- the assembled controller's next state / return value (total wrappers around `Spid.step` used to name the result) -/
def nextS (sp kp ki kd : F) (s : SpidS F) (ev : Output (Quantity F)) : SpidS F :=
  match Spid.step false sp kp ki kd s ev with
  | .ok r => r.1
  | .error _ => s
def nextR (sp kp ki kd : F) (s : SpidS F) (ev : Output (Quantity F)) : UpdRet :=
  match Spid.step false sp kp ki kd s ev with
  | .ok r => r.2
  | .error _ => .ok ()

theorem integral_false_ok (s : DiS F) (i : Output (Quantity F)) : ∃ r, Integral.step false s i = .ok r := by
  have hadd : ∀ a b : Quantity F, Quantity.add false a b = .ok ⟨a.value + b.value, a.unit⟩ := fun a b => rfl
  cases i with
  | error e => exact ⟨_, rfl⟩
  | ok o =>
    cases o with
    | none => exact ⟨_, rfl⟩
    | some d =>
      simp only [Integral.step, hadd]
      cases s.prev with
      | none => exact ⟨_, rfl⟩
      | some p =>
        cases s.value with
        | error e => exact ⟨_, rfl⟩
        | ok v => cases v <;> exact ⟨_, rfl⟩
theorem derivative_false_ok (s : DiS F) (i : Output (Quantity F)) : ∃ r, Derivative.step false s i = .ok r := by
  have hsub : ∀ a b : Quantity F, Quantity.sub false a b = .ok ⟨a.value - b.value, a.unit⟩ := fun a b => rfl
  cases i with
  | error e => exact ⟨_, rfl⟩
  | ok o =>
    cases o with
    | none => exact ⟨_, rfl⟩
    | some d =>
      simp only [Derivative.step, hsub]
      cases s.prev <;> exact ⟨_, rfl⟩
theorem errorSignal_false_ok (sp : F) (ev : Output (Quantity F)) : ∃ r, Spid.errorSignal false sp ev = .ok r := by
  cases ev with
  | error e => exact ⟨_, rfl⟩
  | ok o =>
    cases o with
    | none => exact ⟨_, rfl⟩
    | some d => exact ⟨_, errorSignal_present sp d⟩

/-- with unchecked units no `Quantity` operator can panic, so neither can the assembled controller -/
theorem step_never_panics (sp kp ki kd : F) (s : SpidS F) (ev : Output (Quantity F)) :
    Spid.step false sp kp ki kd s ev = .ok (nextS sp kp ki kd s ev, nextR sp kp ki kd s ev) := by
  have hkey : ∃ r, Spid.step false sp kp ki kd s ev = .ok r := by
    obtain ⟨er, he⟩ := errorSignal_false_ok sp ev
    obtain ⟨ri, hi⟩ := integral_false_ok s.int er
    obtain ⟨rd, hd⟩ := derivative_false_ok s.drv er
    obtain ⟨i1, i2⟩ := ri
    obtain ⟨d1, d2⟩ := rd
    simp only [Spid.step, he, hi, hd]
    exact ⟨_, rfl⟩
  obtain ⟨r, hr⟩ := hkey
  simp only [nextS, nextR, hr]

/-- **one present input**: the assembled controller does not panic, the memories stay related, and the two outputs are equal
(value and timestamp) — given `0 + x = x` and commutativity of `+`. -/
theorem rel_present (hzero : ∀ x : F, c0 + x = x) (hcomm : ∀ x y : F, x + y = y + x)
    (sp kp ki kd : F) (p : PidS F) (s : SpidS F) (h : Rel p s) (d : Datum (Quantity F)) :
    ∃ s' r, Spid.step false sp kp ki kd s (.ok (some d)) = .ok (s', r) ∧
      Rel (Pid.step sp ⟨kp, ki, kd⟩ p (toF (.ok (some d)))).1 s' ∧
      Spid.get s' = Pid.get (Pid.step sp ⟨kp, ki, kd⟩ p (toF (.ok (some d)))).1 := by
  refine ⟨nextS sp kp ki kd s (.ok (some d)), nextR sp kp ki kd s (.ok (some d)), step_never_panics _ _ _ _ _ _, ?_, ?_⟩
  · cases h with
    | fresh h1 h2 h3 h4 =>
      refine Rel.one _ _ d.time (sp - d.value.value) ?_ ?_ ?_ ?_
      · simp [Pid.step, toF, h1]
      · simp [Pid.step, toF, h1, h2, hzero]
      · simp [nextS, Spid.step, errorSignal_present, Integral.step, Derivative.step, h3, h4]
      · simp [nextS, Spid.step, errorSignal_present, Integral.step, Derivative.step, h3, h4]
    | one t e h1 h2 h3 h4 =>
      refine Rel.many _ _ d.time (sp - d.value.value)
        (secs (d.time - t) * (e + (sp - d.value.value)) / c2) ?_ ?_ ?_ ?_
      · simp [Pid.step, toF, h1]
      · simp [Pid.step, toF, h1, h2, hzero]
      · simp [nextS, Spid.step, errorSignal_present, Integral.step, Derivative.step, h3, h4, Quantity.add, Quantity.sub,
          DUnit.add, DUnit.sub, DUnit.assertEqAssumeOk, DUnit.eqAssumeTrue, Quantity.div, Quantity.mul, Quantity.ofTime,
          Quantity.dimensionless, DUnit.mul, DUnit.div, secs, u0]
      · simp [nextS, Spid.step, errorSignal_present, Integral.step, Derivative.step, h3, h4, Quantity.add, Quantity.sub,
          DUnit.add, DUnit.sub, DUnit.assertEqAssumeOk, DUnit.eqAssumeTrue, u0]
    | many t e I h1 h2 h3 h4 =>
      refine Rel.many _ _ d.time (sp - d.value.value)
        (I + secs (d.time - t) * (e + (sp - d.value.value)) / c2) ?_ ?_ ?_ ?_
      · simp [Pid.step, toF, h1]
      · simp [Pid.step, toF, h1, h2]
      · simp [nextS, Spid.step, errorSignal_present, Integral.step, Derivative.step, h3, h4, Quantity.add, Quantity.sub,
          DUnit.add, DUnit.sub, DUnit.assertEqAssumeOk, DUnit.eqAssumeTrue, Quantity.div, Quantity.mul, Quantity.ofTime,
          Quantity.dimensionless, DUnit.mul, DUnit.div, secs, u0, hcomm I]
      · simp [nextS, Spid.step, errorSignal_present, Integral.step, Derivative.step, h3, h4, Quantity.add, Quantity.sub,
          DUnit.add, DUnit.sub, DUnit.assertEqAssumeOk, DUnit.eqAssumeTrue, u0]
  · cases h with
    | fresh h1 h2 h3 h4 =>
      simp [nextS, Spid.step, errorSignal_present, Integral.step, Derivative.step, h3, h4,
        Spid.get, Q2f.get, Q2f.step, Stream.nary, Stream.collect, Stream.foldData, Stream.noneToValue,
        Stream.timeGetterFromGetter, Stream.noneToError, Stream.constantGetter, Integral.get, Derivative.get,
        Quantity.mul, Quantity.dimensionless, Datum.combine, Pid.step, Pid.get, toF, h1, h2, hzero]
    | one t e h1 h2 h3 h4 =>
      simp [nextS, Spid.step, errorSignal_present, Integral.step, Derivative.step, h3, h4, Quantity.add, Quantity.sub,
        DUnit.add, DUnit.sub, DUnit.assertEqAssumeOk, DUnit.eqAssumeTrue,
        Spid.get, Q2f.get, Q2f.step, Stream.nary, Stream.collect, Stream.foldData, Stream.noneToValue,
        Stream.timeGetterFromGetter, Stream.noneToError, Stream.constantGetter, Integral.get, Derivative.get,
        Quantity.mul, Quantity.div, Quantity.ofTime, Quantity.dimensionless, DUnit.mul, DUnit.div, Datum.combine,
        Pid.step, Pid.get, toF, h1, h2, hzero, secs]
    | many t e I h1 h2 h3 h4 =>
      simp [nextS, Spid.step, errorSignal_present, Integral.step, Derivative.step, h3, h4, Quantity.add, Quantity.sub,
        DUnit.add, DUnit.sub, DUnit.assertEqAssumeOk, DUnit.eqAssumeTrue,
        Spid.get, Q2f.get, Q2f.step, Stream.nary, Stream.collect, Stream.foldData, Stream.noneToValue,
        Stream.timeGetterFromGetter, Stream.noneToError, Stream.constantGetter, Integral.get, Derivative.get,
        Quantity.mul, Quantity.div, Quantity.ofTime, Quantity.dimensionless, DUnit.mul, DUnit.div, Datum.combine,
        Pid.step, Pid.get, toF, h1, h2, secs, hcomm I]

/-- the two controllers run over a history -/
def runPid (sp kp ki kd : F) (p : PidS F) (evs : List (Output (Quantity F))) : PidS F :=
  evs.foldl (fun p ev => (Pid.step sp ⟨kp, ki, kd⟩ p (toF ev)).1) p
def runSpid (sp kp ki kd : F) (s : SpidS F) : List (Output (Quantity F)) → Except Panic (SpidS F)
  | [] => .ok s
  | ev :: rest =>
    match Spid.step false sp kp ki kd s ev with
    | .error p => .error p
    | .ok r => runSpid sp kp ki kd r.1 rest

/-- for EVERY history of present / absent / errored events the assembled controller never panics and its memory stays
related to the PID's -/
theorem rel_run (hzero : ∀ x : F, c0 + x = x) (hcomm : ∀ x y : F, x + y = y + x) (sp kp ki kd : F)
    (evs : List (Output (Quantity F))) (p : PidS F) (s : SpidS F) (h : Rel p s) :
    ∃ s', runSpid sp kp ki kd s evs = .ok s' ∧ Rel (runPid sp kp ki kd p evs) s' := by
  induction evs generalizing p s with
  | nil => exact ⟨s, rfl, h⟩
  | cons ev rest ih =>
    cases ev with
    | error e =>
      obtain ⟨s1, r, hs, hr⟩ := rel_reset sp kp ki kd p s (.error e) (Or.inr ⟨e, rfl⟩)
      obtain ⟨s2, h2, hr2⟩ := ih _ _ hr
      exact ⟨s2, by simp only [runSpid, hs]; exact h2, by simpa [runPid] using hr2⟩
    | ok o =>
      cases o with
      | none =>
        obtain ⟨s1, r, hs, hr⟩ := rel_reset sp kp ki kd p s (.ok none) (Or.inl rfl)
        obtain ⟨s2, h2, hr2⟩ := ih _ _ hr
        exact ⟨s2, by simp only [runSpid, hs]; exact h2, by simpa [runPid] using hr2⟩
      | some d =>
        obtain ⟨s1, r, hs, hr, _⟩ := rel_present hzero hcomm sp kp ki kd p s h d
        obtain ⟨s2, h2, hr2⟩ := ih _ _ hr
        exact ⟨s2, by simp only [runSpid, hs]; exact h2, by simpa [runPid] using hr2⟩

/-- **C04, assembled-controller clause.** After ANY history, at an update that sees a present input the PID stream and
the controller assembled from the crate's own streams give exactly the same output (value and timestamp). -/
theorem pid_eq_composed (hzero : ∀ x : F, c0 + x = x) (hcomm : ∀ x y : F, x + y = y + x) (sp kp ki kd : F)
    (pre : List (Output (Quantity F))) (d : Datum (Quantity F)) :
    ∃ s', runSpid sp kp ki kd Spid.init (pre ++ [.ok (some d)]) = .ok s' ∧
      Spid.get s' = Pid.get (runPid sp kp ki kd Pid.init (pre ++ [.ok (some d)])) := by
  obtain ⟨s1, h1, hr⟩ := rel_run hzero hcomm sp kp ki kd pre Pid.init Spid.init rel_init
  obtain ⟨s2, r, hs, _, hout⟩ := rel_present hzero hcomm sp kp ki kd _ s1 hr d
  refine ⟨s2, ?_, ?_⟩
  · have : ∀ (l : List (Output (Quantity F))) (s : SpidS F) (s' : SpidS F), runSpid sp kp ki kd s l = .ok s' →
        runSpid sp kp ki kd s (l ++ [.ok (some d)]) = runSpid sp kp ki kd s' [.ok (some d)] := by
      intro l
      induction l with
      | nil => intro s s' h; simp only [runSpid] at h; cases h; rfl
      | cons x xs ih =>
        intro s s' h
        simp only [List.cons_append, runSpid] at h ⊢
        cases hx : Spid.step false sp kp ki kd s x with
        | error p => simp [hx] at h
        | ok r => simp only [hx] at h ⊢; exact ih _ _ h
    rw [this pre _ _ h1]
    simp only [runSpid, hs]
  · simpa [runPid, List.foldl_append] using hout

/-- after an absent input the assembled controller reports `FromNone` (its clock is derived from the input) while the PID
stream is absent; after an input error both report that error -/
theorem composed_after_absent_characterised (sp kp ki kd : F) (s : SpidS F) :
    ∃ s', Spid.step false sp kp ki kd s (.ok none) = .ok (s', .error .fromNone) ∧ Spid.get s' = .error .fromNone :=
  ⟨_, rfl, rfl⟩
theorem composed_after_error (sp kp ki kd : F) (s : SpidS F) (e : Err) :
    ∃ s', Spid.step false sp kp ki kd s (.error e) = .ok (s', .error e) ∧ Spid.get s' = .error e :=
  ⟨_, rfl, rfl⟩

end Rrtk.Thm.C04
