/-
C04, two clauses restated about the functions the driver runs.

1. `pid_scale_run` (tier R): the SCALING clause for `Pid.get (run …)` itself (the older `pid_scale` is about the helper
   `specOut`): for every history, running the stream with setpoint `c·sp` on the history whose present values are all
   multiplied by `c` shows the original output with its value multiplied by `c` (same time; absent and error outputs
   unchanged).  No hypothesis on `c` is needed (`c = 0` included).

2. `pid_eq_composed_checked` (tier L, the same two laws of `+` as `pid_eq_composed`): the agreement with the controller
   ASSEMBLED from the crate's streams for `chk = true` (dimension checking compiled in).  The wiring
   (`Streams/Composed.lean`, `examples/pid.rs`) gives the setpoint the unit millimetre, so the error signal
   `setpoint − input` asserts that every present input is in millimetres `⟨1,0⟩`; the integral is then in `mm·s` `⟨1,1⟩`,
   the derivative in `mm/s` `⟨1,-1⟩`, the absent integral/derivative are replaced by `0 mm`, the products with the
   dimensionless gains never assert anything, and `QuantityToFloat` drops the units before the sum.  Precisely:
   * `spid_checked_run_iff`: the checked assembled controller runs a history without panic IFF every present input is in
     millimetres; otherwise it panics with the dimension assertion at the first present input that is not
     (`spid_checked_panics`).  No law of the scalar is used.
   * `spid_step_erase`, `spid_run_erase`: whenever the checked controller does not panic it computes exactly what the
     unchecked controller computes on the unit-erased history (same `f32` outputs, same return values).  Tier S.
   * `pid_eq_composed_checked`: hence, on histories whose present inputs are all in millimetres, the PID stream and the
     checked assembled controller give exactly the same output at every update that saw a present input.
-/
import Rrtk.Thm.C04
import Rrtk.Thm.C19
import Rrtk.Thm.Lemmas.SoftScalar
set_option linter.unusedSectionVars false
set_option linter.unusedSimpArgs false
namespace Rrtk.Thm.C04
open Rrtk

/-! ## 1. scaling, for the run itself (tier R) -/
section R
variable {F : Type} [Field F] [LinearOrder F] [IsStrictOrderedRing F] [FloatLike F] [ExactScalar F]

/-- multiply the value of a present event by `c`; absent and error events are unchanged -/
def scaleOut (c : F) (o : Output F) : Output F :=
  match o with
  | .ok (some d) => .ok (some (scaleD c d))
  | x => x

theorem specOut_scale (sp c : F) (k : PIDK F) (l : List (Datum F)) :
    specOut (c * sp) k (l.map (scaleD c)) = scaleOut c (specOut sp k l) := by
  cases l with
  | nil => rfl
  | cons x rest => rw [pid_scale]; rfl

theorem segment_scale (c : F) (evs : List (Output F)) (acc : List (Datum F)) :
    (evs.map (scaleOut c)).foldl segStep (acc.map (scaleD c)) = (evs.foldl segStep acc).map (scaleD c) := by
  induction evs generalizing acc with
  | nil => rfl
  | cons ev rest ih =>
    cases ev with
    | error e => simpa [scaleOut, segStep] using ih []
    | ok o =>
      cases o with
      | none => simpa [scaleOut, segStep] using ih []
      | some d => simpa [scaleOut, segStep] using ih (d :: acc)

/-- **C04, scaling clause, for the stream the driver runs.**  For EVERY history of present / absent / errored events and
every `c` (no side condition): the stream with setpoint `c·sp`, run on the history with every present value multiplied by
`c`, shows after the last update exactly the output of the original run with its value multiplied by `c` — same
timestamp; an absent or error output is unchanged.  (Exact arithmetic; for `c` a power of two the same holds in binary32
barring over/underflow, which the correspondence check exercises.) -/
theorem pid_scale_run (sp c : F) (k : PIDK F) (evs : List (Output F)) :
    Pid.get (run (c * sp) k Pid.init (evs.map (scaleOut c))) = scaleOut c (Pid.get (run sp k Pid.init evs)) := by
  rw [pid_eq_spec, pid_eq_spec]
  have hseg : segment (evs.map (scaleOut c)) = (segment evs).map (scaleD c) := by
    simpa [segment] using segment_scale c evs []
  rcases List.eq_nil_or_concat evs with rfl | ⟨pre, last, rfl⟩
  · rfl
  · rw [List.concat_eq_append] at *
    simp only [List.map_append, List.map_cons, List.map_nil, List.getLast?_append, List.getLast?_singleton,
      Option.some_or]
    rw [show (pre.map (scaleOut c) ++ [scaleOut c last]) = (pre ++ [last]).map (scaleOut c) by simp] at *
    cases last with
    | error e => rfl
    | ok o =>
      cases o with
      | none => simp only [scaleOut, hseg, specOut_scale]
      | some d => simp only [scaleOut, hseg, specOut_scale]

/-- value form: when the original run shows a present output `⟨t, v⟩`, the scaled run shows `⟨t, c·v⟩` -/
theorem pid_scale_run_value (sp c : F) (k : PIDK F) (evs : List (Output F)) (t : Int) (v : F)
    (h : Pid.get (run sp k Pid.init evs) = .ok (some ⟨t, v⟩)) :
    Pid.get (run (c * sp) k Pid.init (evs.map (scaleOut c))) = .ok (some ⟨t, c * v⟩) := by
  rw [pid_scale_run, h]; rfl

/-- non-vacuity of `pid_scale_run_value` over `ℚ`: setpoint 5, gains (1, 1, 1), samples 0 at 0 s and 1 at 2 s after an
error event: e = 4, I = 2·(5 + 4)/2 = 9, D = (4 − 5)/2, output 4 + 9 − 1/2 = 25/2 at 2 s; scaled by 3 it is 75/2 -/
example : Pid.get (run (5 : ℚ) ⟨1, 1, 1⟩ Pid.init
    [.error (.other 1), .ok (some ⟨0, 0⟩), .ok (some ⟨2000000000, 1⟩)]) = .ok (some ⟨2000000000, 25 / 2⟩) := by
  simp only [run, List.foldl, Pid.step, Pid.init, Pid.get, secs, FloatLike.ofInt]
  norm_num
example : Pid.get (run ((3 : ℚ) * 5) ⟨1, 1, 1⟩ Pid.init
    ([.error (.other 1), .ok (some ⟨0, 0⟩), .ok (some ⟨2000000000, 1⟩)].map (scaleOut 3))) =
      .ok (some ⟨2000000000, 3 * (25 / 2)⟩) :=
  pid_scale_run_value 5 3 ⟨1, 1, 1⟩ _ _ _ (by
    simp only [run, List.foldl, Pid.step, Pid.init, Pid.get, secs, FloatLike.ofInt]
    norm_num)
end R

/-! ## 2. the assembled controller with dimension checking compiled in -/
section S
variable {F : Type} [Add F] [Sub F] [Mul F] [Div F] [Neg F] [LT F] [LE F] [BEq F]
  [DecidableLT F] [DecidableLE F] [FloatLike F]
open Rrtk.Thm.C19 (eraseQ eraseD eraseOD eraseOut eraseDi)

/-- every present input of the history is in millimetres (the unit the wiring gives the setpoint) -/
def AllMm (evs : List (Output (Quantity F))) : Prop :=
  ∀ d : Datum (Quantity F), (.ok (some d) : Output (Quantity F)) ∈ evs → d.value.unit = ⟨1, 0⟩
/-- the same for one event -/
def MmEv (ev : Output (Quantity F)) : Prop := ∀ d : Datum (Quantity F), ev = .ok (some d) → d.value.unit = ⟨1, 0⟩

/-! ### checked `+` / `−` -/
theorem constEq_self (a : DUnit) : DUnit.constEq a a = true := by simp [DUnit.constEq]
theorem constEq_ne (a b : DUnit) (h : a ≠ b) : DUnit.constEq a b = false := by
  cases a; cases b
  cases hc : DUnit.constEq _ _ with
  | false => rfl
  | true => simp [DUnit.constEq] at hc; exact absurd (by simp [hc]) h
theorem qadd_true_same (a b : Quantity F) (h : a.unit = b.unit) :
    Quantity.add true a b = .ok ⟨a.value + b.value, a.unit⟩ := by
  simp [Quantity.add, DUnit.add, DUnit.assertEqAssumeOk, DUnit.eqAssumeTrue, h, constEq_self]
theorem qsub_true_same (a b : Quantity F) (h : a.unit = b.unit) :
    Quantity.sub true a b = .ok ⟨a.value - b.value, a.unit⟩ := by
  simp [Quantity.sub, DUnit.sub, DUnit.assertEqAssumeOk, DUnit.eqAssumeTrue, h, constEq_self]
theorem qsub_true_ne (a b : Quantity F) (h : a.unit ≠ b.unit) : Quantity.sub true a b = .error .dim := by
  simp [Quantity.sub, DUnit.sub, DUnit.assertEqAssumeOk, DUnit.eqAssumeTrue, constEq_ne _ _ h]

/-! ### the error signal `setpoint(mm) − input` -/
theorem errorSignal_unfold (chk : Bool) (sp : F) (d : Datum (Quantity F)) :
    Spid.errorSignal chk sp (.ok (some d)) =
      match Quantity.sub chk ⟨sp, MILLIMETER chk⟩ d.value with
      | .error p => .error p
      | .ok v => .ok (.ok (some ⟨if d.time > d.time then d.time else d.time, v⟩)) := rfl

/-- a present input in millimetres: the error `sp − x` in millimetres at the input's time -/
theorem errorSignal_checked_present (sp : F) (d : Datum (Quantity F)) (hd : d.value.unit = ⟨1, 0⟩) :
    Spid.errorSignal true sp (.ok (some d)) = .ok (.ok (some ⟨d.time, ⟨sp - d.value.value, ⟨1, 0⟩⟩⟩)) := by
  rw [errorSignal_unfold, qsub_true_same _ _ (by rw [hd]; rfl)]
  simp [MILLIMETER, DUnit.new]
/-- a present input in any other unit: the subtraction's dimension assertion fires -/
theorem errorSignal_checked_wrong (sp : F) (d : Datum (Quantity F)) (hd : d.value.unit ≠ ⟨1, 0⟩) :
    Spid.errorSignal true sp (.ok (some d)) = .error .dim := by
  rw [errorSignal_unfold, qsub_true_ne _ _ (fun h => hd h.symm)]
theorem errorSignal_checked_absent (sp : F) :
    Spid.errorSignal (F := F) true sp (.ok none) = .ok (.error .fromNone) := rfl
theorem errorSignal_checked_error (sp : F) (e : Err) :
    Spid.errorSignal (F := F) true sp (.error e) = .ok (.error e) := rfl

/-- on an event that is not a wrongly dimensioned sample the error signal exists and, when present, is in mm -/
theorem errorSignal_checked_ok (sp : F) (ev : Output (Quantity F)) (hev : MmEv ev) :
    ∃ err, Spid.errorSignal true sp ev = .ok err ∧ MmEv err := by
  cases ev with
  | error e => exact ⟨_, rfl, by intro d h; cases h⟩
  | ok o =>
    cases o with
    | none => exact ⟨_, rfl, by intro d h; cases h⟩
    | some d =>
      refine ⟨_, errorSignal_checked_present sp d (hev d rfl), ?_⟩
      intro d' h; cases h; rfl

/-! ### unit invariants of the integral and derivative nodes inside the controller -/
/-- integral node: previous sample in mm, accumulated value in mm·s -/
structure IntUnits (s : DiS F) : Prop where
  prev : ∀ d, s.prev = some d → d.value.unit = ⟨1, 0⟩
  value : ∀ d, s.value = .ok (some d) → d.value.unit = ⟨1, 1⟩
/-- derivative node: previous sample in mm -/
def DrvUnits (s : DiS F) : Prop := ∀ d, s.prev = some d → d.value.unit = ⟨1, 0⟩

theorem integral_step_units (s : DiS F) (i : Output (Quantity F)) (hs : IntUnits s) (hi : MmEv i) :
    ∃ s' r, Integral.step true s i = .ok (s', r) ∧ IntUnits s' := by
  obtain ⟨v, prev⟩ := s
  obtain ⟨hp, hv⟩ := hs
  cases i with
  | error e => exact ⟨_, _, rfl, ⟨fun d h => (by cases h), fun d h => by cases h⟩⟩
  | ok oi =>
    cases oi with
    | none => exact ⟨_, _, rfl, ⟨fun d h => (by cases h), fun d h => by cases h⟩⟩
    | some o =>
      have ho := hi o rfl
      cases prev with
      | none => exact ⟨_, _, rfl, ⟨fun d h => (by cases h; exact ho), fun d h => by cases h⟩⟩
      | some p =>
        have hpu := hp p rfl
        have hadd := qadd_true_same p.value o.value (by rw [hpu, ho])
        have hau : (Quantity.div true (Quantity.mul true (Quantity.ofTime true (o.time - p.time))
            (⟨p.value.value + o.value.value, p.value.unit⟩ : Quantity F)) (Quantity.dimensionless true c2)).unit
              = ⟨1, 1⟩ := by
          simp [Quantity.div, Quantity.mul, Quantity.ofTime, Quantity.dimensionless, DUnit.div, DUnit.mul, SECOND,
            DIMENSIONLESS, DUnit.new, hpu]
        cases v with
        | error e =>
          refine ⟨_, _, by simp only [Integral.step, hadd]; rfl, ⟨?_, ?_⟩⟩
          · intro d h; cases h; exact ho
          · intro d h; cases h; exact hau
        | ok ov =>
          cases ov with
          | none =>
            refine ⟨_, _, by simp only [Integral.step, hadd]; rfl, ⟨?_, ?_⟩⟩
            · intro d h; cases h; exact ho
            · intro d h; cases h; exact hau
          | some real =>
            have hru := hv real rfl
            have hadd2 := qadd_true_same (Quantity.div true (Quantity.mul true (Quantity.ofTime true (o.time - p.time))
              (⟨p.value.value + o.value.value, p.value.unit⟩ : Quantity F)) (Quantity.dimensionless true c2))
              real.value (by rw [hau, hru])
            refine ⟨_, _, by simp only [Integral.step, hadd, hadd2]; rfl, ⟨?_, ?_⟩⟩
            · intro d h; cases h; exact ho
            · intro d h; cases h; exact hau

theorem derivative_step_units (s : DiS F) (i : Output (Quantity F)) (hs : DrvUnits s) (hi : MmEv i) :
    ∃ s' r, Derivative.step true s i = .ok (s', r) ∧ DrvUnits s' := by
  obtain ⟨v, prev⟩ := s
  cases i with
  | error e => exact ⟨_, _, rfl, by intro d h; cases h⟩
  | ok oi =>
    cases oi with
    | none => exact ⟨_, _, rfl, by intro d h; cases h⟩
    | some o =>
      have ho := hi o rfl
      cases prev with
      | none => exact ⟨_, _, rfl, by intro d h; cases h; exact ho⟩
      | some p =>
        have hpu := hs p rfl
        have hsub := qsub_true_same o.value p.value (by rw [hpu, ho])
        exact ⟨_, _, by simp only [Derivative.step, hsub]; rfl, by intro d h; cases h; exact ho⟩

/-- what the checked assembled controller needs of its memory: the integral and derivative nodes hold consistently
dimensioned data (true of `Spid.init`, preserved by every non-panicking update) -/
structure SpidUnits (s : SpidS F) : Prop where
  int : IntUnits s.int
  drv : DrvUnits s.drv

theorem spidUnits_init : SpidUnits (Spid.init : SpidS F) :=
  ⟨⟨fun d h => (by cases h), fun d h => by cases h⟩, fun d h => by cases h⟩

/-- **one checked update on a correctly dimensioned event never panics** (and keeps the invariant): only the error signal,
the integral node and the derivative node can assert, and their operands are mm/mm, mm/mm and mm·s/mm·s, mm/mm. -/
theorem spid_step_units (sp kp ki kd : F) (s : SpidS F) (ev : Output (Quantity F)) (hs : SpidUnits s)
    (hev : MmEv ev) : ∃ s' r, Spid.step true sp kp ki kd s ev = .ok (s', r) ∧ SpidUnits s' := by
  obtain ⟨err, he, herr⟩ := errorSignal_checked_ok sp ev hev
  obtain ⟨i1, r1, hi, hiu⟩ := integral_step_units s.int err hs.int herr
  obtain ⟨d1, r2, hd, hdu⟩ := derivative_step_units s.drv err hs.drv herr
  simp only [Spid.step, he, hi, hd]
  exact ⟨_, _, rfl, hiu, hdu⟩

/-- **a present input that is not in millimetres panics** (dimension assertion of `setpoint − input`), from any state -/
theorem spid_step_wrong_unit_panics (sp kp ki kd : F) (s : SpidS F) (d : Datum (Quantity F))
    (hd : d.value.unit ≠ ⟨1, 0⟩) : Spid.step true sp kp ki kd s (.ok (some d)) = .error .dim := by
  simp only [Spid.step, errorSignal_checked_wrong sp d hd]

/-! ### whole histories: the checked controller panics iff some present input is not in millimetres -/
theorem spid_checked_run_ok (sp kp ki kd : F) (evs : List (Output (Quantity F))) (s : SpidS F) (hs : SpidUnits s)
    (hu : AllMm evs) : ∃ s', runE (Spid.step true sp kp ki kd) s evs = .ok s' ∧ SpidUnits s' := by
  induction evs generalizing s with
  | nil => exact ⟨s, rfl, hs⟩
  | cons ev rest ih =>
    obtain ⟨s1, r, h1, hs1⟩ := spid_step_units sp kp ki kd s ev hs
      (by intro d h; exact hu d (by rw [h]; exact List.mem_cons_self))
    obtain ⟨s2, h2, hs2⟩ := ih s1 hs1 (fun d hd => hu d (List.mem_cons_of_mem _ hd))
    exact ⟨s2, by rw [runE_cons, h1]; exact h2, hs2⟩

theorem spid_checked_panics (sp kp ki kd : F) (evs : List (Output (Quantity F))) (s : SpidS F) (hs : SpidUnits s)
    (hu : ¬ AllMm evs) : runE (Spid.step true sp kp ki kd) s evs = .error .dim := by
  induction evs generalizing s with
  | nil => exact absurd (fun d h => by cases h) hu
  | cons ev rest ih =>
    by_cases hev : MmEv ev
    · obtain ⟨s1, r, h1, hs1⟩ := spid_step_units sp kp ki kd s ev hs hev
      rw [runE_cons, h1]
      refine ih s1 hs1 (fun hrest => hu ?_)
      intro d hd
      rcases List.mem_cons.1 hd with h | h
      · exact hev d h.symm
      · exact hrest d h
    · have : ∃ d, ev = .ok (some d) ∧ d.value.unit ≠ ⟨1, 0⟩ := by
        by_contra hne
        exact hev (fun d hd => by
          by_contra hd'
          exact hne ⟨d, hd, hd'⟩)
      obtain ⟨d, rfl, hd⟩ := this
      rw [runE_cons, spid_step_wrong_unit_panics sp kp ki kd s d hd]

/-- **Checked assembled controller: panic characterisation.**  From its initial state it runs a history without panic
IFF every present input is in millimetres; if not, it stops with the dimension assertion.  (No law of the scalar.) -/
theorem spid_checked_run_iff (sp kp ki kd : F) (evs : List (Output (Quantity F))) :
    ((∃ s', runE (Spid.step true sp kp ki kd) Spid.init evs = .ok s') ↔ AllMm evs) ∧
    (¬ AllMm evs → runE (Spid.step true sp kp ki kd) Spid.init evs = .error .dim) := by
  refine ⟨⟨?_, ?_⟩, spid_checked_panics sp kp ki kd evs Spid.init spidUnits_init⟩
  · rintro ⟨s', h⟩
    by_contra hu
    rw [spid_checked_panics sp kp ki kd evs Spid.init spidUnits_init hu] at h
    cases h
  · intro hu
    obtain ⟨s', h, _⟩ := spid_checked_run_ok sp kp ki kd evs Spid.init spidUnits_init hu
    exact ⟨s', h⟩

/-! ### erasure: a checked update that does not panic computes what the unchecked one computes -/
/-- forget the units kept in the integral and derivative nodes (the three `QuantityToFloat` caches hold plain numbers) -/
def eraseS (s : SpidS F) : SpidS F := ⟨eraseDi s.int, eraseDi s.drv, s.pro, s.intF, s.drvF⟩

theorem eraseS_init : eraseS (Spid.init : SpidS F) = Spid.init := rfl
/-- the output is read from the number caches only -/
theorem spid_get_erase (s : SpidS F) : Spid.get (eraseS s) = Spid.get s := rfl

theorem errorSignal_erase (sp : F) (ev err : Output (Quantity F)) (h : Spid.errorSignal true sp ev = .ok err) :
    Spid.errorSignal false sp (eraseOut ev) = .ok (eraseOut err) := by
  cases ev with
  | error e => cases h; rfl
  | ok o =>
    cases o with
    | none => cases h; rfl
    | some d =>
      rw [errorSignal_unfold] at h
      split at h
      · cases h
      · rename_i v hv
        obtain rfl := C19.sub_true_ok hv
        cases h; rfl

theorem tg_erase (ev : Output (Quantity F)) :
    Stream.timeGetterFromGetter (eraseOut ev) = Stream.timeGetterFromGetter ev := by
  cases ev with
  | error e => rfl
  | ok o => cases o <;> rfl

theorem const_erase (tg : TimeOutput) (v : F) :
    Stream.constantGetter tg (Quantity.dimensionless false v) =
      eraseOut (Stream.constantGetter tg (Quantity.dimensionless true v)) := by
  cases tg <;> rfl

theorem ntv_erase (o : Output (Quantity F)) (tg : TimeOutput) :
    Stream.noneToValue (eraseOut o) tg (⟨c0, MILLIMETER false⟩ : Quantity F) =
      eraseOut (Stream.noneToValue o tg ⟨c0, MILLIMETER true⟩) := by
  cases o with
  | error e => rfl
  | ok oo =>
    cases oo with
    | some d => rfl
    | none => cases tg <;> rfl

/-- gain × signal → `QuantityToFloat`: the cached number does not depend on the checking mode -/
theorem q2f_mul_erase (x : Output F) (a b : Output (Quantity F)) :
    Q2f.step x (Stream.nary (Quantity.mul false) [eraseOut a, eraseOut b]) =
      Q2f.step x (Stream.nary (Quantity.mul true) [a, b]) := by
  cases a with
  | error e => rfl
  | ok oa =>
    cases b with
    | error e => cases oa <;> rfl
    | ok ob => cases oa <;> cases ob <;> rfl

/-- **one update, erased.**  If the checked controller's update does not panic, the unchecked controller's update on the
unit-erased state and input gives the erased new state and the same return value (tier S). -/
theorem spid_step_erase (sp kp ki kd : F) (s s' : SpidS F) (ev : Output (Quantity F)) (r : UpdRet)
    (h : Spid.step true sp kp ki kd s ev = .ok (s', r)) :
    Spid.step false sp kp ki kd (eraseS s) (eraseOut ev) = .ok (eraseS s', r) := by
  simp only [Spid.step] at h
  cases he : Spid.errorSignal true sp ev with
  | error p => rw [he] at h; cases h
  | ok err =>
    rw [he] at h; simp only at h
    cases hi : Integral.step true s.int err with
    | error p => rw [hi] at h; cases h
    | ok ri =>
      obtain ⟨i1, r1⟩ := ri
      rw [hi] at h; simp only at h
      cases hd : Derivative.step true s.drv err with
      | error p => rw [hd] at h; cases h
      | ok rd =>
        obtain ⟨d1, r2⟩ := rd
        rw [hd] at h
        simp only [Except.ok.injEq, Prod.mk.injEq] at h
        obtain ⟨rfl, rfl⟩ := h
        have e1 := errorSignal_erase sp ev err he
        have e2 : Integral.step false (eraseS s).int (eraseOut err) = .ok (eraseDi i1, r1) := C19.integral_step_sim hi
        have e3 : Derivative.step false (eraseS s).drv (eraseOut err) = .ok (eraseDi d1, r2) :=
          C19.derivative_step_sim hd
        have g1 : Integral.get (eraseDi i1) = eraseOut (Integral.get i1) := rfl
        have g2 : Derivative.get (eraseDi d1) = eraseOut (Derivative.get d1) := rfl
        simp only [Spid.step, e1, e2, e3, tg_erase, const_erase, g1, g2, ntv_erase, q2f_mul_erase]
        rfl

/-- whole histories -/
theorem spid_run_erase (sp kp ki kd : F) (evs : List (Output (Quantity F))) (s s' : SpidS F)
    (h : runE (Spid.step true sp kp ki kd) s evs = .ok s') :
    runE (Spid.step false sp kp ki kd) (eraseS s) (evs.map eraseOut) = .ok (eraseS s') :=
  C19.runE_sim _ _ eraseS eraseOut (fun s i s' r => spid_step_erase sp kp ki kd s s' i r) s evs s' h

/-- the run function of `C04Composed` is the generic one -/
theorem runSpid_eq_runE (sp kp ki kd : F) (s : SpidS F) (evs : List (Output (Quantity F))) :
    runSpid sp kp ki kd s evs = runE (Spid.step false sp kp ki kd) s evs := by
  induction evs generalizing s with
  | nil => rfl
  | cons ev rest ih =>
    simp only [runSpid, runE_cons]
    cases Spid.step false sp kp ki kd s ev with
    | error p => rfl
    | ok r => exact ih r.1

/-- the PID stream only ever sees the numbers -/
theorem toF_erase (ev : Output (Quantity F)) : toF (eraseOut ev) = toF ev := by
  cases ev with
  | error e => rfl
  | ok o => cases o <;> rfl
theorem runPid_erase (sp kp ki kd : F) (p : PidS F) (evs : List (Output (Quantity F))) :
    runPid sp kp ki kd p (evs.map eraseOut) = runPid sp kp ki kd p evs := by
  induction evs generalizing p with
  | nil => rfl
  | cons ev rest ih => simp only [List.map_cons, runPid, List.foldl_cons, toF_erase] at ih ⊢; exact ih _

/-- **C04, assembled-controller clause with dimension checking compiled in — general form.**  After ANY history that the
checked assembled controller survives, at an update that saw a present input its output equals the PID stream's
(value and timestamp).  Tier L: the same two laws of `+` as `pid_eq_composed`. -/
theorem pid_eq_composed_checked_of_ok (hzero : ∀ x : F, c0 + x = x) (hcomm : ∀ x y : F, x + y = y + x)
    (sp kp ki kd : F) (pre : List (Output (Quantity F))) (d : Datum (Quantity F)) (s' : SpidS F)
    (h : runE (Spid.step true sp kp ki kd) Spid.init (pre ++ [.ok (some d)]) = .ok s') :
    Spid.get s' = Pid.get (runPid sp kp ki kd Pid.init (pre ++ [.ok (some d)])) := by
  have he := spid_run_erase sp kp ki kd _ _ _ h
  obtain ⟨s2, h2, hout⟩ := pid_eq_composed hzero hcomm sp kp ki kd (pre.map eraseOut) (C19.eraseD d)
  have hmap : (pre ++ [(.ok (some d) : Output (Quantity F))]).map eraseOut =
      pre.map eraseOut ++ [.ok (some (C19.eraseD d))] := by simp [eraseOut, eraseOD]
  rw [eraseS_init] at he
  rw [runSpid_eq_runE, ← hmap, he] at h2
  cases h2
  rw [← hmap, runPid_erase] at hout
  rw [← hout, spid_get_erase]

/-- **C04, assembled-controller clause, `chk = true`.**  For every history whose present inputs all carry the unit the
wiring expects (millimetres, the setpoint's unit), ending with a present input: the checked assembled controller does not
panic and shows exactly the PID stream's output (value and timestamp).  By `spid_checked_run_iff` the unit hypothesis is
also necessary for the left-hand side to exist. -/
theorem pid_eq_composed_checked (hzero : ∀ x : F, c0 + x = x) (hcomm : ∀ x y : F, x + y = y + x)
    (sp kp ki kd : F) (pre : List (Output (Quantity F))) (d : Datum (Quantity F))
    (hu : AllMm (pre ++ [.ok (some d)])) :
    ∃ s', runE (Spid.step true sp kp ki kd) Spid.init (pre ++ [.ok (some d)]) = .ok s' ∧
      Spid.get s' = Pid.get (runPid sp kp ki kd Pid.init (pre ++ [.ok (some d)])) := by
  obtain ⟨s', h, _⟩ := spid_checked_run_ok sp kp ki kd _ Spid.init spidUnits_init hu
  exact ⟨s', h, pid_eq_composed_checked_of_ok hzero hcomm sp kp ki kd pre d s' h⟩

/-- after an absent input the checked assembled controller reports `FromNone`, after an input error that error — as
unchecked (`composed_after_absent_characterised`, `composed_after_error`) -/
theorem composed_checked_after_absent (sp kp ki kd : F) (s : SpidS F) :
    ∃ s', Spid.step true sp kp ki kd s (.ok none) = .ok (s', .error .fromNone) ∧ Spid.get s' = .error .fromNone :=
  ⟨_, rfl, rfl⟩
theorem composed_checked_after_error (sp kp ki kd : F) (s : SpidS F) (e : Err) :
    ∃ s', Spid.step true sp kp ki kd s (.error e) = .ok (s', .error e) ∧ Spid.get s' = .error e :=
  ⟨_, rfl, rfl⟩
end S

/-! ### the checked clause at real binary32 rounding -/
section Binary32
open Rrtk.Thm.SoftScalar

/-- **C04, assembled-controller clause with dimension checking compiled in, in binary32** (`SF`: finite binary32 numbers
with correctly rounded `+ − * /`).  The two laws of `+` are discharged (`zero_add'`, `add_comm'`); the only hypothesis
left is that the present inputs are in millimetres. -/
theorem pid_eq_composed_checked_binary32 (sp kp ki kd : SF) (pre : List (Output (Quantity SF)))
    (d : Datum (Quantity SF)) (hu : AllMm (pre ++ [.ok (some d)])) :
    ∃ s', runE (Spid.step true sp kp ki kd) Spid.init (pre ++ [.ok (some d)]) = .ok s' ∧
      Spid.get s' = Pid.get (runPid sp kp ki kd Pid.init (pre ++ [.ok (some d)])) :=
  pid_eq_composed_checked zero_add' add_comm' sp kp ki kd pre d hu

/-- non-vacuity: a binary32 history in millimetres -/
example : AllMm ([.ok (some ⟨0, ⟨(c1 : SF), ⟨1, 0⟩⟩⟩), .ok none] ++ [.ok (some ⟨1000000000, ⟨(c3 : SF), ⟨1, 0⟩⟩⟩)]) := by
  intro d hd
  simp only [List.cons_append, List.nil_append, List.mem_cons, List.not_mem_nil, or_false, Except.ok.injEq,
    Option.some.injEq, reduceCtorEq, false_or] at hd
  rcases hd with rfl | rfl <;> rfl
end Binary32

/-! ### non-vacuity (toy `Int` scalar of `IntScalar`; times in whole seconds) -/
namespace CheckedExamples
def mm (t v : Int) : Output (Quantity Int) := .ok (some ⟨t * 1000000000, ⟨v, ⟨1, 0⟩⟩⟩)
/-- a history with an absent event and an error, all present inputs in millimetres -/
def pre : List (Output (Quantity Int)) := [mm 0 0, .ok none, mm 2 1, .error (.other 3), mm 3 3, mm 5 4]
def last : Datum (Quantity Int) := ⟨7000000000, ⟨1, ⟨1, 0⟩⟩⟩
example : AllMm (pre ++ [.ok (some last)]) := by
  intro d hd
  simp [pre, mm, last] at hd
  rcases hd with rfl | rfl | rfl | rfl | rfl <;> rfl
/-- the laws of `+` assumed by `pid_eq_composed_checked` hold for the toy scalar -/
example : (∀ x : Int, c0 + x = x) ∧ (∀ x y : Int, x + y = y + x) :=
  ⟨fun x => by show (0 : Int) + x = x; omega, fun x y => by omega⟩
/-- the checked assembled controller survives that history (hypothesis of `pid_eq_composed_checked_of_ok`) -/
example : ∃ s', runE (Spid.step true 5 1 1 1) Spid.init (pre ++ [.ok (some last)]) = .ok s' := ⟨_, rfl⟩
/-- one input in mm/s: panic with the dimension assertion (hypothesis of `spid_checked_panics`) -/
example : runE (Spid.step true 5 1 1 1) Spid.init [mm 0 0, .ok (some ⟨1000000000, ⟨1, ⟨1, -1⟩⟩⟩), mm 2 1] = .error .dim := rfl
example : ¬ AllMm [mm 0 0, .ok (some ⟨1000000000, ⟨(1 : Int), ⟨1, -1⟩⟩⟩), mm 2 1] := by
  intro h
  have := h ⟨1000000000, ⟨1, ⟨1, -1⟩⟩⟩ (by simp)
  exact absurd this (by decide)
/-- … which the unchecked controller does not notice -/
example : ∃ s', runE (Spid.step false 5 1 1 1) Spid.init [mm 0 0, .ok (some ⟨1000000000, ⟨1, ⟨1, -1⟩⟩⟩), mm 2 1] = .ok s' :=
  ⟨_, rfl⟩
end CheckedExamples

end Rrtk.Thm.C04
