/-
C06: `new_history_after_complete` (which assumes `0 ≤ t1 ≤ t2 ≤ t3`) composed with the binary32 ordering of the stored times,
so that at `SF` no ordering hypothesis is left.  This file is imported BY `Thm/Ext/C06.lean` (where
`new_times_ordered_binary32` lives), so the ordering is obtained here the same way that theorem obtains it: from the tier-L
`new_times_ordered` with its five scalar hypotheses discharged by the lemmas of `Lemmas/SoftScalar.lean`.
-/
import Rrtk.Thm.C06
import Rrtk.Thm.Lemmas.SoftScalar
set_option linter.unusedSectionVars false
set_option linter.unusedSimpArgs false
namespace Rrtk.Thm.C06
open Rrtk Rrtk.Thm.MpL MotionProfile Rrtk.Thm.SoftScalar

/-- in binary32 arithmetic, EVERY profile `MotionProfile::new` returns answers, from `t3` onward and forever, the end
state's lowest non-zero derivative stamped with the query time.  The only hypothesis is that the constructor returned. -/
theorem new_history_after_complete_binary32 (chk : Bool) (s e : State SF) (mv ma : Quantity SF) (mp : MotionProfile SF)
    (h : MotionProfile.new chk s e mv ma = .ok mp) (t : Int) (ht : mp.t3 ≤ t) :
    historyGet chk mp t = .ok (some ⟨t, Command.ofState e⟩) :=
  new_history_after_complete chk s e mv ma mp h
    (new_times_ordered chk s e mv ma mp mul_e9_mono toInt_mono le_add_of_nonneg le_trans' toInt_zero_mul h) t ht

/-- non-vacuity: the constructor returns on binary32 data whose operations really round (0 → 3 mm, `0.1f32` mm/s,
`0.01f32` mm/s²: `t3 = 40 s`), so `h` is satisfiable and the conclusion applies at every `t ≥ t3` -/
example : ∃ mp, MotionProfile.new true (⟨c0, c0, c0⟩ : State SF) ⟨c3, c0, c0⟩ ⟨rnd (1 / 10), ⟨1, -1⟩⟩
      ⟨rnd (1 / 100), ⟨1, -2⟩⟩ = .ok mp ∧ mp.t3 = 40000000000 ∧
    ∀ t, mp.t3 ≤ t → historyGet true mp t = .ok (some ⟨t, .position c3⟩) := by
  have ht3 : (MotionProfile.new true (⟨c0, c0, c0⟩ : State SF) ⟨c3, c0, c0⟩ ⟨rnd (1 / 10), ⟨1, -1⟩⟩
      ⟨rnd (1 / 100), ⟨1, -2⟩⟩).toOption.map (fun mp => mp.t3) = some 40000000000 := by decide +kernel
  cases hn : MotionProfile.new true (⟨c0, c0, c0⟩ : State SF) ⟨c3, c0, c0⟩ ⟨rnd (1 / 10), ⟨1, -1⟩⟩
      ⟨rnd (1 / 100), ⟨1, -2⟩⟩ with
  | error p => rw [hn] at ht3; cases ht3
  | ok mp =>
    rw [hn] at ht3
    refine ⟨mp, rfl, by simpa [Except.toOption] using ht3, fun t ht => ?_⟩
    have := new_history_after_complete_binary32 _ _ _ _ _ _ hn t ht
    rw [this]
    have hb : ((c0 : SF) == c0) = true := by decide +kernel
    have : Command.ofState (⟨c3, c0, c0⟩ : State SF) = .position c3 := by simp only [Command.ofState, hb, if_true]
    rw [this]

end Rrtk.Thm.C06
