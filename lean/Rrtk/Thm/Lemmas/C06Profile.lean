/-
Helper lemmas shared by `Thm/C06.lean` and `Thm/C07.lean` (motion profile).  Tier S throughout:
`F` is arbitrary, no algebraic law is used.

* `Command` round trips;
* the value-level formulas the accessors compute (`secF`, `velF`, `pos1F`, `pos2F`, `pos3F`) and the
  fact that, for a well-dimensioned profile (`WF`), the `Quantity`-level code returns exactly these
  terms and never panics;
* the value-level quantities of `MotionProfile::new` (`sgn`, `vMax`, `aMax`, `T1`, `D3`, `D2`, `T2`, `T3`) and
  the inversion of the constructor.
-/
import Rrtk.MotionProfile
set_option linter.unusedSectionVars false
set_option linter.unusedSimpArgs false
namespace Rrtk.Thm.MpL
open Rrtk

section S
variable {F : Type} [Add F] [Sub F] [Mul F] [Div F] [Neg F] [LT F] [LE F] [BEq F]
  [DecidableLT F] [DecidableLE F] [FloatLike F]

/-! ### `Command` -/
theorem kind_new (pd : PosDer) (v : F) : (Command.new pd v).kind = pd := by cases pd <;> rfl
theorem raw_new (pd : PosDer) (v : F) : (Command.new pd v).raw = v := by cases pd <;> rfl
theorem new_kind_raw (c : Command F) : Command.new c.kind c.raw = c := by cases c <;> rfl

/-! ### unit checks -/
theorem constEq_iff (a b : DUnit) : DUnit.constEq a b = true ↔ a = b := by
  cases a; cases b; simp [DUnit.constEq]

theorem add_ok {chk : Bool} {a b r : Quantity F} (h : Quantity.add chk a b = .ok r) :
    r = ⟨a.value + b.value, a.unit⟩ ∧ DUnit.eqAssumeTrue chk a.unit b.unit = true := by
  simp only [Quantity.add, DUnit.add, DUnit.assertEqAssumeOk] at h
  cases hu : DUnit.eqAssumeTrue chk a.unit b.unit with
  | false => simp [hu] at h
  | true =>
    simp only [hu, if_true] at h
    injection h with h
    exact ⟨h.symm, rfl⟩

theorem sub_ok {chk : Bool} {a b r : Quantity F} (h : Quantity.sub chk a b = .ok r) :
    r = ⟨a.value - b.value, a.unit⟩ ∧ DUnit.eqAssumeTrue chk a.unit b.unit = true := by
  simp only [Quantity.sub, DUnit.sub, DUnit.assertEqAssumeOk] at h
  cases hu : DUnit.eqAssumeTrue chk a.unit b.unit with
  | false => simp [hu] at h
  | true =>
    simp only [hu, if_true] at h
    injection h with h
    exact ⟨h.symm, rfl⟩

theorem add_err {chk : Bool} {a b : Quantity F} {p : Panic} (h : Quantity.add chk a b = .error p) : p = .dim := by
  simp only [Quantity.add, DUnit.add, DUnit.assertEqAssumeOk] at h
  cases hu : DUnit.eqAssumeTrue chk a.unit b.unit with
  | false => simp [hu] at h; exact h.symm
  | true => simp [hu] at h

theorem sub_err {chk : Bool} {a b : Quantity F} {p : Panic} (h : Quantity.sub chk a b = .error p) : p = .dim := by
  simp only [Quantity.sub, DUnit.sub, DUnit.assertEqAssumeOk] at h
  cases hu : DUnit.eqAssumeTrue chk a.unit b.unit with
  | false => simp [hu] at h; exact h.symm
  | true => simp [hu] at h

theorem tryOf_some {chk : Bool} {q : Quantity F} {n : Int} (h : Time.tryOfQuantity chk q = some n) :
    n = FloatLike.toInt (q.value * c1e9) ∧ DUnit.eqAssumeTrue chk q.unit (SECOND chk) = true := by
  simp only [Time.tryOfQuantity] at h
  cases hu : DUnit.eqAssumeTrue chk q.unit (SECOND chk) with
  | false => simp [hu] at h
  | true =>
    simp only [hu, if_true] at h
    injection h with h
    exact ⟨h.symm, rfl⟩

/-! ### value-level quantities of `MotionProfile::new` -/
/-- `sign`: `-1.0` exactly when the end position is below the start position, else `+1.0` -/
def sgn (s e : State F) : F := if e.position < s.position then cm1 else c1
/-- signed `max_vel` -/
def vMax (s e : State F) (mv : F) : F := FloatLike.absF mv * sgn s e
/-- signed `max_acc` -/
def aMax (s e : State F) (ma : F) : F := FloatLike.absF ma * sgn s e
/-- `t1` in seconds -/
def T1 (s e : State F) (mv ma : F) : F := (vMax s e mv - s.velocity) / aMax s e ma
/-- `d_t3` in seconds -/
def D3 (s e : State F) (mv ma : F) : F := (e.velocity - vMax s e mv) / (- aMax s e ma)
/-- `d_t2` in seconds -/
def D2 (s e : State F) (mv ma : F) : F :=
  ((e.position - s.position) -
    ((s.velocity + vMax s e mv) / c2 * T1 s e mv ma + (vMax s e mv + e.velocity) / c2 * D3 s e mv ma)) / vMax s e mv
def T2 (s e : State F) (mv ma : F) : F := T1 s e mv ma + D2 s e mv ma
def T3 (s e : State F) (mv ma : F) : F := T2 s e mv ma + D3 s e mv ma

/-- what `new` returns when nothing panics, as a function of the checking flag -/
def newResult (chk : Bool) (s e : State F) (mv ma : F) : MotionProfile F :=
  ⟨⟨s.position, MILLIMETER chk⟩, ⟨s.velocity, MILLIMETER_PER_SECOND chk⟩,
    FloatLike.toInt (T1 s e mv ma * c1e9), FloatLike.toInt (T2 s e mv ma * c1e9), FloatLike.toInt (T3 s e mv ma * c1e9),
    ⟨aMax s e ma, MILLIMETER_PER_SECOND_SQUARED chk⟩, Command.ofState e⟩

/-- the value-level outcome of `new`: three asserts in source order, then the result -/
def newSpec (chk : Bool) (s e : State F) (mv ma : F) : Except Panic (MotionProfile F) :=
  if ¬ ((c0 : F) ≤ T1 s e mv ma) then .error .mpT1
  else if ¬ ((c0 : F) ≤ D3 s e mv ma) then .error .mpT3
  else if ¬ ((c0 : F) ≤ D2 s e mv ma) then .error .mpT2
  else .ok (newResult chk s e mv ma)

/-- without dimension checking the constructor is exactly the value-level computation -/
theorem new_false (s e : State F) (mv ma : Quantity F) :
    MotionProfile.new false s e mv ma = newSpec false s e mv.value ma.value := by
  rfl

/-- with dimension checking and correctly dimensioned limits, likewise -/
theorem new_true_good (s e : State F) (mv ma : F) :
    MotionProfile.new true s e ⟨mv, ⟨1, -1⟩⟩ ⟨ma, ⟨1, -2⟩⟩ = newSpec true s e mv ma := by
  rfl

/-- the chain of `match`es of `new`, opened: the facts every successful construction satisfies -/
theorem new_ok_units {chk : Bool} {s e : State F} {mv ma : Quantity F} {mp : MotionProfile F}
    (h : MotionProfile.new chk s e mv ma = .ok mp) :
    DUnit.eqAssumeTrue chk (DUnit.mul chk mv.unit (DIMENSIONLESS chk)) (MILLIMETER_PER_SECOND chk) = true ∧
    DUnit.eqAssumeTrue chk
      (DUnit.div chk (DUnit.mul chk mv.unit (DIMENSIONLESS chk)) (DUnit.mul chk ma.unit (DIMENSIONLESS chk)))
      (SECOND chk) = true := by
  unfold MotionProfile.new at h
  simp only [] at h
  generalize hsg : (if e.position < s.position then cm1 else c1 : F) = sg at h
  split at h
  · cases h
  rename_i dT1Vel h1
  split at h
  · cases h
  split at h
  · cases h
  split at h
  · cases h
  split at h
  · cases h
  split at h
  · cases h
  split at h
  · cases h
  split at h
  · cases h
  split at h
  · cases h
  split at h
  · cases h
  split at h
  · cases h
  split at h
  · cases h
  split at h
  · rename_i a b c ha hb hc
    obtain ⟨rfl, hu1⟩ := sub_ok h1
    obtain ⟨-, hu2⟩ := tryOf_some ha
    exact ⟨hu1, hu2⟩
  · cases h

/-- with checking on, a successful construction had limits in mm/s and mm/s² -/
theorem new_true_units {s e : State F} {mv ma : Quantity F} {mp : MotionProfile F}
    (h : MotionProfile.new true s e mv ma = .ok mp) : mv.unit = ⟨1, -1⟩ ∧ ma.unit = ⟨1, -2⟩ := by
  obtain ⟨h1, h2⟩ := new_ok_units h
  obtain ⟨mvv, ⟨m1, k1⟩⟩ := mv
  obtain ⟨mav, ⟨m2, k2⟩⟩ := ma
  simp only [DUnit.eqAssumeTrue, DUnit.mul, DUnit.div, DIMENSIONLESS, MILLIMETER_PER_SECOND, SECOND, DUnit.new,
    if_true, constEq_iff, DUnit.mk.injEq] at h1 h2
  simp only [DUnit.mk.injEq]
  omega

/-- **inversion of the constructor**: whatever `new` returns is what the value-level computation returns -/
theorem new_ok_spec {chk : Bool} {s e : State F} {mv ma : Quantity F} {mp : MotionProfile F}
    (h : MotionProfile.new chk s e mv ma = .ok mp) : newSpec chk s e mv.value ma.value = .ok mp := by
  cases chk with
  | false => rw [← new_false]; exact h
  | true =>
    obtain ⟨h1, h2⟩ := new_true_units h
    obtain ⟨mvv, mvu⟩ := mv
    obtain ⟨mav, mau⟩ := ma
    simp only at h1 h2
    subst h1 h2
    rw [← new_true_good]; exact h

/-- consequences of `newSpec … = ok` -/
theorem newSpec_ok {chk : Bool} {s e : State F} {mv ma : F} {mp : MotionProfile F}
    (h : newSpec chk s e mv ma = .ok mp) :
    (c0 : F) ≤ T1 s e mv ma ∧ (c0 : F) ≤ D3 s e mv ma ∧ (c0 : F) ≤ D2 s e mv ma ∧ mp = newResult chk s e mv ma := by
  unfold newSpec at h
  by_cases h1 : (c0 : F) ≤ T1 s e mv ma
  · by_cases h3 : (c0 : F) ≤ D3 s e mv ma
    · by_cases h2 : (c0 : F) ≤ D2 s e mv ma
      · simp only [h1, h3, h2, not_true_eq_false, if_false] at h
        injection h with h
        exact ⟨h1, h3, h2, h.symm⟩
      · simp [h1, h3, h2] at h
    · simp [h1, h3] at h
  · simp [h1] at h

/-- the only panics of `new`: the three asserts, a unit mismatch, or a failed `Time::try_from` -/
theorem new_err {chk : Bool} {s e : State F} {mv ma : Quantity F} {p : Panic}
    (h : MotionProfile.new chk s e mv ma = .error p) :
    p = .mpT1 ∨ p = .mpT3 ∨ p = .mpT2 ∨ p = .dim ∨ p = .expect := by
  unfold MotionProfile.new at h
  simp only [] at h
  generalize hsg : (if e.position < s.position then cm1 else c1 : F) = sg at h
  split at h
  · rename_i hq; injection h with h; subst h; simp [sub_err hq]
  split at h
  · injection h with h; simp [← h]
  split at h
  · rename_i hq; injection h with h; subst h; simp [add_err hq]
  split at h
  · rename_i hq; injection h with h; subst h; simp [sub_err hq]
  split at h
  · injection h with h; simp [← h]
  split at h
  · rename_i hq; injection h with h; subst h; simp [add_err hq]
  split at h
  · rename_i hq; injection h with h; subst h; simp [sub_err hq]
  split at h
  · rename_i hq; injection h with h; subst h; simp [add_err hq]
  split at h
  · rename_i hq; injection h with h; subst h; simp [sub_err hq]
  split at h
  · injection h with h; simp [← h]
  split at h
  · rename_i hq; injection h with h; subst h; simp [add_err hq]
  split at h
  · rename_i hq; injection h with h; subst h; simp [add_err hq]
  split at h
  · cases h
  · injection h with h; simp [← h]

/-! ### well-dimensioned profiles and the values the accessors compute -/
/-- the three stored quantities carry the units the accessors expect -/
def WF (chk : Bool) (mp : MotionProfile F) : Prop :=
  mp.startPos.unit = MILLIMETER chk ∧ mp.startVel.unit = MILLIMETER_PER_SECOND chk ∧
  mp.maxAcc.unit = MILLIMETER_PER_SECOND_SQUARED chk

/-- `Quantity::from(Time)` value: `t as f32 / 1e9` -/
def secF (t : Int) : F := (FloatLike.ofInt t : F) / c1e9
/-- `max_acc * τ + start_vel` (operand order of the source) -/
def velF (mp : MotionProfile F) (τ : Int) : F := mp.maxAcc.value * secF τ + mp.startVel.value
/-- `0.5 * max_acc * t * t + start_vel * t + start_pos` -/
def pos1F (mp : MotionProfile F) (t : Int) : F :=
  chalf * mp.maxAcc.value * secF t * secF t + mp.startVel.value * secF t + mp.startPos.value
/-- `max_acc * (t1 * (-t1 / 2 + t)) + start_vel * t + start_pos`, `-t1 / 2` the truncating `i64` division -/
def pos2F (mp : MotionProfile F) (t : Int) : F :=
  mp.maxAcc.value * (secF mp.t1 * secF (Int.tdiv (-mp.t1) 2 + t)) + mp.startVel.value * secF t + mp.startPos.value
/-- `max_acc * (t1 * (-t1 / 2 + t2)) - 0.5 * max_acc * ((t - t2) * (t - 2 * t1 - t2)) + start_vel * t + start_pos` -/
def pos3F (mp : MotionProfile F) (t : Int) : F :=
  mp.maxAcc.value * (secF mp.t1 * secF (Int.tdiv (-mp.t1) 2 + mp.t2))
      - chalf * mp.maxAcc.value * (secF (t - mp.t2) * secF (t - 2 * mp.t1 - mp.t2))
    + mp.startVel.value * secF t + mp.startPos.value

/-- the velocity accessor as a total, panic-free function -/
def velOpt (chk : Bool) (mp : MotionProfile F) (t : Int) : Option (Quantity F) :=
  match mp.getPiece t with
  | .beforeStart => none
  | .initialAcceleration => some ⟨velF mp t, MILLIMETER_PER_SECOND chk⟩
  | .constantVelocity => some ⟨velF mp mp.t1, MILLIMETER_PER_SECOND chk⟩
  | .endAcceleration => some ⟨velF mp (mp.t1 + mp.t2 - t), MILLIMETER_PER_SECOND chk⟩
  | .complete => mp.endCommand.getVelocity chk

/-- the position accessor as a total, panic-free function -/
def posOpt (chk : Bool) (mp : MotionProfile F) (t : Int) : Option (Quantity F) :=
  match mp.getPiece t with
  | .beforeStart => none
  | .initialAcceleration => some ⟨pos1F mp t, MILLIMETER chk⟩
  | .constantVelocity => some ⟨pos2F mp t, MILLIMETER chk⟩
  | .endAcceleration => some ⟨pos3F mp t, MILLIMETER chk⟩
  | .complete => mp.endCommand.getPosition chk

theorem getVelocity_wf {chk : Bool} {mp : MotionProfile F} (hwf : WF chk mp) (t : Int) :
    mp.getVelocity chk t = .ok (velOpt chk mp t) := by
  obtain ⟨⟨p0, u0⟩, ⟨v0, u1⟩, t1, t2, t3, ⟨a, u2⟩, ec⟩ := mp
  obtain ⟨h1, h2, h3⟩ := hwf
  simp only at h1 h2 h3
  subst h1 h2 h3
  simp only [MotionProfile.getVelocity, velOpt, MotionProfile.getPiece]
  by_cases h0 : t < 0
  · simp only [h0, if_true]
  by_cases h1 : t < t1
  · simp only [h0, h1, if_true, if_false]; cases chk <;> rfl
  by_cases h2 : t < t2
  · simp only [h0, h1, h2, if_true, if_false]; cases chk <;> rfl
  by_cases h3 : t < t3
  · simp only [h0, h1, h2, h3, if_true, if_false]; cases chk <;> rfl
  · simp only [h0, h1, h2, h3, if_false]

theorem getPosition_wf {chk : Bool} {mp : MotionProfile F} (hwf : WF chk mp) (t : Int) :
    mp.getPosition chk t = .ok (posOpt chk mp t) := by
  obtain ⟨⟨p0, u0⟩, ⟨v0, u1⟩, t1, t2, t3, ⟨a, u2⟩, ec⟩ := mp
  obtain ⟨h1, h2, h3⟩ := hwf
  simp only at h1 h2 h3
  subst h1 h2 h3
  simp only [MotionProfile.getPosition, posOpt, MotionProfile.getPiece]
  by_cases h0 : t < 0
  · simp only [h0, if_true]
  by_cases h1 : t < t1
  · simp only [h0, h1, if_true, if_false]; cases chk <;> rfl
  by_cases h2 : t < t2
  · simp only [h0, h1, h2, if_true, if_false]; cases chk <;> rfl
  by_cases h3 : t < t3
  · simp only [h0, h1, h2, h3, if_true, if_false]; cases chk <;> rfl
  · simp only [h0, h1, h2, h3, if_false]

theorem newResult_wf (chk : Bool) (s e : State F) (mv ma : F) : WF chk (newResult chk s e mv ma) :=
  ⟨rfl, rfl, rfl⟩

theorem new_wf {chk : Bool} {s e : State F} {mv ma : Quantity F} {mp : MotionProfile F}
    (h : MotionProfile.new chk s e mv ma = .ok mp) : WF chk mp := by
  obtain ⟨-, -, -, rfl⟩ := newSpec_ok (new_ok_spec h)
  exact newResult_wf ..

end S
end Rrtk.Thm.MpL
