/-
C10, to-state converters tied to the SAME trapezoid sums and backward differences as the integral / derivative streams.

`a2s_eq_spec`, `v2s_eq_spec`, `p2s_eq_spec` (Thm/C10.lean) describe what the converters report by `a2sSpec`, `v2sSpec`,
`p2sSpec`, which repeat the converters' own recursions.  Here the reported numbers are related to `trapSpec` (the
specification of `IntegralStream`, `integral_eq_trapsum`) and `backdiffSpec` (the specification of `DerivativeStream`,
`derivative_eq_backdiff`), for the converter functions the driver runs (`A2s/V2s/P2s.step`, `.get` over `runE`):

* tier S (no law on the scalar; the converters' terms are literally those of `backdiffSpec`):
  `v2s_acc_eq_backdiff`, `p2s_eq_backdiff_twice` (velocity = backward difference of the position run, acceleration =
  backward difference of the run of those velocities), and `v2s_vel_newest`, `a2s_acc_newest`, `p2s_pos_newest`;
* tier R (ordered field, `ExactScalar`): `a2s_eq_trapsum_twice` (velocity = trapezoidal sum of the acceleration run,
  position = trapezoidal sum of the run of those velocities — `IsTrapRun`), `v2s_pos_eq_trapsum`; the same against the
  integral stream itself (`a2s_vel_eq_integral_stream`, `v2s_pos_eq_integral_stream`);
* sanity corollaries (tier R): `second_diff_quadratic`, `a2s_const_acc_exact`.

The trapezoid clauses are NOT tier-S statements: the integral stream computes one trapezoid as `dt * (p + o) / 2` and adds it
in front (`addend + sum`), the converters compute `(p + o) / 2 * dt` and add it behind (`sum + addend`); the terms differ
(the last `example` of this file exhibits a scalar without laws on which the numbers differ).  In binary32 both orders round
identically except when `(p + o) / 2` underflows or `dt * (p + o)` overflows.
-/
import Rrtk.Thm.C10
set_option linter.unusedSectionVars false
set_option linter.unusedSimpArgs false
namespace Rrtk.Thm.C10
open Rrtk

/-! ## tier S: the difference clauses, and the plumbing shared with tier R -/
section S
variable {F : Type} [Add F] [Sub F] [Mul F] [Div F] [Neg F] [LT F] [LE F] [BEq F]
  [DecidableLT F] [DecidableLE F] [FloatLike F]

/-- a present converter output is the three numbers of its specification value, stamped with its time -/
theorem stateOut_some (chk : Bool) (r : Option (StateSpec F)) (d : Datum (State F))
    (h : stateOut chk r = .ok (.ok (some d))) :
    ∃ sp, r = some sp ∧ d = ⟨sp.time, ⟨sp.pos.value, sp.vel.value, sp.acc.value⟩⟩ := by
  cases r with
  | none => cases h
  | some sp =>
    have := stateOut_value chk sp _ h
    injection this with this
    injection this with this
    exact ⟨sp, rfl, this⟩

/-! ### VelocityToState: acceleration = `backdiffSpec` of the run (tier S) -/

/-- what `v2sSpec` holds on a run with at least two samples (newest first `o, p, …`) -/
theorem v2sSpecRev_some (chk : Bool) (rr : List (Datum (Quantity F))) (sp : StateSpec F)
    (h : v2sSpecRev chk rr = .ok (some sp)) :
    ∃ o p rest pos dv, rr = o :: p :: rest ∧ trapRunRev chk rr = .ok (some pos) ∧
      Quantity.sub chk o.value p.value = .ok dv ∧
      sp = ⟨o.time, pos, o.value, Quantity.div chk dv (Quantity.ofTime chk (o.time - p.time))⟩ := by
  match rr, h with
  | [], h => cases h
  | [_], h => cases h
  | o :: p :: rest, h =>
    rw [v2sSpecRev] at h
    split at h
    · cases h
    · cases h
    · rename_i pos hpos
      split at h
      · cases h
      · rename_i dv hdv
        cases h
        exact ⟨o, p, rest, pos, dv, rfl, hpos, hdv, rfl⟩

/-- **VelocityToState, acceleration = backward difference (tier S, bit-exact).**  Whenever the converter reports a state,
its acceleration is the value of `backdiffSpec` — the derivative stream's specification — on the run of present samples
since the last error, with the same time; the very same `Quantity` (unit included) is what `State::new` received. -/
theorem v2s_acc_eq_backdiff (chk : Bool) (evs : List (Output (Quantity F))) (s : Option (V2sU0 F))
    (h : runE (V2s.step chk) V2s.init evs = .ok s) (d : Datum (State F))
    (hg : V2s.get chk s = .ok (.ok (some d))) :
    ∃ r, backdiffSpec chk (lastRunIgnoringAbsent evs) = .ok (some r) ∧
      d.value.acceleration = r.value.value ∧ d.time = r.time := by
  obtain ⟨r, hr, hg'⟩ := v2s_eq_spec chk evs s h
  rw [hg] at hg'
  obtain ⟨sp, rfl, rfl⟩ := stateOut_some chk r d hg'.symm
  obtain ⟨o, p, rest, pos, dv, hrr, _, hdv, rfl⟩ := v2sSpecRev_some chk _ sp hr
  refine ⟨⟨o.time, Quantity.div chk dv (Quantity.ofTime chk (o.time - p.time))⟩, ?_, rfl, rfl⟩
  simp only [backdiffSpec, hrr, backdiffRev, hdv]

/-- the reported velocity is the newest sample -/
theorem v2s_vel_newest (chk : Bool) (evs : List (Output (Quantity F))) (s : Option (V2sU0 F))
    (h : runE (V2s.step chk) V2s.init evs = .ok s) (d : Datum (State F))
    (hg : V2s.get chk s = .ok (.ok (some d))) :
    ∃ dn, (lastRunIgnoringAbsent evs).getLast? = some dn ∧ d.value.velocity = dn.value.value ∧ d.time = dn.time := by
  obtain ⟨r, hr, hg'⟩ := v2s_eq_spec chk evs s h
  rw [hg] at hg'
  obtain ⟨sp, rfl, rfl⟩ := stateOut_some chk r d hg'.symm
  obtain ⟨dn, h1, h2, h3⟩ := v2sSpec_time_newest chk _ sp hr
  exact ⟨dn, h1, by rw [← h3], h2⟩

/-! ### PositionToState: velocity and acceleration = `backdiffSpec` applied once and twice (tier S) -/

theorem p2sSpecRev_some (chk : Bool) (rr : List (Datum (Quantity F))) (sp : StateSpec F)
    (h : p2sSpecRev chk rr = .ok (some sp)) :
    ∃ o p q rest v0 v1 dv, rr = o :: p :: q :: rest ∧ backdiffQ chk p q = .ok v0 ∧ backdiffQ chk o p = .ok v1 ∧
      Quantity.sub chk v1 v0 = .ok dv ∧
      sp = ⟨o.time, o.value, v1, Quantity.div chk dv (Quantity.ofTime chk (o.time - p.time))⟩ := by
  match rr, h with
  | [], h => cases h
  | [_], h => cases h
  | [_, _], h => cases h
  | o :: p :: q :: rest, h =>
    rw [p2sSpecRev] at h
    split at h
    · cases h
    · rename_i v0 hv0
      split at h
      · cases h
      · rename_i v1 hv1
        split at h
        · cases h
        · rename_i dv hdv
          cases h
          exact ⟨o, p, q, rest, v0, v1, dv, rfl, hv0, hv1, hdv, rfl⟩

/-- `backdiffQ` is the value of the derivative stream's specification -/
theorem backdiffRev_of_backdiffQ (chk : Bool) (o p : Datum (Quantity F)) (rest : List (Datum (Quantity F)))
    (v : Quantity F) (h : backdiffQ chk o p = .ok v) : backdiffRev chk (o :: p :: rest) = .ok (some ⟨o.time, v⟩) := by
  simp only [backdiffQ] at h
  simp only [backdiffRev]
  split at h
  · cases h
  · rename_i dp hdp
    cases h
    simp only [hdp]

/-- **PositionToState = backward differences applied once and twice (tier S, bit-exact).**  Whenever the converter
reports a state, with `run` the present samples since the last error:
* `v1`, the reported velocity, is `backdiffSpec run` (the derivative stream's specification; time = newest sample's);
* `v0 = backdiffSpec` of the run without its newest sample is the velocity one sample earlier;
* the reported acceleration is `backdiffSpec` of the two-sample velocity run `[v0, v1]` — the same difference quotient
  applied to the velocities, over the same time step;
* the reported position is the newest sample. -/
theorem p2s_eq_backdiff_twice (chk : Bool) (evs : List (Output (Quantity F))) (s : Option (P2sU0 F))
    (h : runE (P2s.step chk) P2s.init evs = .ok s) (d : Datum (State F))
    (hg : P2s.get chk s = .ok (.ok (some d))) :
    ∃ v0 v1 a dn, (lastRunIgnoringAbsent evs).getLast? = some dn ∧
      backdiffSpec chk (lastRunIgnoringAbsent evs).dropLast = .ok (some v0) ∧
      backdiffSpec chk (lastRunIgnoringAbsent evs) = .ok (some v1) ∧
      backdiffSpec chk [v0, v1] = .ok (some a) ∧
      d.value.position = dn.value.value ∧ d.value.velocity = v1.value.value ∧
      d.value.acceleration = a.value.value ∧ d.time = dn.time ∧ v1.time = dn.time ∧ a.time = dn.time := by
  obtain ⟨r, hr, hg'⟩ := p2s_eq_spec chk evs s h
  rw [hg] at hg'
  obtain ⟨sp, rfl, rfl⟩ := stateOut_some chk r d hg'.symm
  obtain ⟨o, p, q, rest, v0, v1, dv, hrr, hv0, hv1, hdv, rfl⟩ := p2sSpecRev_some chk _ sp hr
  have hlast : (lastRunIgnoringAbsent evs).getLast? = some o := by
    rw [← List.head?_reverse, hrr]; rfl
  have hdl : (lastRunIgnoringAbsent evs).dropLast.reverse = p :: q :: rest := by
    rw [← List.tail_reverse, hrr]; rfl
  refine ⟨⟨p.time, v0⟩, ⟨o.time, v1⟩, ⟨o.time, Quantity.div chk dv (Quantity.ofTime chk (o.time - p.time))⟩, o,
    hlast, ?_, ?_, ?_, rfl, rfl, rfl, rfl, rfl, rfl⟩
  · rw [backdiffSpec, hdl]; exact backdiffRev_of_backdiffQ chk p q rest v0 hv0
  · rw [backdiffSpec, hrr]; exact backdiffRev_of_backdiffQ chk o p (q :: rest) v1 hv1
  · simp only [backdiffSpec, List.reverse_cons, List.reverse_nil, List.nil_append, List.cons_append, backdiffRev, hdv]

/-- the reported position is the newest sample -/
theorem p2s_pos_newest (chk : Bool) (evs : List (Output (Quantity F))) (s : Option (P2sU0 F))
    (h : runE (P2s.step chk) P2s.init evs = .ok s) (d : Datum (State F))
    (hg : P2s.get chk s = .ok (.ok (some d))) :
    ∃ dn, (lastRunIgnoringAbsent evs).getLast? = some dn ∧ d.value.position = dn.value.value ∧ d.time = dn.time := by
  obtain ⟨_, _, _, dn, h1, _, _, _, h2, _, _, h3, _, _⟩ := p2s_eq_backdiff_twice chk evs s h d hg
  exact ⟨dn, h1, h2, h3⟩

/-- the reported acceleration of the acceleration converter is the newest sample -/
theorem a2s_acc_newest (chk : Bool) (evs : List (Output (Quantity F))) (s : Option (A2sU0 F))
    (h : runE (A2s.step chk) A2s.init evs = .ok s) (d : Datum (State F))
    (hg : A2s.get chk s = .ok (.ok (some d))) :
    ∃ dn, (lastRunIgnoringAbsent evs).getLast? = some dn ∧ d.value.acceleration = dn.value.value ∧
      d.time = dn.time := by
  obtain ⟨r, hr, hg'⟩ := a2s_eq_spec chk evs s h
  rw [hg] at hg'
  obtain ⟨sp, rfl, rfl⟩ := stateOut_some chk r d hg'.symm
  obtain ⟨dn, h1, h2, h3⟩ := a2sSpec_time_newest chk _ sp hr
  exact ⟨dn, h1, by rw [← h3], h2⟩

/-! ### the run of running trapezoid sums (what the integral stream shows along a run) -/

/-- `vr` is the run of values the integral stream shows along the run `run` (both oldest first): one datum per sample
from the second on, the `i`-th being the trapezoidal sum `trapSpec` of the first `i + 2` samples of `run` -/
def IsTrapRun (chk : Bool) (run vr : List (Datum (Quantity F))) : Prop :=
  vr.length = run.length - 1 ∧
    ∀ (i : Nat) (hi : i < vr.length), trapSpec chk (run.take (i + 2)) = .ok (some vr[i])

/-- proof device: the same run computed newest-first (`trapRev` of every suffix with at least two samples) -/
def trapRunsRev (chk : Bool) : List (Datum (Quantity F)) → Except Panic (List (Datum (Quantity F)))
  | [] => .ok []
  | [_] => .ok []
  | o :: p :: rest =>
    match trapRev chk (o :: p :: rest) with
    | .error e => .error e
    | .ok none => .ok []
    | .ok (some r) =>
      match trapRunsRev chk (p :: rest) with
      | .error e => .error e
      | .ok l => .ok (r :: l)

theorem trapRunsRev_cons (chk : Bool) (o p : Datum (Quantity F)) (rest l : List (Datum (Quantity F)))
    (h : trapRunsRev chk (o :: p :: rest) = .ok l) :
    ∃ r l', trapRev chk (o :: p :: rest) = .ok (some r) ∧ trapRunsRev chk (p :: rest) = .ok l' ∧ l = r :: l' := by
  rw [trapRunsRev] at h
  split at h
  · cases h
  · rename_i hn
    have := (trapRev_none_iff chk (o :: p :: rest)).1 hn
    simp only [List.length_cons] at this; omega
  · rename_i r hr
    split at h
    · cases h
    · rename_i l' hl'
      cases h
      exact ⟨r, l', hr, hl', rfl⟩

theorem trapRunsRev_spec (chk : Bool) : ∀ (rr l : List (Datum (Quantity F))), trapRunsRev chk rr = .ok l →
    l.length = rr.length - 1 ∧ ∀ (i : Nat) (hi : i < l.length), trapRev chk (rr.drop i) = .ok (some l[i])
  | [], l, h => by cases h; exact ⟨rfl, fun i hi => absurd hi (by simp)⟩
  | [_], l, h => by cases h; exact ⟨rfl, fun i hi => absurd hi (by simp)⟩
  | o :: p :: rest, l, h => by
    obtain ⟨r, l', hr, hl', rfl⟩ := trapRunsRev_cons chk o p rest l h
    obtain ⟨ihlen, ih⟩ := trapRunsRev_spec chk (p :: rest) l' hl'
    refine ⟨by simp only [List.length_cons] at ihlen ⊢; omega, ?_⟩
    intro i hi
    cases i with
    | zero => simpa using hr
    | succ j =>
      have hj : j < l'.length := by simpa using hi
      simpa using ih j hj

/-- the proof device yields the run of `IsTrapRun` -/
theorem isTrapRun_of_rev (chk : Bool) (run l : List (Datum (Quantity F)))
    (h : trapRunsRev chk run.reverse = .ok l) : IsTrapRun chk run l.reverse := by
  obtain ⟨hlen, hidx⟩ := trapRunsRev_spec chk _ l h
  rw [List.length_reverse] at hlen
  refine ⟨by rw [List.length_reverse]; exact hlen, ?_⟩
  intro i hi
  have hi' : i < l.length := by simpa using hi
  rw [List.getElem_reverse]
  have hk : l.length - 1 - i < l.length := by omega
  have := hidx (l.length - 1 - i) hk
  rw [trapSpec, List.reverse_take]
  have e : run.length - (i + 2) = l.length - 1 - i := by omega
  rw [e]; exact this

theorem trapRev_time (chk : Bool) (o : Datum (Quantity F)) (rest : List (Datum (Quantity F)))
    (x : Datum (Quantity F)) (h : trapRev chk (o :: rest) = .ok (some x)) : x.time = o.time := by
  cases rest with
  | nil => cases h
  | cons p rest =>
    rw [trapRev] at h
    split at h
    · cases h
    · split at h
      · cases h
      · split at h
        · cases h; rfl
        · split at h
          · cases h
          · cases h; rfl

theorem trapRunRev_none_iff (chk : Bool) (rr : List (Datum (Quantity F))) :
    trapRunRev chk rr = .ok none ↔ rr.length < 2 := by
  match rr with
  | [] => simp [trapRunRev]
  | [_] => simp [trapRunRev]
  | o :: p :: rest =>
    simp only [List.length_cons]
    constructor
    · intro h
      obtain ⟨x, hx⟩ := trapRunRev_some chk o p rest _ h
      cases hx
    · intro h; omega

/-! ### existence: whenever the converters' own sums exist, so do the integral stream's -/

theorem qHalfTimes_true_units (a b dt q : Quantity F) (h : qHalfTimes true a b dt = .ok q) : a.unit = b.unit := by
  simp only [qHalfTimes, qadd_true] at h
  by_cases hu : a.unit = b.unit
  · exact hu
  · simp [hu] at h

theorem trapRunRev_units : ∀ (o : Datum (Quantity F)) (rest : List (Datum (Quantity F))) (v : Option (Quantity F)),
    trapRunRev true (o :: rest) = .ok v → ∀ d ∈ o :: rest, d.value.unit = o.value.unit
  | o, [], v, _ => by intro d hd; simp at hd; rw [hd]
  | o, p :: rest, v, h => by
    rw [trapRunRev] at h
    cases g1 : trapRunRev true (p :: rest) with
    | error e => rw [g1] at h; cases h
    | ok prev =>
      rw [g1] at h; simp only at h
      cases g2 : qHalfTimes true p.value o.value (Quantity.ofTime true (o.time - p.time)) with
      | error e => rw [g2] at h; cases h
      | ok hh =>
        have hpo := qHalfTimes_true_units _ _ _ _ g2
        have ih := trapRunRev_units p rest prev g1
        intro d hd
        rcases List.mem_cons.1 hd with rfl | hd
        · rfl
        · rw [ih d hd, hpo]

theorem trapRunsRev_units (u : DUnit) : ∀ (rr : List (Datum (Quantity F))), (∀ d ∈ rr, d.value.unit = u) →
    ∃ l, trapRunsRev true rr = .ok l ∧ ∀ d ∈ l, d.value.unit = ⟨u.mm, u.s + 1⟩
  | [], _ => ⟨[], rfl, by simp⟩
  | [_], _ => ⟨[], rfl, by simp⟩
  | o :: p :: rest, hall => by
    obtain ⟨r, hr, hru⟩ := trapRev_unit u (o :: p :: rest) hall
    obtain ⟨l', hl', hlu⟩ := trapRunsRev_units u (p :: rest) (fun d hd => hall d (List.mem_cons_of_mem _ hd))
    cases r with
    | none =>
      have := (trapRev_none_iff true (o :: p :: rest)).1 hr
      simp only [List.length_cons] at this; omega
    | some x =>
      refine ⟨x :: l', by rw [trapRunsRev, hr]; simp only [hl'], ?_⟩
      intro d hd
      rcases List.mem_cons.1 hd with rfl | hd
      · exact hru _ rfl
      · exact hlu d hd

theorem trapRunsRev_nochk : ∀ (rr : List (Datum (Quantity F))), ∃ l, trapRunsRev false rr = .ok l
  | [] => ⟨[], rfl⟩
  | [_] => ⟨[], rfl⟩
  | o :: p :: rest => by
    obtain ⟨r, hr⟩ := trapRev_nochk_ok (F := F) (o :: p :: rest)
    obtain ⟨l', hl'⟩ := trapRunsRev_nochk (p :: rest)
    cases r with
    | none =>
      have := (trapRev_none_iff false (o :: p :: rest)).1 hr
      simp only [List.length_cons] at this; omega
    | some x => exact ⟨x :: l', by rw [trapRunsRev, hr]; simp only [hl']⟩

/-- whenever the converter's running sum of a run exists, the integral stream's specification has a value on the run,
on each of its prefixes (`trapRunsRev`), and on the run of those values -/
theorem trap_exists (chk : Bool) (rr : List (Datum (Quantity F))) (v : Quantity F)
    (h : trapRunRev chk rr = .ok (some v)) :
    ∃ x l r, trapRev chk rr = .ok (some x) ∧ trapRunsRev chk rr = .ok l ∧ trapRev chk l = .ok r := by
  have hlen : 2 ≤ rr.length := by
    by_contra hc
    have := (trapRunRev_none_iff chk rr).2 (by omega)
    rw [this] at h; cases h
  cases chk with
  | false =>
    obtain ⟨r0, hr0⟩ := trapRev_nochk_ok (F := F) rr
    obtain ⟨l, hl⟩ := trapRunsRev_nochk (F := F) rr
    obtain ⟨r, hr⟩ := trapRev_nochk_ok (F := F) l
    cases r0 with
    | none => have := (trapRev_none_iff false rr).1 hr0; omega
    | some x => exact ⟨x, l, r, hr0, hl, hr⟩
  | true =>
    match rr, h, hlen with
    | o :: rest, h, hlen =>
      have hall := trapRunRev_units o rest _ h
      obtain ⟨r0, hr0, _⟩ := trapRev_unit o.value.unit (o :: rest) hall
      obtain ⟨l, hl, hlu⟩ := trapRunsRev_units o.value.unit (o :: rest) hall
      obtain ⟨r, hr, _⟩ := trapRev_unit _ l hlu
      cases r0 with
      | none => have := (trapRev_none_iff true (o :: rest)).1 hr0; omega
      | some x => exact ⟨x, l, r, hr0, hl, hr⟩

theorem a2sSpecRev_some (chk : Bool) (rr : List (Datum (Quantity F))) (sp : StateSpec F)
    (h : a2sSpecRev chk rr = .ok (some sp)) :
    ∃ o rest v x, rr = o :: rest ∧ trapRunRev chk rr = .ok (some v) ∧ a2sPosRev chk rr = .ok (some x) ∧
      sp = ⟨o.time, x, v, o.value⟩ := by
  match rr, h with
  | [], h => cases h
  | o :: rest, h =>
    rw [a2sSpecRev] at h
    split at h
    · cases h
    · rename_i vel hvel
      split at h
      · cases h
      · rename_i pos hpos
        split at h
        · rename_i v x
          cases h
          exact ⟨o, rest, v, x, rfl, hvel, hpos, rfl⟩
        · cases h

/-- all the present samples of an all-present history form its last run -/
theorem lastRun_map_present (run : List (Datum (Quantity F))) :
    lastRun (run.map (fun d => (.ok (some d) : Output (Quantity F)))) = run := by
  induction run using snoc_induction with
  | nil => rfl
  | snoc l a ih => rw [List.map_append, List.map_cons, List.map_nil, lastRun_snoc, ih]

end S

/-! ## tier R: the trapezoid clauses -/
section R
variable {F : Type} [Field F] [LinearOrder F] [IsStrictOrderedRing F] [FloatLike F] [ExactScalar F]

/-- one trapezoid: the integral stream's `dt * (p + o) / 2` and the converters' `(p + o) / 2 * dt` are the same number
in a field -/
theorem trapAddend_eq_qHalfTimes (chk : Bool) (p o : Datum (Quantity F)) (a hh : Quantity F)
    (ha : trapAddend chk p o = .ok a)
    (hh' : qHalfTimes chk p.value o.value (Quantity.ofTime chk (o.time - p.time)) = .ok hh) : a.value = hh.value := by
  rw [trapAddend_value chk p o a ha, qHalfTimes_value chk _ _ _ _ hh']
  simp only [Quantity.ofTime]
  ring

/-- **the converters' running sum is the integral stream's trapezoidal sum** (exact arithmetic): on any run (newest
first) where both exist the two values coincide -/
theorem trapRev_eq_trapRunRev (chk : Bool) : ∀ (rr : List (Datum (Quantity F))) (x : Datum (Quantity F))
    (v : Quantity F), trapRev chk rr = .ok (some x) → trapRunRev chk rr = .ok (some v) → x.value.value = v.value
  | [], x, v, hx, _ => by cases hx
  | [_], x, v, hx, _ => by cases hx
  | o :: p :: rest, x, v, hx, hv => by
    rw [trapRev] at hx
    rw [trapRunRev] at hv
    cases h1 : trapRev chk (p :: rest) with
    | error e => rw [h1] at hx; cases hx
    | ok prevSum =>
      rw [h1] at hx; simp only at hx
      cases h2 : trapAddend chk p o with
      | error e => rw [h2] at hx; cases hx
      | ok a =>
        rw [h2] at hx; simp only at hx
        cases g1 : trapRunRev chk (p :: rest) with
        | error e => rw [g1] at hv; cases hv
        | ok prev =>
          rw [g1] at hv; simp only at hv
          cases g2 : qHalfTimes chk p.value o.value (Quantity.ofTime chk (o.time - p.time)) with
          | error e => rw [g2] at hv; cases hv
          | ok hh =>
            rw [g2] at hv; simp only at hv
            have key := trapAddend_eq_qHalfTimes chk p o a hh h2 g2
            cases prevSum with
            | none =>
              have hlen := (trapRev_none_iff chk (p :: rest)).1 h1
              have hprev : prev = none := by
                cases prev with
                | none => rfl
                | some v' =>
                  have := (trapRunRev_none_iff chk (p :: rest)).2 hlen
                  rw [this] at g1; cases g1
              subst hprev
              cases hx; cases hv
              exact key
            | some x' =>
              simp only at hx
              cases h3 : Quantity.add chk a x'.value with
              | error e => rw [h3] at hx; cases hx
              | ok w =>
                rw [h3] at hx; cases hx
                have hw := qadd_value chk _ _ _ h3
                cases prev with
                | none =>
                  have hlen := (trapRunRev_none_iff chk (p :: rest)).1 g1
                  have := (trapRev_none_iff chk (p :: rest)).2 hlen
                  rw [this] at h1; cases h1
                | some v' =>
                  simp only at hv
                  cases g3 : Quantity.add chk v' hh with
                  | error e => rw [g3] at hv; cases hv
                  | ok nv =>
                    rw [g3] at hv; cases hv
                    have hnv := qadd_value chk _ _ _ g3
                    have ih := trapRev_eq_trapRunRev chk (p :: rest) x' v' h1 g1
                    show w.value = v.value
                    rw [hw, hnv, ih, key]
                    ring

/-- **the acceleration converter's position is the trapezoidal sum of the run of its velocities**: with `l` the run of
the integral stream's values along the run (newest first), `trapRev l` and the converter's own `a2sPosRev` coincide -/
theorem trapRev_runs_eq_a2sPosRev (chk : Bool) : ∀ (rr l : List (Datum (Quantity F))) (z : Datum (Quantity F))
    (y : Quantity F), trapRunsRev chk rr = .ok l → trapRev chk l = .ok (some z) → a2sPosRev chk rr = .ok (some y) →
      z.value.value = y.value
  | [], l, z, y, _, _, hy => by cases hy
  | [_], l, z, y, _, _, hy => by cases hy
  | [o, p], l, z, y, _, _, hy => by simp [a2sPosRev, trapRunRev] at hy
  | o :: p :: q :: rest, l, z, y, hl, hz, hy => by
    obtain ⟨r1, l', hr1, hl', rfl⟩ := trapRunsRev_cons chk o p (q :: rest) l hl
    obtain ⟨r0, l'', hr0, hl'', rfl⟩ := trapRunsRev_cons chk p q rest l' hl'
    have ht1 := trapRev_time chk o _ r1 hr1
    have ht0 := trapRev_time chk p _ r0 hr0
    rw [a2sPosRev] at hy
    cases k0 : a2sPosRev chk (p :: q :: rest) with
    | error e => rw [k0] at hy; cases hy
    | ok prevPos =>
      rw [k0] at hy; simp only at hy
      cases k1 : trapRunRev chk (p :: q :: rest) with
      | error e => rw [k1] at hy; cases hy
      | ok ov0 =>
        rw [k1] at hy
        cases ov0 with
        | none => cases hy
        | some v0 =>
          simp only at hy
          cases k2 : trapRunRev chk (o :: p :: q :: rest) with
          | error e => rw [k2] at hy; cases hy
          | ok ov1 =>
            rw [k2] at hy
            cases ov1 with
            | none => cases hy
            | some v1 =>
              simp only at hy
              cases k3 : qHalfTimes chk v0 v1 (Quantity.ofTime chk (o.time - p.time)) with
              | error e => rw [k3] at hy; cases hy
              | ok hh =>
                rw [k3] at hy; simp only at hy
                have e0 := trapRev_eq_trapRunRev chk _ r0 v0 hr0 k1
                have e1 := trapRev_eq_trapRunRev chk _ r1 v1 hr1 k2
                rw [trapRev] at hz
                cases m0 : trapRev chk (r0 :: l'') with
                | error e => rw [m0] at hz; cases hz
                | ok prevSum =>
                  rw [m0] at hz; simp only at hz
                  cases m1 : trapAddend chk r0 r1 with
                  | error e => rw [m1] at hz; cases hz
                  | ok a =>
                    rw [m1] at hz; simp only at hz
                    have key : a.value = hh.value := by
                      rw [trapAddend_value chk r0 r1 a m1, qHalfTimes_value chk _ _ _ _ k3, ht1, ht0, e0, e1]
                      simp only [Quantity.ofTime]
                      ring
                    obtain ⟨hlen'', _⟩ := trapRunsRev_spec chk (q :: rest) l'' hl''
                    cases rest with
                    | nil =>
                      have hl0 : l'' = [] := by
                        cases l'' with
                        | nil => rfl
                        | cons _ _ => simp at hlen''
                      subst hl0
                      simp only [trapRev] at m0
                      cases m0
                      simp only [a2sPosRev, trapRunRev] at k0
                      cases k0
                      cases hz; cases hy
                      exact key
                    | cons q' rest' =>
                      obtain ⟨y', rfl⟩ := a2sPosRev_some chk p q q' rest' _ k0
                      cases prevSum with
                      | none =>
                        have := (trapRev_none_iff chk (r0 :: l'')).1 m0
                        simp only [List.length_cons] at this hlen''
                        omega
                      | some z' =>
                        simp only at hz hy
                        cases m2 : Quantity.add chk a z'.value with
                        | error e => rw [m2] at hz; cases hz
                        | ok w =>
                          rw [m2] at hz; cases hz
                          cases k4 : Quantity.add chk y' hh with
                          | error e => rw [k4] at hy; cases hy
                          | ok ny =>
                            rw [k4] at hy; cases hy
                            have ih := trapRev_runs_eq_a2sPosRev chk (p :: q :: q' :: rest') (r0 :: l'') z' y' hl' m0 k0
                            show w.value = y.value
                            rw [qadd_value chk _ _ _ m2, qadd_value chk _ _ _ k4, ih, key]
                            ring

/-- **AccelerationToState = the trapezoidal sum applied twice (exact arithmetic).**  Whenever the converter reports a
state, with `run` the present samples since the last error (absent events ignored):
* its velocity is the value of `trapSpec run` — the integral stream's specification (`integral_eq_trapsum`);
* `vr` is the run of those velocities along the run (`IsTrapRun`: `vr[i] = trapSpec` of the first `i + 2` samples, each
  stamped with its sample's time), and its position is the value of `trapSpec vr`: the same sum applied to the velocities;
* its acceleration is the newest sample; all three carry the newest sample's time.
All the specification values exist (no hypothesis about them is needed). -/
theorem a2s_eq_trapsum_twice (chk : Bool) (evs : List (Output (Quantity F))) (s : Option (A2sU0 F))
    (h : runE (A2s.step chk) A2s.init evs = .ok s) (d : Datum (State F))
    (hg : A2s.get chk s = .ok (.ok (some d))) :
    ∃ v x vr dn, (lastRunIgnoringAbsent evs).getLast? = some dn ∧
      trapSpec chk (lastRunIgnoringAbsent evs) = .ok (some v) ∧
      IsTrapRun chk (lastRunIgnoringAbsent evs) vr ∧
      trapSpec chk vr = .ok (some x) ∧
      d.value.velocity = v.value.value ∧ d.value.position = x.value.value ∧
      d.value.acceleration = dn.value.value ∧ d.time = dn.time ∧ v.time = dn.time ∧ x.time = dn.time := by
  obtain ⟨r, hr, hg'⟩ := a2s_eq_spec chk evs s h
  rw [hg] at hg'
  obtain ⟨sp, rfl, rfl⟩ := stateOut_some chk r d hg'.symm
  obtain ⟨o, rest, v, x, hrr, hv, hx, rfl⟩ := a2sSpecRev_some chk _ sp hr
  obtain ⟨xv, l, rz, hxv, hl, hrz⟩ := trap_exists chk _ v hv
  have hlast : (lastRunIgnoringAbsent evs).getLast? = some o := by
    rw [← List.head?_reverse, hrr]; rfl
  have hrun := isTrapRun_of_rev chk (lastRunIgnoringAbsent evs) l hl
  -- the run has at least three samples, hence `l` at least two, hence `trapRev l` has a value
  have hlen3 : 3 ≤ (lastRunIgnoringAbsent evs).reverse.length := by
    rw [List.length_reverse]
    by_contra hc
    have := a2sSpec_short chk _ _ (by omega) hr
    cases this
  obtain ⟨hll, _⟩ := trapRunsRev_spec chk _ l hl
  cases rz with
  | none =>
    have := (trapRev_none_iff chk l).1 hrz
    omega
  | some z =>
    have hzt : z.time = o.time := by
      match l, hl, hrz, hll with
      | r1 :: l', hl, hrz, _ =>
        rw [hrr] at hl
        match rest, hl with
        | p :: rest', hl =>
          obtain ⟨r1', _, hr1, _, hcons⟩ := trapRunsRev_cons chk o p rest' _ hl
          cases hcons
          rw [trapRev_time chk r1 l' z hrz, trapRev_time chk o _ r1 hr1]
    refine ⟨xv, z, l.reverse, o, hlast, hxv, hrun, ?_, ?_, ?_, rfl, rfl, ?_, hzt⟩
    · rw [trapSpec, List.reverse_reverse]; exact hrz
    · exact (trapRev_eq_trapRunRev chk _ xv v hxv hv).symm
    · exact (trapRev_runs_eq_a2sPosRev chk _ l z x hl hrz hx).symm
    · rw [hrr] at hxv; exact trapRev_time chk o rest xv hxv

/-- **VelocityToState, position = trapezoidal sum (exact arithmetic).**  Whenever the converter reports a state, its
position is the value of `trapSpec` — the integral stream's specification — on the run of present samples since the last
error, with the same time (and the value exists). -/
theorem v2s_pos_eq_trapsum (chk : Bool) (evs : List (Output (Quantity F))) (s : Option (V2sU0 F))
    (h : runE (V2s.step chk) V2s.init evs = .ok s) (d : Datum (State F))
    (hg : V2s.get chk s = .ok (.ok (some d))) :
    ∃ x, trapSpec chk (lastRunIgnoringAbsent evs) = .ok (some x) ∧
      d.value.position = x.value.value ∧ d.time = x.time := by
  obtain ⟨r, hr, hg'⟩ := v2s_eq_spec chk evs s h
  rw [hg] at hg'
  obtain ⟨sp, rfl, rfl⟩ := stateOut_some chk r d hg'.symm
  obtain ⟨o, p, rest, pos, dv, hrr, hpos, _, rfl⟩ := v2sSpecRev_some chk _ sp hr
  obtain ⟨x, _, _, hx, _, _⟩ := trap_exists chk _ pos hpos
  refine ⟨x, hx, (trapRev_eq_trapRunRev chk _ x pos hx hpos).symm, ?_⟩
  rw [hrr] at hx
  exact (trapRev_time chk o _ x hx).symm
/-! ### the same, against the integral stream itself -/

/-- feeding the run of an all-present history to the integral stream shows the run's `trapSpec` -/
theorem integral_get_on_run (chk : Bool) (run : List (Datum (Quantity F))) (dn : Datum (Quantity F))
    (hn : run.getLast? = some dn) (si : DiS F)
    (hi : runE (Integral.step chk) Integral.init (run.map (fun d => (.ok (some d) : Output (Quantity F)))) = .ok si) :
    ∃ r, trapSpec chk run = .ok r ∧ Integral.get si = .ok r := by
  obtain ⟨r, hr, hget⟩ := integral_eq_trapsum chk _ si hi
  rw [lastRun_map_present] at hr
  refine ⟨r, hr, ?_⟩
  rw [hget]
  simp only [expectedGet, List.getLast?_map, hn, Option.map]

/-- **AccelerationToState velocity = what `IntegralStream` shows on the same samples** (exact arithmetic): run the
integral stream of the driver over the present samples since the last error; if it does not panic, it shows the velocity
the converter reports, at the same time. -/
theorem a2s_vel_eq_integral_stream (chk : Bool) (evs : List (Output (Quantity F))) (s : Option (A2sU0 F))
    (h : runE (A2s.step chk) A2s.init evs = .ok s) (d : Datum (State F))
    (hg : A2s.get chk s = .ok (.ok (some d))) (si : DiS F)
    (hi : runE (Integral.step chk) Integral.init
      ((lastRunIgnoringAbsent evs).map (fun d => (.ok (some d) : Output (Quantity F)))) = .ok si) :
    ∃ r, Integral.get si = .ok (some r) ∧ d.value.velocity = r.value.value ∧ d.time = r.time := by
  obtain ⟨v, x, vr, dn, hn, hv, _, _, e1, _, _, e2, e3, _⟩ := a2s_eq_trapsum_twice chk evs s h d hg
  obtain ⟨r, hr, hget⟩ := integral_get_on_run chk _ dn hn si hi
  rw [hv] at hr; cases hr
  exact ⟨v, hget, e1, by rw [e2, e3]⟩

/-- **VelocityToState position = what `IntegralStream` shows on the same samples** (exact arithmetic) -/
theorem v2s_pos_eq_integral_stream (chk : Bool) (evs : List (Output (Quantity F))) (s : Option (V2sU0 F))
    (h : runE (V2s.step chk) V2s.init evs = .ok s) (d : Datum (State F))
    (hg : V2s.get chk s = .ok (.ok (some d))) (si : DiS F)
    (hi : runE (Integral.step chk) Integral.init
      ((lastRunIgnoringAbsent evs).map (fun d => (.ok (some d) : Output (Quantity F)))) = .ok si) :
    ∃ r, Integral.get si = .ok (some r) ∧ d.value.position = r.value.value ∧ d.time = r.time := by
  obtain ⟨x, hx, e1, e2⟩ := v2s_pos_eq_trapsum chk evs s h d hg
  obtain ⟨dn, hn, _, _⟩ := v2s_vel_newest chk evs s h d hg
  obtain ⟨r, hr, hget⟩ := integral_get_on_run chk _ dn hn si hi
  rw [hx] at hr; cases hr
  exact ⟨x, hget, e1, e2⟩

/-! ### sanity corollaries -/

/-- the number computed by `backdiffQ` (any checking mode) -/
theorem backdiffQ_value (chk : Bool) (o p : Datum (Quantity F)) (v : Quantity F) (h : backdiffQ chk o p = .ok v) :
    v.value = (o.value.value - p.value.value) / (((o.time - p.time : Int) : F) / 1000000000) := by
  simp only [backdiffQ] at h
  cases hs : Quantity.sub chk o.value p.value with
  | error e => rw [hs] at h; cases h
  | ok dp =>
    rw [hs] at h; cases h
    simp only [Quantity.div, Quantity.ofTime, qsub_value chk _ _ _ hs, ExactScalar.ofInt_eq, Int.cast_ofNat]

/-- **Second difference of a quadratic is its second derivative.**  If the last three present samples (since the last
error) are equally spaced in time and lie on `x(t) = a·t²/2 + v·t + x₀` (`t` in seconds = ns/10⁹), `PositionToState`
reports acceleration exactly `a` (and velocity `x'` at the midpoint of the last step, position the newest sample) —
whatever came before.  A first-difference-of-first-differences with unequal bookkeeping of the two steps, or a division
by the wrong step, would not. -/
theorem second_diff_quadratic (chk : Bool) (a v x0 : F) (evs : List (Output (Quantity F))) (s : Option (P2sU0 F))
    (h : runE (P2s.step chk) P2s.init evs = .ok s) (d : Datum (State F))
    (hg : P2s.get chk s = .ok (.ok (some d)))
    (pre : List (Datum (Quantity F))) (q p o : Datum (Quantity F))
    (hrun : lastRunIgnoringAbsent evs = pre ++ [q, p, o])
    (hstep : p.time - q.time = o.time - p.time) (hne : o.time ≠ p.time)
    (hq : q.value.value = a * ((q.time : F) / 1000000000) ^ 2 / 2 + v * ((q.time : F) / 1000000000) + x0)
    (hp : p.value.value = a * ((p.time : F) / 1000000000) ^ 2 / 2 + v * ((p.time : F) / 1000000000) + x0)
    (ho : o.value.value = a * ((o.time : F) / 1000000000) ^ 2 / 2 + v * ((o.time : F) / 1000000000) + x0) :
    d.value.acceleration = a ∧
    d.value.velocity = a * ((((p.time : F) / 1000000000) + ((o.time : F) / 1000000000)) / 2) + v ∧
    d.value.position = o.value.value ∧ d.time = o.time := by
  obtain ⟨r, hr, hg'⟩ := p2s_eq_spec chk evs s h
  rw [hg] at hg'
  obtain ⟨sp, rfl, rfl⟩ := stateOut_some chk r d hg'.symm
  obtain ⟨o', p', q', rest, w0, w1, dv, hrr, hw0, hw1, hdv, rfl⟩ := p2sSpecRev_some chk _ sp hr
  rw [hrun] at hrr
  simp only [List.reverse_append, List.reverse_cons, List.reverse_nil, List.nil_append, List.cons_append,
    List.cons.injEq] at hrr
  obtain ⟨rfl, rfl, rfl, _⟩ := hrr
  have e0 := backdiffQ_value chk p q w0 hw0
  have e1 := backdiffQ_value chk o p w1 hw1
  have edv := qsub_value chk _ _ _ hdv
  rw [hstep] at e0
  have hD : ((o.time - p.time : Int) : F) ≠ 0 := by
    intro h0
    have : o.time - p.time = 0 := by exact_mod_cast h0
    omega
  have hqt : (q.time : F) = 2 * (p.time : F) - (o.time : F) := by
    have : ((p.time - q.time : Int) : F) = ((o.time - p.time : Int) : F) := by rw [hstep]
    push_cast at this
    linarith
  push_cast at hD e0 e1
  have hD' : (o.time : F) - (p.time : F) ≠ 0 := hD
  refine ⟨?_, ?_, rfl, rfl⟩
  · show (Quantity.div chk dv (Quantity.ofTime chk (o.time - p.time))).value = a
    simp only [Quantity.div, Quantity.ofTime, edv, e0, e1, ho, hp, hq, hqt, ExactScalar.ofInt_eq, Int.cast_ofNat]
    push_cast
    field_simp
    ring
  · show w1.value = _
    rw [e1, ho, hp]
    field_simp
    ring

/-- the trapezoidal sum of a constant signal: `a · (tₙ − t₀)` at the newest sample's time -/
theorem trapsum_const (chk : Bool) (a : F) (run : List (Datum (Quantity F)))
    (hconst : ∀ e ∈ run, e.value.value = a) (d0 r : Datum (Quantity F)) (h0 : run.head? = some d0)
    (h : trapSpec chk run = .ok (some r)) :
    r.value.value = a * (((r.time - d0.time : Int) : F) / 1000000000) := by
  obtain ⟨dn, hn, ht⟩ := trapSpec_time chk run r h
  obtain ⟨e1, _⟩ := trapsum_linear_exact chk 0 a run (fun e he => by rw [hconst e he]; ring) d0 dn r h0 hn h
  have hd0 : d0 ∈ run := by
    cases run with
    | nil => cases h0
    | cons x xs => simp only [List.head?_cons, Option.some.injEq] at h0; subst h0; simp
  rw [e1, hconst d0 hd0, hconst dn (List.mem_of_getLast? hn), ht]
  ring

/-- **Constant acceleration: exact velocity and position.**  If every present sample since the last error carries the
same acceleration `a` (at arbitrary times `t₀, t₁, …, tₙ`, `T = t/10⁹` seconds), `AccelerationToState` reports
acceleration `a`, velocity `a·(Tₙ − T₀)` and position `a/2·((Tₙ − T₀)² − (T₁ − T₀)²)` — the exact integrals of the
motion that starts from rest at `t₀`, the position being counted from the second sample `t₁` (the first moment a
velocity exists). -/
theorem a2s_const_acc_exact (chk : Bool) (a : F) (evs : List (Output (Quantity F))) (s : Option (A2sU0 F))
    (h : runE (A2s.step chk) A2s.init evs = .ok s) (d : Datum (State F))
    (hg : A2s.get chk s = .ok (.ok (some d)))
    (hconst : ∀ e ∈ lastRunIgnoringAbsent evs, e.value.value = a)
    (d0 d1 dn : Datum (Quantity F)) (rest : List (Datum (Quantity F)))
    (hrun : lastRunIgnoringAbsent evs = d0 :: d1 :: rest) (hn : (lastRunIgnoringAbsent evs).getLast? = some dn) :
    d.value.acceleration = a ∧
    d.value.velocity = a * (((dn.time - d0.time : Int) : F) / 1000000000) ∧
    d.value.position = a / 2 * ((((dn.time - d0.time : Int) : F) / 1000000000) ^ 2 -
      (((d1.time - d0.time : Int) : F) / 1000000000) ^ 2) ∧
    d.time = dn.time := by
  obtain ⟨v, x, vr, dn', hn', hv, ⟨hvlen, hvidx⟩, hx, e1, e2, e3, e4, e5, e6⟩ :=
    a2s_eq_trapsum_twice chk evs s h d hg
  rw [hn] at hn'; cases hn'
  have hhead : (lastRunIgnoringAbsent evs).head? = some d0 := by rw [hrun]; rfl
  have hvval := trapsum_const chk a _ hconst d0 v hhead hv
  rw [e5] at hvval
  -- every velocity of the run is `a·(T − T₀)` at its own time
  have hvr : ∀ e ∈ vr, e.value.value = a * ((e.time : F) / 1000000000) + (-(a * ((d0.time : F) / 1000000000))) := by
    intro e he
    obtain ⟨i, hi, rfl⟩ := List.getElem_of_mem he
    have hspec := hvidx i hi
    have := trapsum_const chk a ((lastRunIgnoringAbsent evs).take (i + 2))
      (fun e he => hconst e (List.mem_of_mem_take he)) d0 vr[i]
      (by rw [List.head?_take, hhead]; simp) hspec
    rw [this]; push_cast; ring
  -- `vr` has at least two entries; its first is the sum over `[d0, d1]`, its last is `v`
  have hlen2 : 2 ≤ vr.length := by
    by_contra hc
    have := (trapSpec_none_iff chk vr).2 (by omega)
    rw [this] at hx; cases hx
  have hfirst : vr.head? = some vr[0] := by rw [List.head?_eq_getElem?]; exact List.getElem?_eq_getElem _
  have hlast : vr.getLast? = some vr[vr.length - 1] := by
    rw [List.getLast?_eq_getElem?]; exact List.getElem?_eq_getElem _
  have h0spec := hvidx 0 (by omega)
  have hvr0t : (vr[0]).time = d1.time := by
    obtain ⟨dl, hdl, ht⟩ := trapSpec_time chk _ _ h0spec
    rw [hrun] at hdl
    simp only [Nat.zero_add, List.take_succ_cons, List.take_zero, List.getLast?_cons_cons, List.getLast?_singleton,
      Option.some.injEq] at hdl
    rw [ht, ← hdl]
  have hlspec := hvidx (vr.length - 1) (by omega)
  have htake : (lastRunIgnoringAbsent evs).take (vr.length - 1 + 2) = lastRunIgnoringAbsent evs := by
    apply List.take_of_length_le; omega
  rw [htake, hv] at hlspec
  have hvlast : vr[vr.length - 1] = v := by injection hlspec with h1; injection h1 with h1; exact h1.symm
  obtain ⟨ex, _⟩ := trapsum_linear_exact chk a (-(a * ((d0.time : F) / 1000000000))) vr hvr vr[0] vr[vr.length - 1] x
    hfirst hlast hx
  refine ⟨?_, ?_, ?_, e4⟩
  · rw [e3]; exact hconst dn (List.mem_of_getLast? hn)
  · rw [e1, hvval]
  · rw [e2, ex, hvr vr[0] (List.getElem_mem _), hvlast, hvval, hvr0t, e5]
    push_cast
    ring

end R

/-! ## non-vacuity (`ℚ` payloads), and the tier-S counterexample for the trapezoid clauses -/
section Examples
private def MMq : DUnit := ⟨1, 0⟩
private def MMSq : DUnit := ⟨1, -1⟩
private def MMS2q : DUnit := ⟨1, -2⟩

/-- constant acceleration 2 mm/s² at 1, 2, 4, 5 s after an error event (an absent event in between is ignored) -/
private def histAq : List (Output (Quantity ℚ)) :=
  [.ok (some ⟨0, ⟨7, MMS2q⟩⟩), .error (.other 1), .ok (some ⟨1000000000, ⟨2, MMS2q⟩⟩), .ok none,
   .ok (some ⟨2000000000, ⟨2, MMS2q⟩⟩), .ok (some ⟨4000000000, ⟨2, MMS2q⟩⟩), .ok (some ⟨5000000000, ⟨2, MMS2q⟩⟩)]
private theorem histAq_run : lastRunIgnoringAbsent histAq =
    [⟨1000000000, ⟨2, MMS2q⟩⟩, ⟨2000000000, ⟨2, MMS2q⟩⟩, ⟨4000000000, ⟨2, MMS2q⟩⟩, ⟨5000000000, ⟨2, MMS2q⟩⟩] := rfl

/-- the hypotheses of `a2s_eq_trapsum_twice`, `a2s_acc_newest`, `a2s_const_acc_exact` hold for it (dimension checking
on), the integral stream runs on the same samples (`a2s_vel_eq_integral_stream`), and the theorem gives
velocity 2·(5 − 1) = 8 mm/s, position 2/2·(4² − 1²) = 15 mm -/
example : ∃ s d, runE (A2s.step true) A2s.init histAq = .ok s ∧ A2s.get true s = .ok (.ok (some d)) ∧
    (∃ si, runE (Integral.step true) Integral.init
      ((lastRunIgnoringAbsent histAq).map (fun d => (.ok (some d) : Output (Quantity ℚ)))) = .ok si) ∧
    d.value.acceleration = 2 ∧ d.value.velocity = 8 ∧ d.value.position = 15 := by
  refine ⟨_, _, rfl, rfl, ⟨_, rfl⟩, ?_⟩
  have hconst : ∀ e ∈ lastRunIgnoringAbsent histAq, e.value.value = 2 := by
    intro e he
    rw [histAq_run] at he
    simp only [List.mem_cons, List.not_mem_nil, or_false] at he
    rcases he with rfl | rfl | rfl | rfl <;> rfl
  obtain ⟨h1, h2, h3, _⟩ := a2s_const_acc_exact true (2 : ℚ) histAq _ rfl _ rfl hconst _ _
    ⟨5000000000, ⟨2, MMS2q⟩⟩ _ histAq_run rfl
  refine ⟨h1, ?_, ?_⟩
  · rw [h2]; norm_num
  · rw [h3]; norm_num

/-- velocity converter: v = 0, 2, 6 mm/s at 0, 1, 3 s: hypotheses of `v2s_acc_eq_backdiff`, `v2s_vel_newest`,
`v2s_pos_eq_trapsum`, `v2s_pos_eq_integral_stream` -/
private def histVq : List (Output (Quantity ℚ)) :=
  [.ok (some ⟨0, ⟨0, MMSq⟩⟩), .ok (some ⟨1000000000, ⟨2, MMSq⟩⟩), .ok none, .ok (some ⟨3000000000, ⟨6, MMSq⟩⟩)]
example : ∃ s d, runE (V2s.step true) V2s.init histVq = .ok s ∧ V2s.get true s = .ok (.ok (some d)) ∧
    ∃ si, runE (Integral.step true) Integral.init
      ((lastRunIgnoringAbsent histVq).map (fun d => (.ok (some d) : Output (Quantity ℚ)))) = .ok si :=
  ⟨_, _, rfl, rfl, _, rfl⟩

/-- position converter on `x(t) = 3t²/2 + 2t + 1` at 1, 2, 3 s (after an error event; an absent event in between):
hypotheses of `p2s_eq_backdiff_twice`, `p2s_pos_newest`, `second_diff_quadratic`; the theorem gives acceleration 3 and
velocity 3·(2 + 3)/2 + 2 = 19/2 -/
private def histPq : List (Output (Quantity ℚ)) :=
  [.ok (some ⟨0, ⟨7, MMq⟩⟩), .error (.other 2), .ok (some ⟨1000000000, ⟨9 / 2, MMq⟩⟩),
   .ok (some ⟨2000000000, ⟨11, MMq⟩⟩), .ok none, .ok (some ⟨3000000000, ⟨41 / 2, MMq⟩⟩)]
example : ∃ s d, runE (P2s.step true) P2s.init histPq = .ok s ∧ P2s.get true s = .ok (.ok (some d)) ∧
    d.value.acceleration = 3 ∧ d.value.velocity = 19 / 2 := by
  refine ⟨_, _, rfl, rfl, ?_⟩
  obtain ⟨h1, h2, _, _⟩ := second_diff_quadratic true (3 : ℚ) 2 1 histPq _ rfl _ rfl []
    ⟨1000000000, ⟨9 / 2, MMq⟩⟩ ⟨2000000000, ⟨11, MMq⟩⟩ ⟨3000000000, ⟨41 / 2, MMq⟩⟩ rfl (by decide) (by decide)
    (by norm_num) (by norm_num) (by norm_num)
  refine ⟨h1, ?_⟩
  rw [h2]; norm_num
end Examples

section TierS
/-- an integer "scalar" (truncating division; no field laws), only to evaluate the examples below -/
local instance : FloatLike Int := ⟨id, id, fun _ _ => 1, fun x => (x.natAbs : Int)⟩

/-- `IsTrapRun` on a concrete run: accelerations 2, 2, 4 mm/s² at 0, 1, 3 s; the integral stream shows 2 mm/s at 1 s
and 2 + 6 = 8 mm/s at 3 s -/
example : IsTrapRun true
    [(⟨0, ⟨2, ⟨1, -2⟩⟩⟩ : Datum (Quantity Int)), ⟨1000000000, ⟨2, ⟨1, -2⟩⟩⟩, ⟨3000000000, ⟨4, ⟨1, -2⟩⟩⟩]
    [⟨1000000000, ⟨2, ⟨1, -1⟩⟩⟩, ⟨3000000000, ⟨8, ⟨1, -1⟩⟩⟩] := by
  refine ⟨rfl, ?_⟩
  intro i hi
  match i, hi with
  | 0, _ => rfl
  | 1, _ => rfl

/-- **The trapezoid clauses are false at tier S** (a scalar without laws): the integral stream computes a trapezoid as
`dt * (p + o) / 2`, the converters as `(p + o) / 2 * dt`.  With truncating integer division and accelerations 0, 1, 1 at
0, 2, 4 s the converter reports velocity `(0+1)/2*2 + (1+1)/2*2 = 0 + 2 = 2` while the integral stream's specification
gives `2*(1+1)/2 + 2*(0+1)/2 = 2 + 1 = 3`.  (In binary32 the two orders differ only when `(p + o) / 2` underflows or
`dt * (p + o)` overflows.)  The difference clauses, in contrast, hold at tier S (`v2s_acc_eq_backdiff`,
`p2s_eq_backdiff_twice`). -/
example : ∃ s d x, runE (A2s.step false) A2s.init
      [(.ok (some ⟨0, ⟨0, ⟨0, 0⟩⟩⟩) : Output (Quantity Int)), .ok (some ⟨2000000000, ⟨1, ⟨0, 0⟩⟩⟩),
        .ok (some ⟨4000000000, ⟨1, ⟨0, 0⟩⟩⟩)] = .ok s ∧
    A2s.get false s = .ok (.ok (some d)) ∧
    trapSpec false [(⟨0, ⟨0, ⟨0, 0⟩⟩⟩ : Datum (Quantity Int)), ⟨2000000000, ⟨1, ⟨0, 0⟩⟩⟩, ⟨4000000000, ⟨1, ⟨0, 0⟩⟩⟩]
      = .ok (some x) ∧
    d.value.velocity = 2 ∧ x.value.value = 3 := ⟨_, _, _, rfl, rfl, rfl, rfl, rfl⟩
end TierS

end Rrtk.Thm.C10
