/-
C10 "up to rounding": a forward error bound for the accumulation of the integral stream (trapezoidal sum) when every
`+` is rounded to binary32 (`SF`, `Rrtk/Thm/Lemmas/SoftScalar.lean`; `u = 2^-24` from `Rrtk/Thm/Lemmas/RoundingBounds.lean`).

* tier S (any scalar): the VALUE of the trapezoidal sum `trapSpec` of a run is `a_m + (a_{m-1} + (… + a_1))` with
  `a_i = fl(fl(fl(Δt_i as f32 / 1e9) · fl(v_{i-1} + v_i)) / 2.0)` (`trapVals`, `sumR`, `trapRev_value`) — independent of the
  checking mode;
* binary32: the accumulated number differs from the exact sum `Σ a_i` of the (already rounded) addends by at most
  `((1+u)^(m-1) − 1)·Σ|a_i|` (`sumR_err`, `trapsum_err_binary32`, every history: `integral_err_binary32`); no underflow term,
  because binary32 additions have none (`add_err`);
* the same for the plain left fold `acc := acc + term_i` from `0.0` (`integral_accumulation_err_binary32`).

* each addend against the exact trapezoid area `Δt_i·(v_{i-1}+v_i)/2`: five roundings, relative `(1+u)^5 − 1` plus `2η`
  (`trapVal_err`); together: the integral stream's number against the EXACT trapezoidal sum of the binary32 samples,
  `((1+u)^(m+4) − 1)·Σ|area_i| + 2m(1+u)^(m−1)·η` (`trapsum_forward_err_binary32`, every history:
  `integral_forward_err_binary32`).
-/
import Rrtk.Thm.C10
import Rrtk.Thm.Lemmas.SoftScalar
import Rrtk.Thm.Lemmas.RoundingBounds
set_option linter.unusedSectionVars false
set_option linter.unusedSimpArgs false
namespace Rrtk.Thm.C10
open Rrtk Rrtk.Soft Rrtk.Thm.SoftFloat Rrtk.Thm.SoftScalar Rrtk.Thm.RoundingBounds

section S
variable {F : Type} [Add F] [Sub F] [Mul F] [Div F] [Neg F] [LT F] [LE F] [BEq F]
  [DecidableLT F] [DecidableLE F] [FloatLike F]

/-- the number of one trapezoid between the samples `p` (older) and `o`, as the code computes it -/
def trapVal (p o : Datum (Quantity F)) : F :=
  (FloatLike.ofInt (o.time - p.time) : F) / c1e9 * (p.value.value + o.value.value) / c2

/-- the addends of a run given newest-first, newest addend first -/
def trapVals : List (Datum (Quantity F)) → List F
  | o :: p :: rest => trapVal p o :: trapVals (p :: rest)
  | [_] => []
  | [] => []

/-- `a₁ + (a₂ + (… + a_m))`: the new addend is the LEFT operand of every addition, as in the code -/
def sumR : List F → F
  | [] => c0
  | [a] => a
  | a :: b :: rest => a + sumR (b :: rest)

theorem trapVals_length (rr : List (Datum (Quantity F))) : (trapVals rr).length = rr.length - 1 := by
  match rr with
  | [] => rfl
  | [_] => rfl
  | o :: p :: rest =>
    have ih := trapVals_length (p :: rest)
    simp only [trapVals, List.length_cons] at ih ⊢
    omega

/-- **which number the integral holds** (any scalar, any checking mode): the value of the trapezoidal sum of a run is the
right-nested sum of the addends `trapVals` -/
theorem trapRev_value (chk : Bool) : ∀ (rr : List (Datum (Quantity F))) (r : Datum (Quantity F)),
    trapRev chk rr = .ok (some r) → r.value.value = sumR (trapVals rr)
  | [], r, h => by simp [trapRev] at h
  | [_], r, h => by simp [trapRev] at h
  | o :: p :: rest, r, h => by
    rw [trapRev] at h
    cases h1 : trapRev chk (p :: rest) with
    | error e => rw [h1] at h; cases h
    | ok prevSum =>
      rw [h1] at h
      cases h2 : trapAddend chk p o with
      | error e => rw [h2] at h; cases h
      | ok a =>
        rw [h2] at h
        have ha := trapAddend_value chk p o a h2
        cases prevSum with
        | none =>
          simp only at h
          injection h with h; injection h with h
          have hlen := (trapRev_none_iff chk (p :: rest)).1 h1
          have hrest : rest = [] := by
            cases rest with
            | nil => rfl
            | cons q qs => simp only [List.length_cons] at hlen; omega
          subst hrest
          rw [← h]
          simp only [trapVals, sumR]
          exact ha
        | some r' =>
          simp only at h
          cases h3 : Quantity.add chk a r'.value with
          | error e => rw [h3] at h; cases h
          | ok v =>
            rw [h3] at h
            injection h with h; injection h with h
            have hv := qadd_value chk _ _ v h3
            have ih := trapRev_value chk (p :: rest) r' h1
            cases rest with
            | nil => simp [trapRev] at h1
            | cons q qs =>
              rw [← h]
              simp only [trapVals, sumR] at ih ⊢
              rw [hv, ha, ih]
              rfl
end S

/-! ### binary32 -/

/-- **forward error of the right-nested sum** at binary32: `m` addends, `m − 1` rounded additions:
`|fl(a₁ + (a₂ + (… + a_m))) − Σ aᵢ| ≤ ((1+u)^(m−1) − 1)·Σ|aᵢ|` -/
theorem sumR_err : ∀ l : List SF, |(sumR l).val - sumVal l| ≤ ((1 + u) ^ (l.length - 1) - 1) * sumAbs l
  | [] => by simp [sumR]
  | [a] => by simp [sumR]
  | a :: b :: rest => by
    have ih := sumR_err (b :: rest)
    have hS := sumAbs_nonneg (b :: rest)
    have hs2 := abs_sumVal_le (b :: rest)
    set l' := b :: rest with hl'
    have hlen : (a :: l').length - 1 = (l'.length - 1) + 1 := by simp [hl']
    rw [hlen]
    have e : sumR (a :: l') = a + sumR l' := by rw [hl']; rfl
    rw [e, sumVal_cons, sumAbs_cons]
    set P := (1 + u) ^ (l'.length - 1) with hP
    have hP1 : 1 ≤ P := one_le_pow _
    have hu := u_nonneg
    have h1 := add_err a (sumR l')
    set S' := (sumR l').val with hS'
    -- |S'| ≤ P · Σ|·|
    have hSabs : |S'| ≤ P * sumAbs l' := by
      have := abs_add_le (S' - sumVal l') (sumVal l')
      rw [sub_add_cancel] at this
      linarith
    have h2 : |a.val + S'| ≤ |a.val| + P * sumAbs l' := le_trans (abs_add_le _ _) (by linarith)
    have tri : |(a + sumR l').val - (a.val + sumVal l')| ≤
        |(a + sumR l').val - (a.val + S')| + |S' - sumVal l'| := by
      have := abs_add_le ((a + sumR l').val - (a.val + S')) (S' - sumVal l')
      have e2 : (a + sumR l').val - (a.val + S') + (S' - sumVal l') = (a + sumR l').val - (a.val + sumVal l') := by
        ring
      rwa [e2] at this
    have h3 := mul_le_mul_of_nonneg_left h2 hu
    have ePow : (1 + u) ^ (l'.length - 1 + 1) = P * (1 + u) := by rw [pow_succ]
    rw [ePow]
    have ha0 := abs_nonneg a.val
    have fin : u * (|a.val| + P * sumAbs l') + (P - 1) * sumAbs l' ≤ (P * (1 + u) - 1) * (|a.val| + sumAbs l') := by
      have : u * |a.val| ≤ (P * (1 + u) - 1) * |a.val| := by
        apply mul_le_mul_of_nonneg_right _ ha0
        nlinarith
      nlinarith
    linarith

/-- **the accumulation the brief asks for**, plain left fold from `0.0`: if `acc₀ = 0.0`, `acc_{i+1} = acc_i + term_i` in
binary32 (each `term_i` already a binary32 number) then `|acc_n − Σ term_i| ≤ ((1+u)^n − 1)·Σ|term_i|` -/
theorem integral_accumulation_err_binary32 (ts : List SF) :
    |(ts.foldl (fun acc t => acc + t) (c0 : SF)).val - sumVal ts| ≤ ((1 + u) ^ ts.length - 1) * sumAbs ts := by
  have h := foldl_add_err ts c0
  rwa [c0_val, zero_add, abs_zero, zero_add] at h

/-- the same from an arbitrary starting value and with the code's operand order `acc := term + acc` -/
theorem integral_accumulation_err_binary32' (ts : List SF) (a : SF) :
    |(ts.foldl (fun acc t => t + acc) a).val - (a.val + sumVal ts)|
      ≤ ((1 + u) ^ ts.length - 1) * (|a.val| + sumAbs ts) := foldl_add_err' ts a

/-- **trapezoidal sum, binary32**: the value of `trapSpec` on a run of `m + 1` samples differs from the exact sum of its `m`
(rounded) addends by at most `((1+u)^(m−1) − 1)·Σ|addend|` -/
theorem trapsum_err_binary32 (chk : Bool) (run : List (Datum (Quantity SF))) (r : Datum (Quantity SF))
    (h : trapSpec chk run = .ok (some r)) :
    |r.value.value.val - sumVal (trapVals run.reverse)|
      ≤ ((1 + u) ^ (run.length - 2) - 1) * sumAbs (trapVals run.reverse) := by
  have hv := trapRev_value chk run.reverse r h
  have he := sumR_err (trapVals run.reverse)
  rw [trapVals_length, List.length_reverse] at he
  rw [hv]
  have : run.length - 1 - 1 = run.length - 2 := by omega
  rwa [this] at he

/-- **integral stream, every history, binary32**: after any history that did not panic and ends with a present sample, the
number `get` returns (if any) is the trapezoidal sum of the last run, whose accumulated rounding error against the exact sum of
the addends is at most `((1+u)^(m−1) − 1)·Σ|addend|`, `m + 1` = number of samples in the last run. -/
theorem integral_err_binary32 (chk : Bool) (evs : List (Output (Quantity SF))) (s : DiS SF)
    (h : runE (Integral.step chk) Integral.init evs = .ok s) (o d : Datum (Quantity SF))
    (hlast : evs.getLast? = some (.ok (some o))) (hget : Integral.get s = .ok (some d)) :
    d.value.value = sumR (trapVals (lastRun evs).reverse) ∧
    |d.value.value.val - sumVal (trapVals (lastRun evs).reverse)|
      ≤ ((1 + u) ^ ((lastRun evs).length - 2) - 1) * sumAbs (trapVals (lastRun evs).reverse) := by
  obtain ⟨r, hr, hg⟩ := integral_eq_trapsum chk evs s h
  simp only [expectedGet, hlast] at hg
  rw [hg] at hget
  injection hget with hget
  subst hget
  exact ⟨trapRev_value chk _ d hr, trapsum_err_binary32 chk _ d hr⟩

/-! ### the addends themselves: five roundings each -/

/-- the exact area of one trapezoid between two binary32 samples: `Δt[s] · (v_p + v_o) / 2` -/
def trapExact (p o : Datum (Quantity SF)) : ℚ :=
  ((o.time - p.time : Int) : ℚ) / 1000000000 * (p.value.value.val + o.value.value.val) / 2

/-- exact areas of a run given newest-first (parallel to `trapVals`) -/
def trapExacts : List (Datum (Quantity SF)) → List ℚ
  | o :: p :: rest => trapExact p o :: trapExacts (p :: rest)
  | [_] => []
  | [] => []

theorem trapVal_val (p o : Datum (Quantity SF)) :
    (trapVal p o).val = rne32 (rne32 (rne32 (rne32 ((o.time - p.time : Int) : ℚ) / 1000000000)
      * rne32 (p.value.value.val + o.value.value.val)) / 2) := by
  simp only [trapVal, div_val, mul_val, add_val]
  rw [c1e9_val, c2_val, ofInt_val]

/-- **one addend, binary32**: `fl(fl(fl(fl(Δt)/1e9) · fl(v_p + v_o)) / 2)` is within relative `(1+u)^5 − 1` plus `2η` of the
exact trapezoid area (the conversion of `Δt` costs two roundings, the sum one, the product one, the halving one) -/
theorem trapVal_err (p o : Datum (Quantity SF)) :
    |(trapVal p o).val - trapExact p o| ≤ ((1 + u) ^ 5 - 1) * |trapExact p o| + 2 * η := by
  rw [trapVal_val]
  unfold trapExact
  set n : Int := o.time - p.time with hn
  set τ := (n : ℚ) / 1000000000 with hτ
  set w := p.value.value.val + o.value.value.val with hw
  have hu := u_nonneg
  have hη := η_nonneg
  have h1 := ofInt_div_e9_err n
  rw [← hτ] at h1
  set T := rne32 (rne32 (n : ℚ) / 1000000000) with hT
  have h2 : |rne32 w - w| ≤ ((1 + u) - 1) * |w| := by
    have := add_err p.value.value o.value.value
    rw [add_val] at this
    simpa using this
  have h3 := relerr_mul ((1 + u) ^ 2) (1 + u) T τ (rne32 w) w (one_le_pow 2) h1 h2
  have h4 := relerr_round ((1 + u) ^ 2 * (1 + u)) 0 (τ * w) (T * rne32 w) (by linarith)
  set π := rne32 (T * rne32 w) with hπ
  have h5 : |π / 2 - τ * w / 2| ≤ ((1 + u) ^ 2 * (1 + u) * (1 + u) - 1) * |τ * w / 2| + η / 2 := by
    have e : π / 2 - τ * w / 2 = (π - τ * w) / 2 := by ring
    have e2 : |τ * w / 2| = |τ * w| / 2 := by rw [abs_div]; norm_num
    rw [e, abs_div, e2]
    have : |(2:ℚ)| = 2 := by norm_num
    rw [this]
    have := div_le_div_of_nonneg_right h4 (by norm_num : (0:ℚ) ≤ 2)
    have e3 : (((1 + u) ^ 2 * (1 + u) * (1 + u) - 1) * |τ * w| + ((1 + u) * 0 + η)) / 2
        = ((1 + u) ^ 2 * (1 + u) * (1 + u) - 1) * (|τ * w| / 2) + η / 2 := by ring
    linarith
  have h6 := relerr_round ((1 + u) ^ 2 * (1 + u) * (1 + u)) (η / 2) (τ * w / 2) (π / 2) h5
  have e5 : (1 + u) ^ 2 * (1 + u) * (1 + u) * (1 + u) = (1 + u) ^ 5 := by ring
  rw [e5] at h6
  have hs := u_le_one
  have : (1 + u) * (η / 2) + η ≤ 2 * η := by nlinarith
  linarith

theorem trapExacts_length (rr : List (Datum (Quantity SF))) : (trapExacts rr).length = rr.length - 1 := by
  match rr with
  | [] => rfl
  | [_] => rfl
  | o :: p :: rest =>
    have ih := trapExacts_length (p :: rest)
    simp only [trapExacts, List.length_cons] at ih ⊢
    omega

/-- the rounded addends against the exact areas, summed -/
theorem trapVals_err : ∀ rr : List (Datum (Quantity SF)),
    |sumVal (trapVals rr) - (trapExacts rr).sum|
      ≤ ((1 + u) ^ 5 - 1) * ((trapExacts rr).map (fun x => |x|)).sum + 2 * (rr.length - 1 : ℕ) * η ∧
    sumAbs (trapVals rr) ≤ (1 + u) ^ 5 * ((trapExacts rr).map (fun x => |x|)).sum + 2 * (rr.length - 1 : ℕ) * η
  | [] => by simp [trapVals, trapExacts]
  | [_] => by simp [trapVals, trapExacts]
  | o :: p :: rest => by
    obtain ⟨h1, h2⟩ := trapVals_err (p :: rest)
    have e := trapVal_err p o
    have ea : |(trapVal p o).val| ≤ (1 + u) ^ 5 * |trapExact p o| + 2 * η := by
      have := abs_add_le ((trapVal p o).val - trapExact p o) (trapExact p o)
      rw [sub_add_cancel] at this
      linarith
    have hlen : ((o :: p :: rest).length - 1 : ℕ) = ((p :: rest).length - 1 : ℕ) + 1 := by simp
    rw [hlen]
    simp only [trapVals, trapExacts, sumVal_cons, sumAbs_cons, List.sum_cons, List.map_cons]
    push_cast
    constructor
    · have e2 : (trapVal p o).val + sumVal (trapVals (p :: rest)) - (trapExact p o + (trapExacts (p :: rest)).sum)
          = ((trapVal p o).val - trapExact p o) + (sumVal (trapVals (p :: rest)) - (trapExacts (p :: rest)).sum) := by
        ring
      rw [e2]
      refine le_trans (abs_add_le _ _) ?_
      linarith
    · linarith

/-- **trapezoidal sum, binary32, full forward error**: the number the integral stream holds for a run of `k` samples
(`m = k − 1` trapezoids) differs from the EXACT trapezoidal sum `Σ Δtᵢ·(vᵢ₋₁ + vᵢ)/2` of the binary32 samples by at most
`((1+u)^(m+4) − 1)·Σ|areaᵢ| + 2m·(1+u)^(m−1)·η`   (`(k − 2) + 5 = m + 4` roundings on the longest path). -/
theorem trapsum_forward_err_binary32 (chk : Bool) (run : List (Datum (Quantity SF))) (r : Datum (Quantity SF))
    (h : trapSpec chk run = .ok (some r)) :
    |r.value.value.val - (trapExacts run.reverse).sum|
      ≤ ((1 + u) ^ (run.length - 2 + 5) - 1) * ((trapExacts run.reverse).map (fun x => |x|)).sum
        + 2 * (run.length - 1 : ℕ) * (1 + u) ^ (run.length - 2) * η := by
  have ha := trapsum_err_binary32 chk run r h
  obtain ⟨h1, h2⟩ := trapVals_err run.reverse
  rw [List.length_reverse] at h1 h2
  set X := ((trapExacts run.reverse).map (fun x => |x|)).sum with hX
  set P := (1 + u) ^ (run.length - 2) with hP
  have hP1 : 1 ≤ P := one_le_pow _
  have hη := η_nonneg
  have tri : |r.value.value.val - (trapExacts run.reverse).sum|
      ≤ |r.value.value.val - sumVal (trapVals run.reverse)| + |sumVal (trapVals run.reverse) - (trapExacts run.reverse).sum| := by
    have := abs_add_le (r.value.value.val - sumVal (trapVals run.reverse))
      (sumVal (trapVals run.reverse) - (trapExacts run.reverse).sum)
    rwa [sub_add_sub_cancel] at this
  have b := mul_le_mul_of_nonneg_left h2 (by linarith : 0 ≤ P - 1)
  have e : (1 + u) ^ (run.length - 2 + 5) = P * (1 + u) ^ 5 := by rw [pow_add]
  rw [e]
  have fin : (P - 1) * ((1 + u) ^ 5 * X + 2 * ((run.length - 1 : ℕ) : ℚ) * η)
      + (((1 + u) ^ 5 - 1) * X + 2 * ((run.length - 1 : ℕ) : ℚ) * η)
      = (P * (1 + u) ^ 5 - 1) * X + 2 * ((run.length - 1 : ℕ) : ℚ) * P * η := by ring
  linarith

/-- every history: the integral stream's output against the exact trapezoidal sum of the last run -/
theorem integral_forward_err_binary32 (chk : Bool) (evs : List (Output (Quantity SF))) (s : DiS SF)
    (h : runE (Integral.step chk) Integral.init evs = .ok s) (o d : Datum (Quantity SF))
    (hlast : evs.getLast? = some (.ok (some o))) (hget : Integral.get s = .ok (some d)) :
    |d.value.value.val - (trapExacts (lastRun evs).reverse).sum|
      ≤ ((1 + u) ^ ((lastRun evs).length - 2 + 5) - 1) * ((trapExacts (lastRun evs).reverse).map (fun x => |x|)).sum
        + 2 * ((lastRun evs).length - 1 : ℕ) * (1 + u) ^ ((lastRun evs).length - 2) * η := by
  obtain ⟨r, hr, hg⟩ := integral_eq_trapsum chk evs s h
  simp only [expectedGet, hlast] at hg
  rw [hg] at hget
  injection hget with hget
  subst hget
  exact trapsum_forward_err_binary32 chk _ d hr

/-! ### non-vacuity and an instance where the accumulation really rounds -/
namespace RoundingExamples
/-- a run in millimetres: `2^25` at 0 s, `2^25` at 1 s, `2` at 2 s, `0` at 3 s (times in ns) — trapezoids `2^25`, `2^24 + 1 → 2^24`
(the addend itself rounds) and `1` -/
def x2p25 : SF := SF.mk' 8388608 2 (by norm_num) (by norm_num)
def run : List (Datum (Quantity SF)) :=
  [⟨0, ⟨x2p25, ⟨1, 0⟩⟩⟩, ⟨1000000000, ⟨x2p25, ⟨1, 0⟩⟩⟩, ⟨2000000000, ⟨c2, ⟨1, 0⟩⟩⟩, ⟨3000000000, ⟨c0, ⟨1, 0⟩⟩⟩]
/-- the hypothesis of `trapsum_err_binary32` holds for it (checking on: all units agree) -/
theorem run_ok : ∃ r, trapSpec true run = .ok (some r) := by
  have h : ∃ r, trapRev true run.reverse = .ok r :=
    trapRev_unit ⟨1, 0⟩ run.reverse (by
      intro d hd
      simp [run] at hd
      rcases hd with rfl | rfl | rfl | rfl <;> rfl) |>.imp (fun r hr => hr.1)
  obtain ⟨r, hr⟩ := h
  cases r with
  | some r => exact ⟨r, hr⟩
  | none =>
    have := (trapRev_none_iff true run.reverse).1 hr
    simp [run] at this
/-- the addends (newest first) and the accumulated value, computed with binary32 rounding -/
theorem run_vals : (trapVals run.reverse).map (fun t => t.val) = [1, 16777216, 33554432] ∧
    (sumR (trapVals run.reverse)).val = 50331648 := by decide +kernel
/-- the accumulation really rounds: exact sum of the addends `50331649`, accumulated `50331648`; the bound of
`sumR_err`, `((1+u)^2 − 1)·50331649 ≈ 6.0000002`, holds -/
example : sumVal (trapVals run.reverse) = 50331649 := by
  have h := run_vals.1
  unfold sumVal; rw [h]; norm_num
/-- so the integral stream's number for this run is `50331648` while the exact sum of its three addends is `50331649` -/
example : ∃ r, trapSpec true run = .ok (some r) ∧ r.value.value.val = 50331648 := by
  obtain ⟨r, hr⟩ := run_ok
  exact ⟨r, hr, by rw [trapRev_value true _ r hr]; exact run_vals.2⟩
/-- non-vacuity of `integral_accumulation_err_binary32`: `(0.0 + 2^24) + 1.0 + 1.0` is `2^24`, exact sum `2^24 + 2` -/
example : ([x2p24, c1, c1].foldl (fun acc t => acc + t) (c0 : SF)).val = 16777216 ∧
    sumVal [x2p24, c1, c1] = 16777218 := by
  constructor
  · simp only [List.foldl_cons, List.foldl_nil, zero_add', add_rounds, x2p24_val]
  · simp only [sumVal_cons, sumVal_nil, c1_val, x2p24_val]; norm_num
/-- the EXACT trapezoidal sum of the same run is `50331650` (areas `1`, `2^24 + 1`, `2^25`): total error `2`, inside the
budget `((1+u)^6 − 1)·50331650 + … ≈ 18` of `trapsum_forward_err_binary32` -/
example : trapExacts run.reverse = [1, 16777217, 33554432] ∧ (trapExacts run.reverse).sum = 50331650 := by
  decide +kernel
end RoundingExamples

end Rrtk.Thm.C10
