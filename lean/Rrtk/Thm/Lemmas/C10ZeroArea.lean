/-
C10, the bookkeeping of an integral step does not depend on the VALUE of the trapezoid (seeded defect `C10_r10m1`: an early return on
a zero-area trapezoid skipped the restamp and kept the older sample).  Tier S: no law on the scalar, so "whatever the addend is — zero,
negative zero, NaN — a successful step on a present sample with a stored predecessor restamps the output with the new sample's time,
makes it present, and stores the new sample as the predecessor of the next trapezoid".
-/
import Rrtk.Thm.C10
set_option linter.unusedSectionVars false
set_option linter.unusedSimpArgs false
namespace Rrtk.Thm.C10
open Rrtk
variable {F : Type} [Add F] [Sub F] [Mul F] [Div F] [Neg F] [LT F] [LE F] [BEq F]
  [DecidableLT F] [DecidableLE F] [FloatLike F]

/-- every successful integral step on a present sample stores THAT sample as the next trapezoid's left edge -/
theorem integral_step_stores_sample (chk : Bool) (s s' : DiS F) (o : Datum (Quantity F)) (r : UpdRet)
    (h : Integral.step chk s (.ok (some o)) = .ok (s', r)) : s'.prev = some o ∧ r = .ok () := by
  unfold Integral.step at h
  split at h <;> simp_all
  all_goals (repeat' split at h) <;> simp_all <;> (try (obtain ⟨rfl, rfl⟩ := h; simp))

/-- … and, when a predecessor was stored, the output is present and carries the NEW sample's time, whatever the trapezoid's area -/
theorem integral_step_restamps (chk : Bool) (s s' : DiS F) (p o : Datum (Quantity F)) (r : UpdRet) (hp : s.prev = some p)
    (h : Integral.step chk s (.ok (some o)) = .ok (s', r)) : ∃ v, s'.value = .ok (some ⟨o.time, v⟩) := by
  unfold Integral.step at h
  simp only [hp] at h
  repeat' split at h
  all_goals simp_all
  all_goals (obtain ⟨rfl, _⟩ := h; exact ⟨_, rfl⟩)

/-- the derivative stream likewise: a zero difference (a signal at rest) is a sample like any other -/
theorem derivative_step_stores_sample (chk : Bool) (s s' : DiS F) (o : Datum (Quantity F)) (r : UpdRet)
    (h : Derivative.step chk s (.ok (some o)) = .ok (s', r)) : s'.prev = some o ∧ r = .ok () := by
  unfold Derivative.step at h
  split at h <;> simp_all
  all_goals (repeat' split at h) <;> simp_all <;> (try (obtain ⟨rfl, rfl⟩ := h; simp))

theorem derivative_step_restamps (chk : Bool) (s s' : DiS F) (p o : Datum (Quantity F)) (r : UpdRet) (hp : s.prev = some p)
    (h : Derivative.step chk s (.ok (some o)) = .ok (s', r)) : ∃ v, s'.value = .ok (some ⟨o.time, v⟩) := by
  unfold Derivative.step at h
  simp only [hp] at h
  repeat' split at h
  all_goals simp_all
  all_goals (obtain ⟨rfl, _⟩ := h; exact ⟨_, rfl⟩)

end Rrtk.Thm.C10
