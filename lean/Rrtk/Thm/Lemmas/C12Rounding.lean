/-
C12 "up to rounding", made quantitative for real binary32 rounding (`SF`, `Rrtk/Thm/Lemmas/SoftScalar.lean`).

The tier-R theorems of `Thm/C12.lean` (`ewma_convex`, `ma_convex`, `ewma_constant`, …) are about EXACT arithmetic.  Here the
same quantities are bounded when every `+ − * /` is rounded to binary32 (`u = 2^-24`, `η = 2^-150`, from
`Rrtk/Thm/Lemmas/RoundingBounds.lean`):

* EWMA: the value the update computes, `prev * (1.0 − L) + new * L` (`ewmaVal`; `ewmaNext_value` ties it to the model's
  `ewmaNext`, generic scalar), stays within `δ = ((1+u)^3 − 1)·max(|lo|,|hi|) + 2(1+u)·η ≤ 4·u·max(|lo|,|hi|) + 3·η` of the
  interval `[lo, hi]` that contains `prev` and `new`, for ANY binary32 `L ∈ [0,1]` (whatever `powf` returned)
  (`ewma_value_bounds_binary32`, `…_sharp`, `…_rat`, `ewmaNext_bounds_binary32`); after `k` updates the drift is at most
  `((1+u)^(3k) − 1)·max(|lo|,|hi|) + 2k(1+u)^(3k)·η` (`ewma_fold_bounds_binary32`);
  exact (no `δ`) for `L = 0` and `L = 1` (`ewma_lambda_zero_binary32`, `ewma_lambda_one_binary32`);
  constant input `c`, any `L`: `c` or one of its two binary32 neighbours when `|c| ≥ 2^-126`, so `|result − c| ≤ 2·u·|c|`
  (`ewma_constant_two_u_binary32`), in general `≤ 4·u·|c| + 3·η` (`ewma_constant_any_lambda_binary32`); kernel-checked:
  a constant input is NOT reproduced exactly for some `L` (`ewma_constant_not_exact`), and `2·u·|c|` fails for a subnormal
  `c` (`ewma_constant_two_u_fails_subnormal`).
* moving average: forward error of the accumulation loop (`ma_accumulate_err`), bounds of the accumulated sum
  (`ma_accumulate_bounds`) and of the final quotient for abstract weights (`ma_value_bounds_binary32`, and `…_gen` when the
  weights sum to the divisor only up to a relative `ε`); for the MODEL's weights `fl(fl(n)/1e9)` the mismatch is proved to be
  at most `maEps = 4u/(1−u)^2` (`weights_sum_close`), which gives the rounded counterparts of `ma_convex` and
  `ma_convex_history` with no hypothesis about weights left: `ma_convex_binary32`, `ma_convex_history_binary32`, budget
  `maDelta n A W ≤ (2n+14)·u·A + (2n/W + 1)·η` (`maDelta_le`); kernel-checked: the constant `1.0` comes out of the moving
  average as `1 − 2^-24` (`ma_constant_not_exact`).
-/
import Rrtk.Thm.C12
import Rrtk.Thm.Lemmas.SoftScalar
import Rrtk.Thm.Lemmas.RoundingBounds
set_option linter.unusedSectionVars false
set_option linter.unusedSimpArgs false
namespace Rrtk.Thm.C12
open Rrtk Rrtk.Soft Rrtk.Thm.SoftFloat Rrtk.Thm.SoftScalar Rrtk.Thm.RoundingBounds

/-! ## EWMA -/

section S
variable {F : Type} [Add F] [Sub F] [Mul F] [Div F] [Neg F] [LT F] [LE F] [BEq F]
  [DecidableLT F] [DecidableLE F] [FloatLike F]

/-- the number one EWMA update computes from the previous value `p`, the new sample `n` and the weight `L`, with the
operand order of the code: `prev * (1.0 − L) + new * L` -/
def ewmaVal (p n L : F) : F := p * (c1 - L) + n * L

/-- tie to the model (any scalar type): the `f32` EWMA update stores exactly `ewmaVal prev new L`,
`L = ewmaLambda smoothing Δt = 1.0 − powf (1.0 − smoothing) Δt` -/
theorem ewmaNext_value (smoothing pv : F) (dt : Int) (o : Datum F) :
    ewmaNext scaleF addF smoothing pv dt o =
      .ok (⟨.ok (some ⟨o.time, ewmaVal pv o.value (ewmaLambda smoothing dt)⟩), some o.time⟩, .ok ()) := rfl
end S

theorem ewmaVal_val (p n L : SF) :
    (ewmaVal p n L).val = rne32 (rne32 (p.val * rne32 (1 - L.val)) + rne32 (n.val * L.val)) := by
  simp only [ewmaVal, add_val, mul_val, sub_val, c1_val]

/-- the rounding-error budget of one EWMA update around an interval whose end points have magnitude at most `A` -/
def ewmaDelta (A : ℚ) : ℚ := ((1 + u) ^ 3 - 1) * A + 2 * (1 + u) * η

theorem ewmaDelta_nonneg {A : ℚ} (hA : 0 ≤ A) : 0 ≤ ewmaDelta A := by
  unfold ewmaDelta
  have := pow_sub_one_nonneg 3
  have := η_nonneg
  have := u_nonneg
  positivity

/-- `ewmaDelta A ≤ 4·u·A + 3·η` -/
theorem ewmaDelta_le {A : ℚ} (hA : 0 ≤ A) : ewmaDelta A ≤ 4 * u * A + 3 * η := by
  unfold ewmaDelta
  have hu := u_nonneg
  have hs := u_small
  have hη := η_nonneg
  have h1 : (1 + u) ^ 3 - 1 ≤ 4 * u := by
    have a2 : u * u ≤ u * (1 / 16777216) := mul_le_mul_of_nonneg_left hs hu
    have a3 : u * u * u ≤ u * u * (1 / 16777216) := mul_le_mul_of_nonneg_left hs (mul_nonneg hu hu)
    have e : (1 + u) ^ 3 - 1 = 3 * u + 3 * (u * u) + u * u * u := by ring
    rw [e]; linarith
  have h2 : 2 * (1 + u) ≤ 3 := by linarith
  have := mul_le_mul_of_nonneg_right h1 hA
  have := mul_le_mul_of_nonneg_right h2 hη
  linarith

/-- the arithmetic core, over `ℚ`: three roundings (two products with error `u·|x| + η`, one sum with error `u·|x|`) of a
convex combination whose weights `M`, `L` add up to `1` only up to `u` -/
theorem ewma_arith (A lo hi p n M L t1 t2 r : ℚ)
    (hlo : |lo| ≤ A) (hhi : |hi| ≤ A) (hp1 : lo ≤ p) (hp2 : p ≤ hi) (hn1 : lo ≤ n) (hn2 : n ≤ hi)
    (hM0 : 0 ≤ M) (hL0 : 0 ≤ L) (hML : |M + L - 1| ≤ u)
    (h1 : |t1 - p * M| ≤ u * |p * M| + η) (h2 : |t2 - n * L| ≤ u * |n * L| + η)
    (h3 : |r - (t1 + t2)| ≤ u * |t1 + t2|) :
    lo - ewmaDelta A ≤ r ∧ r ≤ hi + ewmaDelta A := by
  have hu := u_nonneg
  have hη := η_nonneg
  have hA : 0 ≤ A := le_trans (abs_nonneg _) hlo
  obtain ⟨hlo1, hlo2⟩ := abs_le.1 hlo
  obtain ⟨hhi1, hhi2⟩ := abs_le.1 hhi
  obtain ⟨hML1, hML2⟩ := abs_le.1 hML
  have hpA : |p| ≤ A := abs_le.2 ⟨by linarith, by linarith⟩
  have hnA : |n| ≤ A := abs_le.2 ⟨by linarith, by linarith⟩
  have hpM : |p * M| ≤ A * M := by
    rw [abs_mul, abs_of_nonneg hM0]; exact mul_le_mul_of_nonneg_right hpA hM0
  have hnL : |n * L| ≤ A * L := by
    rw [abs_mul, abs_of_nonneg hL0]; exact mul_le_mul_of_nonneg_right hnA hL0
  -- the exact combination
  have e_hi : p * M + n * L ≤ hi + A * u := by
    have a1 := mul_le_mul_of_nonneg_right hp2 hM0
    have a2 := mul_le_mul_of_nonneg_right hn2 hL0
    have a3 : hi * (M + L - 1) ≤ A * u := by
      calc hi * (M + L - 1) ≤ |hi * (M + L - 1)| := le_abs_self _
        _ = |hi| * |M + L - 1| := abs_mul _ _
        _ ≤ A * u := mul_le_mul hhi hML (abs_nonneg _) hA
    nlinarith
  have e_lo : lo - A * u ≤ p * M + n * L := by
    have a1 := mul_le_mul_of_nonneg_right hp1 hM0
    have a2 := mul_le_mul_of_nonneg_right hn1 hL0
    have a3 : -(A * u) ≤ lo * (M + L - 1) := by
      have : |lo * (M + L - 1)| ≤ A * u := by
        rw [abs_mul]; exact mul_le_mul hlo hML (abs_nonneg _) hA
      linarith [neg_abs_le (lo * (M + L - 1))]
    nlinarith
  have hD : A * M + A * L ≤ A * (1 + u) := by nlinarith
  have e_abs : |p * M + n * L| ≤ A * (1 + u) :=
    le_trans (abs_add_le _ _) (by linarith)
  -- the two rounded products
  have hs : |t1 + t2 - (p * M + n * L)| ≤ u * (A * (1 + u)) + 2 * η := by
    have e : t1 + t2 - (p * M + n * L) = (t1 - p * M) + (t2 - n * L) := by ring
    rw [e]
    refine le_trans (abs_add_le _ _) ?_
    have b1 := mul_le_mul_of_nonneg_left hpM hu
    have b2 := mul_le_mul_of_nonneg_left hnL hu
    have b3 := mul_le_mul_of_nonneg_left hD hu
    nlinarith
  have hsabs : |t1 + t2| ≤ A * (1 + u) + (u * (A * (1 + u)) + 2 * η) := by
    have := abs_add_le (t1 + t2 - (p * M + n * L)) (p * M + n * L)
    rw [sub_add_cancel] at this
    linarith
  have hr : |r - (t1 + t2)| ≤ u * (A * (1 + u) + (u * (A * (1 + u)) + 2 * η)) :=
    le_trans h3 (mul_le_mul_of_nonneg_left hsabs hu)
  obtain ⟨hr1, hr2⟩ := abs_le.1 hr
  obtain ⟨hs1, hs2⟩ := abs_le.1 hs
  have key : ewmaDelta A = A * u + (u * (A * (1 + u)) + 2 * η)
      + u * (A * (1 + u) + (u * (A * (1 + u)) + 2 * η)) := by
    unfold ewmaDelta; ring
  rw [key]
  constructor <;> linarith

/-- the same statement with arbitrary RATIONAL interval end points (needed to iterate: after one update the interval
`[lo − δ, hi + δ]` no longer has binary32 end points) -/
theorem ewma_value_bounds_rat (p n L : SF) (lo hi : ℚ) (hL0 : (c0 : SF) ≤ L) (hL1 : L ≤ c1)
    (hp1 : lo ≤ p.val) (hp2 : p.val ≤ hi) (hn1 : lo ≤ n.val) (hn2 : n.val ≤ hi) :
    lo - ewmaDelta (max |lo| |hi|) ≤ (ewmaVal p n L).val ∧
    (ewmaVal p n L).val ≤ hi + ewmaDelta (max |lo| |hi|) := by
  have hL0' : (0:ℚ) ≤ L.val := by have := (le_def _ _).1 hL0; rwa [c0_val] at this
  have hL1' : L.val ≤ 1 := by have := (le_def _ _).1 hL1; rwa [c1_val] at this
  -- `M = fl(1 − L)` lies in `[0,1]` (sandwich) and is within `u` of `1 − L`
  have hMb := rne32_between c0 c1 (1 - L.val) (by rw [c0_val]; linarith) (by rw [c1_val]; linarith)
  rw [c0_val, c1_val] at hMb
  have hMe : |rne32 (1 - L.val) - (1 - L.val)| ≤ u := by
    have h := sub_err c1 L
    rw [sub_val, c1_val] at h
    have : u * |1 - L.val| ≤ u * 1 := by
      apply mul_le_mul_of_nonneg_left _ u_nonneg
      rw [abs_of_nonneg (by linarith)]; linarith
    linarith
  rw [ewmaVal_val]
  set M := rne32 (1 - L.val) with hM
  have hML : |M + L.val - 1| ≤ u := by
    have e : M + L.val - 1 = M - (1 - L.val) := by ring
    rw [e]; exact hMe
  exact ewma_arith (max |lo| |hi|) lo hi p.val n.val M L.val _ _ _
    (le_max_left _ _) (le_max_right _ _) hp1 hp2 hn1 hn2 hMb.1 hL0' hML
    (rne32_err _) (rne32_err _)
    (by
      have h := add_err (rnd (p.val * M)) (rnd (n.val * L.val))
      simpa using h)

/-- **EWMA, one update, binary32**: with `prev`, `new` in `[lo, hi]` and ANY binary32 weight `L ∈ [0, 1]` (whatever `powf`
returned), the value the update stores lies in `[lo − δ, hi + δ]`,
`δ = ((1+u)^3 − 1)·max(|lo|,|hi|) + 2(1+u)·η`  (three roundings; `1.0 − L` itself is rounded, which the proof accounts for). -/
theorem ewma_value_bounds_binary32_sharp (p n L lo hi : SF) (hL0 : (c0 : SF) ≤ L) (hL1 : L ≤ c1)
    (hp1 : lo ≤ p) (hp2 : p ≤ hi) (hn1 : lo ≤ n) (hn2 : n ≤ hi) :
    lo.val - ewmaDelta (max |lo.val| |hi.val|) ≤ (ewmaVal p n L).val ∧
    (ewmaVal p n L).val ≤ hi.val + ewmaDelta (max |lo.val| |hi.val|) :=
  ewma_value_bounds_rat p n L lo.val hi.val hL0 hL1 hp1 hp2 hn1 hn2

/-- **EWMA, one update, binary32, round constants** (`k = 4`, `k' = 3`): the stored value lies in
`[lo − δ, hi + δ]`, `δ = 4·u·max(|lo|,|hi|) + 3·η`, `u = 2^-24`, `η = 2^-150`. -/
theorem ewma_value_bounds_binary32 (p n L lo hi : SF) (hL0 : (c0 : SF) ≤ L) (hL1 : L ≤ c1)
    (hp1 : lo ≤ p) (hp2 : p ≤ hi) (hn1 : lo ≤ n) (hn2 : n ≤ hi) :
    lo.val - (4 * u * max |lo.val| |hi.val| + 3 * η) ≤ (ewmaVal p n L).val ∧
    (ewmaVal p n L).val ≤ hi.val + (4 * u * max |lo.val| |hi.val| + 3 * η) := by
  obtain ⟨h1, h2⟩ := ewma_value_bounds_binary32_sharp p n L lo hi hL0 hL1 hp1 hp2 hn1 hn2
  have hA : (0:ℚ) ≤ max |lo.val| |hi.val| := le_trans (abs_nonneg _) (le_max_left _ _)
  have := ewmaDelta_le hA
  constructor <;> linarith

/-- the same for the model's update function: whatever `smoothing` and `Δt`, if the weight the model computed is a
binary32 number in `[0,1]`, the stored value is within `δ` of `[lo, hi]` -/
theorem ewmaNext_bounds_binary32 (smoothing pv : SF) (dt : Int) (o : Datum SF) (lo hi : SF)
    (hL0 : (c0 : SF) ≤ ewmaLambda smoothing dt) (hL1 : ewmaLambda smoothing dt ≤ c1)
    (hp1 : lo ≤ pv) (hp2 : pv ≤ hi) (hn1 : lo ≤ o.value) (hn2 : o.value ≤ hi) :
    ∃ x : SF, ewmaNext scaleF addF smoothing pv dt o = .ok (⟨.ok (some ⟨o.time, x⟩), some o.time⟩, .ok ()) ∧
      lo.val - (4 * u * max |lo.val| |hi.val| + 3 * η) ≤ x.val ∧
      x.val ≤ hi.val + (4 * u * max |lo.val| |hi.val| + 3 * η) :=
  ⟨_, ewmaNext_value smoothing pv dt o,
    ewma_value_bounds_binary32 pv o.value _ lo hi hL0 hL1 hp1 hp2 hn1 hn2⟩

/-! ### cases that are EXACT in binary32 -/

/-- `L = 0.0` returns the previous value, bit for bit (`x·1.0`, `y·0.0`, `x + 0.0` are all exact) -/
theorem ewma_lambda_zero_binary32 (p n : SF) : ewmaVal p n c0 = p := SF.ext (by
  rw [ewmaVal_val, c0_val]; simp [rne32_one, rne32_zero])

/-- `L = 1.0` returns the new sample, bit for bit -/
theorem ewma_lambda_one_binary32 (p n : SF) : ewmaVal p n c1 = n := SF.ext (by
  rw [ewmaVal_val, c1_val]; simp [rne32_one, rne32_zero])

/-- constant input and `L ∈ {0, 1}`: exactly that constant -/
theorem ewma_constant_exact_binary32 (c L : SF) (hL : L = c0 ∨ L = c1) : ewmaVal c c L = c := by
  rcases hL with rfl | rfl
  · exact ewma_lambda_zero_binary32 c c
  · exact ewma_lambda_one_binary32 c c

/-- what the placeholder `powf` of `SF` gives (`powf _ _ = 1.0`, so `L = 1.0 − 1.0 = 0.0`): the previous value, exactly.
(Only an illustration: no law about `powf` is claimed; the bounds above are for an arbitrary `L`.) -/
example (smoothing pv : SF) (dt : Int) (o : Datum SF) :
    ewmaNext scaleF addF smoothing pv dt o = .ok (⟨.ok (some ⟨o.time, pv⟩), some o.time⟩, .ok ()) := by
  rw [ewmaNext_value]
  have : ewmaLambda smoothing dt = (c0 : SF) := SF.ext (by
    show rne32 ((c1 : SF).val - rne32 1) = (c0 : SF).val
    rw [c1_val, c0_val, rne32_one, sub_self, rne32_zero])
  rw [this, ewma_lambda_zero_binary32]

/-! ### constant input, arbitrary weight: "up to rounding" is genuinely needed -/

/-- constant input `prev = new = c`, ANY binary32 `L ∈ [0,1]`: the result is within `((1+u)^3 − 1)·|c| + 2(1+u)·η`, hence
within `4·u·|c| + 3·η`, of `c`. -/
theorem ewma_constant_any_lambda_binary32 (c L : SF) (hL0 : (c0 : SF) ≤ L) (hL1 : L ≤ c1) :
    |(ewmaVal c c L).val - c.val| ≤ ewmaDelta |c.val| ∧
    |(ewmaVal c c L).val - c.val| ≤ 4 * u * |c.val| + 3 * η := by
  obtain ⟨h1, h2⟩ := ewma_value_bounds_binary32_sharp c c L c c hL0 hL1 (le_refl' c) (le_refl' c) (le_refl' c)
    (le_refl' c)
  rw [max_self] at h1 h2
  have h : |(ewmaVal c c L).val - c.val| ≤ ewmaDelta |c.val| := abs_le.2 ⟨by linarith, by linarith⟩
  exact ⟨h, le_trans h (ewmaDelta_le (abs_nonneg _))⟩

/-! ### constant input, arbitrary weight, NORMAL range: the sharp bound `2·u·|c|` (one unit in the last place) -/

/-- the value over `ℚ` -/
def ewmaQ (c L : ℚ) : ℚ := rne32 (rne32 (c * rne32 (1 - L)) + rne32 (c * L))

theorem ewmaQ_neg (c L : ℚ) : ewmaQ (-c) L = - ewmaQ c L := by
  unfold ewmaQ
  rw [neg_mul, neg_mul, rne32_neg, rne32_neg, ← neg_add, rne32_neg]

/-- the sum of the two rounded products stays within `5/4` ulp of `c` (`3/2` ulp in the lowest normal binade) -/
theorem ewma_const_sum_near (c L : ℚ) (hL : Rep L) (hL0 : 0 ≤ L) (hL1 : L ≤ 1) (e : ℤ) (he : -126 ≤ e)
    (hce : (2:ℚ) ^ e ≤ c) (hce' : c < (2:ℚ) ^ (e + 1)) :
    0 ≤ rne32 (c * rne32 (1 - L)) + rne32 (c * L) ∧
    |rne32 (c * rne32 (1 - L)) + rne32 (c * L) - c| < 3 / 2 * (2:ℚ) ^ (e - 23) ∧
    (-125 ≤ e → |rne32 (c * rne32 (1 - L)) + rne32 (c * L) - c| < 5 / 4 * (2:ℚ) ^ (e - 23)) := by
  set U := (2:ℚ) ^ (e - 23) with hU
  have hUpos : 0 < U := by positivity
  have hc0 : 0 < c := lt_of_lt_of_le (by positivity) hce
  have e0 : (2:ℚ) ^ e = 8388608 * U := by
    have := zpow_shift (e - 23) 23
    have e' : e - 23 + ((23:ℕ):ℤ) = e := by push_cast; ring
    rw [e'] at this; rw [this, hU]; norm_num
  have e1 : (2:ℚ) ^ (e + 1) = 16777216 * U := by rw [zpow_succ2, e0]; ring
  have eh : (2:ℚ) ^ (e - 24) = U / 2 := by
    have := zpow_succ2 (e - 24)
    have e' : e - 24 + 1 = e - 23 := by ring
    rw [e'] at this; rw [hU, this]; ring
  -- the rounded complement `M`
  have hMb := rne32_between c0 c1 (1 - L) (by rw [c0_val]; linarith) (by rw [c1_val]; linarith)
  rw [c0_val, c1_val] at hMb
  have hMe : |rne32 (1 - L) - (1 - L)| ≤ 1 / 33554432 := by
    have := rne32_half_ulp (1 - L) (-1) (by norm_num) (by
      rw [abs_of_nonneg (by linarith)]; norm_num; linarith)
    norm_num at this; exact this
  set M := rne32 (1 - L) with hM
  have hcM0 : 0 ≤ c * M := mul_nonneg hc0.le hMb.1
  have hcL0 : 0 ≤ c * L := mul_nonneg hc0.le hL0
  have hcM1 : c * M ≤ c := by nlinarith
  have hcL1 : c * L ≤ c := by nlinarith
  have t1 := rne32_half_ulp (c * M) e he (by rw [abs_of_nonneg hcM0]; linarith)
  have t2 := rne32_half_ulp (c * L) e he (by rw [abs_of_nonneg hcL0]; linarith)
  rw [eh] at t1 t2
  have hcE : |c * (M - (1 - L))| < U / 2 := by
    rw [abs_mul, abs_of_pos hc0]
    have : c * |M - (1 - L)| ≤ c * (1 / 33554432) := mul_le_mul_of_nonneg_left hMe hc0.le
    rw [e1] at hce'
    linarith
  have split : rne32 (c * M) + rne32 (c * L) - c
      = (rne32 (c * M) - c * M) + (rne32 (c * L) - c * L) + c * (M - (1 - L)) := by ring
  have tri : |rne32 (c * M) + rne32 (c * L) - c|
      ≤ |rne32 (c * M) - c * M| + |rne32 (c * L) - c * L| + |c * (M - (1 - L))| := by
    rw [split]
    exact le_trans (abs_add_le _ _) (add_le_add (abs_add_le _ _) (le_refl _))
  refine ⟨add_nonneg (rne32_nonneg _ hcM0) (rne32_nonneg _ hcL0), by linarith, ?_⟩
  intro he125
  have eq4 : (2:ℚ) ^ (e - 1 - 24) = U / 4 := by
    have a := zpow_succ2 (e - 1 - 24)
    have e1' : e - 1 - 24 + 1 = e - 24 := by ring
    rw [e1', eh] at a; linarith
  have em1 : (2:ℚ) ^ (e - 1 + 1) = 8388608 * U := by
    have : e - 1 + 1 = e := by ring
    rw [this, e0]
  by_cases hLh : 1 / 2 ≤ L
  · -- `1 − L` is exact, `c·M ≤ c/2` lies a binade lower
    have hMex : M = 1 - L := rep_one_sub hL hLh hL1
    have hcMh : c * M ≤ 8388608 * U := by rw [hMex]; rw [e1] at hce'; nlinarith
    have t1' := rne32_half_ulp (c * M) (e - 1) (by omega) (by rw [abs_of_nonneg hcM0, em1]; exact hcMh)
    rw [eq4] at t1'
    have : |c * (M - (1 - L))| = 0 := by rw [hMex]; simp
    linarith
  · -- `c·L < c/2` lies a binade lower
    have hLh' : L < 1 / 2 := not_le.1 hLh
    have hcLh : c * L ≤ 8388608 * U := by rw [e1] at hce'; nlinarith
    have t2' := rne32_half_ulp (c * L) (e - 1) (by omega) (by rw [abs_of_nonneg hcL0, em1]; exact hcLh)
    rw [eq4] at t2'
    linarith

/-- positive normal `c`: the result is `c` or one of its two binary32 neighbours -/
theorem ewma_const_pos (c L : ℚ) (hc : Rep c) (hL : Rep L) (hL0 : 0 ≤ L) (hL1 : L ≤ 1) (e : ℤ) (he : -126 ≤ e)
    (hce : (2:ℚ) ^ e ≤ c) (hce' : c < (2:ℚ) ^ (e + 1)) : |ewmaQ c L - c| ≤ (2:ℚ) ^ (e - 23) := by
  obtain ⟨hs0, h32, h54⟩ := ewma_const_sum_near c L hL hL0 hL1 e he hce hce'
  unfold ewmaQ
  set s := rne32 (c * rne32 (1 - L)) + rne32 (c * L) with hs
  rcases lt_or_ge s ((2:ℚ) ^ e) with hlow | hge
  · rcases lt_or_ge (-126) e with h125 | h126
    · exact rne32_near_below c s e (by omega) hc hce hlow (h54 (by omega))
    · have he' : e = -126 := by omega
      subst he'
      have := rne32_near_below_min c s hc hlow hs0 (by norm_num at h32 ⊢; exact h32)
      norm_num at this ⊢; exact this
  · rcases le_or_gt s ((2:ℚ) ^ (e + 1)) with hle | hgt
    · exact rne32_near_same c s e he hc hce hge hle h32
    · exact rne32_near_above c s e he hc hce hce' hgt h32

/-- **constant input, ANY binary32 weight `L ∈ [0,1]`, `c` in the normal range** (`|c| ≥ 2^-126`): the binary32 EWMA returns
`c` or one of its two binary32 neighbours; in particular `|result − c| ≤ 2·u·|c|`.  (Attained up to the factor
`1 − 2^-23`: `ewma_constant_not_exact`.  False below `2^-126`: `ewma_constant_two_u_fails_subnormal`.) -/
theorem ewma_constant_two_u_binary32 (c L : SF) (hL0 : (c0 : SF) ≤ L) (hL1 : L ≤ c1)
    (hc : (2:ℚ) ^ (-126:ℤ) ≤ |c.val|) : |(ewmaVal c c L).val - c.val| ≤ 2 * u * |c.val| := by
  have hL0' : (0:ℚ) ≤ L.val := by have := (le_def _ _).1 hL0; rwa [c0_val] at this
  have hL1' : L.val ≤ 1 := by have := (le_def _ _).1 hL1; rwa [c1_val] at this
  have hval : (ewmaVal c c L).val = ewmaQ c.val L.val := ewmaVal_val c c L
  rw [hval]
  -- reduce to `|c|`
  have key : ∀ x : ℚ, Rep x → (2:ℚ) ^ (-126:ℤ) ≤ x → |ewmaQ x L.val - x| ≤ 2 * u * x := by
    intro x hx hx126
    have hx0 : 0 < x := lt_of_lt_of_le (by positivity) hx126
    obtain ⟨l1, l2⟩ := lg_spec x hx0
    have hl : -126 ≤ lg x := (lg_ge_iff x hx0 _).2 hx126
    have h := ewma_const_pos x L.val hx L.rep hL0' hL1' (lg x) hl l1 l2
    have e : (2:ℚ) ^ (lg x - 23) = 2 * u * (2:ℚ) ^ (lg x) := by
      rw [u_eq_zpow]
      have : (2:ℚ) * 2 ^ (-24:ℤ) = 2 ^ (-23:ℤ) := by norm_num
      rw [this, ← zpow_add₀ (by norm_num)]; congr 1; ring
    rw [e] at h
    have := mul_le_mul_of_nonneg_left l1 (by have := u_nonneg; linarith : (0:ℚ) ≤ 2 * u)
    linarith
  rcases le_total 0 c.val with hpos | hneg
  · rw [abs_of_nonneg hpos] at hc ⊢
    exact key c.val c.rep hc
  · rw [abs_of_nonpos hneg] at hc ⊢
    have h := key (-c.val) (rep_neg c.rep) hc
    rw [ewmaQ_neg] at h
    have e : -ewmaQ c.val L.val - -c.val = -(ewmaQ c.val L.val - c.val) := by ring
    rwa [e, abs_neg] at h

/-! ### many updates: the drift grows geometrically with ratio `(1+u)^3` -/

/-- `k` successive updates from `p` with samples `nᵢ` and weights `Lᵢ` -/
def ewmaFold (p : SF) (l : List (SF × SF)) : SF := l.foldl (fun acc x => ewmaVal acc x.1 x.2) p

theorem ewmaDelta_mono {A B : ℚ} (h : A ≤ B) : ewmaDelta A ≤ ewmaDelta B := by
  unfold ewmaDelta
  have := mul_le_mul_of_nonneg_left h (pow_sub_one_nonneg 3)
  linarith

/-- one update started inside the widened interval `[lo − D, hi + D]` -/
theorem ewma_step_drift (p n L : SF) (lo hi D : ℚ) (hD : 0 ≤ D) (hL0 : (c0 : SF) ≤ L) (hL1 : L ≤ c1)
    (hp1 : lo - D ≤ p.val) (hp2 : p.val ≤ hi + D) (hn1 : lo ≤ n.val) (hn2 : n.val ≤ hi) :
    lo - ((1 + u) ^ 3 * D + ((1 + u) ^ 3 - 1) * max |lo| |hi| + 2 * (1 + u) * η) ≤ (ewmaVal p n L).val ∧
    (ewmaVal p n L).val ≤ hi + ((1 + u) ^ 3 * D + ((1 + u) ^ 3 - 1) * max |lo| |hi| + 2 * (1 + u) * η) := by
  obtain ⟨h1, h2⟩ := ewma_value_bounds_rat p n L (lo - D) (hi + D) hL0 hL1 hp1 hp2 (by linarith) (by linarith)
  have hA : max |lo - D| |hi + D| ≤ max |lo| |hi| + D := by
    apply max_le
    · have : |lo - D| ≤ |lo| + |D| := abs_sub _ _
      rw [abs_of_nonneg hD] at this
      linarith [le_max_left |lo| |hi|]
    · have : |hi + D| ≤ |hi| + |D| := abs_add_le _ _
      rw [abs_of_nonneg hD] at this
      linarith [le_max_right |lo| |hi|]
  have hm := ewmaDelta_mono hA
  have e : ewmaDelta (max |lo| |hi| + D) = ((1 + u) ^ 3 - 1) * D + ((1 + u) ^ 3 - 1) * max |lo| |hi|
      + 2 * (1 + u) * η := by unfold ewmaDelta; ring
  rw [e] at hm
  constructor <;> linarith

/-- general inductive form: started within `D` of `[lo, hi]`, after `k` updates the value is within
`(1+u)^(3k)·D + ((1+u)^(3k) − 1)·A + 2k·(1+u)^(3k)·η` of `[lo, hi]` -/
theorem ewma_fold_drift (l : List (SF × SF)) (lo hi : ℚ) (hl : ∀ x ∈ l, (c0 : SF) ≤ x.2 ∧ x.2 ≤ c1 ∧ lo ≤ x.1.val ∧ x.1.val ≤ hi)
    (p : SF) (D : ℚ) (hD : 0 ≤ D) (hp1 : lo - D ≤ p.val) (hp2 : p.val ≤ hi + D) :
    lo - ((1 + u) ^ (3 * l.length) * D + ((1 + u) ^ (3 * l.length) - 1) * max |lo| |hi|
        + 2 * l.length * (1 + u) ^ (3 * l.length) * η) ≤ (ewmaFold p l).val ∧
    (ewmaFold p l).val ≤ hi + ((1 + u) ^ (3 * l.length) * D + ((1 + u) ^ (3 * l.length) - 1) * max |lo| |hi|
        + 2 * l.length * (1 + u) ^ (3 * l.length) * η) := by
  induction l generalizing p D with
  | nil => simp [ewmaFold]; constructor <;> linarith
  | cons x l ih =>
    obtain ⟨hx0, hx1, hx2, hx3⟩ := hl x (List.mem_cons_self ..)
    obtain ⟨s1, s2⟩ := ewma_step_drift p x.1 x.2 lo hi D hD hx0 hx1 hp1 hp2 hx2 hx3
    have hA : 0 ≤ max |lo| |hi| := le_trans (abs_nonneg _) (le_max_left _ _)
    have hu := u_nonneg
    have hη := η_nonneg
    have hQ1 : 1 ≤ (1 + u) ^ 3 := one_le_pow 3
    have hD1 : 0 ≤ (1 + u) ^ 3 * D + ((1 + u) ^ 3 - 1) * max |lo| |hi| + 2 * (1 + u) * η := by
      have := pow_sub_one_nonneg 3
      positivity
    obtain ⟨i1, i2⟩ := ih (fun y hy => hl y (List.mem_cons_of_mem _ hy)) (ewmaVal p x.1 x.2) _ hD1 s1 s2
    have efold : ewmaFold p (x :: l) = ewmaFold (ewmaVal p x.1 x.2) l := rfl
    rw [efold, List.length_cons]
    set k := l.length with hk
    set Q := (1 + u) ^ 3 with hQ
    set Pk := (1 + u) ^ (3 * k) with hPk
    have hPk1 : 1 ≤ Pk := one_le_pow _
    have ePow : (1 + u) ^ (3 * (k + 1)) = Pk * Q := by
      rw [hPk, hQ, ← pow_add]; congr 1
    rw [ePow]
    have hQle : 1 + u ≤ Q := by
      rw [hQ]
      have : (1 + u) ^ 1 ≤ (1 + u) ^ 3 := pow_mono (by norm_num)
      simpa using this
    -- the drift after the first step, propagated through `k` more steps, is below the closed form for `k + 1`
    have hk0 : (0:ℚ) ≤ k := Nat.cast_nonneg k
    have hPk0 : 0 ≤ Pk := by linarith
    have c1' : Pk * (2 * (1 + u) * η) ≤ Pk * (2 * Q * η) := by
      apply mul_le_mul_of_nonneg_left _ hPk0
      have := mul_le_mul_of_nonneg_right hQle hη
      linarith
    have c2' : 2 * k * Pk * η ≤ 2 * k * (Pk * Q) * η := by
      have : Pk ≤ Pk * Q := by nlinarith
      have := mul_le_mul_of_nonneg_left this (by positivity : (0:ℚ) ≤ 2 * k)
      have := mul_le_mul_of_nonneg_right this hη
      linarith
    have key : Pk * (Q * D + (Q - 1) * max |lo| |hi| + 2 * (1 + u) * η) + (Pk - 1) * max |lo| |hi| + 2 * k * Pk * η
        ≤ Pk * Q * D + (Pk * Q - 1) * max |lo| |hi| + 2 * ((k + 1 : ℕ) : ℚ) * (Pk * Q) * η := by
      push_cast
      have e : Pk * (Q * D + (Q - 1) * max |lo| |hi| + 2 * (1 + u) * η) + (Pk - 1) * max |lo| |hi| + 2 * k * Pk * η
          = Pk * Q * D + (Pk * Q - 1) * max |lo| |hi| + (Pk * (2 * (1 + u) * η) + 2 * k * Pk * η) := by ring
      rw [e]
      have e2 : 2 * ((k:ℚ) + 1) * (Pk * Q) * η = Pk * (2 * Q * η) + 2 * k * (Pk * Q) * η := by ring
      rw [e2]; linarith
    constructor <;> linarith

/-- **EWMA, `k` updates, binary32**: previous value and all samples in `[lo, hi]` (rational end points), all weights binary32
numbers in `[0,1]`: after `k` updates the value lies within
`((1+u)^(3k) − 1)·max(|lo|,|hi|) + 2k·(1+u)^(3k)·η  ( ≈ 3k·u·max(|lo|,|hi|) + 2k·η )` of `[lo, hi]`. -/
theorem ewma_fold_bounds_binary32 (l : List (SF × SF)) (p : SF) (lo hi : ℚ)
    (hl : ∀ x ∈ l, (c0 : SF) ≤ x.2 ∧ x.2 ≤ c1 ∧ lo ≤ x.1.val ∧ x.1.val ≤ hi) (hp1 : lo ≤ p.val) (hp2 : p.val ≤ hi) :
    lo - (((1 + u) ^ (3 * l.length) - 1) * max |lo| |hi| + 2 * l.length * (1 + u) ^ (3 * l.length) * η)
      ≤ (ewmaFold p l).val ∧
    (ewmaFold p l).val
      ≤ hi + (((1 + u) ^ (3 * l.length) - 1) * max |lo| |hi| + 2 * l.length * (1 + u) ^ (3 * l.length) * η) := by
  have h := ewma_fold_drift l lo hi hl p 0 (le_refl _) (by linarith) (by linarith)
  simpa using h

namespace RoundingExamples
/-- `c = 1 + 2^-23` (the binary32 successor of `1.0`) -/
def cSucc1 : SF := SF.mk' 8388609 (-23) (by norm_num) (by norm_num)
/-- a weight `L = 8161889·2^-25 ≈ 0.2432` -/
def lam : SF := SF.mk' 8161889 (-25) (by norm_num) (by norm_num)
/-- `3·2^-149`, a subnormal -/
def cSub3 : SF := SF.mk' 3 (-149) (by norm_num) (by norm_num)

theorem cSucc1_val : cSucc1.val = 8388609 / 8388608 := by
  show ((8388609:ℤ):ℚ) * (2:ℚ) ^ (-23:ℤ) = _; norm_num
theorem lam_val : lam.val = 8161889 / 33554432 := by
  show ((8161889:ℤ):ℚ) * (2:ℚ) ^ (-25:ℤ) = _; norm_num
theorem cSub3_val : cSub3.val = 3 / 713623846352979940529142984724747568191373312 := by
  show ((3:ℤ):ℚ) * (2:ℚ) ^ (-149:ℤ) = _; norm_num

theorem lam_range : (c0 : SF) ≤ lam ∧ lam ≤ c1 := by
  rw [le_def, le_def, c0_val, c1_val, lam_val]; norm_num

/-- **a constant input is NOT reproduced exactly**: with `prev = new = 1 + 2^-23` and `L ≈ 0.2432` the binary32 EWMA
returns `1 + 2^-22`, one unit in the last place above the constant — `|result − c| = 2^-23 ≈ 1.9999998·u·|c|`. -/
theorem ewma_constant_not_exact : (ewmaVal cSucc1 cSucc1 lam).val = 4194305 / 4194304 ∧
    ewmaVal cSucc1 cSucc1 lam ≠ cSucc1 := by
  have h : (ewmaVal cSucc1 cSucc1 lam).val = 4194305 / 4194304 := by
    rw [ewmaVal_val, cSucc1_val, lam_val]; decide +kernel
  refine ⟨h, fun e => ?_⟩
  rw [e, cSucc1_val] at h
  revert h; norm_num

/-- **`2·u·|c|` is NOT a bound for subnormal constants**: with `prev = new = 3·2^-149` and `L = 0.5` both halves
`1.5·2^-149` round (ties to even) to `2·2^-149` and the result is `4·2^-149`: off by `2^-149`, while
`2·u·|c| = 3·2^-172`.  The `η` term of the bounds above is therefore necessary. -/
theorem ewma_constant_two_u_fails_subnormal :
    (ewmaVal cSub3 cSub3 chalf).val = 4 / 713623846352979940529142984724747568191373312 ∧
    ¬ |(ewmaVal cSub3 cSub3 chalf).val - cSub3.val| ≤ 2 * u * |cSub3.val| := by
  have h : (ewmaVal cSub3 cSub3 chalf).val = 4 / 713623846352979940529142984724747568191373312 := by
    rw [ewmaVal_val, cSub3_val, chalf_val]; decide +kernel
  refine ⟨h, ?_⟩
  rw [h, cSub3_val]; unfold u; norm_num

/-- non-vacuity of `ewma_value_bounds_binary32`: `prev = 1.5`, `new = 2^24`, `L ≈ 0.2432`, `lo = 1.5`, `hi = 2^24` -/
example : (c0 : SF) ≤ lam ∧ lam ≤ c1 ∧ x1_5 ≤ x1_5 ∧ x1_5 ≤ x2p24 ∧ x1_5 ≤ x2p24 ∧ x2p24 ≤ x2p24 := by
  have h : x1_5 ≤ x2p24 := by
    rw [le_def, x2p24_val]; show ((3:ℤ):ℚ) * (2:ℚ) ^ (-1:ℤ) ≤ _; norm_num
  exact ⟨lam_range.1, lam_range.2, le_refl' _, h, h, le_refl' _⟩
end RoundingExamples


/-! ## moving average -/

/-- what the generic accumulation loop of the moving average computes at `SF`: `((0.0 + v₁·w₁) + v₂·w₂) + …`, every product
and every sum rounded -/
def maAcc (l : List (SF × SF)) : SF := l.foldl (fun a p => a + scaleF p.1 p.2) c0

/-- tie to the model: this is the result of `Ma.accumulate` for the `f32` instantiation -/
theorem accumulate_binary32 (l : List (SF × SF)) :
    Ma.accumulate scaleF addF (some (c0 : SF)) l = .ok (some (maAcc l)) := by
  rw [accumulate_eq_maSum scaleF addF (· + ·) (fun _ _ => rfl)]; rfl

/-- the rounded products -/
def maProds (l : List (SF × SF)) : List SF := l.map (fun p => p.1 * p.2)
/-- exact `Σ vᵢ·wᵢ` -/
def wsumQ (l : List (SF × SF)) : ℚ := (l.map (fun p => p.1.val * p.2.val)).sum
/-- exact `Σ |vᵢ·wᵢ|` -/
def wabsQ (l : List (SF × SF)) : ℚ := (l.map (fun p => |p.1.val * p.2.val|)).sum
/-- exact `Σ wᵢ` -/
def wtotQ (l : List (SF × SF)) : ℚ := (l.map (fun p => p.2.val)).sum

@[simp] theorem wsumQ_nil : wsumQ [] = 0 := rfl
@[simp] theorem wabsQ_nil : wabsQ [] = 0 := rfl
@[simp] theorem wtotQ_nil : wtotQ [] = 0 := rfl
@[simp] theorem maProds_nil : maProds [] = [] := rfl
@[simp] theorem wsumQ_cons (p : SF × SF) (l : List (SF × SF)) : wsumQ (p :: l) = p.1.val * p.2.val + wsumQ l := by
  simp [wsumQ]
@[simp] theorem wabsQ_cons (p : SF × SF) (l : List (SF × SF)) : wabsQ (p :: l) = |p.1.val * p.2.val| + wabsQ l := by
  simp [wabsQ]
@[simp] theorem wtotQ_cons (p : SF × SF) (l : List (SF × SF)) : wtotQ (p :: l) = p.2.val + wtotQ l := by
  simp [wtotQ]
@[simp] theorem maProds_cons (p : SF × SF) (l : List (SF × SF)) : maProds (p :: l) = (p.1 * p.2) :: maProds l := rfl
@[simp] theorem maProds_length (l : List (SF × SF)) : (maProds l).length = l.length := by simp [maProds]

theorem wabsQ_nonneg (l : List (SF × SF)) : 0 ≤ wabsQ l := by
  induction l with
  | nil => simp
  | cons p l ih => rw [wabsQ_cons]; linarith [abs_nonneg (p.1.val * p.2.val)]

theorem abs_wsumQ_le (l : List (SF × SF)) : |wsumQ l| ≤ wabsQ l := by
  induction l with
  | nil => simp
  | cons p l ih => rw [wsumQ_cons, wabsQ_cons]; exact le_trans (abs_add_le _ _) (by linarith)

theorem maAcc_eq_foldl (l : List (SF × SF)) : maAcc l = (maProds l).foldl (fun acc t => acc + t) c0 := by
  unfold maAcc maProds; rw [List.foldl_map]; rfl

/-- the rounded products against the exact ones: each contributes `u·|vᵢwᵢ| + η` -/
theorem maProds_err (l : List (SF × SF)) :
    |sumVal (maProds l) - wsumQ l| ≤ u * wabsQ l + l.length * η ∧
    sumAbs (maProds l) ≤ (1 + u) * wabsQ l + l.length * η := by
  induction l with
  | nil => simp
  | cons p l ih =>
    obtain ⟨h1, h2⟩ := ih
    have e1 := mul_err p.1 p.2
    have e2 := abs_mul_le' p.1 p.2
    simp only [maProds_cons, sumVal_cons, sumAbs_cons, wsumQ_cons, wabsQ_cons, List.length_cons]
    push_cast
    constructor
    · have e : (p.1 * p.2).val + sumVal (maProds l) - (p.1.val * p.2.val + wsumQ l)
          = ((p.1 * p.2).val - p.1.val * p.2.val) + (sumVal (maProds l) - wsumQ l) := by ring
      rw [e]
      refine le_trans (abs_add_le _ _) ?_
      linarith
    · linarith

/-- **accumulation lemma** (forward error of the moving average's loop, no sign condition): with `n` terms,
`|fl(Σ fl(vᵢ·wᵢ)) − Σ vᵢ·wᵢ| ≤ ((1+u)^(n+1) − 1)·Σ|vᵢ·wᵢ| + n·(1+u)^n·η` -/
theorem ma_accumulate_err (l : List (SF × SF)) :
    |(maAcc l).val - wsumQ l| ≤ ((1 + u) ^ (l.length + 1) - 1) * wabsQ l + l.length * (1 + u) ^ l.length * η := by
  have h := foldl_add_err (maProds l) c0
  rw [← maAcc_eq_foldl, c0_val, zero_add, abs_zero, zero_add, maProds_length] at h
  obtain ⟨h1, h2⟩ := maProds_err l
  set P := (1 + u) ^ l.length with hP
  have hP1 : 1 ≤ P := one_le_pow _
  have hY := wabsQ_nonneg l
  have hη := η_nonneg
  have hn : (0:ℚ) ≤ (l.length : ℚ) := by positivity
  have tri : |(maAcc l).val - wsumQ l| ≤ |(maAcc l).val - sumVal (maProds l)| + |sumVal (maProds l) - wsumQ l| := by
    have := abs_add_le ((maAcc l).val - sumVal (maProds l)) (sumVal (maProds l) - wsumQ l)
    rwa [sub_add_sub_cancel] at this
  have b : (P - 1) * sumAbs (maProds l) ≤ (P - 1) * ((1 + u) * wabsQ l + l.length * η) :=
    mul_le_mul_of_nonneg_left h2 (by linarith)
  have e : (1 + u) ^ (l.length + 1) = P * (1 + u) := by rw [pow_succ]
  rw [e]
  have fin : (P - 1) * ((1 + u) * wabsQ l + l.length * η) + (u * wabsQ l + l.length * η)
      = (P * (1 + u) - 1) * wabsQ l + l.length * P * η := by ring
  linarith

/-- exact convexity of the weighted sum (`ℚ`): non-negative weights, values in `[lo, hi]` -/
theorem wsumQ_bounds (l : List (SF × SF)) (lo hi : ℚ) (hw : ∀ p ∈ l, 0 ≤ p.2.val)
    (hv : ∀ p ∈ l, lo ≤ p.1.val ∧ p.1.val ≤ hi) :
    0 ≤ wtotQ l ∧ lo * wtotQ l ≤ wsumQ l ∧ wsumQ l ≤ hi * wtotQ l ∧ wabsQ l ≤ max |lo| |hi| * wtotQ l := by
  induction l with
  | nil => simp
  | cons p l ih =>
    obtain ⟨h0, h1, h2, h3⟩ := ih (fun q hq => hw q (List.mem_cons_of_mem _ hq))
      (fun q hq => hv q (List.mem_cons_of_mem _ hq))
    have hp := hw p (List.mem_cons_self ..)
    obtain ⟨hl, hh⟩ := hv p (List.mem_cons_self ..)
    have e1 := mul_le_mul_of_nonneg_right hl hp
    have e2 := mul_le_mul_of_nonneg_right hh hp
    have hA : |p.1.val| ≤ max |lo| |hi| := by
      apply abs_le.2
      have a1 := neg_abs_le lo
      have a2 := le_abs_self hi
      have a3 := le_max_left |lo| |hi|
      have a4 := le_max_right |lo| |hi|
      constructor <;> linarith
    have e3 : |p.1.val * p.2.val| ≤ max |lo| |hi| * p.2.val := by
      rw [abs_mul, abs_of_nonneg hp]; exact mul_le_mul_of_nonneg_right hA hp
    simp only [wsumQ_cons, wabsQ_cons, wtotQ_cons]
    refine ⟨by linarith, by linarith, by linarith, by linarith⟩

/-- **the accumulated sum, binary32**: `n` window entries with non-negative weights `wᵢ` (sum `S`) and values in `[lo, hi]`:
`lo·S − B ≤ fl(Σ) ≤ hi·S + B`, `B = ((1+u)^(n+1) − 1)·max(|lo|,|hi|)·S + n·(1+u)^n·η` -/
theorem ma_accumulate_bounds (l : List (SF × SF)) (lo hi : SF) (hw : ∀ p ∈ l, (c0 : SF) ≤ p.2)
    (hv : ∀ p ∈ l, lo ≤ p.1 ∧ p.1 ≤ hi) :
    lo.val * wtotQ l - (((1 + u) ^ (l.length + 1) - 1) * (max |lo.val| |hi.val| * wtotQ l)
        + l.length * (1 + u) ^ l.length * η) ≤ (maAcc l).val ∧
    (maAcc l).val ≤ hi.val * wtotQ l + (((1 + u) ^ (l.length + 1) - 1) * (max |lo.val| |hi.val| * wtotQ l)
        + l.length * (1 + u) ^ l.length * η) := by
  have hw' : ∀ p ∈ l, 0 ≤ p.2.val := fun p hp => by
    have := (le_def _ _).1 (hw p hp); rwa [c0_val] at this
  obtain ⟨_, h1, h2, h3⟩ := wsumQ_bounds l lo.val hi.val hw' hv
  obtain ⟨e1, e2⟩ := abs_le.1 (ma_accumulate_err l)
  have := mul_le_mul_of_nonneg_left h3 (pow_sub_one_nonneg (l.length + 1))
  constructor <;> linarith

/-- the arithmetic of the final division, over `ℚ` -/
theorem ma_div_arith (A lo hi W S X acc res P1 c ε : ℚ) (hW : 0 < W) (hS0 : 0 ≤ S)
    (hlo : |lo| ≤ A) (hhi : |hi| ≤ A) (hP1 : 0 ≤ P1) (hc : 0 ≤ c) (hSε : |S - W| ≤ ε * W)
    (hX1 : lo * S ≤ X) (hX2 : X ≤ hi * S) (hXabs : |X| ≤ A * S)
    (hacc : |acc - X| ≤ P1 * (A * S) + c * η) (hres : |res - acc / W| ≤ u * |acc / W| + η) :
    lo - (((1 + ε) * ((1 + u) * (1 + P1)) - 1) * A + ((1 + u) * c / W + 1) * η) ≤ res ∧
    res ≤ hi + (((1 + ε) * ((1 + u) * (1 + P1)) - 1) * A + ((1 + u) * c / W + 1) * η) := by
  have hu := u_nonneg
  have hη := η_nonneg
  have hA : 0 ≤ A := le_trans (abs_nonneg _) hlo
  -- everything relative to `W`
  obtain ⟨ρ, hρ⟩ : ∃ ρ, S = ρ * W := ⟨S / W, by field_simp⟩
  obtain ⟨Xw, hXw⟩ : ∃ Xw, X = Xw * W := ⟨X / W, by field_simp⟩
  obtain ⟨κ, hκ⟩ : ∃ κ, c * η = κ * W := ⟨c * η / W, by field_simp⟩
  have hκe : (1 + u) * c / W * η = (1 + u) * κ := by
    have : κ = c * η / W := by rw [hκ]; field_simp
    rw [this]; ring
  set q := acc / W with hq
  have hqW : acc = q * W := by rw [hq]; field_simp
  subst hρ; subst hXw
  have hρ0 : 0 ≤ ρ := by
    by_contra h
    have : ρ * W < 0 := mul_neg_of_neg_of_pos (not_le.1 h) hW
    linarith
  have hκ0 : 0 ≤ κ := by
    by_contra h
    have : κ * W < 0 := mul_neg_of_neg_of_pos (not_le.1 h) hW
    have := mul_nonneg hc hη
    linarith
  obtain ⟨s1, s2⟩ := abs_le.1 hSε
  have r1 : ρ - 1 ≤ ε := le_of_mul_le_mul_right (by linarith) hW
  have r2 : -ε ≤ ρ - 1 := le_of_mul_le_mul_right (by linarith) hW
  have hε0 : 0 ≤ ε := by linarith
  have x1 : lo * ρ ≤ Xw := le_of_mul_le_mul_right (by linarith) hW
  have x2 : Xw ≤ hi * ρ := le_of_mul_le_mul_right (by linarith) hW
  obtain ⟨xa1, xa2⟩ := abs_le.1 hXabs
  have x3 : Xw ≤ A * ρ := le_of_mul_le_mul_right (by linarith) hW
  have x4 : -(A * ρ) ≤ Xw := le_of_mul_le_mul_right (by linarith) hW
  rw [hqW, hκ] at hacc
  obtain ⟨a1, a2⟩ := abs_le.1 hacc
  have q1 : q - Xw ≤ P1 * (A * ρ) + κ := le_of_mul_le_mul_right (by linarith) hW
  have q2 : -(P1 * (A * ρ) + κ) ≤ q - Xw := le_of_mul_le_mul_right (by linarith) hW
  have hAρ : 0 ≤ A * ρ := mul_nonneg hA hρ0
  have hPAρ : 0 ≤ P1 * (A * ρ) := mul_nonneg hP1 hAρ
  have qabs : |q| ≤ A * ρ + (P1 * (A * ρ) + κ) := abs_le.2 ⟨by linarith, by linarith⟩
  have rr : |res - q| ≤ u * (A * ρ + (P1 * (A * ρ) + κ)) + η :=
    le_trans hres (by linarith [mul_le_mul_of_nonneg_left qabs hu])
  obtain ⟨rr1, rr2⟩ := abs_le.1 rr
  -- the interval end points move by at most `A·ε`
  have hlo' : lo - A * ε ≤ lo * ρ := by
    have : |lo * (ρ - 1)| ≤ A * ε := by
      rw [abs_mul]; exact mul_le_mul hlo (abs_le.2 ⟨r2, r1⟩) (abs_nonneg _) hA
    linarith [neg_abs_le (lo * (ρ - 1))]
  have hhi' : hi * ρ ≤ hi + A * ε := by
    have : |hi * (ρ - 1)| ≤ A * ε := by
      rw [abs_mul]; exact mul_le_mul hhi (abs_le.2 ⟨r2, r1⟩) (abs_nonneg _) hA
    linarith [le_abs_self (hi * (ρ - 1))]
  have hK : 0 ≤ P1 + u + u * P1 := by positivity
  have hk : (P1 + u + u * P1) * (A * ρ) ≤ (P1 + u + u * P1) * (A * (1 + ε)) :=
    mul_le_mul_of_nonneg_left (mul_le_mul_of_nonneg_left (by linarith) hA) hK
  have key : ((1 + ε) * ((1 + u) * (1 + P1)) - 1) * A + ((1 + u) * c / W + 1) * η
      = A * ε + (P1 + u + u * P1) * (A * (1 + ε)) + (1 + u) * κ + η := by
    rw [add_mul ((1 + u) * c / W) 1 η, hκe]; ring
  rw [key]
  constructor <;> linarith

/-- **moving average, binary32, general form**: `n` window entries `(vᵢ, wᵢ)` with `wᵢ ≥ 0`, `vᵢ ∈ [lo, hi]`; the divisor `W > 0`
(the rounded window length) agrees with the exact sum `S` of the rounded weights up to a relative `ε`.  Then the value
`fl(fl(Σ fl(vᵢ·wᵢ)) / W)` the stream outputs lies in `[lo − δ, hi + δ]`,
`δ = ((1+ε)·(1+u)^(n+2) − 1)·max(|lo|,|hi|) + (n·(1+u)^(n+1)/W + 1)·η`.
(The `η/W` term is real: underflow errors of the products are amplified by the division by a short window.) -/
theorem ma_value_bounds_binary32_gen (l : List (SF × SF)) (W lo hi : SF) (ε : ℚ) (hW : (c0 : SF) < W)
    (hw : ∀ p ∈ l, (c0 : SF) ≤ p.2) (hv : ∀ p ∈ l, lo ≤ p.1 ∧ p.1 ≤ hi)
    (hsum : |wtotQ l - W.val| ≤ ε * W.val) :
    lo.val - (((1 + ε) * (1 + u) ^ (l.length + 2) - 1) * max |lo.val| |hi.val|
        + (l.length * (1 + u) ^ (l.length + 1) / W.val + 1) * η) ≤ (divF (maAcc l) W).val ∧
    (divF (maAcc l) W).val ≤ hi.val + (((1 + ε) * (1 + u) ^ (l.length + 2) - 1) * max |lo.val| |hi.val|
        + (l.length * (1 + u) ^ (l.length + 1) / W.val + 1) * η) := by
  have hW' : (0:ℚ) < W.val := by have := (lt_def _ _).1 hW; rwa [c0_val] at this
  have hw' : ∀ p ∈ l, 0 ≤ p.2.val := fun p hp => by
    have := (le_def _ _).1 (hw p hp); rwa [c0_val] at this
  obtain ⟨h0, h1, h2, h3⟩ := wsumQ_bounds l lo.val hi.val hw' hv
  have hXabs : |wsumQ l| ≤ max |lo.val| |hi.val| * wtotQ l := le_trans (abs_wsumQ_le l) h3
  have hacc : |(maAcc l).val - wsumQ l| ≤ ((1 + u) ^ (l.length + 1) - 1) * (max |lo.val| |hi.val| * wtotQ l)
      + (l.length * (1 + u) ^ l.length) * η :=
    le_trans (ma_accumulate_err l) (by
      have := mul_le_mul_of_nonneg_left h3 (pow_sub_one_nonneg (l.length + 1)); linarith)
  have hres : |(divF (maAcc l) W).val - (maAcc l).val / W.val| ≤ u * |(maAcc l).val / W.val| + η := div_err _ _
  have hc : (0:ℚ) ≤ l.length * (1 + u) ^ l.length := by
    have := one_le_pow l.length; positivity
  have h := ma_div_arith (max |lo.val| |hi.val|) lo.val hi.val W.val (wtotQ l) (wsumQ l) (maAcc l).val
    (divF (maAcc l) W).val ((1 + u) ^ (l.length + 1) - 1) (l.length * (1 + u) ^ l.length) ε hW' h0
    (le_max_left _ _) (le_max_right _ _) (pow_sub_one_nonneg _) hc hsum h1 h2 hXabs hacc hres
  have e1 : (1 + u) * (1 + ((1 + u) ^ (l.length + 1) - 1)) = (1 + u) ^ (l.length + 2) := by ring
  have e2 : (1 + u) * (↑l.length * (1 + u) ^ l.length) = ↑l.length * (1 + u) ^ (l.length + 1) := by ring
  rw [e1, e2] at h
  exact h

/-- **moving average, binary32**: non-negative weights summing (exactly, as rationals) to the divisor `W`:
the output lies in `[lo − δₙ, hi + δₙ]`, `δₙ = ((1+u)^(n+2) − 1)·max(|lo|,|hi|) + (n·(1+u)^(n+1)/W + 1)·η`. -/
theorem ma_value_bounds_binary32 (l : List (SF × SF)) (W lo hi : SF) (hW : (c0 : SF) < W)
    (hw : ∀ p ∈ l, (c0 : SF) ≤ p.2) (hv : ∀ p ∈ l, lo ≤ p.1 ∧ p.1 ≤ hi) (hsum : wtotQ l = W.val) :
    lo.val - (((1 + u) ^ (l.length + 2) - 1) * max |lo.val| |hi.val|
        + (l.length * (1 + u) ^ (l.length + 1) / W.val + 1) * η) ≤ (divF (maAcc l) W).val ∧
    (divF (maAcc l) W).val ≤ hi.val + (((1 + u) ^ (l.length + 2) - 1) * max |lo.val| |hi.val|
        + (l.length * (1 + u) ^ (l.length + 1) / W.val + 1) * η) := by
  have h := ma_value_bounds_binary32_gen l W lo hi 0 hW hw hv (by rw [hsum]; simp)
  simpa using h


/-! ### the model's weights: `secs n = fl(fl(n) / 1e9)`, and one whole update of the stream -/

theorem secs_val (n : Int) : (secs n : SF).val = rne32 (rne32 (n : ℚ) / 1000000000) := by
  show rne32 ((FloatLike.ofInt n : SF).val / (c1e9 : SF).val) = _
  rw [ofInt_val, c1e9_val]

theorem secs_nonneg_binary32 (n : Int) (hn : 0 ≤ n) : (c0 : SF) ≤ secs n := by
  rw [le_def, c0_val, secs_val]
  apply rne32_nonneg
  have : (0:ℚ) ≤ rne32 (n : ℚ) := rne32_nonneg _ (by exact_mod_cast hn)
  positivity

/-- two roundings, both in the normal range: a duration of `n ≥ 0` nanoseconds converted to seconds carries a relative
error below `(1+u)^2 − 1` -/
theorem secs_bounds (n : Int) (hn : 0 ≤ n) :
    (n : ℚ) / 1000000000 * (1 - u) ^ 2 ≤ (secs n : SF).val ∧ (secs n : SF).val ≤ (n : ℚ) / 1000000000 * (1 + u) ^ 2 := by
  rw [secs_val]
  rcases eq_or_lt_of_le hn with h0 | hpos
  · subst h0; simp [rne32_zero]
  · have hn1 : (1:ℚ) ≤ (n:ℚ) := by exact_mod_cast hpos
    have hu := u_nonneg
    have hs := u_small
    have hsmall : (2:ℚ) ^ (-126:ℤ) ≤ 1 / 2000000000 := by norm_num
    have e1 := rne32_err_normal (n:ℚ) (by
      rw [abs_of_nonneg (by linarith)]; exact le_trans hsmall (by linarith))
    rw [abs_of_nonneg (by linarith : (0:ℚ) ≤ n)] at e1
    obtain ⟨a1, a2⟩ := abs_le.1 e1
    set a := rne32 (n:ℚ) with ha
    have ha0 : (1:ℚ) / 2 ≤ a := by nlinarith
    set y := a / 1000000000 with hy
    have hy0 : (1:ℚ) / 2000000000 ≤ y := by rw [hy]; linarith
    have e2 := rne32_err_normal y (by
      rw [abs_of_nonneg (by linarith)]; exact le_trans hsmall hy0)
    rw [abs_of_nonneg (by linarith : (0:ℚ) ≤ y)] at e2
    obtain ⟨b1, b2⟩ := abs_le.1 e2
    have y1 : (n:ℚ) / 1000000000 * (1 - u) ≤ y := by rw [hy]; linarith
    have y2 : y ≤ (n:ℚ) / 1000000000 * (1 + u) := by rw [hy]; linarith
    have hu1 : 0 ≤ 1 - u := by linarith
    have m1 := mul_le_mul_of_nonneg_right y1 hu1
    have m2 := mul_le_mul_of_nonneg_right y2 (by linarith : 0 ≤ 1 + u)
    constructor
    · have : (n:ℚ) / 1000000000 * (1 - u) ^ 2 = (n:ℚ) / 1000000000 * (1 - u) * (1 - u) := by ring
      rw [this]; linarith
    · have : (n:ℚ) / 1000000000 * (1 + u) ^ 2 = (n:ℚ) / 1000000000 * (1 + u) * (1 + u) := by ring
      rw [this]; linarith

/-- the same for a list of non-negative durations -/
theorem sum_secs_bounds (ns : List Int) (h : ∀ n ∈ ns, 0 ≤ n) :
    (ns.sum : ℚ) / 1000000000 * (1 - u) ^ 2 ≤ (ns.map (fun n => (secs n : SF).val)).sum ∧
    (ns.map (fun n => (secs n : SF).val)).sum ≤ (ns.sum : ℚ) / 1000000000 * (1 + u) ^ 2 := by
  induction ns with
  | nil => simp
  | cons n ns ih =>
    obtain ⟨h1, h2⟩ := ih (fun m hm => h m (List.mem_cons_of_mem _ hm))
    obtain ⟨b1, b2⟩ := secs_bounds n (h n (List.mem_cons_self ..))
    simp only [List.map_cons, List.sum_cons]
    push_cast
    constructor
    · have : ((n:ℚ) + (ns.sum : ℚ)) / 1000000000 * (1 - u) ^ 2
          = (n:ℚ) / 1000000000 * (1 - u) ^ 2 + (ns.sum : ℚ) / 1000000000 * (1 - u) ^ 2 := by ring
      rw [this]; linarith
    · have : ((n:ℚ) + (ns.sum : ℚ)) / 1000000000 * (1 + u) ^ 2
          = (n:ℚ) / 1000000000 * (1 + u) ^ 2 + (ns.sum : ℚ) / 1000000000 * (1 + u) ^ 2 := by ring
      rw [this]; linarith

/-- relative mismatch between the sum of the rounded weights and the rounded window length: `4u/(1−u)^2 ≈ 2.4·10⁻⁷` -/
def maEps : ℚ := 4 * u / (1 - u) ^ 2

theorem maEps_le : maEps ≤ 5 * u := by
  unfold maEps
  have hu := u_nonneg
  have hs := u_small
  have h0 : 0 < 1 - u := by linarith
  have h1 : (0:ℚ) < (1 - u) ^ 2 := by positivity
  rw [div_le_iff₀ h1]
  have : (4:ℚ) / 5 ≤ (1 - u) ^ 2 := by nlinarith
  nlinarith

/-- non-negative integer weights that sum to `window > 0`: their `f32` images sum to the `f32` image of the window up to
the relative `maEps` -/
theorem weights_sum_close (ns : List Int) (window : Int) (hw : 0 < window) (h : ∀ n ∈ ns, 0 ≤ n)
    (hsum : ns.sum = window) :
    (c0 : SF) < secs window ∧
    |(ns.map (fun n => (secs n : SF).val)).sum - (secs window : SF).val| ≤ maEps * (secs window : SF).val := by
  obtain ⟨s1, s2⟩ := sum_secs_bounds ns h
  obtain ⟨w1, w2⟩ := secs_bounds window hw.le
  rw [hsum] at s1 s2
  have hu := u_nonneg
  have hs := u_small
  have hu1 : 0 < 1 - u := by linarith
  have hT : (0:ℚ) < (window : ℚ) / 1000000000 := by
    have : (0:ℚ) < (window:ℚ) := by exact_mod_cast hw
    positivity
  set T := (window : ℚ) / 1000000000 with hTdef
  have hWpos : 0 < (secs window : SF).val := lt_of_lt_of_le (by positivity) w1
  refine ⟨by rw [lt_def, c0_val]; exact hWpos, ?_⟩
  have h4 : T * (1 + u) ^ 2 - T * (1 - u) ^ 2 = 4 * u * T := by ring
  have hE : 4 * u * T ≤ maEps * (secs window : SF).val := by
    have : 4 * u * T = maEps * (T * (1 - u) ^ 2) := by
      unfold maEps; field_simp
    rw [this]
    apply mul_le_mul_of_nonneg_left w1
    unfold maEps; positivity
  apply abs_le.2
  constructor <;> linarith

theorem maTerms_length (cut : Int) (q : List (Datum SF)) : (maTerms (F := SF) cut q).length = q.length := by
  simp [maTerms, weightsNs_length]

theorem wtotQ_maTerms (cut : Int) (q : List (Datum SF)) :
    wtotQ (maTerms (F := SF) cut q) = ((Ma.weightsNs cut q).map (fun n => (secs n : SF).val)).sum := by
  have h := (maTerms_eq (F := SF) cut q).2
  have : wtotQ (maTerms (F := SF) cut q) = (((maTerms (F := SF) cut q).map Prod.snd).map (fun t => t.val)).sum := by
    simp [wtotQ, List.map_map, Function.comp_def]
  rw [this, h, List.map_map]; rfl

/-- the rounding-error budget of one moving-average update: `n` samples in the window, magnitudes at most `A`,
rounded window length `W` (seconds) -/
def maDelta (n : ℕ) (A W : ℚ) : ℚ :=
  ((1 + maEps) * (1 + u) ^ (n + 2) - 1) * A + (n * (1 + u) ^ (n + 1) / W + 1) * η

/-- **C2 core at binary32**: for a window queue, the `f32` moving average `fl(fl(Σ fl(vᵢ·wᵢ))/W)` with the model's own weights
`wᵢ = fl(fl(nsᵢ)/1e9)`, `W = fl(fl(window)/1e9)` lies within `maDelta` of any bounds of the samples in the window.
No hypothesis about the weights is left: `wᵢ ≥ 0` and `|Σwᵢ − W| ≤ maEps·W` are proved. -/
theorem ma_value_convex_binary32 (window : Int) (hw : 0 < window) (o : Datum SF) (q : List (Datum SF))
    (h : WinQueue window o q) (lo hi : SF) (hb : ∀ d ∈ q, lo ≤ d.value ∧ d.value ≤ hi) :
    Ma.accumulate scaleF addF (some (c0 : SF)) (maTerms (o.time - window) q) =
      .ok (some (maAcc (maTerms (o.time - window) q))) ∧
    lo.val - maDelta q.length (max |lo.val| |hi.val|) (secs window : SF).val
      ≤ (divF (maAcc (maTerms (o.time - window) q)) (secs window)).val ∧
    (divF (maAcc (maTerms (o.time - window) q)) (secs window)).val
      ≤ hi.val + maDelta q.length (max |lo.val| |hi.val|) (secs window : SF).val := by
  refine ⟨accumulate_binary32 _, ?_⟩
  have hnn := (ma_weights_nonneg window o q h).1
  obtain ⟨hWpos, hclose⟩ := weights_sum_close (Ma.weightsNs (o.time - window) q) window hw hnn
    (ma_weights_sum_window window o q h)
  rw [← wtotQ_maTerms] at hclose
  have hw0 : ∀ p ∈ maTerms (F := SF) (o.time - window) q, (c0 : SF) ≤ p.2 := by
    intro p hp
    have h2 := (List.of_mem_zip hp).2
    obtain ⟨n, hn, e⟩ := List.mem_map.1 h2
    rw [← e]; exact secs_nonneg_binary32 n (hnn n hn)
  have hv : ∀ p ∈ maTerms (F := SF) (o.time - window) q, lo ≤ p.1 ∧ p.1 ≤ hi := by
    intro p hp
    obtain ⟨d, hd, e⟩ := mem_maTerms _ _ p hp
    rw [e]; exact hb d hd
  have := ma_value_bounds_binary32_gen (maTerms (o.time - window) q) (secs window) lo hi maEps hWpos hw0 hv hclose
  rw [maTerms_length] at this
  exact this

/-- **C2, one update, binary32** (the rounded counterpart of `ma_convex`): on a present sample not older than a sorted
queue, the `f32` moving average outputs a binary32 number within `maDelta n A W` of the least and the greatest sample in
the window (`n` = number of samples in the window, `A` = the larger magnitude of the two bounds, `W` = the window in
seconds as the code computes it). -/
theorem ma_convex_binary32 (window : Int) (hw : 0 < window) (s : MaS SF) (o : Datum SF)
    (hsort : Sorted s.queue) (hle : ∀ d ∈ s.queue, d.time ≤ o.time) :
    ∃ x : SF, Ma.step scaleF addF divF (some (c0 : SF)) window s (.ok (some o)) =
        .ok (⟨.ok (some ⟨o.time, x⟩), maWindow window s.queue o⟩, .ok ()) ∧
      x = divF (maAcc (maTerms (o.time - window) (maWindow window s.queue o))) (secs window) ∧
      ∀ lo hi : SF, (∀ d ∈ maWindow window s.queue o, lo ≤ d.value ∧ d.value ≤ hi) →
        lo.val - maDelta (maWindow window s.queue o).length (max |lo.val| |hi.val|) (secs window : SF).val ≤ x.val ∧
        x.val ≤ hi.val + maDelta (maWindow window s.queue o).length (max |lo.val| |hi.val|) (secs window : SF).val := by
  obtain ⟨q, v, hacc, hstep, hwq, hq, _⟩ := ma_step_present_inv scaleF addF divF (some (c0 : SF)) window hw
    (fun _ => True) (fun _ => True) (fun _ _ _ => trivial) (fun a b _ _ => ⟨a + b, rfl, trivial⟩)
    (fun _ _ => trivial) s o (fun _ _ => trivial) trivial hsort hle
  subst hq
  rw [accumulate_binary32] at hacc
  injection hacc with hacc
  injection hacc with hacc
  subst hacc
  refine ⟨_, hstep, rfl, ?_⟩
  intro lo hi hb
  exact (ma_value_convex_binary32 window hw o _ hwq lo hi hb).2


/-- **C2, every history, binary32** (the rounded counterpart of `ma_convex_history`): after any non-decreasing history
followed by a present sample `o`, the `f32` moving average has not panicked and holds, at time `o.time`, a binary32 number
within `maDelta` of the least and the greatest of the samples received since the last error whose timestamp is newer than
`o.time − window`. -/
theorem ma_convex_history_binary32 (window : Int) (hw : 0 < window) (pre : List (Output SF)) (o : Datum SF)
    (hmono : NonDecr (pre ++ [.ok (some o)])) :
    ∃ (s : MaS SF) (x : SF),
      runE (Ma.step scaleF addF divF (some (c0 : SF)) window) Ma.init (pre ++ [.ok (some o)]) = .ok s ∧
      Ma.get s = .ok (some ⟨o.time, x⟩) ∧
      s.queue = (sinceReset [] pre ++ [o]).filter (fun d => decide (o.time - window < d.time)) ∧
      x = divF (maAcc (maTerms (o.time - window) s.queue)) (secs window) ∧
      ∀ lo hi : SF, (∀ d ∈ sinceReset [] pre ++ [o], o.time - window < d.time → lo ≤ d.value ∧ d.value ≤ hi) →
        lo.val - maDelta s.queue.length (max |lo.val| |hi.val|) (secs window : SF).val ≤ x.val ∧
        x.val ≤ hi.val + maDelta s.queue.length (max |lo.val| |hi.val|) (secs window : SF).val := by
  obtain ⟨s, v, hrun, hval, hacc, hwq⟩ := ma_queue_invariant scaleF addF divF (some (c0 : SF)) window hw
    (fun _ => True) (fun _ => True) (fun _ _ _ => trivial) (fun a b _ _ => ⟨a + b, rfl, trivial⟩)
    (fun _ _ => trivial) pre o (fun _ _ => trivial) hmono
  obtain ⟨hq, hsr⟩ := ma_queue_is_window scaleF addF divF (some (c0 : SF)) window hw pre o hmono s hrun
  rw [hsr] at hq
  rw [accumulate_binary32] at hacc
  injection hacc with hacc
  injection hacc with hacc
  subst hacc
  refine ⟨s, _, hrun, hval, hq, rfl, ?_⟩
  intro lo hi hb
  refine (ma_value_convex_binary32 window hw o _ hwq lo hi ?_).2
  intro d hd
  rw [hq] at hd
  obtain ⟨hd1, hd2⟩ := List.mem_filter.1 hd
  exact hb d hd1 (by simpa using hd2)

theorem maEps_nonneg : 0 ≤ maEps := by
  unfold maEps
  have := u_nonneg
  positivity

/-- a readable budget: for up to `2^23 − 2` samples in the window,
`maDelta n A W ≤ (2n + 14)·u·A + (2n/W + 1)·η` -/
theorem maDelta_le (n : ℕ) (A W : ℚ) (hA : 0 ≤ A) (hW : 0 < W) (hn : ((n + 2 : ℕ) : ℚ) * u ≤ 1 / 2) :
    maDelta n A W ≤ (2 * n + 14) * u * A + (2 * n / W + 1) * η := by
  unfold maDelta
  obtain ⟨hP2, hX⟩ := pow_sub_one_le (n + 2) hn
  have hP1 : (1 + u) ^ (n + 1) ≤ 2 := le_trans (pow_mono (by omega)) hP2
  have hε := maEps_le
  have hε0 := maEps_nonneg
  have hu := u_nonneg
  have hη := η_nonneg
  set X := (1 + u) ^ (n + 2) - 1 with hXdef
  have hX0 : 0 ≤ X := pow_sub_one_nonneg _
  have hX1 : X ≤ 1 := by linarith
  have e : (1 + maEps) * (1 + u) ^ (n + 2) - 1 = maEps + X + maEps * X := by rw [hXdef]; ring
  have hX' : X ≤ 2 * (n + 2) * u := by have := hX; push_cast at this; linarith
  have c1' : maEps + X + maEps * X ≤ (2 * n + 14) * u := by
    have : maEps * X ≤ 5 * u * 1 := mul_le_mul hε hX1 hX0 (by linarith)
    linarith
  have t1 := mul_le_mul_of_nonneg_right c1' hA
  have hn0 : (0:ℚ) ≤ n := Nat.cast_nonneg n
  have c2' : (n:ℚ) * (1 + u) ^ (n + 1) / W ≤ 2 * n / W := by
    apply div_le_div_of_nonneg_right _ hW.le
    nlinarith
  have t2 := mul_le_mul_of_nonneg_right (by linarith : (n:ℚ) * (1 + u) ^ (n + 1) / W + 1 ≤ 2 * n / W + 1) hη
  rw [e]; linarith

namespace RoundingExamples
/-- non-vacuity of `ma_value_bounds_binary32` / `ma_accumulate_bounds`: values `1.5` and `2^24` with weights `0.5`, `0.5`,
divisor `1.0` -/
example : (c0 : SF) < c1 ∧ (∀ p ∈ [(x1_5, (chalf : SF)), (x2p24, chalf)], (c0 : SF) ≤ p.2) ∧
    (∀ p ∈ [(x1_5, (chalf : SF)), (x2p24, chalf)], x1_5 ≤ p.1 ∧ p.1 ≤ x2p24) ∧
    wtotQ [(x1_5, (chalf : SF)), (x2p24, chalf)] = (c1 : SF).val := by
  have h : x1_5 ≤ x2p24 := by
    rw [le_def, x2p24_val]; show ((3:ℤ):ℚ) * (2:ℚ) ^ (-1:ℤ) ≤ _; norm_num
  have hh : (c0 : SF) ≤ chalf := by rw [le_def, c0_val, chalf_val]; norm_num
  refine ⟨by rw [lt_def, c0_val, c1_val]; norm_num, ?_, ?_, ?_⟩
  · intro p hp; simp at hp; rcases hp with rfl | rfl <;> exact hh
  · intro p hp; simp at hp
    rcases hp with rfl | rfl
    · exact ⟨le_refl' _, h⟩
    · exact ⟨h, le_refl' _⟩
  · simp only [wtotQ, List.map_cons, List.map_nil, List.sum_cons, List.sum_nil]
    rw [chalf_val, c1_val]; norm_num

/-- non-vacuity of `ma_convex_binary32` / `ma_convex_history_binary32`: two samples `1.0` at 1 ns and 3 ns, window 3 ns -/
example : Sorted ([⟨1, (c1 : SF)⟩] : List (Datum SF)) ∧ ∀ d ∈ ([⟨1, (c1 : SF)⟩] : List (Datum SF)), d.time ≤ 3 := by
  refine ⟨List.pairwise_singleton _ _, ?_⟩
  intro d hd; simp at hd; subst hd; decide
example : NonDecr ([.ok (some ⟨1, (c1 : SF)⟩)] ++ [.ok (some ⟨3, (c1 : SF)⟩)]) := by
  simp [NonDecr, presentTimes]

/-- the number the `f32` moving average shows after the constant history `1.0, 1.0` (1 ns, 3 ns; window 3 ns) -/
def constVal : Option (Int × ℚ) :=
  match runE (Ma.step scaleF addF divF (some (c0 : SF)) 3) Ma.init
      [.ok (some ⟨1, (c1 : SF)⟩), .ok (some ⟨3, (c1 : SF)⟩)] with
  | .ok s => (match Ma.get s with | .ok (some d) => some (d.time, d.value.val) | _ => none)
  | .error _ => none
/-- **a constant input is NOT reproduced exactly by the moving average either**: the constant `1.0` comes out as
`1 − 2^-24` (the weights `fl(1e-9)`, `fl(2e-9)` do not add up to `fl(3e-9)`), inside the proved budget. -/
theorem ma_constant_not_exact : constVal = some (3, 16777215 / 16777216) := by decide +kernel
/-- non-vacuity of `ewma_fold_bounds_binary32`: start `1.5`, then samples `2^24` (weight `≈ 0.2432`) and `1.5` (weight `0.5`),
all inside `[3/2, 2^24]` -/
example : (∀ x ∈ [(x2p24, lam), (x1_5, (chalf : SF))],
      (c0 : SF) ≤ x.2 ∧ x.2 ≤ c1 ∧ (3 / 2 : ℚ) ≤ x.1.val ∧ x.1.val ≤ 16777216) ∧
    (3 / 2 : ℚ) ≤ x1_5.val ∧ x1_5.val ≤ 16777216 := by
  have h15 : x1_5.val = 3 / 2 := by show ((3:ℤ):ℚ) * (2:ℚ) ^ (-1:ℤ) = 3 / 2; norm_num
  refine ⟨?_, by rw [h15], by rw [h15]; norm_num⟩
  intro x hx
  simp at hx
  rcases hx with rfl | rfl
  · exact ⟨lam_range.1, lam_range.2, by rw [x2p24_val]; norm_num, by rw [x2p24_val]⟩
  · refine ⟨?_, ?_, by rw [h15], by rw [h15]; norm_num⟩
    · rw [le_def, c0_val, chalf_val]; norm_num
    · rw [le_def, c1_val, chalf_val]; norm_num
/-- non-vacuity of `ewma_constant_two_u_binary32`: `c = 1 + 2^-23` is in the normal range -/
example : (2:ℚ) ^ (-126:ℤ) ≤ |cSucc1.val| := by rw [cSucc1_val]; norm_num
end RoundingExamples

end Rrtk.Thm.C12
