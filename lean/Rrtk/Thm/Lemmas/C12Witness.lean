/-
C12: a NON-degenerate witness for the `powf` hypotheses of `ewma_convex`, `ewma_convex_history`, `ewma_constant`.

Those theorems are stated for any exact scalar `F` (`[FloatLike F] [ExactScalar F]` are instance ARGUMENTS, not the global
`ℚ` instance), under `hpr : b ∈ [0,1], d ≥ 0 ⇒ powf b d ∈ [0,1]` (and `hp0 : powf b 0 = 1` for `ewma_first_sample_lambda`).
The `ℚ` instance of `Lemmas/Exact.lean` has `powf ≡ 1`, for which the filter never moves (`L = 0`).  Here `QP` is a copy of
`ℚ` whose `powf b d = b ^ ⌈d⌉₊` — the true power at every whole number of seconds, not constant — and `hp0`, `hpr` are
PROVED for it; with it the filter output moves strictly between two different samples.
-/
import Rrtk.Thm.C12
import Mathlib.Data.Rat.Floor
import Mathlib.Tactic.NormNum
set_option linter.unusedSectionVars false
set_option linter.unusedSimpArgs false
namespace Rrtk.Thm.C12
open Rrtk

/-- the rationals with `powf b d = b ^ ⌈d⌉₊` -/
def QP : Type := ℚ
instance : Field QP := inferInstanceAs (Field ℚ)
instance : LinearOrder QP := inferInstanceAs (LinearOrder ℚ)
instance : IsStrictOrderedRing QP := inferInstanceAs (IsStrictOrderedRing ℚ)
/-- `powf` of the witness scalar -/
def powfW (b d : ℚ) : ℚ := b ^ ⌈d⌉₊
instance : FloatLike QP := ⟨fun n => (n : ℚ), fun q => Rat.num q / Rat.den q, powfW, fun x => |(x : ℚ)|⟩
instance : ExactScalar QP := ⟨fun _ => rfl, fun _ => rfl⟩

/-- `hp0` holds for the witness -/
theorem powfW_zero : ∀ b : QP, FloatLike.powf b (0 : QP) = 1 := by
  intro b
  show (b : ℚ) ^ ⌈(0 : ℚ)⌉₊ = 1
  rw [Nat.ceil_zero, pow_zero]

/-- `hpr` holds for the witness -/
theorem powfW_range : ∀ b d : QP, 0 ≤ b → b ≤ 1 → 0 ≤ d → 0 ≤ FloatLike.powf b d ∧ FloatLike.powf b d ≤ 1 := by
  intro b d hb0 hb1 _
  show (0 : ℚ) ≤ powfW b d ∧ powfW b d ≤ 1
  exact ⟨pow_nonneg hb0 _, pow_le_one₀ hb0 hb1⟩

/-- … and it is not constant: `(1/2)^1 = 1/2`, `(1/2)^2 = 1/4` -/
theorem powfW_nonconstant : FloatLike.powf (1 / 2 : QP) (1 : QP) = 1 / 2 ∧ FloatLike.powf (1 / 2 : QP) (2 : QP) = 1 / 4 := by
  constructor
  · show powfW (1 / 2) 1 = 1 / 2
    simp [powfW]
  · show powfW (1 / 2) 2 = 1 / 4
    have : ⌈(2 : ℚ)⌉₊ = 2 := by exact_mod_cast Nat.ceil_natCast (R := ℚ) 2
    rw [powfW, this]; norm_num

/-- the weight of a sample one second after the previous one, smoothing `1/2`: `L = 1/2` (not `0`) -/
theorem ewmaLambda_witness : ewmaLambda (1 / 2 : QP) 1000000000 = 1 / 2 := by
  have hs : (secs 1000000000 : QP) = 1 := by rw [secs_eq]; norm_num
  have hb : (1 : QP) - 1 / 2 = 1 / 2 := by norm_num
  simp only [ewmaLambda, c1_eq, hs, hb, powfW_nonconstant.1]

/-- **`ewma_convex` exercised non-degenerately**: smoothing `1/2`, held value `0` at `t = 0`, sample `4` at `t = 1 s`.
The update returns `2` — strictly between the two samples — and the conclusions of `ewma_convex` (with `hpr` discharged by
`powfW_range`) are what pins it there. -/
theorem ewma_moves_strictly :
    Ewma.step scaleF addF (1 / 2 : QP) ⟨.ok (some ⟨0, 0⟩), some 0⟩ (.ok (some ⟨1000000000, 4⟩)) =
      .ok (⟨.ok (some ⟨1000000000, 2⟩), some 1000000000⟩, .ok ()) ∧ (0 : QP) < 2 ∧ (2 : QP) < 4 := by
  obtain ⟨x, hstep, hx, hlo, hhi, _⟩ := ewma_convex (1 / 2 : QP) (by norm_num) (by norm_num) powfW_range
    ⟨.ok (some ⟨0, 0⟩), some 0⟩ ⟨1000000000, 4⟩ ⟨0, 0⟩ 0 rfl rfl (by decide)
  have e : (⟨1000000000, 4⟩ : Datum QP).time - 0 = 1000000000 := rfl
  rw [e, ewmaLambda_witness] at hx
  have hx2 : x = 2 := by rw [hx]; norm_num
  rw [hx2] at hstep
  exact ⟨hstep, by norm_num, by norm_num⟩

/-- the history version on a two-sample history: the hypotheses hold and the held value `2` is inside `[0, 4]` -/
example : ∃ s', runE (Ewma.step scaleF addF (1 / 2 : QP)) Ewma.init
      [.ok (some ⟨0, 0⟩), .ok (some ⟨1000000000, 4⟩)] = .ok s' ∧
    ∀ v, Ewma.get s' = .ok (some v) → (0 : QP) ≤ v.value ∧ v.value ≤ 4 := by
  obtain ⟨s', hrun, hb⟩ := ewma_convex_history (1 / 2 : QP) (by norm_num) (by norm_num) powfW_range
    [.ok (some ⟨0, 0⟩), .ok (some ⟨1000000000, 4⟩)] (by unfold NonDecr; decide)
  refine ⟨s', hrun, fun v hv => hb v hv 0 4 ?_⟩
  intro d hd
  simp [sinceReset] at hd
  rcases hd with rfl | rfl <;> norm_num

end Rrtk.Thm.C12
