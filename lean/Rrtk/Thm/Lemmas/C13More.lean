/-
C13, closing the gaps an audit found in `Thm/C13.lean`:

* `chain_relays_newest` (tier S): the chain theorem WITHOUT the hypothesis that no other terminal of the chain holds a
  command — stale commands may sit anywhere in the chain as long as each is strictly older than the command entering at
  the head.
* bidirectional devices `DevB` (tier S): an inverter or a gear train may be entered at side 2 (`invRev`, `gearRev`: value
  DIVIDED by the ratio); `chainB_relays_newest` is the chain theorem for such chains, `revChain` is a chain traversed from
  its far end to its head (devices updated in reverse order), `chain_relays_newest_reverse` the corresponding theorem and
  (tier R) `chainB_scale_is_product`, `chain_scale_is_product_reverse`, `chain_scale_roundtrip` the factors.
* repeated updates: (tier S) `invert_update_twice_slots`, `gear_update_twice_slots`, `gear_update_twice_reads`;
  (tier L) `invert_update_twice_side2_roundtrip`; (tier R) `gear_update_twice_reads_exact`; and a kernel-checked example
  that without exact arithmetic the second gear update changes the issuing side's value.
-/
import Rrtk.Thm.C13
set_option linter.unusedSectionVars false
set_option linter.unusedSimpArgs false
namespace Rrtk.Thm.C13
open Rrtk

section S
variable {F : Type} [Add F] [Sub F] [Mul F] [Div F] [Neg F] [LT F] [LE F] [BEq F]
  [DecidableLT F] [DecidableLE F] [FloatLike F]

/-! ### reads -/

/-- a command read depends only on the terminal's own slot, its link, and its partner's slot -/
theorem getCommand_congr (w w' : World F) (j : Nat) (ho : (w'.t j).other = (w.t j).other)
    (hown : (w'.t j).command = (w.t j).command)
    (hp : ∀ p, (w.t j).other = some p → (w'.t p).command = (w.t p).command) :
    w'.getCommand j = w.getCommand j := by
  have : w'.partnerCommand j = w.partnerCommand j := by
    simp only [World.partnerCommand, ho]
    cases h : (w.t j).other with
    | none => rfl
    | some p => simp only [hp p h]
  simp only [World.getCommand, this, hown]

/-- the partner's slot is read when the own slot is empty or strictly older -/
theorem getCommand_eq_partner_of_newer (w : World F) (i : Nat) (g : Datum (Command F))
    (hg : w.partnerCommand i = some g) (hown : ∀ o, (w.t i).command = some o → o.time < g.time) :
    w.getCommand i = some g := by
  simp only [World.getCommand, hg]
  cases ho : (w.t i).command with
  | none => rfl
  | some o =>
    simp only []
    rw [if_pos (hown o ho)]

/-- if one read is present and every other present read is strictly older, the axle's fold picks it -/
theorem newestOf_strict {α : Type} (reads : List (Option (Datum α))) (c : Datum α) (hc : some c ∈ reads)
    (hall : ∀ x, some x ∈ reads → x = c ∨ x.time < c.time) : newestOf reads = some c := by
  cases h : newestOf reads with
  | none => exact absurd ((newestOf_spec reads).1.1 h _ hc) (by simp)
  | some d =>
    obtain ⟨hd, hmax⟩ := newestOf_max reads d h
    rcases hall d hd with e | e
    · rw [e]
    · have := hmax c hc; omega

/-! ### bidirectional one-degree-of-freedom devices -/

/-- a one-degree-of-freedom device with an entry terminal `a` and an exit terminal `b`, entered from EITHER side:
`inv`/`gear` are entered at side 1 (as `Dev1.inv`/`Dev1.gear`); `invRev`/`gearRev` are entered at side 2 — the device's
`update` is still called with (side 1, side 2) = (`b`, `a`); an axle has no sides. -/
inductive DevB (F : Type) where
  | inv (a b : Nat)
  | invRev (a b : Nat)
  | gear (ratio : F) (a b : Nat)
  | gearRev (ratio : F) (a b : Nat)
  | axle (is : List Nat) (a b : Nat)

namespace DevB
def fst : DevB F → Nat
  | inv a _ => a | invRev a _ => a | gear _ a _ => a | gearRev _ a _ => a | axle _ a _ => a
def snd : DevB F → Nat
  | inv _ b => b | invRev _ b => b | gear _ _ b => b | gearRev _ _ b => b | axle _ _ b => b
/-- all terminals of the device -/
def terms : DevB F → List Nat
  | inv a b => [a, b] | invRev a b => [a, b] | gear _ a b => [a, b] | gearRev _ a b => [a, b] | axle is _ _ => is
/-- the device's `update`: the model functions the driver runs, with side 1 / side 2 in the device's own order -/
def update : DevB F → World F → World F
  | inv a b, w => Invert.update w a b
  | invRev a b, w => Invert.update w b a
  | gear r a b, w => GearTrain.update r w a b
  | gearRev r a b, w => GearTrain.update r w b a
  | axle is _ _, w => Axle.update w is
/-- how a command value is mapped from the entry to the exit side: a gear train entered at side 2 DIVIDES by its ratio -/
def mapCmd : DevB F → Command F → Command F
  | inv _ _, c => Command.neg c
  | invRev _ _, c => Command.neg c
  | gear r _ _, c => Command.mulF c r
  | gearRev r _ _, c => Command.divF c r
  | axle _ _ _, c => c
/-- entry and exit are two different terminals of the device -/
def WF (d : DevB F) : Prop := d.fst ∈ d.terms ∧ d.snd ∈ d.terms ∧ d.fst ≠ d.snd
/-- the same physical device traversed the other way: entry and exit swapped, `update` unchanged -/
def rev : DevB F → DevB F
  | inv a b => invRev b a
  | invRev a b => inv b a
  | gear r a b => gearRev r b a
  | gearRev r a b => gear r b a
  | axle is a b => axle is b a

theorem rev_fst (d : DevB F) : d.rev.fst = d.snd := by cases d <;> rfl
theorem rev_snd (d : DevB F) : d.rev.snd = d.fst := by cases d <;> rfl
theorem rev_rev (d : DevB F) : d.rev.rev = d := by cases d <;> rfl
/-- reversing a device does not change what its `update` does to a world -/
theorem rev_update (d : DevB F) (w : World F) : d.rev.update w = d.update w := by cases d <;> rfl
theorem mem_rev_terms (d : DevB F) (j : Nat) : j ∈ d.rev.terms ↔ j ∈ d.terms := by
  cases d <;> simp [rev, terms, or_comm]
theorem rev_WF (d : DevB F) (h : d.WF) : d.rev.WF := by
  obtain ⟨h1, h2, h3⟩ := h
  exact ⟨by rw [rev_fst, mem_rev_terms]; exact h2, by rw [rev_snd, mem_rev_terms]; exact h1,
    by rw [rev_fst, rev_snd]; exact Ne.symm h3⟩
end DevB

/-- a `Dev1` (entered at side 1) as a bidirectional device -/
def Dev1.toB : Dev1 F → DevB F
  | .inv a b => .inv a b
  | .gear r a b => .gear r a b
  | .axle is a b => .axle is a b

/-- all terminals of all devices of a chain -/
def chainTermsB : List (DevB F) → List Nat
  | [] => []
  | d :: ds => d.terms ++ chainTermsB ds

/-- update the devices in order along the chain -/
def runChainB (w : World F) : List (DevB F) → World F
  | [] => w
  | d :: ds => runChainB (d.update w) ds

/-- the composed value map, entry of the first device → exit of the last -/
def chainMapB : List (DevB F) → Command F → Command F
  | [], c => c
  | d :: ds, c => chainMapB ds (d.mapCmd c)

/-- exit terminal of the last device -/
def farEndB (d : DevB F) : List (DevB F) → Nat
  | [] => d.snd
  | d' :: ds => farEndB d' ds

/-- the chain conditions of `ChainOK`, for bidirectional devices (only the links of `w` matter) -/
def ChainOKB (w : World F) : List (DevB F) → Prop
  | [] => True
  | [d] => d.WF ∧ ∀ p ∈ d.terms, (w.t d.snd).other ≠ some p
  | d :: d' :: rest =>
    d.WF ∧ (w.t d'.fst).other = some d.snd ∧ (∀ x ∈ d.terms, x ∉ chainTermsB (d' :: rest)) ∧
    (∀ j ∈ chainTermsB (d' :: rest), j ≠ d'.fst → ∀ p ∈ d.terms, (w.t j).other ≠ some p) ∧
    ChainOKB w (d' :: rest)

theorem ChainOKB.congr {w w' : World F} (h : ∀ j, (w'.t j).other = (w.t j).other) :
    ∀ ds : List (DevB F), ChainOKB w ds → ChainOKB w' ds
  | [], _ => trivial
  | [d], hc => ⟨hc.1, fun p hp => by rw [h]; exact hc.2 p hp⟩
  | d :: d' :: rest, hc =>
    ⟨hc.1, by rw [h]; exact hc.2.1, hc.2.2.1, fun j hj hne p hp => by rw [h]; exact hc.2.2.2.1 j hj hne p hp,
      ChainOKB.congr h (d' :: rest) hc.2.2.2.2⟩

theorem ChainOKB.head_WF {w : World F} {d : DevB F} {ds : List (DevB F)} (h : ChainOKB w (d :: ds)) : d.WF := by
  cases ds with
  | nil => exact h.1
  | cons d' rest => exact h.1

/-! ### one device, from an arbitrary world -/

/-- (one device, stale commands allowed). If the entry terminal reads the command `c` and every command read at another
terminal of the device is STRICTLY older, then after the device's update the exit terminal's own slot holds `c` with the
issuer's timestamp and its value mapped (negated / times the ratio / DIVIDED by the ratio when the gear train is entered
at side 2 / unchanged); slots outside the device and all links are untouched. -/
theorem devB_relays_newest (d : DevB F) (hwf : d.WF) (w : World F) (c : Datum (Command F))
    (hc : w.getCommand d.fst = some c)
    (hold : ∀ j ∈ d.terms, j ≠ d.fst → ∀ r, w.getCommand j = some r → r.time < c.time) :
    ((d.update w).t d.snd).command = some ⟨c.time, d.mapCmd c.value⟩ ∧
    (∀ j, j ∉ d.terms → ((d.update w).t j).command = (w.t j).command) ∧
    (∀ j, ((d.update w).t j).other = (w.t j).other) := by
  obtain ⟨hfm, hsm, hne⟩ := hwf
  cases d with
  | inv a b =>
    simp only [DevB.fst, DevB.snd, DevB.terms, DevB.update, DevB.mapCmd] at *
    have hb := hold b (by simp) (Ne.symm hne)
    obtain ⟨ho, hn, _, hs⟩ := invert_relays_newest_slots w a b hne
    have hwin : invertWinner (w.getCommand a) (w.getCommand b) = some c := by
      rw [hc]
      cases h2 : w.getCommand b with
      | none => rfl
      | some x =>
        have := hb x h2
        simp only [invertWinner]; rw [if_neg (by omega)]
    exact ⟨(hs c hwin).2, fun j hj => hn j (fun e => hj (by simp [e])) (fun e => hj (by simp [e])), ho⟩
  | invRev a b =>
    simp only [DevB.fst, DevB.snd, DevB.terms, DevB.update, DevB.mapCmd] at *
    have hb := hold b (by simp) (Ne.symm hne)
    obtain ⟨ho, hn, _, hs⟩ := invert_relays_newest_slots w b a (Ne.symm hne)
    have hwin : invertWinner (w.getCommand b) (w.getCommand a) = some (Datum.map Command.neg c) := by
      rw [hc]
      cases h1 : w.getCommand b with
      | none => rfl
      | some x => simp only [invertWinner]; rw [if_pos (hb x h1)]
    exact ⟨(hs _ hwin).1, fun j hj => hn j (fun e => hj (by simp [e])) (fun e => hj (by simp [e])), ho⟩
  | gear r a b =>
    simp only [DevB.fst, DevB.snd, DevB.terms, DevB.update, DevB.mapCmd] at *
    have hb := hold b (by simp) (Ne.symm hne)
    obtain ⟨ho, _, h1, _⟩ := gear_relays_newest_slots r w a b
    have hside : gearSide1Wins (w.getCommand a) (w.getCommand b) = true := by
      rw [hc]
      cases h2 : w.getCommand b with
      | none => rfl
      | some x =>
        have := hb x h2
        simp only [gearSide1Wins, decide_eq_true_eq]; omega
    obtain ⟨hs, hn⟩ := h1 c hc hside
    exact ⟨hs, fun j hj => hn j (fun e => hj (by simp [e])), ho⟩
  | gearRev r a b =>
    simp only [DevB.fst, DevB.snd, DevB.terms, DevB.update, DevB.mapCmd] at *
    have hb := hold b (by simp) (Ne.symm hne)
    obtain ⟨ho, _, _, h2⟩ := gear_relays_newest_slots r w b a
    have hside : gearSide1Wins (w.getCommand b) (w.getCommand a) = false := by
      rw [hc]
      cases h1 : w.getCommand b with
      | none => rfl
      | some x =>
        have := hb x h1
        simp only [gearSide1Wins, decide_eq_false_iff_not]; omega
    obtain ⟨hs, hn⟩ := h2 c hc hside
    exact ⟨hs, fun j hj => hn j (fun e => hj (by simp [e])), ho⟩
  | axle is a b =>
    simp only [DevB.fst, DevB.snd, DevB.terms, DevB.update, DevB.mapCmd] at *
    obtain ⟨ho, hn, _, hs⟩ := axle_relays_newest_slots w is
    have hm : newestOf (is.map w.getCommand) = some c := by
      refine newestOf_strict _ c (List.mem_map.2 ⟨a, hfm, hc⟩) (fun x hx => ?_)
      obtain ⟨j, hj, e⟩ := List.mem_map.1 hx
      by_cases hja : j = a
      · left; rw [hja, hc] at e; exact (Option.some.inj e).symm
      · right; exact hold j hj hja x e
    exact ⟨hs c hm b hsm, hn, ho⟩

/-! ### chains, with stale commands anywhere -/

theorem chainMapB_kind (ds : List (DevB F)) (c : Command F) : (chainMapB ds c).kind = c.kind := by
  induction ds generalizing c with
  | nil => rfl
  | cons d ds ih =>
    rw [chainMapB, ih]
    cases d with
    | inv a b => exact neg_kind c
    | invRev a b => exact neg_kind c
    | gear r a b => exact mulF_kind c r
    | gearRev r a b => exact divF_kind c r
    | axle is a b => rfl

/-- F (chain of bidirectional devices, ANY length, stale commands allowed). If the entry terminal of the first device
reads the command `c` and every command read at any other terminal of the chain is STRICTLY older than `c`, then after
updating the devices in order along the chain the far terminal's own slot holds — and the far terminal reads — a command
with the issuer's timestamp, the issuer's kind (`chainMapB_kind`) and the value obtained by applying the per-device maps
in order (a gear train entered at side 2 dividing by its ratio). -/
theorem chainB_relays_newest (d : DevB F) (ds : List (DevB F)) (w : World F) (c : Datum (Command F))
    (hok : ChainOKB w (d :: ds)) (hc : w.getCommand d.fst = some c)
    (hold : ∀ j ∈ chainTermsB (d :: ds), j ≠ d.fst → ∀ r, w.getCommand j = some r → r.time < c.time) :
    ((runChainB w (d :: ds)).t (farEndB d ds)).command = some ⟨c.time, chainMapB (d :: ds) c.value⟩ ∧
    (runChainB w (d :: ds)).getCommand (farEndB d ds) = some ⟨c.time, chainMapB (d :: ds) c.value⟩ := by
  induction ds generalizing d w c with
  | nil =>
    show ((d.update w).t d.snd).command = some ⟨c.time, d.mapCmd c.value⟩ ∧
      (d.update w).getCommand d.snd = some ⟨c.time, d.mapCmd c.value⟩
    obtain ⟨hwf, hfree⟩ := hok
    obtain ⟨hs, hn, ho⟩ := devB_relays_newest d hwf w c hc
      (fun j hj => hold j (by simpa [chainTermsB] using hj))
    refine ⟨hs, getCommand_eq_own _ _ _ hs (fun g hg => ?_)⟩
    -- the far terminal's partner lies outside the device; what it holds is older than the old read at the far terminal
    have hb : ∀ r, w.getCommand d.snd = some r → r.time < c.time :=
      hold _ (by simpa [chainTermsB] using hwf.2.1) (Ne.symm hwf.2.2)
    simp only [World.partnerCommand, ho] at hg
    cases hp : (w.t d.snd).other with
    | none => rw [hp] at hg; exact absurd hg (by simp)
    | some p =>
      rw [hp] at hg; simp only [] at hg
      rw [hn p (fun hm => hfree p hm hp)] at hg
      have hpc : w.partnerCommand d.snd = some g := by simp only [World.partnerCommand, hp]; exact hg
      obtain ⟨r, hr, hgr⟩ := partner_le_read w d.snd g hpc
      have := hb r hr
      show g.time ≤ c.time
      omega
  | cons d' rest ih =>
    obtain ⟨hwf, hlink, hdisj, hiso, hrest⟩ := hok
    obtain ⟨hs, hn, ho⟩ := devB_relays_newest d hwf w c hc
      (fun j hj => hold j (by simp only [chainTermsB]; exact List.mem_append_left _ hj))
    have hin : ∀ j ∈ chainTermsB (d' :: rest), j ∈ chainTermsB (d :: d' :: rest) :=
      fun j hj => by simp only [chainTermsB] at hj ⊢; exact List.mem_append_right _ hj
    have hnotd : ∀ j ∈ chainTermsB (d' :: rest), j ∉ d.terms := fun j hj hm => hdisj j hm hj
    have hne_fst : ∀ j ∈ chainTermsB (d' :: rest), j ≠ d.fst := fun j hj e => hnotd j hj (e ▸ hwf.1)
    have hfst' : d'.fst ∈ chainTermsB (d' :: rest) := by
      simp only [chainTermsB]; exact List.mem_append_left _ (ChainOKB.head_WF hrest).1
    -- the next device's entry terminal now reads the relayed command through its connection: its own slot, if any,
    -- is strictly older
    have hc' : (d.update w).getCommand d'.fst = some ⟨c.time, d.mapCmd c.value⟩ := by
      refine getCommand_eq_partner_of_newer _ _ _ ?_ (fun o ho' => ?_)
      · simp only [World.partnerCommand, ho, hlink]; exact hs
      · rw [hn _ (hnotd _ hfst')] at ho'
        obtain ⟨r, hr, hor⟩ := own_le_read w d'.fst o ho'
        have := hold _ (hin _ hfst') (hne_fst _ hfst') r hr
        show o.time < c.time
        omega
    -- every other later terminal reads what it read before
    have hold' : ∀ j ∈ chainTermsB (d' :: rest), j ≠ d'.fst →
        ∀ r, (d.update w).getCommand j = some r → r.time < c.time := by
      intro j hj hjne r hr
      rw [getCommand_congr w (d.update w) j (ho j) (hn j (hnotd j hj))
        (fun p hp => hn p (fun hm => hiso j hj hjne p hm hp))] at hr
      exact hold j (hin j hj) (hne_fst j hj) r hr
    exact ih d' (d.update w) ⟨c.time, d.mapCmd c.value⟩ (ChainOKB.congr ho _ hrest) hc' hold'

/-- what an outside observer sees: a terminal `e` outside the chain that is connected to the far end and whose own slot
is empty or strictly older reads the relayed command -/
theorem chainB_relays_newest_external (d : DevB F) (ds : List (DevB F)) (w : World F) (c : Datum (Command F))
    (hok : ChainOKB w (d :: ds)) (hc : w.getCommand d.fst = some c)
    (hold : ∀ j ∈ chainTermsB (d :: ds), j ≠ d.fst → ∀ r, w.getCommand j = some r → r.time < c.time)
    (e : Nat) (he : ((runChainB w (d :: ds)).t e).other = some (farEndB d ds))
    (hown : ∀ o, ((runChainB w (d :: ds)).t e).command = some o → o.time < c.time) :
    (runChainB w (d :: ds)).getCommand e = some ⟨c.time, chainMapB (d :: ds) c.value⟩ := by
  refine getCommand_eq_partner_of_newer _ _ _ ?_ hown
  simp only [World.partnerCommand, he]
  exact (chainB_relays_newest d ds w c hok hc hold).1

/-! ### `Dev1` chains are `DevB` chains -/

theorem Dev1.toB_fst (d : Dev1 F) : d.toB.fst = d.fst := by cases d <;> rfl
theorem Dev1.toB_snd (d : Dev1 F) : d.toB.snd = d.snd := by cases d <;> rfl
theorem Dev1.toB_terms (d : Dev1 F) : d.toB.terms = d.terms := by cases d <;> rfl
theorem Dev1.toB_update (d : Dev1 F) (w : World F) : d.toB.update w = d.update w := by cases d <;> rfl
theorem Dev1.toB_mapCmd (d : Dev1 F) (c : Command F) : d.toB.mapCmd c = d.mapCmd c := by cases d <;> rfl
theorem Dev1.toB_WF (d : Dev1 F) (h : d.WF) : d.toB.WF := by
  unfold DevB.WF; rw [Dev1.toB_fst, Dev1.toB_snd, Dev1.toB_terms]; exact h

theorem chainTermsB_toB (ds : List (Dev1 F)) : chainTermsB (ds.map Dev1.toB) = chainTerms ds := by
  induction ds with
  | nil => rfl
  | cons d ds ih => simp only [List.map_cons, chainTermsB, chainTerms, ih, Dev1.toB_terms]

theorem runChainB_toB (ds : List (Dev1 F)) (w : World F) : runChainB w (ds.map Dev1.toB) = runChain w ds := by
  induction ds generalizing w with
  | nil => rfl
  | cons d ds ih => simp only [List.map_cons, runChainB, runChain, ih, Dev1.toB_update]

theorem chainMapB_toB (ds : List (Dev1 F)) (c : Command F) : chainMapB (ds.map Dev1.toB) c = chainMap ds c := by
  induction ds generalizing c with
  | nil => rfl
  | cons d ds ih => simp only [List.map_cons, chainMapB, chainMap, ih, Dev1.toB_mapCmd]

theorem farEndB_toB (d : Dev1 F) (ds : List (Dev1 F)) : farEndB d.toB (ds.map Dev1.toB) = farEnd d ds := by
  induction ds generalizing d with
  | nil => exact Dev1.toB_snd d
  | cons d' ds ih => simp only [List.map_cons, farEndB, farEnd, ih]

theorem ChainOKB_toB (w : World F) : ∀ ds : List (Dev1 F), ChainOK w ds → ChainOKB w (ds.map Dev1.toB)
  | [], _ => trivial
  | [d], hc => ⟨Dev1.toB_WF d hc.1, by rw [Dev1.toB_snd, Dev1.toB_terms]; exact hc.2⟩
  | d :: d' :: rest, hc => by
    have ht : chainTermsB (d'.toB :: rest.map Dev1.toB) = chainTerms (d' :: rest) := chainTermsB_toB (d' :: rest)
    refine ⟨Dev1.toB_WF d hc.1, ?_, ?_, ?_, ChainOKB_toB w (d' :: rest) hc.2.2.2.2⟩
    · rw [Dev1.toB_fst, Dev1.toB_snd]; exact hc.2.1
    · rw [ht, Dev1.toB_terms]; exact hc.2.2.1
    · rw [ht, Dev1.toB_terms, Dev1.toB_fst]; exact hc.2.2.2.1

/-- F (chain, ANY length; inverters, gear trains and axles of any size; STALE COMMANDS ALLOWED). Like `chain_relays`,
but other terminals of the chain may hold or see commands: it is enough that every command read at a chain terminal other
than the head's entry is STRICTLY older than the command `c` read at the head.  After updating the devices in order the
far terminal's own slot holds — and the far terminal reads — a command with `c`'s timestamp, `c`'s kind (`chainMap_kind`)
and `c`'s value mapped through the chain. -/
theorem chain_relays_newest (d : Dev1 F) (ds : List (Dev1 F)) (w : World F) (c : Datum (Command F))
    (hok : ChainOK w (d :: ds)) (hc : w.getCommand d.fst = some c)
    (hold : ∀ j ∈ chainTerms (d :: ds), j ≠ d.fst → ∀ r, w.getCommand j = some r → r.time < c.time) :
    ((runChain w (d :: ds)).t (farEnd d ds)).command = some ⟨c.time, chainMap (d :: ds) c.value⟩ ∧
    (runChain w (d :: ds)).getCommand (farEnd d ds) = some ⟨c.time, chainMap (d :: ds) c.value⟩ := by
  have h := chainB_relays_newest d.toB (ds.map Dev1.toB) w c (ChainOKB_toB w (d :: ds) hok)
    (by rw [Dev1.toB_fst]; exact hc)
    (fun j hj hne => by
      rw [Dev1.toB_fst] at hne
      have hj' : j ∈ chainTermsB ((d :: ds).map Dev1.toB) := hj
      rw [chainTermsB_toB] at hj'
      exact hold j hj' hne)
  have e1 : runChainB w (d.toB :: ds.map Dev1.toB) = runChain w (d :: ds) := runChainB_toB (d :: ds) w
  have e2 : chainMapB (d.toB :: ds.map Dev1.toB) c.value = chainMap (d :: ds) c.value := chainMapB_toB (d :: ds) _
  rw [e1, e2, farEndB_toB] at h
  exact h

/-- `chain_relays` is the special case of `chain_relays_newest` in which nothing else is read anywhere in the chain -/
theorem chain_relays_of_newest (d : Dev1 F) (ds : List (Dev1 F)) (w : World F) (c : Datum (Command F))
    (hok : ChainOK w (d :: ds)) (hc : w.getCommand d.fst = some c)
    (hnone : ∀ j ∈ chainTerms (d :: ds), j ≠ d.fst → w.getCommand j = none) :
    (runChain w (d :: ds)).getCommand (farEnd d ds) = some ⟨c.time, chainMap (d :: ds) c.value⟩ :=
  (chain_relays_newest d ds w c hok hc (fun j hj hne r hr => by rw [hnone j hj hne] at hr; exact absurd hr (by simp))).2

/-- the newest-command form of `chain_relays_external` -/
theorem chain_relays_newest_external (d : Dev1 F) (ds : List (Dev1 F)) (w : World F) (c : Datum (Command F))
    (hok : ChainOK w (d :: ds)) (hc : w.getCommand d.fst = some c)
    (hold : ∀ j ∈ chainTerms (d :: ds), j ≠ d.fst → ∀ r, w.getCommand j = some r → r.time < c.time)
    (e : Nat) (he : ((runChain w (d :: ds)).t e).other = some (farEnd d ds))
    (hown : ∀ o, ((runChain w (d :: ds)).t e).command = some o → o.time < c.time) :
    (runChain w (d :: ds)).getCommand e = some ⟨c.time, chainMap (d :: ds) c.value⟩ := by
  refine getCommand_eq_partner_of_newer _ _ _ ?_ hown
  simp only [World.partnerCommand, he]
  exact (chain_relays_newest d ds w c hok hc hold).1

/-! ### the reverse direction: a chain traversed from its far end to its head -/

/-- the chain traversed the other way: every device reversed (entry ↔ exit, same `update`), in reverse order -/
def revChain (ds : List (DevB F)) : List (DevB F) := (ds.map DevB.rev).reverse

theorem revChain_cons (d : DevB F) (ds : List (DevB F)) : revChain (d :: ds) = revChain ds ++ [d.rev] := by
  simp [revChain]

theorem revChain_revChain (ds : List (DevB F)) : revChain (revChain ds) = ds := by
  simp only [revChain, List.map_reverse, List.reverse_reverse, List.map_map]
  have : (DevB.rev ∘ DevB.rev : DevB F → DevB F) = id := funext (fun d => DevB.rev_rev d)
  rw [this, List.map_id]

theorem chainTermsB_append (l1 l2 : List (DevB F)) : chainTermsB (l1 ++ l2) = chainTermsB l1 ++ chainTermsB l2 := by
  induction l1 with
  | nil => rfl
  | cons d l1 ih => simp only [List.cons_append, chainTermsB, ih, List.append_assoc]

/-- the reversed chain has the same terminals -/
theorem mem_chainTermsB_revChain (ds : List (DevB F)) (j : Nat) :
    j ∈ chainTermsB (revChain ds) ↔ j ∈ chainTermsB ds := by
  induction ds with
  | nil => rfl
  | cons d ds ih =>
    rw [revChain_cons, chainTermsB_append]
    simp only [chainTermsB, List.append_nil, List.mem_append, ih, DevB.mem_rev_terms]
    exact or_comm

theorem runChainB_append (w : World F) (l1 l2 : List (DevB F)) :
    runChainB w (l1 ++ l2) = runChainB (runChainB w l1) l2 := by
  induction l1 generalizing w with
  | nil => rfl
  | cons d l1 ih => simp only [List.cons_append, runChainB, ih]

/-- running the reversed chain IS updating the same devices in reverse order: the head device is updated last -/
theorem runChainB_revChain_cons (w : World F) (d : DevB F) (ds : List (DevB F)) :
    runChainB w (revChain (d :: ds)) = d.update (runChainB w (revChain ds)) := by
  rw [revChain_cons, runChainB_append]
  show d.rev.update _ = _
  rw [DevB.rev_update]

theorem chainMapB_append (l1 l2 : List (DevB F)) (c : Command F) :
    chainMapB (l1 ++ l2) c = chainMapB l2 (chainMapB l1 c) := by
  induction l1 generalizing c with
  | nil => rfl
  | cons d l1 ih => simp only [List.cons_append, chainMapB, ih]

theorem farEndB_snoc (e : DevB F) (es : List (DevB F)) (x : DevB F) : farEndB e (es ++ [x]) = x.snd := by
  induction es generalizing e with
  | nil => rfl
  | cons e' es ih => exact ih e'

/-- the reversed chain starts at the far end and ends at the head's entry -/
theorem revChain_shape (d : DevB F) (ds : List (DevB F)) :
    ∃ e es, revChain (d :: ds) = e :: es ∧ e.fst = farEndB d ds ∧ farEndB e es = d.fst := by
  induction ds generalizing d with
  | nil => exact ⟨d.rev, [], rfl, DevB.rev_fst d, DevB.rev_snd d⟩
  | cons d' ds ih =>
    obtain ⟨e, es, h, h1, _⟩ := ih d'
    refine ⟨e, es ++ [d.rev], by rw [revChain_cons, h]; rfl, h1, ?_⟩
    rw [farEndB_snoc, DevB.rev_snd]

/-- F, REVERSE DIRECTION (chain of any length, stale commands allowed). A command `c` read at the FAR end of the chain
`d :: ds`, strictly newer than every command read at any other terminal of the chain, reaches the head's entry terminal
when the devices are updated in reverse order (`runChainB_revChain_cons`): it is held by — and read at — `d.fst` with
`c`'s timestamp and kind and with its value mapped through the devices the other way (`chainMapB (revChain …)`: every
gear train originally entered at side 1 now DIVIDES by its ratio, see `chain_scale_is_product_reverse`).  `hok` asks the
chain conditions for the reversed chain (links seen from the other side). -/
theorem chain_relays_newest_reverse (d : DevB F) (ds : List (DevB F)) (w : World F) (c : Datum (Command F))
    (hok : ChainOKB w (revChain (d :: ds))) (hc : w.getCommand (farEndB d ds) = some c)
    (hold : ∀ j ∈ chainTermsB (d :: ds), j ≠ farEndB d ds → ∀ r, w.getCommand j = some r → r.time < c.time) :
    ((runChainB w (revChain (d :: ds))).t d.fst).command = some ⟨c.time, chainMapB (revChain (d :: ds)) c.value⟩ ∧
    (runChainB w (revChain (d :: ds))).getCommand d.fst = some ⟨c.time, chainMapB (revChain (d :: ds)) c.value⟩ := by
  obtain ⟨e, es, h, h1, h2⟩ := revChain_shape d ds
  have hmem : ∀ j, j ∈ chainTermsB (e :: es) ↔ j ∈ chainTermsB (d :: ds) := fun j => by
    rw [← h]; exact mem_chainTermsB_revChain (d :: ds) j
  rw [h] at hok ⊢
  have := chainB_relays_newest e es w c hok (by rw [h1]; exact hc)
    (fun j hj hne => hold j ((hmem j).1 hj) (by rw [← h1]; exact hne))
  rw [h2] at this
  exact this

/-- the far end is a terminal of the chain -/
theorem farEndB_mem {w : World F} (d : DevB F) (ds : List (DevB F)) (hok : ChainOKB w (d :: ds)) :
    farEndB d ds ∈ chainTermsB (d :: ds) := by
  induction ds generalizing d with
  | nil => simp only [farEndB, chainTermsB, List.append_nil]; exact hok.1.2.1
  | cons d' ds ih =>
    simp only [chainTermsB]
    exact List.mem_append_right _ (ih d' hok.2.2.2.2)

/-- appending a device at the far end of a chain -/
theorem ChainOKB.snoc {w : World F} (x : DevB F) (hx : x.WF) (hxfree : ∀ p ∈ x.terms, (w.t x.snd).other ≠ some p) :
    ∀ (e : DevB F) (es : List (DevB F)), ChainOKB w (e :: es) →
      (w.t x.fst).other = some (farEndB e es) →
      (∀ t ∈ x.terms, t ∉ chainTermsB (e :: es)) →
      (∀ j ∈ x.terms, j ≠ x.fst → ∀ p ∈ chainTermsB (e :: es), (w.t j).other ≠ some p) →
      ChainOKB w (e :: (es ++ [x]))
  | e, [], hok, hlink, hdisj, hiso => by
    show e.WF ∧ (w.t x.fst).other = some e.snd ∧ (∀ t ∈ e.terms, t ∉ chainTermsB [x]) ∧
      (∀ j ∈ chainTermsB [x], j ≠ x.fst → ∀ p ∈ e.terms, (w.t j).other ≠ some p) ∧ ChainOKB w [x]
    refine ⟨hok.1, hlink, fun t ht hm => ?_, fun j hj hne p hp => ?_, hx, hxfree⟩
    · have hm' : t ∈ x.terms := by simpa [chainTermsB] using hm
      exact hdisj t hm' (by simp only [chainTermsB, List.append_nil]; exact ht)
    · have hj' : j ∈ x.terms := by simpa [chainTermsB] using hj
      exact hiso j hj' hne p (by simp only [chainTermsB, List.append_nil]; exact hp)
  | e, e' :: es', hok, hlink, hdisj, hiso => by
    obtain ⟨hwf, hl, hd, hi, hrest⟩ := hok
    have hsub : ∀ p, p ∈ chainTermsB (e' :: es') → p ∈ chainTermsB (e :: e' :: es') := fun p hp => by
      simp only [chainTermsB] at hp ⊢; exact List.mem_append_right _ hp
    have ih := ChainOKB.snoc x hx hxfree e' es' hrest hlink (fun t ht hm => hdisj t ht (hsub t hm))
      (fun j hj hne p hp => hiso j hj hne p (hsub p hp))
    have hterms : ∀ j, j ∈ chainTermsB (e' :: (es' ++ [x])) → j ∈ chainTermsB (e' :: es') ∨ j ∈ x.terms := by
      intro j hj
      have : e' :: (es' ++ [x]) = (e' :: es') ++ [x] := rfl
      rw [this, chainTermsB_append] at hj
      rcases List.mem_append.1 hj with h | h
      · exact Or.inl h
      · right; simpa [chainTermsB] using h
    show e.WF ∧ (w.t e'.fst).other = some e.snd ∧ (∀ t ∈ e.terms, t ∉ chainTermsB (e' :: (es' ++ [x]))) ∧
      (∀ j ∈ chainTermsB (e' :: (es' ++ [x])), j ≠ e'.fst → ∀ p ∈ e.terms, (w.t j).other ≠ some p) ∧
      ChainOKB w (e' :: (es' ++ [x]))
    refine ⟨hwf, hl, fun t ht hm => ?_, fun j hj hne p hp => ?_, ih⟩
    · rcases hterms t hm with h | h
      · exact hd t ht h
      · exact hdisj t h (by simp only [chainTermsB]; exact List.mem_append_left _ ht)
    · rcases hterms j hj with h | h
      · exact hi j h hne p hp
      · by_cases hjx : j = x.fst
        · -- `x.fst` is wired to the old far end, a terminal of a later device, hence not one of `e`
          rw [hjx, hlink]
          intro heq
          have hfar : farEndB e' es' ∈ chainTermsB (e' :: es') := farEndB_mem e' es' hrest
          have hpe : farEndB e' es' = p := Option.some.inj heq
          exact hd p hp (hpe ▸ hfar)
        · exact hiso j h hjx p (by simp only [chainTermsB]; exact List.mem_append_left _ hp)

/-- THE REVERSED CHAIN IS A CHAIN. If links are symmetric (`hsym`; `connect` only ever makes symmetric links) and the
head's entry terminal is not wired back into its own device, the chain conditions for `d :: ds` give those for the chain
traversed from the far end — so `chain_relays_newest_reverse` applies to any chain `chainB_relays_newest` applies to. -/
theorem ChainOKB_revChain (w : World F) (hsym : ∀ i p, (w.t i).other = some p → (w.t p).other = some i) :
    ∀ (d : DevB F) (ds : List (DevB F)), ChainOKB w (d :: ds) → (∀ p ∈ d.terms, (w.t d.fst).other ≠ some p) →
      ChainOKB w (revChain (d :: ds))
  | d, [], hok, hhead => by
    show ChainOKB w [d.rev]
    exact ⟨DevB.rev_WF d hok.1, fun p hp => by rw [DevB.rev_snd]; exact hhead p ((DevB.mem_rev_terms d p).1 hp)⟩
  | d, d' :: ds', hok, hhead => by
    obtain ⟨hwf, hlink, hdisj, hiso, hrest⟩ := hok
    have hwf' : d'.WF := ChainOKB.head_WF hrest
    have hmem' : ∀ p, p ∈ d'.terms → p ∈ chainTermsB (d' :: ds') := fun p hp => by
      simp only [chainTermsB]; exact List.mem_append_left _ hp
    have ih := ChainOKB_revChain w hsym d' ds' hrest (fun p hp => by
      rw [hlink]; intro e
      have : d.snd = p := Option.some.inj e
      exact hdisj d.snd hwf.2.1 (hmem' _ (this ▸ hp)))
    obtain ⟨e, es, h, h1, h2⟩ := revChain_shape d' ds'
    have hmem : ∀ j, j ∈ chainTermsB (e :: es) ↔ j ∈ chainTermsB (d' :: ds') := fun j => by
      rw [← h]; exact mem_chainTermsB_revChain (d' :: ds') j
    rw [revChain_cons, h]; rw [h] at ih
    show ChainOKB w (e :: (es ++ [d.rev]))
    refine ChainOKB.snoc d.rev (DevB.rev_WF d hwf) (fun p hp => ?_) e es ih ?_ (fun t ht hm => ?_)
      (fun j hj hne p hp hjp => ?_)
    · rw [DevB.rev_snd]; exact hhead p ((DevB.mem_rev_terms d p).1 hp)
    · rw [DevB.rev_fst, h2]; exact hsym _ _ hlink
    · exact hdisj t ((DevB.mem_rev_terms d t).1 ht) ((hmem t).1 hm)
    · rw [DevB.rev_fst] at hne
      have hj' := (DevB.mem_rev_terms d j).1 hj
      have hp' := (hmem p).1 hp
      have hpj := hsym j p hjp
      by_cases hpf : p = d'.fst
      · rw [hpf, hlink] at hpj
        exact hne (Option.some.inj hpj).symm
      · exact hiso p hp' hpf j hj' hpj

/-! ### repeated updates -/

/-- an inverter's choice between a command and its own negation (same timestamp) is the side-1 one -/
theorem invertWinner_self (m : Option (Datum (Command F))) :
    invertWinner m (m.map (Datum.map Command.neg)) = m := by
  cases m with
  | none => rfl
  | some a =>
    simp only [Option.map, invertWinner]
    rw [if_neg (show ¬ (Datum.map Command.neg a).time > a.time from Int.lt_irrefl _)]

/-- REPEATED UPDATE (inverter, tier S — no scalar law is needed). A second `Invert::update` on the result of the first
changes NO command slot and no link: after the first update the two terminals read `win` and `-win` with one
timestamp, side 1 wins the tie, and the second update writes `win` and `-win` again into the slots that already hold
them. -/
theorem invert_update_twice_slots (w : World F) (i1 i2 : Nat) (h12 : i1 ≠ i2) :
    SameCmds (Invert.update w i1 i2) (Invert.update (Invert.update w i1 i2) i1 i2) := by
  obtain ⟨_, _, _, hsome1⟩ := invert_relays_newest_slots w i1 i2 h12
  obtain ⟨hr1, hr2⟩ := invert_relays_newest w i1 i2 h12
  obtain ⟨hoth, hne, hnone, hsome⟩ := invert_relays_newest_slots (Invert.update w i1 i2) i1 i2 h12
  have hwin' : invertWinner ((Invert.update w i1 i2).getCommand i1) ((Invert.update w i1 i2).getCommand i2) =
      invertWinner (w.getCommand i1) (w.getCommand i2) := by rw [hr1, hr2, invertWinner_self]
  intro j
  refine ⟨?_, hoth j⟩
  cases hwin : invertWinner (w.getCommand i1) (w.getCommand i2) with
  | none => exact hnone (hwin'.trans hwin) j
  | some dc =>
    obtain ⟨a1, a2⟩ := hsome1 dc hwin
    obtain ⟨b1, b2⟩ := hsome dc (hwin'.trans hwin)
    by_cases e1 : j = i1
    · rw [e1, b1, a1]
    · by_cases e2 : j = i2
      · rw [e2, b2, a2]
      · exact hne j e1 e2

/-- hence every command read — at the inverter's terminals and anywhere else — is the same after two updates as after
one (tier S; in particular at both terminals, as `invertWinner` and its negation) -/
theorem invert_update_twice_reads (w : World F) (i1 i2 : Nat) (h12 : i1 ≠ i2) :
    (∀ j, (Invert.update (Invert.update w i1 i2) i1 i2).getCommand j = (Invert.update w i1 i2).getCommand j) ∧
    (Invert.update (Invert.update w i1 i2) i1 i2).getCommand i1 =
      invertWinner (w.getCommand i1) (w.getCommand i2) ∧
    (Invert.update (Invert.update w i1 i2) i1 i2).getCommand i2 =
      (invertWinner (w.getCommand i1) (w.getCommand i2)).map (Datum.map Command.neg) := by
  have h := fun j => (invert_update_twice_slots w i1 i2 h12).getCommand j
  exact ⟨h, by rw [h, (invert_relays_newest w i1 i2 h12).1], by rw [h, (invert_relays_newest w i1 i2 h12).2]⟩

/-- REPEATED UPDATE (inverter, tier L: `hneg`, `-(-x) = x`). A newest command issued on side 2 is read back on side 2
with its original value after TWO updates as well. -/
theorem invert_update_twice_side2_roundtrip (hneg : ∀ x : F, -(-x) = x) (w : World F) (i1 i2 : Nat) (h12 : i1 ≠ i2)
    (b : Datum (Command F)) (h2 : w.getCommand i2 = some b)
    (hnewest : ∀ a, w.getCommand i1 = some a → b.time > a.time) :
    (Invert.update (Invert.update w i1 i2) i1 i2).getCommand i2 = some b := by
  rw [(invert_update_twice_reads w i1 i2 h12).1]
  exact invert_side2_roundtrip hneg w i1 i2 h12 b h2 hnewest

/-- exactly one of: nothing is read on either side; side 1 is relayed; side 2 is relayed -/
theorem gearSide_cases (c1 c2 : Option (Datum (Command F))) :
    (c1 = none ∧ c2 = none) ∨ (∃ a, c1 = some a ∧ gearSide1Wins c1 c2 = true) ∨
    (∃ b, c2 = some b ∧ gearSide1Wins c1 c2 = false) := by
  cases c1 with
  | none =>
    cases c2 with
    | none => left; exact ⟨rfl, rfl⟩
    | some b => right; right; exact ⟨b, rfl, rfl⟩
  | some a =>
    cases c2 with
    | none => right; left; exact ⟨a, rfl, rfl⟩
    | some b =>
      by_cases h : a.time ≥ b.time
      · right; left; exact ⟨a, rfl, by simp only [gearSide1Wins, decide_eq_true_eq]; exact h⟩
      · right; right; exact ⟨b, rfl, by simp only [gearSide1Wins, decide_eq_false_iff_not]; exact h⟩

theorem gearReads_of_side1 (ratio : F) (c1 c2 : Option (Datum (Command F))) (a : Datum (Command F))
    (h1 : c1 = some a) (hs : gearSide1Wins c1 c2 = true) :
    gearReads ratio c1 c2 = (some a, some (Datum.scalar Command.mulF a ratio)) := by
  subst h1
  cases c2 with
  | none => rfl
  | some b =>
    simp only [gearSide1Wins, decide_eq_true_eq] at hs
    simp only [gearReads]; rw [if_pos hs]

theorem gearReads_of_side2 (ratio : F) (c1 c2 : Option (Datum (Command F))) (b : Datum (Command F))
    (h2 : c2 = some b) (hs : gearSide1Wins c1 c2 = false) :
    gearReads ratio c1 c2 = (some (Datum.scalar Command.divF b ratio), some b) := by
  subst h2
  cases c1 with
  | none => rfl
  | some a =>
    simp only [gearSide1Wins, decide_eq_false_iff_not] at hs
    simp only [gearReads]; rw [if_neg hs]

/-- a relayed command ties with its source: whichever side won the first time, SIDE 1 wins the second time -/
theorem gearSide1Wins_after (ratio : F) (a b : Datum (Command F)) :
    gearSide1Wins (some a) (some (Datum.scalar Command.mulF a ratio)) = true ∧
    gearSide1Wins (some (Datum.scalar Command.divF b ratio)) (some b) = true := by
  constructor
  · simp only [gearSide1Wins, decide_eq_true_eq]; exact Int.le_refl _
  · simp only [gearSide1Wins, decide_eq_true_eq]; exact Int.le_refl _

/-- the reads after a second gear-train update, as a formula in the reads before the first: nothing stays nothing; if
side 1 was relayed, the second update relays the same thing again; if side 2 was relayed (`b`, strictly newer), side 1
reads `b / ratio` and — the tie now going to side 1 — side 2 reads `(b / ratio) * ratio` in place of `b`. -/
theorem gearReads_twice (ratio : F) (c1 c2 : Option (Datum (Command F))) :
    (c1 = none → c2 = none →
      gearReads ratio (gearReads ratio c1 c2).1 (gearReads ratio c1 c2).2 = (none, none)) ∧
    (∀ a, c1 = some a → gearSide1Wins c1 c2 = true →
      gearReads ratio (gearReads ratio c1 c2).1 (gearReads ratio c1 c2).2 =
        (some a, some (Datum.scalar Command.mulF a ratio))) ∧
    (∀ b, c2 = some b → gearSide1Wins c1 c2 = false →
      gearReads ratio (gearReads ratio c1 c2).1 (gearReads ratio c1 c2).2 =
        (some (Datum.scalar Command.divF b ratio),
         some (Datum.scalar Command.mulF (Datum.scalar Command.divF b ratio) ratio))) := by
  refine ⟨fun h1 h2 => by subst h1; subst h2; rfl, fun a h1 hs => ?_, fun b h2 hs => ?_⟩
  · rw [gearReads_of_side1 ratio c1 c2 a h1 hs]
    exact gearReads_of_side1 ratio _ _ a rfl (gearSide1Wins_after ratio a a).1
  · rw [gearReads_of_side2 ratio c1 c2 b h2 hs]
    exact gearReads_of_side1 ratio _ _ _ rfl (gearSide1Wins_after ratio b b).2

/-- REPEATED UPDATE (gear train, tier S, reads). For a gear train wired as in `gear_relays_newest`, the commands read at
its two terminals after a SECOND update are `gearReads` applied to the reads after the first (spelled out in
`gearReads_twice`). -/
theorem gear_update_twice_reads (ratio : F) (w : World F) (i1 i2 : Nat) (h12 : i1 ≠ i2)
    (hext1 : (w.t i1).other ≠ some i1 ∧ (w.t i1).other ≠ some i2)
    (hext2 : (w.t i2).other ≠ some i1 ∧ (w.t i2).other ≠ some i2) :
    (GearTrain.update ratio (GearTrain.update ratio w i1 i2) i1 i2).getCommand i1 =
      (gearReads ratio (gearReads ratio (w.getCommand i1) (w.getCommand i2)).1
        (gearReads ratio (w.getCommand i1) (w.getCommand i2)).2).1 ∧
    (GearTrain.update ratio (GearTrain.update ratio w i1 i2) i1 i2).getCommand i2 =
      (gearReads ratio (gearReads ratio (w.getCommand i1) (w.getCommand i2)).1
        (gearReads ratio (w.getCommand i1) (w.getCommand i2)).2).2 := by
  have ho := (gear_relays_newest_slots ratio w i1 i2).1
  obtain ⟨hr1, hr2⟩ := gear_relays_newest ratio w i1 i2 h12 hext1 hext2
  have := gear_relays_newest ratio (GearTrain.update ratio w i1 i2) i1 i2 h12
    (by rw [ho]; exact hext1) (by rw [ho]; exact hext2)
  rw [hr1, hr2] at this
  exact this

/-- REPEATED UPDATE (gear train, tier S, slots). With `c1`, `c2` the commands read at the two terminals before the
FIRST update, `w1` the world after one update and `w2` after two: links never change; if nothing was read nothing is
written; if side 1 was relayed (`a`), the second update writes `a * ratio` into side 2's slot AGAIN — no slot differs
between `w2` and `w1`; if side 2 was relayed (`b`), the first update wrote `b / ratio` into side 1's slot and the second
— side 1 now winning the tie — writes `(b / ratio) * ratio` into SIDE 2's own slot, the issuing side; nothing else is
touched. -/
theorem gear_update_twice_slots (ratio : F) (w : World F) (i1 i2 : Nat) (h12 : i1 ≠ i2)
    (hext1 : (w.t i1).other ≠ some i1 ∧ (w.t i1).other ≠ some i2)
    (hext2 : (w.t i2).other ≠ some i1 ∧ (w.t i2).other ≠ some i2) :
    let w1 := GearTrain.update ratio w i1 i2
    let w2 := GearTrain.update ratio w1 i1 i2
    let c1 := w.getCommand i1
    let c2 := w.getCommand i2
    (∀ j, (w2.t j).other = (w.t j).other) ∧
    (c1 = none → c2 = none → ∀ j, (w2.t j).command = (w.t j).command) ∧
    (∀ a, c1 = some a → gearSide1Wins c1 c2 = true →
        (w2.t i2).command = some (Datum.scalar Command.mulF a ratio) ∧
        (∀ j, j ≠ i2 → (w2.t j).command = (w.t j).command) ∧
        ∀ j, (w2.t j).command = (w1.t j).command) ∧
    (∀ b, c2 = some b → gearSide1Wins c1 c2 = false →
        (w2.t i1).command = some (Datum.scalar Command.divF b ratio) ∧
        (w2.t i2).command = some (Datum.scalar Command.mulF (Datum.scalar Command.divF b ratio) ratio) ∧
        ∀ j, j ≠ i1 → j ≠ i2 → (w2.t j).command = (w.t j).command) := by
  intro w1 w2 c1 c2
  obtain ⟨ho, hnone, hs1, hs2⟩ := gear_relays_newest_slots ratio w i1 i2
  obtain ⟨hr1, hr2⟩ := gear_relays_newest ratio w i1 i2 h12 hext1 hext2
  obtain ⟨ho', hnone', hs1', _⟩ := gear_relays_newest_slots ratio w1 i1 i2
  refine ⟨fun j => (ho' j).trans (ho j), fun h1 h2 j => ?_, fun a h1 hs => ?_, fun b h2 hs => ?_⟩
  · have e1 : w1.getCommand i1 = none := by
      rw [hr1]; show (gearReads ratio c1 c2).1 = none; rw [h1, h2]; rfl
    have e2 : w1.getCommand i2 = none := by
      rw [hr2]; show (gearReads ratio c1 c2).2 = none; rw [h1, h2]; rfl
    exact (hnone' e1 e2 j).trans (hnone h1 h2 j)
  · have hg := gearReads_of_side1 ratio c1 c2 a h1 hs
    obtain ⟨hs, hn⟩ := hs1 a h1 hs
    have e1 : w1.getCommand i1 = some a := by rw [hr1]; show (gearReads ratio c1 c2).1 = _; rw [hg]
    have e2 : w1.getCommand i2 = some (Datum.scalar Command.mulF a ratio) := by
      rw [hr2]; show (gearReads ratio c1 c2).2 = _; rw [hg]
    obtain ⟨hs', hn'⟩ := hs1' a e1 (by rw [e1, e2]; exact (gearSide1Wins_after ratio a a).1)
    refine ⟨hs', fun j hj => (hn' j hj).trans (hn j hj), fun j => ?_⟩
    by_cases hj : j = i2
    · rw [hj, hs']; exact hs.symm
    · exact hn' j hj
  · have hg := gearReads_of_side2 ratio c1 c2 b h2 hs
    obtain ⟨hs, hn⟩ := hs2 b h2 hs
    have e1 : w1.getCommand i1 = some (Datum.scalar Command.divF b ratio) := by
      rw [hr1]; show (gearReads ratio c1 c2).1 = _; rw [hg]
    have e2 : w1.getCommand i2 = some b := by rw [hr2]; show (gearReads ratio c1 c2).2 = _; rw [hg]
    obtain ⟨hs', hn'⟩ := hs1' _ e1 (by rw [e1, e2]; exact (gearSide1Wins_after ratio b b).2)
    refine ⟨(hn' i1 h12).trans hs, hs', fun j hj1 hj2 => (hn' j hj2).trans (hn j hj1)⟩

end S

/-! ### tier R: factors in both directions; idempotence of the gear-train update in exact arithmetic -/
section R
variable {F : Type} [Field F] [LinearOrder F] [IsStrictOrderedRing F] [FloatLike F] [ExactScalar F]

/-- the factor of a device, entry → exit: `-1` for an inverter (either way), the gear ratio when entered at side 1,
its RECIPROCAL when entered at side 2, `1` for an axle -/
def DevB.ratio : DevB F → F
  | .inv _ _ => -1
  | .invRev _ _ => -1
  | .gear r _ _ => r
  | .gearRev r _ _ => r⁻¹
  | .axle _ _ _ => 1

theorem Dev1.toB_ratio (d : Dev1 F) : d.toB.ratio = d.ratio := by cases d <;> rfl

/-- traversing a device the other way inverts its factor -/
theorem DevB.ratio_rev (d : DevB F) : d.rev.ratio = (d.ratio)⁻¹ := by
  cases d with
  | inv a b => simp only [DevB.rev, DevB.ratio]; rw [inv_neg, inv_one]
  | invRev a b => simp only [DevB.rev, DevB.ratio]; rw [inv_neg, inv_one]
  | gear r a b => rfl
  | gearRev r a b => simp only [DevB.rev, DevB.ratio]; rw [inv_inv]
  | axle is a b => simp only [DevB.rev, DevB.ratio]; rw [inv_one]

/-- F (tier R, `chain_scale_is_product` extended to chains that may enter gear trains at side 2): the value that reaches
the far end is the issued value times the product of the factors along the chain — `ratio` for a gear train entered at
side 1, `ratio⁻¹` for one entered at side 2, `-1` for an inverter, `1` for an axle — and has the same kind. -/
theorem chainB_scale_is_product (ds : List (DevB F)) (c : Command F) :
    (chainMapB ds c).kind = c.kind ∧ (chainMapB ds c).raw = c.raw * (ds.map DevB.ratio).prod := by
  refine ⟨chainMapB_kind ds c, ?_⟩
  induction ds generalizing c with
  | nil => simp [chainMapB]
  | cons d ds ih =>
    rw [chainMapB, ih, List.map_cons, List.prod_cons]
    cases d with
    | inv a b => simp only [DevB.mapCmd, DevB.ratio, neg_raw]; ring
    | invRev a b => simp only [DevB.mapCmd, DevB.ratio, neg_raw]; ring
    | gear r a b => simp only [DevB.mapCmd, DevB.ratio, mulF_raw]; ring
    | gearRev r a b => simp only [DevB.mapCmd, DevB.ratio, divF_raw]; rw [div_eq_mul_inv]; ring
    | axle is a b => simp only [DevB.mapCmd, DevB.ratio]; ring

/-- for a chain entered at side 1 throughout this is `chain_scale_is_product` -/
theorem prod_ratio_toB (ds : List (Dev1 F)) :
    ((ds.map Dev1.toB).map DevB.ratio).prod = (ds.map Dev1.ratio).prod := by
  induction ds with
  | nil => rfl
  | cons d ds ih => simp only [List.map_cons, List.prod_cons, ih, Dev1.toB_ratio]

/-- the factors of the reversed chain multiply to the reciprocal of the forward product -/
theorem prod_ratio_revChain (ds : List (DevB F)) :
    ((revChain ds).map DevB.ratio).prod = ((ds.map DevB.ratio).prod)⁻¹ := by
  induction ds with
  | nil => simp [revChain]
  | cons d ds ih =>
    rw [revChain_cons, List.map_append, List.prod_append, ih, List.map_cons, List.map_nil, List.prod_cons,
      List.prod_nil, mul_one, DevB.ratio_rev, List.map_cons, List.prod_cons, mul_inv, mul_comm]

/-- F (tier R, REVERSE direction): traversed from its far end to its head, a chain DIVIDES the value by the product of
its (forward) factors — each gear train entered at side 1 on the way out divides by its ratio on the way back. -/
theorem chain_scale_is_product_reverse (ds : List (DevB F)) (c : Command F) :
    (chainMapB (revChain ds) c).kind = c.kind ∧
    (chainMapB (revChain ds) c).raw = c.raw / (ds.map DevB.ratio).prod := by
  obtain ⟨hk, hr⟩ := chainB_scale_is_product (revChain ds) c
  exact ⟨hk, by rw [hr, prod_ratio_revChain, div_eq_mul_inv]⟩

/-- in particular for a `Dev1` chain (inverters, gear trains entered at side 1, axles): forward the value is multiplied
by, backward it is divided by, the product of `Dev1.ratio` -/
theorem chain_scale_is_product_both (ds : List (Dev1 F)) (c : Command F) :
    (chainMap ds c).raw = c.raw * (ds.map Dev1.ratio).prod ∧
    (chainMapB (revChain (ds.map Dev1.toB)) c).raw = c.raw / (ds.map Dev1.ratio).prod := by
  refine ⟨(chain_scale_is_product ds c).2, ?_⟩
  rw [(chain_scale_is_product_reverse _ c).2, prod_ratio_toB]

theorem prod_ratio_ne_zero (ds : List (DevB F)) (hnz : ∀ d ∈ ds, d.ratio ≠ 0) : (ds.map DevB.ratio).prod ≠ 0 := by
  induction ds with
  | nil => simp
  | cons d ds ih =>
    rw [List.map_cons, List.prod_cons]
    exact mul_ne_zero (hnz d List.mem_cons_self) (ih (fun d' hd' => hnz d' (List.mem_cons_of_mem _ hd')))

/-- F (tier R): there and back again is the identity, provided no factor is zero (no gear ratio is `0`) -/
theorem chain_scale_roundtrip (ds : List (DevB F)) (c : Command F) (hnz : ∀ d ∈ ds, d.ratio ≠ 0) :
    chainMapB (revChain ds) (chainMapB ds c) = c := by
  obtain ⟨hk, hr⟩ := chain_scale_is_product_reverse ds (chainMapB ds c)
  obtain ⟨hk', hr'⟩ := chainB_scale_is_product ds c
  refine command_ext _ _ (hk.trans hk') ?_
  rw [hr, hr']
  exact mul_div_cancel_right₀ _ (prod_ratio_ne_zero ds hnz)

/-- F (tier R, end to end, stale commands allowed): the command read at the far end of a chain of any length has the
issuer's timestamp, the issuer's kind, and the issuer's value scaled by the product of the ratios. -/
theorem chain_relays_newest_scaled (d : Dev1 F) (ds : List (Dev1 F)) (w : World F) (c : Datum (Command F))
    (hok : ChainOK w (d :: ds)) (hc : w.getCommand d.fst = some c)
    (hold : ∀ j ∈ chainTerms (d :: ds), j ≠ d.fst → ∀ r, w.getCommand j = some r → r.time < c.time) :
    ∃ r, (runChain w (d :: ds)).getCommand (farEnd d ds) = some r ∧ r.time = c.time ∧
      r.value.kind = c.value.kind ∧ r.value.raw = c.value.raw * ((d :: ds).map Dev1.ratio).prod :=
  ⟨_, (chain_relays_newest d ds w c hok hc hold).2, rfl, (chain_scale_is_product (d :: ds) c.value).1,
    (chain_scale_is_product (d :: ds) c.value).2⟩

/-- F (tier R, end to end, REVERSE direction): a newest command read at the far end is read at the head, after updating
the devices in reverse order, with its timestamp and kind and its value DIVIDED by the product of the forward factors. -/
theorem chain_relays_newest_reverse_scaled (d : DevB F) (ds : List (DevB F)) (w : World F) (c : Datum (Command F))
    (hok : ChainOKB w (revChain (d :: ds))) (hc : w.getCommand (farEndB d ds) = some c)
    (hold : ∀ j ∈ chainTermsB (d :: ds), j ≠ farEndB d ds → ∀ r, w.getCommand j = some r → r.time < c.time) :
    ∃ r, (runChainB w (revChain (d :: ds))).getCommand d.fst = some r ∧ r.time = c.time ∧
      r.value.kind = c.value.kind ∧ r.value.raw = c.value.raw / ((d :: ds).map DevB.ratio).prod :=
  ⟨_, (chain_relays_newest_reverse d ds w c hok hc hold).2, rfl,
    (chain_scale_is_product_reverse (d :: ds) c.value).1, (chain_scale_is_product_reverse (d :: ds) c.value).2⟩

/-- in exact arithmetic dividing by a non-zero ratio and multiplying by it again gives the command back -/
theorem mulF_divF_cancel (c : Command F) (r : F) (hr : r ≠ 0) : Command.mulF (Command.divF c r) r = c :=
  command_ext _ _ (by rw [mulF_kind, divF_kind]) (by rw [mulF_raw, divF_raw]; field_simp)

/-- REPEATED UPDATE (tier R, `ratio ≠ 0`): the formula for the reads after two updates collapses to the one for the
reads after one -/
theorem gearReads_twice_exact (ratio : F) (hr : ratio ≠ 0) (c1 c2 : Option (Datum (Command F))) :
    gearReads ratio (gearReads ratio c1 c2).1 (gearReads ratio c1 c2).2 = gearReads ratio c1 c2 := by
  obtain ⟨h0, h1, h2⟩ := gearReads_twice ratio c1 c2
  rcases gearSide_cases c1 c2 with ⟨e1, e2⟩ | ⟨a, e1, hs⟩ | ⟨b, e2, hs⟩
  · rw [h0 e1 e2, e1, e2]; rfl
  · rw [h1 a e1 hs, gearReads_of_side1 ratio c1 c2 a e1 hs]
  · rw [h2 b e2 hs, gearReads_of_side2 ratio c1 c2 b e2 hs]
    have : Datum.scalar Command.mulF (Datum.scalar Command.divF b ratio) ratio = b := by
      show (⟨b.time, Command.mulF (Command.divF b.value ratio) ratio⟩ : Datum (Command F)) = b
      rw [mulF_divF_cancel _ _ hr]
    rw [this]

/-- REPEATED UPDATE (gear train, tier R, `ratio ≠ 0`): idempotence in exact arithmetic — the commands READ at both
terminals after two updates equal the commands read after one.  (The own SLOT of the issuing side 2 is nevertheless
rewritten by the second update, with `(b / ratio) * ratio`, see `gear_update_twice_slots`; in exact arithmetic that is
`b` again.) -/
theorem gear_update_twice_reads_exact (ratio : F) (hr : ratio ≠ 0) (w : World F) (i1 i2 : Nat) (h12 : i1 ≠ i2)
    (hext1 : (w.t i1).other ≠ some i1 ∧ (w.t i1).other ≠ some i2)
    (hext2 : (w.t i2).other ≠ some i1 ∧ (w.t i2).other ≠ some i2) :
    (GearTrain.update ratio (GearTrain.update ratio w i1 i2) i1 i2).getCommand i1 =
      (GearTrain.update ratio w i1 i2).getCommand i1 ∧
    (GearTrain.update ratio (GearTrain.update ratio w i1 i2) i1 i2).getCommand i2 =
      (GearTrain.update ratio w i1 i2).getCommand i2 := by
  obtain ⟨h1, h2⟩ := gear_update_twice_reads ratio w i1 i2 h12 hext1 hext2
  obtain ⟨r1, r2⟩ := gear_relays_newest ratio w i1 i2 h12 hext1 hext2
  rw [h1, h2, r1, r2, gearReads_twice_exact ratio hr]
  exact ⟨rfl, rfl⟩

end R

/-! ### non-vacuity and counterexamples: concrete instances over `Int` and `ℚ` payloads -/
section Examples
/-- integers as a (law-free) scalar, for examples only: `/` is integer division, so `(3 / 2) * 2 = 2 ≠ 3` -/
local instance : FloatLike Int := ⟨id, id, fun _ _ => 1, fun x => x.natAbs⟩

/-- the chain of `exC` — inverter (0→1), gear train ×3 (2→3), axle over {4,5,6} (4→5); links 1–2 and 3–4, both ways —
with STALE commands in it: at the inverter's exit (time 1), at the gear train's exit (time 4), at an axle terminal
(time 2); the head holds a velocity command issued at time 5 -/
def exN : World Int := ⟨7, fun
  | 0 => ⟨none, some ⟨5, .velocity 7⟩, none⟩
  | 1 => ⟨none, some ⟨1, .position 100⟩, some 2⟩
  | 2 => ⟨none, none, some 1⟩
  | 3 => ⟨none, some ⟨4, .velocity 50⟩, some 4⟩
  | 4 => ⟨none, none, some 3⟩
  | 6 => ⟨none, some ⟨2, .acceleration 9⟩, none⟩
  | _ => World.freshTerm⟩

theorem exN_ok : ChainOK exN (.inv 0 1 :: exDevs) := by
  simp [ChainOK, exDevs, Dev1.WF, Dev1.terms, Dev1.fst, Dev1.snd, chainTerms, exN, World.freshTerm]

/-- every command read at a chain terminal other than the head is strictly older than 5 … -/
theorem exN_old : ∀ j ∈ chainTerms (.inv 0 1 :: exDevs), j ≠ (Dev1.inv 0 1 : Dev1 Int).fst →
    ∀ r, exN.getCommand j = some r → r.time < 5 := by
  intro j hj hne r hr
  simp only [chainTerms, exDevs, Dev1.terms, List.cons_append, List.nil_append, List.mem_cons, List.mem_nil_iff,
    or_false, List.append_nil] at hj
  rcases hj with rfl | rfl | rfl | rfl | rfl | rfl | rfl
  · exact absurd rfl hne
  · have h : exN.getCommand 1 = some ⟨1, .position 100⟩ := rfl
    rw [h] at hr; cases hr; decide
  · have h : exN.getCommand 2 = some ⟨1, .position 100⟩ := rfl
    rw [h] at hr; cases hr; decide
  · have h : exN.getCommand 3 = some ⟨4, .velocity 50⟩ := rfl
    rw [h] at hr; cases hr; decide
  · have h : exN.getCommand 4 = some ⟨4, .velocity 50⟩ := rfl
    rw [h] at hr; cases hr; decide
  · have h : exN.getCommand 5 = none := rfl
    rw [h] at hr; cases hr
  · have h : exN.getCommand 6 = some ⟨2, .acceleration 9⟩ := rfl
    rw [h] at hr; cases hr; decide

/-- … and some of them are really there (the hypothesis `hnone` of `chain_relays` FAILS for this world) -/
example : exN.getCommand 3 = some ⟨4, .velocity 50⟩ ∧ exN.getCommand 2 = some ⟨1, .position 100⟩ := ⟨rfl, rfl⟩

/-- `chain_relays_newest` applies: the far end reads the head's command, `7 · (-1) · 3 · 1` -/
example : (runChain exN (.inv 0 1 :: exDevs)).getCommand 5 = some ⟨5, .velocity (-21)⟩ :=
  (chain_relays_newest (.inv 0 1) exDevs exN ⟨5, .velocity 7⟩ exN_ok rfl exN_old).2

/-- STRICTLY older is needed: a command with the SAME timestamp in the own slot of the gear train's entry terminal wins
the tie there, and the far end gets that one (`1 · 3`, a position) instead of the head's (`-21`, a velocity) -/
def exTie : World Int := ⟨4, fun
  | 0 => ⟨none, some ⟨5, .velocity 7⟩, none⟩
  | 1 => ⟨none, none, some 2⟩
  | 2 => ⟨none, some ⟨5, .position 1⟩, some 1⟩
  | _ => World.freshTerm⟩
example : ChainOK exTie [.inv 0 1, .gear 3 2 3] := by
  simp [ChainOK, Dev1.WF, Dev1.terms, Dev1.fst, Dev1.snd, chainTerms, exTie, World.freshTerm]
example : exTie.getCommand 0 = some ⟨5, .velocity 7⟩ ∧ exTie.getCommand 2 = some ⟨5, .position 1⟩ ∧
    exTie.getCommand 1 = some ⟨5, .position 1⟩ ∧ exTie.getCommand 3 = none ∧
    (runChain exTie [.inv 0 1, .gear 3 2 3]).getCommand 3 = some ⟨5, .position 3⟩ := ⟨rfl, rfl, rfl, rfl, rfl⟩

/-! the reverse direction -/

/-- the same three devices as a bidirectional chain -/
def exDevsB : List (DevB Int) := [.inv 0 1, .gear 3 2 3, .axle [4, 5, 6] 4 5]
/-- traversed from the far end: axle (5→4), gear train entered at side 2 (3→2), inverter entered at side 2 (1→0) -/
example : revChain exDevsB = [.axle [4, 5, 6] 5 4, .gearRev 3 3 2, .invRev 1 0] := rfl

/-- as `exN`, but the newest command (velocity 42, time 8) is issued at the FAR end, terminal 5; the head's command of
time 5 is now one of the stale ones -/
def exR : World Int := ⟨7, fun
  | 0 => ⟨none, some ⟨5, .velocity 7⟩, none⟩
  | 1 => ⟨none, some ⟨1, .position 100⟩, some 2⟩
  | 2 => ⟨none, none, some 1⟩
  | 3 => ⟨none, some ⟨4, .velocity 50⟩, some 4⟩
  | 4 => ⟨none, none, some 3⟩
  | 5 => ⟨none, some ⟨8, .velocity 42⟩, none⟩
  | 6 => ⟨none, some ⟨2, .acceleration 9⟩, none⟩
  | _ => World.freshTerm⟩

theorem exR_ok : ChainOKB exR exDevsB := by
  simp [ChainOKB, exDevsB, DevB.WF, DevB.terms, DevB.fst, DevB.snd, chainTermsB, exR, World.freshTerm]

theorem exR_sym : ∀ i p, (exR.t i).other = some p → (exR.t p).other = some i := by
  intro i p h
  match i, h with
  | 0, h => cases h
  | 1, h => cases h; rfl
  | 2, h => cases h; rfl
  | 3, h => cases h; rfl
  | 4, h => cases h; rfl
  | 5, h => cases h
  | 6, h => cases h
  | (n + 7), h => cases h

/-- the chain conditions of the reversed chain follow (`ChainOKB_revChain`) -/
theorem exR_rev_ok : ChainOKB exR (revChain exDevsB) :=
  ChainOKB_revChain exR exR_sym _ _ exR_ok (fun p _ h => by cases h)

theorem exR_old : ∀ j ∈ chainTermsB exDevsB, j ≠ 5 → ∀ r, exR.getCommand j = some r → r.time < 8 := by
  intro j hj hne r hr
  simp only [chainTermsB, exDevsB, DevB.terms, List.cons_append, List.nil_append, List.mem_cons, List.mem_nil_iff,
    or_false, List.append_nil] at hj
  rcases hj with rfl | rfl | rfl | rfl | rfl | rfl | rfl
  · have h : exR.getCommand 0 = some ⟨5, .velocity 7⟩ := rfl
    rw [h] at hr; cases hr; decide
  · have h : exR.getCommand 1 = some ⟨1, .position 100⟩ := rfl
    rw [h] at hr; cases hr; decide
  · have h : exR.getCommand 2 = some ⟨1, .position 100⟩ := rfl
    rw [h] at hr; cases hr; decide
  · have h : exR.getCommand 3 = some ⟨4, .velocity 50⟩ := rfl
    rw [h] at hr; cases hr; decide
  · have h : exR.getCommand 4 = some ⟨4, .velocity 50⟩ := rfl
    rw [h] at hr; cases hr; decide
  · exact absurd rfl hne
  · have h : exR.getCommand 6 = some ⟨2, .acceleration 9⟩ := rfl
    rw [h] at hr; cases hr; decide

/-- `chain_relays_newest_reverse` applies: updating axle, gear train, inverter in this order brings the far end's command
to the head with the reciprocal factors, `42 · 1 / 3 · (-1) = -14` -/
example : (runChainB exR (revChain exDevsB)).getCommand 0 = some ⟨8, .velocity (-14)⟩ :=
  (chain_relays_newest_reverse (.inv 0 1) [.gear 3 2 3, .axle [4, 5, 6] 4 5] exR ⟨8, .velocity 42⟩
    exR_rev_ok rfl exR_old).2
/-- and the run is literally: axle first, then the gear train, then the inverter — the model functions the driver runs -/
example : runChainB exR (revChain exDevsB) =
    Invert.update (GearTrain.update 3 (Axle.update exR [4, 5, 6]) 2 3) 0 1 := rfl

/-! repeated updates -/

/-- a gear train with ratio 2 on terminals 0 and 1, joined to outside terminals 2 and 3; the newer command (position 3,
time 9) is issued on SIDE 2 -/
def exG : World Int := ⟨4, fun
  | 0 => ⟨none, none, some 2⟩
  | 1 => ⟨none, none, some 3⟩
  | 2 => ⟨none, some ⟨5, .velocity 3⟩, some 0⟩
  | 3 => ⟨none, some ⟨9, .position 3⟩, some 1⟩
  | _ => World.freshTerm⟩

/-- the wiring hypotheses of `gear_update_twice_slots` / `gear_update_twice_reads` hold, and side 2 is relayed -/
example : (0 : Nat) ≠ 1 ∧ ((exG.t 0).other ≠ some 0 ∧ (exG.t 0).other ≠ some 1) ∧
    ((exG.t 1).other ≠ some 0 ∧ (exG.t 1).other ≠ some 1) := by decide
example : exG.getCommand 1 = some ⟨9, .position 3⟩ ∧
    gearSide1Wins (exG.getCommand 0) (exG.getCommand 1) = false := ⟨rfl, rfl⟩

/-- WITHOUT exact arithmetic the second update changes the issuing side: after ONE update side 2 still reads the issued
`3` (and side 1 reads `3 / 2 = 1`); the SECOND update — side 1 now winning the tie — stores `(3 / 2) * 2 = 2` in side 2's
own slot, and side 2 reads `2`, no longer the `3` that was issued there.  So C13's "unchanged at the issuing side" holds
after repeated updates only up to the rounding of `(b / r) * r`. -/
example :
    (GearTrain.update 2 exG 0 1).getCommand 0 = some ⟨9, .position 1⟩ ∧
    (GearTrain.update 2 exG 0 1).getCommand 1 = some ⟨9, .position 3⟩ ∧
    ((GearTrain.update 2 (GearTrain.update 2 exG 0 1) 0 1).t 1).command = some ⟨9, .position 2⟩ ∧
    (GearTrain.update 2 (GearTrain.update 2 exG 0 1) 0 1).getCommand 1 = some ⟨9, .position 2⟩ :=
  ⟨rfl, rfl, rfl, rfl⟩
example : ((3 : Int) / 2) * 2 ≠ 3 := by decide
/-- the same, obtained from the slot formula -/
example : ((GearTrain.update 2 (GearTrain.update 2 exG 0 1) 0 1).t 1).command =
    some (Datum.scalar Command.mulF (Datum.scalar Command.divF ⟨9, .position 3⟩ 2) 2) :=
  ((gear_update_twice_slots 2 exG 0 1 (by decide) (by decide) (by decide)).2.2.2 ⟨9, .position 3⟩ rfl rfl).2.1

/-- with the exact scalar `ℚ` (ratio `2 ≠ 0`) the hypotheses of `gear_update_twice_reads_exact` hold for the same wiring,
and side 2 reads the issued `3` after two updates as after one -/
def exGQ : World ℚ := ⟨4, fun
  | 0 => ⟨none, none, some 2⟩
  | 1 => ⟨none, none, some 3⟩
  | 2 => ⟨none, some ⟨5, .velocity 3⟩, some 0⟩
  | 3 => ⟨none, some ⟨9, .position 3⟩, some 1⟩
  | _ => World.freshTerm⟩
example : (GearTrain.update 2 (GearTrain.update 2 exGQ 0 1) 0 1).getCommand 1 =
    (GearTrain.update 2 exGQ 0 1).getCommand 1 :=
  (gear_update_twice_reads_exact (2 : ℚ) (by norm_num) exGQ 0 1 (by decide) (by decide) (by decide)).2

/-- inverter, twice: the hypotheses of `invert_update_twice_side2_roundtrip` hold in `exW` (`Thm/C13.lean`: side 2's
position command of time 9 is the newest) -/
example : (Invert.update (Invert.update exW 0 1) 0 1).getCommand 1 = some ⟨9, .position 4⟩ :=
  invert_update_twice_side2_roundtrip (F := Int) (fun x => by omega) exW 0 1 (by decide) ⟨9, .position 4⟩ rfl
    (fun a h => by
      have h' : exW.getCommand 0 = some ⟨5, .velocity 3⟩ := rfl
      rw [h'] at h; cases h; decide)
example : (Invert.update (Invert.update exW 0 1) 0 1).getCommand 0 = some ⟨9, .position (-4)⟩ :=
  (invert_update_twice_reads exW 0 1 (by decide)).2.1

/-- tier R, both directions, over `ℚ`: out `7 · (-1) · 3 · 1 = -21`, back `-21 / (-3) = 7` -/
example : (chainMapB ([.inv 0 1, .gear 3 2 3, .axle [4, 5, 6] 4 5] : List (DevB ℚ)) (.velocity 7)).raw = -21 ∧
    (chainMapB (revChain ([.inv 0 1, .gear 3 2 3, .axle [4, 5, 6] 4 5] : List (DevB ℚ))) (.velocity (-21))).raw = 7 := by
  constructor
  · rw [(chainB_scale_is_product _ _).2]; simp [DevB.ratio, Command.raw]; norm_num
  · rw [(chain_scale_is_product_reverse _ _).2]; simp [DevB.ratio, Command.raw]; norm_num
example : ∀ d ∈ ([.inv 0 1, .gear 3 2 3, .axle [4, 5, 6] 4 5] : List (DevB ℚ)), d.ratio ≠ 0 := by
  intro d hd
  simp only [List.mem_cons, List.mem_nil_iff, or_false] at hd
  rcases hd with rfl | rfl | rfl <;> simp [DevB.ratio]
end Examples

end Rrtk.Thm.C13
