/-
C17, the statements of `Rrtk/RefAlias.lean` (`rawAlias`, `cloneFrom`, `toDyn…With`) on the heap machine.

IMPORTANT: the invariant `HInv` of `Thm/Lemmas/C17Heap.lean` counts EVERY handle to an address (`cnt`) and requires the kind of the
cell to BE the variant of every handle to it.  A raw alias of an `Rc` / `Arc` object violates both (`hinv_rawAlias_false`
below), so `HInv` is NOT preserved by `rawAlias` of a counted handle.  The invariant of the extended machine is `HInvA`:
the strong count is the number of COUNTED handles (`cntC`), a freed cell has no COUNTED handle, and a handle is either
of the cell's kind or the raw-pointer variant INTO that kind (`RefVariant.rawOf`).  `HInv s ↔ HInvA s ∧ Proper s`.
Tier S (no scalar).
-/
import Rrtk.Thm.Lemmas.C17Heap
import Rrtk.RefAlias
set_option linter.unusedSectionVars false
set_option linter.unusedSimpArgs false
namespace Rrtk.Thm.C17
open Rrtk

/-! ## 1. `to_dyn!` with the arm table as a parameter -/

theorem toDynWith_std (feats : List String) (hp : Heap) (h : RHandle) :
    Heap.toDynWith (toDynHasArm feats) hp h = Heap.toDyn feats hp h := rfl

theorem toDynMoveWith_std (feats : List String) (s : RState) (i : Nat) :
    s.toDynMoveWith (toDynHasArm feats) i = s.toDynMove feats i := rfl

theorem toDynCloneWith_std (feats : List String) (s : RState) (i : Nat) :
    s.toDynCloneWith (toDynHasArm feats) i = s.toDynClone feats i := rfl

/-! ## 2. counting the COUNTED handles -/

/-- `1` if `h` is a counted handle to address `a` -/
def wC (a : Nat) (h : RHandle) : Nat := if h.addr = a ∧ h.variant.counted = true then 1 else 0

/-- number of live COUNTED handles (`Rc` / `Arc`) to address `a` in a handle table -/
def cntC (a : Nat) : List (Option RHandle) → Nat
  | [] => 0
  | none :: t => cntC a t
  | some h :: t => wC a h + cntC a t

theorem cntC_append (a : Nat) (l : List (Option RHandle)) (h : RHandle) :
    cntC a (l ++ [some h]) = cntC a l + wC a h := by
  induction l with
  | nil => simp [cntC]
  | cons x t ih =>
    cases x with
    | none => simpa [cntC] using ih
    | some g => simp only [List.cons_append, cntC, ih]; omega

theorem cntC_set_some (a : Nat) (l : List (Option RHandle)) (i : Nat) (h h' : RHandle) (hi : l.getD i none = some h) :
    cntC a (l.set i (some h')) + wC a h = cntC a l + wC a h' := by
  induction l generalizing i with
  | nil => simp at hi
  | cons x t ih =>
    cases i with
    | zero =>
      simp only [List.getD_cons_zero] at hi
      subst hi
      simp only [List.set_cons_zero, cntC]; omega
    | succ j =>
      simp only [List.getD_cons_succ] at hi
      have := ih j hi
      cases x with
      | none => simpa [cntC] using this
      | some g => simp only [List.set_cons_succ, cntC]; omega

theorem cntC_set_none (a : Nat) (l : List (Option RHandle)) (i : Nat) (h : RHandle) (hi : l.getD i none = some h) :
    cntC a (l.set i none) + wC a h = cntC a l := by
  induction l generalizing i with
  | nil => simp at hi
  | cons x t ih =>
    cases i with
    | zero =>
      simp only [List.getD_cons_zero] at hi
      subst hi
      simp only [List.set_cons_zero, cntC]; omega
    | succ j =>
      simp only [List.getD_cons_succ] at hi
      have := ih j hi
      cases x with
      | none => simpa [cntC] using this
      | some g => simp only [List.set_cons_succ, cntC]; omega

theorem cntC_pos (l : List (Option RHandle)) (h : RHandle) (hm : some h ∈ l) (hk : h.variant.counted = true) :
    1 ≤ cntC h.addr l := by
  induction l with
  | nil => simp at hm
  | cons x t ih =>
    rcases List.mem_cons.1 hm with he | ht
    · subst he; simp [cntC, wC, hk]
    · have := ih ht
      cases x with
      | none => simpa [cntC] using this
      | some g => simp only [cntC]; omega

theorem cntC_zero_of_forall (a : Nat) (l : List (Option RHandle)) (hne : ∀ h, some h ∈ l → h.addr ≠ a) : cntC a l = 0 := by
  induction l with
  | nil => rfl
  | cons x t ih =>
    have ht := ih (fun h hm => hne h (List.mem_cons_of_mem _ hm))
    cases x with
    | none => simpa [cntC] using ht
    | some g =>
      have := hne g (List.mem_cons_self ..)
      simp [cntC, wC, this, ht]

theorem wC_ne (a : Nat) (h : RHandle) (hne : h.addr ≠ a) : wC a h = 0 := by simp [wC, hne]
theorem wC_raw (a : Nat) (h : RHandle) (hk : h.variant.counted = false) : wC a h = 0 := by simp [wC, hk]
theorem wC_self (h : RHandle) (hk : h.variant.counted = true) : wC h.addr h = 1 := by simp [wC, hk]

/-! ## 3. the invariant of the extended machine -/

/-- a handle of variant `v` may point at a cell of kind `k`: it is of that kind, or it is the raw pointer INTO that kind -/
def Typed (k v : RefVariant) : Prop := v = k ∨ v = k.rawOf

theorem typed_counted (k v : RefVariant) (ht : Typed k v) (hv : v.counted = true) : k = v := by
  rcases ht with h | h
  · exact h.symm
  · subst h; cases k <;> simp [RefVariant.rawOf, RefVariant.counted] at hv

theorem typed_rawOf (k v : RefVariant) (ht : Typed k v) : Typed k v.rawOf := by
  rcases ht with h | h
  · subst h; exact Or.inr rfl
  · subst h; right; cases k <;> rfl

theorem rawOf_not_counted (v : RefVariant) : v.rawOf.counted = false := by cases v <;> rfl

/-- (1) every live handle points at an allocated cell it is typed for; (2) for every cell: a live counted cell's strong
count is the number of live COUNTED handles to it, and is at least 1; a freed cell has no live COUNTED handle; a cell of a
raw-pointer kind (a static) is never freed -/
def HInvA (s : RState) : Prop :=
  (∀ h, some h ∈ s.table → ∃ c, s.heap[h.addr]? = some c ∧ Typed c.kind h.variant) ∧
  (∀ a c, s.heap[a]? = some c →
    (c.kind.counted = true → c.freed = false → c.strong = cntC a s.table ∧ 1 ≤ c.strong) ∧
    (c.freed = true → cntC a s.table = 0) ∧
    (c.kind.counted = false → c.freed = false))

theorem hinvA_empty : HInvA RState.empty :=
  ⟨fun h hm => by simp [RState.empty] at hm, fun a c hc => by simp [RState.empty] at hc⟩

/-- frame rule: the cell at `a` is replaced by one of the same kind, handles are only added / removed at `a` -/
theorem hinvA_frame (s s' : RState) (a : Nat) (c c' : HCell) (hI : HInvA s) (hc : s.heap[a]? = some c)
    (hk : c'.kind = c.kind)
    (hheap : ∀ b : Nat, s'.heap[b]? = if b = a then some c' else s.heap[b]?)
    (htyp : ∀ h, some h ∈ s'.table → some h ∈ s.table ∨ (h.addr = a ∧ Typed c.kind h.variant))
    (hcnt : ∀ b, b ≠ a → cntC b s'.table = cntC b s.table)
    (h1 : c'.kind.counted = true → c'.freed = false → c'.strong = cntC a s'.table ∧ 1 ≤ c'.strong)
    (h2 : c'.freed = true → cntC a s'.table = 0)
    (h3 : c'.kind.counted = false → c'.freed = false) : HInvA s' := by
  obtain ⟨t1, t2⟩ := hI
  refine ⟨?_, ?_⟩
  · intro h hm
    rw [hheap]
    rcases htyp h hm with hm0 | ⟨ha, ht⟩
    · obtain ⟨c0, hc0, hk0⟩ := t1 h hm0
      by_cases hb : h.addr = a
      · refine ⟨c', by simp [hb], ?_⟩
        rw [hb, hc] at hc0
        simp only [Option.some.injEq] at hc0
        rw [hk, hc0]; exact hk0
      · exact ⟨c0, by simp only [hb, if_false]; exact hc0, hk0⟩
    · exact ⟨c', by simp [ha], by rw [hk]; exact ht⟩
  · intro b cb hcb
    rw [hheap] at hcb
    by_cases hb : b = a
    · subst hb
      simp only [if_true, Option.some.injEq] at hcb
      subst hcb
      exact ⟨h1, h2, h3⟩
    · simp only [hb, if_false] at hcb
      rw [hcnt b hb]
      exact t2 b cb hcb

/-- `HInvA` sees the table only through membership and `cntC` -/
theorem hinvA_table_congr (hp : Heap) (t t' : List (Option RHandle)) (hI : HInvA ⟨hp, t⟩)
    (hm : ∀ h, some h ∈ t' → some h ∈ t) (hc : ∀ a, cntC a t' = cntC a t) : HInvA ⟨hp, t'⟩ := by
  refine ⟨fun h hh => hI.1 h (hm h hh), fun a c hca => ?_⟩
  show (_ → _ → c.strong = cntC a t' ∧ _) ∧ (_ → cntC a t' = 0) ∧ _
  rw [hc a]; exact hI.2 a c hca

/-! ## 4. the building blocks preserve `HInvA` -/

/-- a handle that is not counted is pushed, pointing where a live handle points (heap untouched) -/
theorem hinvA_push_raw (s : RState) (h h' : RHandle) (hI : HInvA s) (hm : some h ∈ s.table)
    (hk : h'.variant.counted = false) (ha : h'.addr = h.addr) (ht : ∀ k, Typed k h.variant → Typed k h'.variant) :
    HInvA ⟨s.heap, s.table ++ [some h']⟩ := by
  obtain ⟨c, hc, hty⟩ := hI.1 h hm
  have hc2 := hI.2 h.addr c hc
  have hcnt : ∀ b, cntC b (s.table ++ [some h']) = cntC b s.table := by
    intro b; rw [cntC_append, wC_raw _ _ hk]; rfl
  refine hinvA_frame s _ h.addr c c hI hc rfl (heap_self _ _ _ hc) ?_ (fun b _ => hcnt b) ?_ ?_ hc2.2.2
  · intro g hg
    rcases List.mem_append.1 hg with hg | hg
    · exact Or.inl hg
    · simp only [List.mem_singleton, Option.some.injEq] at hg
      subst hg; exact Or.inr ⟨ha, ht _ hty⟩
  · intro hkc hf
    show c.strong = cntC h.addr (s.table ++ [some h']) ∧ 1 ≤ c.strong
    rw [hcnt]; exact hc2.1 hkc hf
  · intro hf
    show cntC h.addr (s.table ++ [some h']) = 0
    rw [hcnt]; exact hc2.2.1 hf

/-- a live COUNTED handle is duplicated and the strong count incremented -/
theorem hinvA_push_counted (s : RState) (h h' : RHandle) (c : HCell) (hI : HInvA s) (hm : some h ∈ s.table)
    (hk : h.variant.counted = true) (hcell : s.heap.cell h.addr = .ok c) (ha : h'.addr = h.addr)
    (hv : h'.variant = h.variant) :
    HInvA ⟨s.heap.set h.addr { c with strong := c.strong + 1 }, s.table ++ [some h']⟩ := by
  obtain ⟨hc, hfr⟩ := (cell_ok _ _ _).1 hcell
  obtain ⟨c0, hc0, hty⟩ := hI.1 h hm
  rw [hc] at hc0; simp only [Option.some.injEq] at hc0; subst hc0
  have hkc := typed_counted _ _ hty hk
  have hc2 := hI.2 h.addr c hc
  have hkc' : c.kind.counted = true := by rw [hkc]; exact hk
  have hw : wC h.addr h' = 1 := by rw [← ha]; exact wC_self h' (by rw [hv]; exact hk)
  refine hinvA_frame s _ h.addr c { c with strong := c.strong + 1 } hI hc rfl
    (get_set _ _ _ (cell_lt _ _ _ hcell)) ?_ ?_ ?_ ?_ ?_
  · intro g hg
    rcases List.mem_append.1 hg with hg | hg
    · exact Or.inl hg
    · simp only [List.mem_singleton, Option.some.injEq] at hg
      subst hg; exact Or.inr ⟨ha, Or.inl (by rw [hv, hkc])⟩
  · intro b hb
    show cntC b (s.table ++ [some h']) = cntC b s.table
    rw [cntC_append, wC_ne _ _ (by rw [ha]; exact fun e => hb e.symm)]; rfl
  · intro _ _
    show c.strong + 1 = cntC h.addr (s.table ++ [some h']) ∧ 1 ≤ c.strong + 1
    rw [cntC_append, hw]
    have := (hc2.1 hkc' hfr).1
    omega
  · intro hf; change c.freed = true at hf; rw [hfr] at hf; cases hf
  · intro hcn; change c.kind.counted = false at hcn; rw [hkc'] at hcn; cases hcn

/-- a live handle is moved out of its slot and an equivalent one pushed (heap untouched) -/
theorem hinvA_move (s : RState) (i : Nat) (h h' : RHandle) (hI : HInvA s) (hi : s.table.getD i none = some h)
    (ha : h'.addr = h.addr) (hv : h'.variant = h.variant) :
    HInvA ⟨s.heap, s.table.set i none ++ [some h']⟩ := by
  have hm := mem_of_getD _ _ _ hi
  obtain ⟨c, hc, hty⟩ := hI.1 h hm
  have hc2 := hI.2 h.addr c hc
  have hw : ∀ b, wC b h' = wC b h := by intro b; simp only [wC, ha, hv]
  have hcnt : ∀ b, cntC b (s.table.set i none ++ [some h']) = cntC b s.table := by
    intro b
    rw [cntC_append, hw]
    exact cntC_set_none b s.table i h hi
  refine hinvA_frame s _ h.addr c c hI hc rfl (heap_self _ _ _ hc) ?_ (fun b _ => hcnt b) ?_ ?_ hc2.2.2
  · intro g hg
    rcases List.mem_append.1 hg with hg | hg
    · rcases List.mem_or_eq_of_mem_set hg with hg | hg
      · exact Or.inl hg
      · cases hg
    · simp only [List.mem_singleton, Option.some.injEq] at hg
      subst hg; exact Or.inr ⟨ha, by rw [hv]; exact hty⟩
  · intro hk hf
    show c.strong = cntC h.addr (s.table.set i none ++ [some h']) ∧ 1 ≤ c.strong
    rw [hcnt]; exact hc2.1 hk hf
  · intro hf
    show cntC h.addr (s.table.set i none ++ [some h']) = 0
    rw [hcnt]; exact hc2.2.1 hf

/-- the payload of a live cell is overwritten -/
theorem hinvA_write_cell (s : RState) (a : Nat) (c : HCell) (v : Int) (hI : HInvA s) (hcell : s.heap.cell a = .ok c) :
    HInvA ⟨s.heap.set a { c with value := v }, s.table⟩ := by
  obtain ⟨hc, hfr⟩ := (cell_ok _ _ _).1 hcell
  have hc2 := hI.2 a c hc
  exact hinvA_frame s _ a c { c with value := v } hI hc rfl (get_set _ _ _ (cell_lt _ _ _ hcell))
    (fun g hg => Or.inl hg) (fun _ _ => rfl) hc2.1 hc2.2.1 hc2.2.2

/-- a handle that is not counted is dropped (heap untouched) -/
theorem hinvA_unset_raw (s : RState) (i : Nat) (h : RHandle) (hI : HInvA s) (hi : s.table.getD i none = some h)
    (hk : h.variant.counted = false) : HInvA ⟨s.heap, s.table.set i none⟩ := by
  refine hinvA_table_congr s.heap s.table _ hI ?_ ?_
  · intro g hg
    rcases List.mem_or_eq_of_mem_set hg with hg | hg
    · exact hg
    · cases hg
  · intro a
    have := cntC_set_none a s.table i h hi
    rw [wC_raw _ _ hk] at this; exact this

/-- a counted handle is dropped: the strong count is decremented and the cell freed when it reaches 0 -/
theorem hinvA_unset_counted (s : RState) (i : Nat) (h : RHandle) (c : HCell) (hI : HInvA s)
    (hi : s.table.getD i none = some h) (hk : h.variant.counted = true) (hcell : s.heap.cell h.addr = .ok c) :
    HInvA ⟨s.heap.set h.addr { c with strong := c.strong - 1, freed := c.strong - 1 == 0 }, s.table.set i none⟩ := by
  have hm := mem_of_getD _ _ _ hi
  obtain ⟨hc, hfr⟩ := (cell_ok _ _ _).1 hcell
  obtain ⟨c0, hc0, hty⟩ := hI.1 h hm
  rw [hc] at hc0; simp only [Option.some.injEq] at hc0; subst hc0
  have hkc := typed_counted _ _ hty hk
  have hc2 := hI.2 h.addr c hc
  have hkc' : c.kind.counted = true := by rw [hkc]; exact hk
  have hstrong := (hc2.1 hkc' hfr).1
  have hdec := cntC_set_none h.addr s.table i h hi
  rw [wC_self h hk] at hdec
  refine hinvA_frame s _ h.addr c { c with strong := c.strong - 1, freed := c.strong - 1 == 0 } hI hc rfl
    (get_set _ _ _ (cell_lt _ _ _ hcell)) ?_ ?_ ?_ ?_ ?_
  · intro g hg
    rcases List.mem_or_eq_of_mem_set hg with hg | hg
    · exact Or.inl hg
    · cases hg
  · intro b hb
    have := cntC_set_none b s.table i h hi
    rw [wC_ne _ _ (fun e => hb e.symm)] at this; exact this
  · intro _ hf
    change (c.strong - 1 == 0) = false at hf
    show c.strong - 1 = cntC h.addr (s.table.set i none) ∧ 1 ≤ c.strong - 1
    have : c.strong - 1 ≠ 0 := by simpa using hf
    omega
  · intro hf
    change (c.strong - 1 == 0) = true at hf
    show cntC h.addr (s.table.set i none) = 0
    have : c.strong - 1 = 0 := by simpa using hf
    omega
  · intro hcn; change c.kind.counted = false at hcn; rw [hkc'] at hcn; cases hcn

/-- a constructor: a fresh cell and the first handle to it -/
theorem hinvA_alloc (s : RState) (k : RefVariant) (v : Int) (hI : HInvA s) : HInvA (s.alloc k v) := by
  obtain ⟨t1, t2⟩ := hI
  have hlt : ∀ h, some h ∈ s.table → h.addr < s.heap.length := by
    intro h hm
    obtain ⟨c, hc, _⟩ := t1 h hm
    by_cases hlt : h.addr < s.heap.length
    · exact hlt
    · rw [List.getElem?_eq_none (Nat.le_of_not_lt hlt)] at hc; cases hc
  refine ⟨?_, ?_⟩
  · intro h hm
    simp only [RState.alloc, Heap.alloc] at hm ⊢
    rcases List.mem_append.1 hm with hm | hm
    · obtain ⟨c, hc, hk⟩ := t1 h hm
      exact ⟨c, by rw [List.getElem?_append_left (hlt h hm)]; exact hc, hk⟩
    · simp only [List.mem_singleton, Option.some.injEq] at hm
      subst hm
      exact ⟨⟨k, v, false, if k.counted then 1 else 0⟩, by simp, Or.inl rfl⟩
  · intro b cb hcb
    simp only [RState.alloc, Heap.alloc] at hcb ⊢
    rw [cntC_append]
    by_cases hb : b < s.heap.length
    · rw [List.getElem?_append_left hb] at hcb
      rw [wC_ne _ _ (by show s.heap.length ≠ b; omega)]
      exact t2 b cb hcb
    · have hz : cntC b s.table = 0 := cntC_zero_of_forall b s.table (fun h hm => by have := hlt h hm; omega)
      by_cases hb' : b = s.heap.length
      · subst hb'
        simp only [List.getElem?_concat_length, Option.some.injEq] at hcb
        subst hcb
        refine ⟨fun hk _ => by simp [hk, hz, wC], fun hf => (by cases hf), fun _ => rfl⟩
      · rw [List.getElem?_eq_none (by simp; omega)] at hcb; cases hcb

/-! ### `Clone` and drop glue, whatever the variant -/

/-- `Clone` of a live handle; the clone (or anything with its address and variant) is pushed -/
theorem hinvA_heap_clone (s : RState) (h h' h'' : RHandle) (hp' : Heap) (hI : HInvA s) (hm : some h ∈ s.table)
    (hc : s.heap.clone h = .ok (hp', h')) (ha : h''.addr = h.addr) (hv : h''.variant = h.variant) :
    HInvA ⟨hp', s.table ++ [some h'']⟩ := by
  rw [heap_clone_eq] at hc
  cases hk : h.variant.counted with
  | false =>
    simp only [hk, Bool.false_eq_true, if_false, Except.ok.injEq, Prod.mk.injEq] at hc
    obtain ⟨rfl, rfl⟩ := hc
    exact hinvA_push_raw s h h'' hI hm (by rw [hv]; exact hk) ha (fun k ht => by rw [hv]; exact ht)
  | true =>
    simp only [hk, if_true] at hc
    cases hcell : s.heap.cell h.addr with
    | error e => rw [hcell] at hc; cases hc
    | ok c =>
      rw [hcell] at hc
      simp only [Except.ok.injEq, Prod.mk.injEq] at hc
      obtain ⟨rfl, rfl⟩ := hc
      exact hinvA_push_counted s h h'' c hI hm hk hcell ha hv

/-- the clone IS the handle -/
theorem heap_clone_handle (hp hp' : Heap) (h h' : RHandle) (hc : hp.clone h = .ok (hp', h')) : h' = h := by
  rw [heap_clone_eq] at hc
  cases hk : h.variant.counted with
  | false =>
    simp only [hk, Bool.false_eq_true, if_false, Except.ok.injEq, Prod.mk.injEq] at hc
    exact hc.2.symm
  | true =>
    simp only [hk, if_true] at hc
    cases hcell : hp.cell h.addr with
    | error e => rw [hcell] at hc; cases hc
    | ok c =>
      rw [hcell] at hc
      simp only [Except.ok.injEq, Prod.mk.injEq] at hc
      exact hc.2.symm

/-- the drop glue run on the handle in slot `i`, which is emptied -/
theorem hinvA_heap_drop (s : RState) (i : Nat) (h : RHandle) (hp' : Heap) (hI : HInvA s)
    (hi : s.table.getD i none = some h) (hd : s.heap.drop h = .ok hp') : HInvA ⟨hp', s.table.set i none⟩ := by
  unfold Heap.drop at hd
  cases hk : h.variant.counted with
  | false =>
    simp only [hk, Bool.false_eq_true, if_false, Except.ok.injEq] at hd
    subst hd; exact hinvA_unset_raw s i h hI hi hk
  | true =>
    simp only [hk, if_true] at hd
    cases hcell : s.heap.cell h.addr with
    | error e => rw [hcell] at hd; cases hd
    | ok c =>
      rw [hcell] at hd
      simp only [Except.ok.injEq] at hd
      subst hd; exact hinvA_unset_counted s i h c hI hi hk hcell

theorem slot_ok (s : RState) (i : Nat) (h : RHandle) : s.slot i = .ok h ↔ s.table.getD i none = some h := by
  unfold RState.slot
  cases s.table.getD i none with
  | none => simp
  | some g => simp

/-! ## 5. every statement preserves `HInvA` -/

theorem hinvA_clone (s s' : RState) (i : Nat) (hI : HInvA s) (he : s.clone i = .ok s') : HInvA s' := by
  unfold RState.clone at he
  cases hs : s.slot i with
  | error e => rw [hs] at he; cases he
  | ok h =>
    rw [hs] at he; dsimp only at he
    cases hcl : s.heap.clone h with
    | error e => rw [hcl] at he; cases he
    | ok p =>
      obtain ⟨hp, h'⟩ := p
      rw [hcl] at he; simp only [Except.ok.injEq] at he; subst he
      have := heap_clone_handle _ _ _ _ hcl
      subst this
      exact hinvA_heap_clone s h' h' h' hp hI (mem_of_getD _ _ _ ((slot_ok _ _ _).1 hs)) hcl rfl rfl

theorem hinvA_toDynCloneWith (hasArm : RefVariant → Bool) (s s' : RState) (i : Nat) (hI : HInvA s)
    (he : s.toDynCloneWith hasArm i = .ok s') : HInvA s' := by
  unfold RState.toDynCloneWith at he
  cases hs : s.slot i with
  | error e => rw [hs] at he; cases he
  | ok h =>
    rw [hs] at he; dsimp only at he
    cases hcl : s.heap.clone h with
    | error e => rw [hcl] at he; cases he
    | ok p =>
      obtain ⟨hp, h'⟩ := p
      rw [hcl] at he; dsimp only at he
      have := heap_clone_handle _ _ _ _ hcl
      subst this
      unfold Heap.toDynWith at he
      cases harm : hasArm h'.variant with
      | false => simp [harm] at he
      | true =>
        simp only [harm, if_true, Except.ok.injEq] at he; subst he
        exact hinvA_heap_clone s h' h' _ hp hI (mem_of_getD _ _ _ ((slot_ok _ _ _).1 hs)) hcl rfl rfl

theorem hinvA_toDynMoveWith (hasArm : RefVariant → Bool) (s s' : RState) (i : Nat) (hI : HInvA s)
    (he : s.toDynMoveWith hasArm i = .ok s') : HInvA s' := by
  unfold RState.toDynMoveWith at he
  cases hs : s.slot i with
  | error e => rw [hs] at he; cases he
  | ok h =>
    rw [hs] at he; dsimp only at he
    unfold Heap.toDynWith at he
    cases harm : hasArm h.variant with
    | false => simp [harm] at he
    | true =>
      simp only [harm, if_true, Except.ok.injEq] at he; subst he
      exact hinvA_move s i h _ hI ((slot_ok _ _ _).1 hs) rfl rfl

theorem hinvA_write (s s' : RState) (i : Nat) (v : Int) (hI : HInvA s) (he : s.write i v = .ok s') : HInvA s' := by
  rw [rwrite_eq] at he
  cases hi : s.table.getD i none with
  | none => rw [hi] at he; cases he
  | some h =>
    rw [hi] at he
    dsimp only at he
    cases hcell : s.heap.cell h.addr with
    | error e => rw [hcell] at he; cases he
    | ok c =>
      rw [hcell] at he
      simp only [Except.ok.injEq] at he
      subst he; exact hinvA_write_cell s h.addr c v hI hcell

theorem hinvA_drop (s s' : RState) (i : Nat) (hI : HInvA s) (he : s.drop i = .ok s') : HInvA s' := by
  unfold RState.drop at he
  cases hs : s.slot i with
  | error e => rw [hs] at he; cases he
  | ok h =>
    rw [hs] at he; dsimp only at he
    cases hd : s.heap.drop h with
    | error e => rw [hd] at he; cases he
    | ok hp =>
      rw [hd] at he; simp only [Except.ok.injEq] at he; subst he
      exact hinvA_heap_drop s i h hp hI ((slot_ok _ _ _).1 hs) hd

/-- **`rawAlias` preserves the invariant of the extended machine**: the raw handle is not counted, the heap is unchanged -/
theorem hinvA_rawAlias (s s' : RState) (i : Nat) (hI : HInvA s) (he : s.rawAlias i = .ok s') : HInvA s' := by
  unfold RState.rawAlias at he
  cases hs : s.slot i with
  | error e => rw [hs] at he; cases he
  | ok h =>
    rw [hs] at he; dsimp only at he
    unfold Heap.rawAlias at he
    cases hcell : s.heap.cell h.addr with
    | error e => rw [hcell] at he; cases he
    | ok c =>
      rw [hcell] at he; simp only [Except.ok.injEq] at he; subst he
      exact hinvA_push_raw s h _ hI (mem_of_getD _ _ _ ((slot_ok _ _ _).1 hs)) (rawOf_not_counted _) rfl
        (fun k ht => typed_rawOf k _ ht)

theorem mem_set_some (t : List (Option RHandle)) (i : Nat) (x g : RHandle) (hg : some g ∈ t.set i (some x)) :
    some g ∈ t.set i none ∨ g = x := by
  induction t generalizing i with
  | nil => simp at hg
  | cons y t ih =>
    cases i with
    | zero =>
      simp only [List.set_cons_zero, List.mem_cons, Option.some.injEq] at hg ⊢
      rcases hg with hg | hg
      · exact Or.inr hg
      · exact Or.inl (Or.inr hg)
    | succ j =>
      simp only [List.set_cons_succ, List.mem_cons] at hg ⊢
      rcases hg with hg | hg
      · exact Or.inl (Or.inl hg)
      · rcases ih j hg with h | h
        · exact Or.inl (Or.inr h)
        · exact Or.inr h

/-- what a successful `clone_from` did, step by step -/
theorem cloneFrom_ok (s s' : RState) (i j : Nat) (he : s.cloneFrom i j = .ok s') :
    ∃ old src hp, s.table.getD i none = some old ∧ s.table.getD j none = some src ∧
      s.heap.clone src = .ok (hp, src) ∧ hp.drop old = .ok s'.heap ∧ s'.table = s.table.set i (some src) := by
  unfold RState.cloneFrom at he
  cases hs : s.slot i with
  | error e => rw [hs] at he; cases he
  | ok old =>
    rw [hs] at he; dsimp only at he
    cases hs2 : s.slot j with
    | error e => rw [hs2] at he; cases he
    | ok src =>
      rw [hs2] at he; dsimp only at he
      cases hcl : s.heap.clone src with
      | error e => rw [hcl] at he; cases he
      | ok p =>
        obtain ⟨hp, h'⟩ := p
        rw [hcl] at he; dsimp only at he
        have := heap_clone_handle _ _ _ _ hcl
        subst this
        cases hd : hp.drop old with
        | error e => rw [hd] at he; cases he
        | ok hp' =>
          rw [hd] at he; simp only [Except.ok.injEq] at he; subst he
          exact ⟨old, h', hp, (slot_ok _ _ _).1 hs, (slot_ok _ _ _).1 hs2, hcl, hd, rfl⟩

/-- **`clone_from` preserves the invariant of the extended machine** — whatever `i`, `j` (also `i = j`), whatever the old
and the source handle are (counted or raw, same address or not): the clone adds a counted handle and one to the count iff
the source is counted; dropping the old value removes a counted handle and one from the count (freeing at 0) iff it was
counted; the slot is overwritten. -/
theorem hinvA_cloneFrom (s s' : RState) (i j : Nat) (hI : HInvA s) (he : s.cloneFrom i j = .ok s') : HInvA s' := by
  obtain ⟨old, src, hp, hi, hj, hcl, hd, htab⟩ := cloneFrom_ok s s' i j he
  have hlt := getD_lt _ _ _ hi
  -- after the clone: the new value sits in a temporary (an extra slot)
  have h1 : HInvA ⟨hp, s.table ++ [some src]⟩ :=
    hinvA_heap_clone s src src src hp hI (mem_of_getD _ _ _ hj) hcl rfl rfl
  have hi1 : (s.table ++ [some src]).getD i none = some old := by
    rw [List.getD_eq_getElem?_getD, List.getElem?_append_left hlt, ← List.getD_eq_getElem?_getD]; exact hi
  -- the old value is dropped
  have h2 := hinvA_heap_drop ⟨hp, s.table ++ [some src]⟩ i old s'.heap h1 hi1 hd
  have hset : (s.table ++ [some src]).set i none = s.table.set i none ++ [some src] := List.set_append_left _ _ hlt
  -- the temporary is moved into the slot
  have : s' = ⟨s'.heap, s.table.set i (some src)⟩ := by cases s'; simp only at htab; rw [htab]
  rw [this]
  refine hinvA_table_congr s'.heap _ _ h2 ?_ ?_
  · intro g hg
    show some g ∈ (s.table ++ [some src]).set i none
    rw [hset]
    rcases mem_set_some _ _ _ _ hg with hg | hg
    · exact List.mem_append_left _ hg
    · subst hg; simp
  · intro a
    show cntC a (s.table.set i (some src)) = cntC a ((s.table ++ [some src]).set i none)
    rw [hset, cntC_append]
    have e1 := cntC_set_some a s.table i old src hi
    have e2 := cntC_set_none a s.table i old hi
    omega

/-- after a successful `clone_from`, slot `i` holds the source handle: same variant, address and `dyn`-ness, so it
denotes the same object and — for a counted source — owns a share; the other slots are untouched -/
theorem cloneFrom_slot (s s' : RState) (i j : Nat) (he : s.cloneFrom i j = .ok s') :
    ∃ src h', s.slot j = .ok src ∧ s'.slot i = .ok h' ∧
      h'.variant = src.variant ∧ h'.addr = src.addr ∧ h'.isDyn = src.isDyn ∧
      s'.table = s.table.set i (some h') ∧ s'.table.length = s.table.length := by
  obtain ⟨old, src, hp, hi, hj, hcl, hd, htab⟩ := cloneFrom_ok s s' i j he
  refine ⟨src, src, (slot_ok _ _ _).2 hj, (slot_ok _ _ _).2 ?_, rfl, rfl, rfl, htab, by rw [htab]; simp⟩
  rw [htab, List.getD_eq_getElem?_getD, List.getElem?_set_self (getD_lt _ _ _ hi)]; rfl

/-- non-vacuity: `clone_from` of an `Arc` handle onto a raw alias of the same object -/
example : (⟨[⟨.arcMutex, 0, false, 1⟩], [some ⟨.arcMutex, 0, false⟩, some ⟨.ptrMutex, 0, false⟩]⟩ : RState).cloneFrom 1 0 =
    .ok ⟨[⟨.arcMutex, 0, false, 2⟩], [some ⟨.arcMutex, 0, false⟩, some ⟨.arcMutex, 0, false⟩]⟩ := by rfl

/-! ## 6. the extended machine -/

/-- the statements of `RefHeap.lean` plus `rawAlias` and `cloneFrom` -/
inductive HOp' where
  | base (op : HOp)
  | rawAlias (i : Nat)
  | cloneFrom (i j : Nat)
  deriving DecidableEq, Repr

/-- one statement, with the implementation of `clone_from` as a parameter (the mutant below plugs in its own) -/
def hexecWith' (cf : RState → Nat → Nat → Except HFault RState) (feats : List String) (s : RState) :
    HOp' → Except HFault RState
  | .base op => hexec feats s op
  | .rawAlias i => s.rawAlias i
  | .cloneFrom i j => cf s i j

def hexec' (feats : List String) : RState → HOp' → Except HFault RState := hexecWith' RState.cloneFrom feats

def hrunWith' (ex : RState → HOp' → Except HFault RState) : RState → List HOp' → Except HFault RState
  | s, [] => .ok s
  | s, op :: rest =>
    match ex s op with
    | .error e => .error e
    | .ok s' => hrunWith' ex s' rest

def hrun' (feats : List String) : RState → List HOp' → Except HFault RState := hrunWith' (hexec' feats)

/-- a heap + handle table produced by SOME program of the extended statement set from nothing -/
def Reachable' (s : RState) : Prop := ∃ feats ops, hrun' feats RState.empty ops = .ok s

theorem hinvA_hexec (feats : List String) (s s' : RState) (op : HOp) (hI : HInvA s) (he : hexec feats s op = .ok s') :
    HInvA s' := by
  cases op with
  | alloc k v => simp only [hexec, Except.ok.injEq] at he; subst he; exact hinvA_alloc s k v hI
  | clone i => exact hinvA_clone s s' i hI he
  | toDynClone i => exact hinvA_toDynCloneWith (toDynHasArm feats) s s' i hI he
  | toDynMove i => exact hinvA_toDynMoveWith (toDynHasArm feats) s s' i hI he
  | read i =>
    simp only [hexec] at he
    cases hr : s.read i with
    | error e => rw [hr] at he; cases he
    | ok x => rw [hr] at he; simp only [Except.ok.injEq] at he; subst he; exact hI
  | write i v => exact hinvA_write s s' i v hI he
  | drop i => exact hinvA_drop s s' i hI he

theorem hinvA_exec' (feats : List String) (s s' : RState) (op : HOp') (hI : HInvA s) (he : hexec' feats s op = .ok s') :
    HInvA s' := by
  cases op with
  | base op => exact hinvA_hexec feats s s' op hI he
  | rawAlias i => exact hinvA_rawAlias s s' i hI he
  | cloneFrom i j => exact hinvA_cloneFrom s s' i j hI he

theorem hinvA_run' (feats : List String) (s s' : RState) (ops : List HOp') (hI : HInvA s)
    (hr : hrun' feats s ops = .ok s') : HInvA s' := by
  induction ops generalizing s with
  | nil => simp only [hrun', hrunWith', Except.ok.injEq] at hr; subst hr; exact hI
  | cons op rest ih =>
    cases he : hexec' feats s op with
    | error e => simp [hrun', hrunWith', he] at hr
    | ok s1 =>
      have : hrun' feats s (op :: rest) = hrun' feats s1 rest := by simp [hrun', hrunWith', he]
      rw [this] at hr
      exact ih s1 (hinvA_exec' feats s s1 op hI he) hr

theorem hinvA_reachable' (s : RState) (hr : Reachable' s) : HInvA s := by
  obtain ⟨feats, ops, h⟩ := hr
  exact hinvA_run' feats _ s ops hinvA_empty h

/-- every state of the old machine is a state of the extended one -/
theorem reachable_reachable' (s : RState) (hr : Reachable s) : Reachable' s := by
  obtain ⟨feats, ops, h⟩ := hr
  refine ⟨feats, ops.map .base, ?_⟩
  have : ∀ (s0 : RState) (l : List HOp), hrun' feats s0 (l.map .base) = hrun feats s0 l := by
    intro s0 l
    induction l generalizing s0 with
    | nil => rfl
    | cons op rest ih =>
      have e1 : hrun' feats s0 ((op :: rest).map .base) =
          (match hexec feats s0 op with
           | .error e => Except.error e
           | .ok s' => hrun' feats s' (rest.map .base)) := rfl
      have e2 : hrun feats s0 (op :: rest) =
          (match hexec feats s0 op with
           | .error e => Except.error e
           | .ok s' => hrun feats s' rest) := rfl
      rw [e1, e2]
      cases hexec feats s0 op with
      | error e => rfl
      | ok s1 => exact ih s1
  rw [this]; exact h

/-- under `HInvA` a COUNTED handle can be dereferenced: its cell is allocated, of its kind, not freed, and its strong
count is the number of counted handles to it -/
theorem live_cell_counted (s : RState) (hI : HInvA s) (h : RHandle) (hm : some h ∈ s.table)
    (hk : h.variant.counted = true) :
    ∃ c, s.heap.cell h.addr = .ok c ∧ c.kind = h.variant ∧ c.strong = cntC h.addr s.table := by
  obtain ⟨c, hc, hty⟩ := hI.1 h hm
  have hkc := typed_counted _ _ hty hk
  have hf : c.freed = false := by
    cases hf : c.freed with
    | false => rfl
    | true =>
      have := (hI.2 h.addr c hc).2.1 hf
      have := cntC_pos s.table h hm hk
      omega
  exact ⟨c, (cell_ok _ _ _).2 ⟨hc, hf⟩, hkc, ((hI.2 h.addr c hc).1 (by rw [hkc]; exact hk) hf).1⟩

/-- **A cell lives while a COUNTED handle to it exists — on the extended machine.** In every state reachable with the
statements of `RefHeap.lean`, `rawAlias` and `cloneFrom`, in any order: (1) the strong count of a live `Rc` / `Arc` cell IS
the number of COUNTED handles to it (raw aliases own nothing), and is ≥ 1; (2) a freed cell has no counted handle —
equivalently (3) every counted handle in the table points at an allocated, un-freed cell of its own kind, and reading
through it succeeds; (4) static cells are never freed; (5) every handle, raw aliases included, points at an allocated
cell of its own kind or (raw alias) at the object kind it is the raw pointer into. -/
theorem counted_cell_live_while_any_counted_handle' (s : RState) (hr : Reachable' s) :
    (∀ (a : Nat) (c : HCell), s.heap[a]? = some c → c.kind.counted = true → c.freed = false →
      c.strong = cntC a s.table ∧ 1 ≤ cntC a s.table) ∧
    (∀ (a : Nat) (c : HCell), s.heap[a]? = some c → c.freed = true → cntC a s.table = 0) ∧
    (∀ i h, s.table.getD i none = some h → h.variant.counted = true →
      ∃ c, s.heap[h.addr]? = some c ∧ c.kind = h.variant ∧ c.freed = false ∧ s.read i = .ok c.value) ∧
    (∀ (a : Nat) (c : HCell), s.heap[a]? = some c → c.kind.counted = false → c.freed = false) ∧
    (∀ h, some h ∈ s.table → ∃ c, s.heap[h.addr]? = some c ∧ (h.variant = c.kind ∨ h.variant = c.kind.rawOf)) := by
  have hI := hinvA_reachable' s hr
  refine ⟨?_, ?_, ?_, ?_, hI.1⟩
  · intro a c hc hk hf
    have := (hI.2 a c hc).1 hk hf
    omega
  · intro a c hc hf; exact (hI.2 a c hc).2.1 hf
  · intro i h hi hk
    obtain ⟨c, hcell, hkc, _⟩ := live_cell_counted s hI h (mem_of_getD _ _ _ hi) hk
    obtain ⟨hc, hf⟩ := (cell_ok _ _ _).1 hcell
    refine ⟨c, hc, hkc, hf, ?_⟩
    rw [rread_eq, hi]; dsimp only; rw [hcell]
  · intro a c hc hk; exact (hI.2 a c hc).2.2 hk

/-- non-vacuity: a reachable state with a raw alias AND a counted handle put in place by `clone_from` -/
example : Reachable' ⟨[⟨.arcMutex, 0, false, 1⟩], [none, some ⟨.arcMutex, 0, false⟩]⟩ :=
  ⟨[], [.base (.alloc .arcMutex 0), .rawAlias 0, .cloneFrom 1 0, .base (.drop 0)], rfl⟩

/-- a raw alias does NOT keep the object alive: the corresponding statement about ALL handles is false on the extended
machine (this is the model saying what raw-pointer user code can do, not a defect) -/
theorem raw_alias_can_dangle :
    ∃ s, Reachable' s ∧ s.table.getD 1 none = some ⟨.ptrMutex, 0, false⟩ ∧ s.read 1 = .error .useAfterFree :=
  ⟨_, ⟨[], [.base (.alloc .arcMutex 0), .rawAlias 0, .base (.drop 0)], rfl⟩, rfl, rfl⟩

/-! ## 7. the regression scenario: `clone_from` onto a raw alias of the same `Rc` / `Arc` -/

/-- MUTANT of `clone_from`: "self and source already point at the same object, nothing to do" -/
def cloneFromSkipSameAddr (s : RState) (i j : Nat) : Except HFault RState :=
  match s.slot i with
  | .error e => .error e
  | .ok old =>
    match s.slot j with
    | .error e => .error e
    | .ok src => if old.addr = src.addr then .ok s else s.cloneFrom i j

/-- `let a = <counted constructor>(0); let b = from_ptr…(as_ptr(&a)); b.clone_from(&a); drop(a);` -/
def aliasScenario (k : RefVariant) : List HOp' :=
  [.base (.alloc k 0), .rawAlias 0, .cloneFrom 1 0, .base (.drop 0)]

/-- **`clone_from` onto a raw alias of the same `Rc` / `Arc` makes it an owner.** After the scenario the object is still
allocated with strong count 1, slot 1 holds a COUNTED handle and reading through it succeeds; with the mutant that skips
the assignment when both sides point at the same object the object IS freed, slot 1 still holds the raw pointer, and
reading through it is a use after free. -/
theorem cloneFrom_then_drop_source_live (k : RefVariant) (hk : k.counted = true) :
    (∃ s, hrun' [] RState.empty (aliasScenario k) = .ok s ∧ s.live0 = true ∧
      s.heap = [⟨k, 0, false, 1⟩] ∧ s.table = [none, some ⟨k, 0, false⟩] ∧ s.read 1 = .ok 0) ∧
    (∃ s, hrunWith' (hexecWith' cloneFromSkipSameAddr []) RState.empty (aliasScenario k) = .ok s ∧ s.live0 = false ∧
      s.heap = [⟨k, 0, true, 0⟩] ∧ s.table = [none, some ⟨k.rawOf, 0, false⟩] ∧ s.read 1 = .error .useAfterFree) := by
  cases k with
  | rcRefCell => exact ⟨⟨_, rfl, rfl, rfl, rfl, rfl⟩, ⟨_, rfl, rfl, rfl, rfl, rfl⟩⟩
  | arcRwLock => exact ⟨⟨_, rfl, rfl, rfl, rfl, rfl⟩, ⟨_, rfl, rfl, rfl, rfl, rfl⟩⟩
  | arcMutex => exact ⟨⟨_, rfl, rfl, rfl, rfl, rfl⟩, ⟨_, rfl, rfl, rfl, rfl, rfl⟩⟩
  | ptr => cases hk
  | ptrRwLock => cases hk
  | ptrMutex => cases hk

/-- non-vacuity -/
example : RefVariant.arcMutex.counted = true := rfl

/-- the mutant agrees with `clone_from` whenever the two handles point at different objects -/
theorem cloneFromSkipSameAddr_diff (s : RState) (i j : Nat) (old src : RHandle) (hi : s.slot i = .ok old)
    (hj : s.slot j = .ok src) (hne : old.addr ≠ src.addr) : cloneFromSkipSameAddr s i j = s.cloneFrom i j := by
  simp [cloneFromSkipSameAddr, hi, hj, hne]

example : (⟨[⟨.arcMutex, 0, false, 1⟩, ⟨.arcMutex, 7, false, 1⟩], [some ⟨.arcMutex, 0, false⟩, some ⟨.arcMutex, 1, false⟩]⟩ : RState).slot 0
    = .ok ⟨.arcMutex, 0, false⟩ := rfl

/-- the mutant breaks the invariant of the extended machine (the real `clone_from` keeps it: `hinvA_cloneFrom`):
after it, `drop` of the source frees a cell … that the program then reads through slot 1 -/
theorem cloneFromSkipSameAddr_refuted :
    ¬ (∀ s i j s', Reachable' s → cloneFromSkipSameAddr s i j = .ok s' →
        ∃ src h', s.slot j = .ok src ∧ s'.slot i = .ok h' ∧ h'.variant = src.variant) := by
  intro h
  obtain ⟨src, h', h1, h2, h3⟩ := h ⟨[⟨.arcMutex, 0, false, 1⟩], [some ⟨.arcMutex, 0, false⟩, some ⟨.ptrMutex, 0, false⟩]⟩ 1 0 _
    ⟨[], [.base (.alloc .arcMutex 0), .rawAlias 0], rfl⟩ rfl
  have e1 : src = ⟨.arcMutex, 0, false⟩ := by
    have : (Except.ok ⟨.arcMutex, 0, false⟩ : Except HFault RHandle) = .ok src := h1
    exact (Except.ok.inj this).symm
  have e2 : h' = ⟨.ptrMutex, 0, false⟩ := by
    have : (Except.ok ⟨.ptrMutex, 0, false⟩ : Except HFault RHandle) = .ok h' := h2
    exact (Except.ok.inj this).symm
  subst e1 e2
  cases h3

/-! ## 8. `HInv` (the invariant of the machine WITHOUT raw aliases) against `HInvA` -/

/-- every handle is of the kind of its cell: no raw alias into an `Rc` / `Arc` object -/
def Proper (s : RState) : Prop := ∀ h, some h ∈ s.table → ∀ c, s.heap[h.addr]? = some c → c.kind = h.variant

theorem cntC_le_cnt (a : Nat) (l : List (Option RHandle)) : cntC a l ≤ cnt a l := by
  induction l with
  | nil => exact Nat.le_refl _
  | cons x t ih =>
    cases x with
    | none => simpa [cntC, cnt] using ih
    | some g =>
      simp only [cntC, cnt, wC]
      by_cases h1 : g.addr = a <;> by_cases h2 : g.variant.counted = true <;> simp [h1, h2] <;> omega

theorem cntC_eq_cnt (a : Nat) (l : List (Option RHandle))
    (hall : ∀ g, some g ∈ l → g.addr = a → g.variant.counted = true) : cntC a l = cnt a l := by
  induction l with
  | nil => rfl
  | cons x t ih =>
    have ht := ih (fun g hg => hall g (List.mem_cons_of_mem _ hg))
    cases x with
    | none => simpa [cntC, cnt] using ht
    | some g =>
      have hg := hall g (List.mem_cons_self ..)
      simp only [cntC, cnt, wC, ht]
      by_cases h1 : g.addr = a
      · simp [h1, hg h1]
      · simp [h1]

/-- `HInv` is `HInvA` on the states without raw aliases into counted objects -/
theorem hinv_iff (s : RState) : HInv s ↔ HInvA s ∧ Proper s := by
  constructor
  · intro hI
    have hP : Proper s := by
      intro h hm c hc
      obtain ⟨c0, hc0, hk0⟩ := hI.1 h hm
      rw [hc] at hc0; simp only [Option.some.injEq] at hc0; subst hc0; exact hk0
    refine ⟨⟨?_, ?_⟩, hP⟩
    · intro h hm
      obtain ⟨c, hc, hk⟩ := hI.1 h hm
      exact ⟨c, hc, Or.inl hk.symm⟩
    · intro a c hc
      obtain ⟨p1, p2, p3⟩ := hI.2 a c hc
      refine ⟨?_, ?_, p3⟩
      · intro hk hf
        have : cntC a s.table = cnt a s.table :=
          cntC_eq_cnt a s.table (fun g hg ha => by rw [← hP g hg c (by rw [ha]; exact hc)]; exact hk)
        rw [this]; exact p1 hk hf
      · intro hf
        have := cntC_le_cnt a s.table
        have := p2 hf
        omega
  · rintro ⟨hA, hP⟩
    refine ⟨?_, ?_⟩
    · intro h hm
      obtain ⟨c, hc, _⟩ := hA.1 h hm
      exact ⟨c, hc, hP h hm c hc⟩
    · intro a c hc
      obtain ⟨p1, p2, p3⟩ := hA.2 a c hc
      have heq : c.kind.counted = true → cntC a s.table = cnt a s.table := fun hk =>
        cntC_eq_cnt a s.table (fun g hg ha => by rw [← hP g hg c (by rw [ha]; exact hc)]; exact hk)
      refine ⟨?_, ?_, p3⟩
      · intro hk hf; rw [← heq hk]; exact p1 hk hf
      · intro hf
        cases hk : c.kind.counted with
        | false => rw [p3 hk] at hf; cases hf
        | true => rw [← heq hk]; exact p2 hf

/-- **`HInv` is NOT preserved by `rawAlias`** of a counted handle: the raw handle is a handle to the cell that is neither
of the cell's kind nor counted in `strong` (`HInv` was designed for the machine without raw aliases; the invariant that
`rawAlias` does preserve is `HInvA`: `hinvA_rawAlias`) -/
theorem hinv_rawAlias_false : ¬ (∀ s i s', HInv s → s.rawAlias i = .ok s' → HInv s') := by
  intro h
  have h0 : HInv (RState.init .arcMutex) := hinv_reachable _ ⟨[], [.alloc .arcMutex 0], rfl⟩
  have h1 := h (RState.init .arcMutex) 0
    ⟨[⟨.arcMutex, 0, false, 1⟩], [some ⟨.arcMutex, 0, false⟩, some ⟨.ptrMutex, 0, false⟩]⟩ h0 rfl
  obtain ⟨c, hc, hk⟩ := h1.1 ⟨.ptrMutex, 0, false⟩ (by simp)
  simp only [List.getElem?_cons_zero, Option.some.injEq] at hc
  subst hc
  cases hk

theorem rawOf_raw (v : RefVariant) (hv : v.counted = false) : v.rawOf = v := by
  cases v <;> first | rfl | cases hv

/-- `HInv` is preserved by `rawAlias` of a handle that is itself a raw pointer (a static).
MISSING for the full statement: the case of a counted handle in slot `i`, where the statement is FALSE
(`hinv_rawAlias_false`); the full-strength theorem is `hinvA_rawAlias`, about `HInvA`. -/
theorem hinv_rawAlias_partial (s s' : RState) (i : Nat) (hI : HInv s) (he : s.rawAlias i = .ok s')
    (hraw : ∀ h, s.slot i = .ok h → h.variant.counted = false) : HInv s' := by
  unfold RState.rawAlias at he
  cases hs : s.slot i with
  | error e => rw [hs] at he; cases he
  | ok h =>
    rw [hs] at he; dsimp only at he
    unfold Heap.rawAlias at he
    cases hcell : s.heap.cell h.addr with
    | error e => rw [hcell] at he; cases he
    | ok c =>
      rw [hcell] at he; simp only [Except.ok.injEq] at he; subst he
      have hk := hraw h hs
      exact hinv_push_raw s h _ hI (mem_of_getD _ _ _ ((slot_ok _ _ _).1 hs)) hk rfl (rawOf_raw _ hk)

/-- non-vacuity: a raw alias of a static -/
example : (RState.init .ptrMutex).rawAlias 0 =
    .ok ⟨[⟨.ptrMutex, 0, false, 0⟩], [some ⟨.ptrMutex, 0, false⟩, some ⟨.ptrMutex, 0, false⟩]⟩ := rfl
example : ∀ h, (RState.init .ptrMutex).slot 0 = .ok h → h.variant.counted = false := by
  intro h hh
  have : (Except.ok ⟨.ptrMutex, 0, false⟩ : Except HFault RHandle) = .ok h := hh
  rw [← Except.ok.inj this]; rfl

theorem heap_kind_clone (hp hp' : Heap) (h h' : RHandle) (hc : hp.clone h = .ok (hp', h')) (b : Nat) :
    (hp'[b]?).map (·.kind) = (hp[b]?).map (·.kind) := by
  have := (clone_preserves_address hp hp' h h' hc).2.2.2.2.1 b
  cases h1 : hp'[b]? <;> cases h2 : hp[b]? <;> simp_all

theorem heap_kind_drop (hp hp' : Heap) (h : RHandle) (hd : hp.drop h = .ok hp') (b : Nat) :
    (hp'[b]?).map (·.kind) = (hp[b]?).map (·.kind) := by
  unfold Heap.drop at hd
  cases hk : h.variant.counted with
  | false => simp only [hk, Bool.false_eq_true, if_false, Except.ok.injEq] at hd; subst hd; rfl
  | true =>
    simp only [hk, if_true] at hd
    cases hcell : hp.cell h.addr with
    | error e => rw [hcell] at hd; cases hd
    | ok c =>
      rw [hcell] at hd
      simp only [Except.ok.injEq] at hd
      subst hd
      rw [get_set _ _ _ (cell_lt _ _ _ hcell)]
      by_cases hb : b = h.addr
      · subst hb; simp [((cell_ok _ _ _).1 hcell).1]
      · simp [hb]

/-- **`clone_from` preserves `HInv`** (full statement: any `i`, `j`, also `i = j`; old and source counted or raw, at the
same address or not) — on the machine without raw aliases, where every handle to a counted cell is counted -/
theorem hinv_cloneFrom (s s' : RState) (i j : Nat) (hI : HInv s) (he : s.cloneFrom i j = .ok s') : HInv s' := by
  obtain ⟨hA, hP⟩ := (hinv_iff s).1 hI
  refine (hinv_iff s').2 ⟨hinvA_cloneFrom s s' i j hA he, ?_⟩
  obtain ⟨old, src, hp, hi, hj, hcl, hd, htab⟩ := cloneFrom_ok s s' i j he
  intro h hm c' hc'
  have hm0 : some h ∈ s.table := by
    rw [htab] at hm
    rcases List.mem_or_eq_of_mem_set hm with hm | hm
    · exact hm
    · rw [hm]; exact mem_of_getD _ _ _ hj
  have hk := (heap_kind_drop hp s'.heap old hd h.addr).trans (heap_kind_clone s.heap hp src src hcl h.addr)
  rw [hc'] at hk
  cases h0 : s.heap[h.addr]? with
  | none => rw [h0] at hk; cases hk
  | some c =>
    rw [h0] at hk
    simp only [Option.map_some, Option.some.injEq] at hk
    rw [hk]; exact hP h hm0 c h0

/-- non-vacuity: `clone_from` between two `Arc`s of different objects frees the old target -/
example : hrun' [] RState.empty [.base (.alloc .arcMutex 1), .base (.alloc .arcMutex 2), .cloneFrom 0 1] =
    .ok ⟨[⟨.arcMutex, 1, true, 0⟩, ⟨.arcMutex, 2, false, 2⟩], [some ⟨.arcMutex, 1, false⟩, some ⟨.arcMutex, 1, false⟩]⟩ := rfl
example : HInv ⟨[⟨.arcMutex, 1, false, 1⟩, ⟨.arcMutex, 2, false, 1⟩], [some ⟨.arcMutex, 0, false⟩, some ⟨.arcMutex, 1, false⟩]⟩ :=
  hinv_reachable _ ⟨[], [.alloc .arcMutex 1, .alloc .arcMutex 2], rfl⟩

/-! ### non-vacuity of the `HInvA` theorems -/

/-- a state WITH a raw alias into an `Arc` object satisfies `HInvA` (and not `HInv`: `hinv_rawAlias_false`) -/
example : HInvA ⟨[⟨.arcMutex, 0, false, 1⟩], [some ⟨.arcMutex, 0, false⟩, some ⟨.ptrMutex, 0, false⟩]⟩ :=
  hinvA_reachable' _ ⟨[], [.base (.alloc .arcMutex 0), .rawAlias 0], rfl⟩
example : (RState.init .arcMutex).rawAlias 0 =
    .ok ⟨[⟨.arcMutex, 0, false, 1⟩], [some ⟨.arcMutex, 0, false⟩, some ⟨.ptrMutex, 0, false⟩]⟩ := rfl
example : (RState.init .rcRefCell).toDynCloneWith (fun _ => true) 0 =
    .ok ⟨[⟨.rcRefCell, 0, false, 2⟩], [some ⟨.rcRefCell, 0, false⟩, some ⟨.rcRefCell, 0, true⟩]⟩ := rfl
example : (RState.init .rcRefCell).toDynMoveWith (fun _ => true) 0 =
    .ok ⟨[⟨.rcRefCell, 0, false, 1⟩], [none, some ⟨.rcRefCell, 0, true⟩]⟩ := rfl
/-- `clone_from` onto itself (`i = j`) of the only `Arc` handle: count 1 → 2 → 1, not freed -/
example : (RState.init .arcRwLock).cloneFrom 0 0 = .ok (RState.init .arcRwLock) := rfl
/-- `clone_from` of a raw alias onto the only `Arc` handle: the object is freed, both handles now dangle -/
example : (⟨[⟨.arcMutex, 0, false, 1⟩], [some ⟨.arcMutex, 0, false⟩, some ⟨.ptrMutex, 0, false⟩]⟩ : RState).cloneFrom 0 1 =
    .ok ⟨[⟨.arcMutex, 0, true, 0⟩], [some ⟨.ptrMutex, 0, false⟩, some ⟨.ptrMutex, 0, false⟩]⟩ := rfl

end Rrtk.Thm.C17
