/-
C17, refined: a heap of cells with `(variant, address)` handles (`Rrtk/RefHeap.lean`).

In `Rrtk/Reference.lean` (the model the driver runs) aliasing and liveness are true by construction — one shared
`value`, `dropped` computed from the handle table.  Here they are PROVED of a model in which they could fail:

* `clone_preserves_address`, `to_dyn_preserves_address` — `Clone` and the `to_dyn!` arms hand out the same address, touch
  no payload, allocate nothing; `clone` adds exactly one to the strong count of a counted cell, `to_dyn!` (a move) none;
* `write_seen_through_every_alias` — on every reachable heap, a write through a handle is read through every handle
  with the same address, whatever statements not writing to that address run in between;
* `counted_cell_live_while_any_handle` — on every reachable heap the strong count of a live counted cell IS the number
  of live handles to it; no cell with a live handle is freed; dropping the last counted handle frees the cell, dropping
  any other does not; static cells are never freed;
* `no_fault_on_live_handles` — programs that only name live slots never fault;
* `simulation_step` / `simulation_run` — the one-allocation heap machine, seen through the abstraction function `absCase`,
  IS the `RefCase` model the driver runs, event by event with the same outputs;
* mutants: a deep-copying `clone` and an `Arc` `clone` that forgets the count are expressible in this model and are
  refuted by the specifications the real functions are proved to meet.
Tier S (no scalar).
-/
import Rrtk.Thm.C17
import Rrtk.RefHeap
set_option linter.unusedSectionVars false
set_option linter.unusedSimpArgs false
namespace Rrtk.Thm.C17
open Rrtk

/-! ## D. the heap of cells -/

/-! ### lists -/

/-- number of live handles to address `a` in a handle table -/
def cnt (a : Nat) : List (Option RHandle) → Nat
  | [] => 0
  | none :: t => cnt a t
  | some h :: t => (if h.addr = a then 1 else 0) + cnt a t

theorem cnt_append (a : Nat) (l : List (Option RHandle)) (h : RHandle) :
    cnt a (l ++ [some h]) = cnt a l + (if h.addr = a then 1 else 0) := by
  induction l with
  | nil => simp [cnt]
  | cons x t ih =>
    cases x with
    | none => simpa [cnt] using ih
    | some g => simp only [List.cons_append, cnt, ih]; omega

theorem cnt_set_none (a : Nat) (l : List (Option RHandle)) (i : Nat) (h : RHandle) (hi : l.getD i none = some h) :
    cnt a (l.set i none) + (if h.addr = a then 1 else 0) = cnt a l := by
  induction l generalizing i with
  | nil => simp at hi
  | cons x t ih =>
    cases i with
    | zero =>
      simp only [List.getD_cons_zero] at hi
      subst hi
      simp only [List.set_cons_zero, cnt]; omega
    | succ j =>
      simp only [List.getD_cons_succ] at hi
      have := ih j hi
      cases x with
      | none => simpa [cnt] using this
      | some g => simp only [List.set_cons_succ, cnt]; omega

theorem mem_of_getD (l : List (Option RHandle)) (i : Nat) (h : RHandle) (hi : l.getD i none = some h) : some h ∈ l := by
  rw [List.getD_eq_getElem?_getD] at hi
  cases hg : l[i]? with
  | none => simp [hg] at hi
  | some x =>
    simp only [hg, Option.getD_some] at hi
    subst hi
    exact List.mem_of_getElem? hg

theorem cnt_pos (l : List (Option RHandle)) (h : RHandle) (hm : some h ∈ l) : 1 ≤ cnt h.addr l := by
  induction l with
  | nil => simp at hm
  | cons x t ih =>
    rcases List.mem_cons.1 hm with he | ht
    · subst he; simp [cnt]
    · have := ih ht
      cases x with
      | none => simpa [cnt] using this
      | some g => simp only [cnt]; omega

theorem getD_lt (l : List (Option RHandle)) (i : Nat) (h : RHandle) (hi : l.getD i none = some h) : i < l.length := by
  rw [List.getD_eq_getElem?_getD] at hi
  by_cases hlt : i < l.length
  · exact hlt
  · simp [List.getElem?_eq_none (Nat.le_of_not_lt hlt)] at hi

/-! ### the access check -/

theorem cell_ok (hp : Heap) (a : Nat) (c : HCell) : hp.cell a = .ok c ↔ hp[a]? = some c ∧ c.freed = false := by
  unfold Heap.cell
  cases hg : hp[a]? with
  | none => simp
  | some x =>
    simp only [Option.some.injEq]
    by_cases hf : x.freed = true
    · rw [if_pos hf]; constructor
      · intro h; cases h
      · rintro ⟨rfl, h2⟩; rw [hf] at h2; cases h2
    · rw [if_neg hf]; simp only [Except.ok.injEq]; constructor
      · intro h; subst h; exact ⟨rfl, by simpa using hf⟩
      · exact fun h => h.1

theorem cell_lt (hp : Heap) (a : Nat) (c : HCell) (h : hp.cell a = .ok c) : a < hp.length := by
  have := ((cell_ok hp a c).1 h).1
  by_cases hlt : a < hp.length
  · exact hlt
  · rw [List.getElem?_eq_none (Nat.le_of_not_lt hlt)] at this; cases this

/-- the heap after overwriting the (existing) cell at `a` -/
theorem get_set (hp : Heap) (a : Nat) (c' : HCell) (ha : a < hp.length) (b : Nat) :
    (hp.set a c')[b]? = if b = a then some c' else hp[b]? := by
  rw [List.getElem?_set]
  by_cases h : a = b
  · subst h; simp [ha]
  · have h' : ¬ b = a := fun e => h e.symm
    simp [h, h']

/-! ### `Clone` and `to_dyn!` on the heap -/

/-- `Clone`, arm by arm, is: hand out the SAME handle; for a counted variant after incrementing the strong count in the
cell the handle points at (faulting if that cell is gone) -/
theorem heap_clone_eq (hp : Heap) (h : RHandle) :
    hp.clone h =
      if h.variant.counted then
        (match hp.cell h.addr with
         | .error e => .error e
         | .ok c => .ok (hp.set h.addr { c with strong := c.strong + 1 }, h))
      else .ok (hp, h) := by
  obtain ⟨v, a, d⟩ := h
  cases v <;> rfl

/-- `to_dyn!`, arm by arm, is: if the calling crate gets an arm for the variant, the same handle marked `dyn` and the
same heap; `unimplemented!()` otherwise -/
theorem heap_toDyn_eq (feats : List String) (hp : Heap) (h : RHandle) :
    Heap.toDyn feats hp h =
      if toDynHasArm feats h.variant then .ok (hp, { h with isDyn := true }) else .error (.panic .unimpl) := by
  obtain ⟨v, a, d⟩ := h
  rfl

/-- **`clone` preserves the address.** The clone is a handle of the same variant to the SAME address; no cell is
allocated; no payload and no `freed` flag changes anywhere; cells at other addresses are untouched; the raw-pointer
variants leave the heap alone; the counted variants require the cell to be alive and add exactly one to its strong
count. -/
theorem clone_preserves_address (hp hp' : Heap) (h h' : RHandle) (hc : hp.clone h = .ok (hp', h')) :
    h'.addr = h.addr ∧ h'.variant = h.variant ∧ h'.isDyn = h.isDyn ∧
    hp'.length = hp.length ∧
    (∀ b : Nat, (hp'[b]?).map (fun c : HCell => (c.kind, c.value, c.freed)) = (hp[b]?).map (fun c : HCell => (c.kind, c.value, c.freed))) ∧
    (∀ b, b ≠ h.addr → hp'[b]? = hp[b]?) ∧
    (h.variant.counted = false → hp' = hp) ∧
    (h.variant.counted = true →
      ∃ c, hp.cell h.addr = .ok c ∧ hp'[h.addr]? = some { c with strong := c.strong + 1 }) := by
  rw [heap_clone_eq] at hc
  cases hk : h.variant.counted with
  | false =>
    simp only [hk, Bool.false_eq_true, if_false, Except.ok.injEq, Prod.mk.injEq] at hc
    obtain ⟨rfl, rfl⟩ := hc
    exact ⟨rfl, rfl, rfl, rfl, fun _ => rfl, fun _ _ => rfl, fun _ => rfl, fun h => absurd h (by decide)⟩
  | true =>
    simp only [hk, if_true] at hc
    cases hcell : hp.cell h.addr with
    | error e => rw [hcell] at hc; cases hc
    | ok c =>
      rw [hcell] at hc
      simp only [Except.ok.injEq, Prod.mk.injEq] at hc
      obtain ⟨rfl, rfl⟩ := hc
      have hlt := cell_lt hp _ c hcell
      have hget := ((cell_ok hp _ c).1 hcell).1
      refine ⟨rfl, rfl, rfl, List.length_set, ?_, ?_, fun h => absurd h (by decide), fun _ => ⟨c, rfl, ?_⟩⟩
      · intro b
        rw [get_set hp _ _ hlt]
        by_cases hb : b = h.addr
        · subst hb; simp [hget]
        · simp [hb]
      · intro b hb; rw [get_set hp _ _ hlt]; simp [hb]
      · rw [get_set hp _ _ hlt]; simp

/-- **`to_dyn!` preserves the address.** A successful conversion yields a handle of the same variant to the SAME
address, marked as a trait object, and does not touch the heap at all (the argument is moved: no count changes); it
succeeds exactly when the calling crate gets an arm for the variant, and panics with `unimplemented!()` otherwise. -/
theorem to_dyn_preserves_address (feats : List String) (hp : Heap) (h : RHandle) :
    (∀ hp' h', Heap.toDyn feats hp h = .ok (hp', h') →
      h'.addr = h.addr ∧ h'.variant = h.variant ∧ h'.isDyn = true ∧ hp' = hp ∧ toDynHasArm feats h.variant = true) ∧
    (toDynHasArm feats h.variant = true → Heap.toDyn feats hp h = .ok (hp, ⟨h.variant, h.addr, true⟩)) ∧
    (toDynHasArm feats h.variant = false → Heap.toDyn feats hp h = .error (.panic .unimpl)) := by
  rw [heap_toDyn_eq]
  cases ha : toDynHasArm feats h.variant
  · refine ⟨fun _ _ hc => by simp at hc, fun h => absurd h (by decide), fun _ => by simp⟩
  · refine ⟨fun hp' h' hc => ?_, fun _ => by simp, fun h => absurd h (by decide)⟩
    simp only [if_true, Except.ok.injEq, Prod.mk.injEq] at hc
    obtain ⟨rfl, rfl⟩ := hc
    exact ⟨rfl, rfl, rfl, rfl, rfl⟩

/-- non-vacuity: an `Rc` clone (count 1 → 2, same address 0) and its conversion in a featureless caller -/
example : Heap.clone [⟨.rcRefCell, 5, false, 1⟩] ⟨.rcRefCell, 0, false⟩ =
    .ok ([⟨.rcRefCell, 5, false, 2⟩], ⟨.rcRefCell, 0, false⟩) := by rfl
example : Heap.toDyn [] [⟨.rcRefCell, 5, false, 2⟩] ⟨.rcRefCell, 0, false⟩ =
    .ok ([⟨.rcRefCell, 5, false, 2⟩], ⟨.rcRefCell, 0, true⟩) := by rfl
-- (an example through a variant WITHOUT an arm today is in Thm/Lemmas/C17Snapshot.lean)

/-! ### the invariant of reachable heaps -/

/-- (1) every live handle points at an allocated cell of its own kind; (2) for every cell: a live counted cell's strong
count is the number of live handles to it, and is at least 1; a freed cell has no live handle; a cell of a raw-pointer
kind (a static) is never freed -/
def HInv (s : RState) : Prop :=
  (∀ h, some h ∈ s.table → ∃ c, s.heap[h.addr]? = some c ∧ c.kind = h.variant) ∧
  (∀ a c, s.heap[a]? = some c →
    (c.kind.counted = true → c.freed = false → c.strong = cnt a s.table ∧ 1 ≤ c.strong) ∧
    (c.freed = true → cnt a s.table = 0) ∧
    (c.kind.counted = false → c.freed = false))

theorem cnt_zero_of_forall (a : Nat) (l : List (Option RHandle)) (hne : ∀ h, some h ∈ l → h.addr ≠ a) : cnt a l = 0 := by
  induction l with
  | nil => rfl
  | cons x t ih =>
    have ht := ih (fun h hm => hne h (List.mem_cons_of_mem _ hm))
    cases x with
    | none => simpa [cnt] using ht
    | some g =>
      have := hne g (List.mem_cons_self ..)
      simp [cnt, this, ht]

theorem hinv_empty : HInv RState.empty := by
  refine ⟨fun h hm => by simp [RState.empty] at hm, fun a c hc => by simp [RState.empty] at hc⟩

/-- frame rule: the cell at `a` is replaced by one of the same kind, handles are only added / removed at `a` -/
theorem hinv_frame (s s' : RState) (a : Nat) (c c' : HCell) (hI : HInv s) (hc : s.heap[a]? = some c)
    (hk : c'.kind = c.kind)
    (hheap : ∀ b : Nat, s'.heap[b]? = if b = a then some c' else s.heap[b]?)
    (htyp : ∀ h, some h ∈ s'.table → ∃ h0, some h0 ∈ s.table ∧ h0.addr = h.addr ∧ h0.variant = h.variant)
    (hcnt : ∀ b, b ≠ a → cnt b s'.table = cnt b s.table)
    (h1 : c'.kind.counted = true → c'.freed = false → c'.strong = cnt a s'.table ∧ 1 ≤ c'.strong)
    (h2 : c'.freed = true → cnt a s'.table = 0)
    (h3 : c'.kind.counted = false → c'.freed = false) : HInv s' := by
  obtain ⟨t1, t2⟩ := hI
  refine ⟨?_, ?_⟩
  · intro h hm
    obtain ⟨h0, hm0, ha, hv⟩ := htyp h hm
    obtain ⟨c0, hc0, hk0⟩ := t1 h0 hm0
    rw [hheap]
    by_cases hb : h.addr = a
    · refine ⟨c', by simp [hb], ?_⟩
      rw [ha, hb, hc] at hc0
      simp only [Option.some.injEq] at hc0
      rw [hk, hc0, hk0, hv]
    · refine ⟨c0, ?_, by rw [hk0, hv]⟩
      simp only [hb, if_false]
      rw [← ha]; exact hc0
  · intro b cb hcb
    rw [hheap] at hcb
    by_cases hb : b = a
    · subst hb
      simp only [if_true, Option.some.injEq] at hcb
      subst hcb
      exact ⟨h1, h2, h3⟩
    · simp only [hb, if_false] at hcb
      rw [hcnt b hb]
      exact t2 b cb hcb

theorem heap_self (hp : Heap) (a : Nat) (c : HCell) (hc : hp[a]? = some c) (b : Nat) :
    hp[b]? = if b = a then some c else hp[b]? := by
  by_cases hb : b = a
  · subst hb; simp [hc]
  · simp [hb]

/-- a live handle of a raw-pointer variant is duplicated (heap untouched) -/
theorem hinv_push_raw (s : RState) (h h' : RHandle) (hI : HInv s) (hm : some h ∈ s.table)
    (hk : h.variant.counted = false) (ha : h'.addr = h.addr) (hv : h'.variant = h.variant) :
    HInv ⟨s.heap, s.table ++ [some h']⟩ := by
  obtain ⟨c, hc, hkc⟩ := hI.1 h hm
  have hc2 := hI.2 h.addr c hc
  have hkc' : c.kind.counted = false := by rw [hkc]; exact hk
  refine hinv_frame s _ h.addr c c hI hc rfl (heap_self _ _ _ hc) ?_ ?_ ?_ ?_ hc2.2.2
  · intro g hg
    rcases List.mem_append.1 hg with hg | hg
    · exact ⟨g, hg, rfl, rfl⟩
    · simp only [List.mem_singleton, Option.some.injEq] at hg
      subst hg; exact ⟨h, hm, ha.symm, hv.symm⟩
  · intro b hb
    show cnt b (s.table ++ [some h']) = cnt b s.table
    rw [cnt_append, ha]
    have : ¬ h.addr = b := fun e => hb e.symm
    simp [this]
  · intro hcn; rw [hkc'] at hcn; cases hcn
  · intro hf; rw [hc2.2.2 hkc'] at hf; cases hf

/-- a live handle of a counted variant is duplicated and the strong count incremented -/
theorem hinv_push_counted (s : RState) (h h' : RHandle) (c : HCell) (hI : HInv s) (hm : some h ∈ s.table)
    (hk : h.variant.counted = true) (hcell : s.heap.cell h.addr = .ok c) (ha : h'.addr = h.addr)
    (hv : h'.variant = h.variant) :
    HInv ⟨s.heap.set h.addr { c with strong := c.strong + 1 }, s.table ++ [some h']⟩ := by
  obtain ⟨hc, hfr⟩ := (cell_ok _ _ _).1 hcell
  obtain ⟨c0, hc0, hkc⟩ := hI.1 h hm
  rw [hc] at hc0; simp only [Option.some.injEq] at hc0; subst hc0
  have hc2 := hI.2 h.addr c hc
  have hkc' : c.kind.counted = true := by rw [hkc]; exact hk
  refine hinv_frame s _ h.addr c { c with strong := c.strong + 1 } hI hc rfl
    (get_set _ _ _ (cell_lt _ _ _ hcell)) ?_ ?_ ?_ ?_ ?_
  · intro g hg
    rcases List.mem_append.1 hg with hg | hg
    · exact ⟨g, hg, rfl, rfl⟩
    · simp only [List.mem_singleton, Option.some.injEq] at hg
      subst hg; exact ⟨h, hm, ha.symm, hv.symm⟩
  · intro b hb
    show cnt b (s.table ++ [some h']) = cnt b s.table
    rw [cnt_append, ha]
    have : ¬ h.addr = b := fun e => hb e.symm
    simp [this]
  · intro _ _
    show c.strong + 1 = cnt h.addr (s.table ++ [some h']) ∧ 1 ≤ c.strong + 1
    rw [cnt_append, ha]
    have := (hc2.1 hkc' hfr).1
    simp only [if_true]; omega
  · intro hf; change c.freed = true at hf; rw [hfr] at hf; cases hf
  · intro hcn; change c.kind.counted = false at hcn; rw [hkc'] at hcn; cases hcn

/-- a live handle is moved out of its slot and an equivalent one pushed (heap untouched) -/
theorem hinv_move (s : RState) (i : Nat) (h h' : RHandle) (hI : HInv s) (hi : s.table.getD i none = some h)
    (ha : h'.addr = h.addr) (hv : h'.variant = h.variant) :
    HInv ⟨s.heap, s.table.set i none ++ [some h']⟩ := by
  have hm := mem_of_getD _ _ _ hi
  obtain ⟨c, hc, hkc⟩ := hI.1 h hm
  have hc2 := hI.2 h.addr c hc
  have hcnt : ∀ b, cnt b (s.table.set i none ++ [some h']) = cnt b s.table := by
    intro b
    rw [cnt_append, ha]
    exact cnt_set_none b s.table i h hi
  refine hinv_frame s _ h.addr c c hI hc rfl (heap_self _ _ _ hc) ?_ (fun b _ => hcnt b) ?_ ?_ hc2.2.2
  · intro g hg
    rcases List.mem_append.1 hg with hg | hg
    · rcases List.mem_or_eq_of_mem_set hg with hg | hg
      · exact ⟨g, hg, rfl, rfl⟩
      · cases hg
    · simp only [List.mem_singleton, Option.some.injEq] at hg
      subst hg; exact ⟨h, hm, ha.symm, hv.symm⟩
  · intro hk hf
    show c.strong = cnt h.addr (s.table.set i none ++ [some h']) ∧ 1 ≤ c.strong
    rw [hcnt]; exact hc2.1 hk hf
  · intro hf
    show cnt h.addr (s.table.set i none ++ [some h']) = 0
    rw [hcnt]; exact hc2.2.1 hf

/-- the payload of a live cell is overwritten -/
theorem hinv_write (s : RState) (a : Nat) (c : HCell) (v : Int) (hI : HInv s) (hcell : s.heap.cell a = .ok c) :
    HInv ⟨s.heap.set a { c with value := v }, s.table⟩ := by
  obtain ⟨hc, hfr⟩ := (cell_ok _ _ _).1 hcell
  have hc2 := hI.2 a c hc
  exact hinv_frame s _ a c { c with value := v } hI hc rfl (get_set _ _ _ (cell_lt _ _ _ hcell))
    (fun g hg => ⟨g, hg, rfl, rfl⟩) (fun _ _ => rfl) hc2.1 hc2.2.1 hc2.2.2

/-- a raw-pointer handle is dropped (heap untouched) -/
theorem hinv_unset_raw (s : RState) (i : Nat) (h : RHandle) (hI : HInv s) (hi : s.table.getD i none = some h)
    (hk : h.variant.counted = false) : HInv ⟨s.heap, s.table.set i none⟩ := by
  have hm := mem_of_getD _ _ _ hi
  obtain ⟨c, hc, hkc⟩ := hI.1 h hm
  have hc2 := hI.2 h.addr c hc
  have hkc' : c.kind.counted = false := by rw [hkc]; exact hk
  refine hinv_frame s _ h.addr c c hI hc rfl (heap_self _ _ _ hc) ?_ ?_ ?_ ?_ hc2.2.2
  · intro g hg
    rcases List.mem_or_eq_of_mem_set hg with hg | hg
    · exact ⟨g, hg, rfl, rfl⟩
    · cases hg
  · intro b hb
    have := cnt_set_none b s.table i h hi
    have hne : ¬ h.addr = b := fun e => hb e.symm
    simpa [hne] using this
  · intro hcn; rw [hkc'] at hcn; cases hcn
  · intro hf; rw [hc2.2.2 hkc'] at hf; cases hf

/-- a counted handle is dropped: the strong count is decremented and the cell freed when it reaches 0 -/
theorem hinv_unset_counted (s : RState) (i : Nat) (h : RHandle) (c : HCell) (hI : HInv s)
    (hi : s.table.getD i none = some h) (hk : h.variant.counted = true) (hcell : s.heap.cell h.addr = .ok c) :
    HInv ⟨s.heap.set h.addr { c with strong := c.strong - 1, freed := c.strong - 1 == 0 }, s.table.set i none⟩ := by
  have hm := mem_of_getD _ _ _ hi
  obtain ⟨hc, hfr⟩ := (cell_ok _ _ _).1 hcell
  obtain ⟨c0, hc0, hkc⟩ := hI.1 h hm
  rw [hc] at hc0; simp only [Option.some.injEq] at hc0; subst hc0
  have hc2 := hI.2 h.addr c hc
  have hkc' : c.kind.counted = true := by rw [hkc]; exact hk
  have hstrong := (hc2.1 hkc' hfr).1
  have hdec := cnt_set_none h.addr s.table i h hi
  simp only [if_true] at hdec
  refine hinv_frame s _ h.addr c { c with strong := c.strong - 1, freed := c.strong - 1 == 0 } hI hc rfl
    (get_set _ _ _ (cell_lt _ _ _ hcell)) ?_ ?_ ?_ ?_ ?_
  · intro g hg
    rcases List.mem_or_eq_of_mem_set hg with hg | hg
    · exact ⟨g, hg, rfl, rfl⟩
    · cases hg
  · intro b hb
    have := cnt_set_none b s.table i h hi
    have hne : ¬ h.addr = b := fun e => hb e.symm
    simpa [hne] using this
  · intro _ hf
    change (c.strong - 1 == 0) = false at hf
    show c.strong - 1 = cnt h.addr (s.table.set i none) ∧ 1 ≤ c.strong - 1
    have : c.strong - 1 ≠ 0 := by simpa using hf
    omega
  · intro hf
    change (c.strong - 1 == 0) = true at hf
    show cnt h.addr (s.table.set i none) = 0
    have : c.strong - 1 = 0 := by simpa using hf
    omega
  · intro hcn; change c.kind.counted = false at hcn; rw [hkc'] at hcn; cases hcn

/-- a constructor: a fresh cell and the first handle to it -/
theorem hinv_alloc (s : RState) (k : RefVariant) (v : Int) (hI : HInv s) : HInv (s.alloc k v) := by
  obtain ⟨t1, t2⟩ := hI
  have hlt : ∀ h, some h ∈ s.table → h.addr < s.heap.length := by
    intro h hm
    obtain ⟨c, hc, _⟩ := t1 h hm
    by_cases hlt : h.addr < s.heap.length
    · exact hlt
    · rw [List.getElem?_eq_none (Nat.le_of_not_lt hlt)] at hc; cases hc
  refine ⟨?_, ?_⟩
  · intro h hm
    simp only [RState.alloc, Heap.alloc] at hm ⊢
    rcases List.mem_append.1 hm with hm | hm
    · obtain ⟨c, hc, hk⟩ := t1 h hm
      exact ⟨c, by rw [List.getElem?_append_left (hlt h hm)]; exact hc, hk⟩
    · simp only [List.mem_singleton, Option.some.injEq] at hm
      subst hm
      exact ⟨⟨k, v, false, if k.counted then 1 else 0⟩, by simp, rfl⟩
  · intro b cb hcb
    simp only [RState.alloc, Heap.alloc] at hcb ⊢
    rw [cnt_append]
    by_cases hb : b < s.heap.length
    · rw [List.getElem?_append_left hb] at hcb
      have hne : ¬ s.heap.length = b := by omega
      simp only [hne, if_false, Nat.add_zero]
      exact t2 b cb hcb
    · have hz : cnt b s.table = 0 := cnt_zero_of_forall b s.table (fun h hm => by have := hlt h hm; omega)
      by_cases hb' : b = s.heap.length
      · subst hb'
        simp only [List.getElem?_concat_length, Option.some.injEq] at hcb
        subst hcb
        simp only [if_true, hz]
        refine ⟨fun hk _ => by simp [hk], fun hf => absurd hf (by decide), fun _ => by first | trivial | rfl⟩
      · rw [List.getElem?_eq_none (by simp; omega)] at hcb; cases hcb

/-! ### the statements of the machine in closed form -/

theorem rclone_eq (s : RState) (i : Nat) :
    s.clone i =
      match s.table.getD i none with
      | none => .error .deadHandle
      | some h =>
        if h.variant.counted then
          (match s.heap.cell h.addr with
           | .error e => .error e
           | .ok c => .ok ⟨s.heap.set h.addr { c with strong := c.strong + 1 }, s.table ++ [some h]⟩)
        else .ok ⟨s.heap, s.table ++ [some h]⟩ := by
  unfold RState.clone RState.slot
  cases s.table.getD i none with
  | none => rfl
  | some h =>
    simp only [heap_clone_eq]
    cases h.variant.counted
    · rfl
    · simp only [if_true]
      cases s.heap.cell h.addr <;> rfl

theorem rtoDynClone_eq (feats : List String) (s : RState) (i : Nat) :
    s.toDynClone feats i =
      match s.table.getD i none with
      | none => .error .deadHandle
      | some h =>
        if h.variant.counted then
          (match s.heap.cell h.addr with
           | .error e => .error e
           | .ok c =>
             if toDynHasArm feats h.variant then
               .ok ⟨s.heap.set h.addr { c with strong := c.strong + 1 }, s.table ++ [some { h with isDyn := true }]⟩
             else .error (.panic .unimpl))
        else if toDynHasArm feats h.variant then .ok ⟨s.heap, s.table ++ [some { h with isDyn := true }]⟩
        else .error (.panic .unimpl) := by
  unfold RState.toDynClone RState.slot
  cases s.table.getD i none with
  | none => rfl
  | some h =>
    simp only [heap_clone_eq]
    cases h.variant.counted
    · simp only [Bool.false_eq_true, if_false, heap_toDyn_eq]
      cases toDynHasArm feats h.variant <;> rfl
    · simp only [if_true]
      cases s.heap.cell h.addr with
      | error e => rfl
      | ok c =>
        simp only [heap_toDyn_eq]
        cases toDynHasArm feats h.variant <;> rfl

theorem rtoDynMove_eq (feats : List String) (s : RState) (i : Nat) :
    s.toDynMove feats i =
      match s.table.getD i none with
      | none => .error .deadHandle
      | some h =>
        if toDynHasArm feats h.variant then .ok ⟨s.heap, s.table.set i none ++ [some { h with isDyn := true }]⟩
        else .error (.panic .unimpl) := by
  unfold RState.toDynMove RState.slot
  cases s.table.getD i none with
  | none => rfl
  | some h =>
    simp only [heap_toDyn_eq]
    cases toDynHasArm feats h.variant <;> rfl

theorem rread_eq (s : RState) (i : Nat) :
    s.read i =
      match s.table.getD i none with
      | none => .error .deadHandle
      | some h =>
        match s.heap.cell h.addr with
        | .error e => .error e
        | .ok c => .ok c.value := by
  unfold RState.read RState.slot Heap.read
  cases s.table.getD i none <;> rfl

theorem rwrite_eq (s : RState) (i : Nat) (v : Int) :
    s.write i v =
      match s.table.getD i none with
      | none => .error .deadHandle
      | some h =>
        match s.heap.cell h.addr with
        | .error e => .error e
        | .ok c => .ok ⟨s.heap.set h.addr { c with value := v }, s.table⟩ := by
  unfold RState.write RState.slot Heap.write
  cases s.table.getD i none with
  | none => rfl
  | some h => simp only []; cases s.heap.cell h.addr <;> rfl

theorem rdrop_eq (s : RState) (i : Nat) :
    s.drop i =
      match s.table.getD i none with
      | none => .error .deadHandle
      | some h =>
        if h.variant.counted then
          (match s.heap.cell h.addr with
           | .error e => .error e
           | .ok c =>
             .ok ⟨s.heap.set h.addr { c with strong := c.strong - 1, freed := c.strong - 1 == 0 }, s.table.set i none⟩)
        else .ok ⟨s.heap, s.table.set i none⟩ := by
  unfold RState.drop RState.slot Heap.drop
  cases s.table.getD i none with
  | none => rfl
  | some h =>
    simp only []
    cases h.variant.counted
    · rfl
    · simp only [if_true]; cases s.heap.cell h.addr <;> rfl

/-! ### every statement preserves the invariant -/

theorem hinv_exec (feats : List String) (s s' : RState) (op : HOp) (hI : HInv s) (he : hexec feats s op = .ok s') :
    HInv s' := by
  cases op with
  | alloc k v =>
    simp only [hexec, Except.ok.injEq] at he
    subst he; exact hinv_alloc s k v hI
  | clone i =>
    simp only [hexec, rclone_eq] at he
    cases hi : s.table.getD i none with
    | none => rw [hi] at he; cases he
    | some h =>
      rw [hi] at he
      have hm := mem_of_getD _ _ _ hi
      cases hk : h.variant.counted with
      | false =>
        simp only [hk, Bool.false_eq_true, if_false, Except.ok.injEq] at he
        subst he; exact hinv_push_raw s h h hI hm hk rfl rfl
      | true =>
        simp only [hk, if_true] at he
        cases hcell : s.heap.cell h.addr with
        | error e => rw [hcell] at he; cases he
        | ok c =>
          rw [hcell] at he
          simp only [Except.ok.injEq] at he
          subst he; exact hinv_push_counted s h h c hI hm hk hcell rfl rfl
  | toDynClone i =>
    simp only [hexec, rtoDynClone_eq] at he
    cases hi : s.table.getD i none with
    | none => rw [hi] at he; cases he
    | some h =>
      rw [hi] at he
      have hm := mem_of_getD _ _ _ hi
      cases harm : toDynHasArm feats h.variant with
      | false =>
        cases hk : h.variant.counted with
        | false => simp [hk, harm] at he
        | true =>
          simp only [hk, harm, if_true] at he
          cases hcell : s.heap.cell h.addr <;> rw [hcell] at he <;> simp at he
      | true =>
        cases hk : h.variant.counted with
        | false =>
          simp only [hk, harm, Bool.false_eq_true, if_false, if_true, Except.ok.injEq] at he
          subst he; exact hinv_push_raw s h _ hI hm hk rfl rfl
        | true =>
          simp only [hk, harm, if_true] at he
          cases hcell : s.heap.cell h.addr with
          | error e => rw [hcell] at he; cases he
          | ok c =>
            rw [hcell] at he
            simp only [Except.ok.injEq] at he
            subst he; exact hinv_push_counted s h _ c hI hm hk hcell rfl rfl
  | toDynMove i =>
    simp only [hexec, rtoDynMove_eq] at he
    cases hi : s.table.getD i none with
    | none => rw [hi] at he; cases he
    | some h =>
      rw [hi] at he
      cases harm : toDynHasArm feats h.variant with
      | false => simp [harm] at he
      | true =>
        simp only [harm, if_true, Except.ok.injEq] at he
        subst he; exact hinv_move s i h _ hI hi rfl rfl
  | read i =>
    simp only [hexec] at he
    cases hr : s.read i with
    | error e => rw [hr] at he; cases he
    | ok x => rw [hr] at he; simp only [Except.ok.injEq] at he; subst he; exact hI
  | write i v =>
    simp only [hexec, rwrite_eq] at he
    cases hi : s.table.getD i none with
    | none => rw [hi] at he; cases he
    | some h =>
      rw [hi] at he
      dsimp only at he
      cases hcell : s.heap.cell h.addr with
      | error e => rw [hcell] at he; cases he
      | ok c =>
        rw [hcell] at he
        simp only [Except.ok.injEq] at he
        subst he; exact hinv_write s h.addr c v hI hcell
  | drop i =>
    simp only [hexec, rdrop_eq] at he
    cases hi : s.table.getD i none with
    | none => rw [hi] at he; cases he
    | some h =>
      rw [hi] at he
      cases hk : h.variant.counted with
      | false =>
        simp only [hk, Bool.false_eq_true, if_false, Except.ok.injEq] at he
        subst he; exact hinv_unset_raw s i h hI hi hk
      | true =>
        simp only [hk, if_true] at he
        cases hcell : s.heap.cell h.addr with
        | error e => rw [hcell] at he; cases he
        | ok c =>
          rw [hcell] at he
          simp only [Except.ok.injEq] at he
          subst he; exact hinv_unset_counted s i h c hI hi hk hcell

theorem hrun_cons_ok (feats : List String) (s s' : RState) (op : HOp) (rest : List HOp)
    (h : hexec feats s op = .ok s') : hrun feats s (op :: rest) = hrun feats s' rest := by
  simp [hrun, hrunWith, h]

theorem hrun_cons_err (feats : List String) (s : RState) (op : HOp) (rest : List HOp) (e : HFault)
    (h : hexec feats s op = .error e) : hrun feats s (op :: rest) = .error e := by
  simp [hrun, hrunWith, h]

theorem hinv_run (feats : List String) (s s' : RState) (ops : List HOp) (hI : HInv s)
    (hr : hrun feats s ops = .ok s') : HInv s' := by
  induction ops generalizing s with
  | nil => simp only [hrun, hrunWith, Except.ok.injEq] at hr; subst hr; exact hI
  | cons op rest ih =>
    cases he : hexec feats s op with
    | error e => rw [hrun_cons_err feats s op rest e he] at hr; cases hr
    | ok s1 => rw [hrun_cons_ok feats s s1 op rest he] at hr; exact ih s1 (hinv_exec feats s s1 op hI he) hr

/-- a heap + handle table produced by SOME program (any statements, any order, any caller features) from nothing -/
def Reachable (s : RState) : Prop := ∃ feats ops, hrun feats RState.empty ops = .ok s

theorem hinv_reachable (s : RState) (hr : Reachable s) : HInv s := by
  obtain ⟨feats, ops, h⟩ := hr
  exact hinv_run feats _ s ops hinv_empty h

/-! ### liveness -/

/-- under the invariant a live handle can be dereferenced: its cell is allocated, of its kind, and not freed -/
theorem live_cell (s : RState) (hI : HInv s) (h : RHandle) (hm : some h ∈ s.table) :
    ∃ c, s.heap.cell h.addr = .ok c ∧ c.kind = h.variant := by
  obtain ⟨c, hc, hk⟩ := hI.1 h hm
  refine ⟨c, (cell_ok _ _ _).2 ⟨hc, ?_⟩, hk⟩
  cases hf : c.freed with
  | false => rfl
  | true =>
    have := (hI.2 h.addr c hc).2.1 hf
    have := cnt_pos s.table h hm
    omega

/-- **A counted cell lives exactly while a handle to it exists.** On every heap reachable by any program:
(1) the strong count of a live `Rc` / `Arc` cell IS the number of live handles to it (and that number is ≥ 1);
(2) a freed cell has no live handle — equivalently (3) every live handle points at an allocated, un-freed cell of its own
kind, so dereferencing it does not fault; (4) static cells are never freed; (5) dropping a counted handle succeeds,
removes exactly that handle, and frees the cell if and only if it was the LAST handle to it. -/
theorem counted_cell_live_while_any_handle (s : RState) (hr : Reachable s) :
    (∀ (a : Nat) (c : HCell), s.heap[a]? = some c → c.kind.counted = true → c.freed = false →
      c.strong = cnt a s.table ∧ 1 ≤ cnt a s.table) ∧
    (∀ (a : Nat) (c : HCell), s.heap[a]? = some c → c.freed = true → cnt a s.table = 0) ∧
    (∀ i h, s.table.getD i none = some h →
      ∃ c, s.heap[h.addr]? = some c ∧ c.kind = h.variant ∧ c.freed = false ∧ s.read i = .ok c.value) ∧
    (∀ (a : Nat) (c : HCell), s.heap[a]? = some c → c.kind.counted = false → c.freed = false) ∧
    (∀ i h, s.table.getD i none = some h → h.variant.counted = true →
      ∃ s' c', s.drop i = .ok s' ∧ s'.table = s.table.set i none ∧ s'.heap[h.addr]? = some c' ∧
        cnt h.addr s'.table + 1 = cnt h.addr s.table ∧
        (c'.freed = true ↔ cnt h.addr s.table = 1) ∧ (c'.freed = false → c'.strong = cnt h.addr s'.table)) := by
  have hI := hinv_reachable s hr
  refine ⟨?_, ?_, ?_, ?_, ?_⟩
  · intro a c hc hk hf
    have := (hI.2 a c hc).1 hk hf
    omega
  · intro a c hc hf; exact (hI.2 a c hc).2.1 hf
  · intro i h hi
    obtain ⟨c, hcell, hk⟩ := live_cell s hI h (mem_of_getD _ _ _ hi)
    obtain ⟨hc, hf⟩ := (cell_ok _ _ _).1 hcell
    refine ⟨c, hc, hk, hf, ?_⟩
    rw [rread_eq, hi]; dsimp only; rw [hcell]
  · intro a c hc hk; exact (hI.2 a c hc).2.2 hk
  · intro i h hi hk
    obtain ⟨c, hcell, hkc⟩ := live_cell s hI h (mem_of_getD _ _ _ hi)
    obtain ⟨hc, hf⟩ := (cell_ok _ _ _).1 hcell
    have hstrong := ((hI.2 h.addr c hc).1 (by rw [hkc]; exact hk) hf).1
    have hdec := cnt_set_none h.addr s.table i h hi
    simp only [if_true] at hdec
    refine ⟨⟨s.heap.set h.addr { c with strong := c.strong - 1, freed := c.strong - 1 == 0 }, s.table.set i none⟩,
      { c with strong := c.strong - 1, freed := c.strong - 1 == 0 }, ?_, rfl, ?_, hdec, ?_, ?_⟩
    · rw [rdrop_eq, hi]; simp only [hk, if_true]; rw [hcell]
    · show (s.heap.set h.addr _)[h.addr]? = _
      rw [get_set _ _ _ (cell_lt _ _ _ hcell)]; simp
    · show (c.strong - 1 == 0) = true ↔ _
      simp only [beq_iff_eq]; omega
    · intro hfr
      change (c.strong - 1 == 0) = false at hfr
      show c.strong - 1 = cnt h.addr (s.table.set i none)
      omega

/-- non-vacuity: an `Arc` cell with two handles survives the first drop and is freed by the second -/
example : hrun [] RState.empty [.alloc .arcMutex 3, .clone 0, .drop 0] =
    .ok ⟨[⟨.arcMutex, 3, false, 1⟩], [none, some ⟨.arcMutex, 0, false⟩]⟩ := by rfl
example : hrun [] RState.empty [.alloc .arcMutex 3, .clone 0, .drop 0, .drop 1] =
    .ok ⟨[⟨.arcMutex, 3, true, 0⟩], [none, none]⟩ := by rfl
example : Reachable ⟨[⟨.arcMutex, 3, false, 1⟩], [none, some ⟨.arcMutex, 0, false⟩]⟩ :=
  ⟨[], [.alloc .arcMutex 3, .clone 0, .drop 0], rfl⟩

/-! ### no fault -/

/-- the slot a statement names -/
def opArg : HOp → Option Nat
  | .alloc _ _ => none
  | .clone i => some i
  | .toDynClone i => some i
  | .toDynMove i => some i
  | .read i => some i
  | .write i _ => some i
  | .drop i => some i

def opIsToDyn : HOp → Bool
  | .toDynClone _ => true
  | .toDynMove _ => true
  | _ => false

/-- the statement names a slot that currently holds a handle -/
def usesLive (s : RState) (op : HOp) : Prop := ∀ i, opArg op = some i → ∃ h, s.table.getD i none = some h

/-- if the statement is a `to_dyn!`, the calling crate gets an arm for the variant of the handle it names -/
def converts (feats : List String) (s : RState) (op : HOp) : Prop :=
  opIsToDyn op = true → ∀ i h, opArg op = some i → s.table.getD i none = some h → toDynHasArm feats h.variant = true

/-- one statement on a live slot, under the invariant: it succeeds, or it is a `to_dyn!` of a variant without a usable
arm and panics with `unimplemented!()` — never a memory fault, never a dead handle -/
theorem exec_no_fault (feats : List String) (s : RState) (op : HOp) (hI : HInv s) (hl : usesLive s op) :
    (∃ s', hexec feats s op = .ok s') ∨
    (hexec feats s op = .error (.panic .unimpl) ∧ ¬ converts feats s op) := by
  cases op with
  | alloc k v => exact Or.inl ⟨_, rfl⟩
  | clone i =>
    obtain ⟨h, hi⟩ := hl i rfl
    obtain ⟨c, hcell, _⟩ := live_cell s hI h (mem_of_getD _ _ _ hi)
    left
    simp only [hexec, rclone_eq, hi, hcell]
    cases h.variant.counted <;> simp
  | toDynClone i =>
    obtain ⟨h, hi⟩ := hl i rfl
    obtain ⟨c, hcell, _⟩ := live_cell s hI h (mem_of_getD _ _ _ hi)
    simp only [hexec, rtoDynClone_eq, hi, hcell]
    cases harm : toDynHasArm feats h.variant with
    | true => left; cases h.variant.counted <;> simp
    | false =>
      right
      refine ⟨by cases h.variant.counted <;> simp, fun hcv => ?_⟩
      have := hcv rfl i h rfl hi
      rw [harm] at this; cases this
  | toDynMove i =>
    obtain ⟨h, hi⟩ := hl i rfl
    simp only [hexec, rtoDynMove_eq, hi]
    cases harm : toDynHasArm feats h.variant with
    | true => left; simp
    | false =>
      right
      refine ⟨by simp, fun hcv => ?_⟩
      have := hcv rfl i h rfl hi
      rw [harm] at this; cases this
  | read i =>
    obtain ⟨h, hi⟩ := hl i rfl
    obtain ⟨c, hcell, _⟩ := live_cell s hI h (mem_of_getD _ _ _ hi)
    left
    simp only [hexec, rread_eq, hi, hcell]
    exact ⟨_, rfl⟩
  | write i v =>
    obtain ⟨h, hi⟩ := hl i rfl
    obtain ⟨c, hcell, _⟩ := live_cell s hI h (mem_of_getD _ _ _ hi)
    left
    simp only [hexec, rwrite_eq, hi, hcell]
    exact ⟨_, rfl⟩
  | drop i =>
    obtain ⟨h, hi⟩ := hl i rfl
    obtain ⟨c, hcell, _⟩ := live_cell s hI h (mem_of_getD _ _ _ hi)
    left
    simp only [hexec, rdrop_eq, hi, hcell]
    cases h.variant.counted <;> simp

/-- a program every statement of which names a slot that is live WHEN THE STATEMENT RUNS -/
def UsesLiveHandles (feats : List String) : RState → List HOp → Prop
  | _, [] => True
  | s, op :: rest => usesLive s op ∧ ∀ s', hexec feats s op = .ok s' → UsesLiveHandles feats s' rest

/-- … and every `to_dyn!` of which is of a variant the calling crate gets an arm for -/
def ConvertsListed (feats : List String) : RState → List HOp → Prop
  | _, [] => True
  | s, op :: rest => converts feats s op ∧ ∀ s', hexec feats s op = .ok s' → ConvertsListed feats s' rest

theorem ulh_cons (feats : List String) (s : RState) (op : HOp) (rest : List HOp) :
    UsesLiveHandles feats s (op :: rest) ↔
      usesLive s op ∧ ∀ s', hexec feats s op = .ok s' → UsesLiveHandles feats s' rest := Iff.rfl

theorem no_fault_of_inv (feats : List String) (s : RState) (ops : List HOp) (hI : HInv s)
    (hwf : UsesLiveHandles feats s ops) :
    ((∃ s', hrun feats s ops = .ok s') ∨ hrun feats s ops = .error (.panic .unimpl)) ∧
    (ConvertsListed feats s ops → ∃ s', hrun feats s ops = .ok s') := by
  induction ops generalizing s with
  | nil => exact ⟨Or.inl ⟨s, rfl⟩, fun _ => ⟨s, rfl⟩⟩
  | cons op rest ih =>
    obtain ⟨hl, hrest⟩ := hwf
    rcases exec_no_fault feats s op hI hl with ⟨s1, he⟩ | ⟨he, hnc⟩
    · rw [hrun_cons_ok feats s s1 op rest he]
      have := ih s1 (hinv_exec feats s s1 op hI he) (hrest s1 he)
      exact ⟨this.1, fun hcv => this.2 (hcv.2 s1 he)⟩
    · rw [hrun_cons_err feats s op rest _ he]
      exact ⟨Or.inr rfl, fun hcv => absurd hcv.1 hnc⟩

/-- **Well-formed programs never fault.** From any reachable heap, a program that only names slots holding a handle at
the time (no use of a dropped / moved / never-created `Reference`) never hits a dangling address, a freed cell or a
dead handle: it runs to completion, or stops at the `unimplemented!()` of a `to_dyn!` whose variant has no arm in the
calling crate; if every conversion is of a variant with an arm, it runs to completion. -/
theorem no_fault_on_live_handles (feats : List String) (s : RState) (ops : List HOp) (hr : Reachable s)
    (hwf : UsesLiveHandles feats s ops) :
    ((∃ s', hrun feats s ops = .ok s') ∨ hrun feats s ops = .error (.panic .unimpl)) ∧
    (ConvertsListed feats s ops → ∃ s', hrun feats s ops = .ok s') :=
  no_fault_of_inv feats s ops (hinv_reachable s hr) hwf

/-- non-vacuity: a well-formed program (clone, convert by move, write through the trait object, drop the clone) -/
example : UsesLiveHandles ["std"] RState.empty
    [.alloc .rcRefCell 1, .clone 0, .toDynMove 0, .write 2 9, .drop 1, .read 2] := by
  refine (ulh_cons _ _ _ _).2 ⟨fun i hi => (by cases hi), fun s1 h1 => ?_⟩
  obtain rfl : _ = s1 := Except.ok.inj h1
  refine (ulh_cons _ _ _ _).2 ⟨fun i hi => (by cases hi; exact ⟨_, rfl⟩), fun s2 h2 => ?_⟩
  obtain rfl : _ = s2 := Except.ok.inj h2
  refine (ulh_cons _ _ _ _).2 ⟨fun i hi => (by cases hi; exact ⟨_, rfl⟩), fun s3 h3 => ?_⟩
  obtain rfl : _ = s3 := Except.ok.inj h3
  refine (ulh_cons _ _ _ _).2 ⟨fun i hi => (by cases hi; exact ⟨_, rfl⟩), fun s4 h4 => ?_⟩
  obtain rfl : _ = s4 := Except.ok.inj h4
  refine (ulh_cons _ _ _ _).2 ⟨fun i hi => (by cases hi; exact ⟨_, rfl⟩), fun s5 h5 => ?_⟩
  obtain rfl : _ = s5 := Except.ok.inj h5
  exact (ulh_cons _ _ _ _).2 ⟨fun i hi => (by cases hi; exact ⟨_, rfl⟩), fun _ _ => trivial⟩
example : hrun ["std"] RState.empty [.alloc .rcRefCell 1, .clone 0, .toDynMove 0, .write 2 9, .drop 1, .read 2] =
    .ok ⟨[⟨.rcRefCell, 9, false, 1⟩], [none, none, some ⟨.rcRefCell, 0, true⟩]⟩ := by rfl
/-- … whereas a program that uses a dropped handle is stopped -/
example : hrun [] RState.empty [.alloc .rcRefCell 1, .drop 0, .read 0] = .error .deadHandle := by rfl

/-! ### aliasing: what a statement does to the cells it is not about -/

/-- the address a statement writes a payload to -/
def writeAddr (s : RState) : HOp → Option Nat
  | .write i _ => (s.table.getD i none).map (·.addr)
  | _ => none

theorem frame_set (hp : Heap) (b : Nat) (cb cb' : HCell) (hb : hp.cell b = .ok cb) (hk : cb'.kind = cb.kind)
    (a : Nat) (c : HCell) (hc : hp[a]? = some c) :
    ∃ c', (hp.set b cb')[a]? = some c' ∧ c'.kind = c.kind ∧ ((a = b → cb'.value = cb.value) → c'.value = c.value) := by
  rw [get_set _ _ _ (cell_lt _ _ _ hb)]
  by_cases hab : a = b
  · subst hab
    have := ((cell_ok _ _ _).1 hb).1
    rw [hc] at this; simp only [Option.some.injEq] at this; subst this
    exact ⟨cb', by simp, hk, fun h => h rfl⟩
  · exact ⟨c, by simp [hab, hc], rfl, fun _ => rfl⟩

theorem mem_push (t : List (Option RHandle)) (h h' g : RHandle) (hm : some h ∈ t) (ha : h'.addr = h.addr)
    (hv : h'.variant = h.variant) (hg : some g ∈ t ++ [some h']) :
    ∃ g0, some g0 ∈ t ∧ g.addr = g0.addr ∧ g.variant = g0.variant := by
  rcases List.mem_append.1 hg with hg | hg
  · exact ⟨g, hg, rfl, rfl⟩
  · simp only [List.mem_singleton, Option.some.injEq] at hg
    subst hg; exact ⟨h, hm, ha, hv⟩

theorem mem_unset (t : List (Option RHandle)) (i : Nat) (g : RHandle) (hg : some g ∈ t.set i none) : some g ∈ t := by
  rcases List.mem_or_eq_of_mem_set hg with hg | hg
  · exact hg
  · cases hg

/-- every statement: (1) keeps every allocated cell allocated, of the same kind, and — unless it is a write to that very
address — with the same payload; (2) unless it is a constructor, allocates nothing and only hands out handles to
addresses (and of variants) that live handles already had -/
theorem exec_frame (feats : List String) (s s' : RState) (op : HOp) (he : hexec feats s op = .ok s') :
    (∀ (a : Nat) (c : HCell), s.heap[a]? = some c →
      ∃ c', s'.heap[a]? = some c' ∧ c'.kind = c.kind ∧ (writeAddr s op ≠ some a → c'.value = c.value)) ∧
    ((∀ k v, op ≠ .alloc k v) → s'.heap.length = s.heap.length ∧
      ∀ g, some g ∈ s'.table → ∃ g0, some g0 ∈ s.table ∧ g.addr = g0.addr ∧ g.variant = g0.variant) := by
  have hsame : ∀ (a : Nat) (c : HCell), s.heap[a]? = some c →
      ∃ c', s.heap[a]? = some c' ∧ c'.kind = c.kind ∧ (writeAddr s op ≠ some a → c'.value = c.value) :=
    fun a c hc => ⟨c, hc, rfl, fun _ => rfl⟩
  cases op with
  | alloc k v =>
    simp only [hexec, Except.ok.injEq] at he
    subst he
    refine ⟨fun a c hc => ⟨c, ?_, rfl, fun _ => rfl⟩, fun hna => absurd rfl (hna k v)⟩
    have hlt : a < s.heap.length := by
      by_cases hlt : a < s.heap.length
      · exact hlt
      · rw [List.getElem?_eq_none (Nat.le_of_not_lt hlt)] at hc; cases hc
    show (s.heap ++ _)[a]? = some c
    rw [List.getElem?_append_left hlt]; exact hc
  | clone i =>
    simp only [hexec, rclone_eq] at he
    cases hi : s.table.getD i none with
    | none => rw [hi] at he; cases he
    | some h =>
      rw [hi] at he
      have hm := mem_of_getD _ _ _ hi
      cases hk : h.variant.counted with
      | false =>
        simp only [hk, Bool.false_eq_true, if_false, Except.ok.injEq] at he
        subst he
        exact ⟨hsame, fun _ => ⟨rfl, fun g hg => mem_push _ h h g hm rfl rfl hg⟩⟩
      | true =>
        simp only [hk, if_true] at he
        cases hcell : s.heap.cell h.addr with
        | error e => rw [hcell] at he; cases he
        | ok c =>
          rw [hcell] at he
          simp only [Except.ok.injEq] at he
          subst he
          refine ⟨fun a c0 hc0 => ?_, fun _ => ⟨List.length_set, fun g hg => mem_push _ h h g hm rfl rfl hg⟩⟩
          obtain ⟨c', h1, h2, h3⟩ := frame_set s.heap h.addr c { c with strong := c.strong + 1 } hcell rfl a c0 hc0
          exact ⟨c', h1, h2, fun _ => h3 (fun _ => rfl)⟩
  | toDynClone i =>
    simp only [hexec, rtoDynClone_eq] at he
    cases hi : s.table.getD i none with
    | none => rw [hi] at he; cases he
    | some h =>
      rw [hi] at he
      have hm := mem_of_getD _ _ _ hi
      cases harm : toDynHasArm feats h.variant with
      | false =>
        cases hk : h.variant.counted with
        | false => simp [hk, harm] at he
        | true =>
          simp only [hk, harm, if_true] at he
          cases hcell : s.heap.cell h.addr <;> rw [hcell] at he <;> simp at he
      | true =>
        cases hk : h.variant.counted with
        | false =>
          simp only [hk, harm, Bool.false_eq_true, if_false, if_true, Except.ok.injEq] at he
          subst he
          exact ⟨hsame, fun _ => ⟨rfl, fun g hg => mem_push _ h { h with isDyn := true } g hm rfl rfl hg⟩⟩
        | true =>
          simp only [hk, harm, if_true] at he
          cases hcell : s.heap.cell h.addr with
          | error e => rw [hcell] at he; cases he
          | ok c =>
            rw [hcell] at he
            simp only [Except.ok.injEq] at he
            subst he
            refine ⟨fun a c0 hc0 => ?_, fun _ => ⟨List.length_set, fun g hg => mem_push _ h { h with isDyn := true } g hm rfl rfl hg⟩⟩
            obtain ⟨c', h1, h2, h3⟩ := frame_set s.heap h.addr c { c with strong := c.strong + 1 } hcell rfl a c0 hc0
            exact ⟨c', h1, h2, fun _ => h3 (fun _ => rfl)⟩
  | toDynMove i =>
    simp only [hexec, rtoDynMove_eq] at he
    cases hi : s.table.getD i none with
    | none => rw [hi] at he; cases he
    | some h =>
      rw [hi] at he
      have hm := mem_of_getD _ _ _ hi
      cases harm : toDynHasArm feats h.variant with
      | false => simp [harm] at he
      | true =>
        simp only [harm, if_true, Except.ok.injEq] at he
        subst he
        refine ⟨hsame, fun _ => ⟨rfl, fun g hg => ?_⟩⟩
        rcases List.mem_append.1 hg with hg | hg
        · exact ⟨g, mem_unset _ _ _ hg, rfl, rfl⟩
        · simp only [List.mem_singleton, Option.some.injEq] at hg
          subst hg; exact ⟨h, hm, rfl, rfl⟩
  | read i =>
    simp only [hexec] at he
    cases hr : s.read i with
    | error e => rw [hr] at he; cases he
    | ok x =>
      rw [hr] at he; simp only [Except.ok.injEq] at he; subst he
      exact ⟨hsame, fun _ => ⟨rfl, fun g hg => ⟨g, hg, rfl, rfl⟩⟩⟩
  | write i v =>
    simp only [hexec, rwrite_eq] at he
    cases hi : s.table.getD i none with
    | none => rw [hi] at he; cases he
    | some h =>
      rw [hi] at he
      dsimp only at he
      cases hcell : s.heap.cell h.addr with
      | error e => rw [hcell] at he; cases he
      | ok c =>
        rw [hcell] at he
        simp only [Except.ok.injEq] at he
        subst he
        refine ⟨fun a c0 hc0 => ?_, fun _ => ⟨List.length_set, fun g hg => ⟨g, hg, rfl, rfl⟩⟩⟩
        obtain ⟨c', h1, h2, h3⟩ := frame_set s.heap h.addr c { c with value := v } hcell rfl a c0 hc0
        refine ⟨c', h1, h2, fun hne => h3 (fun hab => ?_)⟩
        exfalso; apply hne
        show (s.table.getD i none).map (·.addr) = some a
        rw [hi, hab]; rfl
  | drop i =>
    simp only [hexec, rdrop_eq] at he
    cases hi : s.table.getD i none with
    | none => rw [hi] at he; cases he
    | some h =>
      rw [hi] at he
      cases hk : h.variant.counted with
      | false =>
        simp only [hk, Bool.false_eq_true, if_false, Except.ok.injEq] at he
        subst he
        exact ⟨hsame, fun _ => ⟨rfl, fun g hg => ⟨g, mem_unset _ _ _ hg, rfl, rfl⟩⟩⟩
      | true =>
        simp only [hk, if_true] at he
        cases hcell : s.heap.cell h.addr with
        | error e => rw [hcell] at he; cases he
        | ok c =>
          rw [hcell] at he
          simp only [Except.ok.injEq] at he
          subst he
          refine ⟨fun a c0 hc0 => ?_,
            fun _ => ⟨List.length_set, fun g hg => ⟨g, mem_unset _ _ _ hg, rfl, rfl⟩⟩⟩
          obtain ⟨c', h1, h2, h3⟩ := frame_set s.heap h.addr c
            { c with strong := c.strong - 1, freed := c.strong - 1 == 0 } hcell rfl a c0 hc0
          exact ⟨c', h1, h2, fun _ => h3 (fun _ => rfl)⟩

/-- no statement of the program, at the time it runs, is a write through a handle to address `a` -/
def QuietAt (feats : List String) (a : Nat) : RState → List HOp → Prop
  | _, [] => True
  | s, op :: rest => writeAddr s op ≠ some a ∧ ∀ s', hexec feats s op = .ok s' → QuietAt feats a s' rest

theorem run_value_quiet (feats : List String) (s s' : RState) (ops : List HOp) (a : Nat) (c : HCell)
    (hr : hrun feats s ops = .ok s') (hq : QuietAt feats a s ops) (hc : s.heap[a]? = some c) :
    ∃ c', s'.heap[a]? = some c' ∧ c'.value = c.value := by
  induction ops generalizing s c with
  | nil => simp only [hrun, hrunWith, Except.ok.injEq] at hr; subst hr; exact ⟨c, hc, rfl⟩
  | cons op rest ih =>
    cases he : hexec feats s op with
    | error e => rw [hrun_cons_err feats s op rest e he] at hr; cases hr
    | ok s1 =>
      rw [hrun_cons_ok feats s s1 op rest he] at hr
      obtain ⟨c1, hc1, _, hv1⟩ := (exec_frame feats s s1 op he).1 a c hc
      obtain ⟨c', hc', hv'⟩ := ih s1 c1 hr (hq.2 s1 he) hc1
      exact ⟨c', hc', by rw [hv', hv1 hq.1]⟩

theorem write_seen_of_inv (feats : List String) (s : RState) (hI : HInv s) (i : Nat) (h : RHandle) (v : Int)
    (hi : s.table.getD i none = some h) :
    ∃ s1, s.write i v = .ok s1 ∧
      ∀ (ops : List HOp) (s2 : RState) (j : Nat) (h' : RHandle),
        hrun feats s1 ops = .ok s2 → QuietAt feats h.addr s1 ops →
        s2.table.getD j none = some h' → h'.addr = h.addr → s2.read j = .ok v := by
  obtain ⟨c, hcell, _⟩ := live_cell s hI h (mem_of_getD _ _ _ hi)
  refine ⟨⟨s.heap.set h.addr { c with value := v }, s.table⟩, ?_, ?_⟩
  · rw [rwrite_eq, hi]; dsimp only; rw [hcell]
  · intro ops s2 j h' hrun hq hj ha
    have hI1 : HInv ⟨s.heap.set h.addr { c with value := v }, s.table⟩ := hinv_write s h.addr c v hI hcell
    have hI2 := hinv_run feats _ s2 ops hI1 hrun
    have hc1 : (s.heap.set h.addr { c with value := v })[h.addr]? = some { c with value := v } := by
      rw [get_set _ _ _ (cell_lt _ _ _ hcell)]; simp
    obtain ⟨c2, hc2, hv2⟩ := run_value_quiet feats _ s2 ops h.addr _ hrun hq hc1
    obtain ⟨c2', hcell2, _⟩ := live_cell s2 hI2 h' (mem_of_getD _ _ _ hj)
    have := ((cell_ok _ _ _).1 hcell2).1
    rw [ha, hc2] at this; simp only [Option.some.injEq] at this; subst this
    rw [rread_eq, hj]; dsimp only; rw [hcell2]
    exact congrArg Except.ok hv2

/-- **A write through any handle is read through every handle with the same address.** On every heap reachable by any
program, a write of `v` through the handle in any live slot `i` succeeds, and afterwards — whatever further statements
run (constructors, clones, `to_dyn!` conversions of either form, drops, reads, writes to OTHER addresses) — a read
through ANY live slot `j` whose handle has the same address returns `v`: whether that handle is the original, a clone,
a trait-object conversion, whatever its variant tag, and whether it existed at the time of the write or was made
later. -/
theorem write_seen_through_every_alias (feats : List String) (s : RState) (hr : Reachable s) (i : Nat) (h : RHandle)
    (v : Int) (hi : s.table.getD i none = some h) :
    ∃ s1, s.write i v = .ok s1 ∧
      ∀ (ops : List HOp) (s2 : RState) (j : Nat) (h' : RHandle),
        hrun feats s1 ops = .ok s2 → QuietAt feats h.addr s1 ops →
        s2.table.getD j none = some h' → h'.addr = h.addr → s2.read j = .ok v :=
  write_seen_of_inv feats s (hinv_reachable s hr) i h v hi

/-- non-vacuity: two objects; write 7 through the clone of the first, then clone / convert / drop / write to the OTHER
object; the original and the later-made trait object of the first read 7 -/
example : hrun ["std"] RState.empty [.alloc .rcRefCell 1, .alloc .ptr 2, .clone 0, .write 2 7, .toDynClone 2, .drop 2,
    .write 1 5] =
    .ok ⟨[⟨.rcRefCell, 7, false, 2⟩, ⟨.ptr, 5, false, 0⟩],
      [some ⟨.rcRefCell, 0, false⟩, some ⟨.ptr, 1, false⟩, none, some ⟨.rcRefCell, 0, true⟩]⟩ := by rfl
example : (⟨[⟨.rcRefCell, 7, false, 2⟩, ⟨.ptr, 5, false, 0⟩],
    [some ⟨.rcRefCell, 0, false⟩, some ⟨.ptr, 1, false⟩, none, some ⟨.rcRefCell, 0, true⟩]⟩ : RState).read 3 = .ok 7 := by
  rfl

theorem qa_cons (feats : List String) (a : Nat) (s : RState) (op : HOp) (rest : List HOp) :
    QuietAt feats a s (op :: rest) ↔
      writeAddr s op ≠ some a ∧ ∀ s', hexec feats s op = .ok s' → QuietAt feats a s' rest := Iff.rfl

namespace HeapExamples
/-- the state of that program just before the write of 7 (two objects, a clone of the first) -/
def pre : RState :=
  ⟨[⟨.rcRefCell, 1, false, 2⟩, ⟨.ptr, 2, false, 0⟩],
    [some ⟨.rcRefCell, 0, false⟩, some ⟨.ptr, 1, false⟩, some ⟨.rcRefCell, 0, false⟩]⟩
def post : RState :=
  ⟨[⟨.rcRefCell, 7, false, 2⟩, ⟨.ptr, 2, false, 0⟩],
    [some ⟨.rcRefCell, 0, false⟩, some ⟨.ptr, 1, false⟩, some ⟨.rcRefCell, 0, false⟩]⟩
theorem pre_reachable : Reachable pre := ⟨["std"], [.alloc .rcRefCell 1, .alloc .ptr 2, .clone 0], rfl⟩
/-- the statements after the write of 7 in that program are quiet at address 0 (the last one writes to address 1) -/
theorem quiet : QuietAt ["std"] 0 post [.toDynClone 2, .drop 2, .write 1 5] := by
  refine (qa_cons _ _ _ _ _).2 ⟨fun h => (by cases h), fun s1 h1 => ?_⟩
  obtain rfl : _ = s1 := Except.ok.inj h1
  refine (qa_cons _ _ _ _ _).2 ⟨fun h => (by cases h), fun s2 h2 => ?_⟩
  obtain rfl : _ = s2 := Except.ok.inj h2
  exact (qa_cons _ _ _ _ _).2 ⟨fun h => (by cases h), fun _ _ => trivial⟩
end HeapExamples

/-- the theorem applied to that program: every hypothesis is met, and the trait object made AFTER the write (slot 3)
reads 7 -/
example : ∃ s2, hrun ["std"] HeapExamples.post [.toDynClone 2, .drop 2, .write 1 5] = .ok s2 ∧ s2.read 3 = .ok 7 := by
  obtain ⟨s1, hw, hseen⟩ :=
    write_seen_through_every_alias ["std"] HeapExamples.pre HeapExamples.pre_reachable 2 ⟨.rcRefCell, 0, false⟩ 7 rfl
  have h1 : HeapExamples.post = s1 := Except.ok.inj hw
  subst h1
  exact ⟨_, rfl, hseen _ _ 3 ⟨.rcRefCell, 0, true⟩ rfl HeapExamples.quiet rfl rfl⟩

/-! ### end-to-end specifications of a statement interpreter, met by the model and violated by mutants -/

/-- **clone aliasing, end to end**: in any state the interpreter reaches from nothing, after `let r_new = r_i.clone()`
a write through `r_i` succeeds and is read through `r_new`, and a write through `r_new` is read through `r_i` -/
def CloneAliasSpec (ex : RState → HOp → Except HFault RState) : Prop :=
  ∀ (ops : List HOp) (s s1 : RState) (i : Nat) (v : Int),
    hrunWith ex RState.empty ops = .ok s → ex s (.clone i) = .ok s1 →
    (∃ s2, ex s1 (.write i v) = .ok s2) ∧
    (∀ s2, ex s1 (.write i v) = .ok s2 → s2.read s.table.length = .ok v) ∧
    (∀ s2, ex s1 (.write s.table.length v) = .ok s2 → s2.read i = .ok v)

/-- **liveness, end to end**: in any state the interpreter reaches from nothing, every slot that holds a handle can be
read (its target has not been freed under it) -/
def LivenessSpec (ex : RState → HOp → Except HFault RState) : Prop :=
  ∀ (ops : List HOp) (s : RState) (i : Nat) (h : RHandle),
    hrunWith ex RState.empty ops = .ok s → s.table.getD i none = some h → ∃ x, s.read i = .ok x

/-- **counting**: every state the interpreter reaches from nothing satisfies the invariant (count = number of handles) -/
def CountSpec (ex : RState → HOp → Except HFault RState) : Prop :=
  ∀ (ops : List HOp) (s : RState), hrunWith ex RState.empty ops = .ok s → HInv s

theorem rclone_table (s s1 : RState) (i : Nat) (hc : s.clone i = .ok s1) :
    ∃ h, s.table.getD i none = some h ∧ s1.table = s.table ++ [some h] := by
  rw [rclone_eq] at hc
  cases hi : s.table.getD i none with
  | none => rw [hi] at hc; cases hc
  | some h =>
    rw [hi] at hc
    refine ⟨h, rfl, ?_⟩
    cases hk : h.variant.counted with
    | false => simp only [hk, Bool.false_eq_true, if_false, Except.ok.injEq] at hc; subst hc; rfl
    | true =>
      simp only [hk, if_true] at hc
      cases hcell : s.heap.cell h.addr with
      | error e => rw [hcell] at hc; cases hc
      | ok c => rw [hcell] at hc; simp only [Except.ok.injEq] at hc; subst hc; rfl

theorem rwrite_table (s s1 : RState) (i : Nat) (v : Int) (hw : s.write i v = .ok s1) : s1.table = s.table := by
  rw [rwrite_eq] at hw
  cases hi : s.table.getD i none with
  | none => rw [hi] at hw; cases hw
  | some h =>
    rw [hi] at hw; dsimp only at hw
    cases hcell : s.heap.cell h.addr with
    | error e => rw [hcell] at hw; cases hw
    | ok c => rw [hcell] at hw; simp only [Except.ok.injEq] at hw; subst hw; rfl

/-- the model meets the clone-aliasing specification, for every calling crate -/
theorem clone_alias_spec (feats : List String) : CloneAliasSpec (hexec feats) := by
  intro ops s s1 i v hrun hcl
  have hI : HInv s := hinv_run feats _ s ops hinv_empty hrun
  have hI1 : HInv s1 := hinv_exec feats s s1 (.clone i) hI hcl
  obtain ⟨h, hi, ht⟩ := rclone_table s s1 i hcl
  have hlt := getD_lt _ _ _ hi
  have hi1 : s1.table.getD i none = some h := by rw [ht, getD_append_left _ _ _ _ hlt]; exact hi
  have hn1 : s1.table.getD s.table.length none = some h := by rw [ht, getD_append_self]
  obtain ⟨sa, hwa, hseen_a⟩ := write_seen_of_inv feats s1 hI1 i h v hi1
  obtain ⟨sb, hwb, hseen_b⟩ := write_seen_of_inv feats s1 hI1 s.table.length h v hn1
  refine ⟨⟨sa, hwa⟩, ?_, ?_⟩
  · intro s2 hw
    have : sa = s2 := Except.ok.inj (hwa.symm.trans hw)
    subst this
    refine hseen_a [] sa s.table.length h rfl trivial ?_ rfl
    rw [rwrite_table s1 sa i v hwa]; exact hn1
  · intro s2 hw
    have : sb = s2 := Except.ok.inj (hwb.symm.trans hw)
    subst this
    refine hseen_b [] sb i h rfl trivial ?_ rfl
    rw [rwrite_table s1 sb _ v hwb]; exact hi1

/-- the model meets the liveness specification -/
theorem liveness_spec (feats : List String) : LivenessSpec (hexec feats) := by
  intro ops s i h hrun hi
  have hI : HInv s := hinv_run feats _ s ops hinv_empty hrun
  obtain ⟨c, hcell, _⟩ := live_cell s hI h (mem_of_getD _ _ _ hi)
  exact ⟨c.value, by rw [rread_eq, hi]; dsimp only; rw [hcell]⟩

/-- the model meets the counting specification -/
theorem count_spec (feats : List String) : CountSpec (hexec feats) :=
  fun ops s hrun => hinv_run feats _ s ops hinv_empty hrun

/-- MUTANT 1: a `clone` that deep-copies — a new cell with a copy of the payload, and a handle to THAT -/
def cloneDeep (hp : Heap) (h : RHandle) : Except HFault (Heap × RHandle) :=
  match hp.cell h.addr with
  | .error e => .error e
  | .ok c => .ok (hp ++ [⟨c.kind, c.value, false, if c.kind.counted then 1 else 0⟩], ⟨h.variant, hp.length, h.isDyn⟩)

/-- MUTANT 2: a `clone` that copies the pointer for EVERY variant — the `Rc` / `Arc` arms forget `Rc::clone` /
`Arc::clone`, so the clone takes no share of the strong count -/
def cloneNoBump (hp : Heap) (h : RHandle) : Except HFault (Heap × RHandle) := .ok (hp, h)

/-- the machine with `clone` replaced -/
def execMut (cl : Heap → RHandle → Except HFault (Heap × RHandle)) (feats : List String) (s : RState) :
    HOp → Except HFault RState
  | .clone i =>
    match s.slot i with
    | .error e => .error e
    | .ok h =>
      match cl s.heap h with
      | .error e => .error e
      | .ok (hp, h') => .ok ⟨hp, s.table ++ [some h']⟩
  | op => hexec feats s op

/-- with the real `clone` plugged in, this is the model's interpreter -/
theorem execMut_real (feats : List String) (s : RState) (op : HOp) : execMut Heap.clone feats s op = hexec feats s op := by
  cases op <;> rfl

/-- the deep-copying clone violates `clone_preserves_address`: different address, and a cell was allocated -/
example : cloneDeep [⟨.rcRefCell, 5, false, 1⟩] ⟨.rcRefCell, 0, false⟩ =
    .ok ([⟨.rcRefCell, 5, false, 1⟩, ⟨.rcRefCell, 5, false, 1⟩], ⟨.rcRefCell, 1, false⟩) := by rfl

/-- **the deep-copying clone violates aliasing** (`write_seen_through_every_alias` via `clone_preserves_address`, i.e.
`CloneAliasSpec`): make an `Rc` object holding 0, clone it, write 7 through the original — the clone still reads 0 -/
example : hrunWith (execMut cloneDeep []) RState.empty [.alloc .rcRefCell 0, .clone 0, .write 0 7] =
    .ok ⟨[⟨.rcRefCell, 7, false, 1⟩, ⟨.rcRefCell, 0, false, 1⟩],
      [some ⟨.rcRefCell, 0, false⟩, some ⟨.rcRefCell, 1, false⟩]⟩ := by rfl
example : ¬ CloneAliasSpec (execMut cloneDeep []) := by
  intro hspec
  have h := (hspec [.alloc .rcRefCell 0] _ _ 0 7 rfl rfl).2.1 _ rfl
  have h' : (0 : Int) = 7 := Except.ok.inj h
  exact absurd h' (by decide)
/-- the same program on the model: the clone reads 7 -/
example : (hrun [] RState.empty [.alloc .rcRefCell 0, .clone 0, .write 0 7]).bind (fun s => s.read 1) = .ok 7 := by rfl

/-- the forgetful clone violates the count clause of `clone_preserves_address`: the strong count stays 1 -/
example : cloneNoBump [⟨.arcMutex, 5, false, 1⟩] ⟨.arcMutex, 0, false⟩ =
    .ok ([⟨.arcMutex, 5, false, 1⟩], ⟨.arcMutex, 0, false⟩) := by rfl

/-- **the `Arc` clone that does not bump the count violates liveness** (`counted_cell_live_while_any_handle`,
`no_fault_on_live_handles`, i.e. `LivenessSpec` and `CountSpec`): make an `Arc<Mutex>` object, clone it, drop the
original — the cell is freed although the clone (slot 1) is still live, and reading through it is a use after free -/
example : hrunWith (execMut cloneNoBump []) RState.empty [.alloc .arcMutex 0, .clone 0, .drop 0] =
    .ok ⟨[⟨.arcMutex, 0, true, 0⟩], [none, some ⟨.arcMutex, 0, false⟩]⟩ := by rfl
example : (⟨[⟨.arcMutex, 0, true, 0⟩], [none, some ⟨.arcMutex, 0, false⟩]⟩ : RState).read 1 = .error .useAfterFree := by
  rfl
example : ¬ LivenessSpec (execMut cloneNoBump []) := by
  intro hspec
  obtain ⟨x, hx⟩ := hspec [.alloc .arcMutex 0, .clone 0, .drop 0] _ 1 ⟨.arcMutex, 0, false⟩ rfl rfl
  have hx' : (Except.error HFault.useAfterFree : Except HFault Int) = .ok x := hx
  cases hx'
example : ¬ CountSpec (execMut cloneNoBump []) := by
  intro hspec
  have hI := hspec [.alloc .arcMutex 0, .clone 0] _ rfl
  have := ((hI.2 0 ⟨.arcMutex, 0, false, 1⟩ rfl).1 rfl rfl).1
  exact absurd this (by decide)
/-- the same program on the model: the cell survives (count 2 → 1) and the clone reads 0 -/
example : hrun [] RState.empty [.alloc .arcMutex 0, .clone 0, .drop 0] =
    .ok ⟨[⟨.arcMutex, 0, false, 1⟩], [none, some ⟨.arcMutex, 0, false⟩]⟩ := by rfl

/-! ## E. simulation: the heap machine with ONE allocation is the `RefCase` model the driver runs -/

/-- the handle table as `RefCase` sees it: `some isDyn` for a live handle, `none` for a dead one -/
def dyns (t : List (Option RHandle)) : List (Option Bool) := t.map (Option.map (·.isDyn))

/-- **abstraction function**: the heap's cell 0 and the handle table, as a `RefCase` — variant = what the cell is,
value = its payload, `dropped` = its `freed` flag (the strong count and the addresses are abstracted away) -/
def absCase (s : RState) : RefCase :=
  match s.heap[0]? with
  | some c => ⟨c.kind, c.value, dyns s.table, c.freed⟩
  | none => ⟨.ptr, 0, dyns s.table, false⟩

/-- exactly one allocation: one cell, and every live handle points at it -/
def OneAlloc (s : RState) : Prop := s.heap.length = 1 ∧ ∀ h, some h ∈ s.table → h.addr = 0

/-- the simulation relation is `c = absCase s` on states satisfying the heap invariant with one allocation -/
def Sim (s : RState) : Prop := HInv s ∧ OneAlloc s

theorem dyns_getD (t : List (Option RHandle)) (i : Nat) : (dyns t).getD i none = (t.getD i none).map (·.isDyn) := by
  simp only [dyns, List.getD_eq_getElem?_getD, List.getElem?_map]
  cases t[i]? <;> rfl

theorem dyns_append (t : List (Option RHandle)) (h : RHandle) : dyns (t ++ [some h]) = dyns t ++ [some h.isDyn] := by
  simp [dyns]

theorem dyns_set (t : List (Option RHandle)) (i : Nat) : dyns (t.set i none) = (dyns t).set i none := by
  simp [dyns, List.map_set]

theorem dyns_any (t : List (Option RHandle)) (h0 : ∀ h, some h ∈ t → h.addr = 0) :
    (dyns t).any (·.isSome) = !(cnt 0 t == 0) := by
  induction t with
  | nil => rfl
  | cons x r ih =>
    have ihr := ih (fun h hm => h0 h (List.mem_cons_of_mem _ hm))
    cases x with
    | none => simpa [dyns, cnt] using ihr
    | some g =>
      have hg := h0 g (List.mem_cons_self ..)
      simp [dyns, cnt, hg]

theorem absCase_mk (hp : Heap) (t : List (Option RHandle)) (c : HCell) (hc : hp[0]? = some c) :
    absCase ⟨hp, t⟩ = ⟨c.kind, c.value, dyns t, c.freed⟩ := by
  simp only [absCase, hc]

/-- what the relation gives for a live slot: its handle points at cell 0, which is allocated, of the handle's kind, not
freed, and (if counted) whose strong count is the number of live handles -/
theorem sim_live (s : RState) (hS : Sim s) (i : Nat) (h : RHandle) (hi : s.table.getD i none = some h) :
    h.addr = 0 ∧ ∃ c, s.heap[0]? = some c ∧ s.heap.cell 0 = .ok c ∧ c.kind = h.variant ∧ c.freed = false ∧
      (c.kind.counted = true → c.strong = cnt 0 s.table) := by
  have hm := mem_of_getD _ _ _ hi
  have h0 := hS.2.2 h hm
  obtain ⟨c, hcell, hk⟩ := live_cell s hS.1 h hm
  rw [h0] at hcell
  obtain ⟨hc, hf⟩ := (cell_ok _ _ _).1 hcell
  exact ⟨h0, c, hc, hcell, hk, hf, fun hcn => ((hS.1.2 0 c hc).1 hcn hf).1⟩

theorem sim_cell (s : RState) (hS : Sim s) : ∃ c, s.heap[0]? = some c := by
  have := hS.2.1
  cases hh : s.heap with
  | nil => rw [hh] at this; cases this
  | cons c r => exact ⟨c, rfl⟩

/-- the relation is preserved by every statement other than a constructor -/
theorem sim_exec (feats : List String) (s s' : RState) (op : HOp) (hna : ∀ k v, op ≠ .alloc k v) (hS : Sim s)
    (he : hexec feats s op = .ok s') : Sim s' := by
  obtain ⟨hlen, hmem⟩ := (exec_frame feats s s' op he).2 hna
  refine ⟨hinv_exec feats s s' op hS.1 he, by rw [hlen]; exact hS.2.1, fun g hg => ?_⟩
  obtain ⟨g0, hg0, ha, _⟩ := hmem g hg
  rw [ha]; exact hS.2.2 g0 hg0

/-- a fresh one-object program is related to the fresh `RefCase` -/
theorem sim_init (v : RefVariant) : Sim (RState.init v) ∧ absCase (RState.init v) = RefCase.init v := by
  refine ⟨⟨hinv_alloc _ v 0 hinv_empty, rfl, fun h hm => ?_⟩, rfl⟩
  simp only [RState.init, RState.alloc, RState.empty, Heap.alloc, List.nil_append, List.mem_singleton,
    Option.some.injEq] at hm
  subst hm; rfl

/-- non-vacuity of the relation: every fresh case is in it; so is every state a case reaches (`simulation_step`) -/
example : Sim (RState.init .arcMutex) := (sim_init _).1

/-! ### each refined operation maps to the abstract one -/

/-- `clone`: dead slot — both refuse; live slot — the refined clone succeeds and its result abstracts to the abstract
clone's result -/
theorem sim_clone (s : RState) (hS : Sim s) (i : Nat) :
    (s.table.getD i none = none → s.clone i = .error .deadHandle ∧ (absCase s).clone i = none) ∧
    (∀ h, s.table.getD i none = some h → ∃ s', s.clone i = .ok s' ∧ (absCase s).clone i = some (absCase s')) := by
  obtain ⟨c0, hc0⟩ := sim_cell s hS
  constructor
  · intro hi
    refine ⟨by rw [rclone_eq, hi], ?_⟩
    rw [absCase_mk _ _ c0 hc0]
    simp only [RefCase.clone, dyns_getD, hi, Option.map_none]
  · intro h hi
    obtain ⟨h0, c, hc, hcell, hk, hf, _⟩ := sim_live s hS i h hi
    rw [rclone_eq, hi]; dsimp only; rw [h0]
    have habs : (absCase s).clone i = some ⟨c.kind, c.value, dyns s.table ++ [some h.isDyn], c.freed⟩ := by
      rw [absCase_mk _ _ c hc]
      simp only [RefCase.clone, dyns_getD, hi, Option.map_some]
    cases hcn : h.variant.counted with
    | false =>
      refine ⟨_, rfl, ?_⟩
      rw [habs, absCase_mk _ _ c hc, dyns_append]
    | true =>
      simp only [if_true, hcell]
      refine ⟨_, rfl, ?_⟩
      have hlt := cell_lt _ _ _ hcell
      rw [habs, absCase_mk _ _ { c with strong := c.strong + 1 } (by rw [get_set _ _ _ hlt]; simp), dyns_append]

/-- `to_dyn!(Trait, clone)`: dead slot — both refuse; live slot with an arm — the refined conversion succeeds and its
result abstracts to the abstract result; live slot without an arm — both panic with `unimplemented!()` -/
theorem sim_toDyn (feats : List String) (s : RState) (hS : Sim s) (i : Nat) :
    (s.table.getD i none = none →
      s.toDynClone feats i = .error .deadHandle ∧ (absCase s).toDyn feats i = none) ∧
    (∀ h, s.table.getD i none = some h →
      (toDynHasArm feats h.variant = true →
        ∃ s', s.toDynClone feats i = .ok s' ∧ (absCase s).toDyn feats i = some (.ok (absCase s'))) ∧
      (toDynHasArm feats h.variant = false →
        s.toDynClone feats i = .error (.panic .unimpl) ∧ (absCase s).toDyn feats i = some (.error .unimpl))) := by
  obtain ⟨c0, hc0⟩ := sim_cell s hS
  constructor
  · intro hi
    refine ⟨by rw [rtoDynClone_eq, hi], ?_⟩
    rw [absCase_mk _ _ c0 hc0]
    simp only [RefCase.toDyn, dyns_getD, hi, Option.map_none]
  · intro h hi
    obtain ⟨h0, c, hc, hcell, hk, hf, _⟩ := sim_live s hS i h hi
    rw [rtoDynClone_eq, hi]; dsimp only; rw [h0]
    constructor
    · intro harm
      have habs : (absCase s).toDyn feats i = some (.ok ⟨c.kind, c.value, dyns s.table ++ [some true], c.freed⟩) := by
        rw [absCase_mk _ _ c hc]
        simp only [RefCase.toDyn, dyns_getD, hi, Option.map_some, hk, harm, if_true]
      cases hcn : h.variant.counted with
      | false =>
        simp only [harm, Bool.false_eq_true, if_false, if_true]
        refine ⟨_, rfl, ?_⟩
        rw [habs, absCase_mk _ _ c hc, dyns_append]
      | true =>
        simp only [harm, if_true, hcell]
        refine ⟨_, rfl, ?_⟩
        have hlt := cell_lt _ _ _ hcell
        rw [habs, absCase_mk _ _ { c with strong := c.strong + 1 } (by rw [get_set _ _ _ hlt]; simp), dyns_append]
    · intro harm
      refine ⟨?_, ?_⟩
      · cases hcn : h.variant.counted <;> simp [harm, hcell]
      · rw [absCase_mk _ _ c hc]
        simp only [RefCase.toDyn, dyns_getD, hi, Option.map_some, hk, harm]
        rfl

/-- `borrow()`: dead slot — both refuse; live slot — both return the same payload -/
theorem sim_read (s : RState) (hS : Sim s) (i : Nat) :
    (s.table.getD i none = none → s.read i = .error .deadHandle ∧ (absCase s).read i = none) ∧
    (∀ h, s.table.getD i none = some h → ∃ x, s.read i = .ok x ∧ (absCase s).read i = some x) := by
  obtain ⟨c0, hc0⟩ := sim_cell s hS
  constructor
  · intro hi
    refine ⟨by rw [rread_eq, hi], ?_⟩
    rw [absCase_mk _ _ c0 hc0]
    simp only [RefCase.read, RefCase.handleLive, dyns_getD, hi, Option.map_none]
    rfl
  · intro h hi
    obtain ⟨h0, c, hc, hcell, hk, hf, _⟩ := sim_live s hS i h hi
    refine ⟨c.value, by rw [rread_eq, hi]; dsimp only; rw [h0, hcell], ?_⟩
    rw [absCase_mk _ _ c hc]
    simp only [RefCase.read, RefCase.handleLive, dyns_getD, hi, Option.map_some]
    rfl

/-- `*borrow_mut() = v` -/
theorem sim_write (s : RState) (hS : Sim s) (i : Nat) (v : Int) :
    (s.table.getD i none = none → s.write i v = .error .deadHandle ∧ (absCase s).write i v = none) ∧
    (∀ h, s.table.getD i none = some h →
      ∃ s', s.write i v = .ok s' ∧ (absCase s).write i v = some (absCase s')) := by
  obtain ⟨c0, hc0⟩ := sim_cell s hS
  constructor
  · intro hi
    refine ⟨by rw [rwrite_eq, hi], ?_⟩
    rw [absCase_mk _ _ c0 hc0]
    simp only [RefCase.write, RefCase.handleLive, dyns_getD, hi, Option.map_none]
    rfl
  · intro h hi
    obtain ⟨h0, c, hc, hcell, hk, hf, _⟩ := sim_live s hS i h hi
    have hlt := cell_lt _ _ _ hcell
    refine ⟨⟨s.heap.set 0 { c with value := v }, s.table⟩, by rw [rwrite_eq, hi]; dsimp only; rw [h0, hcell], ?_⟩
    rw [absCase_mk _ _ c hc, absCase_mk _ _ { c with value := v } (by rw [get_set _ _ _ hlt]; simp)]
    simp only [RefCase.write, RefCase.handleLive, dyns_getD, hi, Option.map_some]
    rfl

/-- `drop`: the abstract model COMPUTES `dropped` from its handle table; the heap machine decrements a count — they agree -/
theorem sim_drop (s : RState) (hS : Sim s) (i : Nat) :
    (s.table.getD i none = none → s.drop i = .error .deadHandle ∧ (absCase s).drop i = none) ∧
    (∀ h, s.table.getD i none = some h → ∃ s', s.drop i = .ok s' ∧ (absCase s).drop i = some (absCase s')) := by
  obtain ⟨c0, hc0⟩ := sim_cell s hS
  constructor
  · intro hi
    refine ⟨by rw [rdrop_eq, hi], ?_⟩
    rw [absCase_mk _ _ c0 hc0]
    simp only [RefCase.drop, RefCase.handleLive, dyns_getD, hi, Option.map_none]
    rfl
  · intro h hi
    obtain ⟨h0, c, hc, hcell, hk, hf, hstrong⟩ := sim_live s hS i h hi
    have hlt := cell_lt _ _ _ hcell
    have hall : ∀ g, some g ∈ s.table.set i none → g.addr = 0 := fun g hg => hS.2.2 g (mem_unset _ _ _ hg)
    have hany := dyns_any (s.table.set i none) hall
    rw [dyns_set] at hany
    have hdec := cnt_set_none 0 s.table i h hi
    simp only [h0, if_true] at hdec
    have habs : (absCase s).drop i = some ⟨c.kind, c.value, (dyns s.table).set i none,
        c.freed || (c.kind.counted && !(((dyns s.table).set i none).any (·.isSome)))⟩ := by
      rw [absCase_mk _ _ c hc]
      simp only [RefCase.drop, RefCase.handleLive, dyns_getD, hi, Option.map_some]
      rfl
    rw [rdrop_eq, hi]; dsimp only; rw [h0]
    cases hcn : h.variant.counted with
    | false =>
      refine ⟨_, rfl, ?_⟩
      rw [habs, absCase_mk _ _ c hc, dyns_set, hk, hcn]
      simp
    | true =>
      simp only [if_true, hcell]
      refine ⟨_, rfl, ?_⟩
      have hs := hstrong (by rw [hk]; exact hcn)
      have hfre : (c.strong - 1 == 0) = (cnt 0 (s.table.set i none) == 0) := by
        have : c.strong - 1 = cnt 0 (s.table.set i none) := by omega
        rw [this]
      rw [habs, absCase_mk _ _ { c with strong := c.strong - 1, freed := c.strong - 1 == 0 }
        (by rw [get_set _ _ _ hlt]; simp), dyns_set, hany, hfre, hk, hcn, hf]
      simp

/-! ### the driver's event loop, on both models -/

/-- the events of the correspondence protocol (`Rrtk/Drv/Rf.lean`: `cl:h dy:h rd:h wr:h:x inc:h dr:h live`) -/
inductive Ev where
  | cl (h : Nat) | dy (h : Nat) | rd (h : Nat) | wr (h : Nat) (x : Int) | inc (h : Nat) | dr (h : Nat) | live
  deriving DecidableEq, Repr

/-- what an event emits: `-`, a value, a flag; or it stops the case — `bad` (a `need` failed: dead handle), a panic;
`fault`: a memory fault of the heap machine (the abstract model has no such thing) -/
inductive Out where
  | done | val (x : Int) | flag (b : Bool) | bad | panic (p : Panic) | fault (e : HFault)
  deriving DecidableEq, Repr

/-- one event on the abstract model, exactly as `Drv.runRf` runs it (same `RefCase` functions, `need` ↦ `bad`,
`liftP` ↦ `panic`) -/
def absEvent (feats : List String) (c : RefCase) : Ev → Except Out (RefCase × Out)
  | .cl h => match c.clone h with
    | some c' => .ok (c', .done)
    | none => .error .bad
  | .dy h => match c.toDyn feats h with
    | none => .error .bad
    | some (.ok c') => .ok (c', .done)
    | some (.error p) => .error (.panic p)
  | .rd h => match c.read h with
    | some x => .ok (c, .val x)
    | none => .error .bad
  | .wr h x => match c.write h x with
    | some c' => .ok (c', .done)
    | none => .error .bad
  | .inc h => match c.read h with
    | none => .error .bad
    | some x => match c.write h (x + 1) with
      | some c' => .ok (c', .done)
      | none => .error .bad
  | .dr h => match c.drop h with
    | some c' => .ok (c', .done)
    | none => .error .bad
  | .live => .ok (c, .flag c.live)

def faultOut : HFault → Out
  | .deadHandle => .bad
  | .panic p => .panic p
  | e => .fault e

/-- the same event on the heap machine -/
def heapEvent (feats : List String) (s : RState) : Ev → Except Out (RState × Out)
  | .cl h => match s.clone h with
    | .ok s' => .ok (s', .done)
    | .error e => .error (faultOut e)
  | .dy h => match s.toDynClone feats h with
    | .ok s' => .ok (s', .done)
    | .error e => .error (faultOut e)
  | .rd h => match s.read h with
    | .ok x => .ok (s, .val x)
    | .error e => .error (faultOut e)
  | .wr h x => match s.write h x with
    | .ok s' => .ok (s', .done)
    | .error e => .error (faultOut e)
  | .inc h => match s.read h with
    | .error e => .error (faultOut e)
    | .ok x => match s.write h (x + 1) with
      | .ok s' => .ok (s', .done)
      | .error e => .error (faultOut e)
  | .dr h => match s.drop h with
    | .ok s' => .ok (s', .done)
    | .error e => .error (faultOut e)
  | .live => .ok (s, .flag (match s.heap[0]? with
    | some c => !c.freed
    | none => true))

/-- the output of a case: one token per event, the first `bad` / panic / fault ends it -/
def absRun (feats : List String) : RefCase → List Ev → List Out
  | _, [] => []
  | c, e :: rest =>
    match absEvent feats c e with
    | .ok (c', o) => o :: absRun feats c' rest
    | .error o => [o]

def heapRun (feats : List String) : RState → List Ev → List Out
  | _, [] => []
  | s, e :: rest =>
    match heapEvent feats s e with
    | .ok (s', o) => o :: heapRun feats s' rest
    | .error o => [o]

theorem not_alloc_clone (i : Nat) : ∀ k v, HOp.clone i ≠ .alloc k v := fun _ _ h => by cases h
theorem not_alloc_toDynClone (i : Nat) : ∀ k v, HOp.toDynClone i ≠ .alloc k v := fun _ _ h => by cases h
theorem not_alloc_write (i : Nat) (x : Int) : ∀ k v, HOp.write i x ≠ .alloc k v := fun _ _ h => by cases h
theorem not_alloc_drop (i : Nat) : ∀ k v, HOp.drop i ≠ .alloc k v := fun _ _ h => by cases h

/-- **Simulation, one event.** On related states every event of the protocol does the same thing on both models: the
abstract model stops iff the heap machine stops, with the same token (never a memory fault, since the abstract model
has none); otherwise they emit the same token, and the new heap state abstracts to the new abstract state and is again
in the relation. -/
theorem simulation_step (feats : List String) (s : RState) (e : Ev) (hS : Sim s) :
    absEvent feats (absCase s) e =
      (match heapEvent feats s e with
       | .ok (s', o) => .ok (absCase s', o)
       | .error o => .error o) ∧
    (∀ s' o, heapEvent feats s e = .ok (s', o) → Sim s') := by
  cases e with
  | cl i =>
    cases hi : s.table.getD i none with
    | none =>
      obtain ⟨h1, h2⟩ := (sim_clone s hS i).1 hi
      simp only [absEvent, heapEvent, h1, h2, faultOut]
      exact ⟨trivial, fun s' o he => by cases he⟩
    | some g =>
      obtain ⟨s1, h1, h2⟩ := (sim_clone s hS i).2 g hi
      simp only [absEvent, heapEvent, h1, h2]
      refine ⟨trivial, fun s' o he => ?_⟩
      simp only [Except.ok.injEq, Prod.mk.injEq] at he
      obtain ⟨rfl, _⟩ := he
      exact sim_exec feats s s1 (.clone i) (not_alloc_clone i) hS h1
  | dy i =>
    cases hi : s.table.getD i none with
    | none =>
      obtain ⟨h1, h2⟩ := (sim_toDyn feats s hS i).1 hi
      simp only [absEvent, heapEvent, h1, h2, faultOut]
      exact ⟨trivial, fun s' o he => by cases he⟩
    | some g =>
      cases harm : toDynHasArm feats g.variant with
      | true =>
        obtain ⟨s1, h1, h2⟩ := ((sim_toDyn feats s hS i).2 g hi).1 harm
        simp only [absEvent, heapEvent, h1, h2]
        refine ⟨trivial, fun s' o he => ?_⟩
        simp only [Except.ok.injEq, Prod.mk.injEq] at he
        obtain ⟨rfl, _⟩ := he
        exact sim_exec feats s s1 (.toDynClone i) (not_alloc_toDynClone i) hS h1
      | false =>
        obtain ⟨h1, h2⟩ := ((sim_toDyn feats s hS i).2 g hi).2 harm
        simp only [absEvent, heapEvent, h1, h2, faultOut]
        exact ⟨trivial, fun s' o he => by cases he⟩
  | rd i =>
    cases hi : s.table.getD i none with
    | none =>
      obtain ⟨h1, h2⟩ := (sim_read s hS i).1 hi
      simp only [absEvent, heapEvent, h1, h2, faultOut]
      exact ⟨trivial, fun s' o he => by cases he⟩
    | some g =>
      obtain ⟨x, h1, h2⟩ := (sim_read s hS i).2 g hi
      simp only [absEvent, heapEvent, h1, h2]
      refine ⟨trivial, fun s' o he => ?_⟩
      simp only [Except.ok.injEq, Prod.mk.injEq] at he
      obtain ⟨rfl, _⟩ := he
      exact hS
  | wr i x =>
    cases hi : s.table.getD i none with
    | none =>
      obtain ⟨h1, h2⟩ := (sim_write s hS i x).1 hi
      simp only [absEvent, heapEvent, h1, h2, faultOut]
      exact ⟨trivial, fun s' o he => by cases he⟩
    | some g =>
      obtain ⟨s1, h1, h2⟩ := (sim_write s hS i x).2 g hi
      simp only [absEvent, heapEvent, h1, h2]
      refine ⟨trivial, fun s' o he => ?_⟩
      simp only [Except.ok.injEq, Prod.mk.injEq] at he
      obtain ⟨rfl, _⟩ := he
      exact sim_exec feats s s1 (.write i x) (not_alloc_write i x) hS h1
  | inc i =>
    cases hi : s.table.getD i none with
    | none =>
      obtain ⟨h1, h2⟩ := (sim_read s hS i).1 hi
      simp only [absEvent, heapEvent, h1, h2, faultOut]
      exact ⟨trivial, fun s' o he => by cases he⟩
    | some g =>
      obtain ⟨x, h1, h2⟩ := (sim_read s hS i).2 g hi
      obtain ⟨s1, h3, h4⟩ := (sim_write s hS i (x + 1)).2 g hi
      simp only [absEvent, heapEvent, h1, h2, h3, h4]
      refine ⟨trivial, fun s' o he => ?_⟩
      simp only [Except.ok.injEq, Prod.mk.injEq] at he
      obtain ⟨rfl, _⟩ := he
      exact sim_exec feats s s1 (.write i (x + 1)) (not_alloc_write i (x + 1)) hS h3
  | dr i =>
    cases hi : s.table.getD i none with
    | none =>
      obtain ⟨h1, h2⟩ := (sim_drop s hS i).1 hi
      simp only [absEvent, heapEvent, h1, h2, faultOut]
      exact ⟨trivial, fun s' o he => by cases he⟩
    | some g =>
      obtain ⟨s1, h1, h2⟩ := (sim_drop s hS i).2 g hi
      simp only [absEvent, heapEvent, h1, h2]
      refine ⟨trivial, fun s' o he => ?_⟩
      simp only [Except.ok.injEq, Prod.mk.injEq] at he
      obtain ⟨rfl, _⟩ := he
      exact sim_exec feats s s1 (.drop i) (not_alloc_drop i) hS h1
  | live =>
    obtain ⟨c0, hc0⟩ := sim_cell s hS
    refine ⟨?_, fun s' o he => ?_⟩
    · simp only [absEvent, heapEvent, hc0]
      rw [absCase_mk _ _ c0 hc0]
      rfl
    · simp only [heapEvent, Except.ok.injEq, Prod.mk.injEq] at he
      obtain ⟨rfl, _⟩ := he
      exact hS

/-- **Simulation, whole cases.** From related states the two models emit the same output for every event sequence. -/
theorem simulation_run (feats : List String) (s : RState) (evs : List Ev) (hS : Sim s) :
    heapRun feats s evs = absRun feats (absCase s) evs := by
  induction evs generalizing s with
  | nil => rfl
  | cons e rest ih =>
    obtain ⟨h1, h2⟩ := simulation_step feats s e hS
    simp only [heapRun, absRun, h1]
    cases he : heapEvent feats s e with
    | error o => rfl
    | ok p =>
      obtain ⟨s', o⟩ := p
      simp only []
      rw [ih s' (h2 s' o he)]

/-- **… from the initial state of a case**: for every variant, every calling crate and every event sequence, the heap
machine started on one fresh object emits exactly what the `RefCase` model the driver runs emits from `RefCase.init` —
so the outcome of the correspondence check of the abstract model against the real code is also the outcome for the heap
machine -/
theorem simulation_from_init (feats : List String) (v : RefVariant) (evs : List Ev) :
    heapRun feats (RState.init v) evs = absRun feats (RefCase.init v) evs := by
  rw [simulation_run feats _ evs (sim_init v).1, (sim_init v).2]

theorem absRun_no_fault (feats : List String) (c : RefCase) (evs : List Ev) (e : HFault) :
    Out.fault e ∉ absRun feats c evs := by
  induction evs generalizing c with
  | nil => simp [absRun]
  | cons ev rest ih =>
    simp only [absRun]
    cases hev : absEvent feats c ev with
    | error o =>
      simp only [List.mem_singleton]
      intro ho; subst ho
      cases ev <;> simp only [absEvent] at hev <;> (try split at hev) <;> (try split at hev) <;> cases hev
    | ok p =>
      obtain ⟨c', o⟩ := p
      simp only [List.mem_cons, not_or]
      refine ⟨?_, ih c'⟩
      intro ho; subst ho
      cases ev <;> simp only [absEvent] at hev <;> (try split at hev) <;> (try split at hev) <;> cases hev

/-- consequence: a one-object case never makes the heap machine fault (no dangling address, no use after free),
whatever the events — including events on dropped or never-created handles, which stop the case with `bad` -/
theorem heapRun_no_memory_fault (feats : List String) (v : RefVariant) (evs : List Ev) (e : HFault) :
    Out.fault e ∉ heapRun feats (RState.init v) evs := by
  rw [simulation_from_init]; exact absRun_no_fault feats _ evs e

/-- non-vacuity: a case on both models (`Rc`, harness features): clone, write through the clone, convert, drop the
original and the clone, increment through the trait object, read, drop it, ask for liveness, use a dead handle -/
example : heapRun ["alloc", "std"] (RState.init .rcRefCell)
    [.cl 0, .wr 1 7, .dy 1, .dr 0, .dr 1, .inc 2, .rd 2, .live, .dr 2, .live, .rd 0] =
    [.done, .done, .done, .done, .done, .done, .val 8, .flag true, .done, .flag false, .bad] := by rfl
example : absRun ["alloc", "std"] (RefCase.init .rcRefCell)
    [.cl 0, .wr 1 7, .dy 1, .dr 0, .dr 1, .inc 2, .rd 2, .live, .dr 2, .live, .rd 0] =
    [.done, .done, .done, .done, .done, .done, .val 8, .flag true, .done, .flag false, .bad] := by rfl

/-- `to_dyn!` in its moving form is the abstract "convert a clone, then drop the original": same table shape, same
cell, no count change -/
theorem sim_toDynMove (feats : List String) (s : RState) (hS : Sim s) (i : Nat) (h : RHandle)
    (hi : s.table.getD i none = some h) (harm : toDynHasArm feats h.variant = true) :
    ∃ s' c1, s.toDynMove feats i = .ok s' ∧ Sim s' ∧ (absCase s).toDyn feats i = some (.ok c1) ∧
      c1.drop i = some (absCase s') := by
  obtain ⟨h0, c, hc, hcell, hk, hf, _⟩ := sim_live s hS i h hi
  have he : s.toDynMove feats i = .ok ⟨s.heap, s.table.set i none ++ [some { h with isDyn := true }]⟩ := by
    rw [rtoDynMove_eq, hi]; simp only [harm, if_true]
  have hlt := getD_lt _ _ _ hi
  refine ⟨_, ⟨c.kind, c.value, dyns s.table ++ [some true], c.freed⟩, he,
    sim_exec feats s _ (.toDynMove i) (fun _ _ hh => by cases hh) hS he, ?_, ?_⟩
  · rw [absCase_mk _ _ c hc]
    simp only [RefCase.toDyn, dyns_getD, hi, Option.map_some, hk, harm, if_true]
  · have hlive : ((dyns s.table ++ [some true]).getD i none).isSome = true := by
      rw [getD_append_left _ _ _ _ (by simpa [dyns] using hlt), dyns_getD, hi]; rfl
    have hset : (dyns s.table ++ [some true]).set i none = (dyns s.table).set i none ++ [some true] := by
      rw [List.set_append_left _ _ (by simpa [dyns] using hlt)]
    rw [absCase_mk _ _ c hc, dyns_append, dyns_set]
    simp only [RefCase.drop, RefCase.handleLive, hlive, if_true, hset, hf]
    simp

end Rrtk.Thm.C17
