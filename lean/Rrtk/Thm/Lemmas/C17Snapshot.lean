/-
C17 — SNAPSHOT facts about today's `to_dyn!` arm table (`Rrtk/Gen/ToDyn.lean`, regenerated from /repo/src/reference.rs).
They are NOT obligations of the property: C17 only requires that every variant the macro lists converts; a macro that lists MORE
variants (say, gains arms for `PtrMutex`, `ArcRwLock`, `ArcMutex`) is conformant, and these facts then stop being true. The check builds
this module separately and reports a failure as informational drift, never as a violation.
-/
import Rrtk.Thm.Ext.C17
namespace Rrtk.Thm.C17Snapshot
open Rrtk Rrtk.Thm.C17

/-- e.g.: the write through the never-created handle 5 and everything after the panicking `to_dyn!` (featureless
caller, `Rc<RefCell<_>>`) are not effective -/
example : trace [] (RefCase.init .arcMutex) [.clone 0, .write 5 9, .write 1 3, .toDyn 0, .write 0 4] =
    [.clone 0, .write 1 3] := by decide
example : (run [] (RefCase.init .arcMutex) [.clone 0, .write 5 9, .write 1 3, .toDyn 0, .write 0 4]).read 0 = some 3 := by
  decide

/-- the macro lists exactly `Ptr`, `RcRefCell`, `PtrRwLock`; `PtrMutex`, `ArcRwLock`, `ArcMutex` have no arm at all
(so the property does not require them to convert — and they never do) -/
theorem to_dyn_unlisted_variants :
    toDynLists .ptr = true ∧ toDynLists .rcRefCell = true ∧ toDynLists .ptrRwLock = true ∧
    toDynLists .ptrMutex = false ∧ toDynLists .arcRwLock = false ∧ toDynLists .arcMutex = false := by
  decide
theorem to_dyn_unlisted_never_convert (callerFeats rrtkFeats : List String) :
    toDynHasArmIn callerFeats rrtkFeats .ptrMutex = false ∧ toDynHasArmIn callerFeats rrtkFeats .arcRwLock = false ∧
    toDynHasArmIn callerFeats rrtkFeats .arcMutex = false := by
  simp [toDynHasArmIn, Gen.toDynDefs, RefVariant.name, featOn]

/-- today exactly one definition of the implementing macro is compiled into each rrtk build -/
theorem to_dyn_one_definition_per_build :
    ∀ r ∈ rrtkBuilds, (Gen.toDynDefs.filter (fun d => itemCfgHolds r d.1)).length = 1 := by decide

/-- today an `Arc<Mutex>` Reference has no `to_dyn!` arm: the refined heap model and the abstract model both panic -/
example : Heap.toDyn ["std"] [⟨.arcMutex, 5, false, 1⟩] ⟨.arcMutex, 0, false⟩ = .error (.panic .unimpl) := by rfl
example : heapRun ["alloc", "std"] (RState.init .arcMutex) [.cl 0, .dy 1, .rd 0] = [.done, .panic .unimpl] := by rfl

end Rrtk.Thm.C17Snapshot
