/-
C18, two small additions.

(a) "converting to and from `i64` is the identity".  The model has NO separate type for `Time(i64)` /
`DimensionlessInteger(i64)`: both are represented by the `Int` that is the `i64` inside (with the range predicate `inI64`
carried by the operators, `chkI64`).  So `From<i64>` / `Into<i64>` are the identity on the representation — written down
here as the spec helpers `timeOfI64 … dimIntToI64` (NOT model functions; the model has nothing to unfold) — and the clause
is true by construction.  What has content is that the representation invariant survives: every result an integer operator
returns is again `inI64`, so it can be converted back out.

(b) the sharper constant for `time_to_quantity_two_ulps_binary32`: `(2u + u²)·|t/10^9|`, `u = 2^-24`, instead of `2^-22`.
-/
import Rrtk.Thm.C18
set_option linter.unusedSectionVars false
set_option linter.unusedSimpArgs false
namespace Rrtk.Thm.C18
open Rrtk Rrtk.Soft Rrtk.Thm.SoftFloat Rounding Soft

/-- `impl From<i64> for Time` (`Time(was)`): identity on the representation -/
def timeOfI64 (n : Int) : Int := n
/-- `impl From<Time> for i64` (`was.0`) -/
def timeToI64 (t : Int) : Int := t
/-- `impl From<i64> for DimensionlessInteger` -/
def dimIntOfI64 (n : Int) : Int := n
/-- `impl From<DimensionlessInteger> for i64` -/
def dimIntToI64 (d : Int) : Int := d

/-- converting to and from `i64` is the identity, in both directions and for both wrappers, and stays in range; and
whatever an integer operator of `Time` / `DimensionlessInteger` returns is again an `i64`, so the conversion out is
defined on it.  (The first four clauses hold by construction of the model — see the header.) -/
theorem i64_roundtrip (n : Int) (hn : inI64 n) :
    timeToI64 (timeOfI64 n) = n ∧ timeOfI64 (timeToI64 n) = n ∧
    dimIntToI64 (dimIntOfI64 n) = n ∧ dimIntOfI64 (dimIntToI64 n) = n ∧
    inI64 (timeToI64 (timeOfI64 n)) ∧ inI64 (dimIntToI64 (dimIntOfI64 n)) ∧
    (∀ a b r : Int, I64.add a b = .ok r ∨ I64.sub a b = .ok r ∨ I64.mul a b = .ok r ∨ I64.div a b = .ok r ∨
        I64.neg a = .ok r → inI64 r ∧ timeToI64 (timeOfI64 r) = r) := by
  refine ⟨rfl, rfl, rfl, rfl, hn, hn, ?_⟩
  intro a b r h
  refine ⟨?_, rfl⟩
  rcases h with h | h | h | h | h
  · exact (add_sound a b r h).2
  · exact (sub_sound a b r h).2
  · exact (mul_sound a b r h).2
  · exact (div_sound a b r h).2.2
  · exact (neg_sound a r h).2

/-- non-vacuity: `i64::MAX` is in range, and an operator result to which the last clause applies -/
example : inI64 9223372036854775807 := by decide
example : I64.add 9223372036854775806 1 = .ok 9223372036854775807 := by decide
example : I64.add 9223372036854775807 1 = .error .overflow := by decide

/-- `Time → Quantity` in binary32 with the sharp two-rounding constant: relative error at most `2u + u²`, `u = 2^-24`
(half a unit in the last place per rounding; the total is below two units in the last place of the result, and below the
`2^-22` of `time_to_quantity_two_ulps_binary32`). -/
theorem time_to_quantity_two_ulps_binary32_sharp (chk : Bool) (t : Int) (_ht : inI64 t) :
    |((Quantity.ofTime chk t : Quantity Q32).value).val - (t : ℚ) / 1000000000|
      ≤ (2 * (1 / 2 ^ 24) + (1 / 2 ^ 24) ^ 2) * |(t : ℚ) / 1000000000| := by
  rw [time_to_quantity_value_binary32]
  exact two_roundings_N (t:ℚ) (inR_int t) (inR_int_div t)

/-- the sharp constant really is sharper: `2u + u² < 2^-22` -/
theorem sharp_lt_two_pow : 2 * ((1:ℚ) / 2 ^ 24) + (1 / 2 ^ 24) ^ 2 < 1 / 2 ^ 22 := by norm_num

/-- non-vacuity: a time whose conversion rounds (`10^9 + 1 ns ↦ 1 s`), with a nonzero error inside the sharp bound -/
example : inI64 1000000001 := by decide
example : |((Quantity.ofTime true 1000000001 : Quantity Q32).value).val - ((1000000001 : ℤ) : ℚ) / 1000000000| =
    1 / 1000000000 := by
  rw [time_to_quantity_value_binary32]
  have : rne32 (rne32 ((1000000001 : ℤ) : ℚ) / 1000000000) = 1 := by decide +kernel
  rw [this]; norm_num

end Rrtk.Thm.C18
