/-
C18, accuracy clauses: "Converting a Time to a Quantity gives seconds equal to nanoseconds/1e9 correctly rounded to
within two f32 ulps and monotone in the time; converting a Quantity in seconds back yields value*1e9 to within one f32
rounding and 1 ns of truncation, so the round trip is within |t|*2^-22 + 1 ns."

Tier: abstract rounding.  Lean's `Float32` is opaque to the kernel, so nothing is proved about it directly.  Instead the
GENERIC model functions of `Rrtk/Dim.lean` (`Quantity.ofTime`, `Time.tryOfQuantity` — the very definitions that are
compared bit-for-bit with the crate at `F = Float32`) are instantiated at the scalar type `RQ rn`: rationals whose four
arithmetic operations and `n as f32` are the EXACT rational result followed by an abstract rounding function
`rn : ℚ → ℚ`.  The only facts used about `rn` are those of `RoundingSpec rn u`:

  * `rel`  : `|rn x - x| ≤ u * |x|`, with `0 < u ≤ 2^-24`   (relative error of round-to-nearest, binary32: p = 24),
  * `mono` : `x ≤ y → rn x ≤ rn y`                         (every IEEE rounding direction is monotone),
  * `zero` : `rn 0 = 0`,
  * `e9`   : `rn 1000000000 = 1000000000`                  (10^9 = 2^9 · 1953125 and 1953125 < 2^24: representable).

`x as i64` is modelled as truncation toward zero followed by saturation to the i64 range (`satI64 ∘ trunc`), exactly
Rust's semantics of the cast for non-NaN operands (no NaN can arise: all operands here are finite).

RANGE CAVEAT (an argument about IEEE-754, NOT a Lean theorem; listed in the trusted base).  Real binary32
round-to-nearest satisfies `rel` with `u = 2^-24` only when the exact result `x` is 0 or lies in the normal range
`2^-126 ≤ |x| < 2^128 - 2^103` (no underflow to subnormals, no overflow to infinity).  For the expressions treated here the
hypothesis is met for every `t : i64`:
  * `t as f32`           : `t = 0` or `1 ≤ |t| ≤ 2^63`                                   — in range;
  * `(t as f32) / 1e9`   : `0` or `10^-9 ≤ |·| ≤ 2^63/10^9 < 2^34`, and `10^-9 > 2^-30 ≫ 2^-126`  — in range;
  * `v * 1e9` (round trip, `v` the value above): `0` or `|·| ≤ 2^63 (1+u)^2 < 2^64`, `≥ (1-u)^2 > 2^-1`   — in range.
  * `value * 1e9` for an ARBITRARY quantity (theorem `quantity_to_time_bound`) the caveat is a genuine side condition:
    it needs `2^-126 ≤ |value * 10^9| < 2^128` (or the product to be 0); the theorem's hypothesis `|rn (x·10^9)| < 2^63`
    only covers the upper end.  For subnormal products the conversion result is 0 either way (|x·10^9| < 1), so the
    *absolute* bound `≤ u|x·10^9| + 1` still holds for real binary32, but that is outside what is proved here.
`mono`, `zero`, `e9` hold for binary32 round-to-nearest-even without any range condition.
UPDATE: the caveat is now discharged in Lean for the concrete kernel-transparent rounding `Rrtk.Soft.rne32`
(`Rrtk/SoftFloat.lean`): `Rrtk/Thm/Lemmas/C18Soft.lean` re-derives theorems 1–5 at `RQ rne32` with NO rounding hypothesis
(`*_binary32`), proving the range side conditions above from the integrality of `t`, the finiteness (`< 2^128`) of every
intermediate result, and the subnormal case of `quantity_to_time_bound`.  The abstract theorems below are kept unchanged.
Division by zero never occurs (`c1e9 ≠ 0`); `RQ` gives `x / 0 = rn 0`, which is irrelevant here.

Helper lemmas live in `Rrtk.Thm.C18.Rounding`; the property theorems are directly in `Rrtk.Thm.C18`.
-/
import Mathlib.Tactic.Ring
import Mathlib.Tactic.Linarith
import Mathlib.Tactic.Positivity
import Mathlib.Tactic.NormNum
import Mathlib.Algebra.Order.Field.Basic
import Mathlib.Algebra.Order.AbsoluteValue.Basic
import Mathlib.Algebra.Order.Floor.Ring
import Mathlib.Data.Rat.Floor
import Rrtk.Dim
set_option linter.unusedSectionVars false
set_option linter.unusedSimpArgs false
namespace Rrtk.Thm.C18
open Rrtk

/-- The contract of IEEE-754 round-to-nearest (binary32, normal range) used by the accuracy theorems. -/
structure RoundingSpec (rn : ℚ → ℚ) (u : ℚ) : Prop where
  u_pos : 0 < u
  /-- unit roundoff of binary32 -/
  u_small : u ≤ 1 / 2 ^ 24
  /-- relative error (normal range; see the range caveat in the header) -/
  rel : ∀ x, |rn x - x| ≤ u * |x|
  /-- rounding is monotone -/
  mono : ∀ x y, x ≤ y → rn x ≤ rn y
  zero : rn 0 = 0
  /-- `1e9` is exactly representable -/
  e9 : rn 1000000000 = 1000000000

/-- Rationals with rounded arithmetic: the scalar type at which the generic model is instantiated. -/
structure RQ (rn : ℚ → ℚ) where
  val : ℚ

/-- truncation toward zero (`as i64` before saturation) -/
def trunc (x : ℚ) : Int := if 0 ≤ x then ⌊x⌋ else -⌊-x⌋
/-- saturation to the `i64` range (`as i64` on out-of-range operands) -/
def satI64 (n : Int) : Int := max (-9223372036854775808) (min n 9223372036854775807)

section instances
variable {rn : ℚ → ℚ}
instance : Add (RQ rn) := ⟨fun a b => ⟨rn (a.val + b.val)⟩⟩
instance : Sub (RQ rn) := ⟨fun a b => ⟨rn (a.val - b.val)⟩⟩
instance : Mul (RQ rn) := ⟨fun a b => ⟨rn (a.val * b.val)⟩⟩
instance : Div (RQ rn) := ⟨fun a b => ⟨rn (a.val / b.val)⟩⟩
instance : Neg (RQ rn) := ⟨fun a => ⟨-a.val⟩⟩
instance : LT (RQ rn) := ⟨fun a b => a.val < b.val⟩
instance : LE (RQ rn) := ⟨fun a b => a.val ≤ b.val⟩
instance : BEq (RQ rn) := ⟨fun a b => decide (a.val = b.val)⟩
instance : DecidableLT (RQ rn) := fun a b => inferInstanceAs (Decidable (a.val < b.val))
instance : DecidableLE (RQ rn) := fun a b => inferInstanceAs (Decidable (a.val ≤ b.val))
/-- `n as f32` rounds; `x as i64` truncates toward zero and saturates; `abs` is exact; `powf` is not used here. -/
instance : FloatLike (RQ rn) :=
  ⟨fun n => ⟨rn (n : ℚ)⟩, fun x => satI64 (trunc x.val), fun x _ => x, fun x => ⟨|x.val|⟩⟩
end instances

/-! ### helper lemmas (pure rational arithmetic) -/
namespace Rounding

theorem trunc_err (x : ℚ) : |((trunc x : Int) : ℚ) - x| < 1 := by
  unfold trunc
  split
  · have h1 := Int.floor_le x
    have h2 := Int.lt_floor_add_one x
    rw [abs_lt]; constructor <;> linarith
  · have h1 := Int.floor_le (-x)
    have h2 := Int.lt_floor_add_one (-x)
    push_cast
    rw [abs_lt]; constructor <;> linarith

theorem trunc_inI64 (y : ℚ) (hy : |y| < 2 ^ 63) : inI64 (trunc y) := by
  rw [abs_lt] at hy
  unfold trunc inI64
  split
  · rename_i h0
    have h1 : (0 : Int) ≤ ⌊y⌋ := Int.floor_nonneg.2 h0
    have h2 : ((⌊y⌋ : Int) : ℚ) < ((9223372036854775808 : Int) : ℚ) := by
      have := Int.floor_le y
      push_cast; norm_num at hy ⊢; linarith
    have h3 : ⌊y⌋ < 9223372036854775808 := by exact_mod_cast h2
    omega
  · rename_i h0
    have h0' : (0 : ℚ) ≤ -y := by linarith
    have h1 : (0 : Int) ≤ ⌊-y⌋ := Int.floor_nonneg.2 h0'
    have h2 : ((⌊-y⌋ : Int) : ℚ) < ((9223372036854775808 : Int) : ℚ) := by
      have := Int.floor_le (-y)
      push_cast; norm_num at hy ⊢; linarith
    have h3 : ⌊-y⌋ < 9223372036854775808 := by exact_mod_cast h2
    omega

theorem satI64_of_inI64 (n : Int) (h : inI64 n) : satI64 n = n := by
  unfold satI64; unfold inI64 at h; omega

/-- saturating toward a range that contains `t` never moves a value away from `t` -/
theorem satI64_contract (n t : Int) (ht : inI64 t) : |((satI64 n : Int) : ℚ) - t| ≤ |(n : ℚ) - t| := by
  unfold inI64 at ht
  rcases le_total t n with h | h
  · have h1 : t ≤ satI64 n ∧ satI64 n ≤ n := by unfold satI64; omega
    have a1 : (t : ℚ) ≤ (satI64 n : Int) := by exact_mod_cast h1.1
    have a2 : ((satI64 n : Int) : ℚ) ≤ n := by exact_mod_cast h1.2
    rw [abs_of_nonneg (by linarith), abs_of_nonneg (by linarith)]; linarith
  · have h1 : n ≤ satI64 n ∧ satI64 n ≤ t := by unfold satI64; omega
    have a1 : (n : ℚ) ≤ (satI64 n : Int) := by exact_mod_cast h1.1
    have a2 : ((satI64 n : Int) : ℚ) ≤ t := by exact_mod_cast h1.2
    rw [abs_of_nonpos (by linarith), abs_of_nonpos (by linarith)]; linarith

variable {rn : ℚ → ℚ} {u : ℚ}

theorem abs_div_e9 (x : ℚ) : |x / 1000000000| = |x| / 1000000000 := by
  rw [abs_div, abs_of_pos (by norm_num : (0 : ℚ) < 1000000000)]

theorem abs_mul_e9 (x : ℚ) : |x * 1000000000| = |x| * 1000000000 := by
  rw [abs_mul, abs_of_pos (by norm_num : (0 : ℚ) < 1000000000)]

/-- two roundings: `rn (rn x / 1e9)` against the exact quotient -/
theorem two_roundings (h : RoundingSpec rn u) (x : ℚ) :
    |rn (rn x / 1000000000) - x / 1000000000| ≤ (2 * u + u ^ 2) * |x / 1000000000| := by
  have hu := h.u_pos
  have h1 := h.rel x
  have hq : |rn x / 1000000000 - x / 1000000000| ≤ u * |x / 1000000000| := by
    have e : rn x / 1000000000 - x / 1000000000 = (rn x - x) / 1000000000 := by ring
    rw [e, abs_div_e9, abs_div_e9]
    have : |rn x - x| / 1000000000 ≤ (u * |x|) / 1000000000 :=
      div_le_div_of_nonneg_right h1 (by norm_num)
    linarith [mul_div_assoc u |x| (1000000000 : ℚ)]
  have hqa : |rn x / 1000000000| ≤ |x / 1000000000| + u * |x / 1000000000| := by
    have := abs_sub_abs_le_abs_sub (rn x / 1000000000) (x / 1000000000)
    linarith
  have h2 := h.rel (rn x / 1000000000)
  have h3 : u * |rn x / 1000000000| ≤ u * (|x / 1000000000| + u * |x / 1000000000|) :=
    mul_le_mul_of_nonneg_left hqa hu.le
  have h4 := abs_sub_le (rn (rn x / 1000000000)) (rn x / 1000000000) (x / 1000000000)
  have e : (2 * u + u ^ 2) * |x / 1000000000|
      = u * (|x / 1000000000| + u * |x / 1000000000|) + u * |x / 1000000000| := by ring
  rw [e]; linarith

theorem two_u_le (h : RoundingSpec rn u) : 2 * u + u ^ 2 ≤ 1 / 2 ^ 22 := by
  have hu := h.u_pos
  have hs := h.u_small
  have h1 : u ≤ 1 := le_trans hs (by norm_num)
  have h2 : u ^ 2 ≤ u := by nlinarith
  norm_num at hs ⊢
  linarith

theorem three_u_le (h : RoundingSpec rn u) : (1 + u) ^ 3 - 1 ≤ 1 / 2 ^ 22 := by
  have hu := h.u_pos
  have hs := h.u_small
  have h1 : u ≤ 1 / 4 := le_trans hs (by norm_num)
  have h2 : u ^ 2 ≤ u / 4 := by nlinarith
  have h3 : u ^ 3 ≤ u / 4 := by nlinarith
  have e : (1 + u) ^ 3 - 1 = 3 * u + 3 * u ^ 2 + u ^ 3 := by ring
  rw [e]
  norm_num at hs ⊢
  linarith

/-- three roundings: `rn (rn (rn x / 1e9) * 1e9)` against `x` -/
theorem three_roundings (h : RoundingSpec rn u) (x : ℚ) :
    |rn (rn (rn x / 1000000000) * 1000000000) - x| ≤ |x| * ((1 + u) ^ 3 - 1) := by
  have hu := h.u_pos
  have hc : (0 : ℚ) < 1000000000 := by norm_num
  have h1 := two_roundings h x
  -- the product before the last rounding, against `x`
  have hp : |rn (rn x / 1000000000) * 1000000000 - x| ≤ (2 * u + u ^ 2) * |x| := by
    have e : rn (rn x / 1000000000) * 1000000000 - x
        = (rn (rn x / 1000000000) - x / 1000000000) * 1000000000 := by field_simp
    rw [e, abs_mul_e9]
    have e2 : |x| = |x / 1000000000| * 1000000000 := by rw [abs_div_e9]; field_simp
    rw [e2, ← mul_assoc]
    exact mul_le_mul_of_nonneg_right h1 hc.le
  have hpa : |rn (rn x / 1000000000) * 1000000000| ≤ |x| + (2 * u + u ^ 2) * |x| := by
    have := abs_sub_abs_le_abs_sub (rn (rn x / 1000000000) * 1000000000) x
    linarith
  have h2 := h.rel (rn (rn x / 1000000000) * 1000000000)
  have h3 : u * |rn (rn x / 1000000000) * 1000000000| ≤ u * (|x| + (2 * u + u ^ 2) * |x|) :=
    mul_le_mul_of_nonneg_left hpa hu.le
  have h4 := abs_sub_le (rn (rn (rn x / 1000000000) * 1000000000)) (rn (rn x / 1000000000) * 1000000000) x
  have e : |x| * ((1 + u) ^ 3 - 1) = u * (|x| + (2 * u + u ^ 2) * |x|) + (2 * u + u ^ 2) * |x| := by ring
  rw [e]; linarith

theorem constEq_self (a : DUnit) : DUnit.constEq a a = true := by simp [DUnit.constEq]
theorem constEq_ne (a b : DUnit) (h : a ≠ b) : DUnit.constEq a b = false := by
  cases a; cases b
  cases hc : DUnit.constEq _ _ with
  | false => rfl
  | true => simp [DUnit.constEq] at hc; simp_all

/-- the `f32` value of a product with the literal `1e9` -/
theorem mul_c1e9_val (h : RoundingSpec rn u) (a : RQ rn) :
    (a * (c1e9 : RQ rn)).val = rn (a.val * 1000000000) := by
  show rn (a.val * rn ((1000000000 : Int) : ℚ)) = _
  have : (((1000000000 : Int) : ℚ)) = 1000000000 := by norm_num
  rw [this, h.e9]

/-- the `f32` value of a quotient by the literal `1e9` -/
theorem div_c1e9_val (h : RoundingSpec rn u) (a : RQ rn) :
    (a / (c1e9 : RQ rn)).val = rn (a.val / 1000000000) := by
  show rn (a.val / rn ((1000000000 : Int) : ℚ)) = _
  have : (((1000000000 : Int) : ℚ)) = 1000000000 := by norm_num
  rw [this, h.e9]

end Rounding
open Rounding

variable {rn : ℚ → ℚ} {u : ℚ}

/-! ### 1–3: `Time → Quantity` -/

/-- 1. `Quantity::from(Time(t))` has value `rn (rn t / 1e9)` (for either setting of unit checking). -/
theorem time_to_quantity_value (h : RoundingSpec rn u) (chk : Bool) (t : Int) :
    ((Quantity.ofTime chk t : Quantity (RQ rn)).value).val = rn (rn (t : ℚ) / 1000000000) := by
  show (((FloatLike.ofInt t : RQ rn) / (c1e9 : RQ rn))).val = _
  rw [div_c1e9_val h]; rfl

/-- 2. the value is within two roundings of the exact number of seconds `t / 10^9` -/
theorem time_to_quantity_two_ulps (h : RoundingSpec rn u) (chk : Bool) (t : Int) :
    |((Quantity.ofTime chk t : Quantity (RQ rn)).value).val - (t : ℚ) / 1000000000|
      ≤ (2 * u + u ^ 2) * |(t : ℚ) / 1000000000| := by
  rw [time_to_quantity_value h]; exact two_roundings h t

/-- 2'. with the binary32 constant: relative error at most `2^-22` (`2u + u² ≤ 2^-23 + 2^-48`) -/
theorem time_to_quantity_two_ulps_const (h : RoundingSpec rn u) (chk : Bool) (t : Int) :
    |((Quantity.ofTime chk t : Quantity (RQ rn)).value).val - (t : ℚ) / 1000000000|
      ≤ |(t : ℚ) / 1000000000| / 2 ^ 22 := by
  have h1 := time_to_quantity_two_ulps h chk t
  have h2 := mul_le_mul_of_nonneg_right (two_u_le h) (abs_nonneg ((t : ℚ) / 1000000000))
  have e : |(t : ℚ) / 1000000000| / 2 ^ 22 = 1 / 2 ^ 22 * |(t : ℚ) / 1000000000| := by ring
  rw [e]; linarith

/-- 3. the conversion is monotone in the time -/
theorem time_to_quantity_mono (h : RoundingSpec rn u) (chk : Bool) (t t' : Int) (hle : t ≤ t') :
    ((Quantity.ofTime chk t : Quantity (RQ rn)).value).val
      ≤ ((Quantity.ofTime chk t' : Quantity (RQ rn)).value).val := by
  rw [time_to_quantity_value h, time_to_quantity_value h]
  apply h.mono
  apply div_le_div_of_nonneg_right _ (by norm_num)
  apply h.mono
  exact_mod_cast hle

/-- 3'. in the model's own order on the scalar type -/
theorem time_to_quantity_mono_le (h : RoundingSpec rn u) (chk : Bool) (t t' : Int) (hle : t ≤ t') :
    (Quantity.ofTime chk t : Quantity (RQ rn)).value ≤ (Quantity.ofTime chk t' : Quantity (RQ rn)).value :=
  time_to_quantity_mono h chk t t' hle

/-- the unit of the converted time is seconds -/
theorem time_to_quantity_unit (t : Int) : (Quantity.ofTime true t : Quantity (RQ rn)).unit = ⟨0, 1⟩ := rfl

/-! ### 4: `Quantity → Time` -/

/-- 4. `Time::try_from` of a quantity in seconds is `(rn (value * 1e9)) as i64` -/
theorem quantity_to_time_value (h : RoundingSpec rn u) (q : Quantity (RQ rn)) (hq : q.unit = ⟨0, 1⟩) :
    Time.tryOfQuantity true q = some (satI64 (trunc (rn (q.value.val * 1000000000)))) := by
  have hv := mul_c1e9_val h q.value
  simp only [Time.tryOfQuantity, DUnit.eqAssumeTrue, SECOND, DUnit.new, if_true, hq, constEq_self]
  show some (satI64 (trunc (q.value * (c1e9 : RQ rn)).val)) = _
  rw [hv]

/-- 4, literal form of the task statement -/
theorem quantity_to_time_value_mk (h : RoundingSpec rn u) (x : ℚ) :
    Time.tryOfQuantity true (⟨⟨x⟩, ⟨0, 1⟩⟩ : Quantity (RQ rn)) = some (satI64 (trunc (rn (x * 1000000000)))) :=
  quantity_to_time_value h _ rfl

/-- 4. any other unit is rejected -/
theorem quantity_to_time_none (q : Quantity (RQ rn)) (hq : q.unit ≠ ⟨0, 1⟩) :
    Time.tryOfQuantity true q = none := by
  simp [Time.tryOfQuantity, DUnit.eqAssumeTrue, SECOND, DUnit.new, constEq_ne _ _ hq]

/-- 4. with unit checking compiled out every quantity converts, by the same expression -/
theorem quantity_to_time_value_unchecked (h : RoundingSpec rn u) (q : Quantity (RQ rn)) :
    Time.tryOfQuantity false q = some (satI64 (trunc (rn (q.value.val * 1000000000)))) := by
  have hv := mul_c1e9_val h q.value
  simp only [Time.tryOfQuantity, DUnit.eqAssumeTrue, if_true]
  show some (satI64 (trunc (q.value * (c1e9 : RQ rn)).val)) = _
  rw [hv]

/-- 4. accuracy: one rounding plus less than 1 ns of truncation, when the rounded product is in the i64 range
(otherwise `as i64` saturates and no such bound can hold) -/
theorem quantity_to_time_bound_strict (h : RoundingSpec rn u) (q : Quantity (RQ rn)) (hq : q.unit = ⟨0, 1⟩)
    (hr : |rn (q.value.val * 1000000000)| < 2 ^ 63) :
    ∃ n : Int, Time.tryOfQuantity true q = some n ∧ n = trunc (rn (q.value.val * 1000000000)) ∧
      |(n : ℚ) - q.value.val * 1000000000| < u * |q.value.val * 1000000000| + 1 := by
  refine ⟨_, quantity_to_time_value h q hq, satI64_of_inI64 _ (trunc_inI64 _ hr), ?_⟩
  rw [satI64_of_inI64 _ (trunc_inI64 _ hr)]
  have h1 := trunc_err (rn (q.value.val * 1000000000))
  have h2 := h.rel (q.value.val * 1000000000)
  have h3 := abs_sub_le ((trunc (rn (q.value.val * 1000000000)) : Int) : ℚ) (rn (q.value.val * 1000000000))
    (q.value.val * 1000000000)
  linarith

theorem quantity_to_time_bound (h : RoundingSpec rn u) (q : Quantity (RQ rn)) (hq : q.unit = ⟨0, 1⟩)
    (hr : |rn (q.value.val * 1000000000)| < 2 ^ 63) :
    ∃ n : Int, Time.tryOfQuantity true q = some n ∧
      |(n : ℚ) - q.value.val * 1000000000| ≤ u * |q.value.val * 1000000000| + 1 := by
  obtain ⟨n, h1, _, h3⟩ := quantity_to_time_bound_strict h q hq hr
  exact ⟨n, h1, h3.le⟩

/-! ### 5: round trip -/

/-- 5. which expression the round trip computes -/
theorem roundtrip_value (h : RoundingSpec rn u) (t : Int) :
    Time.tryOfQuantity true (Quantity.ofTime true t : Quantity (RQ rn))
      = some (satI64 (trunc (rn (rn (rn (t : ℚ) / 1000000000) * 1000000000)))) := by
  rw [quantity_to_time_value h _ (time_to_quantity_unit t), time_to_quantity_value h]

/-- 5. `Time → Quantity → Time` returns a time within `|t|·((1+u)³ − 1) + 1 ns` of the original, for every i64 `t`
(`inI64 t` is the type invariant of `Time(i64)`; saturation of the final cast can only help, `satI64_contract`). -/
theorem roundtrip_bound (h : RoundingSpec rn u) (t : Int) (ht : inI64 t) :
    ∃ t' : Int, Time.tryOfQuantity true (Quantity.ofTime true t : Quantity (RQ rn)) = some t' ∧
      |(t' : ℚ) - t| ≤ |(t : ℚ)| * ((1 + u) ^ 3 - 1) + 1 := by
  refine ⟨_, roundtrip_value h t, ?_⟩
  have h0 := satI64_contract (trunc (rn (rn (rn (t : ℚ) / 1000000000) * 1000000000))) t ht
  have h1 := trunc_err (rn (rn (rn (t : ℚ) / 1000000000) * 1000000000))
  have h2 := three_roundings h (t : ℚ)
  have h3 := abs_sub_le ((trunc (rn (rn (rn (t : ℚ) / 1000000000) * 1000000000)) : Int) : ℚ)
    (rn (rn (rn (t : ℚ) / 1000000000) * 1000000000)) (t : ℚ)
  linarith

/-- 5'. with the binary32 constant: within `|t| / 2^22 + 1 ns` (`3u + 3u² + u³ < 2^-22` for `u ≤ 2^-24`) -/
theorem roundtrip_bound_const (h : RoundingSpec rn u) (t : Int) (ht : inI64 t) :
    ∃ t' : Int, Time.tryOfQuantity true (Quantity.ofTime true t : Quantity (RQ rn)) = some t' ∧
      |(t' : ℚ) - t| ≤ |(t : ℚ)| / 2 ^ 22 + 1 := by
  obtain ⟨t', h1, h2⟩ := roundtrip_bound h t ht
  refine ⟨t', h1, ?_⟩
  have h3 := mul_le_mul_of_nonneg_left (three_u_le h) (abs_nonneg (t : ℚ))
  have e : |(t : ℚ)| / 2 ^ 22 = |(t : ℚ)| * (1 / 2 ^ 22) := by ring
  rw [e]; linarith

/-- 5''. without the i64 invariant but with the rounded product in range (no saturation): same bound for any integer -/
theorem roundtrip_bound_nosat (h : RoundingSpec rn u) (t : Int)
    (hr : |rn (rn (rn (t : ℚ) / 1000000000) * 1000000000)| < 2 ^ 63) :
    ∃ t' : Int, Time.tryOfQuantity true (Quantity.ofTime true t : Quantity (RQ rn)) = some t' ∧
      |(t' : ℚ) - t| < |(t : ℚ)| * ((1 + u) ^ 3 - 1) + 1 := by
  refine ⟨_, roundtrip_value h t, ?_⟩
  rw [satI64_of_inI64 _ (trunc_inI64 _ hr)]
  have h1 := trunc_err (rn (rn (rn (t : ℚ) / 1000000000) * 1000000000))
  have h2 := three_roundings h (t : ℚ)
  have h3 := abs_sub_le ((trunc (rn (rn (rn (t : ℚ) / 1000000000) * 1000000000)) : Int) : ℚ)
    (rn (rn (rn (t : ℚ) / 1000000000) * 1000000000)) (t : ℚ)
  linarith

/-! ### 6: non-vacuity -/

/-- exact arithmetic meets the contract (so every theorem above has a model) -/
theorem roundingSpec_id : RoundingSpec (fun x => x) (1 / 2 ^ 24) where
  u_pos := by norm_num
  u_small := le_refl _
  rel := fun x => by simp
  mono := fun _ _ h => h
  zero := rfl
  e9 := rfl

example : RoundingSpec (fun x => x) (1 / 2 ^ 24) := roundingSpec_id

/-- A rounding function that is NOT the identity also meets the contract: round the interval `(1, 1 + 2^-24]` down
to `1` (what binary32 round-to-nearest-even does there: the neighbours of that interval are `1` and `1 + 2^-23`, and
the tie `1 + 2^-24` goes to the even significand `1`). -/
def rnToy (x : ℚ) : ℚ := if 1 < x ∧ x ≤ 1 + 1 / 2 ^ 24 then 1 else x

theorem roundingSpec_toy : RoundingSpec rnToy (1 / 2 ^ 24) where
  u_pos := by norm_num
  u_small := le_refl _
  rel := fun x => by
    unfold rnToy
    split
    · rename_i hx
      rw [abs_sub_comm, abs_of_nonneg (by linarith [hx.1]), abs_of_pos (by linarith [hx.1])]
      have := hx.2
      norm_num at this ⊢
      linarith [hx.1]
    · simp
  mono := fun x y hxy => by
    unfold rnToy
    split <;> split
    · exact le_refl _
    · rename_i hx hy
      by_contra hc
      exact hy ⟨by linarith [hx.1], by linarith [hx.2]⟩
    · rename_i hx hy
      by_contra hc
      exact hx ⟨by linarith [hy.1], by linarith [hy.2]⟩
    · exact hxy
  zero := by unfold rnToy; norm_num
  e9 := by unfold rnToy; norm_num

example : rnToy (1 + 1 / 2 ^ 25) = 1 := by unfold rnToy; norm_num

/-- concrete numbers: 1.5 s.  `Time(1_500_000_000)` converts to the value `3/2`, and back to `1_500_000_000`. -/
example : ((Quantity.ofTime true 1500000000 : Quantity (RQ (fun x => x))).value).val = 3 / 2 := by
  rw [time_to_quantity_value roundingSpec_id]; norm_num
example : Time.tryOfQuantity true (Quantity.ofTime true 1500000000 : Quantity (RQ (fun x => x)))
    = some 1500000000 := by
  rw [roundtrip_value roundingSpec_id]
  norm_num [trunc, satI64]
/-- hypotheses of the theorems are satisfiable by non-trivial data -/
example : (1500000000 : Int) ≤ 1500000001 ∧ inI64 1500000000 := by decide
example : |(fun x : ℚ => x) ((3 / 2 : ℚ) * 1000000000)| < 2 ^ 63 := by norm_num
example : (⟨⟨3 / 2⟩, ⟨0, 1⟩⟩ : Quantity (RQ (fun x => x))).unit = ⟨0, 1⟩ := rfl
example : (⟨⟨3 / 2⟩, ⟨1, 0⟩⟩ : Quantity (RQ (fun x => x))).unit ≠ ⟨0, 1⟩ := by decide
/-- truncation is toward zero, and the cast saturates -/
example : trunc (7 / 2) = 3 ∧ trunc (-7 / 2) = -3 := by
  constructor <;> norm_num [trunc]
example : satI64 (2 ^ 63) = 2 ^ 63 - 1 ∧ satI64 (-(2 ^ 64)) = -(2 ^ 63) := by decide
/-- the range hypothesis of `quantity_to_time_bound` is necessary: `1e10 s` saturates to `i64::MAX` ns, off by ≈ 7.8e17 -/
example : Time.tryOfQuantity true (⟨⟨10000000000⟩, ⟨0, 1⟩⟩ : Quantity (RQ (fun x => x)))
    = some 9223372036854775807 := by
  rw [quantity_to_time_value_mk roundingSpec_id]
  norm_num [trunc, satI64]
/-- with the toy rounding the converted value of 1 ns-over-1 s is rounded: `(10^9 + 1) ns ↦ 1 s` exactly -/
example : ((Quantity.ofTime true 1000000001 : Quantity (RQ rnToy)).value).val = 1 := by
  rw [time_to_quantity_value roundingSpec_toy]
  norm_num [rnToy]

end Rrtk.Thm.C18
