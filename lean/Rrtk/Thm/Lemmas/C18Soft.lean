/-
C18, accuracy clauses for the CONCRETE binary32 rounding `Rrtk.Soft.rne32` — no rounding hypothesis left.

`Rrtk/Thm/Lemmas/C18Rounding.lean` proves the accuracy theorems for an abstract rounding function under `RoundingSpec`,
whose relative-error clause real binary32 meets only in the normal range (its header's RANGE CAVEAT, an argument outside Lean).
Here the generic model functions of `Rrtk/Dim.lean` are instantiated at `RQ Rrtk.Soft.rne32` — rationals whose operations are
the exact result followed by the kernel-transparent round-to-nearest-even of `Rrtk/SoftFloat.lean` (bit-for-bit compared with
hardware `f32`) — and the range side conditions are PROVED from the integrality of the time (`t = 0 ∨ 1 ≤ |t|`):
every rounding in `Time → Quantity → Time` acts on `0` or on a number of magnitude `≥ 2^-126`.
`time_to_quantity_finite_binary32` / `roundtrip_finite_binary32` show every intermediate rounded value is `< 2^128`, so the
unbounded-exponent `rne32` coincides with what binary32 hardware returns (no overflow to ∞) for every `t : i64`.
For an arbitrary quantity (`quantity_to_time_bound_binary32`) products in the subnormal range are handled by the absolute
error bound `rne32_abs_subnormal` (the conversion result is then 0).

Helper lemmas live in `Rrtk.Thm.C18.Soft`; the property theorems are directly in `Rrtk.Thm.C18`.
-/
import Rrtk.Thm.Lemmas.C18Rounding
import Rrtk.Thm.Lemmas.SoftFloat
set_option linter.unusedSectionVars false
set_option linter.unusedSimpArgs false
namespace Rrtk.Thm.C18
open Rrtk Rrtk.Soft Rrtk.Thm.SoftFloat Rounding

/-- the scalar type: rationals with binary32-rounded arithmetic -/
abbrev Q32 := RQ rne32

namespace Soft

/-- "no underflow": the exact result is 0 or at least the smallest normal number in magnitude -/
def InR (x : ℚ) : Prop := x = 0 ∨ (2:ℚ)^(-126:ℤ) ≤ |x|

theorem tiny_le : (2:ℚ)^(-126:ℤ) ≤ 1 / 1073741824 := by
  have : (1:ℚ) / 1073741824 = (2:ℚ)^(-30:ℤ) := by norm_num
  rw [this]; exact (zpow_le_iff _ _).2 (by norm_num)

/-- relative error `2^-24` whenever there is no underflow -/
theorem rel_N (x : ℚ) (hx : InR x) : |rne32 x - x| ≤ 1 / 2 ^ 24 * |x| := by
  rcases hx with h | h
  · subst h; simp [rne32_zero]
  · have := rne32_rel x h
    have e : (1:ℚ) / 2 ^ 24 * |x| = |x| / 2 ^ 24 := by ring
    rw [e]; exact this

theorem inR_of_one_le (x : ℚ) (h : 1 / 1000000000 ≤ |x|) : InR x :=
  Or.inr (le_trans tiny_le (le_trans (by norm_num) h))

theorem rne32_one : rne32 1 = 1 := by
  have := rne32_intCast_small 1 (by norm_num); simpa using this

/-- a nonzero integer is at least 1 in magnitude, and so is its rounding -/
theorem abs_rne32_int_ge_one (t : ℤ) (ht : t ≠ 0) : 1 ≤ |rne32 (t:ℚ)| := by
  rw [rne32_abs]
  have h1 : (1:ℤ) ≤ |t| := Int.one_le_abs ht
  have h2 : (1:ℚ) ≤ |(t:ℚ)| := by exact_mod_cast h1
  have := rne32_mono _ _ h2
  rw [rne32_one] at this; exact this

theorem inR_int (t : ℤ) : InR (t:ℚ) := by
  by_cases ht : t = 0
  · subst ht; left; simp
  · right
    have h1 : (1:ℤ) ≤ |t| := Int.one_le_abs ht
    have h2 : (1:ℚ) ≤ |(t:ℚ)| := by exact_mod_cast h1
    exact le_trans (le_trans tiny_le (by norm_num)) h2

theorem inR_int_div (t : ℤ) : InR (rne32 (t:ℚ) / 1000000000) := by
  by_cases ht : t = 0
  · subst ht; left; simp [rne32_zero]
  · apply inR_of_one_le
    rw [abs_div_e9]
    have := abs_rne32_int_ge_one t ht
    exact div_le_div_of_nonneg_right this (by norm_num)

theorem inR_int_div_mul (t : ℤ) : InR (rne32 (rne32 (t:ℚ) / 1000000000) * 1000000000) := by
  by_cases ht : t = 0
  · subst ht; left; simp [rne32_zero]
  · right
    set y := rne32 (t:ℚ) / 1000000000 with hy
    have hy1 : 1 / 1000000000 ≤ |y| := by
      rw [hy, abs_div_e9]
      exact div_le_div_of_nonneg_right (abs_rne32_int_ge_one t ht) (by norm_num)
    have h1 := rel_N y (inR_of_one_le y hy1)
    have h2 := abs_sub_abs_le_abs_sub y (rne32 y)
    rw [abs_sub_comm] at h2
    have h3 : (1 - 1 / 2 ^ 24) * |y| ≤ |rne32 y| := by linarith
    rw [abs_mul_e9]
    have h4 : (1 - 1 / 2 ^ 24) * (1 / 1000000000) ≤ (1 - 1 / 2 ^ 24) * |y| :=
      mul_le_mul_of_nonneg_left hy1 (by norm_num)
    have h5 : (2:ℚ)^(-126:ℤ) ≤ 1 / 2 := le_trans tiny_le (by norm_num)
    norm_num at h3 h4 ⊢
    linarith

/-- two roundings, with the no-underflow side conditions explicit -/
theorem two_roundings_N (x : ℚ) (hx : InR x) (hy : InR (rne32 x / 1000000000)) :
    |rne32 (rne32 x / 1000000000) - x / 1000000000| ≤ (2 * (1 / 2 ^ 24) + (1 / 2 ^ 24) ^ 2) * |x / 1000000000| := by
  generalize hu : (1:ℚ) / 2 ^ 24 = u
  have hupos : 0 < u := by rw [← hu]; norm_num
  have h1 := rel_N x hx
  rw [hu] at h1
  have hq : |rne32 x / 1000000000 - x / 1000000000| ≤ u * |x / 1000000000| := by
    have e : rne32 x / 1000000000 - x / 1000000000 = (rne32 x - x) / 1000000000 := by ring
    rw [e, abs_div_e9, abs_div_e9]
    have : |rne32 x - x| / 1000000000 ≤ (u * |x|) / 1000000000 :=
      div_le_div_of_nonneg_right h1 (by norm_num)
    linarith [mul_div_assoc u |x| (1000000000 : ℚ)]
  have hqa : |rne32 x / 1000000000| ≤ |x / 1000000000| + u * |x / 1000000000| := by
    have := abs_sub_abs_le_abs_sub (rne32 x / 1000000000) (x / 1000000000)
    linarith
  have h2 := rel_N (rne32 x / 1000000000) hy
  rw [hu] at h2
  have h3 : u * |rne32 x / 1000000000| ≤ u * (|x / 1000000000| + u * |x / 1000000000|) :=
    mul_le_mul_of_nonneg_left hqa hupos.le
  have h4 := abs_sub_le (rne32 (rne32 x / 1000000000)) (rne32 x / 1000000000) (x / 1000000000)
  have e : (2 * u + u ^ 2) * |x / 1000000000|
      = u * (|x / 1000000000| + u * |x / 1000000000|) + u * |x / 1000000000| := by ring
  rw [e]; linarith

/-- three roundings, with the no-underflow side conditions explicit -/
theorem three_roundings_N (x : ℚ) (hx : InR x) (hy : InR (rne32 x / 1000000000))
    (hz : InR (rne32 (rne32 x / 1000000000) * 1000000000)) :
    |rne32 (rne32 (rne32 x / 1000000000) * 1000000000) - x| ≤ |x| * ((1 + 1 / 2 ^ 24) ^ 3 - 1) := by
  have hc : (0 : ℚ) < 1000000000 := by norm_num
  have h1 := two_roundings_N x hx hy
  have h2 := rel_N _ hz
  generalize hu : (1:ℚ) / 2 ^ 24 = u at h1 h2 ⊢
  have hupos : 0 < u := by rw [← hu]; norm_num
  have hp : |rne32 (rne32 x / 1000000000) * 1000000000 - x| ≤ (2 * u + u ^ 2) * |x| := by
    have e : rne32 (rne32 x / 1000000000) * 1000000000 - x
        = (rne32 (rne32 x / 1000000000) - x / 1000000000) * 1000000000 := by field_simp
    rw [e, abs_mul_e9]
    have e2 : |x| = |x / 1000000000| * 1000000000 := by rw [abs_div_e9]; field_simp
    rw [e2, ← mul_assoc]
    exact mul_le_mul_of_nonneg_right h1 hc.le
  have hpa : |rne32 (rne32 x / 1000000000) * 1000000000| ≤ |x| + (2 * u + u ^ 2) * |x| := by
    have := abs_sub_abs_le_abs_sub (rne32 (rne32 x / 1000000000) * 1000000000) x
    linarith
  have h3 : u * |rne32 (rne32 x / 1000000000) * 1000000000| ≤ u * (|x| + (2 * u + u ^ 2) * |x|) :=
    mul_le_mul_of_nonneg_left hpa hupos.le
  have h4 := abs_sub_le (rne32 (rne32 (rne32 x / 1000000000) * 1000000000))
    (rne32 (rne32 x / 1000000000) * 1000000000) x
  have e : |x| * ((1 + u) ^ 3 - 1) = u * (|x| + (2 * u + u ^ 2) * |x|) + (2 * u + u ^ 2) * |x| := by ring
  rw [e]; linarith

theorem two_u_le32 : 2 * ((1:ℚ) / 2 ^ 24) + (1 / 2 ^ 24) ^ 2 ≤ 1 / 2 ^ 22 := by norm_num
theorem three_u_le32 : (1 + (1:ℚ) / 2 ^ 24) ^ 3 - 1 ≤ 1 / 2 ^ 22 := by norm_num

theorem mul_c1e9_val32 (a : Q32) : (a * (c1e9 : Q32)).val = rne32 (a.val * 1000000000) := by
  show rne32 (a.val * rne32 ((1000000000 : Int) : ℚ)) = _
  have : (((1000000000 : Int) : ℚ)) = 1000000000 := by norm_num
  rw [this, rne32_e9]

theorem div_c1e9_val32 (a : Q32) : (a / (c1e9 : Q32)).val = rne32 (a.val / 1000000000) := by
  show rne32 (a.val / rne32 ((1000000000 : Int) : ℚ)) = _
  have : (((1000000000 : Int) : ℚ)) = 1000000000 := by norm_num
  rw [this, rne32_e9]

theorem abs_rne32_le_of_abs_le (x : ℚ) (B : ℚ) (hB : rne32 B = B) (h : |x| ≤ B) : |rne32 x| ≤ B := by
  rw [rne32_abs]; have := rne32_mono _ _ h; rw [hB] at this; exact this

theorem rne32_pow63 : rne32 9223372036854775808 = 9223372036854775808 := by
  have := rne32_two_zpow 63 (by norm_num)
  have e : (2:ℚ)^(63:ℤ) = 9223372036854775808 := by norm_num
  rw [e] at this; exact this

theorem rne32_pow34 : rne32 17179869184 = 17179869184 := by
  have := rne32_two_zpow 34 (by norm_num)
  have e : (2:ℚ)^(34:ℤ) = 17179869184 := by norm_num
  rw [e] at this; exact this

theorem rne32_pow64 : rne32 18446744073709551616 = 18446744073709551616 := by
  have := rne32_two_zpow 64 (by norm_num)
  have e : (2:ℚ)^(64:ℤ) = 18446744073709551616 := by norm_num
  rw [e] at this; exact this

theorem abs_int_le_pow63 (t : ℤ) (ht : inI64 t) : |(t:ℚ)| ≤ 9223372036854775808 := by
  unfold inI64 at ht
  have : |t| ≤ 9223372036854775808 := by rw [abs_le]; omega
  exact_mod_cast this

/-- `|x| < 1` truncates to 0 -/
theorem trunc_eq_zero (x : ℚ) (h : |x| < 1) : trunc x = 0 := by
  rw [abs_lt] at h
  unfold trunc
  split
  · rw [Int.floor_eq_iff]; constructor <;> push_cast <;> linarith [h.1, h.2]
  · have : ⌊-x⌋ = 0 := by rw [Int.floor_eq_iff]; constructor <;> push_cast <;> linarith [h.1, h.2]
    rw [this]; rfl

end Soft
open Soft

/-! ### 1–3: `Time → Quantity` -/

/-- 1. `Quantity::from(Time(t))` has value `rne32 (rne32 t / 1e9)` (for either setting of unit checking). -/
theorem time_to_quantity_value_binary32 (chk : Bool) (t : Int) :
    ((Quantity.ofTime chk t : Quantity Q32).value).val = rne32 (rne32 (t : ℚ) / 1000000000) := by
  show (((FloatLike.ofInt t : Q32) / (c1e9 : Q32))).val = _
  rw [div_c1e9_val32]; rfl

/-- 2. For every `i64` time the binary32 value is within two roundings — relative error `2^-22` — of the exact number of
seconds `t / 10^9`.  No rounding hypothesis: both roundings act on `0` or on a number `≥ 10^-9 ≫ 2^-126`. -/
theorem time_to_quantity_two_ulps_binary32 (chk : Bool) (t : Int) (_ht : inI64 t) :
    |((Quantity.ofTime chk t : Quantity Q32).value).val - (t : ℚ) / 1000000000|
      ≤ |(t : ℚ) / 1000000000| / 2 ^ 22 := by
  rw [time_to_quantity_value_binary32]
  have h1 := two_roundings_N (t:ℚ) (inR_int t) (inR_int_div t)
  have h2 := mul_le_mul_of_nonneg_right two_u_le32 (abs_nonneg ((t : ℚ) / 1000000000))
  have e : |(t : ℚ) / 1000000000| / 2 ^ 22 = 1 / 2 ^ 22 * |(t : ℚ) / 1000000000| := by ring
  rw [e]; linarith

/-- 3. the conversion is monotone in the time -/
theorem time_to_quantity_mono_binary32 (chk : Bool) (t t' : Int) (hle : t ≤ t') :
    ((Quantity.ofTime chk t : Quantity Q32).value).val ≤ ((Quantity.ofTime chk t' : Quantity Q32).value).val := by
  rw [time_to_quantity_value_binary32, time_to_quantity_value_binary32]
  apply rne32_mono
  apply div_le_div_of_nonneg_right _ (by norm_num)
  apply rne32_mono
  exact_mod_cast hle

/-- 3'. in the model's own order on the scalar type -/
theorem time_to_quantity_mono_le_binary32 (chk : Bool) (t t' : Int) (hle : t ≤ t') :
    (Quantity.ofTime chk t : Quantity Q32).value ≤ (Quantity.ofTime chk t' : Quantity Q32).value :=
  time_to_quantity_mono_binary32 chk t t' hle

/-- the first rounding `t as f32` stays within `2^63` (no overflow) -/
theorem time_as_f32_le_binary32 (t : Int) (ht : inI64 t) : |rne32 (t:ℚ)| ≤ 2 ^ 63 := by
  have := abs_rne32_le_of_abs_le (t:ℚ) _ rne32_pow63 (abs_int_le_pow63 t ht)
  norm_num; exact this

/-- the converted value is at most `2^34` in magnitude -/
theorem time_to_quantity_le_binary32 (chk : Bool) (t : Int) (ht : inI64 t) :
    |((Quantity.ofTime chk t : Quantity Q32).value).val| ≤ 2 ^ 34 := by
  rw [time_to_quantity_value_binary32]
  have h1 := abs_rne32_le_of_abs_le (t:ℚ) _ rne32_pow63 (abs_int_le_pow63 t ht)
  have h2 : |rne32 (t:ℚ) / 1000000000| ≤ 17179869184 := by
    rw [abs_div_e9, div_le_iff₀ (by norm_num)]; linarith
  have := abs_rne32_le_of_abs_le _ _ rne32_pow34 h2
  norm_num; exact this

/-- Both intermediate results are far below `2^128`: binary32 hardware does not overflow to `∞`, so the unbounded-exponent
`rne32` IS the hardware result for every `i64` time. -/
theorem time_to_quantity_finite_binary32 (chk : Bool) (t : Int) (ht : inI64 t) :
    |((Quantity.ofTime chk t : Quantity Q32).value).val| < 2 ^ 128 :=
  lt_of_le_of_lt (time_to_quantity_le_binary32 chk t ht) (by norm_num)

/-! ### 4: `Quantity → Time` -/

/-- 4. `Time::try_from` of a quantity in seconds is `(rne32 (value * 1e9)) as i64` -/
theorem quantity_to_time_value_binary32 (q : Quantity Q32) (hq : q.unit = ⟨0, 1⟩) :
    Time.tryOfQuantity true q = some (satI64 (trunc (rne32 (q.value.val * 1000000000)))) := by
  have hv := mul_c1e9_val32 q.value
  simp only [Time.tryOfQuantity, DUnit.eqAssumeTrue, SECOND, DUnit.new, if_true, hq, constEq_self]
  show some (satI64 (trunc (q.value * (c1e9 : Q32)).val)) = _
  rw [hv]

/-- 4. accuracy for EVERY quantity in seconds whose rounded product is in the i64 range: one rounding (`2^-24` relative)
plus 1 ns of truncation.  Products in the subnormal range (`|x·10^9| < 2^-126`) round to something of magnitude `< 1`, so the
result is 0 and the bound holds too — the case left open by `quantity_to_time_bound`. -/
theorem quantity_to_time_bound_binary32 (q : Quantity Q32) (hq : q.unit = ⟨0, 1⟩)
    (hr : |rne32 (q.value.val * 1000000000)| < 2 ^ 63) :
    ∃ n : Int, Time.tryOfQuantity true q = some n ∧
      |(n : ℚ) - q.value.val * 1000000000| ≤ |q.value.val * 1000000000| / 2 ^ 24 + 1 := by
  refine ⟨_, quantity_to_time_value_binary32 q hq, ?_⟩
  rw [satI64_of_inI64 _ (trunc_inI64 _ hr)]
  generalize q.value.val * 1000000000 = P at *
  by_cases hP : InR P
  · have h1 := trunc_err (rne32 P)
    have h2 := rel_N P hP
    have h3 := abs_sub_le ((trunc (rne32 P) : Int) : ℚ) (rne32 P) P
    have e : |P| / 2 ^ 24 = 1 / 2 ^ 24 * |P| := by ring
    rw [e]; linarith
  · have hlt : |P| < (2:ℚ)^(-126:ℤ) := by
      by_contra hc; exact hP (Or.inr (not_lt.1 hc))
    have h1 := rne32_abs_subnormal P hlt
    have h2 : (2:ℚ)^(-126:ℤ) ≤ 1 / 4 := le_trans tiny_le (by norm_num)
    have h3 : (2:ℚ)^(-150:ℤ) ≤ 1 / 4 :=
      le_trans ((zpow_le_iff (-150) (-126)).2 (by norm_num)) h2
    have h4 := abs_sub_abs_le_abs_sub (rne32 P) P
    generalize (2:ℚ)^(-126:ℤ) = a at *
    generalize (2:ℚ)^(-150:ℤ) = b at *
    have h5 : |rne32 P| < 1 := by linarith
    rw [trunc_eq_zero _ h5]
    have h6 : (0:ℚ) ≤ |P| / 2 ^ 24 := by positivity
    push_cast; rw [zero_sub, abs_neg]; linarith

/-! ### 5: round trip -/

/-- 5. which expression the round trip computes -/
theorem roundtrip_value_binary32 (t : Int) :
    Time.tryOfQuantity true (Quantity.ofTime true t : Quantity Q32)
      = some (satI64 (trunc (rne32 (rne32 (rne32 (t : ℚ) / 1000000000) * 1000000000)))) := by
  rw [quantity_to_time_value_binary32 _ (time_to_quantity_unit t), time_to_quantity_value_binary32]

/-- 5. `Time → Quantity → Time` in binary32 returns a time within `|t|/2^22 + 1 ns` of the original, for every i64 `t`,
with no hypothesis on the rounding: all three roundings are on `0` or on numbers of magnitude `≥ 2^-126`. -/
theorem roundtrip_bound_binary32 (t : Int) (ht : inI64 t) :
    ∃ t' : Int, Time.tryOfQuantity true (Quantity.ofTime true t : Quantity Q32) = some t' ∧
      |(t' : ℚ) - t| ≤ |(t : ℚ)| / 2 ^ 22 + 1 := by
  refine ⟨_, roundtrip_value_binary32 t, ?_⟩
  have h0 := satI64_contract (trunc (rne32 (rne32 (rne32 (t : ℚ) / 1000000000) * 1000000000))) t ht
  have h1 := trunc_err (rne32 (rne32 (rne32 (t : ℚ) / 1000000000) * 1000000000))
  have h2 := three_roundings_N (t : ℚ) (inR_int t) (inR_int_div t) (inR_int_div_mul t)
  have h3 := abs_sub_le ((trunc (rne32 (rne32 (rne32 (t : ℚ) / 1000000000) * 1000000000)) : Int) : ℚ)
    (rne32 (rne32 (rne32 (t : ℚ) / 1000000000) * 1000000000)) (t : ℚ)
  have h4 := mul_le_mul_of_nonneg_left three_u_le32 (abs_nonneg (t : ℚ))
  have e : |(t : ℚ)| / 2 ^ 22 = |(t : ℚ)| * (1 / 2 ^ 22) := by ring
  rw [e]; linarith

/-- 5. every intermediate binary32 result of the round trip is finite (`< 2^128`; in fact `≤ 2^63, 2^34, 2^64`), so `rne32`
is what the hardware computes at each of the three operations -/
theorem roundtrip_finite_binary32 (t : Int) (ht : inI64 t) :
    |rne32 (t:ℚ)| ≤ 2 ^ 63 ∧ |rne32 (rne32 (t:ℚ) / 1000000000)| ≤ 2 ^ 34 ∧
      |rne32 (rne32 (rne32 (t:ℚ) / 1000000000) * 1000000000)| ≤ 2 ^ 64 := by
  have h2 := time_to_quantity_le_binary32 true t ht
  rw [time_to_quantity_value_binary32] at h2
  refine ⟨time_as_f32_le_binary32 t ht, h2, ?_⟩
  have h3 : |rne32 (rne32 (t:ℚ) / 1000000000) * 1000000000| ≤ 18446744073709551616 := by
    rw [abs_mul_e9]; norm_num at h2; nlinarith
  have := abs_rne32_le_of_abs_le _ _ rne32_pow64 h3
  norm_num; exact this

/-! ### 6: non-vacuity, concrete numbers (evaluated by the kernel on the model itself: `decide +kernel`, no axioms) -/

/-- 1.5 s: `Time(1_500_000_000)` converts to exactly `3/2` and back to itself. -/
example : ((Quantity.ofTime true 1500000000 : Quantity Q32).value).val = 3 / 2 := by
  rw [time_to_quantity_value_binary32]; decide +kernel
example : Time.tryOfQuantity true (Quantity.ofTime true 1500000000 : Quantity Q32) = some 1500000000 := by
  decide +kernel
/-- rounding really happens: `(10^9 + 1) ns ↦ 1 s` exactly, and back to `10^9 ns` (off by 1 ≤ |t|/2^22 + 1). -/
example : rne32 1000000001 = 1000000000 := by decide +kernel
example : ((Quantity.ofTime true 1000000001 : Quantity Q32).value).val = 1 := by
  rw [time_to_quantity_value_binary32]; decide +kernel
example : Time.tryOfQuantity true (Quantity.ofTime true 1000000001 : Quantity Q32) = some 1000000000 := by
  decide +kernel
example : |((1000000000 : ℤ) : ℚ) - (1000000001 : ℤ)| ≤ |((1000000001 : ℤ) : ℚ)| / 2 ^ 22 + 1 := by norm_num
/-- a large time: `2^62 + 12345 ↦ 2^62` (off by 12345 ns, the bound allows `≈ 1.1·10^12`) -/
example : Time.tryOfQuantity true (Quantity.ofTime true (2 ^ 62 + 12345) : Quantity Q32)
    = some 4611686018427387904 := by
  rw [roundtrip_value_binary32]
  have : rne32 (rne32 (rne32 ((2 ^ 62 + 12345 : ℤ) : ℚ) / 1000000000) * 1000000000) = 4611686018427387904 := by
    decide +kernel
  rw [this]; norm_num [trunc, satI64]
example : |((4611686018427387904 : ℤ) : ℚ) - (2 ^ 62 + 12345 : ℤ)| ≤ |((2 ^ 62 + 12345 : ℤ) : ℚ)| / 2 ^ 22 + 1 := by
  norm_num
/-- `i64::MAX`: the three roundings give `2^63`, and the final cast saturates back to `i64::MAX` -/
example : rne32 (rne32 (rne32 ((9223372036854775807 : ℤ) : ℚ) / 1000000000) * 1000000000) = 2 ^ 63 := by
  decide +kernel
example : Time.tryOfQuantity true (Quantity.ofTime true 9223372036854775807 : Quantity Q32)
    = some 9223372036854775807 := by decide +kernel
/-- the smallest nonzero time, 1 ns, survives the round trip -/
example : Time.tryOfQuantity true (Quantity.ofTime true 1 : Quantity Q32) = some 1 := by decide +kernel
/-- hypotheses are satisfiable by non-trivial data -/
example : inI64 1500000000 ∧ inI64 (2 ^ 62 + 12345) ∧ inI64 9223372036854775807 ∧ (1000000001 : ℤ) ≤ 1500000000 := by
  decide
/-- `quantity_to_time_bound_binary32` on a product in the subnormal range (`2^-170 s · 10^9 ≈ 2^-140 < 2^-126`,\nrounded to the subnormal `477 · 2^-149`): the result is 0 -/
example : Time.tryOfQuantity true (⟨⟨1 / 2 ^ 170⟩, ⟨0, 1⟩⟩ : Quantity Q32) = some 0 := by decide +kernel
example : (⟨⟨1 / 2 ^ 170⟩, ⟨0, 1⟩⟩ : Quantity Q32).unit = ⟨0, 1⟩ ∧
    |rne32 ((⟨⟨1 / 2 ^ 170⟩, ⟨0, 1⟩⟩ : Quantity Q32).value.val * 1000000000)| < 2 ^ 63 := by
  refine ⟨rfl, ?_⟩
  have : rne32 ((⟨⟨1 / 2 ^ 170⟩, ⟨0, 1⟩⟩ : Quantity Q32).value.val * 1000000000)
      = 477 / 713623846352979940529142984724747568191373312 := by decide +kernel   -- the subnormal `477 · 2^-149`
  rw [this]; norm_num
/-- … and on an ordinary one: `2.5 s ↦ 2_500_000_000 ns` -/
example : Time.tryOfQuantity true (⟨⟨5 / 2⟩, ⟨0, 1⟩⟩ : Quantity Q32) = some 2500000000 := by decide +kernel

/-- The concrete rounding does NOT meet the unrestricted contract `RoundingSpec` of `C18Rounding.lean` (its `rel` fails below
the normal range: `2^-150` rounds to `0`), which is why the side conditions had to be proved rather than assumed. -/
theorem rne32_not_RoundingSpec : ¬ RoundingSpec rne32 (1 / 2 ^ 24) := by
  intro h
  have h1 := h.rel (1 / 2 ^ 150)
  have h2 : rne32 (1 / 2 ^ 150) = 0 := by decide +kernel
  rw [h2] at h1
  norm_num at h1

end Rrtk.Thm.C18
