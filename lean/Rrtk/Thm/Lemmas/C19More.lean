/-
C19, continued: the model functions that take `chk` and were not covered by `Thm/C19.lean`.

* `Cpid.stepInput` / `Cpid.step` (`CommandPID`) and `PidW.update` (`PIDWrapper`): the only use of `chk` is the unit of the
  quantity returned by `State::get_value`, whose VALUE is then taken; so the two builds compute literally the same thing
  (`erase_cpid`, `erase_pidw`: equalities with no hypothesis).
* the controller assembled from the crate's own streams (`diffQ`, `Spid.errorSignal`, `Spid.step`): one-step simulation,
  whole histories, "well-dimensioned inputs never panic when checked", "unchecked never panics".
* `erase_program_ext`: straight-line programs over a register machine with quantity registers, state registers and an
  observation log, covering every operation that consults a unit: the nine operations of `QExp`, comparison, `==`,
  `Time::try_from`, `DimensionlessInteger::try_from`, `State::new`, the three setters, `State::get_value`,
  `State::update` and `Quantity::from(Command)`.
-/
import Rrtk.Thm.C19
import Rrtk.Streams.Composed
set_option linter.unusedSectionVars false
set_option linter.unusedSimpArgs false
namespace Rrtk.Thm.C19
open Rrtk

section More
variable {F : Type} [Add F] [Sub F] [Mul F] [Div F] [Neg F] [LT F] [LE F] [BEq F]
  [DecidableLT F] [DecidableLE F] [FloatLike F]

/-! ## G. `CommandPID` and `PIDWrapper` -/

/-- the value `State::get_value` returns does not depend on the build (only its unit does) -/
theorem getValue_value (c c' : Bool) (st : State F) (pd : PosDer) :
    (st.getValue c pd).value = (st.getValue c' pd).value := by cases pd <;> rfl

/-- `CommandPID::update` after `update_following_data`: literally the same function in the two builds -/
theorem erase_cpid_stepInput (k : PIDK3 F) (s : CpidS F) (inp : Output (State F)) :
    Cpid.stepInput true k s inp = Cpid.stepInput false k s inp := by
  cases inp with
  | error e => rfl
  | ok o =>
    cases o with
    | none => rfl
    | some ds =>
      simp only [Cpid.stepInput]
      rw [getValue_value true false ds.value s.command.kind]

/-- **`CommandPID::update`**: new memory (every `f32` and the timestamp in it), the recorded request and the update's
return value are equal with dimension checking compiled in and out — for every state, every followed command and every
input, with no side condition (the `State` carries no unit, so no input is ill-dimensioned). -/
theorem erase_cpid (k : PIDK3 F) (s : CpidS F) (fol : Option (Output (Command F))) (inp : Output (State F)) :
    Cpid.step true k s fol inp = Cpid.step false k s fol inp := by
  unfold Cpid.step
  simp only [erase_cpid_stepInput]

/-- for either build (so also: any two builds agree) -/
theorem erase_cpid_any (c c' : Bool) (k : PIDK3 F) (s : CpidS F) (fol : Option (Output (Command F)))
    (inp : Output (State F)) : Cpid.step c k s fol inp = Cpid.step c' k s fol inp := by
  cases c <;> cases c' <;> first | rfl | exact erase_cpid k s fol inp | exact (erase_cpid k s fol inp).symm

/-- what is read from a `CommandPID` after the update is therefore equal too -/
theorem erase_cpid_get (k : PIDK3 F) (s : CpidS F) (fol : Option (Output (Command F))) (inp : Output (State F)) :
    Cpid.get (Cpid.step true k s fol inp).1 = Cpid.get (Cpid.step false k s fol inp).1 ∧
    (Cpid.step true k s fol inp).2 = (Cpid.step false k s fol inp).2 := by
  rw [erase_cpid]; exact ⟨rfl, rfl⟩

/-- whole histories of `CommandPID` updates -/
def runCpid (chk : Bool) (k : PIDK3 F) :
    CpidS F → List (Option (Output (Command F)) × Output (State F)) → CpidS F × List UpdRet
  | s, [] => (s, [])
  | s, i :: is =>
    let r := Cpid.step chk k s i.1 i.2
    let q := runCpid chk k r.1 is
    (q.1, r.2 :: q.2)

theorem erase_cpid_run (k : PIDK3 F) (s : CpidS F) (is : List (Option (Output (Command F)) × Output (State F))) :
    runCpid true k s is = runCpid false k s is := by
  induction is generalizing s with
  | nil => rfl
  | cons i is ih => simp only [runCpid, erase_cpid, ih]

/-- **`PIDWrapper::update`**: new wrapper state (clock, cached state and command, PID memory), the value handed to the
motor and the return value are equal in the two builds, for every world, terminal and scripted motor. -/
theorem erase_pidw (k : PIDK3 F) (p : PidW F) (w : World F) (i : Nat) (acc iu : UpdRet) :
    PidW.update true k p w i acc iu = PidW.update false k p w i acc iu := by
  unfold PidW.update
  simp only [erase_cpid]

/-! ## H. the controller assembled from the crate's own streams (`Streams/Composed.lean`) -/

/-- erasure of the assembled controller's memory: the two `Quantity` streams are erased, the three `QuantityToFloat`
caches hold plain `f32`s and are kept -/
def eraseSp (s : SpidS F) : SpidS F := ⟨eraseDi s.int, eraseDi s.drv, s.pro, s.intF, s.drvF⟩

theorem eraseSp_get (s : SpidS F) : Spid.get (eraseSp s) = Spid.get s := rfl
theorem eraseSp_init : eraseSp (Spid.init : SpidS F) = Spid.init := rfl

/-- `DifferenceStream<Quantity>`: a checked read that did not panic erases to the unchecked read -/
theorem erase_diffQ {a b o : Output (Quantity F)} (h : diffQ true a b = .ok o) :
    diffQ false (eraseOut a) (eraseOut b) = .ok (eraseOut o) := by
  cases a with
  | error e => cases h; rfl
  | ok ao =>
    cases b with
    | error e => cases h; rfl
    | ok bo =>
      cases ao with
      | none => cases h; rfl
      | some x =>
        cases bo with
        | none => cases h; rfl
        | some y =>
          simp only [diffQ] at h
          split at h
          · cases h
          · rename_i v hv
            obtain rfl := sub_true_ok hv
            cases h; rfl
example : diffQ true (.ok (some ⟨4, ⟨7, ⟨1, 0⟩⟩⟩) : Output (Quantity Int)) (.ok (some ⟨3, ⟨2, ⟨1, 0⟩⟩⟩))
    = .ok (.ok (some ⟨4, ⟨5, ⟨1, 0⟩⟩⟩)) := rfl

theorem diffQ_unchecked_never_panics (a b : Output (Quantity F)) : ∃ o, diffQ false a b = .ok o := by
  cases a with
  | error e => exact ⟨_, rfl⟩
  | ok ao =>
    cases b with
    | error e => exact ⟨_, rfl⟩
    | ok bo =>
      cases ao with
      | none => exact ⟨_, rfl⟩
      | some x =>
        cases bo with
        | none => exact ⟨_, rfl⟩
        | some y => exact ⟨_, rfl⟩

theorem tg_erase (ev : Output (Quantity F)) :
    Stream.timeGetterFromGetter (eraseOut ev) = Stream.timeGetterFromGetter ev := by
  cases ev with
  | error e => rfl
  | ok o => cases o <;> rfl

theorem constantGetter_erase (tg : TimeOutput) (q : Quantity F) :
    eraseOut (Stream.constantGetter tg q) = Stream.constantGetter tg (eraseQ q) := by
  cases tg <;> rfl

theorem noneToValue_erase (x : Output (Quantity F)) (tg : TimeOutput) (q : Quantity F) :
    eraseOut (Stream.noneToValue x tg q) = Stream.noneToValue (eraseOut x) tg (eraseQ q) := by
  cases x with
  | error e => rfl
  | ok o =>
    cases o with
    | some d => rfl
    | none => cases tg <;> rfl

/-- `ProductStream` of two quantity inputs -/
theorem nary_mul_erase (a b : Output (Quantity F)) :
    eraseOut (Stream.nary (Quantity.mul true) [a, b]) = Stream.nary (Quantity.mul false) [eraseOut a, eraseOut b] := by
  cases a with
  | error e => rfl
  | ok ao =>
    cases b with
    | error e => cases ao <;> rfl
    | ok bo => cases ao <;> cases bo <;> rfl

/-- `QuantityToFloat` only keeps the value and the time -/
theorem q2f_erase (s : Output F) (x : Output (Quantity F)) : Q2f.step s (eraseOut x) = Q2f.step s x := by
  cases x with
  | error e => rfl
  | ok o => cases o <;> rfl

/-- the error signal: setpoint (in millimetres, stamped with the input's time) minus the input -/
theorem erase_errorSignal {sp : F} {ev o : Output (Quantity F)} (h : Spid.errorSignal true sp ev = .ok o) :
    Spid.errorSignal false sp (eraseOut ev) = .ok (eraseOut o) := by
  unfold Spid.errorSignal at h ⊢
  have := erase_diffQ h
  rw [constantGetter_erase] at this
  rw [tg_erase]
  exact this
example : Spid.errorSignal true (10 : Int) (.ok (some ⟨3, ⟨2, ⟨1, 0⟩⟩⟩)) = .ok (.ok (some ⟨3, ⟨8, ⟨1, 0⟩⟩⟩)) := rfl

theorem errorSignal_unchecked_never_panics (sp : F) (ev : Output (Quantity F)) :
    ∃ o, Spid.errorSignal false sp ev = .ok o := diffQ_unchecked_never_panics _ _

/-- **one update of the assembled controller.**  If the checked update did not panic, the unchecked update on the erased
memory and input does not panic either, ends in the erased memory (same `f32`s, same timestamps, same cached floats)
and returns the same value. -/
theorem spid_step_sim {sp kp ki kd : F} {s s' : SpidS F} {ev : Output (Quantity F)} {r : UpdRet}
    (h : Spid.step true sp kp ki kd s ev = .ok (s', r)) :
    Spid.step false sp kp ki kd (eraseSp s) (eraseOut ev) = .ok (eraseSp s', r) := by
  unfold Spid.step at h
  cases he : Spid.errorSignal true sp ev with
  | error p => simp [he] at h
  | ok err =>
    simp only [he] at h
    cases hi : Integral.step true s.int err with
    | error p => simp [hi] at h
    | ok ri =>
      obtain ⟨int', r1⟩ := ri
      simp only [hi] at h
      cases hd : Derivative.step true s.drv err with
      | error p => simp [hd] at h
      | ok rd =>
        obtain ⟨drv', r2⟩ := rd
        simp only [hd] at h
        cases h
        have hi' := integral_step_sim hi
        have hd' := derivative_step_sim hd
        have he' := erase_errorSignal he
        unfold Spid.step
        simp only [he', eraseSp, hi', hd', tg_erase]
        have e1 : ∀ (c : F), (Stream.constantGetter (Stream.timeGetterFromGetter ev) (Quantity.dimensionless false c)
            : Output (Quantity F)) = eraseOut (Stream.constantGetter (Stream.timeGetterFromGetter ev)
              (Quantity.dimensionless true c)) :=
          fun c => (constantGetter_erase _ (Quantity.dimensionless true c)).symm
        have e2 : ∀ x : Output (Quantity F),
            Stream.noneToValue (eraseOut x) (Stream.timeGetterFromGetter ev) (⟨c0, MILLIMETER false⟩ : Quantity F)
              = eraseOut (Stream.noneToValue x (Stream.timeGetterFromGetter ev) ⟨c0, MILLIMETER true⟩) :=
          fun x => (noneToValue_erase x _ (⟨c0, MILLIMETER true⟩ : Quantity F)).symm
        have g1 : Integral.get (eraseDi int') = eraseOut (Integral.get int') := rfl
        have g2 : Derivative.get (eraseDi drv') = eraseOut (Derivative.get drv') := rfl
        simp only [e1, g1, g2, e2, ← nary_mul_erase, q2f_erase]

/-- with checking compiled out the assembled controller never panics, whatever the units of memory and input -/
theorem spid_unchecked_never_panics (sp kp ki kd : F) (s : SpidS F) (ev : Output (Quantity F)) :
    ∃ r, Spid.step false sp kp ki kd s ev = .ok r := by
  obtain ⟨err, he⟩ := errorSignal_unchecked_never_panics sp ev
  obtain ⟨ri, hi⟩ := integral_unchecked_never_panics s.int err
  obtain ⟨rd, hd⟩ := derivative_unchecked_never_panics s.drv err
  obtain ⟨i1, i2⟩ := ri
  obtain ⟨d1, d2⟩ := rd
  simp only [Spid.step, he, hi, hd]
  exact ⟨_, rfl⟩

/-! ### well-dimensioned inputs: the checked controller does not panic -/

/-- a present input is a position (millimetres) -/
def WdIn (ev : Output (Quantity F)) : Prop := ∀ d, ev = .ok (some d) → d.value.unit = ⟨1, 0⟩
/-- the memory is dimensionally consistent: remembered error samples in mm, the running integral in mm·s -/
def WdSp (s : SpidS F) : Prop :=
  (∀ d, s.int.prev = some d → d.value.unit = ⟨1, 0⟩) ∧
  (∀ d, s.int.value = .ok (some d) → d.value.unit = ⟨1, 1⟩) ∧
  (∀ d, s.drv.prev = some d → d.value.unit = ⟨1, 0⟩)

theorem wdSp_init : WdSp (Spid.init : SpidS F) :=
  ⟨(fun _ h => by cases h), (fun _ h => by cases h), (fun _ h => by cases h)⟩

theorem add_true_same (a b : Quantity F) (h : a.unit = b.unit) :
    Quantity.add true a b = .ok ⟨a.value + b.value, a.unit⟩ := by
  have hc : DUnit.constEq a.unit b.unit = true := (MpL.constEq_iff _ _).2 h
  simp only [Quantity.add, DUnit.add, DUnit.assertEqAssumeOk, DUnit.eqAssumeTrue, hc, if_true]
theorem sub_true_same (a b : Quantity F) (h : a.unit = b.unit) :
    Quantity.sub true a b = .ok ⟨a.value - b.value, a.unit⟩ := by
  have hc : DUnit.constEq a.unit b.unit = true := (MpL.constEq_iff _ _).2 h
  simp only [Quantity.sub, DUnit.sub, DUnit.assertEqAssumeOk, DUnit.eqAssumeTrue, hc, if_true]

/-- the error signal of a well-dimensioned input exists and is again in millimetres -/
theorem errorSignal_checked_wd (sp : F) {ev : Output (Quantity F)} (hev : WdIn ev) :
    ∃ err, Spid.errorSignal true sp ev = .ok err ∧ WdIn err := by
  cases ev with
  | error e => exact ⟨_, rfl, (fun _ h => by cases h)⟩
  | ok o =>
    cases o with
    | none => exact ⟨_, rfl, (fun _ h => by cases h)⟩
    | some d =>
      have hu := hev d rfl
      have hs := sub_true_same (⟨sp, MILLIMETER true⟩ : Quantity F) d.value hu.symm
      refine ⟨.ok (some ⟨d.time, ⟨sp - d.value.value, ⟨1, 0⟩⟩⟩), ?_, ?_⟩
      · simp only [Spid.errorSignal, Stream.timeGetterFromGetter, Stream.noneToError, Stream.constantGetter, diffQ, hs]
        simp only [gt_iff_lt, Int.lt_irrefl, if_false]
        rfl
      · intro d' h; cases h; rfl

theorem integral_checked_wd {s : DiS F} {err : Output (Quantity F)}
    (hp : ∀ d, s.prev = some d → d.value.unit = ⟨1, 0⟩) (hv : ∀ d, s.value = .ok (some d) → d.value.unit = ⟨1, 1⟩)
    (herr : WdIn err) :
    ∃ r, Integral.step true s err = .ok r ∧ (∀ d, r.1.prev = some d → d.value.unit = ⟨1, 0⟩) ∧
      (∀ d, r.1.value = .ok (some d) → d.value.unit = ⟨1, 1⟩) := by
  obtain ⟨v, prev⟩ := s
  cases err with
  | error e => exact ⟨_, rfl, (fun _ h => by cases h), (fun _ h => by cases h)⟩
  | ok oo =>
    cases oo with
    | none => exact ⟨_, rfl, (fun _ h => by cases h), (fun _ h => by cases h)⟩
    | some o =>
      have ho := herr o rfl
      cases prev with
      | none => exact ⟨_, rfl, (fun d h => by cases h; exact ho), (fun _ h => by cases h)⟩
      | some p =>
        have hpu := hp p rfl
        have hs := add_true_same p.value o.value (hpu.trans ho.symm)
        cases v with
        | error e =>
          refine ⟨_, by simp only [Integral.step, hs]; rfl, (fun d h => by cases h; exact ho), ?_⟩
          intro d h; cases h; simp only [Quantity.div, Quantity.mul, hpu]; rfl
        | ok ov =>
          cases ov with
          | none =>
            refine ⟨_, by simp only [Integral.step, hs]; rfl, (fun d h => by cases h; exact ho), ?_⟩
            intro d h; cases h; simp only [Quantity.div, Quantity.mul, hpu]; rfl
          | some real =>
            have hr := hv real rfl
            have ha : (Quantity.div true (Quantity.mul true (Quantity.ofTime true (o.time - p.time))
                (⟨p.value.value + o.value.value, p.value.unit⟩ : Quantity F)) (Quantity.dimensionless true c2)).unit
                = real.value.unit := by
              simp only [Quantity.div, Quantity.mul, hpu, hr]; rfl
            have hs2 := add_true_same _ real.value ha
            refine ⟨_, by simp only [Integral.step, hs, hs2]; rfl, (fun d h => by cases h; exact ho), ?_⟩
            intro d h; cases h; simp only [Quantity.div, Quantity.mul, hpu]; rfl

theorem derivative_checked_wd {s : DiS F} {err : Output (Quantity F)}
    (hp : ∀ d, s.prev = some d → d.value.unit = ⟨1, 0⟩) (herr : WdIn err) :
    ∃ r, Derivative.step true s err = .ok r ∧ (∀ d, r.1.prev = some d → d.value.unit = ⟨1, 0⟩) := by
  obtain ⟨v, prev⟩ := s
  cases err with
  | error e => exact ⟨_, rfl, (fun _ h => by cases h)⟩
  | ok oo =>
    cases oo with
    | none => exact ⟨_, rfl, (fun _ h => by cases h)⟩
    | some o =>
      have ho := herr o rfl
      cases prev with
      | none => exact ⟨_, rfl, (fun d h => by cases h; exact ho)⟩
      | some p =>
        have hs := sub_true_same o.value p.value (ho.trans (hp p rfl).symm)
        exact ⟨_, by simp only [Derivative.step, hs]; rfl, (fun d h => by cases h; exact ho)⟩

/-- **well-dimensioned inputs never panic with checking compiled in**, and leave a dimensionally consistent memory -/
theorem spid_checked_no_panic (sp kp ki kd : F) {s : SpidS F} {ev : Output (Quantity F)} (hs : WdSp s) (hev : WdIn ev) :
    ∃ s' r, Spid.step true sp kp ki kd s ev = .ok (s', r) ∧ WdSp s' := by
  obtain ⟨err, he, herr⟩ := errorSignal_checked_wd sp hev
  obtain ⟨ri, hi, hi1, hi2⟩ := integral_checked_wd hs.1 hs.2.1 herr
  obtain ⟨rd, hd, hd1⟩ := derivative_checked_wd hs.2.2 herr
  obtain ⟨i1, i2⟩ := ri
  obtain ⟨d1, d2⟩ := rd
  refine ⟨_, _, by simp only [Spid.step, he, hi, hd]; rfl, hi1, hi2, hd1⟩

/-- **the assembled controller, whole histories.**  From a dimensionally consistent memory (e.g. a new controller), on
any history of inputs whose present samples are positions: the checked run does not panic; the unchecked run on the
erased history does not panic, ends in the erased memory (every value and timestamp equal), returns the same update
values and reads the same output. -/
theorem erase_spid (sp kp ki kd : F) (evs : List (Output (Quantity F))) (s : SpidS F) (hs : WdSp s)
    (hev : ∀ ev ∈ evs, WdIn ev) :
    ∃ s' rs, runT (Spid.step true sp kp ki kd) s evs = .ok (s', rs) ∧
      runT (Spid.step false sp kp ki kd) (eraseSp s) (evs.map eraseOut) = .ok (eraseSp s', rs) ∧
      Spid.get (eraseSp s') = Spid.get s' ∧ WdSp s' := by
  induction evs generalizing s with
  | nil => exact ⟨s, [], rfl, rfl, rfl, hs⟩
  | cons ev evs ih =>
    obtain ⟨s1, r1, h1, hs1⟩ := spid_checked_no_panic sp kp ki kd hs (hev ev (by simp))
    obtain ⟨s2, rs, h2, h3, h4, h5⟩ := ih s1 hs1 (fun e he => hev e (by simp [he]))
    refine ⟨s2, r1 :: rs, by simp only [runT, h1, h2], ?_, h4, h5⟩
    simp only [List.map_cons, runT, spid_step_sim h1, h3]

/-- the simulation alone (no assumption on the inputs beyond "the checked run did not panic") and totality of the
unchecked run on ANY history -/
theorem erase_spid_sim (sp kp ki kd : F) :
    (∀ (s s' : SpidS F) evs rs, runT (Spid.step true sp kp ki kd) s evs = .ok (s', rs) →
      runT (Spid.step false sp kp ki kd) (eraseSp s) (evs.map eraseOut) = .ok (eraseSp s', rs)) ∧
    (∀ (s : SpidS F) evs, ∃ q, runT (Spid.step false sp kp ki kd) s evs = .ok q) :=
  ⟨fun s s' evs rs => runT_sim _ _ eraseSp eraseOut (fun _ _ _ _ => spid_step_sim) s evs s' rs,
    fun s evs => runT_total _ (fun s i => spid_unchecked_never_panics sp kp ki kd s i) s evs⟩

/-- non-vacuity: three position samples (so that integral and derivative both run), checked, from a new controller -/
example : ∀ ev ∈ ([.ok (some ⟨1, ⟨3, ⟨1, 0⟩⟩⟩), .ok (some ⟨3, ⟨7, ⟨1, 0⟩⟩⟩), .ok none, .ok (some ⟨4, ⟨5, ⟨1, 0⟩⟩⟩)]
    : List (Output (Quantity Int))), WdIn ev := by
  intro ev h d hd
  simp only [List.mem_cons, List.not_mem_nil, or_false] at h
  rcases h with rfl | rfl | rfl | rfl <;> cases hd <;> rfl
example : ∃ q, runT (Spid.step true (10 : Int) 2 3 4) Spid.init
    [.ok (some ⟨1, ⟨3, ⟨1, 0⟩⟩⟩), .ok (some ⟨3, ⟨7, ⟨1, 0⟩⟩⟩), .ok (some ⟨4, ⟨5, ⟨1, 0⟩⟩⟩)] = .ok q := ⟨_, rfl⟩
/-- an input in seconds panics when checked and not when unchecked -/
example : Spid.step true (10 : Int) 2 3 4 Spid.init (.ok (some ⟨1, ⟨3, ⟨0, 1⟩⟩⟩)) = .error .dim := rfl
example : ∃ q, Spid.step false (10 : Int) 2 3 4 Spid.init (.ok (some ⟨1, ⟨3, ⟨0, 1⟩⟩⟩)) = .ok q := ⟨_, rfl⟩

/-! ## I. straight-line programs over the whole unit-consulting API (`erase_program_ext`)

`erase_program_partial` (`Thm/C19.lean`) covers expression trees over nine `Quantity` operations.  Here a program is a
list of instructions of a register machine with quantity registers, `State` registers and a log of the non-quantity
observations (orderings, booleans, converted integers).  The instruction set contains the nine operations of `QExp` and
every remaining operation of `dimensions.rs` / `state.rs` / `command.rs` that consults a unit. -/

/-- what a program can observe besides quantities and states -/
inductive Obs where
  | ord (o : Option Ordering)
  | bool (b : Bool)
  | int (n : Option Int)
  deriving DecidableEq, Repr

/-- registers and the observation log (newest first) -/
structure Env (F : Type) where
  q : Nat → Quantity F
  s : Nat → State F
  log : List Obs

/-- the same with plain scalars in the quantity registers -/
structure SEnv (F : Type) where
  q : Nat → F
  s : Nat → State F
  log : List Obs

def Env.setQ (e : Env F) (d : Nat) (x : Quantity F) : Env F := { e with q := fun j => if j = d then x else e.q j }
def Env.setS (e : Env F) (d : Nat) (x : State F) : Env F := { e with s := fun j => if j = d then x else e.s j }
def Env.emit (e : Env F) (o : Obs) : Env F := { e with log := o :: e.log }
def SEnv.setQ (e : SEnv F) (d : Nat) (x : F) : SEnv F := { e with q := fun j => if j = d then x else e.q j }
def SEnv.setS (e : SEnv F) (d : Nat) (x : State F) : SEnv F := { e with s := fun j => if j = d then x else e.s j }
def SEnv.emit (e : SEnv F) (o : Obs) : SEnv F := { e with log := o :: e.log }

/-- erasure of an environment: every quantity register erased; states, log kept -/
def eraseEnv (e : Env F) : Env F := ⟨fun j => eraseQ (e.q j), e.s, e.log⟩
/-- the numbers in an environment -/
def scalarOf (e : Env F) : SEnv F := ⟨fun j => (e.q j).value, e.s, e.log⟩

theorem scalarOf_eraseEnv (e : Env F) : scalarOf (eraseEnv e) = scalarOf e := rfl
theorem eraseEnv_log (e : Env F) : (eraseEnv e).log = e.log := rfl
theorem eraseEnv_s (e : Env F) : (eraseEnv e).s = e.s := rfl
theorem eraseEnv_q (e : Env F) (j : Nat) : ((eraseEnv e).q j).value = (e.q j).value := rfl

theorem eraseEnv_setQ (e : Env F) (d : Nat) (x : Quantity F) :
    eraseEnv (e.setQ d x) = (eraseEnv e).setQ d (eraseQ x) := by
  simp only [eraseEnv, Env.setQ]
  congr 1
  funext j
  split <;> rfl
theorem eraseEnv_setS (e : Env F) (d : Nat) (x : State F) : eraseEnv (e.setS d x) = (eraseEnv e).setS d x := rfl
theorem eraseEnv_emit (e : Env F) (o : Obs) : eraseEnv (e.emit o) = (eraseEnv e).emit o := rfl
theorem scalarOf_setQ (e : Env F) (d : Nat) (x : Quantity F) :
    scalarOf (e.setQ d x) = (scalarOf e).setQ d x.value := by
  simp only [scalarOf, Env.setQ, SEnv.setQ]
  congr 1
  funext j
  split <;> rfl
theorem scalarOf_setS (e : Env F) (d : Nat) (x : State F) : scalarOf (e.setS d x) = (scalarOf e).setS d x := rfl
theorem scalarOf_emit (e : Env F) (o : Obs) : scalarOf (e.emit o) = (scalarOf e).emit o := rfl

/-- instructions; `d` is always the destination register -/
inductive Instr (F : Type) where
  /-- `Quantity::new(v, Unit::new(mm, s))` -/
  | lit (d : Nat) (v : F) (mm s : Int)
  | add (d a b : Nat)
  | sub (d a b : Nat)
  | mul (d a b : Nat)
  | div (d a b : Nat)
  | neg (d a : Nat)
  | abs (d a : Nat)
  /-- `Quantity::from(Time(t))` -/
  | ofTime (d : Nat) (t : Int)
  /-- `Quantity::from(DimensionlessInteger(n))` -/
  | ofDimInt (d : Nat) (n : Int)
  /-- `Quantity::from(command)` -/
  | ofCommand (d : Nat) (c : Command F)
  /-- log `a.partial_cmp(&b)` (panics on a unit mismatch when checked) -/
  | cmp (a b : Nat)
  /-- log `a == b` -/
  | eq (a b : Nat)
  /-- log `Time::try_from(a)` -/
  | toTime (a : Nat)
  /-- log `DimensionlessInteger::try_from(a)` -/
  | toDimInt (a : Nat)
  /-- state register `d := State::new(p, v, a)` (three unit assertions) -/
  | stateNew (d p v a : Nat)
  /-- state register `d := State::new_raw(..)` -/
  | stateLit (d : Nat) (st : State F)
  /-- `state[d].set_constant_acceleration(q[a])`, logging whether it returned `Ok` -/
  | setAcc (d a : Nat)
  | setVel (d a : Nat)
  | setPos (d a : Nat)
  /-- `q[d] := state[sr].get_value(pd)` -/
  | getValue (d sr : Nat) (pd : PosDer)
  /-- `state[d].update(Time(dt))` through the `Quantity` operators -/
  | stateUpdate (d : Nat) (dt : Int)

/-- one instruction, with the model operators -/
def exec (chk : Bool) : Instr F → Env F → Except Panic (Env F)
  | .lit d v mm s, e => .ok (e.setQ d ⟨v, DUnit.new chk mm s⟩)
  | .add d a b, e =>
    match Quantity.add chk (e.q a) (e.q b) with
    | .ok r => .ok (e.setQ d r)
    | .error p => .error p
  | .sub d a b, e =>
    match Quantity.sub chk (e.q a) (e.q b) with
    | .ok r => .ok (e.setQ d r)
    | .error p => .error p
  | .mul d a b, e => .ok (e.setQ d (Quantity.mul chk (e.q a) (e.q b)))
  | .div d a b, e => .ok (e.setQ d (Quantity.div chk (e.q a) (e.q b)))
  | .neg d a, e => .ok (e.setQ d (Quantity.neg (e.q a)))
  | .abs d a, e => .ok (e.setQ d (Quantity.abs (e.q a)))
  | .ofTime d t, e => .ok (e.setQ d (Quantity.ofTime chk t))
  | .ofDimInt d n, e => .ok (e.setQ d (Quantity.ofDimInt chk n))
  | .ofCommand d c, e => .ok (e.setQ d (Command.toQuantity chk c))
  | .cmp a b, e =>
    match Quantity.partialCmp chk (e.q a) (e.q b) with
    | .ok o => .ok (e.emit (.ord o))
    | .error p => .error p
  | .eq a b, e => .ok (e.emit (.bool (Quantity.eq chk (e.q a) (e.q b))))
  | .toTime a, e => .ok (e.emit (.int (Time.tryOfQuantity chk (e.q a))))
  | .toDimInt a, e => .ok (e.emit (.int (DimInt.tryOfQuantity chk (e.q a))))
  | .stateNew d p v a, e =>
    match State.new chk (e.q p) (e.q v) (e.q a) with
    | .ok st => .ok (e.setS d st)
    | .error p => .error p
  | .stateLit d st, e => .ok (e.setS d st)
  | .setAcc d a, e =>
    .ok ((e.setS d (State.setConstantAcceleration chk (e.s d) (e.q a)).1).emit
      (.bool (State.setConstantAcceleration chk (e.s d) (e.q a)).2))
  | .setVel d a, e =>
    .ok ((e.setS d (State.setConstantVelocity chk (e.s d) (e.q a)).1).emit
      (.bool (State.setConstantVelocity chk (e.s d) (e.q a)).2))
  | .setPos d a, e =>
    .ok ((e.setS d (State.setConstantPosition chk (e.s d) (e.q a)).1).emit
      (.bool (State.setConstantPosition chk (e.s d) (e.q a)).2))
  | .getValue d sr pd, e => .ok (e.setQ d ((e.s sr).getValue chk pd))
  | .stateUpdate d dt, e =>
    match State.updateQ chk (e.s d) dt with
    | .ok st => .ok (e.setS d st)
    | .error p => .error p

/-- the plain scalar meaning of an instruction: no units anywhere, nothing can fail, nothing is rejected -/
def execScalar : Instr F → SEnv F → SEnv F
  | .lit d v _ _, e => e.setQ d v
  | .add d a b, e => e.setQ d (e.q a + e.q b)
  | .sub d a b, e => e.setQ d (e.q a - e.q b)
  | .mul d a b, e => e.setQ d (e.q a * e.q b)
  | .div d a b, e => e.setQ d (e.q a / e.q b)
  | .neg d a, e => e.setQ d (- e.q a)
  | .abs d a, e => e.setQ d (FloatLike.absF (e.q a))
  | .ofTime d t, e => e.setQ d ((FloatLike.ofInt t : F) / c1e9)
  | .ofDimInt d n, e => e.setQ d (FloatLike.ofInt n)
  | .ofCommand d c, e => e.setQ d c.raw
  | .cmp a b, e => e.emit (.ord (Quantity.cmpF (e.q a) (e.q b)))
  | .eq a b, e => e.emit (.bool (e.q a == e.q b))
  | .toTime a, e => e.emit (.int (some (FloatLike.toInt (e.q a * c1e9))))
  | .toDimInt a, e => e.emit (.int (some (FloatLike.toInt (e.q a))))
  | .stateNew d p v a, e => e.setS d ⟨e.q p, e.q v, e.q a⟩
  | .stateLit d st, e => e.setS d st
  | .setAcc d a, e => (e.setS d (State.setConstantAccelerationRaw (e.s d) (e.q a))).emit (.bool true)
  | .setVel d a, e => (e.setS d (State.setConstantVelocityRaw (e.s d) (e.q a))).emit (.bool true)
  | .setPos d a, e => (e.setS d (State.setConstantPositionRaw (e.s d) (e.q a))).emit (.bool true)
  | .getValue d sr pd, e =>
    e.setQ d (match pd with
      | .position => (e.s sr).position | .velocity => (e.s sr).velocity | .acceleration => (e.s sr).acceleration)
  | .stateUpdate d dt, e => e.setS d (State.update (e.s d) dt)

/-- a program: instructions in order, stopping at the first panic -/
def run (chk : Bool) : List (Instr F) → Env F → Except Panic (Env F)
  | [], e => .ok e
  | i :: is, e =>
    match exec chk i e with
    | .error p => .error p
    | .ok e' => run chk is e'

def runScalar : List (Instr F) → SEnv F → SEnv F
  | [], e => e
  | i :: is, e => runScalar is (execScalar i e)

/-- the non-panicking ways in which the checked build consults a unit: `==` (derived `PartialEq` compares the units
too), the two `try_from` conversions and the three setters (which answer `Err` on a unit mismatch).  An instruction is
*accepted* in an environment when, with checking compiled in, `==` compares quantities of equal unit, the conversion
succeeds, the setter returns `Ok`.  Every other instruction either panics on a mismatch or does not consult a unit. -/
def accepted : Instr F → Env F → Bool
  | .eq a b, e => decide ((e.q a).unit = (e.q b).unit)
  | .toTime a, e => (Time.tryOfQuantity true (e.q a)).isSome
  | .toDimInt a, e => (DimInt.tryOfQuantity true (e.q a)).isSome
  | .setAcc d a, e => (State.setConstantAcceleration true (e.s d) (e.q a)).2
  | .setVel d a, e => (State.setConstantVelocity true (e.s d) (e.q a)).2
  | .setPos d a, e => (State.setConstantPosition true (e.s d) (e.q a)).2
  | _, _ => true

/-- a dimensionally correct program: along its checked run every instruction is accepted (that the run does not panic
is the other half, `run true p e = .ok e'`) -/
def wellDim : List (Instr F) → Env F → Bool
  | [], _ => true
  | i :: is, e =>
    accepted i e && (match exec true i e with
      | .ok e' => wellDim is e'
      | .error _ => true)

/-- one instruction: checked run succeeded and the instruction was accepted ⇒ the unchecked run on the erased
environment yields the erased environment (same log, same states, same quantity values) -/
theorem exec_sim {i : Instr F} {e e' : Env F} (h : exec true i e = .ok e') (ha : accepted i e = true) :
    exec false i (eraseEnv e) = .ok (eraseEnv e') := by
  cases i with
  | lit d v mm s => cases h; rw [eraseEnv_setQ]; rfl
  | add d a b =>
    simp only [exec] at h
    split at h
    · rename_i r hr; cases h
      have := erase_add hr
      simp only [exec]
      rw [show (eraseEnv e).q a = eraseQ (e.q a) from rfl, show (eraseEnv e).q b = eraseQ (e.q b) from rfl, this,
        eraseEnv_setQ]
    · cases h
  | sub d a b =>
    simp only [exec] at h
    split at h
    · rename_i r hr; cases h
      have := erase_sub hr
      simp only [exec]
      rw [show (eraseEnv e).q a = eraseQ (e.q a) from rfl, show (eraseEnv e).q b = eraseQ (e.q b) from rfl, this,
        eraseEnv_setQ]
    · cases h
  | mul d a b => cases h; rw [eraseEnv_setQ]; rfl
  | div d a b => cases h; rw [eraseEnv_setQ]; rfl
  | neg d a => cases h; rw [eraseEnv_setQ]; rfl
  | abs d a => cases h; rw [eraseEnv_setQ]; rfl
  | ofTime d t => cases h; rw [eraseEnv_setQ]; rfl
  | ofDimInt d n => cases h; rw [eraseEnv_setQ]; rfl
  | ofCommand d c => cases h; rw [eraseEnv_setQ]; cases c <;> rfl
  | cmp a b =>
    simp only [exec] at h
    split at h
    · rename_i o ho; cases h
      have := erase_partialCmp ho
      simp only [exec]
      rw [show (eraseEnv e).q a = eraseQ (e.q a) from rfl, show (eraseEnv e).q b = eraseQ (e.q b) from rfl, this]
      rfl
    · cases h
  | eq a b =>
    cases h
    have hu : (e.q a).unit = (e.q b).unit := by simpa [accepted] using ha
    simp only [exec]
    rw [show (eraseEnv e).q a = eraseQ (e.q a) from rfl, show (eraseEnv e).q b = eraseQ (e.q b) from rfl, erase_eq hu]
    rfl
  | toTime a =>
    cases h
    simp only [accepted] at ha
    cases hn : Time.tryOfQuantity true (e.q a) with
    | none => simp [hn] at ha
    | some n =>
      have := erase_Time_tryOfQuantity hn
      simp only [exec]
      rw [show (eraseEnv e).q a = eraseQ (e.q a) from rfl, this]
      rfl
  | toDimInt a =>
    cases h
    simp only [accepted] at ha
    cases hn : DimInt.tryOfQuantity true (e.q a) with
    | none => simp [hn] at ha
    | some n =>
      have := erase_DimInt_tryOfQuantity hn
      simp only [exec]
      rw [show (eraseEnv e).q a = eraseQ (e.q a) from rfl, this]
      rfl
  | stateNew d p v a =>
    simp only [exec] at h
    split at h
    · rename_i st hst; cases h
      have := erase_state_new hst
      simp only [exec]
      rw [show (eraseEnv e).q p = eraseQ (e.q p) from rfl, show (eraseEnv e).q v = eraseQ (e.q v) from rfl,
        show (eraseEnv e).q a = eraseQ (e.q a) from rfl, this]
      rfl
    · cases h
  | stateLit d st => cases h; rfl
  | setAcc d a =>
    cases h
    have := erase_setConstantAcceleration (s := e.s d) (q := e.q a) (by simpa [accepted] using ha)
    simp only [exec]
    rw [show (eraseEnv e).q a = eraseQ (e.q a) from rfl, show (eraseEnv e).s d = e.s d from rfl, this]
    rfl
  | setVel d a =>
    cases h
    have := erase_setConstantVelocity (s := e.s d) (q := e.q a) (by simpa [accepted] using ha)
    simp only [exec]
    rw [show (eraseEnv e).q a = eraseQ (e.q a) from rfl, show (eraseEnv e).s d = e.s d from rfl, this]
    rfl
  | setPos d a =>
    cases h
    have := erase_setConstantPosition (s := e.s d) (q := e.q a) (by simpa [accepted] using ha)
    simp only [exec]
    rw [show (eraseEnv e).q a = eraseQ (e.q a) from rfl, show (eraseEnv e).s d = e.s d from rfl, this]
    rfl
  | getValue d sr pd => cases h; rw [eraseEnv_setQ]; cases pd <;> rfl
  | stateUpdate d dt => cases h; rfl

/-- one instruction, unchecked, in ANY environment (whatever units the registers carry): never fails, and is the plain
scalar instruction on the values -/
theorem exec_unchecked (i : Instr F) (e : Env F) :
    ∃ e', exec false i e = .ok e' ∧ scalarOf e' = execScalar i (scalarOf e) := by
  cases i with
  | lit d v mm s => exact ⟨_, rfl, scalarOf_setQ _ _ _⟩
  | add d a b => exact ⟨_, rfl, scalarOf_setQ _ _ _⟩
  | sub d a b => exact ⟨_, rfl, scalarOf_setQ _ _ _⟩
  | mul d a b => exact ⟨_, rfl, scalarOf_setQ _ _ _⟩
  | div d a b => exact ⟨_, rfl, scalarOf_setQ _ _ _⟩
  | neg d a => exact ⟨_, rfl, scalarOf_setQ _ _ _⟩
  | abs d a => exact ⟨_, rfl, scalarOf_setQ _ _ _⟩
  | ofTime d t => exact ⟨_, rfl, scalarOf_setQ _ _ _⟩
  | ofDimInt d n => exact ⟨_, rfl, scalarOf_setQ _ _ _⟩
  | ofCommand d c => refine ⟨_, rfl, ?_⟩; rw [scalarOf_setQ]; cases c <;> rfl
  | cmp a b => exact ⟨_, rfl, rfl⟩
  | eq a b => exact ⟨_, rfl, rfl⟩
  | toTime a => exact ⟨_, rfl, rfl⟩
  | toDimInt a => exact ⟨_, rfl, rfl⟩
  | stateNew d p v a => exact ⟨_, rfl, rfl⟩
  | stateLit d st => exact ⟨_, rfl, rfl⟩
  | setAcc d a => exact ⟨_, rfl, rfl⟩
  | setVel d a => exact ⟨_, rfl, rfl⟩
  | setPos d a => exact ⟨_, rfl, rfl⟩
  | getValue d sr pd => refine ⟨_, rfl, ?_⟩; rw [scalarOf_setQ]; cases pd <;> rfl
  | stateUpdate d dt => exact ⟨_, rfl, rfl⟩

theorem run_sim (p : List (Instr F)) : ∀ (e e' : Env F), run true p e = .ok e' → wellDim p e = true →
    run false p (eraseEnv e) = .ok (eraseEnv e') := by
  induction p with
  | nil => intro e e' h _; cases h; rfl
  | cons i is ih =>
    intro e e' h hw
    simp only [run] at h
    simp only [wellDim, Bool.and_eq_true] at hw
    cases h1 : exec true i e with
    | error p => simp [h1] at h
    | ok e1 =>
      simp only [h1] at h hw
      simp only [run, exec_sim h1 hw.1]
      exact ih e1 e' h hw.2

theorem run_unchecked (p : List (Instr F)) : ∀ e : Env F,
    ∃ e', run false p e = .ok e' ∧ scalarOf e' = runScalar p (scalarOf e) := by
  induction p with
  | nil => intro e; exact ⟨e, rfl, rfl⟩
  | cons i is ih =>
    intro e
    obtain ⟨e1, h1, hs1⟩ := exec_unchecked i e
    obtain ⟨e2, h2, hs2⟩ := ih e1
    exact ⟨e2, by simp only [run, h1, h2], by simp only [runScalar, ← hs1, hs2]⟩

/-- **F, extended.**  For every straight-line program over quantities, comparisons, `==`, the two `try_from`
conversions, `State::new`, the three setters, `State::get_value`, `State::update` and `Quantity::from(Command)`:

1. if it runs with dimension checking compiled in and is dimensionally correct (`wellDim`: every `==` compares equal
   units, every conversion and setter is accepted), it runs with checking compiled out on the erased registers and ends
   in the erased environment — equal quantity values, equal states, and the identical log of orderings, booleans and
   converted integers;
2. compiled out it never fails and nothing is rejected, whatever units the registers and literals carry, and the
   numbers it computes are those of the plain scalar program;
3. hence a dimensionally correct checked run also computes the plain scalar program.

Extends `erase_program_partial` (whose nine operations are the first nine instructions). -/
theorem erase_program_ext (p : List (Instr F)) (e : Env F) :
    (∀ e', run true p e = .ok e' → wellDim p e = true → run false p (eraseEnv e) = .ok (eraseEnv e')) ∧
    (∃ e'', run false p e = .ok e'' ∧ scalarOf e'' = runScalar p (scalarOf e)) ∧
    (∀ e', run true p e = .ok e' → wellDim p e = true → scalarOf e' = runScalar p (scalarOf e)) := by
  refine ⟨fun e' h hw => run_sim p e e' h hw, run_unchecked p e, fun e' h hw => ?_⟩
  have h1 := run_sim p e e' h hw
  obtain ⟨e'', h2, h3⟩ := run_unchecked p (eraseEnv e)
  rw [h1] at h2
  cases h2
  exact h3

end More

/-! ### non-vacuity and sharpness of `erase_program_ext` -/
namespace ProgExamples
/-- all registers zero -/
def env0 : Env Int := ⟨fun _ => ⟨0, ⟨0, 0⟩⟩, fun _ => ⟨0, 0, 0⟩, []⟩

/-- `(2 mm/s · 5 s + 3 mm)`, compared with `3 mm` by `<` and `==`; `5 s` and a dimensionless `7` converted to integers; a
state built from `13 mm`, `2 mm/s`, `4 mm/s²`; its velocity set to `2 mm/s`; the state advanced by 1 s; its position read
back and added to `3 mm`; a velocity command converted and compared with the `2 mm/s` register -/
def prog : List (Instr Int) :=
  [.lit 0 2 1 (-1), .lit 1 5 0 1, .mul 2 0 1, .lit 3 3 1 0, .add 4 2 3, .cmp 4 3, .eq 4 3, .toTime 1,
   .ofDimInt 5 7, .toDimInt 5, .lit 6 4 1 (-2), .stateNew 0 4 0 6, .setVel 0 0, .stateUpdate 0 1000000000,
   .getValue 7 0 .position, .add 8 7 3, .ofCommand 9 (.velocity 2), .eq 9 0, .neg 10 9, .abs 10 10, .sub 10 10 0,
   .setAcc 0 6, .setPos 0 3, .ofTime 11 5, .div 12 4 11]

example : wellDim prog env0 = true := by decide
example : ∃ e', run true prog env0 = .ok e' ∧
    e'.log = [.bool true, .bool true, .bool true, .bool true, .int (some 7), .int (some 5000000000), .bool false,
      .ord (some .gt)] ∧ (e'.q 4).value = 13 ∧ (e'.q 4).unit = ⟨1, 0⟩ ∧ (e'.q 12).unit = ⟨1, -1⟩ := ⟨_, rfl, by decide⟩

/-- sharpness of the three side conditions collected in `wellDim`: a checked program that does NOT panic but compares
quantities of different units with `==`, converts a non-time to `Time`, or sets a velocity from a position, behaves
differently in the two builds.  (These are the only unit consultations of the crate that reject instead of panicking;
the derived `PartialEq` answers `false` for `1 mm == 1 s`, the hand-written one answers `true`.) -/
example : (run true [.lit 0 1 1 0, .lit 1 1 0 1, .eq 0 1] env0).map (·.log) = .ok [.bool false] ∧
    (run false [.lit 0 1 1 0, .lit 1 1 0 1, .eq 0 1] env0).map (·.log) = .ok [.bool true] := by decide
example : (run true [.lit 0 1 1 0, .toTime 0] env0).map (·.log) = .ok [.int none] ∧
    (run false [.lit 0 1 1 0, .toTime 0] env0).map (·.log) = .ok [.int (some 1000000000)] := by decide
example : (run true [.lit 0 1 1 0, .setVel 0 0] env0).map (·.log) = .ok [.bool false] ∧
    (run false [.lit 0 1 1 0, .setVel 0 0] env0).map (·.log) = .ok [.bool true] := by decide
example : wellDim [.lit 0 1 1 0, .lit 1 1 0 1, .eq 0 1] env0 = false := by decide
/-- an ill-dimensioned program panics when checked and runs as plain arithmetic when unchecked -/
example : (run true [.lit 0 1 1 0, .lit 1 2 0 1, .add 2 0 1] env0).map (·.log) = .error .dim := by decide
example : (run false [.lit 0 1 1 0, .lit 1 2 0 1, .add 2 0 1] env0).map (fun e => (e.q 2).value) = .ok 3 := by decide
end ProgExamples
end Rrtk.Thm.C19
