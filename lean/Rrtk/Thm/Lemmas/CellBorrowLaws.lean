/-
C17, the dynamic borrow discipline of a `RefCell` (`CellBorrow` of `Rrtk/RefAlias.lean`) over whole PROGRAMS that keep
borrows alive: a program is a list of `takeShared` / `takeExclusive` / `releaseInnermost`; the runner keeps the stack of
outstanding borrows (`true` = exclusive) and stops at the first refused operation (a refused borrow is a panic).

Proved: the aliasing-XOR-mutability invariant in every reachable state, what a reachable state refuses / allows, and that
a program that releases everything it took ends in the initial borrow state.
-/
import Rrtk.RefAlias
set_option linter.unusedSectionVars false
set_option linter.unusedSimpArgs false
namespace Rrtk.Thm.C17
open Rrtk

/-! ## programs -/

/-- the operations of a program that keeps `RefCell` borrows alive -/
inductive BOp where
  | takeShared        -- `let g = r.borrow();`
  | takeExclusive     -- `let g = r.borrow_mut();`
  | releaseInnermost  -- `drop(g)` of the most recent guard still alive
  deriving DecidableEq, Repr

/-- borrow state of the cell and the stack of outstanding borrows (`true` = exclusive), innermost first -/
abbrev BState := CellBorrow × List Bool

/-- no borrow alive -/
def binit : BState := ({}, [])

/-- one operation; `none` = refused (a borrow that panics, or a release with nothing to release) -/
def bstep (s : BState) : BOp → Option BState
  | .takeShared =>
    match s.1.shared with
    | .ok b => some (b, false :: s.2)
    | .error _ => none
  | .takeExclusive =>
    match s.1.exclusive with
    | .ok b => some (b, true :: s.2)
    | .error _ => none
  | .releaseInnermost =>
    match s.2 with
    | [] => none
    | x :: st => some (s.1.release x, st)

/-- run a program; stops at the first refused operation.  Result: the state reached, and whether the whole program ran. -/
def brun (s : BState) : List BOp → BState × Bool
  | [] => (s, true)
  | op :: ops =>
    match bstep s op with
    | none => (s, false)
    | some s' => brun s' ops

/-- a state some program reaches from the initial state (a program stopped by a refusal reaches the state before it,
so these are exactly the states any run passes through) -/
def BReachable (s : BState) : Prop := ∃ ops, (brun binit ops).1 = s

/-- aliasing XOR mutability: `readers` counts the shared entries of the stack, `writer` says whether the stack has an
exclusive entry, and an exclusive entry is alone on the stack -/
def BInv (s : BState) : Prop :=
  s.1.readers = s.2.count false ∧ s.1.writer = s.2.contains true ∧ (true ∈ s.2 → s.2 = [true])

/-! ## helpers -/

theorem stack_empty_of_none (l : List Bool) (h0 : l.count false = 0) (ht : l.contains true = false) : l = [] := by
  cases l with
  | nil => rfl
  | cons x xs => cases x <;> simp at h0 ht

theorem binv_init : BInv binit := by
  refine ⟨rfl, rfl, ?_⟩
  intro h
  simp [binit] at h

theorem binv_step (s s' : BState) (op : BOp) (hs : BInv s) (h : bstep s op = some s') : BInv s' := by
  obtain ⟨⟨r, wr⟩, st⟩ := s
  obtain ⟨hr, hw, hx⟩ := hs
  simp only at hr hw hx
  cases op with
  | takeShared =>
    cases wr with
    | true => simp [bstep, CellBorrow.shared] at h
    | false =>
      simp only [bstep, CellBorrow.shared, Bool.false_eq_true, if_false, Option.some.injEq] at h
      subst h
      have hnt : true ∉ st := by
        intro hm
        have := hx hm
        subst this
        simp at hw
      refine ⟨?_, ?_, ?_⟩
      · simp [hr]
      · simpa using hnt
      · intro hm
        simp only [List.mem_cons] at hm
        rcases hm with hm | hm
        · cases hm
        · exact absurd hm hnt
  | takeExclusive =>
    cases wr with
    | true => simp [bstep, CellBorrow.exclusive] at h
    | false =>
      by_cases hr0 : r > 0
      · simp [bstep, CellBorrow.exclusive, hr0] at h
      · have hr0' : r = 0 := by omega
        subst hr0'
        have hst : st = [] := stack_empty_of_none st hr.symm hw.symm
        subst hst
        simp only [bstep, CellBorrow.exclusive] at h
        simp at h
        subst h
        exact ⟨rfl, rfl, fun _ => rfl⟩
  | releaseInnermost =>
    cases st with
    | nil => simp [bstep] at h
    | cons x st =>
      simp only [bstep, Option.some.injEq] at h
      subst h
      cases x with
      | true =>
        have hst := hx (by simp)
        simp only [List.cons.injEq, true_and] at hst
        subst hst
        simp at hr
        subst hr
        exact ⟨rfl, rfl, fun hm => by simp at hm⟩
      | false =>
        have hnt : true ∉ st := by
          intro hm
          have := hx (List.mem_cons_of_mem _ hm)
          simp at this
        refine ⟨?_, ?_, ?_⟩
        · simp [CellBorrow.release] at hr ⊢
          omega
        · have : wr = false := by simpa [hnt] using hw
          subst this
          simpa [CellBorrow.release] using hnt
        · intro hm
          exact absurd hm hnt

theorem binv_run (s : BState) (ops : List BOp) (hs : BInv s) : BInv (brun s ops).1 := by
  induction ops generalizing s with
  | nil => exact hs
  | cons op ops ih =>
    unfold brun
    cases h : bstep s op with
    | none => exact hs
    | some s' => exact ih s' (binv_step s s' op hs h)

/-! ## the theorems -/

/-- 1. In every state reachable from `({}, [])` the aliasing-XOR-mutability invariant holds: `readers` = number of shared
entries of the stack, `writer` = the stack contains an exclusive entry, and an exclusive entry is the ONLY entry of the
stack (at most one exclusive borrow, and then no shared ones). -/
theorem borrow_inv (s : BState) (hr : BReachable s) :
    s.1.readers = s.2.count false ∧ s.1.writer = s.2.contains true ∧ (true ∈ s.2 → s.2 = [true]) := by
  obtain ⟨ops, rfl⟩ := hr
  exact binv_run binit ops binv_init

example : BReachable ({ readers := 2 }, [false, false]) := ⟨[.takeShared, .takeShared], by decide⟩
example : BReachable ({ writer := true }, [true]) :=
  ⟨[.takeShared, .releaseInnermost, .takeExclusive, .takeShared], by decide⟩

/-- the counts exclude each other in a reachable state -/
theorem writer_xor_readers (s : BState) (hr : BReachable s) : ¬ (s.1.writer = true ∧ s.1.readers > 0) := by
  obtain ⟨h1, h2, h3⟩ := borrow_inv s hr
  rintro ⟨hw, hpos⟩
  rw [hw] at h2
  have hm : true ∈ s.2 := by simpa using h2.symm
  rw [h3 hm] at h1
  simp at h1
  omega

/-- 2. In a reachable state with an exclusive borrow alive everything is refused; with a shared borrow alive the
exclusive borrow and the write are refused while another shared borrow and a read succeed. -/
theorem exclusive_excludes (s : BState) (hr : BReachable s) :
    (s.1.writer = true →
      s.1.shared = .error .borrow ∧ s.1.exclusive = .error .borrow ∧ s.1.canRead = false ∧ s.1.canWrite = false) ∧
    (s.1.readers > 0 →
      s.1.exclusive = .error .borrow ∧ s.1.canWrite = false ∧
      s.1.shared = .ok { s.1 with readers := s.1.readers + 1 } ∧ s.1.canRead = true) := by
  have hx := writer_xor_readers s hr
  obtain ⟨⟨r, wr⟩, st⟩ := s
  simp only at hx ⊢
  constructor
  · intro hw
    subst hw
    simp [CellBorrow.shared, CellBorrow.exclusive, CellBorrow.canRead, CellBorrow.canWrite]
  · intro hpos
    cases wr with
    | true => exact absurd ⟨rfl, hpos⟩ hx
    | false =>
      have : ¬ r = 0 := by omega
      simp [CellBorrow.shared, CellBorrow.exclusive, CellBorrow.canRead, CellBorrow.canWrite, hpos, this]

/-- both antecedents occur -/
example : BReachable ({ writer := true }, [true]) ∧ ({ writer := true } : CellBorrow).writer = true :=
  ⟨⟨[.takeExclusive], by decide⟩, rfl⟩
example : BReachable ({ readers := 1 }, [false]) ∧ ({ readers := 1 } : CellBorrow).readers > 0 :=
  ⟨⟨[.takeShared], by decide⟩, by decide⟩

/-- 3. A program in which every borrow is released (the stack at the end is empty — whether the program ran to its end
or was stopped by a refusal at a moment when nothing was outstanding) ends in the initial borrow state `{}`. -/
theorem balanced_returns (ops : List BOp) (h : (brun binit ops).1.2 = []) : (brun binit ops).1.1 = {} := by
  obtain ⟨h1, h2, _⟩ := borrow_inv (brun binit ops).1 ⟨ops, rfl⟩
  rw [h] at h1 h2
  generalize (brun binit ops).1.1 = b at h1 h2
  obtain ⟨r, wr⟩ := b
  simp at h1 h2
  subst h1; subst h2
  rfl

/-- the same for a program that ran to its end -/
theorem balanced_returns_completed (ops : List BOp) (b : CellBorrow) (h : brun binit ops = ((b, []), true)) : b = {} := by
  have := balanced_returns ops (by rw [h])
  rw [h] at this
  exact this

example : brun binit [.takeShared, .takeShared, .releaseInnermost, .releaseInnermost, .takeExclusive, .releaseInnermost]
    = (({}, []), true) := by decide
/-- an unbalanced program does not return to `{}` -/
example : (brun binit [.takeShared, .takeShared, .releaseInnermost]).1 = ({ readers := 1 }, [false]) := by decide
/-- a refused borrow stops the program -/
example : brun binit [.takeShared, .takeExclusive, .releaseInnermost] = (({ readers := 1 }, [false]), false) := by decide

end Rrtk.Thm.C17
