/-
Tier R: exact arithmetic.  `F` is a linear ordered field and the four `FloatLike` operations are the exact ones
(`ofInt` the canonical cast, `absF` the absolute value).  Theorems in this tier say the crate's *formulas* are
right; they say nothing about binary32 rounding.  `Rat` is an instance, so the hypotheses are satisfiable.
-/
import Mathlib.Tactic.Ring
import Mathlib.Tactic.FieldSimp
import Mathlib.Tactic.Linarith
import Mathlib.Tactic.Positivity
import Mathlib.Algebra.Order.Field.Basic
import Mathlib.Algebra.Order.AbsoluteValue.Basic
import Rrtk.Core
namespace Rrtk

/-- the scalar operations are the exact field operations -/
class ExactScalar (F : Type) [Field F] [LinearOrder F] [IsStrictOrderedRing F] [FloatLike F] : Prop where
  ofInt_eq : ∀ n : Int, (FloatLike.ofInt n : F) = (n : F)
  absF_eq : ∀ x : F, FloatLike.absF x = |x|

section
variable {F : Type} [Field F] [LinearOrder F] [IsStrictOrderedRing F] [FloatLike F] [ExactScalar F]

@[simp] theorem c0_eq : (c0 : F) = 0 := by simp [c0, ExactScalar.ofInt_eq]
@[simp] theorem c1_eq : (c1 : F) = 1 := by simp [c1, ExactScalar.ofInt_eq]
@[simp] theorem c2_eq : (c2 : F) = 2 := by simp [c2, ExactScalar.ofInt_eq]
@[simp] theorem c3_eq : (c3 : F) = 3 := by simp [c3, ExactScalar.ofInt_eq]
@[simp] theorem cm1_eq : (cm1 : F) = -1 := by simp [cm1, ExactScalar.ofInt_eq]
@[simp] theorem c1e9_eq : (c1e9 : F) = 1000000000 := by simp [c1e9, ExactScalar.ofInt_eq]
@[simp] theorem chalf_eq : (chalf : F) = 1 / 2 := by simp [chalf, ExactScalar.ofInt_eq]
omit [FloatLike F] [ExactScalar F] in
theorem c1e9_pos : (0 : F) < 1000000000 := by norm_num
end

/-- non-vacuity: the rationals are an exact scalar -/
instance : FloatLike ℚ := ⟨fun n => (n : ℚ), fun q => q.num / q.den, fun _ _ => 1, fun x => |x|⟩
instance : ExactScalar ℚ := ⟨fun _ => rfl, fun _ => rfl⟩

end Rrtk
