/-
C15, order-irrelevance of the follower updates of `Rrtk/TermFollow.lean`.

The checking framework compares the real code with the model only up to the first erroring update, on the grounds that no
property fixes the ORDERS (command slot before state slot; owned terminals in declaration order).  Here: when no followed
getter errs, those orders do not matter — the result is the same world (full structural equality) and `.ok ()`.

Tier S: the scalar type is arbitrary, nothing here computes with it.
-/
import Rrtk.TermFollow
set_option linter.unusedSectionVars false
set_option linter.unusedSimpArgs false
namespace Rrtk.Thm.C15
open Rrtk

variable {F : Type}

/-! ## definitions -/

/-- the error a terminal update reports, if any (command getter asked first); `none` = neither followed getter errs.
(Same function as `followedErr` of `Rrtk/Thm/Ext/C15.lean`, repeated here so that this file needs the model only.) -/
def followedErr' (fo : Followed F) : Option Err :=
  match fo.command with
  | some (.error e) => some e
  | _ =>
    match fo.state with
    | some (.error e) => some e
    | _ => none

/-- the OTHER order of `impl Updatable for Terminal`: state slot, `?`, command slot, `?` -/
def terminalUpdateStateFirst (w : World F) (i : Nat) (fo : Followed F) : World F × UpdRet :=
  match w.followState i fo.state with
  | (w1, .error e) => (w1, .error e)
  | (w1, .ok _) => w1.followCommand i fo.command

/-- what a successful terminal update does to the terminal itself: each slot whose getter has a present value takes it -/
def followTerm (fo : Followed F) (x : Term F) : Term F :=
  { state := match fo.state with
      | some (.ok (some d)) => some d.value
      | _ => x.state
    command := match fo.command with
      | some (.ok (some d)) => some d.value
      | _ => x.command
    other := x.other }

/-- closed form of a successful terminal update -/
def applyFollowed (w : World F) (i : Nat) (fo : Followed F) : World F := w.setT i (followTerm fo (w.t i))

/-- closed form of a successful `update_terminals`: exactly the listed terminals are rewritten, each by its own getters -/
def followAll (w : World F) (fo : Nat → Followed F) (is : List Nat) : World F :=
  ⟨w.n, fun j => if j ∈ is then followTerm (fo j) (w.t j) else w.t j⟩

/-! ## helpers -/

theorem world_ext {w w' : World F} (hn : w.n = w'.n) (ht : ∀ k, w.t k = w'.t k) : w = w' := by
  cases w; cases w'
  simp only at hn ht
  subst hn
  congr 1
  exact funext ht

theorem followTerm_idem (fo : Followed F) (x : Term F) : followTerm fo (followTerm fo x) = followTerm fo x := by
  obtain ⟨fc, fs⟩ := fo
  rcases fc with _ | (e | _ | dc) <;> rcases fs with _ | (e' | _ | ds) <;> rfl

theorem followedErr'_none {fo : Followed F} (h : followedErr' fo = none) :
    (∀ e, fo.command ≠ some (.error e)) ∧ (∀ e, fo.state ≠ some (.error e)) := by
  unfold followedErr' at h
  constructor
  · intro e he
    simp [he] at h
  · intro e he
    rw [he] at h
    split at h <;> simp at h

/-- closed form of one terminal update (the model's order) when neither getter errs -/
theorem terminal_update_closed (w : World F) (i : Nat) (fo : Followed F) (h : followedErr' fo = none) :
    w.terminalUpdate i fo = (applyFollowed w i fo, .ok ()) := by
  obtain ⟨hc, hs⟩ := followedErr'_none h
  obtain ⟨fc, fs⟩ := fo
  simp only at hc hs
  have key : ∀ (a b : World F), a = b → ((a, Except.ok ()) : World F × UpdRet) = (b, .ok ()) := by
    intro a b hab; rw [hab]
  rcases fc with _ | (e | _ | dc)
  · rcases fs with _ | (e | _ | ds)
    · exact key _ _ (world_ext rfl (fun k => by
        simp only [applyFollowed, World.setT, followTerm]; split <;> simp_all))
    · exact absurd rfl (hs e)
    · exact key _ _ (world_ext rfl (fun k => by
        simp only [applyFollowed, World.setT, followTerm]; split <;> simp_all))
    · exact key _ _ (world_ext rfl (fun k => by
        simp only [applyFollowed, World.setT, followTerm, World.setState]))
  · exact absurd rfl (hc e)
  · rcases fs with _ | (e | _ | ds)
    · exact key _ _ (world_ext rfl (fun k => by
        simp only [applyFollowed, World.setT, followTerm]; split <;> simp_all))
    · exact absurd rfl (hs e)
    · exact key _ _ (world_ext rfl (fun k => by
        simp only [applyFollowed, World.setT, followTerm]; split <;> simp_all))
    · exact key _ _ (world_ext rfl (fun k => by
        simp only [applyFollowed, World.setT, followTerm, World.setState]))
  · rcases fs with _ | (e | _ | ds)
    · exact key _ _ (world_ext rfl (fun k => by
        simp only [applyFollowed, World.setT, followTerm, World.setCommand]))
    · exact absurd rfl (hs e)
    · exact key _ _ (world_ext rfl (fun k => by
        simp only [applyFollowed, World.setT, followTerm, World.setCommand]))
    · exact key _ _ (world_ext rfl (fun k => by
        simp only [applyFollowed, World.setT, followTerm, World.setCommand, World.setState]
        split <;> simp_all))

/-- closed form of one terminal update in the OTHER order when neither getter errs -/
theorem terminal_update_state_first_closed (w : World F) (i : Nat) (fo : Followed F) (h : followedErr' fo = none) :
    terminalUpdateStateFirst w i fo = (applyFollowed w i fo, .ok ()) := by
  obtain ⟨hc, hs⟩ := followedErr'_none h
  obtain ⟨fc, fs⟩ := fo
  simp only at hc hs
  have key : ∀ (a b : World F), a = b → ((a, Except.ok ()) : World F × UpdRet) = (b, .ok ()) := by
    intro a b hab; rw [hab]
  rcases fc with _ | (e | _ | dc)
  · rcases fs with _ | (e | _ | ds)
    · exact key _ _ (world_ext rfl (fun k => by
        simp only [applyFollowed, World.setT, followTerm]; split <;> simp_all))
    · exact absurd rfl (hs e)
    · exact key _ _ (world_ext rfl (fun k => by
        simp only [applyFollowed, World.setT, followTerm]; split <;> simp_all))
    · exact key _ _ (world_ext rfl (fun k => by
        simp only [applyFollowed, World.setT, followTerm, World.setState]))
  · exact absurd rfl (hc e)
  · rcases fs with _ | (e | _ | ds)
    · exact key _ _ (world_ext rfl (fun k => by
        simp only [applyFollowed, World.setT, followTerm]; split <;> simp_all))
    · exact absurd rfl (hs e)
    · exact key _ _ (world_ext rfl (fun k => by
        simp only [applyFollowed, World.setT, followTerm]; split <;> simp_all))
    · exact key _ _ (world_ext rfl (fun k => by
        simp only [applyFollowed, World.setT, followTerm, World.setState]))
  · rcases fs with _ | (e | _ | ds)
    · exact key _ _ (world_ext rfl (fun k => by
        simp only [applyFollowed, World.setT, followTerm, World.setCommand]))
    · exact absurd rfl (hs e)
    · exact key _ _ (world_ext rfl (fun k => by
        simp only [applyFollowed, World.setT, followTerm, World.setCommand]))
    · exact key _ _ (world_ext rfl (fun k => by
        simp only [applyFollowed, World.setT, followTerm, World.setCommand, World.setState]
        split <;> simp_all))

theorem followAll_cons (w : World F) (fo : Nat → Followed F) (i : Nat) (is : List Nat) :
    followAll (applyFollowed w i (fo i)) fo is = followAll w fo (i :: is) := by
  refine world_ext (by rfl) ?_
  intro k
  simp only [followAll, applyFollowed, World.setT, List.mem_cons]
  by_cases hki : k = i
  · subst hki
    by_cases hk : k ∈ is
    · simp [hk, followTerm_idem]
    · simp [hk]
  · by_cases hk : k ∈ is
    · simp [hk, hki]
    · simp [hk, hki]

/-- closed form of `update_terminals` when no listed terminal has an erring getter -/
theorem update_terminals_closed (w : World F) (fo : Nat → Followed F) (is : List Nat)
    (h : ∀ i ∈ is, followedErr' (fo i) = none) :
    w.updateTerminals fo is = (followAll w fo is, .ok ()) := by
  induction is generalizing w with
  | nil =>
    have : followAll w fo [] = w := world_ext rfl (fun k => by simp [followAll])
    rw [this]; rfl
  | cons i is ih =>
    have hi := terminal_update_closed w i (fo i) (h i (List.mem_cons_self))
    have hrest := ih (applyFollowed w i (fo i)) (fun j hj => h j (List.mem_cons_of_mem _ hj))
    unfold World.updateTerminals
    rw [hi]
    simp only
    rw [hrest, followAll_cons]

/-! ## the theorems -/

/-- 1. Setting the state slot of terminal `i` and the command slot of terminal `j` commute — also for `i = j`
(full equality of worlds). -/
theorem set_state_command_comm (w : World F) (i j : Nat) (d : Datum (State F)) (c : Datum (Command F)) :
    (w.setState i d).setCommand j c = (w.setCommand j c).setState i d := by
  refine world_ext (by rfl) ?_
  intro k
  simp only [World.setState, World.setCommand, World.setT]
  by_cases hij : i = j
  · subst hij
    by_cases hk : k = i <;> simp [hk]
  · have hji : ¬ j = i := fun h => hij h.symm
    by_cases hki : k = i
    · subst hki; simp [hij, hji]
    · by_cases hkj : k = j
      · subst hkj; simp [hij, hji]
      · simp [hki, hkj, hij, hji]

/-- 2. When neither followed getter errs, the two slot orders of a terminal update give `.ok ()` and the SAME world. -/
theorem terminal_update_order_irrelevant (w : World F) (i : Nat) (fo : Followed F) (h : followedErr' fo = none) :
    (w.terminalUpdate i fo).2 = .ok () ∧ (terminalUpdateStateFirst w i fo).2 = .ok () ∧
    (w.terminalUpdate i fo).1 = (terminalUpdateStateFirst w i fo).1 := by
  rw [terminal_update_closed w i fo h, terminal_update_state_first_closed w i fo h]
  exact ⟨rfl, rfl, rfl⟩

example : followedErr' (⟨some (.ok (some ⟨3, ⟨5, .position 1⟩⟩)), some (.ok none)⟩ : Followed Int) = none := rfl
example : followedErr' (⟨some (.ok (some ⟨3, ⟨5, .velocity 2⟩⟩)), some (.ok (some ⟨4, ⟨6, ⟨1, 2, 3⟩⟩⟩))⟩ : Followed Int) = none := rfl
/-- the hypothesis is needed: with an erring state getter the two orders differ (the command is forwarded or not) -/
example :
    (((World.empty : World Int).terminalUpdate 0 ⟨some (.ok (some ⟨3, ⟨5, .position 1⟩⟩)), some (.error .fromNone)⟩).1.t 0).command.isSome = true
    ∧ ((terminalUpdateStateFirst (World.empty : World Int) 0 ⟨some (.ok (some ⟨3, ⟨5, .position 1⟩⟩)), some (.error .fromNone)⟩).1.t 0).command.isSome = false :=
  ⟨rfl, rfl⟩

/-- Updates of two terminals commute when no getter errs (each rewrites only its own terminal's slots); for `i = j` the
two `Followed` must be the same (then the update is idempotent) — which is the case in `updateTerminals`, where the
`Followed` is a function of the terminal index. -/
theorem terminal_update_comm (w : World F) (i j : Nat) (fi fj : Followed F)
    (hi : followedErr' fi = none) (hj : followedErr' fj = none) (hsame : i = j → fi = fj) :
    ((w.terminalUpdate i fi).1.terminalUpdate j fj).2 = .ok () ∧
    ((w.terminalUpdate j fj).1.terminalUpdate i fi).2 = .ok () ∧
    ((w.terminalUpdate i fi).1.terminalUpdate j fj).1 = ((w.terminalUpdate j fj).1.terminalUpdate i fi).1 := by
  rw [terminal_update_closed w i fi hi, terminal_update_closed w j fj hj]
  simp only
  rw [terminal_update_closed _ j fj hj, terminal_update_closed _ i fi hi]
  refine ⟨rfl, rfl, ?_⟩
  simp only
  by_cases hij : i = j
  · have := hsame hij
    subst hij; subst this; rfl
  · have hji : ¬ j = i := fun h => hij h.symm
    refine world_ext (by rfl) ?_
    intro k
    simp only [applyFollowed, World.setT]
    by_cases hki : k = i
    · subst hki; simp [hij, hji]
    · by_cases hkj : k = j
      · subst hkj; simp [hij, hji]
      · simp [hki, hkj, hij, hji]

example : (0 : Nat) = 1 → (⟨some (.ok (some ⟨3, ⟨5, .position 1⟩⟩)), none⟩ : Followed Int) = ⟨none, none⟩ :=
  fun h => absurd h (by decide)

/-- a terminal update whose getters do not err is idempotent -/
theorem terminal_update_idem (w : World F) (i : Nat) (fo : Followed F) (h : followedErr' fo = none) :
    (w.terminalUpdate i fo).1.terminalUpdate i fo = w.terminalUpdate i fo := by
  rw [terminal_update_closed w i fo h]
  simp only
  rw [terminal_update_closed _ i fo h]
  have : applyFollowed (applyFollowed w i fo) i fo = applyFollowed w i fo := by
    refine world_ext (by rfl) ?_
    intro k
    simp only [applyFollowed, World.setT]
    by_cases hk : k = i <;> simp [hk, followTerm_idem]
  rw [this]

/-- 3. `update_terminals` over a permutation of the terminal list (duplicates allowed): when no listed terminal has an
erring followed getter, both return `.ok ()` and the SAME world (full structural equality, hence same `n` and same `t`
pointwise). -/
theorem update_terminals_perm (w : World F) (fo : Nat → Followed F) (is is' : List Nat)
    (h : ∀ i ∈ is, followedErr' (fo i) = none) (hp : is'.Perm is) :
    (w.updateTerminals fo is').2 = .ok () ∧ (w.updateTerminals fo is).2 = .ok () ∧
    (w.updateTerminals fo is').1 = (w.updateTerminals fo is).1 := by
  have h' : ∀ i ∈ is', followedErr' (fo i) = none := fun i hi => h i (hp.mem_iff.mp hi)
  rw [update_terminals_closed w fo is h, update_terminals_closed w fo is' h']
  refine ⟨rfl, rfl, ?_⟩
  refine world_ext (by rfl) ?_
  intro k
  simp only [followAll, hp.mem_iff]

/-- the pointwise reading of `update_terminals_perm` -/
theorem update_terminals_perm_pointwise (w : World F) (fo : Nat → Followed F) (is is' : List Nat)
    (h : ∀ i ∈ is, followedErr' (fo i) = none) (hp : is'.Perm is) :
    (w.updateTerminals fo is').1.n = (w.updateTerminals fo is).1.n ∧
    ∀ k, (w.updateTerminals fo is').1.t k = (w.updateTerminals fo is).1.t k := by
  rw [(update_terminals_perm w fo is is' h hp).2.2]
  exact ⟨rfl, fun _ => rfl⟩

/-- which terminals a successful `update_terminals` touches, and how: exactly the listed ones, each by its own getters,
whatever the order and multiplicity in the list -/
theorem update_terminals_result (w : World F) (fo : Nat → Followed F) (is : List Nat)
    (h : ∀ i ∈ is, followedErr' (fo i) = none) (k : Nat) :
    (w.updateTerminals fo is).1.n = w.n ∧
    (w.updateTerminals fo is).1.t k = if k ∈ is then followTerm (fo k) (w.t k) else w.t k := by
  rw [update_terminals_closed w fo is h]
  exact ⟨rfl, rfl⟩

/-- a scripted assignment of getters used by the examples: terminal 0 follows a command getter with a present value,
terminal 1 a state getter with a present value, the others nothing -/
def exFo : Nat → Followed Int
  | 0 => ⟨some (.ok (some ⟨3, ⟨5, .position 1⟩⟩)), some (.ok none)⟩
  | 1 => ⟨none, some (.ok (some ⟨4, ⟨6, ⟨1, 2, 3⟩⟩⟩))⟩
  | _ => Followed.nothing

example : (∀ i ∈ [0, 1, 1], followedErr' (exFo i) = none) ∧ [1, 0, 1].Perm [0, 1, 1] :=
  ⟨by intro i hi; simp only [List.mem_cons, List.not_mem_nil, or_false] at hi; rcases hi with rfl | rfl | rfl <;> rfl,
   List.Perm.swap 0 1 [1]⟩
/-- … and the updates do something in that instance -/
example : ((((World.empty : World Int).addTerms 2).updateTerminals exFo [1, 0, 1]).1.t 0).command.isSome = true := rfl

/-- 4. the corollary for a device `update()` with followers: the order of the owned terminals is irrelevant when no
followed getter errs. -/
theorem update_with_followers_perm (upd : World F → World F) (w : World F) (fo : Nat → Followed F) (is is' : List Nat)
    (h : ∀ i ∈ is, followedErr' (fo i) = none) (hp : is'.Perm is) :
    (updateWithFollowers upd is' w fo).2 = .ok () ∧ (updateWithFollowers upd is w fo).2 = .ok () ∧
    (updateWithFollowers upd is' w fo).1 = (updateWithFollowers upd is w fo).1 := by
  have h' : ∀ i ∈ is', followedErr' (fo i) = none := fun i hi => h i (hp.mem_iff.mp hi)
  have e := (update_terminals_perm w fo is is' h hp).2.2
  rw [update_terminals_closed w fo is h, update_terminals_closed w fo is' h'] at e
  simp only at e
  unfold updateWithFollowers
  rw [update_terminals_closed w fo is h, update_terminals_closed w fo is' h']
  exact ⟨rfl, rfl, congrArg upd e⟩

example : (∀ i ∈ [0, 1], followedErr' (exFo i) = none) ∧ [1, 0].Perm [0, 1] :=
  ⟨by intro i hi; simp only [List.mem_cons, List.not_mem_nil, or_false] at hi; rcases hi with rfl | rfl <;> rfl,
   List.Perm.swap 0 1 []⟩

end Rrtk.Thm.C15
