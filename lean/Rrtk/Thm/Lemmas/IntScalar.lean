/- A toy scalar instance on `Int`, used only by non-vacuity `example`s (so that they reduce by `rfl`/`decide`). -/
import Rrtk.Scalar
namespace Rrtk
instance : FloatLike Int := ⟨id, id, fun a _ => a, fun x => if x < 0 then -x else x⟩
end Rrtk
