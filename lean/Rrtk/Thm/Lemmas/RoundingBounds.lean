/-
Quantitative "up to rounding": generic error lemmas for the binary32 scalar type `SF`
(`Rrtk/Thm/Lemmas/SoftScalar.lean`: finite binary32 numbers, `+ − * /` = exact rational result then `rne32`).

  `u = 2^-24` (unit roundoff)            `η = 2^-150` (half the smallest subnormal)

* `rne32_err`  : `|rne32 x − x| ≤ u·|x| + η` for EVERY rational `x` (no range condition);
* `add_err`, `sub_err` : `|(a ⊕ b) − (a ± b)| ≤ u·|a ± b|` with NO `η` and NO range condition — a sum of two binary32 numbers
  that is below `2^-126` in magnitude is a multiple of `2^-149` with a significand below `2^23`, hence representable, hence
  computed exactly (`add_exact_of_small`);
* `mul_err`, `div_err` : `≤ u·|exact| + η`;
* the monotone sandwich `rne32_between`: rounding never leaves an interval whose end points are binary32 numbers;
  `add_between`, `mul_between`, … are its instances for the operations of `SF`;
* `foldl_add_err` : the classic forward error bound for a left fold of rounded additions,
  `|fl(a + t₁ + … + tₙ) − (a + Σ tᵢ)| ≤ ((1+u)^n − 1)·(|a| + Σ |tᵢ|)`; `pow_sub_one_le`: `(1+u)^k − 1 ≤ 2·k·u` while `k·u ≤ 1/2`;
* composition of relative errors (`relerr_mul`, `relerr_round`, `relerr_round_add`) and the conversion nanoseconds → seconds
  `n as f32 / 1e9` (`ofInt_div_e9_err`: relative `(1+u)^2 − 1`, every integer `n`);
* the grid: `rne32_half_ulp` (error at most half the local spacing), `rep_grid` (a binary32 number `≥ 2^k` in magnitude is a
  multiple of `2^(k−23)`), `rep_one_sub` (`1.0 − L` is exact for `L ∈ [0.5, 1]`), and `rne32_near_same/above/below/below_min`:
  rounding a number within `5/4` ulp (`3/2` in the same or the higher binade) of a binary32 number `c` gives `c` or one of its two
  neighbours.

Everything is proved from the definition of `rne32` (via `Rrtk/Thm/Lemmas/SoftFloat.lean`); no hypothesis about floating
point is left.
-/
import Rrtk.Thm.Lemmas.SoftScalar
import Mathlib.Tactic.Ring
import Mathlib.Tactic.Linarith
import Mathlib.Tactic.Positivity
import Mathlib.Tactic.NormNum
import Mathlib.Tactic.FieldSimp
import Mathlib.Algebra.Order.Field.Basic
import Mathlib.Algebra.Order.Field.Power
set_option linter.unusedSectionVars false
set_option linter.unusedSimpArgs false
namespace Rrtk.Thm.RoundingBounds
open Rrtk Rrtk.Soft Rrtk.Thm.SoftFloat Rrtk.Thm.SoftScalar

/-- unit roundoff of binary32, `2^-24` -/
def u : ℚ := 1 / 2 ^ 24
/-- half the smallest positive subnormal of binary32, `2^-150`: the absolute rounding error below `2^-126` -/
def η : ℚ := 1 / 2 ^ 150

theorem u_pos : 0 < u := by unfold u; positivity
theorem u_nonneg : 0 ≤ u := u_pos.le
theorem η_pos : 0 < η := by unfold η; positivity
theorem η_nonneg : 0 ≤ η := η_pos.le
theorem u_le_one : u ≤ 1 := by unfold u; norm_num
theorem u_eq_zpow : u = (2:ℚ) ^ (-24:ℤ) := by unfold u; norm_num
theorem η_eq_zpow : η = (2:ℚ) ^ (-150:ℤ) := by unfold η; norm_num
theorem u_small : u ≤ 1 / 16777216 := by unfold u; norm_num
/-- `η = u · 2^-126` -/
theorem η_eq_u_mul : η = u * (2:ℚ) ^ (-126:ℤ) := by
  rw [u_eq_zpow, η_eq_zpow, ← zpow_add₀ (by norm_num)]; norm_num

theorem one_add_u_pos : 0 < 1 + u := by linarith [u_pos]
theorem one_le_one_add_u : 1 ≤ 1 + u := by linarith [u_pos]
theorem one_le_pow (n : ℕ) : 1 ≤ (1 + u) ^ n := one_le_pow₀ one_le_one_add_u
theorem pow_sub_one_nonneg (n : ℕ) : 0 ≤ (1 + u) ^ n - 1 := by linarith [one_le_pow n]
theorem pow_mono {m n : ℕ} (h : m ≤ n) : (1 + u) ^ m ≤ (1 + u) ^ n := pow_le_pow_right₀ one_le_one_add_u h

/-- `(1+u)^k·(1 − k·u) ≤ 1` -/
theorem pow_mul_le_one (k : ℕ) : (1 + u) ^ k * (1 - k * u) ≤ 1 := by
  induction k with
  | zero => simp
  | succ k ih =>
    have hP : 0 ≤ (1 + u) ^ k := by have := one_le_pow k; linarith
    have hu := u_nonneg
    have h1 : (1 + u) * (1 - ((k + 1 : ℕ) : ℚ) * u) ≤ 1 - k * u := by
      push_cast; nlinarith [mul_nonneg hu hu, mul_nonneg (Nat.cast_nonneg (α := ℚ) k) (mul_nonneg hu hu)]
    have := mul_le_mul_of_nonneg_left h1 hP
    rw [pow_succ]
    calc (1 + u) ^ k * (1 + u) * (1 - ((k + 1 : ℕ) : ℚ) * u)
        = (1 + u) ^ k * ((1 + u) * (1 - ((k + 1 : ℕ) : ℚ) * u)) := by ring
      _ ≤ (1 + u) ^ k * (1 - k * u) := this
      _ ≤ 1 := ih

/-- readable form of the accumulated factor: as long as `k·u ≤ 1/2` (i.e. `k ≤ 2^23`), `(1+u)^k ≤ 2` and
`(1+u)^k − 1 ≤ 2·k·u` -/
theorem pow_sub_one_le (k : ℕ) (h : (k:ℚ) * u ≤ 1 / 2) : (1 + u) ^ k ≤ 2 ∧ (1 + u) ^ k - 1 ≤ 2 * k * u := by
  have h1 := pow_mul_le_one k
  have hP : 0 ≤ (1 + u) ^ k := by have := one_le_pow k; linarith
  have h2 : (1 + u) ^ k * (1 / 2) ≤ (1 + u) ^ k * (1 - k * u) :=
    mul_le_mul_of_nonneg_left (by linarith) hP
  have hP2 : (1 + u) ^ k ≤ 2 := by linarith
  refine ⟨hP2, ?_⟩
  have hku : 0 ≤ (k:ℚ) * u := mul_nonneg (Nat.cast_nonneg k) u_nonneg
  have h3 : (1 + u) ^ k * (k * u) ≤ 2 * (k * u) := mul_le_mul_of_nonneg_right hP2 hku
  nlinarith

/-! ### one rounding -/

/-- the error of ONE rounding, every rational: relative `u` plus absolute `η` -/
theorem rne32_err (x : ℚ) : |rne32 x - x| ≤ u * |x| + η := by
  by_cases h : (2:ℚ) ^ (-126:ℤ) ≤ |x|
  · have := rne32_rel x h
    have e : |x| / 2 ^ 24 = u * |x| := by unfold u; ring
    rw [e] at this
    linarith [η_pos]
  · have := rne32_abs_subnormal x (not_le.1 h)
    rw [← η_eq_zpow] at this
    have : 0 ≤ u * |x| := mul_nonneg u_nonneg (abs_nonneg _)
    linarith

theorem rne32_one : rne32 1 = 1 := by
  have h := (c1 : SF).rep
  unfold Rep at h; rwa [c1_val] at h

/-- in the normal range the error is purely relative -/
theorem rne32_err_normal (x : ℚ) (h : (2:ℚ) ^ (-126:ℤ) ≤ |x|) : |rne32 x - x| ≤ u * |x| := by
  have := rne32_rel x h
  have e : |x| / 2 ^ 24 = u * |x| := by unfold u; ring
  rwa [e] at this

/-- a representable value is fixed -/
theorem rne32_err_rep (x : ℚ) (h : Rep x) : |rne32 x - x| = 0 := by
  rw [h]; simp

/-- magnitude after one rounding -/
theorem abs_rne32_le (x : ℚ) : |rne32 x| ≤ (1 + u) * |x| + η := by
  have h := rne32_err x
  have : |rne32 x| ≤ |rne32 x - x| + |x| := by
    have := abs_add_le (rne32 x - x) x
    rwa [sub_add_cancel] at this
  linarith

/-- **monotone** (restated from `rne32_mono`) -/
theorem rne32_le_rne32 {x y : ℚ} (h : x ≤ y) : rne32 x ≤ rne32 y := rne32_mono x y h

/-- **the sandwich**: rounding never leaves an interval whose end points are binary32 numbers -/
theorem rne32_between (lo hi : SF) (x : ℚ) (h1 : lo.val ≤ x) (h2 : x ≤ hi.val) :
    lo.val ≤ rne32 x ∧ rne32 x ≤ hi.val := by
  constructor
  · calc lo.val = rne32 lo.val := lo.rep.symm
      _ ≤ rne32 x := rne32_mono _ _ h1
  · calc rne32 x ≤ rne32 hi.val := rne32_mono _ _ h2
      _ = hi.val := hi.rep

theorem rne32_ge_of_rep (lo : SF) (x : ℚ) (h : lo.val ≤ x) : lo.val ≤ rne32 x := by
  calc lo.val = rne32 lo.val := lo.rep.symm
    _ ≤ rne32 x := rne32_mono _ _ h

theorem rne32_le_of_rep (hi : SF) (x : ℚ) (h : x ≤ hi.val) : rne32 x ≤ hi.val := by
  calc rne32 x ≤ rne32 hi.val := rne32_mono _ _ h
    _ = hi.val := hi.rep

/-- the sandwich for each operation of `SF` -/
theorem add_between (lo hi a b : SF) (h1 : lo.val ≤ a.val + b.val) (h2 : a.val + b.val ≤ hi.val) :
    lo ≤ a + b ∧ a + b ≤ hi := rne32_between lo hi _ h1 h2
theorem sub_between (lo hi a b : SF) (h1 : lo.val ≤ a.val - b.val) (h2 : a.val - b.val ≤ hi.val) :
    lo ≤ a - b ∧ a - b ≤ hi := rne32_between lo hi _ h1 h2
theorem mul_between (lo hi a b : SF) (h1 : lo.val ≤ a.val * b.val) (h2 : a.val * b.val ≤ hi.val) :
    lo ≤ a * b ∧ a * b ≤ hi := rne32_between lo hi _ h1 h2
theorem div_between (lo hi a b : SF) (h1 : lo.val ≤ a.val / b.val) (h2 : a.val / b.val ≤ hi.val) :
    lo ≤ a / b ∧ a / b ≤ hi := rne32_between lo hi _ h1 h2

/-! ### sums of binary32 numbers below `2^-126` are exact -/

/-- every binary32 number is an integer multiple of `2^-149` -/
theorem rep_multiple {x : ℚ} (h : Rep x) : ∃ k : ℤ, x = k * (2:ℚ) ^ (-149:ℤ) := by
  obtain ⟨m, e, _, he, rfl⟩ := (rep_iff x).1 h
  refine ⟨m * ((2 ^ (e - (-149)).toNat : ℕ) : ℤ), ?_⟩
  rw [zpow_split e (-149) he]; push_cast; ring

/-- an integer multiple of `2^-149` below `2^-126` in magnitude is a binary32 number (a subnormal or zero) -/
theorem rep_of_multiple_small (k : ℤ) (h : |(k:ℚ) * (2:ℚ) ^ (-149:ℤ)| < (2:ℚ) ^ (-126:ℤ)) :
    Rep ((k:ℚ) * (2:ℚ) ^ (-149:ℤ)) := by
  apply rep_of_representable k (-149) _ (by norm_num)
  have hp : (0:ℚ) < (2:ℚ) ^ (-149:ℤ) := by positivity
  rw [abs_mul, abs_of_pos hp] at h
  have e : (2:ℚ) ^ (-126:ℤ) = 8388608 * (2:ℚ) ^ (-149:ℤ) := by
    have : (2:ℚ) ^ (-126:ℤ) = 2 ^ (23:ℤ) * 2 ^ (-149:ℤ) := by
      rw [← zpow_add₀ (by norm_num)]; norm_num
    rw [this, two_pow_23]
  rw [e] at h
  have h' : |(k:ℚ)| < 8388608 := lt_of_mul_lt_mul_right h hp.le
  have h'' : |k| < 8388608 := by exact_mod_cast h'
  have : (2:ℤ) ^ 24 = 16777216 := by norm_num
  omega

/-- a sum of two binary32 numbers that is below `2^-126` in magnitude is itself a binary32 number -/
theorem rep_add_of_small {x y : ℚ} (hx : Rep x) (hy : Rep y) (h : |x + y| < (2:ℚ) ^ (-126:ℤ)) : Rep (x + y) := by
  obtain ⟨k, rfl⟩ := rep_multiple hx
  obtain ⟨l, rfl⟩ := rep_multiple hy
  have e : (k:ℚ) * (2:ℚ) ^ (-149:ℤ) + l * (2:ℚ) ^ (-149:ℤ) = ((k + l : ℤ) : ℚ) * (2:ℚ) ^ (-149:ℤ) := by
    push_cast; ring
  rw [e] at h ⊢
  exact rep_of_multiple_small _ h

/-- hence such an addition is EXACT in binary32 (no underflow error in `+`) -/
theorem add_exact_of_small (a b : SF) (h : |a.val + b.val| < (2:ℚ) ^ (-126:ℤ)) :
    (a + b).val = a.val + b.val := by
  rw [add_val]; exact rep_add_of_small a.rep b.rep h

/-! ### the four operations -/

/-- **addition**: relative error `u`, no absolute term, no range condition -/
theorem add_err (a b : SF) : |(a + b).val - (a.val + b.val)| ≤ u * |a.val + b.val| := by
  by_cases h : (2:ℚ) ^ (-126:ℤ) ≤ |a.val + b.val|
  · rw [add_val]; exact rne32_err_normal _ h
  · rw [add_exact_of_small a b (not_le.1 h)]
    simp only [sub_self, abs_zero]
    exact mul_nonneg u_nonneg (abs_nonneg _)

/-- **subtraction**: the same -/
theorem sub_err (a b : SF) : |(a - b).val - (a.val - b.val)| ≤ u * |a.val - b.val| := by
  have h := add_err a (-b)
  have e : (a + -b).val = (a - b).val := by rw [← sub_eq_add_neg']
  rw [e, neg_val, ← sub_eq_add_neg] at h
  exact h

/-- **multiplication**: relative `u` plus absolute `η` (a product can fall between subnormals) -/
theorem mul_err (a b : SF) : |(a * b).val - a.val * b.val| ≤ u * |a.val * b.val| + η := by
  rw [mul_val]; exact rne32_err _

/-- **division**: the same; no condition on `b` is needed (`x / 0 = 0` in `ℚ` and in `SF`) -/
theorem div_err (a b : SF) : |(a / b).val - a.val / b.val| ≤ u * |a.val / b.val| + η := by
  rw [div_val]; exact rne32_err _

/-- in the normal range products have a purely relative error -/
theorem mul_err_normal (a b : SF) (h : (2:ℚ) ^ (-126:ℤ) ≤ |a.val * b.val|) :
    |(a * b).val - a.val * b.val| ≤ u * |a.val * b.val| := by
  rw [mul_val]; exact rne32_err_normal _ h

/-- magnitudes of results -/
theorem abs_add_le' (a b : SF) : |(a + b).val| ≤ (1 + u) * |a.val + b.val| := by
  have h := add_err a b
  have : |(a + b).val| ≤ |(a + b).val - (a.val + b.val)| + |a.val + b.val| := by
    have := abs_add_le ((a + b).val - (a.val + b.val)) (a.val + b.val)
    rwa [sub_add_cancel] at this
  linarith

theorem abs_mul_le' (a b : SF) : |(a * b).val| ≤ (1 + u) * |a.val * b.val| + η := by
  rw [mul_val]; exact abs_rne32_le _

theorem abs_div_le' (a b : SF) : |(a / b).val| ≤ (1 + u) * |a.val / b.val| + η := by
  rw [div_val]; exact abs_rne32_le _

/-! ### composing errors -/

/-- product of two approximations with relative errors `P − 1` and `Q − 1` has relative error `P·Q − 1` -/
theorem relerr_mul (P Q T τ σ w : ℚ) (hP : 1 ≤ P)
    (h1 : |T - τ| ≤ (P - 1) * |τ|) (h2 : |σ - w| ≤ (Q - 1) * |w|) :
    |T * σ - τ * w| ≤ (P * Q - 1) * |τ * w| := by
  have e : T * σ - τ * w = (T - τ) * σ + τ * (σ - w) := by ring
  have hσ : |σ| ≤ Q * |w| := by
    have := abs_add_le (σ - w) w
    rw [sub_add_cancel] at this
    linarith
  rw [e]
  refine le_trans (abs_add_le _ _) ?_
  rw [abs_mul, abs_mul, abs_mul]
  have a1 : |T - τ| * |σ| ≤ (P - 1) * |τ| * (Q * |w|) :=
    mul_le_mul h1 hσ (abs_nonneg _) (mul_nonneg (by linarith) (abs_nonneg _))
  have a2 : |τ| * |σ - w| ≤ |τ| * ((Q - 1) * |w|) := mul_le_mul_of_nonneg_left h2 (abs_nonneg _)
  have e2 : (P - 1) * |τ| * (Q * |w|) + |τ| * ((Q - 1) * |w|) = (P * Q - 1) * (|τ| * |w|) := by ring
  linarith

/-- rounding an approximation `y` of `x` with error `(R − 1)·|x| + d`: the result has error `(R(1+u) − 1)·|x| + (1+u)·d + η` -/
theorem relerr_round (R d x y : ℚ) (h : |y - x| ≤ (R - 1) * |x| + d) :
    |rne32 y - x| ≤ (R * (1 + u) - 1) * |x| + ((1 + u) * d + η) := by
  have h1 := rne32_err y
  have hy : |y| ≤ R * |x| + d := by
    have := abs_add_le (y - x) x
    rw [sub_add_cancel] at this
    linarith
  have tri : |rne32 y - x| ≤ |rne32 y - y| + |y - x| := by
    have := abs_add_le (rne32 y - y) (y - x)
    rwa [sub_add_sub_cancel] at this
  have := mul_le_mul_of_nonneg_left hy u_nonneg
  have e : u * (R * |x| + d) + η + ((R - 1) * |x| + d) = (R * (1 + u) - 1) * |x| + ((1 + u) * d + η) := by ring
  linarith

/-- the same for an addition/subtraction result (no `η`): `y = a ± b` exactly computed from binary32 operands -/
theorem relerr_round_add (R d x : ℚ) (a b : SF) (h : |a.val + b.val - x| ≤ (R - 1) * |x| + d) :
    |(a + b).val - x| ≤ (R * (1 + u) - 1) * |x| + (1 + u) * d := by
  have h1 := add_err a b
  have hy : |a.val + b.val| ≤ R * |x| + d := by
    have := abs_add_le (a.val + b.val - x) x
    rw [sub_add_cancel] at this
    linarith
  have tri : |(a + b).val - x| ≤ |(a + b).val - (a.val + b.val)| + |a.val + b.val - x| := by
    have := abs_add_le ((a + b).val - (a.val + b.val)) (a.val + b.val - x)
    rwa [sub_add_sub_cancel] at this
  have := mul_le_mul_of_nonneg_left hy u_nonneg
  have e : u * (R * |x| + d) + ((R - 1) * |x| + d) = (R * (1 + u) - 1) * |x| + (1 + u) * d := by ring
  linarith

/-- **a duration in nanoseconds converted to seconds**, `n as f32 / 1e9` (two roundings, both in the normal range for
every integer `n`): relative error `(1+u)^2 − 1`, no absolute term -/
theorem ofInt_div_e9_err (n : Int) :
    |rne32 (rne32 (n : ℚ) / 1000000000) - (n : ℚ) / 1000000000| ≤ ((1 + u) ^ 2 - 1) * |(n : ℚ) / 1000000000| := by
  by_cases h0 : n = 0
  · subst h0; simp [rne32_zero]
  · have hn1 : (1:ℚ) ≤ |(n:ℚ)| := by
      have : (1:ℤ) ≤ |n| := Int.one_le_abs h0
      exact_mod_cast this
    have hu := u_nonneg
    have hs := u_small
    have hsmall : (2:ℚ) ^ (-126:ℤ) ≤ 1 / 2000000000 := by norm_num
    have e1 := rne32_err_normal (n:ℚ) (le_trans hsmall (by linarith))
    set a := rne32 (n:ℚ) with ha
    have ha' : |a| ≥ (1 - u) * |(n:ℚ)| := by
      have := abs_sub_abs_le_abs_sub (n:ℚ) a
      rw [abs_sub_comm] at this
      linarith
    have hy : |a / 1000000000| = |a| / 1000000000 := by rw [abs_div]; norm_num
    have hτ : |(n:ℚ) / 1000000000| = |(n:ℚ)| / 1000000000 := by rw [abs_div]; norm_num
    have hynorm : (2:ℚ) ^ (-126:ℤ) ≤ |a / 1000000000| := by
      rw [hy]
      have : (1:ℚ) / 2 ≤ |a| := by nlinarith
      exact le_trans hsmall (by linarith)
    have e2 := rne32_err_normal (a / 1000000000) hynorm
    have d1 : |a / 1000000000 - (n:ℚ) / 1000000000| ≤ u * |(n:ℚ) / 1000000000| := by
      have : a / 1000000000 - (n:ℚ) / 1000000000 = (a - n) / 1000000000 := by ring
      rw [this, abs_div, hτ]
      have : |(1000000000:ℚ)| = 1000000000 := by norm_num
      rw [this]
      have := div_le_div_of_nonneg_right e1 (by norm_num : (0:ℚ) ≤ 1000000000)
      linarith [mul_div_assoc u |(n:ℚ)| (1000000000:ℚ)]
    have d2 : |a / 1000000000| ≤ (1 + u) * |(n:ℚ) / 1000000000| := by
      have := abs_add_le (a / 1000000000 - (n:ℚ) / 1000000000) ((n:ℚ) / 1000000000)
      rw [sub_add_cancel] at this
      linarith
    have tri : |rne32 (a / 1000000000) - (n:ℚ) / 1000000000|
        ≤ |rne32 (a / 1000000000) - a / 1000000000| + |a / 1000000000 - (n:ℚ) / 1000000000| := by
      have := abs_add_le (rne32 (a / 1000000000) - a / 1000000000) (a / 1000000000 - (n:ℚ) / 1000000000)
      rwa [sub_add_sub_cancel] at this
    have := mul_le_mul_of_nonneg_left d2 hu
    have e : ((1 + u) ^ 2 - 1) * |(n:ℚ) / 1000000000|
        = u * ((1 + u) * |(n:ℚ) / 1000000000|) + u * |(n:ℚ) / 1000000000| := by ring
    rw [e]; linarith

/-! ### a left fold of rounded additions -/

/-- exact sum of the values -/
def sumVal (ts : List SF) : ℚ := (ts.map (fun t => t.val)).sum
/-- exact sum of the magnitudes -/
def sumAbs (ts : List SF) : ℚ := (ts.map (fun t => |t.val|)).sum

@[simp] theorem sumVal_nil : sumVal [] = 0 := rfl
@[simp] theorem sumAbs_nil : sumAbs [] = 0 := rfl
@[simp] theorem sumVal_cons (t : SF) (ts : List SF) : sumVal (t :: ts) = t.val + sumVal ts := by
  simp [sumVal]
@[simp] theorem sumAbs_cons (t : SF) (ts : List SF) : sumAbs (t :: ts) = |t.val| + sumAbs ts := by
  simp [sumAbs]
theorem sumAbs_nonneg (ts : List SF) : 0 ≤ sumAbs ts := by
  induction ts with
  | nil => simp
  | cons t ts ih => rw [sumAbs_cons]; linarith [abs_nonneg t.val]
theorem abs_sumVal_le (ts : List SF) : |sumVal ts| ≤ sumAbs ts := by
  induction ts with
  | nil => simp
  | cons t ts ih =>
    rw [sumVal_cons, sumAbs_cons]
    exact le_trans (abs_add_le _ _) (by linarith)

/-- **forward error of recursive summation** (`acc := acc + tᵢ`, every `+` rounded to binary32):
`|fl(a + t₁ + … + tₙ) − (a + Σ tᵢ)| ≤ ((1+u)^n − 1)·(|a| + Σ|tᵢ|)`.  No underflow term: additions have none. -/
theorem foldl_add_err (ts : List SF) (a : SF) :
    |(ts.foldl (fun acc t => acc + t) a).val - (a.val + sumVal ts)|
      ≤ ((1 + u) ^ ts.length - 1) * (|a.val| + sumAbs ts) := by
  induction ts generalizing a with
  | nil => simp
  | cons t ts ih =>
    rw [List.foldl_cons, List.length_cons, sumVal_cons, sumAbs_cons]
    have h1 := ih (a + t)
    have h2 := add_err a t
    have h3 := abs_add_le' a t
    have h4 : |a.val + t.val| ≤ |a.val| + |t.val| := abs_add_le _ _
    have hS := sumAbs_nonneg ts
    set P := (1 + u) ^ ts.length with hP
    have hP1 : 1 ≤ P := one_le_pow _
    have hu := u_pos
    set R := (List.foldl (fun acc t => acc + t) (a + t) ts).val with hR
    set s := (a + t).val with hs
    set A := |a.val| + |t.val| with hA
    have hA0 : 0 ≤ A := by positivity
    -- triangle
    have tri : |R - (a.val + (t.val + sumVal ts))| ≤ |R - (s + sumVal ts)| + |s - (a.val + t.val)| := by
      have := abs_add_le (R - (s + sumVal ts)) (s - (a.val + t.val))
      have e : R - (s + sumVal ts) + (s - (a.val + t.val)) = R - (a.val + (t.val + sumVal ts)) := by ring
      rwa [e] at this
    have b1 : |s| ≤ (1 + u) * A := le_trans h3 (mul_le_mul_of_nonneg_left h4 one_add_u_pos.le)
    have b2 : |s - (a.val + t.val)| ≤ u * A := le_trans h2 (mul_le_mul_of_nonneg_left h4 hu.le)
    have b3 : (P - 1) * (|s| + sumAbs ts) ≤ (P - 1) * ((1 + u) * A + sumAbs ts) :=
      mul_le_mul_of_nonneg_left (by linarith) (by linarith)
    have e : (1 + u) ^ (ts.length + 1) = P * (1 + u) := by rw [pow_succ]
    rw [e]
    have fin : (P - 1) * ((1 + u) * A + sumAbs ts) + u * A ≤ (P * (1 + u) - 1) * (A + sumAbs ts) := by
      have : 0 ≤ (P * (1 + u) - P) * sumAbs ts := by
        apply mul_nonneg _ hS
        nlinarith
      nlinarith
    have hA' : |a.val| + (|t.val| + sumAbs ts) = A + sumAbs ts := by rw [hA]; ring
    rw [hA']
    linarith

/-- the same, for the fold in the other operand order (`acc := tᵢ + acc`, as the integral stream writes it) -/
theorem foldl_add_err' (ts : List SF) (a : SF) :
    |(ts.foldl (fun acc t => t + acc) a).val - (a.val + sumVal ts)|
      ≤ ((1 + u) ^ ts.length - 1) * (|a.val| + sumAbs ts) := by
  have e : (fun (acc t : SF) => t + acc) = (fun acc t => acc + t) := by
    funext acc t; exact add_comm' t acc
  rw [e]; exact foldl_add_err ts a

/-! ### the grid: half-ulp error, multiples of the ulp, rounding next to a binary32 number -/

/-- **half an ulp**: below `2^(k+1)` (with `k ≥ −126`) the rounding error is at most `2^(k−24)`, half the spacing `2^(k−23)` of
binary32 numbers in `[2^k, 2^(k+1)]` -/
theorem rne32_half_ulp (x : ℚ) (k : ℤ) (hk : -126 ≤ k) (hx : |x| ≤ (2:ℚ) ^ (k + 1)) :
    |rne32 x - x| ≤ (2:ℚ) ^ (k - 24) := by
  rw [rne32_err_abs]
  have hp : (0:ℚ) ≤ (2:ℚ) ^ (k - 24) := by positivity
  rcases eq_or_lt_of_le (abs_nonneg x) with h0 | hpos
  · rw [← h0, rne32_zero]; simpa using hp
  · rcases eq_or_lt_of_le hx with heq | hlt
    · rw [heq, rne32_two_zpow (k + 1) (by omega)]; simpa using hp
    · rw [rne32_pos _ hpos]
      have h1 := rnePos_err |x| hpos
      have hl : lg |x| < k + 1 := (lg_lt_iff _ hpos _).2 hlt
      have hu : ulpExp |x| ≤ k - 23 := by rw [ulpExp_bexp]; unfold bexp; omega
      have h2 : (2:ℚ) ^ (ulpExp |x|) ≤ (2:ℚ) ^ (k - 23) := (zpow_le_iff _ _).2 hu
      have e : (2:ℚ) ^ (k - 23) = 2 * (2:ℚ) ^ (k - 24) := by
        have := zpow_succ2 (k - 24)
        have e' : k - 24 + 1 = k - 23 := by ring
        rwa [e'] at this
      linarith

/-- **multiples of the ulp**: a binary32 number of magnitude at least `2^k` is an integer multiple of `2^(k−23)` -/
theorem rep_grid {r : ℚ} (hr : Rep r) (k : ℤ) (h : (2:ℚ) ^ k ≤ |r|) : ∃ j : ℤ, r = j * (2:ℚ) ^ (k - 23) := by
  obtain ⟨m, e, hm, _, rfl⟩ := (rep_iff r).1 hr
  by_cases he : k - 23 ≤ e
  · refine ⟨m * ((2 ^ (e - (k - 23)).toNat : ℕ) : ℤ), ?_⟩
    rw [zpow_split e (k - 23) he]; push_cast; ring
  · exfalso
    have he' : e ≤ k - 24 := by omega
    have hp : (0:ℚ) < (2:ℚ) ^ e := by positivity
    rw [abs_mul, abs_of_pos hp] at h
    have hm' : |(m:ℚ)| < 16777216 := by exact_mod_cast hm
    have h1 : (2:ℚ) ^ e ≤ (2:ℚ) ^ (k - 24) := (zpow_le_iff _ _).2 he'
    have h2 : |(m:ℚ)| * (2:ℚ) ^ e < 16777216 * (2:ℚ) ^ (k - 24) := by
      calc |(m:ℚ)| * (2:ℚ) ^ e < 16777216 * (2:ℚ) ^ e := mul_lt_mul_of_pos_right hm' hp
        _ ≤ 16777216 * (2:ℚ) ^ (k - 24) := mul_le_mul_of_nonneg_left h1 (by norm_num)
    have e3 : (16777216:ℚ) * (2:ℚ) ^ (k - 24) = (2:ℚ) ^ k := by
      have : (2:ℚ) ^ k = 2 ^ (24:ℤ) * 2 ^ (k - 24) := by
        rw [← zpow_add₀ (by norm_num)]; congr 1; ring
      rw [this, two_pow_24]
    linarith

/-- an element of `G·ℤ` of magnitude below `(n+1)·G` has magnitude at most `n·G` -/
theorem grid_abs_le (G : ℚ) (hG : 0 < G) (j : ℤ) (n : ℕ) (h : |(j:ℚ) * G| < (n + 1) * G) : |(j:ℚ) * G| ≤ n * G := by
  rw [abs_mul, abs_of_pos hG] at h ⊢
  have h1 : |(j:ℚ)| < (n:ℚ) + 1 := lt_of_mul_lt_mul_right h hG.le
  have h2 : |j| < (n:ℤ) + 1 := by exact_mod_cast h1
  have h3 : |j| ≤ (n:ℤ) := by omega
  have h4 : |(j:ℚ)| ≤ (n:ℚ) := by exact_mod_cast h3
  exact mul_le_mul_of_nonneg_right h4 hG.le

/-- `2^(e+n) = 2^n · 2^e` for the shifts used below -/
theorem zpow_shift (e : ℤ) (n : ℕ) : (2:ℚ) ^ (e + n) = (2:ℚ) ^ n * (2:ℚ) ^ e := by
  rw [zpow_add₀ (by norm_num), zpow_natCast]; ring

/-- **`1.0 − L` is exact for `L ∈ [0.5, 1]`** (a special case of Sterbenz' lemma) -/
theorem rep_one_sub {L : ℚ} (hL : Rep L) (h1 : 1 / 2 ≤ L) (h2 : L ≤ 1) : Rep (1 - L) := by
  have hk : (2:ℚ) ^ (-1:ℤ) ≤ |L| := by
    rw [abs_of_nonneg (by linarith)]; norm_num; linarith
  obtain ⟨j, hj⟩ := rep_grid hL (-1) hk
  have e24 : (2:ℚ) ^ ((-1:ℤ) - 23) = 1 / 16777216 := by norm_num
  rw [e24] at hj
  have hj1 : (8388608:ℚ) ≤ j := by rw [hj] at h1; linarith
  have hj2 : (j:ℚ) ≤ 16777216 := by rw [hj] at h2; linarith
  have hj1' : (8388608:ℤ) ≤ j := by exact_mod_cast hj1
  have hj2' : j ≤ (16777216:ℤ) := by exact_mod_cast hj2
  have : (1:ℚ) - L = ((16777216 - j : ℤ) : ℚ) * (2:ℚ) ^ (-24:ℤ) := by
    rw [hj]; push_cast; norm_num; ring
  rw [this]
  apply rep_of_representable _ _ _ (by norm_num)
  rw [abs_of_nonneg (by omega)]
  have : (2:ℤ) ^ 24 = 16777216 := by norm_num
  omega

/-- rounding a number that lies in the same binade `[2^e, 2^(e+1)]` as a binary32 number `c` and within `3/2` ulp of it
gives `c` or one of its two neighbours -/
theorem rne32_near_same (c s : ℚ) (e : ℤ) (he : -126 ≤ e) (hc : Rep c) (hce : (2:ℚ) ^ e ≤ c)
    (hs1 : (2:ℚ) ^ e ≤ s) (hs2 : s ≤ (2:ℚ) ^ (e + 1)) (hsc : |s - c| < 3 / 2 * (2:ℚ) ^ (e - 23)) :
    |rne32 s - c| ≤ (2:ℚ) ^ (e - 23) := by
  set U := (2:ℚ) ^ (e - 23) with hU
  have hUpos : 0 < U := by positivity
  have hs0 : (0:ℚ) ≤ s := le_trans (by positivity) hs1
  have h1 := rne32_half_ulp s e he (by rw [abs_of_nonneg hs0]; exact hs2)
  have eh : (2:ℚ) ^ (e - 24) = U / 2 := by
    have := zpow_succ2 (e - 24)
    have e' : e - 24 + 1 = e - 23 := by ring
    rw [e'] at this; rw [hU, this]; ring
  rw [eh] at h1
  have hr : (2:ℚ) ^ e ≤ rne32 s := by
    have := rne32_mono _ _ hs1
    rwa [rne32_two_zpow e (by omega)] at this
  have hpe : (0:ℚ) < (2:ℚ) ^ e := by positivity
  obtain ⟨j, hj⟩ := rep_grid (rep_rne32 s) e (by rw [abs_of_nonneg (by linarith)]; exact hr)
  obtain ⟨m, hm⟩ := rep_grid hc e (by rw [abs_of_nonneg (by linarith)]; exact hce)
  have hd : rne32 s - c = ((j - m : ℤ) : ℚ) * U := by rw [hj, hm]; push_cast; ring
  have hlt : |rne32 s - c| < (1 + 1) * U := by
    have := abs_add_le (rne32 s - s) (s - c)
    rw [sub_add_sub_cancel] at this
    linarith
  rw [hd] at hlt ⊢
  have := grid_abs_le U hUpos (j - m) 1 (by exact_mod_cast hlt)
  simpa using this

/-- the same when the number to be rounded has crossed into the next binade -/
theorem rne32_near_above (c s : ℚ) (e : ℤ) (he : -126 ≤ e) (hc : Rep c) (hce : (2:ℚ) ^ e ≤ c)
    (hce' : c < (2:ℚ) ^ (e + 1)) (hs : (2:ℚ) ^ (e + 1) < s) (hsc : |s - c| < 3 / 2 * (2:ℚ) ^ (e - 23)) :
    |rne32 s - c| ≤ (2:ℚ) ^ (e - 23) := by
  set U := (2:ℚ) ^ (e - 23) with hU
  have hUpos : 0 < U := by positivity
  have hpe : (0:ℚ) < (2:ℚ) ^ e := by positivity
  have hs0 : (0:ℚ) ≤ s := le_trans (by positivity) hs.le
  obtain ⟨sc1, sc2⟩ := abs_lt.1 hsc
  -- `2^(e+1) = 2^24·U`, `2^(e+2) = 2^25·U`
  have e1 : (2:ℚ) ^ (e + 1) = 16777216 * U := by
    have := zpow_shift (e - 23) 24
    have e' : e - 23 + ((24:ℕ):ℤ) = e + 1 := by push_cast; ring
    rw [e'] at this; rw [this, hU]; norm_num
  have e2 : (2:ℚ) ^ (e + 1 + 1) = 33554432 * U := by
    rw [zpow_succ2, e1]; ring
  -- `c ≤ 2^(e+1) − U`
  obtain ⟨m, hm⟩ := rep_grid hc e (by rw [abs_of_nonneg (by linarith)]; exact hce)
  rw [← hU] at hm
  have hm1 : (m:ℚ) < 16777216 := by
    rw [hm, e1] at hce'; exact lt_of_mul_lt_mul_right hce' hUpos.le
  have hm2 : m ≤ 16777215 := by
    have : m < 16777216 := by exact_mod_cast hm1
    omega
  have hm3 : (m:ℚ) ≤ 16777215 := by exact_mod_cast hm2
  have hcU : c ≤ 16777216 * U - U := by rw [hm]; nlinarith
  -- the rounding
  have h1 := rne32_half_ulp s (e + 1) (by omega) (by rw [abs_of_nonneg hs0, e2]; linarith)
  have eh : (2:ℚ) ^ (e + 1 - 24) = U := by rw [hU]; congr 1; ring
  rw [eh] at h1
  obtain ⟨r1, r2⟩ := abs_le.1 h1
  have hr : (2:ℚ) ^ (e + 1) ≤ rne32 s := by
    have := rne32_mono _ _ hs.le
    rwa [rne32_two_zpow (e + 1) (by omega)] at this
  obtain ⟨j, hj⟩ := rep_grid (rep_rne32 s) (e + 1) (by
    rw [abs_of_nonneg (le_trans (by positivity) hr)]; exact hr)
  have eg : (2:ℚ) ^ (e + 1 - 23) = 2 * U := by
    have := zpow_succ2 (e - 23)
    have e' : e - 23 + 1 = e + 1 - 23 := by ring
    rw [e'] at this; rw [this]
  rw [eg] at hj
  -- `rne32 s = 2^(e+1)`
  have hjl : (8388608:ℚ) ≤ j := by
    rw [hj, e1] at hr
    have : (16777216:ℚ) * U = 8388608 * (2 * U) := by ring
    rw [this] at hr
    exact le_of_mul_le_mul_right hr (by positivity)
  have hju : (j:ℚ) < 8388609 := by
    have : (j:ℚ) * (2 * U) < 8388609 * (2 * U) := by rw [← hj]; linarith
    exact lt_of_mul_lt_mul_right this (by positivity)
  have hj' : j = 8388608 := by
    have a : (8388608:ℤ) ≤ j := by exact_mod_cast hjl
    have b : j < (8388609:ℤ) := by exact_mod_cast hju
    omega
  have hrv : rne32 s = 16777216 * U := by rw [hj, hj']; push_cast; ring
  have hd : rne32 s - c = ((16777216 - m : ℤ) : ℚ) * U := by rw [hrv, hm]; push_cast; ring
  have hlt : |rne32 s - c| < (1 + 1) * U := by
    rw [abs_lt]; constructor <;> rw [hrv] <;> linarith
  rw [hd] at hlt ⊢
  have := grid_abs_le U hUpos (16777216 - m) 1 (by exact_mod_cast hlt)
  simpa using this

/-- the same when the number to be rounded has dropped into the binade below, where binary32 numbers are twice as dense
(`e ≥ −125`: the binade below is still normal) — here `5/4` ulp is the most that can be allowed -/
theorem rne32_near_below (c s : ℚ) (e : ℤ) (he : -125 ≤ e) (hc : Rep c) (hce : (2:ℚ) ^ e ≤ c)
    (hs : s < (2:ℚ) ^ e) (hsc : |s - c| < 5 / 4 * (2:ℚ) ^ (e - 23)) :
    |rne32 s - c| ≤ (2:ℚ) ^ (e - 23) := by
  set U := (2:ℚ) ^ (e - 23) with hU
  have hUpos : 0 < U := by positivity
  have hpe : (0:ℚ) < (2:ℚ) ^ e := by positivity
  obtain ⟨sc1, sc2⟩ := abs_lt.1 hsc
  have e0 : (2:ℚ) ^ e = 8388608 * U := by
    have := zpow_shift (e - 23) 23
    have e' : e - 23 + ((23:ℕ):ℤ) = e := by push_cast; ring
    rw [e'] at this; rw [this, hU]; norm_num
  have em1 : (2:ℚ) ^ (e - 1) = 4194304 * U := by
    have := zpow_succ2 (e - 1)
    have e' : e - 1 + 1 = e := by ring
    rw [e', e0] at this; linarith
  have hs1 : (2:ℚ) ^ (e - 1) ≤ s := by rw [em1]; rw [e0] at hce; linarith
  have hs0 : (0:ℚ) ≤ s := le_trans (by positivity) hs1
  have h1 := rne32_half_ulp s (e - 1) (by omega) (by
    rw [abs_of_nonneg hs0]; have : e - 1 + 1 = e := by ring
    rw [this]; exact hs.le)
  have eh : (2:ℚ) ^ (e - 1 - 24) = U / 4 := by
    have a := zpow_succ2 (e - 1 - 24)
    have b := zpow_succ2 (e - 24)
    have e1 : e - 1 - 24 + 1 = e - 24 := by ring
    have e2 : e - 24 + 1 = e - 23 := by ring
    rw [e1] at a; rw [e2] at b; rw [hU, b, a]; ring
  rw [eh] at h1
  have hr : (2:ℚ) ^ (e - 1) ≤ rne32 s := by
    have := rne32_mono _ _ hs1
    rwa [rne32_two_zpow (e - 1) (by omega)] at this
  obtain ⟨j, hj⟩ := rep_grid (rep_rne32 s) (e - 1) (by
    rw [abs_of_nonneg (le_trans (by positivity) hr)]; exact hr)
  have eg : (2:ℚ) ^ (e - 1 - 23) = U / 2 := by
    have a := zpow_succ2 (e - 1 - 23)
    have e1 : e - 1 - 23 + 1 = e - 23 := by ring
    rw [e1] at a; rw [hU, a]; ring
  rw [eg] at hj
  obtain ⟨m, hm⟩ := rep_grid hc e (by rw [abs_of_nonneg (by linarith)]; exact hce)
  rw [← hU] at hm
  have hd : rne32 s - c = ((j - 2 * m : ℤ) : ℚ) * (U / 2) := by rw [hj, hm]; push_cast; ring
  have hlt : |rne32 s - c| < ((2:ℕ) + 1) * (U / 2) := by
    have := abs_add_le (rne32 s - s) (s - c)
    rw [sub_add_sub_cancel] at this
    push_cast; linarith
  rw [hd] at hlt ⊢
  have := grid_abs_le (U / 2) (by positivity) (j - 2 * m) 2 hlt
  push_cast at this ⊢
  linarith

/-- the lowest normal binade `e = −126`: below it the spacing stays `2^-149`, and `3/2` ulp may be allowed -/
theorem rne32_near_below_min (c s : ℚ) (hc : Rep c)
    (hs : s < (2:ℚ) ^ (-126:ℤ)) (hs0 : 0 ≤ s) (hsc : |s - c| < 3 / 2 * (2:ℚ) ^ (-149:ℤ)) :
    |rne32 s - c| ≤ (2:ℚ) ^ (-149:ℤ) := by
  set U := (2:ℚ) ^ (-149:ℤ) with hU
  have hUpos : 0 < U := by positivity
  have h1 := rne32_half_ulp s (-126) (by norm_num) (by
    rw [abs_of_nonneg hs0]
    have : (2:ℚ) ^ (-126:ℤ) ≤ (2:ℚ) ^ ((-126:ℤ) + 1) := (zpow_le_iff _ _).2 (by norm_num)
    linarith)
  have eh : (2:ℚ) ^ ((-126:ℤ) - 24) = U / 2 := by
    have a := zpow_succ2 (-150)
    have e1 : (-150:ℤ) + 1 = -149 := by norm_num
    rw [e1] at a
    have e2 : (-126:ℤ) - 24 = -150 := by norm_num
    rw [e2, hU, a]; ring
  rw [eh] at h1
  obtain ⟨j, hj⟩ := rep_multiple (rep_rne32 s)
  obtain ⟨m, hm⟩ := rep_multiple hc
  rw [← hU] at hj hm
  have hd : rne32 s - c = ((j - m : ℤ) : ℚ) * U := by rw [hj, hm]; push_cast; ring
  clear_value U
  have hlt : |rne32 s - c| < (1 + 1) * U := by
    have := abs_add_le (rne32 s - s) (s - c)
    rw [sub_add_sub_cancel] at this
    linarith
  rw [hd] at hlt ⊢
  have := grid_abs_le U hUpos (j - m) 1 (by exact_mod_cast hlt)
  simpa using this

/-! ### non-vacuity / sharpness -/

/-- `add_err` is attained up to the factor `2^24/(2^24+1)`: `2^24 + 1` rounds to `2^24`, error `1 = u·2^24` -/
example : |(x2p24 + c1).val - (x2p24.val + (c1 : SF).val)| = u * 16777216 := by
  rw [add_rounds, x2p24_val, c1_val]; unfold u; norm_num

/-- the `η` of `mul_err` is needed: `2^-149 · 0.5` is rounded to `0`, error `2^-150 = η`, while `u·|exact| = 2^-174` -/
example : |(xMinSub * chalf).val - xMinSub.val * (chalf : SF).val| = η := by
  have hv : xMinSub.val = 1 / 713623846352979940529142984724747568191373312 := by
    show ((1:ℤ):ℚ) * (2:ℚ) ^ (-149:ℤ) = _; norm_num
  have h0 : rne32 (1 / 713623846352979940529142984724747568191373312 * (1 / 2)) = 0 := by decide +kernel
  rw [mul_val, chalf_val, hv, h0]; unfold η; norm_num

/-- the sandwich at concrete end points: whatever lies in `[1.5, 2^24]` rounds into `[1.5, 2^24]` -/
example : x1_5.val ≤ rne32 (16777215 + 2 / 3) ∧ rne32 (16777215 + 2 / 3) ≤ x2p24.val :=
  rne32_between x1_5 x2p24 _ (by
    show ((3:ℤ):ℚ) * (2:ℚ) ^ (-1:ℤ) ≤ _; norm_num) (by rw [x2p24_val]; norm_num)

/-- `add_exact_of_small` at a concrete subnormal sum: `2^-149 + 2^-149` -/
example : |xMinSub.val + xMinSub.val| < (2:ℚ) ^ (-126:ℤ) := by
  have hv : xMinSub.val = (2:ℚ) ^ (-149:ℤ) := by
    show ((1:ℤ):ℚ) * (2:ℚ) ^ (-149:ℤ) = _; norm_num
  rw [hv, abs_of_pos (by positivity)]
  have : (2:ℚ) ^ (-149:ℤ) + 2 ^ (-149:ℤ) = 2 ^ (-148:ℤ) := by
    have h := zpow_succ2 (-149)
    have e : (-149 : ℤ) + 1 = -148 := by norm_num
    rw [e] at h; rw [h]; ring
  rw [this]; exact (zpow_lt_iff _ _).2 (by norm_num)

/-- the fold bound at a concrete list: `((2^24 + 1) + 1)` in binary32 is `2^24`, the exact sum `2^24 + 2`; the bound
`((1+u)^2 − 1)·(2^24 + 2) ≈ 2.0000002` holds with almost no slack -/
example : |([c1, c1].foldl (fun acc t => acc + t) x2p24).val - (x2p24.val + sumVal [c1, c1])| = 2 := by
  simp only [List.foldl_cons, List.foldl_nil, add_rounds, sumVal_cons, sumVal_nil, c1_val, x2p24_val]
  norm_num

end Rrtk.Thm.RoundingBounds
