/-
Generic facts about running a stateful stream over a history of input events.
A stream is `step : S → I → Except Panic (S × UpdRet)` with `get : S → G`; `runE` folds the step over the
history and stops at the first panic.  The lemmas lift single-step facts (true from EVERY state) to every history.
-/
import Rrtk.Core
namespace Rrtk

variable {S I : Type}

/-- final state after a history (`.error p` if some update panicked) -/
def runE (step : S → I → Except Panic (S × UpdRet)) : S → List I → Except Panic S
  | s, [] => .ok s
  | s, i :: is =>
    match step s i with
    | .error p => .error p
    | .ok r => runE step r.1 is

theorem runE_nil (step : S → I → Except Panic (S × UpdRet)) (s : S) : runE step s [] = .ok s := rfl

theorem runE_cons (step : S → I → Except Panic (S × UpdRet)) (s : S) (i : I) (is : List I) :
    runE step s (i :: is) = match step s i with
      | .error p => .error p
      | .ok r => runE step r.1 is := rfl

theorem runE_append (step : S → I → Except Panic (S × UpdRet)) (s : S) (a b : List I) :
    runE step s (a ++ b) = match runE step s a with
      | .error p => .error p
      | .ok s' => runE step s' b := by
  induction a generalizing s with
  | nil => rfl
  | cons i is ih =>
    simp only [List.cons_append, runE_cons]
    cases step s i with
    | error p => rfl
    | ok r => exact ih r.1

/-- If an event `r` acts on every state as it acts on the initial state (a *reset*), then after any prefix that
did not panic, the rest of the history behaves exactly like a newly constructed stream fed `r :: post`. -/
theorem runE_reset (step : S → I → Except Panic (S × UpdRet)) (init : S) (r : I)
    (hr : ∀ s, step s r = step init r) (pre post : List I) (s : S) (hpre : runE step init pre = .ok s) :
    runE step init (pre ++ r :: post) = runE step init (r :: post) := by
  rw [runE_append, hpre]
  simp only [runE_cons, hr s]

/-- the same for every later prefix of the suffix: outputs after the reset coincide step by step -/
theorem runE_reset_prefix (step : S → I → Except Panic (S × UpdRet)) (init : S) (r : I)
    (hr : ∀ s, step s r = step init r) (pre post₁ : List I) (s : S) (hpre : runE step init pre = .ok s) :
    runE step init (pre ++ r :: post₁) = runE step init (r :: post₁) :=
  runE_reset step init r hr pre post₁ s hpre

/-- "no stale errors", lifted to histories: if after one step from ANY state the getter shows an error only when the
input of that very step was this error, then after any non-empty history the getter shows an error only if the last
event was that error. -/
theorem no_stale_err_of_step {G : Type} (step : S → I → Except Panic (S × UpdRet)) (get : S → G)
    (isErr : G → Err → Prop) (inErr : I → Err → Prop)
    (hstep : ∀ s i r, step s i = .ok r → ∀ e, isErr (get r.1) e → inErr i e)
    (s0 : S) (evs : List I) (s : S) (h : runE step s0 evs = .ok s) (e : Err) (he : isErr (get s) e) :
    (evs = [] ∧ isErr (get s0) e) ∨ ∃ i, evs.getLast? = some i ∧ inErr i e := by
  induction evs generalizing s0 with
  | nil => simp only [runE_nil] at h; cases h; exact Or.inl ⟨rfl, he⟩
  | cons i is ih =>
    simp only [runE_cons] at h
    cases hs : step s0 i with
    | error p => simp [hs] at h
    | ok r =>
      simp only [hs] at h
      rcases ih r.1 h with ⟨hnil, herr⟩ | ⟨j, hj, hje⟩
      · subst hnil
        exact Or.inr ⟨i, rfl, hstep s0 i r hs e herr⟩
      · refine Or.inr ⟨j, ?_, hje⟩
        cases is with
        | nil => simp at hj
        | cons x xs => simpa [List.getLast?_cons_cons] using hj

/-- events that leave the state untouched can be deleted from a history without changing the final state -/
theorem runE_filter_noop (step : S → I → Except Panic (S × UpdRet)) (noop : I → Bool)
    (hn : ∀ s i, noop i = true → ∃ r, step s i = .ok (s, r)) (s0 : S) (evs : List I) :
    runE step s0 (evs.filter (fun i => !noop i)) = runE step s0 evs := by
  induction evs generalizing s0 with
  | nil => rfl
  | cons i is ih =>
    cases hi : noop i with
    | true =>
      obtain ⟨r, hr⟩ := hn s0 i hi
      simp only [List.filter_cons, hi, Bool.not_true, runE_cons, hr]
      exact ih s0
    | false =>
      simp only [List.filter_cons, hi, Bool.not_false, runE_cons, if_true]
      cases step s0 i with
      | error p => rfl
      | ok r => exact ih r.1

end Rrtk
