/-
Facts about the kernel-transparent binary32 rounding model `Rrtk.Soft.rne32` (`Rrtk/SoftFloat.lean`):
`pow2`/`ilog2`/`roundHalfEven` meet their specifications; `rne32` is odd, monotone, idempotent, exact on every
representable value `m·2^e` (`|m| < 2^24`, `e ≥ −149`), has relative error `≤ 2^-24` on the whole normal range
`2^-126 ≤ |x|` (no upper bound: the exponent is unbounded upward in the model) and absolute error `≤ 2^-150` below it.
These discharge, for the CONCRETE rounding function, the hypotheses that `Rrtk/Thm/Lemmas/C18Rounding.lean` assumes of an
abstract one (`RoundingSpec`), see `Rrtk/Thm/Lemmas/C18Soft.lean`.
No hypothesis about floating point remains: everything is proved from the definitions over `ℚ`.
-/
import Rrtk.SoftFloat
import Mathlib.Tactic.Ring
import Mathlib.Tactic.Linarith
import Mathlib.Tactic.Positivity
import Mathlib.Tactic.NormNum
import Mathlib.Tactic.FieldSimp
import Mathlib.Algebra.Order.Field.Basic
import Mathlib.Algebra.Order.Field.Power
import Mathlib.Data.Rat.Lemmas
set_option linter.unusedSectionVars false
set_option linter.unusedSimpArgs false
namespace Rrtk.Thm.SoftFloat
open Rrtk.Soft

theorem pow2_eq (k : ℤ) : pow2 k = (2:ℚ)^k := by
  unfold pow2
  split
  · rename_i h
    conv_rhs => rw [← Int.toNat_of_nonneg h]
    rw [zpow_natCast]; push_cast; rfl
  · rename_i h
    have h' : 0 ≤ -k := by omega
    have e : k = -((-k).toNat : ℤ) := by rw [Int.toNat_of_nonneg h']; ring
    conv_rhs => rw [e]
    rw [zpow_neg, zpow_natCast]; push_cast; rw [one_div]

theorem pow2_pos (k : ℤ) : 0 < pow2 k := by rw [pow2_eq]; positivity

theorem two_zpow_pos (k : ℤ) : (0:ℚ) < 2 ^ k := by positivity

theorem zpow_le_iff (a b : ℤ) : (2:ℚ)^a ≤ 2^b ↔ a ≤ b := zpow_le_zpow_iff_right₀ (by norm_num)
theorem zpow_lt_iff (a b : ℤ) : (2:ℚ)^a < 2^b ↔ a < b := zpow_lt_zpow_iff_right₀ (by norm_num)

theorem zpow_succ2 (a : ℤ) : (2:ℚ)^(a+1) = 2 * 2^a := by
  rw [zpow_add₀ (by norm_num), zpow_one]; ring

theorem ilog2_spec (p q : ℕ) (hp : 0 < p) (hq : 0 < q) :
    (2:ℚ)^(ilog2 p q) ≤ (p:ℚ)/q ∧ (p:ℚ)/q < (2:ℚ)^(ilog2 p q + 1) := by
  have hp0 : p ≠ 0 := by omega
  have hq0 : q ≠ 0 := by omega
  have hqQ : (0:ℚ) < q := by exact_mod_cast hq
  have hpQ : (0:ℚ) < p := by exact_mod_cast hp
  have a1 : ((2:ℚ)^(Nat.log2 p : ℤ)) ≤ p := by
    rw [zpow_natCast]; exact_mod_cast Nat.log2_self_le hp0
  have a2 : (p:ℚ) < (2:ℚ)^((Nat.log2 p : ℤ) + 1) := by
    have : ((Nat.log2 p : ℤ) + 1) = ((Nat.log2 p + 1 : ℕ) : ℤ) := by push_cast; rfl
    rw [this, zpow_natCast]; exact_mod_cast (Nat.lt_log2_self (n := p))
  have b1 : ((2:ℚ)^(Nat.log2 q : ℤ)) ≤ q := by
    rw [zpow_natCast]; exact_mod_cast Nat.log2_self_le hq0
  have b2 : (q:ℚ) < (2:ℚ)^((Nat.log2 q : ℤ) + 1) := by
    have : ((Nat.log2 q : ℤ) + 1) = ((Nat.log2 q + 1 : ℕ) : ℤ) := by push_cast; rfl
    rw [this, zpow_natCast]; exact_mod_cast (Nat.lt_log2_self (n := q))
  unfold ilog2
  generalize (Nat.log2 p : ℤ) = a at *
  generalize (Nat.log2 q : ℤ) = b at *
  -- general bounds
  have lo : (2:ℚ)^(a - b - 1) < (p:ℚ)/q := by
    rw [lt_div_iff₀ hqQ]
    have e : (2:ℚ)^(a - b - 1) * 2^(b+1) = 2^a := by
      rw [← zpow_add₀ (by norm_num)]; congr 1; ring
    have hpos : (0:ℚ) < 2^(a-b-1) := by positivity
    calc (2:ℚ)^(a - b - 1) * q < 2^(a - b - 1) * 2^(b+1) := by
          exact mul_lt_mul_of_pos_left b2 hpos
      _ = 2^a := e
      _ ≤ p := a1
  have hi : (p:ℚ)/q < (2:ℚ)^(a - b + 1) := by
    rw [div_lt_iff₀ hqQ]
    have e : (2:ℚ)^(a - b + 1) * 2^b = 2^(a+1) := by
      rw [← zpow_add₀ (by norm_num)]; congr 1; ring
    have hpos : (0:ℚ) < 2^(a-b+1) := by positivity
    calc (p:ℚ) < 2^(a+1) := a2
      _ = 2^(a - b + 1) * 2^b := e.symm
      _ ≤ 2^(a - b + 1) * q := by exact mul_le_mul_of_nonneg_left b1 hpos.le
  -- the test decides 2^d ≤ p/q
  have test : (if 0 ≤ a - b then q * 2 ^ (a - b).toNat ≤ p else q ≤ p * 2 ^ (-(a - b)).toNat)
      ↔ (2:ℚ)^(a - b) ≤ (p:ℚ)/q := by
    rw [le_div_iff₀ hqQ]
    split
    · rename_i h
      have e : (2:ℚ)^(a-b) = ((2 ^ (a - b).toNat : ℕ) : ℚ) := by
        conv_lhs => rw [← Int.toNat_of_nonneg h]
        rw [zpow_natCast]; push_cast; rfl
      rw [e, mul_comm]
      exact_mod_cast Iff.rfl
    · rename_i h
      have h' : 0 ≤ -(a-b) := by omega
      have e : (2:ℚ)^(a-b) = (((2 ^ (-(a - b)).toNat : ℕ) : ℚ))⁻¹ := by
        have e1 : a - b = -((-(a-b)).toNat : ℤ) := by rw [Int.toNat_of_nonneg h']; ring
        conv_lhs => rw [e1]
        rw [zpow_neg, zpow_natCast]; push_cast; rfl
      have hpos : (0:ℚ) < ((2 ^ (-(a - b)).toNat : ℕ) : ℚ) := by positivity
      rw [e, inv_mul_le_iff₀ hpos, mul_comm]
      exact_mod_cast Iff.rfl
  simp only []
  by_cases hc : (2:ℚ)^(a - b) ≤ (p:ℚ)/q
  · rw [if_pos (test.2 hc)]
    exact ⟨hc, hi⟩
  · rw [if_neg (fun h => hc (test.1 h))]
    rw [not_le] at hc
    refine ⟨lo.le, ?_⟩
    have : a - b - 1 + 1 = a - b := by ring
    rw [this]; exact hc

/-- the rounding rule on a fraction `a / d` of naturals -/
theorem rhe_frac (a d : ℕ) (hd : 0 < d) :
    |(((let n := a / d
        let rem2 := 2 * (a % d)
        if rem2 < d then n else if d < rem2 then n + 1 else if n % 2 = 0 then n else n + 1 : ℕ)) : ℚ)
      - (a:ℚ)/d| ≤ 1/2 := by
  have hdQ : (0:ℚ) < d := by exact_mod_cast hd
  have hdiv : (a:ℚ) = d * ((a / d : ℕ) : ℚ) + ((a % d : ℕ) : ℚ) := by
    exact_mod_cast (Nat.div_add_mod a d).symm
  have hmod : a % d < d := Nat.mod_lt _ hd
  simp only []
  generalize a / d = n at *
  generalize a % d = m at *
  have hm : (m:ℚ) < d := by exact_mod_cast hmod
  have key : (a:ℚ)/d = n + m/d := by rw [hdiv]; field_simp
  rw [key]
  have hmd0 : (0:ℚ) ≤ m/d := by positivity
  split
  · rename_i h
    have h' : (2:ℚ) * m < d := by exact_mod_cast h
    have : (m:ℚ)/d < 1/2 := by rw [div_lt_iff₀ hdQ]; linarith
    rw [abs_le]; constructor <;> linarith
  · rename_i h
    have h' : (d:ℚ) ≤ 2 * m := by exact_mod_cast (not_lt.1 h)
    have h1 : 1/2 ≤ (m:ℚ)/d := by rw [le_div_iff₀ hdQ]; linarith
    have h2 : (m:ℚ)/d < 1 := by rw [div_lt_iff₀ hdQ]; linarith
    split
    · push_cast; rw [abs_le]; constructor <;> linarith
    · rename_i h3
      have h4 : (2:ℚ) * m ≤ d := by exact_mod_cast (not_lt.1 h3)
      have h5 : (m:ℚ)/d ≤ 1/2 := by rw [div_le_iff₀ hdQ]; linarith
      split
      · rw [abs_le]; constructor <;> linarith
      · push_cast; rw [abs_le]; constructor <;> linarith

theorem toNat_num_cast (r : ℚ) (hr : 0 ≤ r) : ((r.num.toNat : ℕ) : ℚ) = (r.num : ℚ) := by
  have : 0 ≤ r.num := Rat.num_nonneg.2 hr
  have e : ((r.num.toNat : ℕ) : ℤ) = r.num := Int.toNat_of_nonneg this
  exact_mod_cast e

theorem roundHalfEven_spec (r : ℚ) (hr : 0 ≤ r) : |(roundHalfEven r : ℚ) - r| ≤ 1/2 := by
  have h := rhe_frac r.num.toNat r.den r.den_pos
  rw [toNat_num_cast r hr, Rat.num_div_den] at h
  exact h

theorem roundHalfEven_mono (r s : ℚ) (hr : 0 ≤ r) (hrs : r ≤ s) : roundHalfEven r ≤ roundHalfEven s := by
  rcases eq_or_lt_of_le hrs with h | h
  · rw [h]
  · have h1 := abs_le.1 (roundHalfEven_spec r hr)
    have h2 := abs_le.1 (roundHalfEven_spec s (le_trans hr hrs))
    have : (roundHalfEven r : ℚ) < (roundHalfEven s : ℚ) + 1 := by linarith [h1.2, h2.1]
    have : roundHalfEven r < roundHalfEven s + 1 := by exact_mod_cast this
    omega

/-- an integer within 1/2 of a natural-valued rational: rounding is exact on naturals -/
theorem roundHalfEven_natCast (n : ℕ) : roundHalfEven (n : ℚ) = n := by
  have h := abs_le.1 (roundHalfEven_spec (n:ℚ) (by positivity))
  have h1 : (roundHalfEven (n:ℚ) : ℚ) < (n:ℚ) + 1 := by linarith [h.2]
  have h2 : (n:ℚ) < (roundHalfEven (n:ℚ) : ℚ) + 1 := by linarith [h.1]
  have h1' : roundHalfEven (n:ℚ) < n + 1 := by exact_mod_cast h1
  have h2' : n < roundHalfEven (n:ℚ) + 1 := by exact_mod_cast h2
  omega

/-! ### `rnePos` -/

/-- `⌊log₂ x⌋` as computed by the model for a positive rational -/
def lg (x : ℚ) : ℤ := ilog2 x.num.toNat x.den

theorem lg_spec (x : ℚ) (hx : 0 < x) : (2:ℚ)^(lg x) ≤ x ∧ x < (2:ℚ)^(lg x + 1) := by
  have hn : 0 < x.num := Rat.num_pos.2 hx
  have h := ilog2_spec x.num.toNat x.den (by omega) x.den_pos
  rw [toNat_num_cast x hx.le, Rat.num_div_den] at h
  exact h

theorem lg_ge_iff (x : ℚ) (hx : 0 < x) (k : ℤ) : k ≤ lg x ↔ (2:ℚ)^k ≤ x := by
  obtain ⟨h1, h2⟩ := lg_spec x hx
  constructor
  · intro h; exact le_trans ((zpow_le_iff _ _).2 h) h1
  · intro h
    have : (2:ℚ)^k < 2^(lg x + 1) := lt_of_le_of_lt h h2
    rw [zpow_lt_iff] at this; omega

theorem lg_lt_iff (x : ℚ) (hx : 0 < x) (k : ℤ) : lg x < k ↔ x < (2:ℚ)^k := by
  rw [← not_le, lg_ge_iff x hx, not_le]

theorem lg_mono (x y : ℚ) (hx : 0 < x) (hxy : x ≤ y) : lg x ≤ lg y := by
  rw [lg_ge_iff y (lt_of_lt_of_le hx hxy)]
  exact le_trans (lg_spec x hx).1 hxy

theorem ulpExp_eq (x : ℚ) : ulpExp x = max (lg x) (-126) - 23 := rfl

theorem rnePos_eq (x : ℚ) :
    rnePos x = (roundHalfEven (x / (2:ℚ)^(ulpExp x)) : ℚ) * (2:ℚ)^(ulpExp x) := by
  unfold rnePos; simp only [pow2_eq]

/-- rounding on the grid `2^ue · ℕ`: error at most half a grid step -/
theorem grid_err (x : ℚ) (hx : 0 ≤ x) (ue : ℤ) :
    |(roundHalfEven (x / (2:ℚ)^ue) : ℚ) * (2:ℚ)^ue - x| ≤ (2:ℚ)^ue / 2 := by
  have hp : (0:ℚ) < 2^ue := by positivity
  have h := roundHalfEven_spec (x / (2:ℚ)^ue) (by positivity)
  have e : (roundHalfEven (x / (2:ℚ)^ue) : ℚ) * (2:ℚ)^ue - x
      = ((roundHalfEven (x / (2:ℚ)^ue) : ℚ) - x / (2:ℚ)^ue) * (2:ℚ)^ue := by field_simp
  rw [e, abs_mul, abs_of_pos hp]
  have := mul_le_mul_of_nonneg_right h hp.le
  linarith

theorem grid_le (x : ℚ) (hx : 0 ≤ x) (ue : ℤ) (K : ℕ) (h : x ≤ K * (2:ℚ)^ue) :
    (roundHalfEven (x / (2:ℚ)^ue) : ℚ) * (2:ℚ)^ue ≤ K * (2:ℚ)^ue := by
  have hp : (0:ℚ) < 2^ue := by positivity
  have h1 : x / (2:ℚ)^ue ≤ (K:ℚ) := by rw [div_le_iff₀ hp]; exact h
  have h2 := roundHalfEven_mono _ _ (by positivity) h1
  rw [roundHalfEven_natCast] at h2
  have h3 : (roundHalfEven (x / (2:ℚ)^ue) : ℚ) ≤ K := by exact_mod_cast h2
  exact mul_le_mul_of_nonneg_right h3 hp.le

theorem grid_ge (x : ℚ) (ue : ℤ) (K : ℕ) (h : K * (2:ℚ)^ue ≤ x) :
    K * (2:ℚ)^ue ≤ (roundHalfEven (x / (2:ℚ)^ue) : ℚ) * (2:ℚ)^ue := by
  have hp : (0:ℚ) < 2^ue := by positivity
  have h1 : (K:ℚ) ≤ x / (2:ℚ)^ue := by rw [le_div_iff₀ hp]; exact h
  have h2 := roundHalfEven_mono _ _ (by positivity) h1
  rw [roundHalfEven_natCast] at h2
  have h3 : (K:ℚ) ≤ (roundHalfEven (x / (2:ℚ)^ue) : ℚ) := by exact_mod_cast h2
  exact mul_le_mul_of_nonneg_right h3 hp.le

theorem grid_mono (x y : ℚ) (hx : 0 ≤ x) (hxy : x ≤ y) (ue : ℤ) :
    (roundHalfEven (x / (2:ℚ)^ue) : ℚ) * (2:ℚ)^ue ≤ (roundHalfEven (y / (2:ℚ)^ue) : ℚ) * (2:ℚ)^ue := by
  have hp : (0:ℚ) < 2^ue := by positivity
  have h1 : x / (2:ℚ)^ue ≤ y / (2:ℚ)^ue := div_le_div_of_nonneg_right hxy hp.le
  have h2 := roundHalfEven_mono _ _ (by positivity) h1
  have h3 : (roundHalfEven (x / (2:ℚ)^ue) : ℚ) ≤ (roundHalfEven (y / (2:ℚ)^ue) : ℚ) := by exact_mod_cast h2
  exact mul_le_mul_of_nonneg_right h3 hp.le

theorem rnePos_nonneg (x : ℚ) : 0 ≤ rnePos x := by rw [rnePos_eq]; positivity

theorem rnePos_err (x : ℚ) (hx : 0 < x) : |rnePos x - x| ≤ (2:ℚ)^(ulpExp x) / 2 := by
  rw [rnePos_eq]; exact grid_err x hx.le _

theorem two_pow_24 : (2:ℚ)^(24:ℤ) = 16777216 := by norm_num
theorem two_pow_23 : (2:ℚ)^(23:ℤ) = 8388608 := by norm_num

/-- `2^24 · 2^(E-23) = 2^(E+1)` -/
theorem grid_top (E : ℤ) : ((16777216 : ℕ) : ℚ) * (2:ℚ)^(E - 23) = (2:ℚ)^(E + 1) := by
  have : (2:ℚ)^(E+1) = 2^(24:ℤ) * 2^(E-23) := by
    rw [← zpow_add₀ (by norm_num)]; congr 1; ring
  rw [this, two_pow_24]; norm_num

theorem grid_bot (E : ℤ) : ((8388608 : ℕ) : ℚ) * (2:ℚ)^(E - 23) = (2:ℚ)^E := by
  have : (2:ℚ)^E = 2^(23:ℤ) * 2^(E-23) := by
    rw [← zpow_add₀ (by norm_num)]; congr 1; ring
  rw [this, two_pow_23]; norm_num

/-- the binade exponent used for rounding: `max ⌊log₂ x⌋ (−126)` -/
def bexp (x : ℚ) : ℤ := max (lg x) (-126)

theorem ulpExp_bexp (x : ℚ) : ulpExp x = bexp x - 23 := rfl

theorem lt_bexp_succ (x : ℚ) (hx : 0 < x) : x < (2:ℚ)^(bexp x + 1) := by
  have h := (lg_spec x hx).2
  refine lt_of_lt_of_le h ((zpow_le_iff _ _).2 ?_)
  unfold bexp; omega

theorem rnePos_le_top (x : ℚ) (hx : 0 < x) : rnePos x ≤ (2:ℚ)^(bexp x + 1) := by
  rw [rnePos_eq, ulpExp_bexp, ← grid_top]
  apply grid_le x hx.le
  rw [grid_top]; exact (lt_bexp_succ x hx).le

theorem rnePos_ge_bot (x : ℚ) (hx : 0 < x) (h : -126 ≤ lg x) : (2:ℚ)^(lg x) ≤ rnePos x := by
  have hb : bexp x = lg x := by unfold bexp; omega
  rw [rnePos_eq, ulpExp_bexp, hb, ← grid_bot]
  apply grid_ge
  rw [grid_bot]; exact (lg_spec x hx).1

theorem rnePos_mono (x y : ℚ) (hx : 0 < x) (hxy : x ≤ y) : rnePos x ≤ rnePos y := by
  have hy : 0 < y := lt_of_lt_of_le hx hxy
  have hl := lg_mono x y hx hxy
  by_cases hb : bexp x = bexp y
  · rw [rnePos_eq, rnePos_eq, ulpExp_bexp, ulpExp_bexp, hb]
    exact grid_mono x y hx.le hxy _
  · have hlt : bexp x < bexp y := by unfold bexp at *; omega
    have hy126 : -126 ≤ lg y ∧ bexp y = lg y := by unfold bexp at *; omega
    calc rnePos x ≤ (2:ℚ)^(bexp x + 1) := rnePos_le_top x hx
      _ ≤ (2:ℚ)^(lg y) := (zpow_le_iff _ _).2 (by omega)
      _ ≤ rnePos y := rnePos_ge_bot y hy hy126.1

/-! ### `rne32` -/

theorem rne32_zero : rne32 0 = 0 := by simp [rne32]

theorem rne32_pos (x : ℚ) (hx : 0 < x) : rne32 x = rnePos x := by
  unfold rne32; rw [if_neg hx.ne', if_pos hx]

theorem rne32_neg' (x : ℚ) (hx : x < 0) : rne32 x = - rnePos (-x) := by
  unfold rne32; rw [if_neg hx.ne, if_neg (not_lt.2 hx.le)]

theorem rne32_neg (x : ℚ) : rne32 (-x) = - rne32 x := by
  rcases lt_trichotomy x 0 with h | h | h
  · rw [rne32_neg' x h, rne32_pos (-x) (by linarith), neg_neg]
  · subst h; simp [rne32_zero]
  · rw [rne32_pos x h, rne32_neg' (-x) (by linarith), neg_neg]

theorem rne32_nonneg (x : ℚ) (hx : 0 ≤ x) : 0 ≤ rne32 x := by
  rcases eq_or_lt_of_le hx with h | h
  · rw [← h, rne32_zero]
  · rw [rne32_pos x h]; exact rnePos_nonneg x

theorem rne32_nonpos (x : ℚ) (hx : x ≤ 0) : rne32 x ≤ 0 := by
  have := rne32_nonneg (-x) (by linarith)
  rw [rne32_neg] at this; linarith

theorem rne32_mono (x y : ℚ) (h : x ≤ y) : rne32 x ≤ rne32 y := by
  rcases lt_trichotomy x 0 with hx | hx | hx
  · rcases lt_or_ge y 0 with hy | hy
    · rw [rne32_neg' x hx, rne32_neg' y hy]
      have := rnePos_mono (-y) (-x) (by linarith) (by linarith)
      linarith
    · exact le_trans (rne32_nonpos x hx.le) (rne32_nonneg y hy)
  · subst hx; rw [rne32_zero]; exact rne32_nonneg y h
  · rw [rne32_pos x hx, rne32_pos y (lt_of_lt_of_le hx h)]
    exact rnePos_mono x y hx h

theorem rne32_abs (x : ℚ) : |rne32 x| = rne32 |x| := by
  rcases le_total 0 x with h | h
  · rw [abs_of_nonneg h, abs_of_nonneg (rne32_nonneg x h)]
  · rw [abs_of_nonpos h, abs_of_nonpos (rne32_nonpos x h), rne32_neg]

/-- error of `rne32` in terms of the error on `|x|` -/
theorem rne32_err_abs (x : ℚ) : |rne32 x - x| = |rne32 (|x|) - (|x|)| := by
  rcases le_total 0 x with h | h
  · rw [abs_of_nonneg h]
  · rw [abs_of_nonpos h, rne32_neg, ← abs_neg]; congr 1; ring

theorem rnePos_rel (x : ℚ) (hx : 0 < x) (h : (2:ℚ)^(-126:ℤ) ≤ x) :
    (|rnePos x - x|) ≤ x / 2^24 := by
  have hl : -126 ≤ lg x := (lg_ge_iff x hx _).2 h
  have hu : ulpExp x = lg x - 23 := by rw [ulpExp_bexp]; unfold bexp; omega
  have h1 := rnePos_err x hx
  rw [hu] at h1
  have h2 := (lg_spec x hx).1
  have e : (2:ℚ)^(lg x - 23) / 2 = (2:ℚ)^(lg x) / 2^24 := by
    have : (2:ℚ)^(lg x) = 2^(lg x - 23) * 2^(23:ℤ) := by
      rw [← zpow_add₀ (by norm_num)]; congr 1; ring
    rw [this, two_pow_23]; norm_num; ring
  rw [e] at h1
  have : (2:ℚ)^(lg x) / 2^24 ≤ x / 2^24 := div_le_div_of_nonneg_right h2 (by positivity)
  linarith

theorem rne32_rel (x : ℚ) (h : (2:ℚ)^(-126:ℤ) ≤ |x|) : |rne32 x - x| ≤ |x| / 2^24 := by
  have hp : (0:ℚ) < |x| := lt_of_lt_of_le (by positivity) h
  rw [rne32_err_abs, rne32_pos _ hp]
  exact rnePos_rel _ hp h

theorem rnePos_abs_subnormal (x : ℚ) (hx : 0 < x) (h : x < (2:ℚ)^(-126:ℤ)) :
    |rnePos x - x| ≤ (2:ℚ)^(-150:ℤ) := by
  have hl : lg x < -126 := (lg_lt_iff x hx _).2 h
  have hu : ulpExp x = -149 := by rw [ulpExp_bexp]; unfold bexp; omega
  have h1 := rnePos_err x hx
  rw [hu] at h1
  have e : (2:ℚ)^(-149:ℤ) / 2 = (2:ℚ)^(-150:ℤ) := by
    have : (2:ℚ)^(-149:ℤ) = 2^(-150:ℤ) * 2^(1:ℤ) := by
      rw [← zpow_add₀ (by norm_num)]; congr 1
    rw [this]; norm_num
  rw [e] at h1; exact h1

theorem rne32_abs_subnormal (x : ℚ) (h : |x| < (2:ℚ)^(-126:ℤ)) : |rne32 x - x| ≤ (2:ℚ)^(-150:ℤ) := by
  rcases eq_or_lt_of_le (abs_nonneg x) with h0 | hp
  · have : x = 0 := abs_eq_zero.1 h0.symm
    subst this; rw [rne32_zero]; simp
  · rw [rne32_err_abs, rne32_pos _ hp]
    exact rnePos_abs_subnormal _ hp h

/-! ### representable values are fixed points -/

theorem grid_exact (ue : ℤ) (K : ℕ) :
    (roundHalfEven ((K * (2:ℚ)^ue) / (2:ℚ)^ue) : ℚ) * (2:ℚ)^ue = K * (2:ℚ)^ue := by
  have hp : (0:ℚ) < 2^ue := by positivity
  have : (K * (2:ℚ)^ue) / (2:ℚ)^ue = (K:ℚ) := by field_simp
  rw [this, roundHalfEven_natCast]

theorem zpow_split (e ue : ℤ) (h : ue ≤ e) : (2:ℚ)^e = ((2 ^ (e - ue).toNat : ℕ) : ℚ) * (2:ℚ)^ue := by
  have h1 : ((2 ^ (e - ue).toNat : ℕ) : ℚ) = (2:ℚ)^(((e - ue).toNat : ℕ) : ℤ) := by
    rw [zpow_natCast]; push_cast; rfl
  rw [h1, Int.toNat_of_nonneg (by omega), ← zpow_add₀ (by norm_num)]; congr 1; ring

theorem rnePos_of_representable (m : ℕ) (e : ℤ) (hm0 : 0 < m) (hm : m < 2^24) (he : -149 ≤ e) :
    rnePos (m * (2:ℚ)^e) = m * (2:ℚ)^e := by
  have hmQ : (0:ℚ) < m := by exact_mod_cast hm0
  have hx : (0:ℚ) < m * (2:ℚ)^e := by positivity
  have hlt : (m:ℚ) * (2:ℚ)^e < (2:ℚ)^(24 + e) := by
    rw [zpow_add₀ (by norm_num), two_pow_24]
    have : (m:ℚ) < 16777216 := by exact_mod_cast hm
    exact mul_lt_mul_of_pos_right this (by positivity)
  have hl : lg (m * (2:ℚ)^e) < 24 + e := (lg_lt_iff _ hx _).2 hlt
  have hu : ulpExp (m * (2:ℚ)^e) ≤ e := by rw [ulpExp_bexp]; unfold bexp; omega
  rw [rnePos_eq]
  generalize ulpExp (m * (2:ℚ)^e) = ue at hu
  have e1 : (m:ℚ) * (2:ℚ)^e = ((m * 2 ^ (e - ue).toNat : ℕ) : ℚ) * (2:ℚ)^ue := by
    rw [zpow_split e ue hu]; push_cast; ring
  rw [e1]; exact grid_exact ue _

theorem rne32_of_representable (m : ℤ) (e : ℤ) (hm : |m| < 2^24) (he : -149 ≤ e) :
    rne32 (m * (2:ℚ)^e) = m * (2:ℚ)^e := by
  rw [abs_lt] at hm
  rcases lt_trichotomy m 0 with h | h | h
  · obtain ⟨k, hk⟩ := Int.eq_ofNat_of_zero_le (by omega : 0 ≤ -m)
    have hm' : m = -(k:ℤ) := by omega
    subst hm'
    have hp : (0:ℚ) < (k:ℚ) * (2:ℚ)^e := by
      have : (0:ℚ) < (k:ℚ) := by exact_mod_cast (by omega : 0 < k)
      positivity
    push_cast
    rw [neg_mul, rne32_neg, rne32_pos _ hp, rnePos_of_representable k e (by omega) (by omega) he]
  · subst h; simp [rne32_zero]
  · obtain ⟨k, hk⟩ := Int.eq_ofNat_of_zero_le h.le
    subst hk
    have hp : (0:ℚ) < (k:ℚ) * (2:ℚ)^e := by
      have : (0:ℚ) < (k:ℚ) := by exact_mod_cast (by omega : 0 < k)
      positivity
    push_cast
    rw [rne32_pos _ hp, rnePos_of_representable k e (by omega) (by omega) he]

/-- `10^9 = 1953125 · 2^9` and `1953125 < 2^24` -/
theorem rne32_e9 : rne32 1000000000 = 1000000000 := by
  have h := rne32_of_representable 1953125 9 (by norm_num) (by norm_num)
  have e : ((1953125 : ℤ) : ℚ) * (2:ℚ)^(9:ℤ) = 1000000000 := by norm_num
  rw [e] at h; exact h

theorem rne32_two_zpow (k : ℤ) (hk : -149 ≤ k) : rne32 ((2:ℚ)^k) = (2:ℚ)^k := by
  have h := rne32_of_representable 1 k (by norm_num) hk
  simpa using h

theorem rne32_intCast_small (n : ℤ) (h : |n| ≤ 2^24) : rne32 n = n := by
  rcases lt_or_eq_of_le h with h1 | h1
  · have := rne32_of_representable n 0 h1 (by norm_num)
    simpa using this
  · -- |n| = 2^24 = 2^23 · 2
    rcases abs_eq (by norm_num : (0:ℤ) ≤ 2^24) |>.1 h1 with h2 | h2
    · subst h2
      have := rne32_two_zpow 24 (by norm_num)
      rw [two_pow_24] at this
      norm_num; exact this
    · subst h2
      have := rne32_two_zpow 24 (by norm_num)
      rw [two_pow_24] at this
      have e : (((-(2:ℤ)^24 : ℤ)) : ℚ) = -(16777216 : ℚ) := by norm_num
      rw [e, rne32_neg, this]

/-- every result of `rnePos` is representable: `m · 2^e` with `m < 2^24`, `e ≥ −149` -/
theorem rnePos_representable (x : ℚ) (hx : 0 < x) :
    ∃ (m : ℕ) (e : ℤ), m < 2^24 ∧ -149 ≤ e ∧ rnePos x = m * (2:ℚ)^e := by
  have hue : -149 ≤ ulpExp x := by rw [ulpExp_bexp]; unfold bexp; omega
  have hN : roundHalfEven (x / (2:ℚ)^(ulpExp x)) ≤ 16777216 := by
    have hp : (0:ℚ) < 2^(ulpExp x) := by positivity
    have h1 : x / (2:ℚ)^(ulpExp x) ≤ ((16777216 : ℕ) : ℚ) := by
      rw [div_le_iff₀ hp, ulpExp_bexp, grid_top]; exact (lt_bexp_succ x hx).le
    have h2 := roundHalfEven_mono _ _ (by positivity) h1
    rw [roundHalfEven_natCast] at h2; exact h2
  rcases lt_or_eq_of_le hN with h | h
  · exact ⟨_, ulpExp x, by norm_num; exact h, hue, rnePos_eq x⟩
  · refine ⟨8388608, ulpExp x + 1, by norm_num, by omega, ?_⟩
    rw [rnePos_eq, h, zpow_succ2]; push_cast; ring

theorem rnePos_idem (x : ℚ) (hx : 0 < x) : rne32 (rnePos x) = rnePos x := by
  obtain ⟨m, e, hm, he, h⟩ := rnePos_representable x hx
  rw [h]
  have := rne32_of_representable (m:ℤ) e (by rw [abs_of_nonneg (by positivity)]; exact_mod_cast hm) he
  exact_mod_cast this

theorem rne32_idem (x : ℚ) : rne32 (rne32 x) = rne32 x := by
  rcases lt_trichotomy x 0 with h | h | h
  · rw [rne32_neg' x h, rne32_neg, rnePos_idem _ (by linarith)]
  · subst h; rw [rne32_zero, rne32_zero]
  · rw [rne32_pos x h, rnePos_idem x h]

/-! ### the model's bit-level and `overflows` auxiliaries agree with these facts on examples -/
example : rne32 (1/3) = 11184811 / 33554432 := by decide +kernel
example : rne32 1000000001 = 1000000000 := by decide +kernel
example : rne32 16777217 = 16777216 := by decide +kernel      -- tie to even
example : rne32 16777219 = 16777220 := by decide +kernel      -- tie to even (up)
example : rne32 ((2:ℚ)^(-150:ℤ)) = 0 := by
  have : (2:ℚ)^(-150:ℤ) = 1 / 1427247692705959881058285969449495136382746624 := by norm_num
  rw [this]; decide +kernel

/-- `overflows` is exactly "the unbounded-exponent result has magnitude `≥ 2^128`" -/
theorem overflows_iff (x : ℚ) : overflows x = true ↔ (2:ℚ)^(128:ℤ) ≤ |rne32 x| := by
  unfold overflows
  rw [decide_eq_true_iff, pow2_eq]
  by_cases h : 0 ≤ rne32 x
  · rw [if_pos h, abs_of_nonneg h]
  · rw [if_neg h, abs_of_neg (not_le.1 h)]

/-! ### non-vacuity of the hypotheses -/
example : (2:ℚ)^(-126:ℤ) ≤ |(1/3 : ℚ)| := by
  rw [abs_of_pos (by norm_num)]
  exact le_trans ((zpow_le_iff (-126) (-2)).2 (by norm_num)) (by norm_num)
example : |((2:ℚ)^(-130:ℤ))| < (2:ℚ)^(-126:ℤ) := by
  rw [abs_of_pos (by positivity)]; exact (zpow_lt_iff _ _).2 (by norm_num)
example : |(1953125 : ℤ)| < 2^24 ∧ (-149 : ℤ) ≤ 9 := by decide
example : |(-16777216 : ℤ)| ≤ 2^24 := by decide

end Rrtk.Thm.SoftFloat
