/-
The finite binary32 numbers as a scalar type for the generic rrtk model, and the "tier L" laws proved for it.

`Rrtk/SoftFloat.lean` defines `rne32 : ℚ → ℚ`, IEEE-754 binary32 round-to-nearest-even (24-bit significand, gradual
underflow, exponent unbounded upward).  A rational `x` is a (finite) binary32 value iff it is a fixed point of `rne32`
(`Rep x`; by `rep_iff` this is "`x = m·2^e` with `|m| < 2^24`, `e ≥ −149`").  `SF` is the type of those values; its
`+ − * /` are the EXACT rational operation followed by `rne32`, negation and `abs` are exact, `n as f32` is `rne32 n`,
`x as i64` is truncation toward zero followed by saturation.  For operands whose rounded result stays below `2^128` in
magnitude this is bit-for-bit what the hardware computes (group `sf` of the correspondence check), except that `SF` has
a single zero: `+0.0` and `−0.0` are identified.

Several property theorems of the model ("tier L") assume laws of the scalar type by name (`hcomm`, `hzero`, `hneg`,
`hmul`, `hto`, `hadd`, `htrans`, `hz`, …).  Here every one of them is PROVED for `SF`, so the corollaries in
`Rrtk/Thm/Ext/*.lean` (`*_binary32`) have no arithmetic hypothesis left.  What is NOT a law is shown by counterexamples
at the end (`+` is not associative, halving is not invertible on subnormals), so the type is a faithful rounding model
and not a field in disguise.
-/
import Rrtk.Scalar
import Rrtk.SoftFloat
import Rrtk.Thm.Lemmas.SoftFloat
import Rrtk.Thm.Lemmas.C18Rounding
import Mathlib.Tactic.Ring
import Mathlib.Tactic.Linarith
import Mathlib.Tactic.Positivity
import Mathlib.Tactic.NormNum
import Mathlib.Algebra.Order.Floor.Ring
import Mathlib.Data.Rat.Floor
set_option linter.unusedSectionVars false
set_option linter.unusedSimpArgs false
namespace Rrtk.Thm.SoftScalar
open Rrtk Rrtk.Soft Rrtk.Thm.SoftFloat
open Rrtk.Thm.C18 (trunc satI64)

/-! ### the carrier -/

/-- `x` is a finite binary32 value (of the format with unbounded exponent): rounding leaves it unchanged -/
def Rep (x : ℚ) : Prop := rne32 x = x

instance (x : ℚ) : Decidable (Rep x) := inferInstanceAs (Decidable (rne32 x = x))

/-- the finite binary32 numbers (one zero) -/
structure SF where
  val : ℚ
  rep : Rep val

theorem SF.ext {a b : SF} (h : a.val = b.val) : a = b := by
  cases a; cases b; cases h; rfl

theorem SF.ext_iff {a b : SF} : a = b ↔ a.val = b.val := ⟨fun h => by rw [h], SF.ext⟩

/-- the correctly rounded value of an exact result -/
def rnd (x : ℚ) : SF := ⟨rne32 x, rne32_idem x⟩

theorem rep_rne32 (x : ℚ) : Rep (rne32 x) := rne32_idem x
theorem rep_zero : Rep 0 := rne32_zero
theorem rep_neg {x : ℚ} (h : Rep x) : Rep (-x) := by unfold Rep at *; rw [rne32_neg, h]
theorem rep_abs {x : ℚ} (h : Rep x) : Rep |x| := by unfold Rep at *; rw [← rne32_abs, h]
theorem rep_of_representable (m e : ℤ) (hm : |m| < 2 ^ 24) (he : -149 ≤ e) : Rep (m * (2:ℚ) ^ e) :=
  rne32_of_representable m e hm he
theorem rep_intCast_small (n : ℤ) (h : |n| ≤ 2 ^ 24) : Rep (n : ℚ) := rne32_intCast_small n h

/-- a value built from a significand and an exponent -/
def SF.mk' (m e : ℤ) (hm : |m| < 2 ^ 24) (he : -149 ≤ e) : SF := ⟨m * (2:ℚ) ^ e, rep_of_representable m e hm he⟩

instance : Add SF := ⟨fun a b => rnd (a.val + b.val)⟩
instance : Sub SF := ⟨fun a b => rnd (a.val - b.val)⟩
instance : Mul SF := ⟨fun a b => rnd (a.val * b.val)⟩
/-- `x / 0` is `rne32 (x / 0) = rne32 0 = 0` (the hardware gives ±∞/NaN: outside the finite fragment) -/
instance : Div SF := ⟨fun a b => rnd (a.val / b.val)⟩
instance : Neg SF := ⟨fun a => ⟨-a.val, rep_neg a.rep⟩⟩
instance : LT SF := ⟨fun a b => a.val < b.val⟩
instance : LE SF := ⟨fun a b => a.val ≤ b.val⟩
instance : BEq SF := ⟨fun a b => decide (a.val = b.val)⟩
instance : DecidableLT SF := fun a b => inferInstanceAs (Decidable (a.val < b.val))
instance : DecidableLE SF := fun a b => inferInstanceAs (Decidable (a.val ≤ b.val))
instance : DecidableEq SF := fun a b => decidable_of_iff (a.val = b.val) SF.ext_iff.symm
/-- `n as f32` rounds; `x as i64` truncates toward zero and saturates; `abs` is exact; `powf` is a placeholder (no law
about it is used or claimed: the `powf` hypotheses of C12 stay hypotheses). -/
instance : FloatLike SF :=
  ⟨fun n => rnd (n : ℚ), fun x => satI64 (trunc x.val), fun _ _ => rnd 1, fun x => ⟨|x.val|, rep_abs x.rep⟩⟩

/-! ### the operations, value by value -/

@[simp] theorem rnd_val (x : ℚ) : (rnd x).val = rne32 x := rfl
@[simp] theorem add_val (a b : SF) : (a + b).val = rne32 (a.val + b.val) := rfl
@[simp] theorem sub_val (a b : SF) : (a - b).val = rne32 (a.val - b.val) := rfl
@[simp] theorem mul_val (a b : SF) : (a * b).val = rne32 (a.val * b.val) := rfl
@[simp] theorem div_val (a b : SF) : (a / b).val = rne32 (a.val / b.val) := rfl
@[simp] theorem neg_val (a : SF) : (-a).val = -a.val := rfl
@[simp] theorem abs_val (a : SF) : (FloatLike.absF a).val = |a.val| := rfl
theorem ofInt_val (n : Int) : (FloatLike.ofInt n : SF).val = rne32 (n : ℚ) := rfl
theorem toInt_eq (a : SF) : FloatLike.toInt a = satI64 (trunc a.val) := rfl
theorem le_def (a b : SF) : a ≤ b ↔ a.val ≤ b.val := Iff.rfl
theorem lt_def (a b : SF) : a < b ↔ a.val < b.val := Iff.rfl
theorem beq_def (a b : SF) : (a == b) = decide (a.val = b.val) := rfl
@[simp] theorem rne32_val (a : SF) : rne32 a.val = a.val := a.rep

/-- `n as f32` is exact up to `2^24` in magnitude -/
theorem ofInt_val_small (n : Int) (h : |n| ≤ 2 ^ 24) : (FloatLike.ofInt n : SF).val = n := by
  rw [ofInt_val, rne32_intCast_small n h]

@[simp] theorem c0_val : (c0 : SF).val = 0 := by
  have := ofInt_val_small 0 (by norm_num); simpa using this
@[simp] theorem c1_val : (c1 : SF).val = 1 := by
  have := ofInt_val_small 1 (by norm_num); simpa using this
@[simp] theorem c2_val : (c2 : SF).val = 2 := by
  have := ofInt_val_small 2 (by norm_num); simpa using this
@[simp] theorem c3_val : (c3 : SF).val = 3 := by
  have := ofInt_val_small 3 (by norm_num); simpa using this
@[simp] theorem cm1_val : (cm1 : SF).val = -1 := by
  have := ofInt_val_small (-1) (by norm_num); simpa using this
@[simp] theorem c1e9_val : (c1e9 : SF).val = 1000000000 := by
  show rne32 ((1000000000 : ℤ) : ℚ) = 1000000000
  have : ((1000000000 : ℤ) : ℚ) = 1000000000 := by norm_num
  rw [this, rne32_e9]
theorem rne32_half : rne32 (1 / 2) = 1 / 2 := by
  have h := rne32_two_zpow (-1) (by norm_num)
  have e : (2:ℚ) ^ (-1:ℤ) = 1 / 2 := by norm_num
  rw [e] at h; exact h
@[simp] theorem chalf_val : (chalf : SF).val = 1 / 2 := by
  show rne32 ((c1 : SF).val / (c2 : SF).val) = 1 / 2
  rw [c1_val, c2_val, rne32_half]

/-! ### the tier-L laws -/

/-- `x + y = y + x` (`hcomm` of C04, `hadd` of C09) -/
theorem add_comm' : ∀ x y : SF, x + y = y + x := fun x y => SF.ext (by simp [add_comm])

/-- `x * y = y * x` (`hcomm` of C01, C18) -/
theorem mul_comm' : ∀ x y : SF, x * y = y * x := fun x y => SF.ext (by simp [mul_comm])

/-- `0.0 + x = x` (`hzero` of C04, C12).  In the hardware format this fails, bitwise, exactly at `x = −0.0`
(`0.0 + −0.0 = +0.0`); `SF` has one zero, and the two results compare equal with `==`. -/
theorem zero_add' : ∀ x : SF, (c0 : SF) + x = x := fun x => SF.ext (by simp)

theorem add_zero' : ∀ x : SF, x + (c0 : SF) = x := fun x => SF.ext (by simp)

/-- `-(-x) = x` (`hneg` of C13) -/
theorem neg_neg' : ∀ x : SF, -(-x) = x := fun x => SF.ext (by simp)

theorem mul_one' : ∀ x : SF, x * c1 = x := fun x => SF.ext (by simp)
theorem one_mul' : ∀ x : SF, (c1 : SF) * x = x := fun x => SF.ext (by simp)
theorem mul_zero' : ∀ x : SF, x * c0 = c0 := fun x => SF.ext (by simp [rne32_zero])
theorem zero_mul' : ∀ x : SF, (c0 : SF) * x = c0 := fun x => SF.ext (by simp [rne32_zero])
theorem div_one' : ∀ x : SF, x / c1 = x := fun x => SF.ext (by simp)
theorem sub_zero' : ∀ x : SF, x - c0 = x := fun x => SF.ext (by simp)
theorem sub_self' : ∀ x : SF, x - x = c0 := fun x => SF.ext (by simp [rne32_zero])
theorem add_neg_self' : ∀ x : SF, x + -x = c0 := fun x => SF.ext (by simp [rne32_zero])
theorem sub_eq_add_neg' : ∀ x y : SF, x - y = x + -y := fun x y => SF.ext (by simp [sub_eq_add_neg])
theorem neg_add' : ∀ x y : SF, -(x + y) = -x + -y := fun x y => SF.ext (by
  simp only [neg_val, add_val, ← rne32_neg]; congr 1; ring)
theorem neg_sub' : ∀ x y : SF, -(x - y) = y - x := fun x y => SF.ext (by
  simp only [neg_val, sub_val, ← rne32_neg]; congr 1; ring)
theorem neg_mul' : ∀ x y : SF, -x * y = -(x * y) := fun x y => SF.ext (by
  simp only [neg_val, mul_val, ← rne32_neg]; congr 1; ring)
theorem mul_neg' : ∀ x y : SF, x * -y = -(x * y) := fun x y => SF.ext (by
  simp only [neg_val, mul_val, ← rne32_neg]; congr 1; ring)
theorem neg_div' : ∀ x y : SF, -x / y = -(x / y) := fun x y => SF.ext (by
  simp only [neg_val, div_val, ← rne32_neg]; congr 1; ring)
theorem mul_cm1' : ∀ x : SF, x * cm1 = -x := fun x => SF.ext (by simp [rne32_neg])

/-! #### order -/

theorem le_refl' : ∀ a : SF, a ≤ a := fun a => le_refl a.val
/-- `≤` is transitive (`htrans` of C06) -/
theorem le_trans' : ∀ a b c : SF, a ≤ b → b ≤ c → a ≤ c := fun _ _ _ h1 h2 => le_trans (α := ℚ) h1 h2
theorem le_antisymm' : ∀ a b : SF, a ≤ b → b ≤ a → a = b := fun _ _ h1 h2 => SF.ext (le_antisymm h1 h2)
theorem le_total' : ∀ a b : SF, a ≤ b ∨ b ≤ a := fun a b => le_total a.val b.val
theorem lt_iff_not_le' : ∀ a b : SF, a < b ↔ ¬ b ≤ a := fun a b => (not_le (a := b.val) (b := a.val)).symm
theorem lt_trans' : ∀ a b c : SF, a < b → b < c → a < c := fun _ _ _ h1 h2 => lt_trans (α := ℚ) h1 h2
theorem beq_iff_eq' : ∀ a b : SF, (a == b) = true ↔ a = b := fun a b => by
  rw [beq_def, decide_eq_true_iff, SF.ext_iff]

/-- every operation is monotone because rounding is -/
theorem add_mono : ∀ a b c d : SF, a ≤ b → c ≤ d → a + c ≤ b + d := fun _ _ _ _ h1 h2 =>
  rne32_mono _ _ (add_le_add h1 h2)
theorem sub_mono : ∀ a b c d : SF, a ≤ b → d ≤ c → a - c ≤ b - d := fun _ _ _ _ h1 h2 =>
  rne32_mono _ _ (sub_le_sub h1 h2)
theorem neg_mono : ∀ a b : SF, a ≤ b → -b ≤ -a := fun _ _ h => neg_le_neg (α := ℚ) h
theorem mul_mono_of_nonneg : ∀ a b c : SF, (c0 : SF) ≤ c → a ≤ b → a * c ≤ b * c := fun a b c hc h => by
  have hc' : (0:ℚ) ≤ c.val := by have := (le_def _ _).1 hc; rwa [c0_val] at this
  exact rne32_mono _ _ (mul_le_mul_of_nonneg_right h hc')
theorem div_mono_of_nonneg : ∀ a b c : SF, (c0 : SF) ≤ c → a ≤ b → a / c ≤ b / c := fun a b c hc h => by
  have hc' : (0:ℚ) ≤ c.val := by have := (le_def _ _).1 hc; rwa [c0_val] at this
  exact rne32_mono _ _ (div_le_div_of_nonneg_right h hc')

/-- multiplying by `1e9` is monotone (`hmul` of C06) -/
theorem mul_e9_mono : ∀ a b : SF, a ≤ b → a * c1e9 ≤ b * c1e9 := fun a b h => by
  rw [le_def, mul_val, mul_val, c1e9_val]
  exact rne32_mono _ _ (mul_le_mul_of_nonneg_right h (by norm_num))

theorem trunc_mono (x y : ℚ) (h : x ≤ y) : trunc x ≤ trunc y := by
  unfold trunc
  split <;> split
  · exact Int.floor_le_floor h
  · rename_i h1 h2; exact absurd (le_trans h1 h) h2
  · rename_i h1 h2
    have a1 : (0:ℤ) ≤ ⌊-x⌋ := Int.floor_nonneg.2 (by linarith [not_le.1 h1])
    have a2 : (0:ℤ) ≤ ⌊y⌋ := Int.floor_nonneg.2 h2
    omega
  · have := Int.floor_le_floor (neg_le_neg h)
    omega

theorem satI64_mono (m n : Int) (h : m ≤ n) : satI64 m ≤ satI64 n := by unfold satI64; omega

/-- the cast `as i64` is monotone (`hto` of C06) -/
theorem toInt_mono : ∀ a b : SF, a ≤ b → FloatLike.toInt a ≤ FloatLike.toInt b := fun _ _ h =>
  satI64_mono _ _ (trunc_mono _ _ h)

/-- adding a non-negative number does not decrease a number (`hadd` of C06): `rne32 (a + b) ≥ rne32 a = a` -/
theorem le_add_of_nonneg : ∀ a b : SF, (c0 : SF) ≤ a → (c0 : SF) ≤ b → a ≤ a + b := fun a b _ hb => by
  have hb' : (0:ℚ) ≤ b.val := by have := (le_def _ _).1 hb; rwa [c0_val] at this
  rw [le_def, add_val]
  calc a.val = rne32 a.val := a.rep.symm
    _ ≤ rne32 (a.val + b.val) := rne32_mono _ _ (by linarith)

/-- the same without the (unused) sign condition on `a` -/
theorem le_add_right' : ∀ a b : SF, (c0 : SF) ≤ b → a ≤ a + b := fun a b hb => by
  have hb' : (0:ℚ) ≤ b.val := by have := (le_def _ _).1 hb; rwa [c0_val] at this
  rw [le_def, add_val]
  calc a.val = rne32 a.val := a.rep.symm
    _ ≤ rne32 (a.val + b.val) := rne32_mono _ _ (by linarith)

theorem add_nonneg' : ∀ a b : SF, (c0 : SF) ≤ a → (c0 : SF) ≤ b → (c0 : SF) ≤ a + b := fun a b ha hb =>
  le_trans' _ _ _ ha (le_add_of_nonneg a b ha hb)

theorem trunc_zero : trunc 0 = 0 := by simp [trunc]
theorem satI64_zero : satI64 0 = 0 := by decide

/-- `(0.0 * 1e9) as i64 = 0` (`hz` of C06) -/
theorem toInt_zero_mul : FloatLike.toInt ((c0 : SF) * c1e9) = 0 := by
  rw [toInt_eq, mul_val, c0_val, zero_mul, rne32_zero, trunc_zero, satI64_zero]

theorem toInt_c0 : FloatLike.toInt (c0 : SF) = 0 := by rw [toInt_eq, c0_val, trunc_zero, satI64_zero]

/-! #### absolute value (`habs_nonneg`, `habs_neg` of C19) -/

theorem abs_of_nonneg' : ∀ v : SF, (c0 : SF) ≤ v → FloatLike.absF v = v := fun v h => by
  have h' : (0:ℚ) ≤ v.val := by have := (le_def _ _).1 h; rwa [c0_val] at this
  exact SF.ext (by rw [abs_val, abs_of_nonneg h'])

theorem abs_of_not_nonneg' : ∀ v : SF, ¬ (c0 : SF) ≤ v → FloatLike.absF v = -v := fun v h => by
  have h' : v.val < 0 := by
    have : ¬ (c0 : SF).val ≤ v.val := h
    rw [c0_val] at this; exact not_le.1 this
  exact SF.ext (by rw [abs_val, neg_val, abs_of_neg h'])

theorem abs_nonneg' : ∀ v : SF, (c0 : SF) ≤ FloatLike.absF v := fun v => by
  rw [le_def, c0_val, abs_val]; exact abs_nonneg _

/-! ### the shape of a binary32 value, and exact doubling -/

/-- a rational is a binary32 value iff it is `m · 2^e` with a 24-bit significand and `e ≥ −149` -/
theorem rep_iff (x : ℚ) : Rep x ↔ ∃ m e : ℤ, |m| < 2 ^ 24 ∧ -149 ≤ e ∧ x = m * (2:ℚ) ^ e := by
  constructor
  · intro h
    rcases lt_trichotomy x 0 with hx | hx | hx
    · obtain ⟨m, e, hm, he, hr⟩ := rnePos_representable (-x) (by linarith)
      refine ⟨-(m:ℤ), e, ?_, he, ?_⟩
      · rw [abs_neg, abs_of_nonneg (by positivity)]; exact_mod_cast hm
      · have : x = -rnePos (-x) := by rw [← rne32_neg' x hx]; exact h.symm
        rw [this, hr]; push_cast; ring
    · exact ⟨0, 0, by norm_num, by norm_num, by simp [hx]⟩
    · obtain ⟨m, e, hm, he, hr⟩ := rnePos_representable x hx
      refine ⟨(m:ℤ), e, ?_, he, ?_⟩
      · rw [abs_of_nonneg (by positivity)]; exact_mod_cast hm
      · have : x = rnePos x := by rw [← rne32_pos x hx]; exact h.symm
        rw [this, hr]; push_cast; ring
  · rintro ⟨m, e, hm, he, rfl⟩
    exact rep_of_representable m e hm he

/-- doubling is exact (the exponent is unbounded upward in the model; in hardware: unless it overflows) -/
theorem rep_two_mul {x : ℚ} (h : Rep x) : Rep (x * 2) := by
  obtain ⟨m, e, hm, he, rfl⟩ := (rep_iff x).1 h
  have : (m:ℚ) * (2:ℚ) ^ e * 2 = m * (2:ℚ) ^ (e + 1) := by rw [zpow_succ2]; ring
  rw [this]; exact rep_of_representable m (e + 1) hm (by omega)

/-- `(x * 2.0) * 0.5 = x` for every binary32 `x` — both steps are exact -/
theorem mul_two_mul_half : ∀ x : SF, (x * c2) * chalf = x := fun x => SF.ext (by
  have h2 : rne32 (x.val * 2) = x.val * 2 := rep_two_mul x.rep
  simp only [mul_val, c2_val, chalf_val, h2]
  have : x.val * 2 * (1 / 2) = x.val := by ring
  rw [this, x.rep])

/-- `0.5 * 2.0 = 1.0` -/
theorem half_mul_two : (chalf : SF) * c2 = c1 := SF.ext (by
  simp only [mul_val, c2_val, chalf_val, c1_val]
  have : (1 / 2 : ℚ) * 2 = ((1 : ℤ) : ℚ) := by norm_num
  rw [this, rne32_intCast_small 1 (by norm_num)]; norm_num)

/-! ### non-vacuity: concrete binary32 values, and operations that really round -/

/-- `1.5 = 3 · 2^-1` -/
def x1_5 : SF := SF.mk' 3 (-1) (by norm_num) (by norm_num)
/-- `1e9 = 1953125 · 2^9` -/
def x1e9 : SF := SF.mk' 1953125 9 (by norm_num) (by norm_num)
/-- the smallest positive subnormal `2^-149` -/
def xMinSub : SF := SF.mk' 1 (-149) (by norm_num) (by norm_num)
/-- `2^24` and `2^24 + 2` (consecutive binary32 values) -/
def x2p24 : SF := SF.mk' 8388608 1 (by norm_num) (by norm_num)
def x2p24p2 : SF := SF.mk' 8388609 1 (by norm_num) (by norm_num)

example : x1_5.val = 3 / 2 := by show ((3:ℤ):ℚ) * (2:ℚ) ^ (-1:ℤ) = 3 / 2; norm_num
example : x1e9 = (c1e9 : SF) := SF.ext (by
  rw [c1e9_val]; show ((1953125:ℤ):ℚ) * (2:ℚ) ^ (9:ℤ) = 1000000000; norm_num)
example : (c0 : SF) < xMinSub := by
  rw [lt_def, c0_val]; show (0:ℚ) < ((1:ℤ):ℚ) * (2:ℚ) ^ (-149:ℤ); positivity
theorem x2p24_val : x2p24.val = 16777216 := by show ((8388608:ℤ):ℚ) * (2:ℚ) ^ (1:ℤ) = 16777216; norm_num
theorem x2p24p2_val : x2p24p2.val = 16777218 := by show ((8388609:ℤ):ℚ) * (2:ℚ) ^ (1:ℤ) = 16777218; norm_num

/-- `16777216.0 + 1.0 = 16777216.0`: the addition rounds (tie to even) -/
theorem add_rounds : x2p24 + c1 = x2p24 := SF.ext (by
  rw [add_val, c1_val, x2p24_val]; decide +kernel)
/-- the same with the literals of the model: `(16777216 as f32) + 1.0 = 16777216 as f32` -/
example : (FloatLike.ofInt 16777216 : SF) + c1 = FloatLike.ofInt 16777216 := SF.ext (by
  rw [add_val, c1_val, ofInt_val]; decide +kernel)
/-- `16777217 as f32 = 16777216.0`: the conversion rounds -/
example : (FloatLike.ofInt 16777217 : SF) = FloatLike.ofInt 16777216 := SF.ext (by
  rw [ofInt_val, ofInt_val]; decide +kernel)
/-- `1.0 / 3.0` is the binary32 number `11184811 · 2^-25`, not `1/3` -/
example : ((c1 : SF) / c3).val = 11184811 / 33554432 := by
  rw [div_val, c1_val, c3_val]; decide +kernel
/-- `+` is NOT associative: `(2^24 + 1) + 1 = 2^24` but `2^24 + (1 + 1) = 2^24 + 2` -/
theorem add_not_assoc : (x2p24 + c1) + c1 ≠ x2p24 + ((c1 : SF) + c1) := by
  rw [add_rounds, add_rounds]
  intro h
  have h' := congrArg SF.val h
  rw [add_val, add_val, c1_val, x2p24_val] at h'
  revert h'; decide +kernel
/-- halving is NOT invertible on subnormals: `(2^-149 * 0.5) * 2.0 = 0` (the order in `mul_two_mul_half` matters) -/
theorem half_then_double_counterexample : (xMinSub * chalf) * c2 = c0 ∧ xMinSub ≠ c0 := by
  have hv : xMinSub.val = 1 / 713623846352979940529142984724747568191373312 := by
    show ((1:ℤ):ℚ) * (2:ℚ) ^ (-149:ℤ) = _; norm_num
  constructor
  · apply SF.ext
    rw [mul_val, mul_val, chalf_val, c2_val, c0_val, hv]; decide +kernel
  · intro h
    have h' := congrArg SF.val h
    rw [c0_val, hv] at h'; revert h'; norm_num
/-- the laws are used at non-trivial data: the hypotheses of the order laws are satisfiable -/
example : (c0 : SF) ≤ x1_5 ∧ x1_5 ≤ x1e9 := by
  constructor
  · rw [le_def, c0_val]; show (0:ℚ) ≤ ((3:ℤ):ℚ) * (2:ℚ) ^ (-1:ℤ); positivity
  · rw [le_def]; show ((3:ℤ):ℚ) * (2:ℚ) ^ (-1:ℤ) ≤ ((1953125:ℤ):ℚ) * (2:ℚ) ^ (9:ℤ); norm_num
/-- `as i64` truncates toward zero and saturates -/
example : FloatLike.toInt x1_5 = 1 ∧ FloatLike.toInt (-x1_5) = -1 := by
  have hv : x1_5.val = 3 / 2 := by show ((3:ℤ):ℚ) * (2:ℚ) ^ (-1:ℤ) = 3 / 2; norm_num
  constructor
  · rw [toInt_eq, hv]; norm_num [trunc, satI64]
  · rw [toInt_eq, neg_val, hv]; norm_num [trunc, satI64]

/-! ### what `SF` does not see: the sign of zero

`SF` identifies `+0.0` and `−0.0` (both decode to the rational `0`).  Two of the discharged laws hold in the hardware
format only up to that identification — on the bit-level model `Rrtk.Soft.binop` (same rounding, IEEE-754 §6.3 zero
signs) `0.0 + (−0.0)` is `+0.0`, so `hzero : 0.0 + x = x` fails BITWISE at the single finite value `x = −0.0`; likewise
`habs_nonneg` of C19 (`0.0 ≤ −0.0` holds and `abs (−0.0) = +0.0`).  The two sides still compare equal (`==`) and decode to
the same number, which is what the `*_binary32` corollaries state. -/
example : binop .add 0 0x80000000 = some 0 := by decide +kernel
example : binop .add 0 0x80000000 ≠ some 0x80000000 := by decide +kernel
example : decode 0 = some 0 ∧ decode 0x80000000 = some 0 := by decide +kernel
/-- at every other pair of operands tried the bit-level sum is what `SF` computes, e.g. `2^24 + 1 = 2^24`
(`0x4b800000 + 0x3f800000`) -/
example : binop .add 0x4b800000 0x3f800000 = some 0x4b800000 := by decide +kernel
example : decode 0x4b800000 = some x2p24.val ∧ decode 0x3f800000 = some (c1 : SF).val := by
  rw [x2p24_val, c1_val]; decide +kernel

end Rrtk.Thm.SoftScalar
