/-
Negation laws of the binary32 scalar `SF` (`Rrtk/Thm/Lemmas/SoftScalar.lean`) in the orientation the mirror theorem of
C07 uses them (`Rrtk/Thm/Ext/C07.lean`): negation commutes with the correctly rounded `+ − * /` (round-to-nearest-even
is an odd function, `rne32_neg`), with the comparisons, and fixes the literal `0.0` (`SF` has one zero).
-/
import Rrtk.Thm.Lemmas.SoftScalar
set_option linter.unusedSectionVars false
set_option linter.unusedSimpArgs false
namespace Rrtk.Thm.SoftScalar
open Rrtk Rrtk.Soft Rrtk.Thm.SoftFloat

/-- `(-a) + (-b) = -(a + b)` -/
theorem neg_add_neg' : ∀ a b : SF, -a + -b = -(a + b) := fun a b => (neg_add' a b).symm

/-- `(-a) - (-b) = -(a - b)` -/
theorem neg_sub_neg' : ∀ a b : SF, -a - -b = -(a - b) := fun a b => SF.ext (by
  simp only [neg_val, sub_val, ← rne32_neg]; congr 1; ring)

/-- `a / (-b) = -(a / b)` (also at `b = 0`, where both sides are `0` in `SF`) -/
theorem div_neg' : ∀ a b : SF, a / -b = -(a / b) := fun a b => SF.ext (by
  simp only [neg_val, div_val, ← rne32_neg]; congr 1; rw [div_neg])

/-- `-0.0 = 0.0`: `SF` has a single zero.  In the hardware format `-0.0` and `+0.0` differ in the sign bit and compare
equal with `==`. -/
theorem neg_c0' : -(c0 : SF) = c0 := SF.ext (by simp)

/-- `-(1.0) = -1.0` (the literal) -/
theorem neg_c1' : -(c1 : SF) = cm1 := SF.ext (by simp)

theorem neg_cm1' : -(cm1 : SF) = c1 := SF.ext (by simp)

/-- `-a < -b ↔ b < a` -/
theorem neg_lt_neg' : ∀ a b : SF, -a < -b ↔ b < a := fun a b => by
  rw [lt_def, lt_def, neg_val, neg_val]; exact neg_lt_neg_iff

/-- `-a ≤ -b ↔ b ≤ a` -/
theorem neg_le_neg' : ∀ a b : SF, -a ≤ -b ↔ b ≤ a := fun a b => by
  rw [le_def, le_def, neg_val, neg_val]; exact neg_le_neg_iff

/-- `<` is asymmetric -/
theorem lt_asymm' : ∀ a b : SF, a < b → ¬ b < a := fun a b h => by
  rw [lt_def] at *; exact lt_asymm h

/-- distinct values are strictly ordered (no NaN in `SF`) -/
theorem lt_or_gt_of_ne' : ∀ a b : SF, a ≠ b → a < b ∨ b < a := fun a b h => by
  rw [lt_def, lt_def]
  exact lt_or_gt_of_ne (fun hv => h (SF.ext hv))

/-- `(-a == -b) = (a == b)` -/
theorem neg_beq_neg' : ∀ a b : SF, (-a == -b) = (a == b) := fun a b => by
  rw [beq_def, beq_def, neg_val, neg_val]
  exact decide_eq_decide.2 neg_inj

/-- `abs (-x) = abs x` -/
theorem abs_neg' : ∀ x : SF, FloatLike.absF (-x) = FloatLike.absF x := fun x => SF.ext (by
  rw [abs_val, abs_val, neg_val, abs_neg])

/-- `(a == 0.0) = false` iff `a ≠ 0.0` -/
theorem beq_c0_false_iff (a : SF) : (a == (c0 : SF)) = false ↔ a ≠ c0 := by
  have h := beq_iff_eq' a c0
  constructor
  · intro hf he; rw [h.2 he] at hf; cases hf
  · intro hne
    cases hb : (a == (c0 : SF)) with
    | false => rfl
    | true => exact absurd (h.1 hb) hne

end Rrtk.Thm.SoftScalar
