/-
C09 (imported by the extension module Thm/Ext/C09.lean): the tie-break variant of the terminal command read that the
correspondence check accepts as a property-conformant alternative (`Rrtk/Gen/DevicesTieT1.lean`, generated textually from
`Rrtk/Devices.lean` by tools/gen.py with the one patch `g.time > c.time` ↦ `g.time ≥ c.time`) satisfies exactly the clause the
property states — "its command read is the newer of the two commands": absent iff both are, otherwise one of the two candidates
and no candidate strictly newer — and differs from the model only when the two timestamps are equal.  So accepting it never
accepts a violation of C03/C09.
-/
import Rrtk.Thm.C09
import Rrtk.Gen.DevicesTieT1
set_option linter.unusedSectionVars false
namespace Rrtk.Thm.C09
open Rrtk

variable {F : Type}

/-- the variant world with the same contents -/
def toT1 (w : World F) : TieT1.World F :=
  ⟨w.n, fun i => ⟨(w.t i).state, (w.t i).command, (w.t i).other⟩⟩

theorem t1_partnerCommand (w : World F) (i : Nat) :
    TieT1.World.partnerCommand (toT1 w) i = World.partnerCommand w i := by
  unfold TieT1.World.partnerCommand World.partnerCommand toT1
  simp only []
  cases h : (w.t i).other <;> rfl

/-- the variant's command read meets the property's clause: absent iff both absent; else one of the candidates, none strictly newer -/
theorem t1_command_read_conformant (w : World F) (i : Nat) :
    (TieT1.World.getCommand (toT1 w) i = none ↔ (w.t i).command = none ∧ World.partnerCommand w i = none) ∧
    ∀ r, TieT1.World.getCommand (toT1 w) i = some r →
      ((w.t i).command = some r ∨ World.partnerCommand w i = some r) ∧
      (∀ c, (w.t i).command = some c → c.time ≤ r.time) ∧
      (∀ g, World.partnerCommand w i = some g → g.time ≤ r.time) := by
  unfold TieT1.World.getCommand
  rw [t1_partnerCommand]
  have e : ((toT1 w).t i).command = (w.t i).command := rfl
  rw [e]
  cases hc : (w.t i).command with
  | none =>
    cases hg : World.partnerCommand w i with
    | none => simp
    | some g =>
      refine ⟨by simp, fun r hr => ?_⟩
      simp only [Option.some.injEq] at hr
      subst hr
      simp
  | some c =>
    cases hg : World.partnerCommand w i with
    | none =>
      refine ⟨by simp, fun r hr => ?_⟩
      simp only [Option.some.injEq] at hr
      subst hr
      simp
    | some g =>
      refine ⟨by simp only []; split <;> simp, fun r hr => ?_⟩
      simp only [] at hr
      split at hr
      · rename_i h
        simp only [Option.some.injEq] at hr
        subst hr
        refine ⟨Or.inr rfl, ?_, ?_⟩
        · intro c' hc'; simp only [Option.some.injEq] at hc'; subst hc'; omega
        · intro g' hg'; simp only [Option.some.injEq] at hg'; subst hg'; omega
      · rename_i h
        simp only [Option.some.injEq] at hr
        subst hr
        refine ⟨Or.inl rfl, ?_, ?_⟩
        · intro c' hc'; simp only [Option.some.injEq] at hc'; subst hc'; omega
        · intro g' hg'; simp only [Option.some.injEq] at hg'; subst hg'; omega

/-- model and variant agree unless own and partner command carry EQUAL timestamps -/
theorem t1_command_read_eq_model_unless_tie (w : World F) (i : Nat)
    (h : ∀ c g, (w.t i).command = some c → World.partnerCommand w i = some g → c.time ≠ g.time) :
    TieT1.World.getCommand (toT1 w) i = World.getCommand w i := by
  unfold TieT1.World.getCommand World.getCommand
  rw [t1_partnerCommand]
  have e : ((toT1 w).t i).command = (w.t i).command := rfl
  rw [e]
  cases hc : (w.t i).command with
  | none => rfl
  | some c =>
    cases hg : World.partnerCommand w i with
    | none => rfl
    | some g =>
      have hne := h c g hc hg
      simp only []
      by_cases h1 : g.time > c.time
      · have h2 : g.time ≥ c.time := by omega
        simp [h1, h2]
      · have h2 : ¬ g.time ≥ c.time := by omega
        simp [h1, h2]

/-- non-vacuity: a tie on which the two differ, and the hypothesis of the agreement theorem is satisfiable -/
example : TieT1.World.getCommand (toT1 (F := Int) ⟨2, fun j => if j = 0 then ⟨none, some ⟨7, .velocity 3⟩, some 1⟩ else ⟨none, some ⟨7, .position 8⟩, some 0⟩⟩) 0
    = some ⟨7, .position 8⟩ := rfl
example : World.getCommand (F := Int) ⟨2, fun j => if j = 0 then ⟨none, some ⟨7, .velocity 3⟩, some 1⟩ else ⟨none, some ⟨7, .position 8⟩, some 0⟩⟩ 0
    = some ⟨7, .velocity 3⟩ := rfl

end Rrtk.Thm.C09
