/-
Where the model's unbounded `Int` clock arithmetic IS the crate's `i64` arithmetic (DESIGN §12: "timestamps are unbounded `Int` where the
code computes in `i64`": expirer age, PID / derivative / integral `dt`, moving-average cut all compute `now - earlier` on `Time`).
`I64.add/sub/neg/mul` (`Rrtk/Dim.lean`) are the debug-build `i64` operators (overflow panics).  The theorems give the exact boundary:
an operation panics iff the exact result leaves `i64`, otherwise it is the `Int` operation; and the ranges the stream models rely on
(differences of clocks of one sign, clocks of magnitude below 2^62 — the C18 quantifier) never reach that boundary.  Core-only.
-/
import Rrtk.Dim
set_option linter.unusedSimpArgs false
namespace Rrtk.Thm.C18
open Rrtk

theorem i64_add_exact_iff (a b : Int) : I64.add a b = .ok (a + b) ↔ inI64 (a + b) := by
  unfold I64.add chkI64; by_cases h : inI64 (a + b) <;> simp [h]
theorem i64_sub_exact_iff (a b : Int) : I64.sub a b = .ok (a - b) ↔ inI64 (a - b) := by
  unfold I64.sub chkI64; by_cases h : inI64 (a - b) <;> simp [h]
theorem i64_mul_exact_iff (a b : Int) : I64.mul a b = .ok (a * b) ↔ inI64 (a * b) := by
  unfold I64.mul chkI64; by_cases h : inI64 (a * b) <;> simp [h]
theorem i64_neg_exact_iff (a : Int) : I64.neg a = .ok (-a) ↔ inI64 (-a) := by
  unfold I64.neg chkI64; by_cases h : inI64 (-a) <;> simp [h]

/-- the only other outcome is the overflow panic: an `i64` operator never returns a wrong number in a debug build -/
theorem i64_add_panics_iff (a b : Int) : I64.add a b = .error .overflow ↔ ¬ inI64 (a + b) := by
  unfold I64.add chkI64; by_cases h : inI64 (a + b) <;> simp [h]
theorem i64_sub_panics_iff (a b : Int) : I64.sub a b = .error .overflow ↔ ¬ inI64 (a - b) := by
  unfold I64.sub chkI64; by_cases h : inI64 (a - b) <;> simp [h]
theorem i64_mul_panics_iff (a b : Int) : I64.mul a b = .error .overflow ↔ ¬ inI64 (a * b) := by
  unfold I64.mul chkI64; by_cases h : inI64 (a * b) <;> simp [h]

/-- `dt = now - earlier` of two representable clocks of the SAME sign is representable: a monotone clock that starts at a non-negative
instant (every clock of the stream properties) can never overflow the `dt`, age or window-cut subtraction, whatever its magnitude. -/
theorem i64_sub_same_sign (a b : Int) (ha : inI64 a) (hb : inI64 b) (hs : (0 ≤ a ∧ 0 ≤ b) ∨ (a < 0 ∧ b < 0)) :
    I64.sub a b = .ok (a - b) := by
  rw [i64_sub_exact_iff]; unfold inI64 at *; omega

/-- clocks of either sign with magnitude below 2^62 (the C18 quantifier): sums and differences are representable -/
theorem i64_sub_within62 (a b : Int) (ha : -4611686018427387904 ≤ a ∧ a < 4611686018427387904)
    (hb : -4611686018427387904 ≤ b ∧ b < 4611686018427387904) : I64.sub a b = .ok (a - b) := by
  rw [i64_sub_exact_iff]; unfold inI64; omega
theorem i64_add_within62 (a b : Int) (ha : -4611686018427387904 ≤ a ∧ a < 4611686018427387904)
    (hb : -4611686018427387904 ≤ b ∧ b < 4611686018427387904) : I64.add a b = .ok (a + b) := by
  rw [i64_add_exact_iff]; unfold inI64; omega

/-- the bound is sharp at the top: `2^62 - (-2^62) = 2^63` is the first difference that panics -/
theorem i64_sub_sharp : I64.sub 4611686018427387904 (-4611686018427387904) = .error .overflow := by
  rw [i64_sub_panics_iff]; unfold inI64; omega

/-- mixed signs CAN overflow with representable operands (so `i64_sub_same_sign`'s hypothesis is needed): `MAX - (-1)` -/
theorem i64_sub_mixed_sign_overflows : I64.sub 9223372036854775807 (-1) = .error .overflow := by
  rw [i64_sub_panics_iff]; unfold inI64; omega

/-- negation fails only at `i64::MIN` -/
theorem i64_neg_panics_iff (a : Int) (ha : inI64 a) : I64.neg a = .error .overflow ↔ a = -9223372036854775808 := by
  unfold I64.neg chkI64 inI64 at *
  by_cases h : (-9223372036854775808 ≤ -a ∧ -a ≤ 9223372036854775807)
  · simp [h]; omega
  · simp [h]; omega

/-- non-vacuity: a realistic clock pair (1.5 s after 1 s) meets `i64_sub_same_sign`'s hypotheses -/
example : inI64 1500000000 ∧ inI64 1000000000 ∧ I64.sub 1500000000 1000000000 = .ok 500000000 := by
  refine ⟨by unfold inI64; omega, by unfold inI64; omega, ?_⟩
  exact i64_sub_same_sign 1500000000 1000000000 (by unfold inI64; omega) (by unfold inI64; omega) (Or.inl ⟨by omega, by omega⟩)

end Rrtk.Thm.C18
