/-
The `i8` exponents of `rrtk::Unit`, made explicit (DESIGN §2.1 idealisation "unit exponents are `Int` where the code has `i8`").

`src/dimensions.rs:563-564, 594-595` add and subtract the two `i8` exponents with the plain `+` / `-` operators: a debug build
(overflow checks on) panics when a result leaves `[-128, 127]`, a release build wraps modulo 256.  `I8Unit.mul/div` below are
that machine-level behaviour, over the same structure `DUnit` the model uses; the theorems say on which operands the model's
unbounded `DUnit.mul/div` IS the code (every operand pair of the C01 quantifier: 49-constant grid and random exponents up to |60|),
and what the code does on the others (so the idealisation has an exact, proved boundary instead of a sentence in DESIGN.md).
Core-only.
-/
import Rrtk.Dim
namespace Rrtk

/-- `i8` range -/
def inI8 (n : Int) : Prop := -128 ≤ n ∧ n ≤ 127
instance (n : Int) : Decidable (inI8 n) := by unfold inI8; infer_instance

/-- two's-complement wrap of an integer to `i8` (what `+`/`-` on `i8` yield with overflow checks off) -/
def wrapI8 (n : Int) : Int := (n + 128) % 256 - 128

/-- an `i8` result: `dbg = true` (overflow checks on) panics out of range, `dbg = false` wraps -/
def resI8 (dbg : Bool) (n : Int) : Except Panic Int :=
  if inI8 n then .ok n else if dbg then .error .overflow else .ok (wrapI8 n)

namespace I8Unit
/-- a `Unit` value that exists in the crate: both exponents are `i8` -/
def Wf (u : DUnit) : Prop := inI8 u.mm ∧ inI8 u.s
instance (u : DUnit) : Decidable (Wf u) := by unfold Wf; infer_instance

/-- `impl Mul for Unit` on `i8` exponents, checking compiled in (`src/dimensions.rs:559-567`): the millimetre exponent is computed
first, so its overflow is the one reported -/
def mul (dbg : Bool) (a b : DUnit) : Except Panic DUnit :=
  match resI8 dbg (a.mm + b.mm) with
  | .error e => .error e
  | .ok m => match resI8 dbg (a.s + b.s) with
    | .error e => .error e
    | .ok s => .ok ⟨m, s⟩
/-- `impl Div for Unit` on `i8` exponents (`src/dimensions.rs:590-598`) -/
def div (dbg : Bool) (a b : DUnit) : Except Panic DUnit :=
  match resI8 dbg (a.mm - b.mm) with
  | .error e => .error e
  | .ok m => match resI8 dbg (a.s - b.s) with
    | .error e => .error e
    | .ok s => .ok ⟨m, s⟩
end I8Unit

namespace Thm.C01
open I8Unit

theorem wrapI8_inI8 (n : Int) : inI8 (wrapI8 n) := by
  unfold inI8 wrapI8; omega

theorem wrapI8_id {n : Int} (h : inI8 n) : wrapI8 n = n := by
  unfold inI8 at h; unfold wrapI8; omega

/-- wrapping changes an out-of-range result (by a non-zero multiple of 256): the release build is then NOT the model -/
theorem wrapI8_ne {n : Int} (h : ¬ inI8 n) : wrapI8 n ≠ n := by
  unfold inI8 at h; unfold wrapI8; omega

theorem wrapI8_congr (n : Int) : (wrapI8 n - n) % 256 = 0 := by
  unfold wrapI8; omega

theorem resI8_ok {dbg : Bool} {n : Int} (h : inI8 n) : resI8 dbg n = .ok n := by
  simp [resI8, h]

/-- REFINEMENT, general form: whenever the exact exponent sums fit `i8`, the code's `Unit * Unit` (either overflow mode) is
the model's `DUnit.mul true`. -/
theorem unit_mul_i8_refines (dbg : Bool) (a b : DUnit) (hm : inI8 (a.mm + b.mm)) (hs : inI8 (a.s + b.s)) :
    I8Unit.mul dbg a b = .ok (DUnit.mul true a b) := by
  simp [I8Unit.mul, resI8_ok hm, resI8_ok hs, DUnit.mul]

theorem unit_div_i8_refines (dbg : Bool) (a b : DUnit) (hm : inI8 (a.mm - b.mm)) (hs : inI8 (a.s - b.s)) :
    I8Unit.div dbg a b = .ok (DUnit.div true a b) := by
  simp [I8Unit.div, resI8_ok hm, resI8_ok hs, DUnit.div]

/-- the C01 quantifier: exponents up to |60| (this contains the 49-constant grid `[-3,3]²`) -/
def Within60 (u : DUnit) : Prop := -60 ≤ u.mm ∧ u.mm ≤ 60 ∧ -60 ≤ u.s ∧ u.s ≤ 60
instance (u : DUnit) : Decidable (Within60 u) := by unfold Within60; infer_instance

theorem within60_wf {u : DUnit} (h : Within60 u) : Wf u := by
  unfold Within60 at h; unfold Wf inI8; omega

/-- REFINEMENT on everything C01 quantifies over: no operand pair with exponents up to |60| overflows, in either build mode, so
there the unbounded model IS the `i8` code, and its result is again a representable `Unit`. -/
theorem unit_mul_i8_refines_within60 (dbg : Bool) (a b : DUnit) (ha : Within60 a) (hb : Within60 b) :
    I8Unit.mul dbg a b = .ok (DUnit.mul true a b) ∧ Wf (DUnit.mul true a b) := by
  unfold Within60 at ha hb
  have hm : inI8 (a.mm + b.mm) := by unfold inI8; omega
  have hs : inI8 (a.s + b.s) := by unfold inI8; omega
  exact ⟨unit_mul_i8_refines dbg a b hm hs, by simpa [Wf, DUnit.mul] using ⟨hm, hs⟩⟩

theorem unit_div_i8_refines_within60 (dbg : Bool) (a b : DUnit) (ha : Within60 a) (hb : Within60 b) :
    I8Unit.div dbg a b = .ok (DUnit.div true a b) ∧ Wf (DUnit.div true a b) := by
  unfold Within60 at ha hb
  have hm : inI8 (a.mm - b.mm) := by unfold inI8; omega
  have hs : inI8 (a.s - b.s) := by unfold inI8; omega
  exact ⟨unit_div_i8_refines dbg a b hm hs, by simpa [Wf, DUnit.div] using ⟨hm, hs⟩⟩

/-- the bound 60 is not arbitrary slack: 63 is the largest symmetric bound that can never overflow a product … -/
theorem unit_mul_i8_refines_within63 (dbg : Bool) (a b : DUnit)
    (ha : -63 ≤ a.mm ∧ a.mm ≤ 63 ∧ -63 ≤ a.s ∧ a.s ≤ 63) (hb : -63 ≤ b.mm ∧ b.mm ≤ 63 ∧ -63 ≤ b.s ∧ b.s ≤ 63) :
    I8Unit.mul dbg a b = .ok (DUnit.mul true a b) :=
  unit_mul_i8_refines dbg a b (by unfold inI8; omega) (by unfold inI8; omega)

/-- … and at 64 the debug build panics (kernel-checked witness: mm⁶⁴ · mm⁶⁴) -/
theorem unit_mul_i8_overflow_at_64 : I8Unit.mul true ⟨64, 0⟩ ⟨64, 0⟩ = .error .overflow := by
  simp [I8Unit.mul, resI8, inI8]

/-- OUTSIDE the range, debug build: the code panics exactly when one of the exact sums leaves `i8` (so a checked debug build
never returns a wrong unit: it returns the model's unit or panics) -/
theorem unit_mul_i8_debug_iff (a b : DUnit) :
    I8Unit.mul true a b = .error .overflow ↔ ¬ (inI8 (a.mm + b.mm) ∧ inI8 (a.s + b.s)) := by
  unfold I8Unit.mul resI8
  by_cases hm : inI8 (a.mm + b.mm) <;> by_cases hs : inI8 (a.s + b.s) <;> simp [hm, hs]

theorem unit_div_i8_debug_iff (a b : DUnit) :
    I8Unit.div true a b = .error .overflow ↔ ¬ (inI8 (a.mm - b.mm) ∧ inI8 (a.s - b.s)) := by
  unfold I8Unit.div resI8
  by_cases hm : inI8 (a.mm - b.mm) <;> by_cases hs : inI8 (a.s - b.s) <;> simp [hm, hs]

/-- debug build, soundness: any unit it returns is the model's -/
theorem unit_mul_i8_debug_sound (a b u : DUnit) (h : I8Unit.mul true a b = .ok u) : u = DUnit.mul true a b := by
  unfold I8Unit.mul resI8 at h
  by_cases hm : inI8 (a.mm + b.mm) <;> by_cases hs : inI8 (a.s + b.s) <;> simp [hm, hs] at h
  simp [DUnit.mul, ← h]

theorem unit_div_i8_debug_sound (a b u : DUnit) (h : I8Unit.div true a b = .ok u) : u = DUnit.div true a b := by
  unfold I8Unit.div resI8 at h
  by_cases hm : inI8 (a.mm - b.mm) <;> by_cases hs : inI8 (a.s - b.s) <;> simp [hm, hs] at h
  simp [DUnit.div, ← h]

/-- OUTSIDE the range, release build: never panics, the result is a representable unit congruent to the exact one modulo 256,
and it differs from the exact one iff an exact sum leaves `i8` — additivity of exponents is then lost silently.  (Outside the C01
quantifier; stated so that the boundary of the idealisation is a theorem.) -/
theorem unit_mul_i8_release (a b : DUnit) :
    ∃ u, I8Unit.mul false a b = .ok u ∧ Wf u ∧
      (u.mm - (a.mm + b.mm)) % 256 = 0 ∧ (u.s - (a.s + b.s)) % 256 = 0 ∧
      (u = DUnit.mul true a b ↔ inI8 (a.mm + b.mm) ∧ inI8 (a.s + b.s)) := by
  unfold I8Unit.mul resI8
  by_cases hm : inI8 (a.mm + b.mm) <;> by_cases hs : inI8 (a.s + b.s) <;>
    simp [hm, hs, Wf, DUnit.mul, wrapI8_inI8, wrapI8_congr, wrapI8_ne]

theorem unit_div_i8_release (a b : DUnit) :
    ∃ u, I8Unit.div false a b = .ok u ∧ Wf u ∧
      (u.mm - (a.mm - b.mm)) % 256 = 0 ∧ (u.s - (a.s - b.s)) % 256 = 0 ∧
      (u = DUnit.div true a b ↔ inI8 (a.mm - b.mm) ∧ inI8 (a.s - b.s)) := by
  unfold I8Unit.div resI8
  by_cases hm : inI8 (a.mm - b.mm) <;> by_cases hs : inI8 (a.s - b.s) <;>
    simp [hm, hs, Wf, DUnit.div, wrapI8_inI8, wrapI8_congr, wrapI8_ne]

/-- kernel-checked witness of the silent loss: `mm¹⁰⁰ · mm¹⁰⁰` is `mm⁻⁵⁶` in a release build -/
theorem unit_mul_i8_release_wraps : I8Unit.mul false ⟨100, 0⟩ ⟨100, 0⟩ = .ok ⟨-56, 0⟩ := by
  simp [I8Unit.mul, resI8, inI8, wrapI8]

/-- non-vacuity of the refinement hypotheses: a pair at the corner of the quantifier -/
example : Within60 ⟨60, -60⟩ ∧ Within60 ⟨60, 60⟩ ∧
    I8Unit.mul true ⟨60, -60⟩ ⟨60, 60⟩ = .ok ⟨120, 0⟩ ∧ I8Unit.div true ⟨60, -60⟩ ⟨-60, 60⟩ = .ok ⟨120, -120⟩ := by
  simp [Within60, I8Unit.mul, I8Unit.div, resI8, inI8]

end Thm.C01
end Rrtk
