/-
Parsers and printers for the line protocol (`/verif/PROTOCOL.md`), at `F = Float32`.
Part of the trusted correspondence glue, not of the model.
-/
import Rrtk.Core
import Rrtk.F32
namespace Rrtk.Wire
open Rrtk

abbrev F := Float32

def hexDigit (c : Char) : Option Nat :=
  if '0' ≤ c ∧ c ≤ '9' then some (c.toNat - '0'.toNat)
  else if 'a' ≤ c ∧ c ≤ 'f' then some (c.toNat - 'a'.toNat + 10)
  else if 'A' ≤ c ∧ c ≤ 'F' then some (c.toNat - 'A'.toNat + 10)
  else none

def parseHex (s : String) : Option Nat :=
  if s.isEmpty then none else
  s.toList.foldl (fun acc c => match acc, hexDigit c with
    | some a, some d => some (a * 16 + d)
    | _, _ => none) (some 0)

def pF (s : String) : Option F :=
  if s.length != 8 then none else
  match parseHex s with
  | some n => some (Float32.ofBits n.toUInt32)
  | none => none

def hex8 (n : Nat) : String :=
  let ds := Nat.toDigits 16 n
  String.ofList (List.replicate (8 - ds.length) '0' ++ ds)

def sF (x : F) : String := if x.isNaN then "nan" else hex8 x.toBits.toNat

def pI (s : String) : Option Int := s.toInt?
def sI (n : Int) : String := toString n

def pB (s : String) : Option Bool :=
  if s == "true" then some true else if s == "false" then some false else none
def sB (b : Bool) : String := if b then "true" else "false"

def pUnitExp (s : String) : Option DUnit :=
  match s.splitOn "," with
  | [a, b] => match a.toInt?, b.toInt? with
    | some m, some t => some ⟨m, t⟩
    | _, _ => none
  | _ => none
def sUnitExp (u : DUnit) : String := s!"{u.mm},{u.s}"

/-- `Q:<f32>:<mm>,<s>` -/
def pQ (s : String) : Option (Quantity F) :=
  match s.splitOn ":" with
  | ["Q", v, u] => match pF v, pUnitExp u with
    | some v, some u => some ⟨v, u⟩
    | _, _ => none
  | _ => none
def sQ (q : Quantity F) : String := s!"Q:{sF q.value}:{sUnitExp q.unit}"

def pState (s : String) : Option (State F) :=
  match s.splitOn "/" with
  | [p, v, a] => match pF p, pF v, pF a with
    | some p, some v, some a => some ⟨p, v, a⟩
    | _, _, _ => none
  | _ => none
def sState (s : State F) : String := s!"{sF s.position}/{sF s.velocity}/{sF s.acceleration}"

def pPosDer (s : String) : Option PosDer :=
  if s == "P" then some .position else if s == "V" then some .velocity
  else if s == "A" then some .acceleration else none
def sPosDer : PosDer → String
  | .position => "P" | .velocity => "V" | .acceleration => "A"

def pCmd (s : String) : Option (Command F) :=
  if s.length != 9 then none else
  match pPosDer (s.take 1).toString, pF (s.drop 1).toString with
  | some pd, some v => some (Command.new pd v)
  | _, _ => none
def sCmd (c : Command F) : String := sPosDer c.kind ++ sF c.raw

/-- value type tags of the protocol -/
inductive Ty | f | b | q | s | c | w
  deriving DecidableEq
def pTy (s : String) : Option Ty :=
  if s == "f" then some .f else if s == "b" then some .b else if s == "q" then some .q
  else if s == "s" then some .s else if s == "c" then some .c else if s == "w" then some .w else none

/-- `w`: words over `a..z` with non-commutative operators (concatenation with an infix mark), cut at 24 letters — see harness enc.rs -/
def pW (s : String) : Option String :=
  if s.startsWith "W:" then
    let r := (s.drop 2).toString
    if r.length ≤ 24 ∧ r.toList.all (fun c => 'a' ≤ c ∧ c ≤ 'z') then some r else none
  else none
def sW (w : String) : String := "W:" ++ w
def wCat (mark : String) (a b : String) : String := String.ofList ((a ++ mark ++ b).toList.take 24)

def pErr (s : String) : Option Err :=
  if s == "EN" then some .fromNone
  else if s.startsWith "E" then
    match (s.drop 1).toString.toNat? with
    | some n => some (.other n)
    | none => none
  else none
def sErr : Err → String
  | .fromNone => "EN"
  | .other n => s!"E{n}"

/-- `<time>@<value>` -/
def pDatum {α : Type} (pv : String → Option α) (s : String) : Option (Datum α) :=
  match s.splitOn "@" with
  | [t, v] => match t.toInt?, pv v with
    | some t, some v => some ⟨t, v⟩
    | _, _ => none
  | _ => none
def sDatum {α : Type} (sv : α → String) (d : Datum α) : String := s!"{d.time}@{sv d.value}"

def pOpt {α : Type} (pv : String → Option α) (s : String) : Option (Option α) :=
  if s == "none" then some none else (pv s).map some
def sOpt {α : Type} (sv : α → String) : Option α → String
  | none => "none"
  | some v => sv v

/-- `E<n>` | `EN` | `N` | `S@<time>@<value>` -/
def pOut {α : Type} (pv : String → Option α) (s : String) : Option (Output α) :=
  if s == "N" then some (.ok none)
  else if s.startsWith "S@" then
    match s.splitOn "@" with
    | ["S", t, v] => match t.toInt?, pv v with
      | some t, some v => some (.ok (some ⟨t, v⟩))
      | _, _ => none
    | _ => none
  else (pErr s).map .error
def sOut {α : Type} (sv : α → String) : Output α → String
  | .error e => sErr e
  | .ok none => "N"
  | .ok (some d) => s!"S@{d.time}@{sv d.value}"

def pTimeOut (s : String) : Option TimeOutput :=
  if s.startsWith "T:" then ((s.drop 2).toString.toInt?).map .ok else (pErr s).map .error
def sTimeOut : TimeOutput → String
  | .ok t => s!"T:{t}"
  | .error e => sErr e

def sUpd : UpdRet → String
  | .ok _ => "ok"
  | .error e => sErr e

def sOrdering : Option Ordering → String
  | some .lt => "lt" | some .eq => "eq" | some .gt => "gt" | none => "none"

def sPanic (p : Panic) : String := s!"PANIC:{p}"

/-- typed operand of group `q` -/
inductive Opnd
  | q (v : Quantity F) | t (n : Int) | d (n : Int) | u (u : DUnit) | f (x : F) | i (n : Int)

def pOpnd (s : String) : Option Opnd :=
  if s.startsWith "Q:" then (pQ s).map .q
  else if s.startsWith "T:" then ((s.drop 2).toString.toInt?).map .t
  else if s.startsWith "D:" then ((s.drop 2).toString.toInt?).map .d
  else if s.startsWith "U:" then (pUnitExp (s.drop 2).toString).map .u
  else if s.startsWith "F:" then (pF (s.drop 2).toString).map .f
  else if s.startsWith "I:" then ((s.drop 2).toString.toInt?).map .i
  else none

def sT (n : Int) : String := s!"T:{n}"
def sD (n : Int) : String := s!"D:{n}"
def sU (u : DUnit) : String := s!"U:{sUnitExp u}"
def sFt (x : F) : String := s!"F:{sF x}"
def sIt (n : Int) : String := s!"I:{n}"

end Rrtk.Wire
