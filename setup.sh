#!/bin/sh
# Build the framework from files on disk only (offline).
set -e
cd "$(dirname "$0")"
python3 tools/gen.py
(cd lean && lake build 2>&1 | tail -3)
(cd harness && CARGO_NET_OFFLINE=true cargo build --offline 2>&1 | tail -3)
