#!/bin/sh
# Build the framework from files on disk only (offline): regenerate tables, build every Lean module (model, driver,
# theorem files, audit command) and the harness in the configurations the quick checks use.
set -e
cd "$(dirname "$0")"
export CARGO_NET_OFFLINE=true
python3 tools/gen.py
(cd lean && lake build 2>&1 | tail -3 && lake build Rrtk.Audit Rrtk.Thm.Lemmas.C17Snapshot Rrtk.Thm.Lemmas.C01Snapshot $(ls Rrtk/Thm/C*.lean Rrtk/Thm/Ext/C*.lean 2>/dev/null | sed 's#/#.#g; s#\.lean$##') 2>&1 | tail -3)
(cd harness && RUSTFLAGS="--cfg rrtk_verif" cargo build --offline --quiet 2>&1 | tail -3
 for f in std,devices libm,devices libm,chk,devices; do
   RUSTFLAGS="--cfg rrtk_verif" cargo build --offline --quiet --no-default-features --features $f --target-dir target/cfg_$(echo $f | tr , _) 2>&1 | tail -3
 done
 for f in std,chk,devices std,chkdbg,devices; do
   RUSTFLAGS="--cfg rrtk_verif" cargo build --offline --quiet --release --no-default-features --features $f --target-dir target/cfg_release_$(echo $f | tr , _) 2>&1 | tail -3
 done)
echo setup done
