#!/bin/bash
# usage: [PREFIX=ben2 SUFFIX=2] benign.sh <AREA>...  — take harmless changes /tmp/ben_<AREA>/_out/b{1..4}_patch.diff, store them under /verif/benign/<AREA>_b<k>/,
# check that the baseline suite still passes with each, and run every claimed check against it in isolation: any alarm is a false alarm
# (or the change is not harmless after all) and needs a look.
cd /verif
mkdir -p work/iso benign
for a in "$@"; do
  for k in 1 2 3 4 5; do
    src=/tmp/${PREFIX:-ben}_$a/_out
    name=${a}${SUFFIX}_b$k
    d=benign/$name
    if [ -f $src/b${k}_patch.diff ]; then
      mkdir -p $d; cp $src/b${k}_patch.diff $d/patch.diff; cp $src/b${k}_meta.txt $d/notes.txt 2>/dev/null
    fi
    [ -f $d/patch.diff ] || continue
    python3 tools/iso.py $d/patch.diff $CHECKS > work/iso/ben_$name.run 2>&1
    echo "$name: $(grep DETECTED-BY work/iso/ben_$name.run)"
  done
done
